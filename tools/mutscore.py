#!/usr/bin/env python3
"""Mutation score of the checks (a maintenance tool, not part of any verdict).

Takes a seeded sample of one-token mutations of the library source (comparison operators, `+ 1` / `- 1`, `ceil_mul` <-> `floor_mul`,
`max` <-> `min`, `ALIGN` <-> `SIZE`), keeps those that still compile and pass the library's own test suite, and runs every check
against each surviving mutant in a scratch clone outside /repo and /verif. A mutant no check flags is either equivalent or a blind
spot; the list is printed at the end and written to .build/mutscore.jsonl.

usage: tools/mutscore.py [--n 30] [--seed 1] [--props C01,C02,...]
"""
import argparse, json, os, random, re, shutil, subprocess, sys, hashlib, time

VERIF = os.path.dirname(os.path.dirname(os.path.abspath(__file__)))
REPO = "/repo"
FILES = ["base/src/utils/mod.rs", "base/src/utils/mem.rs", "base/src/utils/iter.rs", "base/src/traits.rs", "base/src/emplacer.rs",
         "containers/src/vec.rs", "containers/src/string.rs", "containers/src/flex.rs",
         "io/src/common/io.rs", "io/src/blocking/io.rs", "io/src/blocking/recv.rs", "io/src/blocking/send.rs",
         "io/src/async_/io.rs", "io/src/async_/recv.rs", "io/src/async_/send.rs",
         "macros/src/items/base.rs", "macros/src/items/cast.rs", "macros/src/items/init.rs", "macros/src/items/unsized_.rs",
         "macros/src/items/enum_.rs", "macros/src/items/unsized_enum.rs", "macros/src/items/tag.rs", "portable/src/int.rs", "portable/src/float.rs"]
RULES = [(r" < ", " <= "), (r" <= ", " < "), (r" > ", " >= "), (r" >= ", " > "), (r" \+ 1\b", ""), (r" - 1\b", ""),
         (r"\bceil_mul\(", "floor_mul("), (r"\bfloor_mul\(", "ceil_mul("), (r"\bmax\(", "min("), (r"\bmin\(", "max("),
         (r"::ALIGN\b", "::SIZE"), (r"\bSelf::DATA_OFFSET\b", "Self::ALIGN"), (r" == 0\b", " != 0"), (r" != 0\b", " == 0"),
         (r"\bto_le_bytes\b", "to_be_bytes"), (r"\bto_be_bytes\b", "to_le_bytes"), (r"\bfrom_le_bytes\b", "from_be_bytes"), (r"\bfrom_be_bytes\b", "from_le_bytes"),
         (r"<true, ", "<false, "), (r"<false, ", "<true, "), (r", true>", ", false>"), (r", false>", ", true>"),
         (r" && ", " || "), (r" \|\| ", " && "), (r" \+= ", " -= "), (r"\.map_err\(\|e\| e\.offset\([^()]*(?:\([^()]*\)[^()]*)*\)\)", ""),
         (r"\bSelf::OFFSET_SIZE\b", "Self::ALIGN"), (r"\bT::SIZE\b", "T::ALIGN"), (r"\bL::SIZE\b", "L::ALIGN"), (r"\bpoisoned = true\b", "poisoned = false"),
         (r"\.clear\(\);", ";"), (r"\bwindow\.start\b", "window.end")]

def sites():
    out = []
    for f in FILES:
        p = os.path.join(REPO, f)
        if not os.path.exists(p): continue
        src = open(p).read()
        cut = len(src)
        for marker in ("#[cfg(test)]", "#[cfg(all(test"):
            i = src.find(marker)
            if i >= 0: cut = min(cut, i)
        for li, line in enumerate(src[:cut].split("\n")):
            code = line.split("//")[0]
            if not code.strip() or code.strip().startswith(("#", "use ", "pub use")): continue
            if "<" in code and (">" in code) and ("fn " in code or "impl" in code or "where" in code or "::<" in code):
                # generics, not comparisons
                rules = [r for r in RULES if r[0].strip() not in ("<", "<=", ">", ">=")]
            else:
                rules = RULES
            for rx, rep in rules:
                for m in re.finditer(rx, code):
                    out.append((f, li, m.start(), m.end(), rep, line))
    return out

def sh(cmd, cwd=None, env=None, timeout=3600):
    e = dict(os.environ); e["CARGO_NET_OFFLINE"] = "true"
    if env: e.update(env)
    try:
        p = subprocess.run(cmd, cwd=cwd, env=e, stdout=subprocess.PIPE, stderr=subprocess.STDOUT, timeout=timeout)
        return p.returncode, p.stdout.decode(errors="replace")
    except subprocess.TimeoutExpired:
        return 124, "timeout"

def main():
    ap = argparse.ArgumentParser()
    ap.add_argument("--n", type=int, default=30)
    ap.add_argument("--seed", type=int, default=1)
    ap.add_argument("--props", default=",".join(f"C{i:02d}" for i in range(1, 21)))
    ap.add_argument("--files", default="", help="comma-separated substring filters on the file path (e.g. io/,macros/)")
    a = ap.parse_args()
    props = a.props.split(",")
    pats = [q for q in a.files.split(",") if q] or [""]
    all_sites = [x for x in sites() if any(q in x[0] for q in pats)]
    rnd = random.Random(a.seed)
    rnd.shuffle(all_sites)
    outp = os.path.join(VERIF, ".build", "mutscore.jsonl")
    os.makedirs(os.path.dirname(outp), exist_ok=True)
    done, tried = 0, 0
    print(f"{len(all_sites)} candidate sites", flush=True)
    for (f, li, s0, s1, rep, line) in all_sites:
        if done >= a.n: break
        tried += 1
        wt = f"/tmp/mutscore-{os.getpid()}"
        shutil.rmtree(wt, ignore_errors=True)
        sh(["git", "clone", "-q", REPO, wt])
        p = os.path.join(wt, f)
        lines = open(p).read().split("\n")
        if lines[li] != line:
            shutil.rmtree(wt, ignore_errors=True); continue
        lines[li] = line[:s0] + rep + line[s1:]
        open(p, "w").write("\n".join(lines))
        desc = f"{f}:{li + 1}: `{line.strip()}` -> `{lines[li].strip()}`"
        rc, out = sh(["cargo", "test", "--workspace", "--offline"], cwd=wt, timeout=1200)
        if rc != 0:
            kind = "does not compile" if "error[" in out or "error:" in out and "test result" not in out else "killed by the library's tests"
            print(f"[skip] {desc}: {kind}", flush=True)
            shutil.rmtree(wt, ignore_errors=True)
            continue
        res = {}
        for pr in props:
            rc, out = sh([os.path.join(VERIF, "check"), pr], cwd=VERIF, env={"VERIF_REPO": wt}, timeout=3600)
            v = [l for l in out.split("\n") if l.startswith("VIOLATION")]
            res[pr] = dict(rc=rc, concrete=any("no-failing-input-found" not in l for l in v), n=len(v))
        caught = [pr for pr in props if res[pr]["rc"] != 0]
        concrete = [pr for pr in props if res[pr]["concrete"]]
        rec = dict(mutant=desc, caught_by=caught, with_failing_input=concrete)
        open(outp, "a").write(json.dumps(rec) + "\n")
        print(("[CAUGHT] " if caught else "[MISSED] ") + desc + f" :: {caught} (failing input: {concrete})", flush=True)
        done += 1
        tag = hashlib.sha256(wt.encode()).hexdigest()[:8]
        for d in os.listdir(os.path.join(VERIF, ".build")):
            if d.startswith("harness-" + tag): shutil.rmtree(os.path.join(VERIF, ".build", d), ignore_errors=True)
        shutil.rmtree(os.path.join(VERIF, "replays"), ignore_errors=True)
        shutil.rmtree(wt, ignore_errors=True)
    # restore the generated formulas for /repo
    sh([sys.executable, os.path.join(VERIF, "tools", "extract_formulas.py")])
    print(f"{done} surviving mutants evaluated out of {tried} tried", flush=True)

if __name__ == "__main__":
    main()
