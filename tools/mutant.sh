#!/bin/bash
# usage: tools/mutant.sh <name> <revert:SHA | patch:FILE> <prop> [<prop>...]
# Applies a change to a scratch worktree of /repo, runs the given checks against it, cleans up.
set -u
name=$1; what=$2; shift 2
wt=$(mktemp -d /tmp/fvmut.XXXXXX)
git -C /repo worktree add -q --detach "$wt" HEAD || exit 2
case "$what" in
  revert:*) git -C "$wt" revert -n "${what#revert:}" >/dev/null 2>&1 || { echo "revert failed"; } ;;
  patch:*) git -C "$wt" apply "${what#patch:}" || { echo "patch failed"; } ;;
esac
for p in "$@"; do
  out=$(VERIF_REPO="$wt" /verif/check "$p" 2>&1); rc=$?
  echo "[$name] $p rc=$rc $(echo "$out" | grep -c '^VIOLATION') violation line(s); $(echo "$out" | grep '^VIOLATION' | head -1)"
  echo "$out" | grep "^\[$p\]"
done
tag=$(python3 -c "import hashlib,sys;print(hashlib.sha256(sys.argv[1].encode()).hexdigest()[:8])" "$wt")
rm -rf "/verif/.build/harness-$tag"
git -C /repo worktree remove --force "$wt"
rm -f /verif/replays/*.json
python3 /verif/tools/extract_formulas.py >/dev/null
