#!/usr/bin/env python3
"""Formula bridge (translator): regenerates lean/FV/Gen/Formulas.lean from the repository's source on every run.

For a fixed list of *sites* (a file, a regular expression that locates one arithmetic expression, and a renaming of the
atoms that occur in it) the expression text is taken from the source, parsed with a deliberately small grammar
(names, numbers, calls of max / min / ceil_mul / floor_mul, + - * /, parentheses, `if a >= b { a } else { b }`) and
emitted as a Lean definition over Nat.  `lean/FV/Bridge.lean` (hand written) proves each generated definition equal to the
corresponding expression of the model.  A changed formula makes a bridge theorem fail; a site that is not found or an
expression outside the grammar is reported as UNTRANSLATABLE (emitted as a definition whose bridge theorem cannot hold).
Also extracts the table of portable scalar instantiations (`derive_{le,be}_{int_signed,int_unsigned,float}!` and the
`le::` / `be::` aliases).
"""
import re, sys, os

REPO = os.environ.get("VERIF_REPO", "/repo")

# ---- tiny expression parser ----------------------------------------------------------------------
TOK = re.compile(r"\s*(?:(\d+)|([A-Za-z_][A-Za-z0-9_]*)|(>=|<=|==|!=|\|\||&&|[-+*/(),{}<>!]))")
class ParseError(Exception):
    pass
def tokenize(s):
    out, i = [], 0
    s = s.strip()
    while i < len(s):
        m = TOK.match(s, i)
        if not m:
            raise ParseError(f"bad token at {s[i:i+20]!r}")
        out.append(m.group(1) or m.group(2) or m.group(3))
        i = m.end()
    return out
class P:
    def __init__(self, toks): self.t, self.i = toks, 0
    def peek(self): return self.t[self.i] if self.i < len(self.t) else None
    def eat(self, x=None):
        tok = self.peek()
        if tok is None or (x is not None and tok != x):
            raise ParseError(f"expected {x}, got {tok}")
        self.i += 1
        return tok
    def expr(self):
        if self.peek() == "if":
            self.eat("if"); a = self.sum(); op = self.eat()
            if op not in (">=", "<=", "<", ">", "=="): raise ParseError("comparison expected")
            b = self.sum(); self.eat("{"); x = self.expr(); self.eat("}"); self.eat("else"); self.eat("{"); y = self.expr(); self.eat("}")
            return ("if", op, a, b, x, y)
        return self.sum()
    def sum(self):
        l = self.prod()
        while self.peek() in ("+", "-"):
            op = self.eat(); r = self.prod(); l = (op, l, r)
        return l
    def prod(self):
        l = self.atom()
        while self.peek() in ("*", "/"):
            op = self.eat(); r = self.atom(); l = (op, l, r)
        return l
    def atom(self):
        tok = self.peek()
        if tok == "(":
            self.eat("("); e = self.expr(); self.eat(")"); return e
        if tok is None: raise ParseError("unexpected end")
        if tok.isdigit(): self.eat(); return ("num", int(tok))
        if re.match(r"[A-Za-z_]", tok):
            self.eat()
            if self.peek() == "(":
                self.eat("("); args = []
                if self.peek() != ")":
                    args.append(self.expr())
                    while self.peek() == ",":
                        self.eat(",")
                        if self.peek() == ")": break
                        args.append(self.expr())
                self.eat(")")
                return ("call", tok, args)
            return ("var", tok)
        raise ParseError(f"unexpected {tok}")
def parse(s):
    p = P(tokenize(s)); e = p.expr()
    if p.peek() is not None: raise ParseError(f"trailing {p.peek()}")
    return e

# ---- conditions: `||`, `&&`, `!`, comparisons of arithmetic expressions, boolean atoms ----------------
CMP = ("<", ">", "<=", ">=", "==", "!=")
class PB(P):
    def __init__(self, toks, boolvars): super().__init__(toks); self.boolvars = boolvars
    def bor(self):
        l = self.band()
        while self.peek() == "||":
            self.eat(); r = self.band(); l = ("or", l, r)
        return l
    def band(self):
        l = self.bnot()
        while self.peek() == "&&":
            self.eat(); r = self.bnot(); l = ("and", l, r)
        return l
    def bnot(self):
        if self.peek() == "!":
            self.eat(); return ("not", self.bnot())
        if self.peek() == "(":
            # a parenthesised condition, unless what follows the closing parenthesis continues an arithmetic expression
            save = self.i
            try:
                self.eat("("); e = self.bor(); self.eat(")")
                if self.peek() not in CMP + ("+", "-", "*", "/"):
                    return e
            except ParseError:
                pass
            self.i = save
        if self.peek() in self.boolvars:
            return ("bvar", self.eat())
        a = self.sum(); op = self.eat()
        if op not in CMP: raise ParseError(f"comparison expected, got {op}")
        b = self.sum()
        return ("cmp", op, a, b)
def parse_cond(s, boolvars):
    p = PB(tokenize(s), boolvars); e = p.bor()
    if p.peek() is not None: raise ParseError(f"trailing {p.peek()}")
    return e
LEANCMP = {"<": "<", ">": ">", "<=": "≤", ">=": "≥", "==": "=", "!=": "≠"}
def lean_cond(e):
    k = e[0]
    if k == "or": return f"({lean_cond(e[1])} || {lean_cond(e[2])})"
    if k == "and": return f"({lean_cond(e[1])} && {lean_cond(e[2])})"
    if k == "not": return f"(!{lean_cond(e[1])})"
    if k == "bvar": return e[1]
    return f"decide ({lean(e[2])} {LEANCMP[e[1]]} {lean(e[3])})"
def cond_vars(e, nat, boo):
    k = e[0]
    if k in ("or", "and"): cond_vars(e[1], nat, boo); cond_vars(e[2], nat, boo)
    elif k == "not": cond_vars(e[1], nat, boo)
    elif k == "bvar":
        if e[1] not in boo: boo.append(e[1])
    else:
        free_vars(e[2], nat); free_vars(e[3], nat)
FUN = {"max": "Gen.max", "min": "Gen.min", "ceil_mul": "Gen.ceilMul", "floor_mul": "Gen.floorMul"}
def lean(e, funs=FUN):
    k = e[0]
    if k == "num": return str(e[1])
    if k == "var": return e[1]
    if k == "call":
        if e[1] not in funs: raise ParseError(f"unknown function {e[1]}")
        return "(" + funs[e[1]] + "".join(" " + lean(a, funs) for a in e[2]) + ")"
    if k == "if": return f"(if {lean(e[2], funs)} {'≥' if e[1] == '>=' else '≤' if e[1] == '<=' else e[1]} {lean(e[3], funs)} then {lean(e[4], funs)} else {lean(e[5], funs)})"
    return f"({lean(e[1], funs)} {k} {lean(e[2], funs)})"
def free_vars(e, acc=None):
    acc = acc if acc is not None else []
    if e[0] == "var":
        if e[1] not in acc: acc.append(e[1])
    elif e[0] == "call":
        for a in e[2]: free_vars(a, acc)
    elif e[0] == "if":
        for a in e[2:]: free_vars(a, acc)
    elif e[0] != "num":
        free_vars(e[1], acc); free_vars(e[2], acc)
    return acc

# ---- sites ---------------------------------------------------------------------------------------
# (lean name, file, regex with one group = the expression, [(pattern, replacement)...] applied to the captured text, parameter order)
PATH_PREFIX = [(r"::flatty::utils::iter::", ""), (r"::flatty::utils::", ""), (r"\$crate::utils::iter::", ""), (r"\$crate::utils::", ""), (r"::flatty::traits::", ""), (r"\$crate::traits::", "")]
def S(name, file, rx, subs, params, flags=re.S):
    return dict(name=name, file=file, rx=rx, subs=PATH_PREFIX + subs, params=params, flags=flags)
SITES = [
    # base/src/utils/mod.rs
    S("max", "base/src/utils/mod.rs", r"pub const fn max\(a: usize, b: usize\) -> usize \{(.*?)\n\}", [], ["a", "b"]),
    S("min", "base/src/utils/mod.rs", r"pub const fn min\(a: usize, b: usize\) -> usize \{(.*?)\n\}", [], ["a", "b"]),
    S("ceilMul", "base/src/utils/mod.rs", r"pub const fn ceil_mul\(x: usize, m: usize\) -> usize \{(.*?)\n\}", [], ["x", "m"]),
    S("floorMul", "base/src/utils/mod.rs", r"pub const fn floor_mul\(x: usize, m: usize\) -> usize \{(.*?)\n\}", [], ["x", "m"]),
    # base/src/error.rs: what `Error::offset` does to the position
    S("errOffset", "base/src/error.rs", r"pub fn offset\(mut self, offset: usize\) -> Self \{\s*(self\.pos \+= offset);\s*self\s*\}", [(r"self\.pos \+= ", "pos + ")], ["pos", "offset"]),
    # base/src/primitive.rs: `[T; N]::validate_unchecked` — element `i` is validated on exactly its own `T::SIZE` bytes and its error is offset by its start
    S("arrElemStart", "base/src/primitive.rs", r"for i in 0\.\.N \{\s*T::validate_unchecked\(bytes\.get_unchecked\(\((.*?)\)\.\.\)\.get_unchecked\(\.\.T::SIZE\)\)\.map_err", [(r"T::SIZE", "tsize")], ["i", "tsize"]),
    S("arrElemLen", "base/src/primitive.rs", r"for i in 0\.\.N \{\s*T::validate_unchecked\(bytes\.get_unchecked\(\(i \* T::SIZE\)\.\.\)\.get_unchecked\(\.\.(.*?)\)\)\.map_err", [(r"T::SIZE", "tsize")], ["tsize"]),
    S("arrElemErrPos", "base/src/primitive.rs", r"\.get_unchecked\(\.\.T::SIZE\)\)\.map_err\(\|e\| e\.offset\((.*?)\)\)\?;\s*\}\s*Ok\(\(\)\)", [(r"T::SIZE", "tsize")], ["i", "tsize"]),
    # base/src/traits.rs, base/src/emplacer.rs: the checked entry points test the *whole* input (alignment, minimum size) and then run the
    # unchecked function on the same bytes; `from_bytes` / `from_mut_bytes` hand out the view only after `validate`; `assign_in_place` runs the
    # emplacer unchecked on `as_mut_bytes()`. Shape sites: the captured atom is what is tested / mapped.
    S("traitsValidate", "base/src/traits.rs", r"fn validate\(bytes: &\[u8\]\) -> Result<\(\), Error> \{\s*check_align_and_min_size::<Self>\((\w+)\)\?;\s*unsafe \{ Self::validate_unchecked\(bytes\) \}\s*\}", [(r"^bytes$", "whole")], ["whole"]),
    S("traitsFromBytes", "base/src/traits.rs", r"fn from_bytes\(bytes: &\[u8\]\) -> Result<&Self, Error> \{\s*Self::validate\((\w+)\)\?;\s*Ok\(unsafe \{ Self::from_bytes_unchecked\(bytes\) \}\)\s*\}", [(r"^bytes$", "whole")], ["whole"]),
    S("traitsFromMutBytes", "base/src/traits.rs", r"fn from_mut_bytes\(bytes: &mut \[u8\]\) -> Result<&mut Self, Error> \{\s*Self::validate\((\w+)\)\?;\s*Ok\(unsafe \{ Self::from_mut_bytes_unchecked\(bytes\) \}\)\s*\}", [(r"^bytes$", "whole")], ["whole"]),
    S("emplacerEmplace", "base/src/emplacer.rs", r"fn emplace\(self, bytes: &mut \[u8\]\) -> Result<&mut T, Error> \{\s*check_align_and_min_size::<T>\((\w+)\)\?;\s*unsafe \{ self\.emplace_unchecked\(bytes\) \}\s*\}", [(r"^bytes$", "whole")], ["whole"]),
    S("traitsNewInPlace", "base/src/traits.rs", r"fn new_in_place<I: Emplacer<Self>>\(bytes: &mut \[u8\], emplacer: I\) -> Result<&mut Self, Error> \{\s*emplacer\.emplace\((\w+)\)\?;\s*Ok\(unsafe \{ Self::from_mut_bytes_unchecked\(bytes\) \}\)\s*\}", [(r"^bytes$", "whole")], ["whole"]),
    S("traitsAssign", "base/src/traits.rs", r"fn assign_in_place<I: Emplacer<Self>>\(&mut self, emplacer: I\) -> Result<&mut Self, Error> \{\s*unsafe \{\s*let bytes = self\.as_mut_bytes\(\);\s*emplacer\.emplace_unchecked\((\w+)\)\?;\s*Ok\(Self::from_mut_bytes_unchecked\(bytes\)\)\s*\}\s*\}", [(r"^bytes$", "view")], ["view"]),
    # base/src/utils/iter.rs
    S("singleMinSize", "base/src/utils/iter.rs", r"impl<T: Flat \+ \?Sized> TypeIter for SingleType<T> \{.*?fn min_size\(&self, pos: usize\) -> usize \{(.*?)\}", [(r"T::ALIGN", "talign"), (r"T::MIN_SIZE", "tmin")], ["pos", "talign", "tmin"]),
    S("twoMinSizeArg", "base/src/utils/iter.rs", r"impl<T: Flat \+ Sized, I: TypeIter> TypeIter for TwoOrMoreTypes<T, I> \{.*?fn min_size\(&self, pos: usize\) -> usize \{\s*self\.next\.min_size\((.*?)\)\s*\}", [(r"T::ALIGN", "talign"), (r"T::SIZE", "tsize")], ["pos", "talign", "tsize"]),
    S("twoAlign", "base/src/utils/iter.rs", r"impl<T: Flat \+ Sized, I: TypeIter> TypeIter for TwoOrMoreTypes<T, I> \{.*?fn align\(&self\) -> usize \{(.*?)\}", [(r"T::ALIGN", "talign"), (r"self\.next\.align\(\)", "nextalign")], ["talign", "nextalign"]),
    S("posNext", "base/src/utils/iter.rs", r"impl<T: Flat \+ Sized, I: TypeIter> PosIter<TwoOrMoreTypes<T, I>> \{.*?pos: (.*?),\n", [(r"self\.pos", "pos"), (r"T::SIZE", "tsize"), (r"I::Item::ALIGN", "nextalign")], ["pos", "tsize", "nextalign"]),
    # DataIter::next: how many bytes the yielded field's slice gets (structural: prev_pos is taken before, next_pos after the position step)
    S("iterSplitLen", "base/src/utils/iter.rs", r"pub fn next\(self\) -> \(DataIter<'a, D, I>, D::Output<T>\) \{\s*let prev_pos = self\.iter\.pos\(\);\s*let iter = self\.iter\.next\(\);\s*let next_pos = iter\.pos\(\);\s*let \(prev_data, next_data\) = self\.data\.split\((.*?)\);\s*\(\s*DataIter \{\s*_ghost: PhantomData,\s*data: next_data,\s*iter,\s*\},\s*prev_data\.value\(\),\s*\)\s*\}", [(r"prev_pos", "prev"), (r"next_pos", "next")], ["prev", "next"]),
    # ValidateIter::validate_all: where a field's error is reported (structural: the field at the walker's own position is validated on the
    # remaining data, its error is offset, and only then the walker steps)
    S("iterValidatePosStep", "base/src/utils/iter.rs", r"for BytesIter<'a, TwoOrMoreTypes<T, I>>\s*where\s*BytesIter<'a, I>: ValidateIter,\s*I::Item: 'a,\s*\{\s*fn validate_all\(self\) -> Result<\(\), Error> \{\s*unsafe \{ T::validate_unchecked\(self\.clone\(\)\.value\(\)\) \}\.map_err\(\|e\| e\.offset\((.*?)\)\)\?;\s*self\.next\(\)\.0\.validate_all\(\)\s*\}", [(r"self\.pos\(\)", "pos")], ["pos"]),
    S("iterValidatePosLast", "base/src/utils/iter.rs", r"impl<'a, T: Flat \+ \?Sized> ValidateIter for BytesIter<'a, SingleType<T>> \{\s*fn validate_all\(self\) -> Result<\(\), Error> \{\s*self\.assert_last\(\);\s*unsafe \{ T::validate_unchecked\(self\.clone\(\)\.value\(\)\) \}\.map_err\(\|e\| e\.offset\((.*?)\)\)\?;\s*Ok\(\(\)\)\s*\}", [(r"self\.pos\(\)", "pos")], ["pos"]),
    S("foldSizeDynStep", "base/src/utils/iter.rs", r"for BytesIter<'a, TwoOrMoreTypes<T, I>>\s*where.*?unsafe fn fold_size\(self, size: usize\) -> usize \{\s*self\.next\(\)\.0\.fold_size\((.*?)\)\s*\}", [(r"T::ALIGN", "talign"), (r"T::SIZE", "tsize")], ["size", "talign", "tsize"]),
    S("foldSizeDynLast", "base/src/utils/iter.rs", r"impl<'a, T: Flat \+ \?Sized> FoldSizeIter for BytesIter<'a, SingleType<T>> \{\s*unsafe fn fold_size\(self, size: usize\) -> usize \{(.*?)\n    \}", [(r"\(\*T::ptr_from_bytes\(self\.finalize\(\) as \*const _ as \*mut _\)\)\.size\(\)", "lastsize"), (r"T::ALIGN", "talign")], ["size", "talign", "lastsize"]),
    S("foldSizeStep", "base/src/utils/iter.rs", r"macro_rules! fold_size \{\s*\(\$accum:expr; \$first_type:ty, \$\(\$types:ty\),\+ \$\(,\)\?\) => \{\s*\$crate::utils::iter::fold_size!\(\s*(.*?);\s*\$\( \$types \),\*", [(r"<\$first_type as FlatBase>::ALIGN", "talign"), (r"<\$first_type as FlatSized>::SIZE", "tsize"), (r"\$accum", "accum")], ["accum", "talign", "tsize"]),
    S("foldSizeLast", "base/src/utils/iter.rs", r"macro_rules! fold_size \{.*?\(\$accum:expr; \$type:ty \$\(,\)\?\) => \{(.*?)\};\s*\}", [(r"<\$type as FlatBase>::ALIGN", "talign"), (r"<\$type as FlatSized>::SIZE", "tsize"), (r"\$accum", "accum")], ["accum", "talign", "tsize"]),
    S("foldMinSizeStep", "base/src/utils/iter.rs", r"macro_rules! fold_min_size \{\s*\(\$accum:expr; \$first_type:ty, \$\(\$types:ty\),\+ \$\(,\)\?\) => \{\s*\$crate::utils::iter::fold_min_size!\(\s*(.*?);\s*\$\( \$types \),\*", [(r"<\$first_type as FlatBase>::ALIGN", "talign"), (r"<\$first_type as FlatSized>::SIZE", "tsize"), (r"\$accum", "accum")], ["accum", "talign", "tsize"]),
    S("foldMinSizeLast", "base/src/utils/iter.rs", r"macro_rules! fold_min_size \{.*?\(\$accum:expr; \$type:ty \$\(,\)\?\) => \{(.*?)\};\s*\}", [(r"<\$type as FlatBase>::ALIGN", "talign"), (r"<\$type as FlatBase>::MIN_SIZE", "tmin"), (r"\$accum", "accum")], ["accum", "talign", "tmin"]),
    # containers/src/vec.rs
    S("vecElemErrPos", "containers/src/vec.rs", r"for \(i, x\) in unsafe \{ this\.data\(\)\.get_unchecked\(\.\.this\.len\(\)\) \}\.iter\(\)\.enumerate\(\) \{\s*unsafe \{ T::validate_ptr\(x\.as_ptr\(\)\) \}\.map_err\(\|e\| e\.offset\((.*?)\)\)\?;", [(r"Self::DATA_OFFSET", "doff"), (r"T::SIZE", "tsize")], ["doff", "i", "tsize"]),
    S("strUtf8ErrPos", "containers/src/string.rs", r"Err\(e\) => Err\(Error \{\s*kind: ErrorKind::InvalidData,\s*pos: (.*?),\s*\}\)", [(r"Self::DATA_OFFSET", "doff"), (r"e\.valid_up_to\(\)", "upto")], ["doff", "upto"]),
    S("vecDataOffset", "containers/src/vec.rs", r"const DATA_OFFSET: usize = (.*?);", [(r"L::SIZE", "lsize"), (r"T::ALIGN", "talign")], ["lsize", "talign"]),
    S("vecAlign", "containers/src/vec.rs", r"unsafe impl<T, L> FlatBase for FlatVec<T, L>.*?const ALIGN: usize = (.*?);", [(r"L::ALIGN", "lalign"), (r"T::ALIGN", "talign")], ["lalign", "talign"]),
    S("vecMinSize", "containers/src/vec.rs", r"unsafe impl<T, L> FlatBase for FlatVec<T, L>.*?const MIN_SIZE: usize = (.*?);", [(r"Self::DATA_OFFSET", "doff")], ["doff"]),
    S("vecSize", "containers/src/vec.rs", r"unsafe impl<T, L> FlatBase for FlatVec<T, L>.*?fn size\(&self\) -> usize \{(.*?)\}", [(r"Self::DATA_OFFSET", "doff"), (r"Self::ALIGN", "align"), (r"T::SIZE", "tsize"), (r"self\.len\(\)", "len")], ["doff", "align", "tsize", "len"]),
    S("vecSlots", "containers/src/vec.rs", r"let meta = if T::SIZE != 0 \{(.*?)\} else \{\s*usize::MAX\s*\};", [(r"slice_ptr_len\(bytes\)", "n"), (r"Self::DATA_OFFSET", "doff"), (r"Self::ALIGN", "align"), (r"T::SIZE", "tsize")], ["n", "doff", "align", "tsize"]),
    S("vecViewLen", "containers/src/vec.rs", r"unsafe fn ptr_to_bytes\(this: \*mut Self\) -> \*mut \[u8\] \{\s*let len = (.*?);", [(r"slice_ptr_len\(this as \*mut \[T\]\)", "slots"), (r"Self::DATA_OFFSET", "doff"), (r"Self::ALIGN", "align"), (r"T::SIZE", "tsize")], ["doff", "align", "tsize", "slots"]),
    # containers/src/string.rs
    S("strDataOffset", "containers/src/string.rs", r"const DATA_OFFSET: usize = (.*?);", [(r"L::SIZE", "lsize")], ["lsize"]),
    S("strAlign", "containers/src/string.rs", r"const ALIGN: usize = (.*?);", [(r"L::ALIGN", "lalign")], ["lalign"]),
    S("strSize", "containers/src/string.rs", r"fn size\(&self\) -> usize \{(.*?)\}", [(r"Self::DATA_OFFSET", "doff"), (r"Self::ALIGN", "align"), (r"self\.len\(\)", "len")], ["doff", "align", "len"]),
    S("strCap", "containers/src/string.rs", r"let meta = (.*?);", [(r"slice_ptr_len\(bytes\)", "n"), (r"Self::DATA_OFFSET", "doff"), (r"Self::ALIGN", "align")], ["n", "doff", "align"]),
    # containers/src/flex.rs
    S("flexOffsetSize", "containers/src/flex.rs", r"const OFFSET_SIZE: usize = (.*?);", [(r"L::SIZE", "lsize"), (r"T::ALIGN", "talign")], ["lsize", "talign"]),
    S("flexAlign", "containers/src/flex.rs", r"unsafe impl<T, L> FlatBase for FlexVec<T, L>.*?const ALIGN: usize = (.*?);", [(r"L::ALIGN", "lalign"), (r"T::ALIGN", "talign")], ["lalign", "talign"]),
    S("flexMinSize", "containers/src/flex.rs", r"unsafe impl<T, L> FlatBase for FlexVec<T, L>.*?const MIN_SIZE: usize = (.*?);", [(r"Self::OFFSET_SIZE", "os")], ["os"]),
    S("flexViewLen", "containers/src/flex.rs", r"unsafe fn ptr_from_bytes\(bytes: \*mut \[u8\]\) -> \*mut Self \{\s*ptr::slice_from_raw_parts_mut\(bytes as \*mut u8, (.*?)\) as \*mut Self", [(r"slice_ptr_len\(bytes\)", "n"), (r"Self::ALIGN", "align")], ["n", "align"]),
    S("flexSizeLast", "containers/src/flex.rs", r"None => (iter\.pos \+ Self::OFFSET_SIZE \+ .*?),\n", [(r"T::from_bytes\(last_payload\)\.unwrap\(\)\.size\(\)", "isz"), (r"iter\.pos", "pos"), (r"Self::OFFSET_SIZE", "os"), (r"Self::ALIGN", "align")], ["pos", "os", "align", "isz"]),
    S("flexSizeTerm", "containers/src/flex.rs", r"Some\(_\) => (iter\.pos \+ Self::OFFSET_SIZE),", [(r"iter\.pos", "pos"), (r"Self::OFFSET_SIZE", "os")], ["pos", "os"]),
    S("flexPushSeal", "containers/src/flex.rs", r"let payload_size = (ceil_mul\(T::from_bytes\(payload\)\?\.size\(\), Self::ALIGN\));", [(r"T::from_bytes\(payload\)\?\.size\(\)", "isz"), (r"Self::ALIGN", "align")], ["isz", "align"]),
    S("flexFillItem", "containers/src/flex.rs", r"let payload_size = (ceil_mul\(item\.size\(\), FlexVec::<T, L>::ALIGN\));", [(r"item\.size\(\)", "isz"), (r"FlexVec::<T, L>::ALIGN", "align")], ["isz", "align"]),
    # `push`: the item is emplaced first (its error shifted by this much), then the new slot is marked, then the previous item is sealed —
    # the site is found only while the three statements stand in that order
    S("flexItemErrPos", "containers/src/flex.rs", r"loop \{\s*let pos = iter\.pos;\s*match iter\.next\(\) \{\s*Some\(item_bytes\) => T::validate\(item_bytes\?\)\.map_err\(\|e\| e\.offset\((.*?)\)\)\?,\s*None => break Ok\(\(\)\),", [(r"Self::OFFSET_SIZE", "os")], ["pos", "os"]),
    S("flexSlotReadErrPos", "containers/src/flex.rs", r"let next_offset = match L::from_bytes\(data\.bytes\(\)\) \{\s*Ok\(x\) => x\.to_usize\(\)\.unwrap\(\),\s*Err\(e\) => return Some\(Err\(e\.offset\((.*?)\)\)\),", [(r"self\.pos", "pos")], ["pos"]),
    S("flexFillItemErrPos", "containers/src/flex.rs", r"let item = match item_emplacer\.emplace\(payload\) \{\s*Ok\(item\) => item,\s*Err\(e\) => \{\s*result = Err\(e\.offset\((.*?)\)\);\s*data = offset_slot;\s*break;", [(r"offset_size", "os")], ["pos", "os"]),
    S("flexPushItemErrPos", "containers/src/flex.rs", r"let \(offset_slot, payload\) = data\.split_at_mut\(offset_size\);\s*(?://[^\n]*\n\s*)*let item = emplacer\.emplace\(payload\)\.map_err\(\|e\| e\.offset\((.*?)\)\)\?;\s*L::max_value\(\)\.emplace\(offset_slot\)\?;\s*if let Some\(\(last_offset_slot, sealed\)\) = last_slot \{\s*sealed\.emplace\(last_offset_slot\)\?;\s*\}\s*Ok\(item\)", [(r"offset_size", "os")], ["pos", "os"]),
    S("flexValidateFloor", "containers/src/flex.rs", r"let bytes = unsafe \{ bytes\.get_unchecked\(\.\.(floor_mul\(bytes\.len\(\), Self::ALIGN\))\) \};", [(r"bytes\.len\(\)", "n"), (r"Self::ALIGN", "align")], ["n", "align"]),
    # macros/src/items/base.rs
    S("structMinSize", "macros/src/items/base.rs", r"Data::Struct\(struct_data\) => \{\s*let contents = min_size_collect_fields\(&struct_data\.fields\);\s*quote! \{(.*?)\}\s*\}", [(r"#contents", "contents"), (r"<Self as FlatBase>::ALIGN", "align")], ["contents", "align"]),
    S("enumMinSize", "macros/src/items/base.rs", r"quote! \{\s*(::flatty::utils::ceil_mul\(Self::DATA_OFFSET \+ #contents, <Self as ::flatty::traits::FlatBase>::ALIGN\))", [(r"#contents", "contents"), (r"<Self as FlatBase>::ALIGN", "align"), (r"Self::DATA_OFFSET", "doff")], ["doff", "contents", "align"]),
    S("enumMinFold", "macros/src/items/base.rs", r"quote! \{ (::flatty::utils::min\(#accum, #var_min_size\)) \}", [(r"#accum", "accum"), (r"#var_min_size", "varmin")], ["accum", "varmin"]),
    S("enumDataOffset", "macros/src/items/base.rs", r"const DATA_OFFSET: usize = (.*?);", [(r"<#tag_type as FlatSized>::SIZE", "tagsize"), (r"<Self as FlatBase>::ALIGN", "align")], ["tagsize", "align"]),
    S("lastFieldOffset", "macros/src/items/base.rs", r"quote! \{\s*(::flatty::utils::ceil_mul\(\s*::flatty::utils::iter::fold_size!\(0; #type_list\),\s*<#last_ty as ::flatty::traits::FlatBase>::ALIGN,\s*\))", [(r"fold_size!\(0; #type_list\)", "folded"), (r"<#last_ty as FlatBase>::ALIGN", "lastalign")], ["folded", "lastalign"]),
    S("structSizeValue", "macros/src/items/base.rs", r"quote! \{ (Self::LAST_FIELD_OFFSET \+ self\.#last\.size\(\)) \}", [(r"Self::LAST_FIELD_OFFSET", "lfo"), (r"self\.#last\.size\(\)", "lastsize")], ["lfo", "lastsize"]),
    S("sizeRound", "macros/src/items/base.rs", r"use ::flatty::\{traits::\*, utils::ceil_mul\};\s*(ceil_mul\(#value, Self::ALIGN\))", [(r"#value", "value"), (r"Self::ALIGN", "align")], ["value", "align"]),
    # macros/src/items/unsized_.rs
    S("ustructViewFloor", "macros/src/items/unsized_.rs", r"let __flatty_bytes = set_slice_ptr_len\(__flatty_bytes, (floor_mul\(slice_ptr_len\(__flatty_bytes\), Self::ALIGN\))\);", [(r"slice_ptr_len\(__flatty_bytes\)", "n"), (r"Self::ALIGN", "align")], ["n", "align"]),
    S("ustructViewCeil", "macros/src/items/unsized_.rs", r"set_slice_ptr_len\(__flatty_bytes, (ceil_mul\(slice_ptr_len\(__flatty_bytes\), Self::ALIGN\))\)", [(r"slice_ptr_len\(__flatty_bytes\)", "n"), (r"Self::ALIGN", "align")], ["n", "align"]),
    S("uenumMeta", "macros/src/items/unsized_.rs", r"set_slice_ptr_len\(__flatty_bytes, (floor_mul\(slice_ptr_len\(__flatty_bytes\) - Self::DATA_OFFSET, Self::ALIGN\))\) as \*mut Self", [(r"slice_ptr_len\(__flatty_bytes\)", "n"), (r"Self::DATA_OFFSET", "doff"), (r"Self::ALIGN", "align")], ["n", "doff", "align"]),
    S("uenumViewLen", "macros/src/items/unsized_.rs", r"set_slice_ptr_len\(__flatty_bytes, (Self::DATA_OFFSET \+ slice_ptr_len\(__flatty_bytes\))\)", [(r"slice_ptr_len\(__flatty_bytes\)", "mlen"), (r"Self::DATA_OFFSET", "doff")], ["doff", "mlen"]),
    # macros/src/items/cast.rs, init.rs: floors that make validation / initialisation agree with the view
    S("ustructValidateFloor", "macros/src/items/cast.rs", r"__flatty_bytes\.get_unchecked\(\.\.(::flatty::utils::floor_mul\(__flatty_bytes\.len\(\), <Self as ::flatty::traits::FlatBase>::ALIGN\))\)", [(r"__flatty_bytes\.len\(\)", "n"), (r"<Self as FlatBase>::ALIGN", "align")], ["n", "align"]),
    S("uenumPayloadErrPos", "macros/src/items/cast.rs", r"match tag \{\s*#variants\s*\}\.map_err\(\|e\| e\.offset\((.*?)\)\)", [(r"Self::DATA_OFFSET", "doff")], ["doff"]),
    S("uenumValidateFloor", "macros/src/items/cast.rs", r"let data = unsafe \{ __flatty_bytes\.get_unchecked\(Self::DATA_OFFSET\.\.\) \};\s*let data = unsafe \{ data\.get_unchecked\(\.\.(::flatty::utils::floor_mul\(data\.len\(\), <Self as ::flatty::traits::FlatBase>::ALIGN\))\) \};\s*#size_check\s*match tag \{", [(r"data\.len\(\)", "n"), (r"<Self as FlatBase>::ALIGN", "align")], ["n", "align"]),
    # io/src/common/io.rs: the window arithmetic of `Buffer`
    S("ioPrecedingLen", "io/src/common/io.rs", r"fn preceding_len\(&self\) -> usize \{(.*?)\}", [(r"self\.window\.start", "wstart")], ["wstart"]),
    S("ioOccupiedLen", "io/src/common/io.rs", r"fn occupied_len\(&self\) -> usize \{(.*?)\}", [(r"self\.window\.start", "wstart"), (r"self\.window\.end", "wend")], ["wstart", "wend"]),
    S("ioVacantLen", "io/src/common/io.rs", r"fn vacant_len\(&self\) -> usize \{(.*?)\}", [(r"self\.capacity\(\)", "cap"), (r"self\.window\.end", "wend")], ["cap", "wend"]),
    S("ioContiguousEnd", "io/src/common/io.rs", r"self\.data\.copy_within\(self\.window\.clone\(\), 0\);\s*self\.window = 0\.\.\((.*?)\);", [(r"self\.window\.start", "wstart"), (r"self\.window\.end", "wend")], ["wstart", "wend"]),
    # capacities the constructors allocate
    S("ioSendCap", "io/src/blocking/send.rs", r"Self::new\(IoBuffer::new\(pipe, (.*?), M::ALIGN\)\)", [(r"max_msg_len\.max\(M::MIN_SIZE\)", "max(maxlen, tmin)")], ["maxlen", "tmin"]),
    S("ioRecvCap", "io/src/blocking/recv.rs", r"Self::new\(IoBuffer::new\(pipe, (.*?), M::ALIGN\)\)", [(r"max_msg_len\.max\(M::MIN_SIZE\)", "max(maxlen, tmin)")], ["maxlen", "tmin"]),
    S("aioSendCap", "io/src/async_/send.rs", r"Self::new\(IoBuffer::new\(pipe, (.*?), M::ALIGN\)\)", [(r"max_msg_len\.max\(M::MIN_SIZE\)", "max(maxlen, tmin)")], ["maxlen", "tmin"]),
    S("aioRecvCap", "io/src/async_/recv.rs", r"Self::new\(IoBuffer::new\(pipe, (.*?), M::ALIGN\)\)", [(r"max_msg_len\.max\(M::MIN_SIZE\)", "max(maxlen, tmin)")], ["maxlen", "tmin"]),
    S("initWalkerErrPos", "macros/src/items/init.rs", r"let iter = iter::BytesMutIter::new\(__flatty_bytes, iter::type_list!\(#type_list\)\)\s*\.map_err\(\|e\| e\.offset\((.*?)\)\)\?;", [(r"__flatty_offset", "off")], ["off"]),
    S("iterNewChecks", "base/src/utils/iter.rs", r"pub fn new\(data: D, iter: I\) -> Result<Self, Error> \{\s*iter\.check_align_and_min_size\((data\.bytes\(\))\)\?;\s*Ok\(unsafe \{ Self::new_unchecked\(data, iter\) \}\)\s*\}", [(r"data\.bytes\(\)", "whole")], ["whole"]),
    # the generated enum emplacer: payload floored, then the variant's room/alignment test (offset by DATA_OFFSET), then the tag, then the fields —
    # the sites exist only while these four stand in that order
    S("initEnumFloor", "macros/src/items/init.rs", r"let __flatty_offset = <#self_ident<#self_args>>::DATA_OFFSET;\s*let \(__flatty_tag_bytes, __flatty_bytes\) = __flatty_bytes\.split_at_mut\(__flatty_offset\);\s*(?://[^\n]*\n\s*)*let __flatty_len = (::flatty::utils::floor_mul\(__flatty_bytes\.len\(\), <#self_ident<#self_args> as ::flatty::traits::FlatBase>::ALIGN\));\s*let __flatty_bytes = __flatty_bytes\.get_unchecked_mut\(\.\.__flatty_len\);\s*#check\s*#set_tag\s*#body", [(r"__flatty_bytes\.len\(\)", "n"), (r"<#self_ident<#self_args> as FlatBase>::ALIGN", "align")], ["n", "align"]),
    S("initEnumCheckPos", "macros/src/items/init.rs", r"iter::type_list!\(#type_list\)\.check_align_and_min_size\(__flatty_bytes\)\s*\.map_err\(\|e\| e\.offset\((.*?)\)\)\?;", [(r"__flatty_offset", "off")], ["off"]),
    S("initFloor", "macros/src/items/init.rs", r"let __flatty_len = (::flatty::utils::floor_mul\(__flatty_bytes\.len\(\), <#self_ident<#self_args> as ::flatty::traits::FlatBase>::ALIGN\));", [(r"__flatty_bytes\.len\(\)", "n"), (r"<#self_ident<#self_args> as FlatBase>::ALIGN", "align")], ["n", "align"]),
]

# ---- guards: (condition, error kind, error position) of the decision points -----------------------------
# regex groups: 1 = condition, 2 = ErrorKind variant, 3 = position expression (missing for the `pos,` shorthand)
ERR = r"(?:\s*//[^\n]*)*\s*(?:return )?(?:Some\()?(?:result = )?Err\(Error \{\s*kind: ErrorKind::(\w+),\s*pos(?:: (.*?))?,\s*\}"
def G(name, file, cond_rx, subs, nat, boo=(), flags=re.S):
    return dict(name=name, file=file, rx=cond_rx, subs=PATH_PREFIX + subs, nat=list(nat), boo=list(boo), flags=flags)
GUARDS = [
    G("gCheckAlign", "base/src/utils/mem.rs", r"if (bytes\.as_ptr\(\)\.align_offset\(T::ALIGN\) [<>=!]+ 0) \{" + ERR,
      [(r"bytes\.as_ptr\(\)\.align_offset\(T::ALIGN\)", "misalign")], ["misalign"]),
    G("gCheckMin", "base/src/utils/mem.rs", r"\} else if (bytes\.len\(\) [<>=!]+ T::MIN_SIZE) \{" + ERR,
      [(r"bytes\.len\(\)", "n"), (r"T::MIN_SIZE", "tmin")], ["n", "tmin"]),
    # the same test as a method of the field walker (`TypeIter::check_align_and_min_size`, used by `DataIter::new`)
    G("gIterCheckAlign", "base/src/utils/iter.rs", r"fn check_align_and_min_size\(&self, data: &\[u8\]\) -> Result<\(\), Error> \{\s*if (data\.as_ptr\(\)\.align_offset\(self\.align\(\)\) [<>=!]+ 0) \{" + ERR,
      [(r"data\.as_ptr\(\)\.align_offset\(self\.align\(\)\)", "misalign")], ["misalign"]),
    G("gIterCheckMin", "base/src/utils/iter.rs", r"\} else if (data\.len\(\) [<>=!]+ self\.min_size\(0\)) \{" + ERR,
      [(r"data\.len\(\)", "n"), (r"self\.min_size\(0\)", "tmin")], ["n", "tmin"]),
    # portable `Bool`: the accepted byte range, as the `match` on the first byte has it
    G("gBoolInvalid", "portable/src/bool_.rs", r"match (bytes\.get_unchecked\(0\) \{\s*\d+\.\.=\d+ => Ok\(\(\)\),\s*_ =>)" + ERR,
      [(r"bytes\.get_unchecked\(0\) \{\s*(\d+)\.\.=(\d+) => Ok\(\(\)\),\s*_ =>", r"b < \1 || b > \2")], ["b"]),
    G("gVecValidate", "containers/src/vec.rs", r"if (this\.len\(\) [<>=!]+ this\.capacity\(\)) \{" + ERR,
      [(r"this\.len\(\)", "len"), (r"this\.capacity\(\)", "cap"), (r"Self::DATA_OFFSET", "doff")], ["len", "cap", "doff"]),
    G("gVecFromArray", "containers/src/vec.rs", r"if (vec\.capacity\(\) [<>=!]+ N) \{" + ERR,
      [(r"vec\.capacity\(\)", "cap"), (r"\bN\b", "count")], ["cap", "count"]),
    G("gStrValidate", "containers/src/string.rs", r"if (this\.len\(\) [<>=!]+ this\.capacity\(\)) \{" + ERR,
      [(r"this\.len\(\)", "len"), (r"this\.capacity\(\)", "cap"), (r"Self::DATA_OFFSET", "doff")], ["len", "cap", "doff"]),
    G("gFlexSlotAlign", "containers/src/flex.rs", r"if (data\.bytes\(\)\.as_ptr\(\)\.align_offset\(FlexVec::<T, L>::ALIGN\) [<>=!]+ 0) \{" + ERR,
      [(r"data\.bytes\(\)\.as_ptr\(\)\.align_offset\(FlexVec::<T, L>::ALIGN\)", "misalign"), (r"self\.pos", "pos")], ["misalign", "pos"]),
    G("gFlexBadOffset", "containers/src/flex.rs", r"if (!last && payload_offset [<>=!]+ next_offset) \{" + ERR,
      [(r"payload_offset", "os"), (r"next_offset", "next"), (r"self\.pos", "pos")], ["os", "next", "pos"], ["last"]),
    G("gFlexShort", "containers/src/flex.rs", r"if (payload_offset [<>=!]+ data\.bytes\(\)\.len\(\) \|\| \(!last && next_offset [<>=!]+ data\.bytes\(\)\.len\(\)\)) \{" + ERR,
      [(r"data\.bytes\(\)\.len\(\)", "n"), (r"payload_offset", "os"), (r"next_offset", "next"), (r"self\.pos", "pos")], ["os", "next", "n", "pos"], ["last"]),
    G("gFlexFillRoom", "containers/src/flex.rs", r"for item_emplacer in self\.iter \{\s*if (data\.len\(\) [<>=!]+ offset_size) \{" + ERR,
      [(r"data\.len\(\)", "n"), (r"offset_size", "os")], ["n", "os", "pos"]),
    G("gFlexFillSeal", "containers/src/flex.rs", r"let offset = offset_size \+ payload_size;\s*match L::from_usize\(offset\)\.and_then\(\|o\| if (o [<>=!]+ L::max_value\(\)) \{ Some\(o\) \} else \{ None \}\) \{\s*Some\(o\) => o\.emplace\(&mut \*offset_slot\)\?,\s*None => \{" + ERR,
      [(r"L::max_value\(\)", "lmax"), (r"\bo\b", "off")], ["off", "lmax", "pos"]),
    G("gEnumVariantRoom", "macros/src/items/cast.rs", r"if (data\.len\(\) [<>=!]+ Self::DATA_MIN_SIZES\[\*tag as usize\]) \{" + ERR,
      [(r"data\.len\(\)", "n"), (r"Self::DATA_MIN_SIZES\[\*tag as usize\]", "varmin"), (r"Self::DATA_OFFSET", "doff")], ["n", "varmin", "doff"]),
    G("gFlexPushRoom", "containers/src/flex.rs", r"\(_, data\) = data\.split_at_mut\(offset\);\s*\}\s*if (data\.len\(\) [<>=!]+ offset_size) \{" + ERR,
      [(r"data\.len\(\)", "n"), (r"offset_size", "os")], ["n", "os", "pos"]),
    G("gFlexPushSeal", "containers/src/flex.rs", r"let sealed = L::from_usize\(last_offset\)\s*\.and_then\(\|o\| if (o [<>=!]+ L::max_value\(\)) \{ Some\(o\) \} else \{ None \}\)\s*\.ok_or\(Error \{\s*kind: ErrorKind::(\w+),\s*pos(?:: (.*?))?,\s*\}",
      [(r"L::max_value\(\)", "lmax"), (r"\bo\b", "off")], ["off", "lmax", "pos"]),
]
# ---- conditions of the IO layer: decision points that do not produce a flatty `Error` ----------------------------------
def C(name, file, rx, subs, nat, flags=re.S):
    return dict(name=name, file=file, rx=rx, subs=subs, nat=list(nat), flags=flags)
_POISON_ZERO = r"if n == 0 \{\s*if (.*?) \{\s*self\.%spoisoned = true;\s*\}\s*return %sErr\(io::ErrorKind::BrokenPipe\.into\(\)\)%s;"
_POISON_ERR = r"Err\(e\) => \{\s*if (.*?) \{\s*self\.%spoisoned = true;\s*\}\s*return %sErr\(e\)%s;"
CONDS = [
    # `FlexVec::truncate` / `pop`: the early return, the empty case (a terminator at slot 0) and the marker written on the last kept item —
    # the `truncate` site exists only while that shape (early return, `L::zero()` at the start, `L::max_value()` at slot `len - 1`) stands
    C("cFlexTruncNoop", "containers/src/flex.rs", r"pub fn truncate\(&mut self, len: usize\) \{\s*if (len [<>=!]+ self\.len\(\)) \{\s*return;\s*\}", [(r"self\.len\(\)", "cur")], ["len", "cur"]),
    C("cFlexTruncEmpty", "containers/src/flex.rs", r"if (len [<>=!]+ 0) \{\s*L::zero\(\)\.emplace\(&mut self\.data\)\.unwrap\(\);\s*\} else \{\s*let mut iter = self\.bytes_mut_iter\(\);\s*if len > 1 \{\s*let _ = iter\.nth\(len - 2\);\s*\}\s*L::max_value\(\)\.emplace\(iter\.data\.unwrap\(\)\)\.unwrap\(\);", [], ["len"]),
    C("cFlexPopSome", "containers/src/flex.rs", r"pub fn pop\(&mut self\) -> Result<\(\), EmptyError> \{\s*let len = self\.len\(\);\s*if (len [<>=!]+ 0) \{\s*self\.truncate\(len - 1\);\s*Ok\(\(\)\)\s*\} else \{\s*Err\(EmptyError\)", [], ["len"]),
    C("cVecElemsVisited", "containers/src/vec.rs", r"if (T::SIZE [<>=!]+ 0) \{\s*for \(i, x\) in", [(r"T::SIZE", "tsize")], ["tsize"]),
    C("cTagInRange", "macros/src/items/tag.rs", r"if (\*tag [<>=!]+ #var_count) \{\s*Ok\(\(\)\)\s*\} else \{\s*Err\(Error \{\s*kind: ErrorKind::InvalidEnumTag,\s*pos: 0,", [(r"\*tag", "tag"), (r"#var_count", "count")], ["tag", "count"]),
    # `Buffer::skip` / `Buffer::advance`: the window assertions; the `skip` site exists only while the reset of an emptied window follows it
    C("cIoSkipAssert", "io/src/common/io.rs", r"self\.window\.start \+= count;\s*assert!\((.*?)\);\s*if self\.window\.is_empty\(\) \{\s*self\.window = 0\.\.0;\s*\}", [(r"self\.window\.start", "wstart"), (r"self\.window\.end", "wend")], ["wstart", "wend"]),
    C("cIoAdvanceAssert", "io/src/common/io.rs", r"self\.window\.end \+= count;\s*assert!\((.*?)\);", [(r"self\.window\.end", "wend"), (r"self\.capacity\(\)", "cap")], ["wend", "cap"]),
    C("cIoWriteLoop", "io/src/blocking/io.rs", r"while (pos [<>=!]+ count) \{", [], ["pos", "count"]),
    C("cIoWriteZero", "io/src/blocking/io.rs", r"Ok\(n\) => \{\s*if (n [<>=!]+ 0) \{", [], ["n"]),
    C("cIoPoisonZero", "io/src/blocking/io.rs", _POISON_ZERO % ("", "", ""), [], ["pos"]),
    C("cIoPoisonErr", "io/src/blocking/io.rs", _POISON_ERR % ("", "", ""), [], ["pos"]),
    C("cIoReadFull", "io/src/blocking/io.rs", r"fn read\(&mut self\).*?if (self\.buffer\.vacant_len\(\) [<>=!]+ 0) \{", [(r"self\.buffer\.vacant_len\(\)", "vacant")], ["vacant"]),
    C("cIoReadCompact", "io/src/blocking/io.rs", r"fn read\(&mut self\).*?if (self\.buffer\.preceding_len\(\) [<>=!]+ 0) \{\s*self\.buffer\.make_contiguous\(\);\s*\} else \{\s*return Err\(io::ErrorKind::OutOfMemory", [(r"self\.buffer\.preceding_len\(\)", "preceding")], ["preceding"]),
    # `recv`: which validation error means "read more" (the error kinds are numbered in the order `ErrorKind` declares them); the site exists only
    # while every other kind is returned as `RecvError::Parse` and the loop validates the buffer before it reads
    C("cIoRecvRetry", "io/src/blocking/recv.rs", r"while let Err\(e\) = M::validate\(&self\.buffer\) \{\s*match e\.kind \{\s*ErrorKind::(\w+) => \(\),\s*_ => return Err\(RecvError::Parse\(e\)\),\s*\}\s*if self\.buffer\.read\(\)", [(r"\bInsufficientSize\b", "kind == 0"), (r"\bBadAlign\b", "kind == 1"), (r"\bInvalidEnumTag\b", "kind == 2"), (r"\bInvalidData\b", "kind == 3"), (r"\bOther\b", "kind == 4")], ["kind"]),
    C("cAioRecvRetry", "io/src/async_/recv.rs", r"while let Err\(e\) = M::validate\(&self\.buffer\) \{\s*match e\.kind \{\s*ErrorKind::(\w+) => \(\),\s*_ => return Err\(RecvError::Parse\(e\)\),\s*\}\s*if self\.buffer\.read\(\)", [(r"\bInsufficientSize\b", "kind == 0"), (r"\bBadAlign\b", "kind == 1"), (r"\bInvalidEnumTag\b", "kind == 2"), (r"\bInvalidData\b", "kind == 3"), (r"\bOther\b", "kind == 4")], ["kind"]),
    C("cIoRecvClosed", "io/src/blocking/recv.rs", r"if (self\.buffer\.read\(\)\.map_err\(RecvError::Read\)\? [<>=!]+ 0) \{\s*return Err\(RecvError::Closed\)", [(r"self\.buffer\.read\(\)\.map_err\(RecvError::Read\)\?", "n")], ["n"]),
    C("cAioWriteLoop", "io/src/async_/io.rs", r"while (self\.pos [<>=!]+ self\.count) \{", [(r"self\.pos", "pos"), (r"self\.count", "count")], ["pos", "count"]),
    C("cAioWriteZero", "io/src/async_/io.rs", r"Ok\(n\) => \{\s*if (n [<>=!]+ 0) \{", [], ["n"]),
    C("cAioPoisonZero", "io/src/async_/io.rs", _POISON_ZERO % ("owner\\.", "Poll::Ready\\(", "\\)"), [(r"self\.pos", "pos")], ["pos"]),
    C("cAioPoisonErr", "io/src/async_/io.rs", _POISON_ERR % ("owner\\.", "Poll::Ready\\(", "\\)"), [(r"self\.pos", "pos")], ["pos"]),
    C("cAioReadFull", "io/src/async_/io.rs", r"fn poll_read\(.*?if (self\.buffer\.vacant_len\(\) [<>=!]+ 0) \{", [(r"self\.buffer\.vacant_len\(\)", "vacant")], ["vacant"]),
    C("cAioReadCompact", "io/src/async_/io.rs", r"fn poll_read\(.*?if (self\.buffer\.preceding_len\(\) [<>=!]+ 0) \{\s*self\.buffer\.make_contiguous\(\);\s*\} else \{\s*return Poll::Ready\(Err\(io::ErrorKind::OutOfMemory", [(r"self\.buffer\.preceding_len\(\)", "preceding")], ["preceding"]),
    C("cAioRecvClosed", "io/src/async_/recv.rs", r"if (self\.buffer\.read\(\)\.await\.map_err\(RecvError::Read\)\? [<>=!]+ 0) \{\s*return Err\(RecvError::Closed\)", [(r"self\.buffer\.read\(\)\.await\.map_err\(RecvError::Read\)\?", "n")], ["n"]),
]
def extract_cond(c):
    try:
        src = open(os.path.join(REPO, c["file"])).read()
    except OSError as e:
        return None, f"cannot read {c['file']}: {e}"
    m = re.search(c["rx"], src, c["flags"])
    if not m:
        return None, "site not found in " + c["file"]
    text = clean(m.group(1), c["subs"])
    try:
        e = parse_cond(text, [])
        nat, boo = [], []
        cond_vars(e, nat, boo)
        extra = [v for v in nat if v not in c["nat"]] + boo
        if extra:
            return None, f"unexpected atoms {extra} in `{text}`"
        return (e, text), None
    except ParseError as ex:
        return None, f"outside the grammar: `{text}`: {ex}"
EKINDS = {"InsufficientSize": ".insufficientSize", "BadAlign": ".badAlign", "InvalidEnumTag": ".invalidEnumTag", "InvalidData": ".invalidData", "Other": ".other"}
def clean(text, subs):
    text = re.sub(r"//[^\n]*", "", text)
    for pat, rep in subs:
        text = re.sub(pat, rep, text)
    return " ".join(text.split())
def extract_guard(g):
    try:
        src = open(os.path.join(REPO, g["file"])).read()
    except OSError as e:
        return None, f"cannot read {g['file']}: {e}"
    m = re.search(g["rx"], src, g["flags"])
    if not m:
        return None, "site not found in " + g["file"]
    cond_t, kind_t, pos_t = clean(m.group(1), g["subs"]), m.group(2), clean(m.group(3) or "pos", g["subs"])
    if kind_t not in EKINDS:
        return None, f"unknown error kind {kind_t}"
    if kind_t == "InsufficientSize":
        # the position attached to a size error is not part of any property: not translated (see Bridge.lean)
        pos_t = "0"
    try:
        c = parse_cond(cond_t, g["boo"]); pe = parse(pos_t)
        nat, boo = [], []
        cond_vars(c, nat, boo); free_vars(pe, nat)
        extra = [v for v in nat if v not in g["nat"]] + [v for v in boo if v not in g["boo"]]
        if extra:
            return None, f"unexpected atoms {extra} in `{cond_t}` / `{pos_t}`"
        return (c, kind_t, pe, cond_t, pos_t), None
    except ParseError as ex:
        return None, f"outside the grammar: `{cond_t}` / `{pos_t}`: {ex}"

def extract(site):
    path = os.path.join(REPO, site["file"])
    try:
        src = open(path).read()
    except OSError as e:
        return None, f"cannot read {site['file']}: {e}"
    m = re.search(site["rx"], src, site["flags"])
    if not m:
        return None, "site not found in " + site["file"]
    text = m.group(1)
    text = re.sub(r"//[^\n]*", "", text)
    for pat, rep in site["subs"]:
        text = re.sub(pat, rep, text)
    text = " ".join(text.split())
    try:
        e = parse(text)
        fv = free_vars(e)
        extra = [v for v in fv if v not in site["params"]]
        if extra:
            return None, f"unexpected atoms {extra} in `{text}`"
        return (e, text), None
    except ParseError as ex:
        return None, f"outside the grammar: `{text}`: {ex}"

def portable_table():
    rows, errs = [], []
    for f, kinds in (("portable/src/int.rs", ("int_unsigned", "int_signed")), ("portable/src/float.rs", ("float",))):
        try:
            src = open(os.path.join(REPO, f)).read()
        except OSError as e:
            errs.append(str(e)); continue
        # which conversion functions each derive_<conv>_<kind>! macro passes on
        conv = {}
        for m in re.finditer(r"macro_rules! derive_(le|be)_(int_signed|int_unsigned|float) \{.*?derive_(int_signed|int_unsigned|float)!\(\$self, \$native, (\w+), (\w+)\);", src, re.S):
            conv[(m.group(1), m.group(2))] = (m.group(3), m.group(4), m.group(5))
        for m in re.finditer(r"^derive_(le|be)_(int_signed|int_unsigned|float)!\((?:Int|Float)<(true|false), (\d+)(?:, (true|false))?>, (\w+)\);", src, re.M):
            c, kind, be, n, signed, native = m.groups()
            inner, frm, to = conv.get((c, kind), ("?", "?", "?"))
            rows.append(dict(macro_conv=c, kind=kind, inner=inner, be=be == "true", n=int(n), signed=(signed == "true") if signed is not None else False,
                             native=native, from_fn=frm, to_fn=to, is_float=kind == "float"))
        # aliases
        for mod in ("le", "be"):
            mm = re.search(r"pub mod " + mod + r" \{(.*?)\n\}", src, re.S)
            if not mm: errs.append(f"module {mod} not found in {f}"); continue
            for a in re.finditer(r"pub type (\w+) = (?:Int|Float)<(true|false), (\d+)(?:, (true|false))?>;", mm.group(1)):
                rows.append(dict(alias=a.group(1), alias_mod=mod, be=a.group(2) == "true", n=int(a.group(3)), signed=(a.group(4) == "true") if a.group(4) is not None else False, is_float=a.group(4) is None))
    return rows, errs

def main(out_path):
    lines = ["-- @generated by tools/extract_formulas.py from the repository's source — do not edit", "import FV.Core", "namespace FV.Gen", ""]
    problems = []
    for site in SITES:
        got, err = extract(site)
        ps = " ".join(site["params"])
        if got is None:
            problems.append(f"{site['name']}: {err}")
            lines.append(f"/-- UNTRANSLATABLE: {err} -/")
            lines.append(f"def {site['name']} ({ps} : Nat) : Nat := 0  -- placeholder: the bridge theorem for this site cannot hold")
            lines.append(f"def {site['name']}_untranslatable : Bool := true")
        else:
            e, text = got
            funs = dict(FUN)
            if site["name"] in ("max", "min", "ceilMul", "floorMul"):
                funs = {}
            lines.append(f"/-- `{site['file']}`: `{text}` -/")
            lines.append(f"def {site['name']} ({ps} : Nat) : Nat := {lean(e, funs)}")
            lines.append(f"def {site['name']}_untranslatable : Bool := false")
        lines.append("")
    lines.append("/-! ### decision points: condition, error kind and error position, as the source has them -/")
    for g in GUARDS:
        got, err = extract_guard(g)
        ps = (f"({' '.join(g['boo'])} : Bool) " if g["boo"] else "") + f"({' '.join(g['nat'])} : Nat)"
        if got is None:
            problems.append(f"{g['name']}: {err}")
            lines.append(f"/-- UNTRANSLATABLE: {err} -/")
            lines.append(f"def {g['name']}_cond {ps} : Bool := false")
            lines.append(f"def {g['name']}_kind : EKind := .other")
            lines.append(f"def {g['name']}_pos {ps} : Nat := 0")
            lines.append(f"def {g['name']}_untranslatable : Bool := true")
        else:
            c, kind_t, pe, cond_t, pos_t = got
            lines.append(f"/-- `{g['file']}`: `if {cond_t}` → `Err({kind_t} @ {pos_t})` -/")
            lines.append(f"def {g['name']}_cond {ps} : Bool := {lean_cond(c)}")
            lines.append(f"def {g['name']}_kind : EKind := {EKINDS[kind_t]}")
            lines.append(f"def {g['name']}_pos {ps} : Nat := {lean(pe)}")
            lines.append(f"def {g['name']}_untranslatable : Bool := false")
        lines.append("")
    lines.append("/-! ### decision points of the IO layer (conditions only) -/")
    for c in CONDS:
        got, err = extract_cond(c)
        ps = f"({' '.join(c['nat'])} : Nat)"
        if got is None:
            problems.append(f"{c['name']}: {err}")
            lines.append(f"/-- UNTRANSLATABLE: {err} -/")
            lines.append(f"def {c['name']}_cond {ps} : Bool := false")
            lines.append(f"def {c['name']}_untranslatable : Bool := true")
        else:
            e, text = got
            lines.append(f"/-- `{c['file']}`: `{text}` -/")
            lines.append(f"def {c['name']}_cond {ps} : Bool := {lean_cond(e)}")
            lines.append(f"def {c['name']}_untranslatable : Bool := false")
        lines.append("")
    rows, errs = portable_table()
    problems += errs
    NAT = {"u16": (2, False, False), "u32": (4, False, False), "u64": (8, False, False), "i16": (2, True, False), "i32": (4, True, False), "i64": (8, True, False), "f32": (4, False, True), "f64": (8, False, True)}
    b = lambda x: "true" if x else "false"
    lines.append("/-- one `derive_<conv>_<kind>!(Type<BE, N, S>, native)` instantiation: byte order named by the macro, kind named by the macro,\nkind of the inner macro it expands to, const parameters of the type, properties of the native type, byte order of the conversion functions it passes on -/")
    lines.append("structure PRow where\n  convBE : Bool\n  kind : Nat\n  innerKind : Nat\n  be : Bool\n  n : Nat\n  signed : Bool\n  nativeSize : Nat\n  nativeSigned : Bool\n  nativeFloat : Bool\n  fromBE : Bool\n  toBE : Bool\n  fnsKnown : Bool\nderiving Repr, DecidableEq")
    lines.append("structure ARow where\n  modBE : Bool\n  nameBits : Nat\n  nameSigned : Bool\n  nameFloat : Bool\n  be : Bool\n  n : Nat\n  signed : Bool\n  isFloat : Bool\nderiving Repr, DecidableEq")
    KIND = {"int_unsigned": 0, "int_signed": 1, "float": 2, "?": 9}
    prow = []
    for r in rows:
        if "native" not in r: continue
        ns, nsg, nf = NAT.get(r["native"], (0, False, False))
        known = r["from_fn"] in ("from_le_bytes", "from_be_bytes") and r["to_fn"] in ("to_le_bytes", "to_be_bytes") and r["native"] in NAT
        prow.append(f'  ⟨{b(r["macro_conv"] == "be")}, {KIND[r["kind"]]}, {KIND.get(r["inner"], 9)}, {b(r["be"])}, {r["n"]}, {b(r["signed"])}, {ns}, {b(nsg)}, {b(nf)}, {b(r["from_fn"] == "from_be_bytes")}, {b(r["to_fn"] == "to_be_bytes")}, {b(known)}⟩')
    lines.append("def portableTable : List PRow := [\n" + ",\n".join(prow) + "\n]")
    arow = []
    for r in rows:
        if "alias" not in r: continue
        nm = r["alias"]
        bits = int(nm[1:]) if nm[1:].isdigit() else 0
        arow.append(f'  ⟨{b(r["alias_mod"] == "be")}, {bits}, {b(nm[0] == "I")}, {b(nm[0] == "F")}, {b(r["be"])}, {r["n"]}, {b(r["signed"])}, {b(r["is_float"])}⟩')
    lines.append("def aliasTable : List ARow := [\n" + ",\n".join(arow) + "\n]")
    lines.append("end FV.Gen")
    txt = "\n".join(lines) + "\n"
    old = open(out_path).read() if os.path.exists(out_path) else None
    if old != txt:
        os.makedirs(os.path.dirname(out_path), exist_ok=True)
        open(out_path, "w").write(txt)
    for p in problems:
        print("UNTRANSLATABLE", p)
    print(f"{len(SITES)} formula sites, {len(GUARDS)} + {len(CONDS)} decision points, {len(problems)} problems, {sum(1 for r in rows if 'native' in r)} portable instantiations, {sum(1 for r in rows if 'alias' in r)} aliases")
    return 0

if __name__ == "__main__":
    sys.exit(main(sys.argv[1] if len(sys.argv) > 1 else os.path.join(os.path.dirname(os.path.dirname(os.path.abspath(__file__))), "lean", "FV", "Gen", "Formulas.lean")))
