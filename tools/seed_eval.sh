#!/bin/bash
# usage: tools/seed_eval.sh <seed-id> <property> <worktree-with-patch-applied> <outdir-with-patch.diff-and-demo> [<other props to run>...]
# Confirms a seeded change (tests pass with it, demo fails with it and passes without), runs the checks against it,
# and files it under /verif/seeded/<seed-id>/.
set -u
id=$1; prop=$2; wt=$3; outd=$4; shift 4
dest=/verif/seeded/$id
mkdir -p "$dest"
cp "$outd/patch.diff" "$dest/patch.diff"
rm -rf "$dest/demo"; cp -r "$outd/demo" "$dest/demo" 2>/dev/null; rm -rf "$dest/demo/target"
[ -f "$outd/README.md" ] && cp "$outd/README.md" "$dest/README.agent.md"
cd "$wt" || exit 2
git checkout -q . && git checkout -q --detach $(git -C /repo rev-parse HEAD) && git apply "$dest/patch.diff" || { echo "patch does not apply"; exit 2; }
tests=$(cargo test --workspace --offline 2>&1 | grep -E "^test result" | awk '{p+=$4; f+=$6} END {print p" passed "f" failed"}')
echo "tests with change: $tests"
demo_with="n/a"; demo_without="n/a"
if [ -d "$outd/demo" ]; then
  (cd "$outd/demo" && cargo run --offline >/dev/null 2>&1); demo_with=$?
  git checkout -q .
  (cd "$outd/demo" && cargo run --offline >/dev/null 2>&1); demo_without=$?
  git apply "$dest/patch.diff"
  rm -rf "$outd/demo/target"
fi
echo "demo exit with change: $demo_with, without: $demo_without"
results=""
for p in "$prop" "$@"; do
  out=$(VERIF_REPO="$wt" /verif/check "$p" 2>&1); rc=$?
  line=$(echo "$out" | grep "^VIOLATION" | head -1)
  summary=$(echo "$out" | grep "^\[$p\]")
  echo "check $p rc=$rc :: $line :: $summary"
  results="$results{\"check\":\"$p\",\"rc\":$rc,\"first_violation\":\"$(echo $line | sed 's/"/\\"/g')\",\"summary\":\"$(echo $summary | sed 's/"/\\"/g')\"},"
  if [ $rc -ne 0 ] && [ -n "$line" ]; then
     rp=$(echo "$line" | sed -n 's/.*replay=\([^ ]*\).*/\1/p'); [ -f "/verif/$rp" ] && cp "/verif/$rp" "$dest/replay-$p.json"
  fi
done
tag=$(python3 -c "import hashlib,sys;print(hashlib.sha256(sys.argv[1].encode()).hexdigest()[:8])" "$wt")
rm -rf "/verif/.build/harness-$tag" /verif/.build/neg
rm -f /verif/replays/*.json
python3 /verif/tools/extract_formulas.py >/dev/null
cat > "$dest/meta.json" <<META
{"seed": "$id", "breaks_property": "$prop", "tests_with_change": "$tests", "demo_exit_with_change": "$demo_with", "demo_exit_without_change": "$demo_without",
 "ran": "git apply patch.diff in a scratch worktree; cargo test --workspace --offline; demo with/without; VERIF_REPO=<worktree> ./check <prop>",
 "checks": [${results%,}]}
META
echo "filed under $dest"
