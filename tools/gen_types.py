#!/usr/bin/env python3
"""Emit Rust source for a catalog: `#[flat]` items compiled by the real macro + glue + registry."""
import sys, os
sys.path.insert(0, os.path.dirname(os.path.abspath(__file__)))
from catalog import *

def collect_named(t, seen, order):
    """post-order list of named items reachable from t"""
    if isinstance(t, (Prim, BoolT)):
        return
    if isinstance(t, Arr) or isinstance(t, VecT) or isinstance(t, FlexT):
        collect_named(t.t, seen, order); return
    if isinstance(t, StrT):
        return
    if isinstance(t, StructT):
        if t.name in seen:
            assert seen[t.name] is t, f"duplicate item name {t.name}"
            return
        for _, ft in t.fields:
            collect_named(ft, seen, order)
        seen[t.name] = t; order.append(t); return
    if isinstance(t, EnumT):
        if t.name in seen:
            assert seen[t.name] is t, f"duplicate item name {t.name}"
            return
        for _, _, fs in t.variants:
            for _, ft in fs:
                collect_named(ft, seen, order)
        seen[t.name] = t; order.append(t); return
    raise TypeError(t)

def attr(t):
    a = []
    if not t.sized: a.append("sized = false")
    if isinstance(t, EnumT) and t.tag.rust != "u8": a.append(f'tag_type = "{t.tag.rust}"')
    if t.portable: a.append("portable = true")
    if t.has_default: a.append("default = true")
    return "#[flat(" + ", ".join(a) + ")]" if a else "#[flat]"

def fname(i, n): return n if n is not None else f"{i}"
def bind(i, n): return n if n is not None else f"b{i}"

def emit_item(t):
    o = []
    o.append(attr(t))
    if isinstance(t, StructT):
        named = t.fields[0][0] is not None
        if named:
            o.append(f"pub struct {t.name} {{ " + ", ".join(f"pub {n}: {ft.rs()}" for n, ft in t.fields) + " }")
        else:
            o.append(f"pub struct {t.name}(" + ", ".join(f"pub {ft.rs()}" for _, ft in t.fields) + ");")
        # Walk
        o.append(f"impl Walk for {t.name} {{ fn walk(&self, out: &mut String, caps: bool) {{ out.push('(');")
        for i, (n, ft) in enumerate(t.fields):
            if i: o.append("out.push(' ');")
            o.append(f"self.{fname(i, n)}.walk(out, caps);")
        o.append("out.push(')'); }")
        offs = ", ".join(f"(&self.{fname(i, n)} as *const _ as *const u8 as usize) - base" for i, (n, ft) in enumerate(t.fields))
        o.append(f"fn field_offsets(&self, base: usize) -> Option<Vec<usize>> {{ Some(vec![{offs}]) }} }}")
        if not t.sized:
            init = f"{t.name}Init"
            sized_fs = t.fields[:-1]
            args = []
            for i, (n, ft) in enumerate(sized_fs):
                e = f"from_raw::<{ft.rs()}>(&f[{i}])"
                args.append(f"{n}: {e}" if named else e)
            ln, lt = t.fields[-1]
            e = f"de::<{lt.rs()}>(l)"
            args.append(f"{ln}: {e}" if named else e)
            ctor = f"{init} {{ {', '.join(args)} }}" if named else f"{init}({', '.join(args)})"
            dflt = f"D::Def(_) => <Self as DynDefault>::dyn_default(bytes)," if t.has_default else ""
            sets = " ".join(f"{i} => {{ self.{fname(i, n)} = from_raw::<{ft.rs()}>(img_); }}" for i, (n, ft) in enumerate(sized_fs))
            o.append(f"impl Editable for {t.name} {{ fn edit(&mut self, op: &Op) -> String {{ match op {{ Op::SetField(_, fi_, img_) => {{ match fi_ {{ {sets} _ => panic!(\"harness: no such sized field\") }} \"ok\".into() }} Op::Assign(d) => match self.assign_in_place(de::<Self>(d)) {{ Ok(_) => \"ok\".into(), Err(e) => format!(\"err:{{}}\", err_str(&e)) }}, Op::Last(o_) => self.{fname(len(sized_fs), ln)}.edit(o_), _ => panic!(\"harness: operation not applicable to this type\") }} }} }}")
            hooks = "default_hooks!();" if t.has_default else ""
            o.append(f"impl DynTarget for {t.name} {{ {hooks} unsafe fn dyn_emplace<'a>(d: &D, bytes: &'a mut [u8]) -> Result<&'a mut Self, Error> {{ match d {{ D::Struct(f, l) => {{ let _ = f; {ctor}.emplace_unchecked(bytes) }} {dflt} _ => panic!(\"harness: bad initialiser for {t.name}\") }} }} }}")
    else:
        vs = []
        for i, (vn, k, fs) in enumerate(t.variants):
            d = "#[default] " if t.default == i else ""
            if k == "unit": vs.append(f"{d}{vn}")
            elif k == "tuple": vs.append(f"{d}{vn}(" + ", ".join(ft.rs() for _, ft in fs) + ")")
            else: vs.append(f"{d}{vn} {{ " + ", ".join(f"{n}: {ft.rs()}" for n, ft in fs) + " }")
        o.append(f"pub enum {t.name} {{ " + ", ".join(vs) + " }")
        # Walk
        o.append(f"impl Walk for {t.name} {{ fn walk(&self, out: &mut String, caps: bool) {{")
        if t.sized:
            o.append("match self {")
            pre = f"{t.name}::"
        else:
            o.append("match self.as_ref() {")
            pre = f"{t.name}Ref::"
        for i, (vn, k, fs) in enumerate(t.variants):
            if k == "unit": pat = f"{pre}{vn}"
            elif k == "tuple": pat = f"{pre}{vn}(" + ", ".join(bind(j, n) for j, (n, _) in enumerate(fs)) + ")"
            else: pat = f"{pre}{vn} {{ " + ", ".join(n for n, _ in fs) + " }"
            body = f"out.push_str(\"<{i}\");"
            for j, (n, _) in enumerate(fs):
                body += f" out.push(' '); {bind(j, n)}.walk(out, caps);"
            body += " out.push('>');"
            o.append(f"{pat} => {{ {body} }}")
        o.append("} }")
        o.append("fn field_offsets(&self, base: usize) -> Option<Vec<usize>> {")
        o.append("match self {" if t.sized else "match self.as_ref() {")
        for i, (vn, k, fs) in enumerate(t.variants):
            if k == "unit": pat = f"{pre}{vn}"
            elif k == "tuple": pat = f"{pre}{vn}(" + ", ".join(bind(j, n) for j, (n, _) in enumerate(fs)) + ")"
            else: pat = f"{pre}{vn} {{ " + ", ".join(n for n, _ in fs) + " }"
            offs = ", ".join(f"({bind(j, n)} as *const _ as *const u8 as usize) - base" for j, (n, _) in enumerate(fs))
            o.append(f"{pat} => Some(vec![{offs}]),")
        o.append("} } }")
        if not t.sized:
            arms = []
            for i, (vn, k, fs) in enumerate(t.variants):
                init = f"{t.name}Init{vn}"
                if k == "unit":
                    arms.append(f"{i} => {init}.emplace_unchecked(bytes),")
                    continue
                args = []
                last_unsized = not fs[-1][1].sized
                for j, (n, ft) in enumerate(fs):
                    if j == len(fs) - 1 and last_unsized:
                        e = f"de::<{ft.rs()}>(l.as_ref().expect(\"harness: missing last initialiser\"))"
                    else:
                        e = f"from_raw::<{ft.rs()}>(&f[{j}])"
                    args.append(f"{n}: {e}" if k == "named" else e)
                ctor = f"{init} {{ {', '.join(args)} }}" if k == "named" else f"{init}({', '.join(args)})"
                arms.append(f"{i} => {ctor}.emplace_unchecked(bytes),")
            dflt = f"D::Def(_) => <Self as DynDefault>::dyn_default(bytes)," if t.has_default else ""
            marms = []
            for i, (vn, k, fs) in enumerate(t.variants):
                if k == "unit":
                    marms.append(f"({i}, {t.name}Mut::{vn}) => panic!(\"harness: no field\"),"); continue
                if k == "tuple": pat = f"{t.name}Mut::{vn}(" + ", ".join(bind(j, n) for j, (n, _) in enumerate(fs)) + ")"
                else: pat = f"{t.name}Mut::{vn} {{ " + ", ".join(n for n, _ in fs) + " }"
                sets = " ".join(f"{j} => {{ *{bind(j, n)} = from_raw::<{ft.rs()}>(img_); }}" for j, (n, ft) in enumerate(fs) if ft.sized)
                marms.append(f"({i}, {pat}) => {{ match fi_ {{ {sets} _ => panic!(\"harness: no such sized field\") }} \"ok\".into() }}")
            larms = []
            for i, (vn, k, fs) in enumerate(t.variants):
                if k == "unit" or fs[-1][1].sized: continue
                if k == "tuple": pat = f"{t.name}Mut::{vn}(" + ", ".join(bind(j, n) for j, (n, _) in enumerate(fs)) + ")"
                else: pat = f"{t.name}Mut::{vn} {{ " + ", ".join(n for n, _ in fs) + " }"
                larms.append(f"{pat} => {bind(len(fs) - 1, fs[-1][0])}.edit(o_),")
            o.append(f"impl Editable for {t.name} {{ fn edit(&mut self, op: &Op) -> String {{ match op {{ Op::Last(o_) => {{ #[allow(unused_variables, unreachable_patterns)] match self.as_mut() {{ {' '.join(larms)} _ => \"novariant\".into() }} }} Op::SetField(v_, fi_, img_) => {{ #[allow(unused_variables, unreachable_patterns)] match (*v_, self.as_mut()) {{ {' '.join(marms)} _ => \"novariant\".into() }} }} Op::Assign(d) => match self.assign_in_place(de::<Self>(d)) {{ Ok(_) => \"ok\".into(), Err(e) => format!(\"err:{{}}\", err_str(&e)) }}, _ => panic!(\"harness: operation not applicable to this type\") }} }} }}")
            hooks = "default_hooks!();" if t.has_default else ""
            o.append(f"impl DynTarget for {t.name} {{ {hooks} unsafe fn dyn_emplace<'a>(d: &D, bytes: &'a mut [u8]) -> Result<&'a mut Self, Error> {{ match d {{ D::Enum(i, f, l) => {{ let _ = (f, l); match i {{ {' '.join(arms)} _ => panic!(\"harness: bad variant\") }} }} {dflt} _ => panic!(\"harness: bad initialiser for {t.name}\") }} }} }}")
    return "\n".join(o)

def flags(t):
    f = []
    f.append("sized" if t.sized else "unsized")
    if t.portable: f.append("portable")
    if t.has_default: f.append("default")
    return ",".join(f)

def emit(catalog):
    seen, order = {}, []
    for t in catalog:
        collect_named(t, seen, order)
    out = ["// @generated by tools/gen_types.py — do not edit", "#![allow(dead_code, non_camel_case_types, unused_variables, unused_imports, unused_parens)]",
           "use crate::*;", "use flatty::{flat, prelude::*, Emplacer, Error, FlatVec, FlexVec, FlatString, portable::{Bool, le, be}};", "use std::marker::PhantomData;", ""]
    for t in order:
        out.append(emit_item(t)); out.append("")
    out.append("pub fn registry() -> Vec<Box<dyn TypeOps>> { vec![")
    descs = set()
    for t in catalog:
        d = t.desc()
        dflt = f"Some(default_fn::<{t.rs()}>)" if t.has_default else "None"
        wdflt = f"Some(wrap_default_fn::<{t.rs()}>)" if t.has_default else "None"
        nm = t.rs().replace('"', "'")
        def is_clone(e):
            return isinstance(e, (Prim, BoolT)) or (isinstance(e, Arr) and is_clone(e.t))
        cl = f"Some(vec_clone_ops::<{t.t.rs()}, {t.l.rs()}>)" if isinstance(t, VecT) and is_clone(t.t) else "None"
        out.append(f"  Box::new(Ops::<{t.rs()}> {{ name: \"{nm}\", desc: \"{d}\", flags: \"{flags(t)}\", default: {dflt}, wrap_default: {wdflt}, clone_ops: {cl}, _p: PhantomData }}),")
    out.append("] }")
    out.append("pub fn defaults() -> Vec<Option<&'static str>> { vec![")
    for t in catalog:
        di = default_init(t)
        out.append(f"  {'Some(' + chr(34) + di + chr(34) + ')' if di else 'None'},")
    out.append("] }")
    return "\n".join(out) + "\n"

if __name__ == "__main__":
    import argparse
    ap = argparse.ArgumentParser()
    ap.add_argument("--out", required=True)
    ap.add_argument("--random-seed", type=int, default=None)
    ap.add_argument("--random-count", type=int, default=0)
    a = ap.parse_args()
    cat = base_catalog()
    if a.random_count:
        cat += random_catalog(a.random_seed or 0, a.random_count)
    src = emit(cat)
    old = open(a.out).read() if os.path.exists(a.out) else None
    if old != src:
        open(a.out, "w").write(src)
    print(f"{len(cat)} catalog types")
