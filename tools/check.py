#!/usr/bin/env python3
"""Entry point of the flatty verification machinery.

  ./check --setup
  ./check C05 [--tier quick|thorough]
  ./check --replay replays/C05-xxxx.json

A property check = (1) Lean proof obligations (build + axiom audit + source scan),
(2) correspondence: real code (harness linked against the repository's working tree) vs the
executable Lean model on generated inputs, compared per property projection,
(3) property oracles evaluated directly on the implementation's observations,
(4) verdict, replay files, evidence.
"""
import sys, os, json, subprocess, hashlib, time, re, fcntl, shutil, argparse, collections, tempfile

VERIF = os.path.dirname(os.path.dirname(os.path.abspath(__file__)))
REPO = os.environ.get("VERIF_REPO", "/repo")
BUILD = os.path.join(VERIF, ".build")
LEAN = os.path.join(VERIF, "lean")
HARNESS_SRC = os.path.join(VERIF, "harness")
sys.path.insert(0, os.path.join(VERIF, "tools"))

ALLOWED_AXIOMS = {"propext", "Classical.choice", "Quot.sound"}
FORBIDDEN = re.compile(r"\bsorry\b|\badmit\b|^axiom |native_decide|bv_decide|implemented_by|\bunsafe |maxHeartbeats 0", re.M)

def log(*a):
    print(*a, file=sys.stderr, flush=True)

def sh(cmd, cwd=None, env=None, timeout=None, inp=None):
    e = dict(os.environ)
    e["CARGO_NET_OFFLINE"] = "true"
    if env:
        e.update(env)
    p = subprocess.run(cmd, cwd=cwd, env=e, stdout=subprocess.PIPE, stderr=subprocess.STDOUT, timeout=timeout, input=inp)
    return p.returncode, p.stdout.decode("utf-8", "replace")

class Lock:
    def __enter__(self):
        os.makedirs(BUILD, exist_ok=True)
        self.f = open(os.path.join(BUILD, "lock"), "w")
        fcntl.flock(self.f, fcntl.LOCK_EX)
        return self
    def __exit__(self, *a):
        fcntl.flock(self.f, fcntl.LOCK_UN)
        self.f.close()

# ------------------------------------------------------------------------------------------------
# building
# ------------------------------------------------------------------------------------------------
def repo_fingerprint():
    """hash of every source file of the repository's working tree that can influence the build"""
    h = hashlib.sha256()
    for root, dirs, files in os.walk(REPO):
        dirs[:] = sorted(d for d in dirs if d not in ("target", ".git"))
        for f in sorted(files):
            if f.endswith((".rs", ".toml", ".lock")):
                p = os.path.join(root, f)
                h.update(p.encode())
                with open(p, "rb") as fh:
                    h.update(fh.read())
    return h.hexdigest()[:16]

def tree_hash(paths, exts):
    h = hashlib.sha256()
    for base in paths:
        for root, dirs, files in os.walk(base):
            dirs[:] = sorted(d for d in dirs if d not in (".lake", "target"))
            for f in sorted(files):
                if f.endswith(exts):
                    p = os.path.join(root, f)
                    h.update(p.encode())
                    with open(p, "rb") as fh:
                        h.update(fh.read())
    return h.hexdigest()[:16]

TIER = {"tier": "quick", "seed": 1}

def harness_dir():
    tag = hashlib.sha256(REPO.encode()).hexdigest()[:8]
    return os.path.join(BUILD, "harness-" + tag + ("-thorough" if TIER["tier"] == "thorough" else ""))

def build_harness():
    """(ok, log). Builds the harness against REPO's working tree. The thorough tier adds seeded random type definitions
    (new programs, compiled by the real macro) to the catalog, in a build directory of its own."""
    d = harness_dir()
    os.makedirs(os.path.join(d, ".cargo"), exist_ok=True)
    thorough = TIER["tier"] == "thorough"
    src_link = os.path.join(d, "src")
    if not thorough:
        # regenerate the catalog glue (identical to the committed file unless the catalog changed)
        rc, out = sh([sys.executable, os.path.join(VERIF, "tools", "gen_types.py"), "--out", os.path.join(HARNESS_SRC, "src", "gen_types.rs")])
        if rc != 0:
            return False, "gen_types failed:\n" + out
        if not os.path.islink(src_link):
            if os.path.exists(src_link):
                shutil.rmtree(src_link)
            os.symlink(os.path.join(HARNESS_SRC, "src"), src_link)
    else:
        if os.path.islink(src_link):
            os.unlink(src_link)
        os.makedirs(os.path.join(src_link, "bin"), exist_ok=True)
        for root, dirs, files in os.walk(os.path.join(HARNESS_SRC, "src")):
            for f in files:
                if f == "gen_types.rs":
                    continue
                rel = os.path.relpath(os.path.join(root, f), os.path.join(HARNESS_SRC, "src"))
                dst = os.path.join(src_link, rel)
                os.makedirs(os.path.dirname(dst), exist_ok=True)
                txt = open(os.path.join(root, f)).read()
                if not os.path.exists(dst) or open(dst).read() != txt:
                    open(dst, "w").write(txt)
        rc, out = sh([sys.executable, os.path.join(VERIF, "tools", "gen_types.py"), "--out", os.path.join(src_link, "gen_types.rs"),
                      "--random-seed", str(TIER["seed"]), "--random-count", "60"])
        if rc != 0:
            return False, "gen_types failed:\n" + out
    toml = open(os.path.join(HARNESS_SRC, "Cargo.toml.in")).read().replace("@REPO@", REPO)
    tp = os.path.join(d, "Cargo.toml")
    if not os.path.exists(tp) or open(tp).read() != toml:
        open(tp, "w").write(toml)
    shutil.copy(os.path.join(HARNESS_SRC, ".cargo", "config.toml"), os.path.join(d, ".cargo", "config.toml"))
    lock_src = os.path.join(REPO, "Cargo.lock")
    if not os.path.exists(lock_src):
        lock_src = os.path.join(HARNESS_SRC, "Cargo.lock.repo")
    lp = os.path.join(d, "Cargo.lock")
    if not os.path.exists(lp):
        shutil.copy(lock_src, lp)
    rc, out = sh(["cargo", "build", "--offline", "--bin", "fvh"], cwd=d, timeout=3600)
    return rc == 0, out

def harness_bin():
    return os.path.join(harness_dir(), "target", "debug", "fvh")

def build_lean(targets):
    rc, out = sh(["lake", "build"] + targets, cwd=LEAN, timeout=3600)
    return rc == 0, out

def driver_bin():
    return os.path.join(LEAN, ".lake", "build", "bin", "fvdriver")

# ------------------------------------------------------------------------------------------------
# suites: run the implementation and the model, cache by content
# ------------------------------------------------------------------------------------------------
SUITE_ARGS = {
    "bytes": ["bytes"],
    "emplace": ["emplace"],
    "ops": ["ops"],
    "portable": ["portable"],
    "io": ["io"],
    "aio": ["aio"],
}

def run_watched(cmd, out_path, mode, idle_limit, stdin=None):
    """run `cmd` appending its stdout to `out_path`; kill it when the output has not grown for `idle_limit` seconds (every case line
    is written and flushed before the library is called, so a silent process is inside one library call that does not return).
    -> (returncode, stderr tail, hung)"""
    with open(out_path, mode) as f:
        p = subprocess.Popen(cmd, stdout=f, stderr=subprocess.PIPE, stdin=stdin)
        last_size, last_change, hung = -1, time.time(), False
        while True:
            try:
                p.wait(timeout=2)
                break
            except subprocess.TimeoutExpired:
                sz = os.path.getsize(out_path)
                if sz != last_size:
                    last_size, last_change = sz, time.time()
                elif time.time() - last_change > idle_limit:
                    hung = True
                    p.kill()
                    p.wait()
                    break
        err = p.stderr.read().decode("utf-8", "replace")[-2000:] if p.stderr else ""
    if hung:
        with open(out_path, "rb") as f:
            data = f.read()
        with open(out_path, "ab") as f:
            f.write(b"HANG\n" if not data.endswith(b"\n") else b"")
    return (p.returncode if not hung else -9), err, hung

def run_suite(name, tier, seed, fp):
    """returns dict(trace=path, model=path, crashed=bool, wall=float)"""
    key = hashlib.sha256(f"{name}|{tier}|{seed}|{fp}|{harness_dir()}|{tree_hash([HARNESS_SRC], ('.rs', '.in'))}|{tree_hash([LEAN], ('.lean', '.toml'))}|{tree_hash([os.path.join(VERIF, 'corpus')], ('.txt',))}".encode()).hexdigest()[:20]
    cdir = os.path.join(BUILD, "cache", key)
    meta = os.path.join(cdir, "meta.json")
    if os.path.exists(meta):
        return json.load(open(meta))
    os.makedirs(cdir, exist_ok=True)
    t0 = time.time()
    trace = os.path.join(cdir, "trace.txt")
    model = os.path.join(cdir, "model.txt")
    idle = 180 if tier == "thorough" else 30
    rc, stderr_tail, hung = run_watched([harness_bin()] + SUITE_ARGS[name] + ["--seed", str(seed), "--tier", tier], trace, "wb", idle)
    crashed = rc != 0
    # a crash (memory fault, abort) ends the process in the middle of a case: the incomplete last line marks the case;
    # the run is resumed with the next catalog type so that the other types are still covered
    restarts = 0
    hangs = 1 if hung else 0
    next_from = 0
    while rc != 0 and restarts < 80 and hangs <= 3 and name != "portable":
        with open(trace, "rb") as f:
            data = f.read()
        last = data.rstrip(b"\n").split(b"\n")[-1].decode("utf-8", "replace")
        fields = last.split(" ")
        if len(fields) < 2 or not fields[1].isdigit():
            break
        if not data.endswith(b"\n"):
            with open(trace, "ab") as f:
                f.write(b"\n")
        restarts += 1
        # a crash before the first case line of a type (while its initial state is being built) leaves no line of that type: step over it
        next_from = max(int(fields[1]) + 1, next_from + 1)
        rc, stderr_tail2, hung2 = run_watched([harness_bin()] + SUITE_ARGS[name] + ["--seed", str(seed), "--tier", tier, "--from", str(next_from)], trace, "ab", idle)
        stderr_tail = stderr_tail or stderr_tail2
        hung = hung or hung2
        hangs += 1 if hung2 else 0
    # corpus of recorded cases (witnesses of known findings and of repaired defects) runs with every suite
    cp = os.path.join(VERIF, "corpus", name + ".txt")
    if os.path.exists(cp) and not crashed:
        with open(cp, "rb") as fi:
            pc = subprocess.run([harness_bin(), "exec"], stdin=fi, stdout=subprocess.PIPE, stderr=subprocess.PIPE, timeout=600)
        with open(trace, "ab") as f:
            f.write(b"".join(l + b"\n" for l in pc.stdout.split(b"\n") if l and not l.startswith(b"T ")))
        crashed = crashed or pc.returncode != 0
    with open(trace, "rb") as fi, open(model, "wb") as fo:
        p2 = subprocess.run([driver_bin()], stdin=fi, stdout=fo, stderr=subprocess.PIPE, timeout=7200)
    m = dict(trace=trace, model=model, crashed=crashed, rc=rc, stderr=("the process was killed: no output for %d s (a library call that does not return). " % idle if hung else "") + stderr_tail,
             driver_rc=p2.returncode, wall=round(time.time() - t0, 2), suite=name)
    json.dump(m, open(meta, "w"))
    # keep the cache small
    try:
        entries = sorted((os.path.getmtime(os.path.join(BUILD, "cache", e)), e) for e in os.listdir(os.path.join(BUILD, "cache")))
        for _, e in entries[:-12]:
            shutil.rmtree(os.path.join(BUILD, "cache", e), ignore_errors=True)
    except OSError:
        pass
    return m

# ------------------------------------------------------------------------------------------------
# parsing observations
# ------------------------------------------------------------------------------------------------
def parse_rhs(r):
    """-> dict with 'cls' in ok|err|PANIC|FAULT|MEMFAULT|? and the fields"""
    d = {}
    for _ in range(2):
        if r.endswith(" OUTSIDE-WRITTEN"):
            d["outside"] = True
            r = r[: -len(" OUTSIDE-WRITTEN")]
        if r.endswith(" WRAP-DIFF"):
            d["wrapdiff"] = True
            r = r[: -len(" WRAP-DIFF")]
    if r == "":
        d["cls"] = "MEMFAULT"
    elif r.startswith("PANIC") or r == "HANG":
        d["cls"] = "PANIC"; d["hang"] = r == "HANG"
    elif r.startswith("FAULT"):
        d["cls"] = "FAULT"; d["fault"] = r
    elif r.startswith("err "):
        d["cls"] = "err"
        k, p = r[4:].split("@")
        d["kind"] = k; d["pos"] = int(p)
    elif r.startswith("ok"):
        d["cls"] = "ok"
        body = r[3:] if len(r) > 2 else ""
        if " w=" in body or body.startswith("w="):
            i = body.find("w=") if body.startswith("w=") else body.find(" w=") + 1
            d["w"] = body[i + 2:]
            body = body[:i].strip()
        for tok in body.split():
            if "=" in tok:
                k, v = tok.split("=", 1)
                d[k] = v
    else:
        d["cls"] = "?"; d["raw"] = r
    return d

def parse_emp(r):
    """RHS of E / F / A lines: `<res> <after> [k=v ...] [OUTSIDE-WRITTEN]`"""
    d = {}
    if r.endswith(" OUTSIDE-WRITTEN"):
        d["outside"] = True
        r = r[: -len(" OUTSIDE-WRITTEN")]
    toks = r.split(" ") if r else []
    if not toks:
        d["cls"] = "MEMFAULT"; return d
    if r == "HANG":
        d["cls"] = "PANIC"; d["hang"] = True; d["res"] = "HANG"; return d
    d["raw_tail"] = " ".join(t for t in toks[2:] if "=" not in t)
    d["res"] = toks[0]
    d["cls"] = toks[0].split(":")[0]
    if d["cls"] == "err":
        k, p = toks[0][4:].split("@"); d["kind"] = k; d["pos"] = int(p)
    if d["cls"].startswith("FAULT") or d["cls"] in ("MODEL-ERR", "BAD-INIT", "?"):
        d["cls"] = "FAULT"
    if len(toks) > 1:
        d["after"] = toks[1]
    for tok in toks[2:]:
        if "=" in tok:
            k, v = tok.split("=", 1); d[k] = v
    return d

def eq_masked(a, b):
    """b may contain `..` wildcards (bytes the model says are padding-derived)"""
    if a == b: return True
    if a is None or b is None or len(a) != len(b): return False
    for i in range(0, len(a), 2):
        if a[i:i+2] != b[i:i+2] and b[i:i+2] != "..": return False
    return True

def strip_caps(w):
    return re.sub(r"([VS])\d+", r"\1", w or "")

def probe_fields(p):
    """`ok:v=..:z=..:walk` -> dict"""
    if p is None: return None
    if not p.startswith("ok:"): return dict(ok=False, raw=p)
    _, v, z, w = p.split(":", 3)
    return dict(ok=True, v=int(v[2:]), z=int(z[2:]), w=w)

def load_pairs(m):
    """yield (lhs, impl_rhs, model_rhs) for case lines; type table separately"""
    types = {}
    cases = []
    with open(m["trace"], encoding="utf-8", errors="replace") as ft, open(m["model"], encoding="utf-8", errors="replace") as fm:
        tl = ft.read().split("\n")
        ml = fm.read().split("\n")
    if tl and tl[-1] == "":
        tl.pop()
    for i, line in enumerate(tl):
        mo = ml[i] if i < len(ml) else "<no model output>"
        if line.startswith("T "):
            f = line.split(" ")
            tid = int(f[1])
            attrs = dict(x.split("=", 1) for x in f if "=" in x and not x.startswith("("))
            desc = " ".join(x for x in f[3:] if "=" not in x)
            types[tid] = dict(name=f[2], desc=desc, align=int(attrs["align"]), min=int(attrs["min"]), flags=attrs.get("flags", ""), model=mo)
            continue
        if " => " in line:
            lhs, rhs = line.split(" => ", 1)
        elif line.endswith(" =>"):
            lhs, rhs = line[:-3], ""
        else:
            continue
        cases.append((lhs, rhs, mo))
    return types, cases

# ------------------------------------------------------------------------------------------------
# property definitions
# ------------------------------------------------------------------------------------------------
class Finding:
    def __init__(self, prop, kind, suite, lhs, impl, model, what, tdesc=""):
        self.prop, self.kind, self.suite, self.lhs, self.impl, self.model, self.what, self.tdesc = prop, kind, suite, lhs, impl, model, what, tdesc
    def key(self):
        return hashlib.sha256((self.suite + self.lhs).encode()).hexdigest()[:10]

def bytes_len(lhs):
    hx = lhs.split(" ")[-1]
    return 0 if hx == "-" else len(hx) // 2

def container_over(w):
    return "!OVER" in (w or "")

# each projection returns a hashable summary of the observables the property speaks about;
# each oracle returns None or a description of the violation, looking at the implementation only.
def proj_C01(lhs, o, t):
    return (o["cls"] in ("PANIC", "MEMFAULT", "FAULT"), o.get("outside", False), "X" in o.get("pfx", ""), o.get("ext") == "panic")
def oracle_C01(lhs, o, t):
    if o["cls"] in ("PANIC", "MEMFAULT"):
        return f"from_bytes/validate ended with {o['cls']}"
    if o.get("outside"):
        return "bytes outside the given slice were modified"
    if "X" in o.get("pfx", ""):
        return "validating a prefix panicked"
    if o.get("ext") == "panic":
        return "validating an extension panicked"
    return None

def proj_C02(lhs, o, t):
    if o["cls"] == "ok":
        return ("ok", o.get("v"), o.get("s"), o.get("in"), o.get("rv"), o.get("w"))
    return (o["cls"],)
def oracle_C02(lhs, o, t, om):
    if o["cls"] in ("MEMFAULT", "PANIC") and om.get("cls") == "err":
        return f"the process aborted while this slice was mapped and read through the accessors; the reference rejects it ({om.get('kind')}@{om.get('pos')}), so it was either accepted or validation itself crashed"
    if o.get("wrapdiff"):
        return "FlatWrap::from_wrapped_bytes over the same bytes answered differently from from_bytes (acceptance, error, size() or as_bytes())"
    # acceptance is exact (theorems `C02_gate`, `C02_*_accepts_iff`: the model accepts exactly the well-formed encodings), checked on the
    # implementation: a slice on which the implementation and the reference disagree about *acceptance* is accepted-but-malformed or
    # well-formed-but-rejected
    if o["cls"] == "err" and om.get("cls") == "ok":
        return f"from_bytes rejects ({o.get('kind')}@{o.get('pos')}) a slice that is a well-formed encoding by the acceptance criterion (C02_*_accepts_iff)"
    if o["cls"] == "ok" and om.get("cls") == "err":
        return f"from_bytes accepts a slice that the acceptance criterion (C02_*_accepts_iff) rejects ({om.get('kind')}@{om.get('pos')})"
    if o["cls"] != "ok":
        return None
    n = bytes_len(lhs)
    if int(o["v"]) > n: return f"as_bytes() has {o['v']} bytes, the slice {n}"
    if int(o["s"]) > n: return f"size_of_val is {o['s']}, the slice has {n} bytes"
    if o.get("in") != "1": return "the reference does not lie inside the given slice"
    if o.get("rv") != "ok": return f"the value's own bytes do not validate again: {o.get('rv')}"
    if container_over(o.get("w")): return "a container reports len > capacity"
    return None

# ---- the plain C layout rule on descriptors (third, independent implementation: oracle for field addresses) -----------
def _tok(s):
    return s.replace("(", " ( ").replace(")", " ) ").split()
def _parse(toks, i):
    if toks[i] == "(":
        lst = []; i += 1
        while toks[i] != ")":
            x, i = _parse(toks, i); lst.append(x)
        return lst, i + 1
    return toks[i], i + 1
def parse_desc(d):
    return _parse(_tok(d), 0)[0]
def _len(l):   # l2a2l -> (size, align)
    m = re.match(r"l(\d+)a(\d+)[lb]$", l); return int(m.group(1)), int(m.group(2))
def c_align(t):
    if isinstance(t, str):
        if t == "bool": return 1
        return int(re.match(r"p(\d+)a(\d+)$", t).group(2))
    h = t[0]
    if h == "arr": return c_align(t[1])
    if h in ("ss", "us"): return max([c_align(x) for x in t[1:]] or [1])
    if h == "ce": return _len(t[1])[1]
    if h in ("se", "ue"): return max([_len(t[1])[1]] + [c_align(x) for v in t[2:] for x in v[1:]])
    if h in ("vec", "flex"): return max(c_align(t[1]), _len(t[2])[1])
    if h == "str": return _len(t[1])[1]
    raise ValueError(h)
def c_sized(t):
    return isinstance(t, str) or t[0] in ("arr", "ss", "ce", "se")
def c_ceil(x, m): return (x + m - 1) // m * m
def c_offsets(fields):
    pos, out = 0, []
    for f in fields:
        pos = c_ceil(pos, c_align(f)); out.append(pos)
        if c_sized(f): pos += c_size(f)
    return out, pos
def c_size(t):
    if isinstance(t, str):
        return 1 if t == "bool" else int(re.match(r"p(\d+)a(\d+)$", t).group(1))
    h = t[0]
    if h == "arr": return c_size(t[1]) * int(t[2])
    if h == "ss":
        _, end = c_offsets(t[1:]); return c_ceil(end, c_align(t))
    if h == "ce": return _len(t[1])[0]
    if h == "se":
        al = c_align(t); doff = c_ceil(_len(t[1])[0], al)
        mx = max([c_ceil(c_offsets(v[1:])[1], max([c_align(x) for x in v[1:]] or [1])) for v in t[2:]] or [0])
        return c_ceil(doff + mx, al)
    raise ValueError(h)
_DESC_CACHE = {}
def expected_offsets(desc, w):
    """C offsets of the top-level fields (of the variant named in the walk `w`), None for types without fields"""
    t = _DESC_CACHE.get(desc)
    if t is None:
        t = _DESC_CACHE[desc] = parse_desc(desc)
    if isinstance(t, str): return None
    if t[0] in ("ss", "us"): return c_offsets(t[1:])[0]
    if t[0] == "ce": return []
    if t[0] in ("se", "ue"):
        m = re.match(r"<(\d+)", w or "")
        if not m: return None
        v = t[2 + int(m.group(1))]
        doff = c_ceil(_len(t[1])[0], c_align(t))
        return [doff + o for o in c_offsets(v[1:])[0]]
    return None

def _top_tokens(w):
    """tokens of a walk at nesting depth 0"""
    out, cur, depth = [], "", 0
    for ch in w:
        if ch in "([<": depth += 1
        if ch in ")]>": depth -= 1
        if ch == " " and depth == 0:
            out.append(cur); cur = ""
        else:
            cur += ch
    if cur: out.append(cur)
    return out
def _lmax(l):
    return 2 ** (8 * _len(l)[0]) - 1
def expected_cap(t, room):
    """capacity of a FlatVec / FlatString mapped from `room` bytes, by the documented rule: everything behind the length field
    (placed as C places it before the data) that the alignment leaves, counted in elements, at most what the length type can count"""
    if isinstance(t, str) or room is None: return None
    if t[0] == "vec":
        ls, la = _len(t[2]); ea, es = c_align(t[1]), c_size(t[1])
        doff = max(ls, ea)
        if room < doff: return None
        if es == 0: return None
        return min((room - doff) // max(la, ea) * max(la, ea) // es, _lmax(t[2]))
    if t[0] == "str":
        ls, la = _len(t[1])
        if room < ls: return None
        return min((room - ls) // la * la, _lmax(t[1]))
    return None
def cap_oracle(desc, w, n):
    """(reported, expected) capacity of the top-level container, or of the container that ends an unsized struct (found at the
    offset the C rule gives the last field), when both are known"""
    t = _DESC_CACHE.get(desc)
    if t is None:
        t = _DESC_CACHE[desc] = parse_desc(desc)
    if isinstance(t, str) or not w: return None
    tail, room, tok = None, None, None
    if t[0] in ("vec", "str"):
        tail, room, tok = t, n // c_align(t) * c_align(t), w
    elif t[0] == "us" and not isinstance(t[-1], str) and t[-1][0] in ("vec", "str") and w.startswith("(") and w.endswith(")"):
        al = c_align(t)
        offs, _ = c_offsets(t[1:])
        tail, room = t[-1], n // al * al - offs[-1]
        toks = _top_tokens(w[1:-1])
        tok = toks[-1] if toks else None
    if tail is None or tok is None or room is None or room < 0: return None
    m = re.match(r"[VS](\d+)[\[:]", tok)
    exp = expected_cap(tail, room)
    if not m or exp is None: return None
    return int(m.group(1)), exp
def proj_C04(lhs, o, t):
    if o["cls"] == "ok":
        return (o.get("v"), o.get("s"), o.get("off"))
    return ()
def oracle_C04(lhs, o, t):
    if o["cls"] != "ok":
        return None
    n = bytes_len(lhs)
    if int(o["s"]) > n: return f"size_of_val {o['s']} exceeds the {n}-byte slice it was mapped from"
    if int(o["v"]) != int(o["s"]): return f"as_bytes() covers {o['v']} bytes but size_of_val is {o['s']}"
    if int(o["s"]) % t["align"] != 0: return f"size_of_val {o['s']} is not a multiple of ALIGN {t['align']}"
    if "off" in o:
        exp = expected_offsets(t["desc"], o.get("w"))
        got = [] if o["off"] == "-" else [int(x) for x in o["off"].split(",")]
        if exp is not None and exp != got: return f"field addresses {got} (relative to the value) differ from the C layout rule {exp}"
        if t["align"] != c_align(parse_desc(t["desc"])): return f"ALIGN {t['align']} differs from the C rule {c_align(parse_desc(t['desc']))}"
    ce = cap_oracle(t["desc"], o.get("w"), n)
    if ce is not None and ce[0] != ce[1]:
        return f"the container reports capacity {ce[0]}; the C layout of a {n}-byte slice leaves room for {ce[1]} (offset of the container or of its data differs from the C rule)"
    return None

def proj_C05(lhs, o, t):
    if lhs[0] == "O":
        p = probe_fields(o.get("p"))
        return (p["z"] if p and p["ok"] else None,)
    if lhs[0] in "EFA":
        p = probe_fields(o.get("p")); p2 = probe_fields(o.get("p2"))
        return (p["z"] if p and p["ok"] else None, p2["z"] if p2 and p2["ok"] else None)
    if o["cls"] == "ok":
        return (o.get("z"), o.get("rm"))
    return ()
def oracle_C05(lhs, o, t):
    if lhs[0] == "O":
        # after every operation of a history: size() within the value's bytes, a multiple of ALIGN, and the first size() bytes alone
        # validate and map to the same content
        if "SIZE-PREFIX-DIFF" in o.get("raw_tail", ""): return "after the operation the first size() bytes do not validate and map to the same content with the same size()"
        p = probe_fields(o.get("p"))
        if p and p["ok"]:
            if p["z"] > p["v"]: return f"after the operation size() = {p['z']} exceeds the value's own {p['v']} bytes"
            if p["z"] % t["align"] != 0: return f"after the operation size() = {p['z']} is not a multiple of ALIGN {t['align']}"
        return None
    if lhs[0] in "EFA":
        n = hexlen(lhs.split(" ")[-1])
        for key in ("p", "p2"):
            p = probe_fields(o.get(key))
            if p and p["ok"]:
                if p["z"] > n: return f"after construction/assignment size() = {p['z']} exceeds the {n}-byte buffer"
                if p["z"] % t["align"] != 0: return f"after construction/assignment size() = {p['z']} is not a multiple of ALIGN {t['align']}"
        return None
    if o["cls"] != "ok":
        return None
    n = bytes_len(lhs)
    z = int(o["z"])
    if z > n: return f"size() = {z} exceeds the {n} bytes the value was mapped from"
    if z % t["align"] != 0: return f"size() = {z} is not a multiple of ALIGN {t['align']}"
    if z < t["min"]: return f"size() = {z} is below MIN_SIZE {t['min']}"
    if o.get("rm") != "same": return f"mapping the first size() bytes again: {o.get('rm')}"
    return None

def proj_C06(lhs, o, t):
    if o["cls"] == "ok":
        return ("ok", o.get("pfx"), o.get("ext"))
    if o["cls"] == "err":
        return ("err", o["kind"] == "insufficientSize")
    return (o["cls"],)
def oracle_C06(lhs, o, t):
    if o["cls"] != "ok":
        return None
    p = o.get("pfx")
    if p and p != "-":
        for k, c in enumerate(p):
            if c not in "IS":
                return f"prefix of length {k} of a message: {dict(D='accepted as a different value', E='content error', X='panic').get(c, c)}"
    if o.get("ext") not in (None, "same"):
        return f"message followed by further bytes: {o.get('ext')}"
    return None

def proj_C19(lhs, o, t):
    if o["cls"] == "err" and o["kind"] in ("invalidData", "invalidEnumTag"):
        return (o["kind"], o["pos"])
    return ()
def oracle_C19(lhs, o, t, om=None):
    # a content error on a slice that the acceptance criterion accepts (no byte of it is wrong) is a misreported position wherever it points
    # (a different position on a slice with several wrong bytes is left to the correspondence: another validation order may name another one)
    if om is not None and o["cls"] == "err" and o["kind"] in ("invalidData", "invalidEnumTag"):
        if om.get("cls") == "ok":
            return f"{o['kind']} reported at {o['pos']} on a slice in which no byte is wrong"
    if lhs[0] == "C":
        f = lhs.split(" ")
        kind, lo, hi = f[4], int(f[5]), int(f[6])
        if o["cls"] != "err": return f"exactly one constrained byte ({kind} at {lo}..{hi}) was corrupted but validation gave {o['cls']}"
        if o["kind"] != kind: return f"corrupted byte at {lo}..{hi}: reported {o['kind']}@{o['pos']}, expected {kind}"
        if not (lo <= o["pos"] <= hi): return f"corrupted byte at {lo}..{hi}: reported at {o['pos']}"
        return None
    if o["cls"] == "err" and o["kind"] in ("invalidData", "invalidEnumTag"):
        if o["pos"] >= bytes_len(lhs):
            return f"error position {o['pos']} is outside the {bytes_len(lhs)}-byte slice"
    return None

# ---- emplacement suite (E = new_in_place, F = default_in_place, A = assign_in_place) ----------------------
def lhs_fields(lhs):
    """-> kind, tid, a16, init text(s), pre hex"""
    f = lhs.split(" ")
    return f[0], int(f[1]), int(f[3]), " ".join(f[4:-1]), f[-1]
def hexlen(h):
    return 0 if h == "-" else len(h) // 2
def split_inits(text):
    """top-level parenthesised groups (or bare words) of an initialiser list"""
    out, depth, cur = [], 0, ""
    for ch in text:
        if ch == "(":
            depth += 1
        if ch == " " and depth == 0:
            if cur: out.append(cur)
            cur = ""
            continue
        cur += ch
        if ch == ")":
            depth -= 1
    if cur: out.append(cur)
    return out

def proj_C03(lhs, o, t):
    if lhs[0] != "E" or o["cls"] != "ok": return ()
    return (o.get("after"), o.get("spec"), o.get("p"))
def oracle_C03(lhs, o, t, om=None):
    if lhs[0] == "E":
        w = oracle_need(lhs, o, t, om)
        if w: return w
    if lhs[0] != "E" or o["cls"] != "ok": return None
    p = probe_fields(o.get("p"))
    if p is None or not p["ok"]: return f"the emplaced bytes do not validate: {o.get('p')}"
    if strip_caps(p["w"]) != o.get("spec"): return f"read back {strip_caps(p['w'])}, specified {o.get('spec')}"
    if "!OVER" in p["w"]: return "a container reports len > capacity after emplacement"
    if p["z"] > hexlen(o.get("after_raw", o.get("after"))): return f"size() {p['z']} exceeds the buffer"
    return None

def proj_C15(lhs, o, t):
    if lhs[0] not in "EF": return ()
    return (o["cls"], o.get("kind"))
def need_of(om):
    """the specified size printed by the model (`sizeSpec`; None when the content is not representable, `Rep`)"""
    v = (om or {}).get("need")
    if v is None: return "absent"
    return None if v == "unrep" else int(v)
def oracle_need(lhs, o, t, om):
    """acceptance is exact (theorem `emplaceU_acc`), checked on the implementation: an aligned buffer is accepted iff the content
    is representable and its specified size fits; an accepted value has exactly that size()"""
    kind, tid, a16, init, pre = lhs_fields(lhs)
    n = hexlen(pre)
    need = need_of(om)
    if need == "absent" or a16 % t["align"] != 0 or o["cls"] not in ("ok", "err"): return None
    fits = need is not None and need <= n
    if o["cls"] == "ok" and not fits:
        return f"a {n}-byte buffer was accepted, the content needs {need if need is not None else 'more than the length type can express'}"
    if o["cls"] == "err" and fits and n >= t["min"]:
        return f"a {n}-byte aligned buffer was refused with {o['res']}, the content needs {need} bytes"
    if o["cls"] == "ok":
        p = probe_fields(o.get("p"))
        if p and p["ok"] and p["z"] != need: return f"size() of the result is {p['z']}, the specified content occupies {need}"
    return None
def oracle_C15(lhs, o, t, om=None):
    if lhs[0] not in "EF": return None
    kind, tid, a16, init, pre = lhs_fields(lhs)
    n = hexlen(pre)
    if o["cls"] in ("PANIC", "MEMFAULT"): return f"emplacement ended with {o['cls']}"
    if "WRAP-DIFF" in o.get("raw_tail", ""): return "FlatWrap::new_in_place over the same bytes gave a different result, different bytes or a different size() than new_in_place"
    w = oracle_need(lhs, o, t, om)
    if w: return w
    if a16 % t["align"] != 0:
        if not (o["cls"] == "err" and o["kind"] == "badAlign"): return f"misaligned buffer (address % {t['align']} = {a16 % t['align']}) gave {o['res']} instead of BadAlign"
        return None
    if n < t["min"]:
        if not (o["cls"] == "err" and o["kind"] == "insufficientSize"): return f"{n}-byte buffer, MIN_SIZE {t['min']}: {o['res']} instead of InsufficientSize"
        return None
    if o["cls"] == "err" and o["kind"] != "insufficientSize": return f"aligned buffer refused with {o['res']}"
    if o["cls"] == "ok" and lhs[0] == "E":
        return oracle_C03(lhs, o, t, om)     # "accepted and then satisfies C03"
    return None
def post_C15(cases):
    """once an aligned buffer of some length is accepted, every longer one is accepted too"""
    out = []
    first_ok = {}
    for (sname, lhs, rhs, mo, o, t) in cases:
        if lhs[0] not in "EF": continue
        kind, tid, a16, init, pre = lhs_fields(lhs)
        if a16 % t["align"] != 0: continue
        key = (kind, tid, init)
        n = hexlen(pre)
        if o["cls"] == "ok":
            first_ok[key] = min(first_ok.get(key, 1 << 30), n)
    for (sname, lhs, rhs, mo, o, t) in cases:
        if lhs[0] not in "EF": continue
        kind, tid, a16, init, pre = lhs_fields(lhs)
        if a16 % t["align"] != 0: continue
        n = hexlen(pre)
        if o["cls"] == "err" and n > first_ok.get((kind, tid, init), 1 << 30):
            out.append((sname, lhs, rhs, mo, f"a {first_ok[(kind, tid, init)]}-byte buffer holds this content but a {n}-byte one is refused with {o['res']}"))
    return out

def has_filled_container(init):
    return re.search(r"\((va|vi|sf|fi) [^)]", init) is not None
def proj_C18(lhs, o, t):
    if lhs[0] != "A": return ()
    return (o.get("res"), o.get("after"), o.get("p"), o.get("a2"), o.get("p2"))
def oracle_assign_need(lhs, o, om):
    """`C03_assign_reads_back`, checked on the implementation: assign_in_place on a valid target succeeds iff the content is
    representable and its specified size is at most as_bytes().len() of the target; then size() is the specified size"""
    need, v0 = need_of(om), (om or {}).get("v0")
    if need == "absent" or v0 in (None, "?") or o["cls"] not in ("ok", "err"): return None
    fits = need is not None and need <= int(v0)
    if o["cls"] == "ok" and not fits: return f"assign_in_place succeeded on a value of {v0} bytes, the new content needs {need if need is not None else 'more than the length type can express'}"
    if o["cls"] == "err" and fits: return f"assign_in_place was refused with {o['res']} on a value of {v0} bytes, the new content needs {need}"
    if o["cls"] == "ok":
        p = probe_fields(o.get("p"))
        if p and p["ok"] and p["z"] != need: return f"size() after assign_in_place is {p['z']}, the specified content occupies {need}"
    return None
def oracle_C18(lhs, o, t, om):
    if lhs[0] != "A": return None
    if o["cls"] in ("PANIC", "MEMFAULT"): return f"assign_in_place ended with {o['cls']}"
    if o["cls"] == "notvalid": return None   # the harness's own precondition failed (reported by C03/C05 suites)
    w = oracle_assign_need(lhs, o, om)
    if w: return w
    p = probe_fields(o.get("p"))
    if o["cls"] == "err":
        if p is None or not p["ok"]:
            return ("INVALID-AS-MODELLED" if o.get("p") == om.get("p") and o.get("after") == om.get("after") else "INVALID") + f" after a failed assign_in_place: {o.get('p')}"
        if (o.get("a2") or "").startswith("PANIC") or (o.get("p2") or "").startswith("PANIC"): return "panic when the value is used again after a failed assign_in_place"
        p2 = probe_fields(o.get("p2"))
        kind, tid, a16, init, pre = lhs_fields(lhs)
        if p2 is None or not p2["ok"]:
            inits = split_inits(init)
            second = inits[1] if len(inits) > 1 else "?"
            if (o.get("a2") or "").startswith("err") and o.get("p2") == om.get("p2") and o.get("a2") == om.get("a2"):
                return f"INVALID-AS-MODELLED after a failed second assign_in_place of {second}: {o.get('p2')}"
            return f"INVALID after assigning again ({o.get('a2')}) with {second}: {o.get('p2')}"
        if o["kind"] == "insufficientSize" and o.get("after_raw", o.get("after")) != pre:
            if o.get("after") == om.get("after"):
                return "CHANGED-AS-MODELLED: target changed (still valid) by a failed assign for lack of room"
            return "target changed by a failed assign for lack of room"
    return None

def proj_C20(lhs, o, t):
    if lhs[0] != "F": return ()
    return (o.get("res"), o.get("after"), o.get("p"))
def oracle_C20(lhs, o, t, om=None):
    if lhs[0] != "F": return None
    if o["cls"] in ("PANIC", "MEMFAULT"): return f"default_in_place ended with {o['cls']}"
    if "WRAP-DIFF" in o.get("raw_tail", ""): return "FlatWrap::default_in_place over the same bytes gave a different result, different bytes or a different size() than default_in_place"
    w = oracle_need(lhs, o, t, om)
    if w: return w
    if o["cls"] == "ok":
        p = probe_fields(o.get("p"))
        if p is None or not p["ok"]: return f"the default value does not validate: {o.get('p')}"
        if p["z"] % t["align"] != 0 or p["z"] < t["min"]: return f"default value has size() {p['z']}"
    return None
def post_C20(cases):
    """the default content and its size() do not depend on the buffer's prior contents or length"""
    out, seen = [], {}
    for (sname, lhs, rhs, mo, o, t) in cases:
        if lhs[0] != "F" or o["cls"] != "ok": continue
        p = probe_fields(o.get("p"))
        if not p or not p["ok"]: continue
        tid = int(lhs.split(" ")[1])
        cur = (strip_caps(p["w"]), p["z"])
        if tid in seen and seen[tid][0] != cur:
            out.append((sname, lhs, rhs, mo, f"default value differs between buffers: {cur} here, {seen[tid][0]} for {seen[tid][1]}"))
        seen.setdefault(tid, (cur, lhs))
    return out

def proj_C14e(lhs, o, t):
    return (o.get("after"), o.get("outside", False))
def oracle_C14e(lhs, o, t):
    if o.get("outside"): return "bytes outside the buffer handed to the library were modified"
    if o["cls"] == "MEMFAULT": return "memory fault"
    if lhs[0] == "A" and o["cls"] in ("ok", "err"):
        kind, tid, a16, init, pre = lhs_fields(lhs)
        p = probe_fields(o.get("p"))
        if p and p["ok"]:
            v = p["v"]
            a = o.get("after_raw", o.get("after"))
            if a[2 * v:] != pre[2 * v:]: return f"assign_in_place changed bytes after the value's own {v} bytes"
    return None

# ---- operation histories (O lines) ------------------------------------------------------------------------
def op_of(lhs):
    return lhs.split(" ", 5)[5]
def tkind(t):
    d = t["desc"]
    return "vec" if d.startswith("(vec") else "str" if d.startswith("(str") else "flex" if d.startswith("(flex") else "other"
def content_of(p):
    f = probe_fields(p)
    return strip_caps(f["w"]) if f and f["ok"] else None
def proj_ops(lhs, o, t):
    return (o.get("res"), o.get("after"), o.get("p"), o.get("same"))
def oracle_seq(lhs, o, t):
    """the container agrees with the abstract sequence the harness maintains (a plain Vec / String / Vec of items)"""
    if o["cls"] == "MEMFAULT": return "memory fault"
    if o["cls"] == "notvalid": return f"the container did not validate before the operation: {o['res']}"
    if "want" in o and o["want"] != o["res"]: return f"returned {o['res']}, the abstract sequence returns {o['want']}"
    if o["cls"] == "PANIC" and o.get("want") != "PANIC": return "panic"
    f = probe_fields(o.get("p"))
    if not f or not f["ok"]: return f"the bytes do not validate / re-map after the operation: {o.get('p')}"
    if content_of(o.get("p")) != o.get("abs"): return f"content {content_of(o.get('p'))} differs from the abstract sequence {o.get('abs')}"
    if "!OVER" in f["w"]: return "len > capacity"
    if "SIZE-PREFIX-DIFF" in o.get("raw_tail", ""): return "the first size() bytes of the value do not validate and map to the same content with the same size() after the operation"
    if "REMAP-DIFF" in o.get("raw_tail", ""): return "the value's own bytes (as_bytes()) do not validate and re-map to the same state (extent, size(), content, capacity)"
    return None
def proj_C11(lhs, o, t):
    return proj_ops(lhs, o, t) if lhs[0] == "O" and tkind(t) in ("vec", "str") else ()
def oracle_C11(lhs, o, t):
    if lhs[0] != "O" or tkind(t) not in ("vec", "str"): return None
    if "CAP-CHANGED" in o.get("raw_tail", ""): return "the capacity changed"
    return oracle_seq(lhs, o, t)
def proj_C12(lhs, o, t):
    return proj_ops(lhs, o, t) if lhs[0] == "O" and tkind(t) == "flex" else ()
def oracle_C12(lhs, o, t, om=None):
    if lhs[0] != "O" or tkind(t) != "flex": return None
    # `C12_push_accepts_iff`: when a push is accepted is a theorem about the model (sealable last item, room for a slot header,
    # representable content whose specified size fits); an implementation that accepts or refuses a top-level push differently has
    # a failing input
    ops = op_of(lhs).split(" ")
    if om is not None and ops and ops[0] == "fpush" and o.get("res") and om.get("res"):
        oi_ok, om_ok = o["res"] == "ok", om["res"] == "ok"
        if o["cls"] in ("ok", "err") and om["cls"] in ("ok", "err") and oi_ok != om_ok:
            return (f"push was {'accepted' if oi_ok else 'refused with ' + o['res']}; by the acceptance theorem it must be "
                    f"{'accepted' if om_ok else 'refused (' + om['res'] + ')'} in this state")
    return oracle_seq(lhs, o, t)
REFUSED = re.compile(r"^(full|err:.*)$")
def refusable(op):
    head = op.split(" ")
    while head and head[0] == "item": head = head[2:]
    return head and head[0] in ("push", "pushslice", "pushc", "pushstr", "fpush")
def proj_C13(lhs, o, t):
    if lhs[0] != "O" or not refusable(op_of(lhs)): return ()
    return (o.get("res"), o.get("same")) if REFUSED.match(o.get("res") or "") else (o.get("res"),)
def oracle_C13(lhs, o, t, om=None):
    if lhs[0] != "O" or not refusable(op_of(lhs)): return None
    if REFUSED.match(o.get("res") or "") and o.get("same") != "1":
        return f"operation refused with {o['res']} but the observable state changed: {o.get('p')}"
    # an operation the reference refuses (theorems `C13_*`: it returns an error and changes nothing) that the implementation answers with
    # a panic — and the value is not what it was
    if om is not None and o.get("cls") == "PANIC" and not o.get("hang") and REFUSED.match(om.get("res") or "") and o.get("same") != "1":
        return f"the reference refuses this operation ({om.get('res')}: nothing may change); the implementation panicked and the observable state changed: {o.get('p')}"
    return None
def proj_C14(lhs, o, t):
    return (o.get("after"), o.get("outside", False))
def oracle_C14(lhs, o, t):
    w = oracle_C14e(lhs, o, t)
    if w: return w
    if lhs[0] == "O" and o["cls"] not in ("PANIC", "MEMFAULT", "notvalid"):
        f = lhs.split(" ", 5)
        pre = f[4]
        p = probe_fields(o.get("p"))
        a = o.get("after_raw", o.get("after"))
        if p and p["ok"] and a[2 * p["v"]:] != pre[2 * p["v"]:]:
            return f"bytes after the value's own {p['v']} bytes changed"
        ops = f[5].split(" ")
        if ops[0] == "setfield" and tkind(t) == "other":
            # a field write through the mutable accessors (`C14_setField_frame`): only the bytes of that field — at the offset the C
            # rule gives it, an oracle independent of the model — may change, and the value reads as the abstract one afterwards
            if o.get("want") and o["want"] != o.get("res"): return f"setfield returned {o.get('res')}, expected {o['want']}"
            if p and p["ok"] and o.get("abs") is not None and content_of(o.get("p")) != o.get("abs"): return f"content {content_of(o.get('p'))} after the field write, expected {o.get('abs')}"
            i, img = int(ops[2]), ops[3]
            changed = [k for k in range(0, min(len(a), len(pre)), 2) if a[k:k + 2] != pre[k:k + 2]]
            if o.get("res") == "novariant":
                if changed: return "a field write addressed at an inactive variant changed the value"
            elif o.get("res") == "ok" and p and p["ok"]:
                exp = expected_offsets(t["desc"], p["w"])
                if exp is not None and i < len(exp):
                    lo, hi = 2 * exp[i], 2 * exp[i] + len(img)
                    bad = [k // 2 for k in changed if not (lo <= k < hi)]
                    if bad: return f"writing field {i} (bytes {exp[i]}..{exp[i] + len(img) // 2}) changed byte(s) {bad[:6]} outside it"
    return None

# ---- IO suites (S R AS AR AP W lines) ---------------------------------------------------------------------
def parse_io(r):
    d = {"cls": "io"}
    if r == "":
        d["cls"] = "MEMFAULT"; return d
    if r == "HANG":
        d["cls"] = "PANIC"; d["hang"] = True; d["outs"] = ["HANG"]; return d
    toks = r.split(" ")
    d["outs"] = toks[0].split(",") if toks[0] not in ("-", "") else []
    for tok in toks[1:]:
        if "=" in tok:
            k, v = tok.split("=", 1); d[k] = v
    if toks[0].startswith("sent="):
        d["outs"] = (d.get("got") or "-").split(",") if d.get("got") not in (None, "-") else []
    if r.startswith("PANIC"):
        d["cls"] = "PANIC"
    return d
def io_fields(lhs):
    f = lhs.split(" ")
    return dict(kind=f[0], tid=int(f[1]), max=int(f[2]), script=f[3], rest=f[4:])
IO_KINDS = ["ConnectionReset", "Interrupted", "WouldBlock", "TimedOut", "BrokenPipe", "WriteZero", "UnexpectedEof", "Other", "NotConnected", "PermissionDenied", "OutOfMemory"]
def faulty(script):
    return any(x == "z" or x.startswith("f") for x in script.split(","))
def norm_io(o, om):
    """sink compared with the model's padding mask"""
    if "sink" in o and "sink" in om and eq_masked(o["sink"], om["sink"]):
        o = dict(o); o["sink_raw"] = o["sink"]; o["sink"] = om["sink"]
    return o
def proj_io_all(lhs, o, t):
    return (tuple(o.get("outs", [])), o.get("sink"), o.get("calls"), o.get("reads"), o.get("sent"), o.get("done"), o.get("flushed"))
def proj_C07(lhs, o, t):
    f = io_fields(lhs)
    return proj_io_all(lhs, o, t) if f["kind"] in ("S", "R") and not faulty(f["script"]) else ()
def proj_C08(lhs, o, t):
    f = io_fields(lhs)
    if f["kind"] == "AP": return (tuple(o.get("outs", [])), o.get("sent"), o.get("done"), o.get("panic"))
    return proj_io_all(lhs, o, t) if f["kind"] in ("AS", "AR") and not faulty(f["script"]) else ()
def proj_C09(lhs, o, t):
    f = io_fields(lhs)
    return proj_io_all(lhs, o, t) if f["kind"] in ("S", "R", "AS", "AR") and faulty(f["script"]) else ()
def proj_C10(lhs, o, t):
    f = io_fields(lhs)
    return (tuple(o.get("outs", [])), o.get("reads")) if f["kind"] in ("R", "AR") else ()
def oracle_io_basic(lhs, o, t, om=None):
    if o["cls"] in ("PANIC", "MEMFAULT"): return f"the harness case ended with {o['cls']} (call budget exhausted = the call never returns)"
    return None
def oracle_C10(lhs, o, t, om=None):
    w = oracle_io_basic(lhs, o, t)
    if w or not om or lhs.split(" ")[0] not in ("R", "AR"): return w
    # `hard_final` / `C10_stream_goes_bad`: once the bytes received hold a content error, no further input changes it. The model
    # (for which this is proved) names the call and the number of reads at which that happens; an implementation that answers
    # that call with something else after reading further has asked for more input on a complete, malformed message.
    mo, io = om.get("outs", []), o.get("outs", [])
    # the end of the stream and the exhaustion of the buffer are different outcomes: the model (whose window arithmetic is the
    # subject of `C10_recv_never_faults` / `C07_receiver_delivers`) says which one a call meets
    for j, (x, y) in enumerate(zip(mo, io)):
        if x != y:
            if {x, y} == {"oom", "closed"}:
                return f"call {j + 1}: recv answered {y} where the stream / buffer state is {x} ({'the buffer was full, the stream had not ended' if x == 'oom' else 'the stream had ended, the buffer had room'})"
            break
    for j, x in enumerate(mo):
        if x.startswith("parse:") and "insufficientSize" not in x:
            if mo[:j] == io[:j] and (len(io) <= j or not io[j].startswith("parse:")):
                try: extra = int(o.get("reads", 0)) - int(om.get("reads", 0))
                except ValueError: extra = 0
                if extra > 0:
                    return (f"call {j + 1}: the bytes received held a complete message that is malformed in content ({x}); recv answered "
                            f"{io[j] if len(io) > j else 'nothing'} after {extra} further read(s) instead of the parse error")
            break
    return None
def post_io(props_kind):
    """block oracles: a block = the lines up to a `W` line, which carries the sent sequence (sizes and contents)"""
    def post(cases):
        out, block = [], []
        for c in cases:
            (sname, lhs, rhs, mo, o, t) = c
            if lhs.startswith("X "):
                # the preceding line's stream holds a complete message that is malformed in content
                if block and props_kind == "C10":
                    (sn, l, r, m, oo, tt) = block[-1]
                    outs_ = [x for x in oo.get("outs", []) if not x.startswith("read")]
                    if not outs_ or not outs_[0].startswith("parse"):
                        out.append((sn, l, r, m, f"the stream starts with a complete message that is malformed in content, but recv answered {outs_[:1]} instead of a parse error (it kept asking for more input)"))
                continue
            if lhs.startswith("W "):
                want = rhs.split(",") if rhs not in ("", "-") else []
                stream = lhs.split(" ")[3]
                sizes = [int(w.split(":")[1]) for w in want]
                for (sn, l, r, m, oo, tt) in block:
                    w = check_io_line(props_kind, l, oo, want, sizes, stream)
                    if w: out.append((sn, l, r, m, w))
                block = []
            else:
                block.append(c)
        return out
    return post
def check_io_line(kind, lhs, o, want, sizes, stream):
    f = io_fields(lhs)
    k, script = f["kind"], f["script"]
    outs = o.get("outs", [])
    nscript = 0 if script == "-" else len(script.split(","))
    if k in ("S", "AS"):
        sink = o.get("sink_raw", o.get("sink", "-"))
        n = 0 if sink == "-" else len(sink) // 2
        if int(o.get("calls", 0)) > nscript + len(sizes) * 3 + sum(sizes) + 8: return f"{o.get('calls')} pipe calls for {sum(sizes)} bytes and a script of {nscript}: retry loop"
        if not faulty(script):
            if kind in ("C07", "C08"):
                if outs != ["ok"] * len(sizes): return f"send results {outs} without any pipe fault"
                if n != sum(sizes): return f"sink holds {n} bytes, the messages have {sum(sizes)}"
                if k == "AS" and o.get("flushed") != "1": return "a send completed without a successful flush after its last byte"
        elif kind == "C09":
            # whole messages followed by at most one partial message, nothing after it.  A send that reported an error may have
            # handed over nothing, a proper prefix (then nothing may follow), or — async only, when the flush failed — everything.
            acc = sum(sizes[i] for i, r in enumerate(outs) if r == "ok")
            errs = [i for i, r in enumerate(outs) if r.startswith("err")]
            if n < acc: return f"sink holds {n} bytes but {acc} bytes of completed messages were reported"
            E = n - acc
            import itertools
            okshape = False
            for mask in itertools.product([0, 1], repeat=len(errs)):
                full = [e for e, m in zip(errs, mask) if m]
                if full and k != "AS": continue
                rest_ = E - sum(sizes[e] for e in full)
                if rest_ == 0: okshape = True; break
                for e in errs:
                    if e in full: continue
                    if 0 < rest_ < sizes[e] and not any(r == "ok" for r in outs[e + 1:]) and not any(x > e for x in full):
                        okshape = True
                if okshape: break
            if not okshape: return f"sink ({n} bytes) is not whole messages followed by at most one partial message with nothing after it: results {outs}, sizes {sizes}"
            if any(r == "STUCK" for r in outs): return "a send future was never woken again"
            # every failing pipe outcome the sender consumed surfaced as an error (it is not swallowed and retried)
            ent = script.split(",")[: int(o.get("calls", 0))]
            nfault = sum(1 for x in ent if x.startswith("f") or (x == "z" and k == "S"))
            nerr = sum(1 for r in outs if r.startswith("err"))
            if k == "S" and nerr != nfault: return f"{nfault} failing pipe outcome(s) were consumed but {nerr} send(s) reported an error: {outs}"
            if k == "AS" and nerr < nfault: return f"{nfault} failing pipe outcome(s) were consumed but only {nerr} send(s) reported an error: {outs}"
            # the error a send reports is the error of the failing pipe call (`C09_send_error_is_first_failure`), whatever its kind
            if k == "S":
                fk = [("BrokenPipe" if x == "z" else IO_KINDS[int(x[1:] or 0)]) for x in ent if x.startswith("f") or x == "z"]
                ek = [r[4:] for r in outs if r.startswith("err:")]
                if fk != ek: return f"the pipe failed with {fk}, the sends reported {ek}"
            if any(r.startswith("GUARD-DIFF") for r in outs): return f"a send guard shows different values through its accessors: {outs}"
        return None
    if k in ("R", "AR"):
        if any(x in ("PANIC", "STUCK", "BLOCKED") for x in outs): return f"recv: {[x for x in outs if x in ('PANIC', 'STUCK', 'BLOCKED')][0]}"
        hexlen_stream = 0 if f["rest"][1] == "-" else len(f["rest"][1]) // 2
        if int(o.get("reads", 0)) > nscript + hexlen_stream + int(f["rest"][0]) + 8: return f"{o.get('reads')} reads: the receiver spins"
        if f["rest"][1] == stream:
            msgs = [x for x in outs if not x.startswith("read")]
            if not faulty(script):
                if kind in ("C07", "C08") and msgs != want + ["closed"]: return f"received {msgs}, sent {want}"
            elif kind == "C09":
                # a prefix of what was sent (every message at most once, in order), then Closed / nothing more
                body = [x for x in msgs if x.startswith("msg")]
                if body != want[:len(body)]: return f"after pipe faults received {body}, sent {want}: loss, duplication or reordering"
                if "z" not in script.split(",") and msgs and msgs[-1] == "closed" and len(body) != len(want): return f"Closed after {len(body)} of {len(want)} messages although the stream did not end"
                # a read error reported by recv is the error of the failing read (`C09_recv_error_is_pipes_error`)
                nreads = int(o.get("reads", 0))
                ent = [x for x in script.split(",") if x != "p"] if k == "AR" else script.split(",")
                fk = [IO_KINDS[int(x[1:] or 0)] for x in ent[:nreads] if x.startswith("f")] if k == "R" else None
                ek = [x[5:] for x in outs if x.startswith("read:")]
                if fk is not None and fk != ek: return f"the pipe's reads failed with {fk}, recv reported {ek}"
        return None
    if k == "AP" and kind == "C08":
        if o.get("panic") != "0": return "panic in the sender or receiver task"
        if o.get("done") != "11": return f"tasks not complete (done={o.get('done')}): lost wake-up or deadlock"
        if [x.split(":", 2)[2] if x.startswith("msg") else x for x in outs] != [w.split(":", 2)[2] for w in want] + ["closed"]: return f"received {outs}, sent {want}"
        return None
    return None

# ---- portable scalars and composites --------------------------------------------------------------------
def parse_port(r):
    d = {"cls": "port", "raw": r}
    for tok in r.split(" "):
        if "=" in tok:
            k, v = tok.split("=", 1); d[k] = v
    return d
def proj_C16(lhs, o, t):
    return (o.get("raw"),)
def oracle_C16(lhs, o, t):
    if o.get("nat") != "1": return "the portable type disagrees with its native counterpart (stored bytes, round trip, conversion, operator or ordering)"
    if "al" in o and o["al"] != "1": return f"alignment {o['al']}"
    return None
def is_portable(t): return "portable" in t.get("flags", "")
def proj_C17(lhs, o, t):
    if lhs[0] == "E" and is_portable(t) and o["cls"] == "ok":
        return (o.get("after"), o.get("p"))
    if lhs[0] == "B" and is_portable(t):
        return (o["cls"], o.get("kind"), o.get("pos"), o.get("w"))
    return ()
def oracle_C17(lhs, o, t, om):
    if not is_portable(t): return None
    if t["align"] != 1: return f"portable type with ALIGN {t['align']}"
    # a slice that the proved acceptance criterion accepts is a portable image (of some content) and must map at every address:
    # the implementation refusing it — or dying on it — refuses a reference serialisation
    if lhs[0] == "B" and om.get("cls") == "ok" and o["cls"] in ("err", "PANIC", "MEMFAULT"):
        return f"a portable image that the acceptance criterion accepts is not mapped: {o['cls']} {o.get('kind', '')}@{o.get('pos', '')}"
    if lhs[0] == "E" and o["cls"] == "ok":
        p = probe_fields(o.get("p"))
        ser = om.get("ser")
        if ser is None: return "the model does not regard this type as padding-free (alignment-1 shape)"
        a = o.get("after_raw", o.get("after"))
        z = p["z"] if p and p["ok"] else 0
        serh = "" if ser == "-" else ser
        ma = om.get("after") or ""
        # bytes of a sized enum beyond its active variant are not content (the model marks them `..`)
        if len(serh) != 2 * z or any(a[i:i+2] != serh[i:i+2] and ma[i:i+2] != ".." for i in range(0, 2 * z, 2)):
            return f"image {a[:2*z]} differs from the reference serialisation {serh}"
    if lhs[0] == "B" and o["cls"] == "err" and o.get("kind") == "badAlign": return "a portable type refused an address (BadAlign)"
    return None
def negative_programs(fp):
    """definitions the model's `Portable` shape rejects must be refused by rustc; controls must compile"""
    cdir = os.path.join(BUILD, "neg")
    cache = os.path.join(cdir, f"result-{fp}.json")
    if os.path.exists(cache):
        return json.load(open(cache))
    pre = "#![allow(dead_code)]\nuse flatty::{flat, FlatVec, FlexVec, FlatString, Portable, portable::{le, be, Bool}};\nfn ap<T: Portable + ?Sized>() {}\n"
    progs = {
        "neg_tag_u16": ('#[flat(portable = true, tag_type = "u16")] enum E { A, B(u8) }\nfn main() { ap::<E>(); }', False),
        "neg_tag_u32_unsized": ('#[flat(sized = false, portable = true, tag_type = "u32")] enum E { A, B(u8, FlatVec<u8, u8>) }\nfn main() { ap::<E>(); }', False),
        "neg_field_u16": ('#[flat(portable = true)] struct S { a: u8, b: u16 }\nfn main() { ap::<S>(); }', False),
        "neg_field_f32": ('#[flat(portable = true)] struct S { a: f32 }\nfn main() { ap::<S>(); }', False),
        "neg_field_usize": ('#[flat(portable = true)] enum E { A(usize), B }\nfn main() { ap::<E>(); }', False),
        "neg_vec_native_len": ('fn main() { ap::<FlatVec<u8, u16>>(); }', False),
        "neg_vec_native_elem": ('fn main() { ap::<FlatVec<u32, le::U16>>(); }', False),
        "neg_string_native_len": ('fn main() { ap::<FlatString<u32>>(); }', False),
        "neg_flex_native_len": ('fn main() { ap::<FlexVec<FlatVec<u8, u8>, u64>>(); }', False),
        "neg_array_native": ('fn main() { ap::<[u16; 2]>(); }', False),
        "neg_unsized_field": ('#[flat(sized = false, portable = true)] struct S { a: le::U16, v: FlatVec<u8, u32> }\nfn main() { ap::<S>(); }', False),
        "pos_struct": ('#[flat(portable = true)] struct S { a: le::U16, b: Bool, c: be::U32, d: u8 }\nfn main() { ap::<S>(); assert_eq!(<S as flatty::prelude::FlatBase>::ALIGN, 1); }', True),
        "pos_enum_unsized": ('#[flat(sized = false, portable = true)] enum E { A, B(le::U16, Bool), C { n: be::U32, v: FlatVec<le::U16, be::U16> } }\nfn main() { ap::<E>(); }', True),
        "pos_containers": ('fn main() { ap::<FlatVec<le::U16, be::U16>>(); ap::<FlatString<le::U32>>(); ap::<FlexVec<FlatVec<u8, u8>, le::U16>>(); ap::<[be::F64; 3]>(); }', True),
    }
    os.makedirs(cdir, exist_ok=True)
    res = {}
    lock_src = os.path.join(REPO, "Cargo.lock")
    if not os.path.exists(lock_src):
        lock_src = os.path.join(HARNESS_SRC, "Cargo.lock.repo")
    import concurrent.futures
    def one(name):
        src, should = progs[name]
        d = os.path.join(cdir, name)
        os.makedirs(os.path.join(d, "src"), exist_ok=True)
        os.makedirs(os.path.join(d, ".cargo"), exist_ok=True)
        open(os.path.join(d, "Cargo.toml"), "w").write(f'[package]\nname = "{name}"\nversion = "0.0.0"\nedition = "2021"\n[workspace]\n[dependencies]\nflatty = {{ path = "{REPO}" }}\n')
        open(os.path.join(d, ".cargo", "config.toml"), "w").write("[net]\noffline = true\n")
        open(os.path.join(d, "src", "main.rs"), "w").write(pre.replace("\\n", "\n") + src.replace("\\n", "\n") + "\n")
        shutil.copy(lock_src, os.path.join(d, "Cargo.lock"))
        rc, out = sh(["cargo", "check", "--offline", "--quiet"], cwd=d, env={"CARGO_TARGET_DIR": os.path.join(cdir, "target")}, timeout=900)
        compiled = rc == 0
        about_portable = "Portable" in out
        return name, dict(should_compile=should, compiled=compiled, ok=(compiled == should) and (should or about_portable), detail="" if compiled == should else out[-600:])
    # the first one alone (it builds the dependencies), the rest in parallel on the shared target dir
    names = list(progs)
    n0, r0 = one(names[0]); res[n0] = r0
    with concurrent.futures.ThreadPoolExecutor(max_workers=4) as ex:
        for n, r in ex.map(one, names[1:]):
            res[n] = r
    for f in os.listdir(cdir):
        if f.startswith("result-"):
            os.remove(os.path.join(cdir, f))
    json.dump(res, open(cache, "w"))
    return res
def post_C17(cases):
    out = []
    fp = repo_fingerprint()
    with Lock():
        res = negative_programs(fp)
    for name, r in res.items():
        if not r["ok"]:
            what = (f"program `{name}` (a definition outside the model's Portable shape) is accepted by rustc: the code's set of Portable impls is larger than the theorem covers"
                    if not r["should_compile"] else f"control program `{name}` does not compile: {r['detail'][-300:]}")
            out.append(("negative-programs", f"N {name}", "compiled" if r["compiled"] else "refused", "refused" if not r["should_compile"] else "compiled", what))
    return out

def witness_programs(fp, prop):
    """small standalone programs that replay a repaired defect on the repository (types the catalog cannot express);
    `corpus/programs/<name>/{Cargo.toml.in, src/main.rs, expected.txt, props}`"""
    pdir = os.path.join(VERIF, "corpus", "programs")
    cdir = os.path.join(BUILD, "witness")
    os.makedirs(cdir, exist_ok=True)
    cache = os.path.join(cdir, f"result-{prop}-{fp}.json")
    if os.path.exists(cache):
        return json.load(open(cache))
    lock_src = os.path.join(REPO, "Cargo.lock")
    if not os.path.exists(lock_src):
        lock_src = os.path.join(HARNESS_SRC, "Cargo.lock.repo")
    res = {}
    for name in sorted(os.listdir(pdir)) if os.path.isdir(pdir) else []:
        src = os.path.join(pdir, name)
        props = open(os.path.join(src, "props")).read().split() if os.path.exists(os.path.join(src, "props")) else []
        if prop not in props:
            continue
        d = os.path.join(cdir, name)
        shutil.rmtree(d, ignore_errors=True)
        shutil.copytree(os.path.join(src, "src"), os.path.join(d, "src"))
        open(os.path.join(d, "Cargo.toml"), "w").write(open(os.path.join(src, "Cargo.toml.in")).read().replace("@REPO@", REPO))
        os.makedirs(os.path.join(d, ".cargo"), exist_ok=True)
        open(os.path.join(d, ".cargo", "config.toml"), "w").write("[net]\noffline = true\n")
        shutil.copy(lock_src, os.path.join(d, "Cargo.lock"))
        e = dict(os.environ); e["CARGO_NET_OFFLINE"] = "true"; e["CARGO_TARGET_DIR"] = os.path.join(cdir, "target")
        try:
            pr = subprocess.run(["cargo", "run", "--offline", "--quiet"], cwd=d, env=e, stdout=subprocess.PIPE, stderr=subprocess.PIPE, timeout=900)
            got = pr.stdout.decode("utf-8", "replace").strip().splitlines()
            err = pr.stderr.decode("utf-8", "replace")[-400:]
        except subprocess.TimeoutExpired:
            got, err = ["TIMEOUT"], ""
        want = open(os.path.join(src, "expected.txt")).read().strip().splitlines()
        res[name] = dict(ok=(got == want), got=got, want=want, stderr="" if got == want else err)
    for f in os.listdir(cdir):
        if f.startswith(f"result-{prop}-"):
            os.remove(os.path.join(cdir, f))
    json.dump(res, open(cache, "w"))
    return res
def post_witness(prop):
    def post(cases):
        out = []
        with Lock():
            res = witness_programs(repo_fingerprint(), prop)
        for name, r in res.items():
            if not r["ok"]:
                diff = next((f"line {i + 1}: got `{g}`, expected `{w}`" for i, (g, w) in enumerate(zip(r["got"] + ["<missing>"] * 9, r["want"])) if g != w), "output length differs")
                out.append(("witness-programs", f"W {name}", " | ".join(r["got"]), " | ".join(r["want"]),
                            f"witness program `{name}` (corpus/programs/{name}) does not behave as recorded: {diff}"))
        return out
    return post

PROPS = {
    "C01": dict(module="FV.Props.C01", theorems=["FV.Props.C01_validate_total", "FV.Props.C01_from_bytes_total"], suites=["bytes"], proj=proj_C01, oracle=oracle_C01),
    "C02": dict(module="FV.Props.C02Accept", theorems=["FV.Props.C02_view_within", "FV.Props.C02_truncation_validates", "FV.Props.C02_deep_read_total", "FV.Props.C02_content_consistent", "FV.Props.C02_content_well_typed", "FV.Props.C02_gate", "FV.Props.C02_fields_accept_iff", "FV.Props.C02_vec_accepts_iff", "FV.Props.C02_str_accepts_iff", "FV.Props.C02_enum_accepts_iff", "FV.Props.C02_flex_accepts_iff", "FV.Props.C02_own_bytes_validate", "FV.Ty.sizeView"], suites=["bytes"], proj=proj_C02, oracle=oracle_C02),
    "C04": dict(module="FV.Props.C04", theorems=["FV.Props.C04_view_fits", "FV.Props.C04_ceil_least", "FV.Props.C04_floor_greatest", "FV.Props.C04_positions_eq_c", "FV.Props.C04_struct_size_eq_c", "FV.Props.C04_enum_data_offset_eq_c", "FV.Props.C04_vec_data_offset_eq_c"], suites=["bytes"], proj=proj_C04, oracle=oracle_C04),
    "C05": dict(module="FV.Props.C05", theorems=["FV.Props.C05_size_exact", "FV.Props.C05_truncation_same_content"], suites=["bytes", "emplace", "ops"], proj=proj_C05, oracle=oracle_C05),
    "C03": dict(module="FV.Props.C03Full", theorems=["FV.Props.C03_emplace_reads_back", "FV.Props.C03_portable_image_is_serialisation", "FV.Props.C03_emplace_validates_partial", "FV.Props.C03_large_enough_is_accepted", "FV.Props.C03_struct_fields_at_c_offsets", "FV.Props.C03_assign_reads_back", "FV.Props.C03_enum_tag_and_fields_at_c_offsets", "FV.Props.C03_enum_unsized_variant_image", "FV.Props.C03_vec_from_iterator", "FV.emplaceU_ok", "FV.emplaceU_content", "FV.emplaceU_acc", "FV.repB_iff", "FV.flexFill_spec", "FV.flexFill_content", "FV.Props.C03_emplaced_content_well_typed"], suites=["emplace"], proj=proj_C03, oracle=oracle_C03),
    "C15": dict(module="FV.Props.C15", theorems=["FV.Props.C15_emplace_total", "FV.Props.C15_accepts_iff_fits", "FV.Props.C15_vec_accepts_iff_fits", "FV.emplaceU_acc", "FV.flexFill_acc", "FV.repB_iff"], suites=["emplace"], proj=proj_C15, oracle=oracle_C15, post=post_C15),
    "C18": dict(module="FV.Props.C18", theorems=["FV.Props.C18_vec_from_iterator_partial", "FV.Props.C18_flex_from_iterator_partial", "FV.Props.C18_nested_enum_counterexample", "FV.Props.C18_failed_assign_leaves_valid", "FV.emplaceU_gsafe", "FV.emplaceU_assign_valid", "FV.own_bytes_validate"], suites=["emplace"], proj=proj_C18, oracle=oracle_C18),
    "C20": dict(module="FV.Props.C20", theorems=["FV.Props.C20_vec_default_partial", "FV.Props.C20_default_valid_partial", "FV.Props.C20_default_content", "FV.Props.C20_str_default_partial", "FV.Props.C20_flex_default_partial", "FV.Props.C20_default_size", "FV.Props.C20_empty_always_accepted"], suites=["emplace"], proj=proj_C20, oracle=oracle_C20, post=post_C20),
    "C11": dict(module="FV.Props.C11", theorems=["FV.Props.C11_vec_step_refines", "FV.Props.C11_history", "FV.Props.C11_valid_gives_invariant", "FV.Props.C11_str_push", "FV.Utf8Ok.append", "FV.Props.C11_history_observables", "FV.Props.C11_str_history"], suites=["ops"], proj=proj_C11, oracle=oracle_C11),
    "C12": dict(module="FV.Props.C12Push", theorems=["FV.Props.C12_valid_iff_sequence", "FV.Props.C12_truncate", "FV.Props.C12_pop", "FV.Props.C12_push", "FV.Props.C12_pushed_item_content", "FV.Props.C12_history", "FV.Props.C12_push_accepts_iff", "FV.Props.C12_item_edit", "FV.Props.C12_truncate_noop", "FV.Chain.edit", "FV.Props.C12_len_is_empty"], suites=["ops"], proj=proj_C12, oracle=oracle_C12, post=post_witness("C12")),
    "C13": dict(module="FV.Props.C13", theorems=["FV.Props.C13_vec_refused_unchanged", "FV.Props.C13_flex_push_refused_unchanged", "FV.Props.C13_flex_push_refused_size", "FV.flexPush_refused_size", "FV.Props.C13_vec_any_refusal_unchanged", "FV.Props.C13_flex_pop_empty_unchanged", "FV.Props.C13_any_refusal_unchanged"], suites=["ops"], proj=proj_C13, oracle=oracle_C13),
    "C14": dict(module="FV.Props.C14", theorems=["FV.Props.C14_write_frame", "FV.Props.C14_item_edit_frame", "FV.Props.C14_emplace_inside", "FV.Props.C14_assign_frame", "FV.Props.C14_truncate_frame", "FV.Props.C14_field_write_frame", "FV.Props.posList_disjoint", "FV.Props.C14_setField_frame", "FV.Props.C14_vec_op_keeps_length", "FV.Props.C14_last_field_frame", "FV.Props.C14_last_variant_field_frame"], suites=["emplace", "ops"], proj=proj_C14, oracle=oracle_C14),
    "C07": dict(module="FV.Props.C07", theorems=["FV.Props.C07_sender_delivers", "FV.Props.C07_receiver_delivers", "FV.Props.C07_receiver_delivers_anywhere", "FV.Props.C07_emplaced_is_deliverable", "FV.Props.C07_sent_content_arrives", "FV.Props.C07_edited_flex_is_deliverable", "FV.Props.C07_retain_returns_same", "FV.Ty.addrIndep"], suites=["io"], proj=proj_C07, oracle=oracle_io_basic, post=post_io("C07")),
    "C08": dict(module="FV.Props.C08", theorems=["FV.Props.C08_sender_refines_blocking", "FV.Props.C08_receiver_refines_blocking", "FV.Props.C08_pipe_fifo", "FV.Props.C08_pipe_fair_delivers", "FV.Props.C08_async_receiver_delivers"], suites=["aio"], proj=proj_C08, oracle=oracle_io_basic, post=post_io("C08")),
    "C09": dict(module="FV.Props.C09", theorems=["FV.Props.C09_send_fault", "FV.Props.C09_session_sink_shape", "FV.Props.C09_read_error_keeps_bytes", "FV.Props.C09_receiver_retries_deliver", "FV.Props.C09_send_error_is_first_failure", "FV.Props.C09_send_kind_blind", "FV.Props.C09_async_poll_kind_blind", "FV.Props.C09_recv_error_is_pipes_error", "FV.Props.C09_recv_kind_blind", "FV.Props.C09_session_faults_surface", "FV.Props.C09_async_send_fault", "FV.Props.C09_async_session_sink_shape"], suites=["io", "aio"], proj=proj_C09, oracle=oracle_io_basic, post=post_io("C09")),
    "C10": dict(module="FV.Props.C10", theorems=["FV.Props.C10_recv_never_faults", "FV.Props.C10_flex_bad_offset_is_content_error", "FV.Props.C10_content_error_is_final", "FV.Props.C10_stream_goes_bad", "FV.Props.C10_stream_goes_bad_anywhere", "FV.Props.C10_async_recv_never_faults"], suites=["io", "aio"], proj=proj_C10, oracle=oracle_C10, post=post_io("C10")),
    "C16": dict(module="FV.Props.C16", theorems=["FV.Props.C16_size", "FV.Props.C16_byte_order", "FV.Props.C16_native_roundtrip", "FV.Props.C16_bytes_roundtrip", "FV.Props.C16_eq_iff", "FV.Props.C16_delegates", "FV.Props.C16_bool_validate", "FV.Props.C16_toNative_inRange", "FV.Props.C16_binop_sound", "FV.Props.C16_fromPrim", "FV.Props.C16_toPrim"], suites=["portable"], proj=proj_C16, oracle=oracle_C16),
    "C17": dict(module="FV.Props.C17Ser", theorems=["FV.Props.C17_align_one", "FV.Props.C17_no_padding", "FV.Props.C17_image_is_serialisation", "FV.Props.C17_length_field_is_portable_scalar", "FV.emplaceU_ser", "FV.flexFill_ser"], suites=["emplace", "bytes"], proj=proj_C17, oracle=oracle_C17, post=post_C17),
    "C19": dict(module="FV.Props.C19", theorems=["FV.Props.C19_bool", "FV.Props.C19_tag", "FV.Props.C19_fields", "FV.Props.C19_array", "FV.Props.C19_vec_elems", "FV.Props.C19_enum_payload", "FV.Props.C19_flex_items"], suites=["bytes"], proj=proj_C19, oracle=oracle_C19),
    "C06": dict(module="FV.Props.C06", theorems=["FV.Props.C06_prefix_insufficient", "FV.Props.C06_extension_same", "FV.Props.C06_extension_same_content"], suites=["bytes"], proj=proj_C06, oracle=oracle_C06),
}

# ------------------------------------------------------------------------------------------------
# Lean obligations
# ------------------------------------------------------------------------------------------------
BRIDGE_GROUPS = {
    "arith": ["max_eq", "min_eq", "ceilMul_eq", "floorMul_eq", "err_offset", "untranslatable_none"],
    # the checked entry points of `traits.rs` / `emplacer.rs` (shape sites: what is tested, what is mapped)
    "entry": ["validate_shape", "emplace_shape", "assign_shape", "entry_untranslatable_none"],
    "iter": ["posNext_eq", "posList_step", "foldSize_step", "foldSize_last", "minSizeL_step", "minSizeL_last", "typeIter_minSize_step", "typeIter_minSize_last",
             "alignL_step", "foldSizeDyn_step", "foldSizeDyn_last", "validateAll_step", "validateAll_last", "walkAll_step", "iter_untranslatable_none"],
    "vec": ["vec_align", "vec_minSize", "vec_size", "vec_slots", "vec_viewLen", "vec_untranslatable_none"],
    "str": ["str_align", "str_minSize", "str_size", "str_viewLen", "str_untranslatable_none"],
    "flex": ["flex_align", "flex_minSize", "flex_viewLen", "flex_validate_floor", "flex_size_term", "flex_size_last", "flex_untranslatable_none"],
    "flex_fill": ["flex_seal_and_fill", "flex_untranslatable_none"],
    "macro": ["ustruct_minSize", "sstruct_size", "uenum_minSize", "minList_step", "ustruct_lastFieldOffset_and_size", "ustruct_viewLen", "ustruct_validate_floor",
              "uenum_viewLen", "senum_dataOffset", "validate_and_init_floors", "macro_untranslatable_none"],
    "portable": ["portable_table_ok"],
    # decision points: condition, error kind and error position of each refusal, extracted from the source
    # (split by what the decision point belongs to, so that a change to an emplacer's test does not touch the validation properties)
    "guards": ["guard_checkAlignMin", "guard_iterCheck", "guard_bool", "arr_loop_step", "guard_vecValidate", "vec_elems_step", "vec_elems_visited", "guard_strValidate", "str_utf8_pos", "guard_flexSlotAlign", "guard_flexSlot",
               "flex_item_pos_last", "flex_item_pos_inner", "flex_slot_read_pos", "guard_cenum", "guard_uenum", "guards_untranslatable_none"],
    "guards_emplace": ["guard_checkAlignMin", "guard_iterCheck", "guard_initWalker", "guard_initEnum", "guard_vecFromArray", "guard_flexFillRoom", "guard_flexFillItem", "guard_flexFillSeal", "guards_untranslatable_none"],
    "guards_push": ["guard_flexPushSeal", "guard_flexPushTail", "guard_flexTruncate", "guard_flexPop", "guards_untranslatable_none"],
    # the IO layer: window arithmetic of `Buffer`, the capacities the constructors allocate, and the decision points of
    # `write_all` / `WriteAll::poll` / `read` / `poll_read` / `recv` (conditions only; FV/BridgeIo.lean)
    "io_send": ["io_write_all_step", "aio_write_all_step", "aio_write_all_flush", "io_capacities", "io_untranslatable_none"],
    "io_recv": ["io_read_step", "io_make_contiguous", "io_skip", "io_advance", "aio_read_tests", "io_recv_closed", "aio_recv_closed", "io_recv_dispatch", "aio_recv_dispatch", "io_capacities", "io_untranslatable_none"],
}
LAYOUT = ["arith", "entry", "iter", "vec", "str", "flex", "macro", "guards"]
EMPLACE = LAYOUT + ["guards_emplace", "flex_fill"]
BRIDGE_OF = {
    "C01": LAYOUT, "C02": LAYOUT, "C03": EMPLACE, "C04": LAYOUT, "C05": LAYOUT, "C06": LAYOUT, "C07": LAYOUT + ["io_send", "io_recv"], "C10": LAYOUT + ["io_recv"],
    "C11": ["arith", "vec", "str"], "C12": ["arith", "flex", "flex_fill", "guards", "guards_emplace", "guards_push"],
    "C13": ["arith", "vec", "str", "flex", "flex_fill", "guards", "guards_emplace", "guards_push"], "C14": EMPLACE, "C15": EMPLACE,
    "C16": ["portable"], "C17": EMPLACE, "C18": EMPLACE, "C19": ["arith", "iter", "macro", "vec", "flex", "guards"], "C20": EMPLACE, "C08": ["io_send", "io_recv"], "C09": ["io_send", "io_recv"],
}
def regenerate_formulas():
    rc, out = sh([sys.executable, os.path.join(VERIF, "tools", "extract_formulas.py")], env={"VERIF_REPO": REPO})
    return rc == 0, out

def lean_obligations(prop, cfg, thorough):
    """returns (list of dict(name, ok, axioms, detail), log)"""
    res = []
    bridge = list(dict.fromkeys(f"FV.Bridge.{t}" for g in BRIDGE_OF.get(prop, []) for t in BRIDGE_GROUPS[g]))
    tr_ok, tr_out = regenerate_formulas()
    ok_build, out = build_lean([cfg["module"], "fvdriver"])
    bridge_ok, bridge_out = (True, "")
    if bridge:
        bridge_ok, bridge_out = build_lean(["FV.Bridge", "FV.BridgeIo"])
        if not bridge_ok or not tr_ok:
            # which equations fail: the generated file is small, so the failing theorem names are in the compiler output
            bad_names = set()
            for fname in ("Bridge", "BridgeIo"):
                failing = set(re.findall(r"FV/" + fname + r"\.lean:(\d+):\d+: error", bridge_out)) or set(re.findall(r"error: FV/" + fname + r"\.lean:(\d+):", bridge_out))
                src = open(os.path.join(LEAN, "FV", fname + ".lean")).read().split("\n")
                for ln in failing:
                    i = int(ln) - 1
                    while i >= 0 and not src[i].startswith("theorem "):
                        i -= 1
                    if i >= 0:
                        bad_names.add(src[i].split()[1])
            for b in bridge:
                short = b.split(".")[-1]
                if short in bad_names or (not bad_names):
                    res.append(dict(name=b + " (formula bridge: source formula = model formula)", ok=False, axioms=[], detail="the formula extracted from the source no longer equals the model's: " + (tr_out.strip()[-300:] + " " if not tr_ok or "UNTRANSLATABLE" in tr_out else "") + bridge_out[-400:]))
                else:
                    res.append(dict(name=b + " (formula bridge)", ok=True, axioms=[], detail="not affected"))
    if not ok_build:
        for th in cfg["theorems"] or ["<module>"]:
            res.append(dict(name=th, ok=False, axioms=[], detail="lake build failed"))
        return res, out
    audit_dir = os.path.join(BUILD, "audit")
    os.makedirs(audit_dir, exist_ok=True)
    ap = os.path.join(audit_dir, prop + ".lean")
    audit_list = list(cfg["theorems"]) + (bridge if bridge and bridge_ok and tr_ok else [])
    with open(ap, "w") as f:
        f.write(f"import {cfg['module']}\n")
        if bridge and bridge_ok and tr_ok:
            f.write("import FV.Bridge\nimport FV.BridgeIo\n")
        for th in audit_list:
            f.write(f"#print axioms {th}\n")
    rc, aout = sh(["lake", "env", "lean", ap], cwd=LEAN, timeout=1800)
    for th in audit_list:
        m = re.search(r"'" + re.escape(th) + r"' depends on axioms: \[([^\]]*)\]", aout.replace("\n", " "))
        m0 = re.search(r"'" + re.escape(th) + r"' does not depend on any axioms", aout)
        if m:
            ax = [a.strip() for a in m.group(1).split(",") if a.strip()]
            bad = [a for a in ax if a not in ALLOWED_AXIOMS]
            res.append(dict(name=th, ok=not bad, axioms=ax, detail="" if not bad else "disallowed axioms: " + ", ".join(bad)))
        elif m0:
            res.append(dict(name=th, ok=True, axioms=[], detail=""))
        else:
            res.append(dict(name=th, ok=False, axioms=[], detail="theorem not found by the audit: " + aout[-400:]))
    # source scan
    hits = []
    for root, dirs, files in os.walk(os.path.join(LEAN, "FV")):
        for fn in files:
            if fn.endswith(".lean"):
                txt = open(os.path.join(root, fn)).read()
                # drop comments
                txt2 = re.sub(r"/-.*?-/", "", txt, flags=re.S)
                txt2 = re.sub(r"--.*", "", txt2)
                for mm in FORBIDDEN.finditer(txt2):
                    hits.append(f"{fn}: {mm.group(0)}")
    res.append(dict(name="source-scan(no sorry/admit/axiom/native_decide/bv_decide/implemented_by/unsafe/maxHeartbeats 0)", ok=not hits, axioms=[], detail="; ".join(hits[:5])))
    if thorough:
        rc, lout = sh(["lake", "env", "leanchecker", cfg["module"]], cwd=LEAN, timeout=3600)
        res.append(dict(name=f"leanchecker {cfg['module']}", ok=rc == 0, axioms=[], detail=lout[-300:] if rc else ""))
    return res, aout

# ------------------------------------------------------------------------------------------------
# known findings
# ------------------------------------------------------------------------------------------------
# properties that themselves promise "never panics / aborts / faults": a crash of the harness process is their violation
CRASH_IS_VIOLATION = {"C01", "C07", "C08", "C09", "C10", "C14", "C15"}
SUITE_PARSE = {"bytes": parse_rhs, "emplace": parse_emp, "ops": parse_emp, "io": parse_io, "aio": parse_io, "portable": parse_port}

def load_known():
    p = os.path.join(VERIF, "known_findings.json")
    if os.path.exists(p):
        return json.load(open(p))
    return {"known": [], "fixed": []}

def match_known(known, finding):
    for k in known.get("known", []):
        if k["property"] != finding.prop:
            continue
        if k.get("suite") and k["suite"] != finding.suite:
            continue
        if re.search(k["lhs_regex"], finding.lhs) and re.search(k.get("what_regex", ""), finding.what) and re.search(k.get("desc_regex", ""), finding.tdesc):
            return k
    return None

# ------------------------------------------------------------------------------------------------
# shrinking a failing case (runs only when there is something to report)
# ------------------------------------------------------------------------------------------------
def eval_line(lhs):
    """run one case line through the implementation and the model; -> (types, (lhs, impl rhs, model rhs)) or None"""
    try:
        p = subprocess.run([harness_bin(), "exec"], input=(lhs + "\n").encode(), stdout=subprocess.PIPE, stderr=subprocess.DEVNULL, timeout=60)
        p2 = subprocess.run([driver_bin()], input=p.stdout, stdout=subprocess.PIPE, stderr=subprocess.DEVNULL, timeout=60)
    except Exception:
        return None
    d = tempfile.mkdtemp(prefix="shrink", dir=BUILD)
    try:
        tr, mo = os.path.join(d, "t"), os.path.join(d, "m")
        open(tr, "wb").write(p.stdout); open(mo, "wb").write(p2.stdout)
        types, cases = load_pairs(dict(trace=tr, model=mo))
    finally:
        shutil.rmtree(d, ignore_errors=True)
    if not cases:
        # the harness died on this case: an empty right-hand side
        return types, (lhs, "", "")
    return types, cases[-1]

def failure_of(prop, cfg, sname, lhs, kind, known):
    """does this case line still show a failure of the same kind (correspondence / oracle)?"""
    r = eval_line(lhs)
    if r is None: return None
    types, (l2, rhs, mo) = r
    f1 = lhs.split(" ")[1] if " " in lhs else ""
    t = types.get(int(f1), None) if f1.isdigit() else None
    if t is None:
        t = types.get(0)
        if t is None: return None
    parse = SUITE_PARSE[sname]
    try:
        oi, om = parse(rhs), parse(mo)
        if "sink" in oi: oi = norm_io(oi, om)
        if "after" in oi and "after" in om and eq_masked(oi["after"], om["after"]):
            oi["after_raw"] = oi["after"]; oi["after"] = om["after"]
        if kind == "correspondence":
            pi, pm = cfg["proj"](lhs, oi, t), cfg["proj"](lhs, om, t)
            return (rhs, mo, f"implementation and model differ on the observables of {prop}: {pi} vs {pm}") if pi != pm else None
        w = cfg["oracle"](lhs, oi, t, om) if cfg["oracle"].__code__.co_argcount == 4 else cfg["oracle"](lhs, oi, t)
        if w and not match_known(known, Finding(prop, "oracle", sname, lhs, rhs, mo, w, t["desc"])):
            return (rhs, mo, w)
    except Exception:
        return None
    return None

def hex_candidates(hx):
    """smaller / simpler variants of a hex string: cut the tail, cut the head, drop chunks, zero bytes"""
    if hx in ("-", ""): return
    n = len(hx) // 2
    k = n // 2
    while k >= 1:
        yield hx[: 2 * (n - k)]
        for i in range(0, n - k + 1, k):
            yield hx[: 2 * i] + hx[2 * (i + k):]
        k //= 2
    for i in range(n):
        if hx[2 * i: 2 * i + 2] != "00":
            yield hx[: 2 * i] + "00" + hx[2 * i + 2:]
def list_candidates(items):
    n = len(items)
    k = n // 2
    while k >= 1:
        for i in range(0, n - k + 1, k):
            yield items[:i] + items[i + k:]
        k //= 2
def line_candidates(lhs):
    f = lhs.split(" ")
    kind = f[0]
    # the byte string a case works on is its last field (B, E, F, A, R, AR); scripts are comma lists (R, AR, S, AS)
    if kind in ("B", "E", "F", "A", "R", "AR") and re.fullmatch(r"[0-9a-f]*", f[-1] or "x"):
        for h in hex_candidates(f[-1]):
            yield " ".join(f[:-1] + [h if h else "-"])
    if kind in ("R", "AR", "S", "AS") and len(f) > 3 and "," in f[3]:
        for it in list_candidates(f[3].split(",")):
            if it: yield " ".join(f[:3] + [",".join(it)] + f[4:])
    if kind == "O" and len(f) > 5 and re.fullmatch(r"[0-9a-f]+", f[4]):
        # O tid place a16 pre op…: one operation on the state `pre`
        for h in hex_candidates(f[4]):
            if h: yield " ".join(f[:4] + [h] + f[5:])

def shrink(prop, cfg, f, known, budget=160, seconds=60):
    """greedy shrinking of the case line of a finding; returns (lhs, impl, model, what, steps) of the smallest failing variant found"""
    if f.lhs in ("-", "") or f.suite not in SUITE_PARSE or f.kind not in ("correspondence", "oracle"):
        return None
    t0, steps, cur = time.time(), 0, f.lhs
    best = None
    first = failure_of(prop, cfg, f.suite, cur, f.kind, known)
    if first is None:
        return None            # not reproducible in isolation (needs its block, e.g. post oracles): leave as it is
    # a smaller variant must fail in the same way: cutting a state short until "the container did not validate before the operation"
    # would turn a real failing input into one that fails on every tree
    def msg_class(w):
        return re.sub(r"[0-9]+|\b[0-9a-f]{2,}\b", "#", w or "")[:48]
    cls0 = msg_class(first[2])
    progress = True
    while progress and steps < budget and time.time() - t0 < seconds:
        progress = False
        for cand in line_candidates(cur):
            if steps >= budget or time.time() - t0 > seconds: break
            steps += 1
            r = failure_of(prop, cfg, f.suite, cand, f.kind, known)
            if r is not None and msg_class(r[2]) == cls0:
                cur, best, progress = cand, r, True
                break
    if best is None:
        return None
    return (cur, best[0], best[1], best[2], steps)

# ------------------------------------------------------------------------------------------------
# check one property
# ------------------------------------------------------------------------------------------------
def write_replay(f, extra=None):
    os.makedirs(os.path.join(VERIF, "replays"), exist_ok=True)
    path = os.path.join(VERIF, "replays", f"{f.prop}-{f.key()}.json")
    d = dict(property=f.prop, kind=f.kind, suite=f.suite, type=f.tdesc, case=f.lhs, implementation=f.impl, model=f.model, what=f.what,
             replay_cmd=f"./check --replay replays/{f.prop}-{f.key()}.json")
    if extra:
        d.update(extra)
    json.dump(d, open(path, "w"), indent=1)
    return os.path.relpath(path, VERIF)

def check_property(prop, tier, seed):
    t0 = time.time()
    TIER["tier"], TIER["seed"] = tier, seed
    cfg = PROPS[prop]
    thorough = tier == "thorough"
    violations = []   # (replay path, suffix)
    known_lines = []
    with Lock():
        obligations, lean_log = lean_obligations(prop, cfg, thorough)
        okh, hlog = build_harness()
    lean_ok = all(o["ok"] for o in obligations)
    fp = repo_fingerprint()
    known = load_known()
    stats = dict(cases=0, mismatches=0, oracle_failures=0, nontrivial=set(), dist=collections.Counter(), samples=[])
    oracle_findings, mismatch_findings = [], []
    suites_meta = {}
    group_cases = []
    known_counts = collections.Counter()
    if okh:
        for sname in cfg["suites"]:
            with Lock():
                m = run_suite(sname, tier, seed, fp)
            suites_meta[sname] = dict(wall_s=m["wall"], crashed=m["crashed"])
            types, cases = load_pairs(m)
            # a type whose ALIGN / MIN_SIZE differ between implementation and model matters to this property only if the suite
            # has cases of that type (the portable suite, for one, prints the table but works on scalars only)
            used = set()
            for lhs, _, _ in cases:
                f1 = lhs.split(" ")[1] if " " in lhs else ""
                if f1.isdigit(): used.add(int(f1))
            for tid, t in types.items():
                if tid in used and f"align={t['align']} min={t['min']}" not in t["model"]:
                    mismatch_findings.append(Finding(prop, "correspondence", sname, f"T {tid} {t['name']} {t['desc']}", f"align={t['align']} min={t['min']}", t["model"], "ALIGN / MIN_SIZE of the type differ between implementation and model"))
            for lhs, rhs, mo in cases:
                f1 = lhs.split(" ")[1] if " " in lhs else ""
                t = types.get(int(f1), types[0]) if f1.isdigit() else types[0]
                parse = SUITE_PARSE[sname]
                oi, om = parse(rhs), parse(mo)
                if "sink" in oi:
                    oi = norm_io(oi, om)
                if "after" in oi and "after" in om and eq_masked(oi["after"], om["after"]):
                    oi["after_raw"] = oi["after"]; oi["after"] = om["after"]
                stats["cases"] += 1
                pi, pm = cfg["proj"](lhs, oi, t), cfg["proj"](lhs, om, t)
                if "post" in cfg:
                    group_cases.append((sname, lhs, rhs, mo, oi, t))
                if pi != pm:
                    stats["mismatches"] += 1
                    if len(mismatch_findings) < 50:
                        mismatch_findings.append(Finding(prop, "correspondence", sname, lhs, rhs, mo, f"implementation and model differ on the observables of {prop}: {pi} vs {pm}"))
                w = cfg["oracle"](lhs, oi, t, om) if cfg["oracle"].__code__.co_argcount == 4 else cfg["oracle"](lhs, oi, t)
                if w:
                    stats["oracle_failures"] += 1
                    f = Finding(prop, "oracle", sname, lhs, rhs, mo, w, t["desc"])
                    k = match_known(known, f)
                    if k:
                        known_counts[k["id"]] += 1
                        line = f"KNOWN-FINDING: property={prop} {k['title']}"
                        if line not in known_lines:
                            known_lines.append(line)
                    elif len(oracle_findings) < 200:
                        oracle_findings.append(f)
                # statistics
                trivial = oi["cls"] == "err" and oi.get("pos") == 0 and oi.get("kind") in ("badAlign", "insufficientSize")
                branch = oi["cls"] + (":" + oi["kind"] if oi["cls"] == "err" else "")
                stats["dist"][branch] += 1
                # the input distribution: what kind of case, which operation, which outcome (error kinds of the scripted pipes included)
                lk = lhs.split(" ", 1)[0]
                stats["dist"]["line:" + lk] += 1
                if lk == "O":
                    opw = op_of(lhs).split(" ")
                    while opw and opw[0] == "item": opw = opw[2:]
                    stats["dist"]["op:" + (opw[0] if opw else "?") + ("(def)" if len(opw) > 1 and opw[1].startswith("(def") else "")] += 1
                    rr = str(oi.get("res", "?"))
                    rk = rr.split("@")[0] if rr.startswith("err:") else rr.split(":")[0]
                    stats["dist"]["ret:" + (rk if rk.startswith("err:") or rk in ("ok", "full", "none", "some", "PANIC", "empty", "noitem", "novariant", "notvalid") else "element")] += 1
                elif lk in ("E", "F", "A"):
                    stats["dist"][lk + ":" + str(oi.get("res", oi["cls"])).split("@")[0][:24]] += 1
                elif lk in ("S", "R", "AS", "AR", "AP"):
                    for x in oi.get("outs", []):
                        stats["dist"]["io:" + (x if x.startswith(("err:", "read:")) else x.split(":")[0])] += 1
                    for e in lhs.split(" ")[3].split(","):
                        if e and not e.isdigit() and lk != "AP": stats["dist"]["script:" + e] += 1
                if not trivial:
                    stats["nontrivial"].add(hashlib.md5((lhs.split(" ", 1)[1]).encode()).digest()[:8])
                if len(stats["samples"]) < 6 and not trivial and stats["cases"] % 997 == 3:
                    stats["samples"].append(dict(case=lhs, implementation=rhs[:300], model=mo[:300]))
            if m["crashed"] and prop in CRASH_IS_VIOLATION and not any("MEMFAULT" in f.what for f in oracle_findings):
                oracle_findings.append(Finding(prop, "oracle", sname, cases[-1][0] if cases else "?", "process crashed rc=%s" % m["rc"], "", "the harness process crashed (memory fault or abort) while running this case: " + m["stderr"][-300:]))
    if "post" in cfg and group_cases:
        for (sname, lhs, rhs, mo, what) in cfg["post"](group_cases):
            stats["oracle_failures"] += 1
            oracle_findings.append(Finding(prop, "oracle", sname, lhs, rhs, mo, what))
    # ---- verdict
    reported = set()
    def report(f, suffix=""):
        k = match_known(known, f)
        if k:
            line = f"KNOWN-FINDING: property={prop} {k['title']}"
            if line not in known_lines:
                known_lines.append(line)
            return
        if (f.kind, f.key()) in reported:
            return
        reported.add((f.kind, f.key()))
        extra = None
        if okh and len(violations) < 2:
            # shrink the first reported cases; the replay file keeps the original case as well
            with Lock():
                sh_ = shrink(prop, cfg, f, known)
            if sh_:
                lhs_s, impl_s, model_s, what_s, steps = sh_
                extra = dict(original_case=f.lhs, original_implementation=f.impl, original_model=f.model, shrink_steps=steps,
                             case=lhs_s, implementation=impl_s, model=model_s, what=what_s)
        path = write_replay(f, extra)
        violations.append(f"VIOLATION property={prop} replay={path}{suffix}")
    unknown_oracle = [f for f in oracle_findings if not match_known(known, f)]
    for f in oracle_findings[:200]:
        if len(violations) >= 5:
            break
        report(f)
    broken = []
    if not lean_ok:
        broken += [f"proof obligation: {o['name']}: {o['detail']}" for o in obligations if not o["ok"]]
    if not okh:
        broken.append("the harness does not build against the repository: " + hlog[-600:])
    if mismatch_findings:
        broken.append(f"correspondence: {stats['mismatches']} cases differ, first: {mismatch_findings[0].lhs}")
    if broken and not unknown_oracle:
        # no concrete failing input for this property among everything explored
        f = mismatch_findings[0] if mismatch_findings else Finding(prop, "obligation", "-", "-", "-", "-", "")
        f.what = "; ".join(broken)
        f.kind = "unproved"
        path = write_replay(f, dict(broken=broken, lean_log=lean_log[-1500:] if not lean_ok else ""))
        violations.append(f"VIOLATION property={prop} replay={path} no-failing-input-found")
    for l in known_lines:
        print(l)
    for v in violations:
        print(v)
    # ---- evidence
    n_obl = len(obligations) + (1 if okh else 1)
    n_dis = sum(1 for o in obligations if o["ok"]) + (1 if (okh and not mismatch_findings) else 0)
    ev = dict(
        property_id=prop, tier=tier, seed=seed, level="proof",
        coverage=dict(
            obligations=n_obl, discharged=n_dis,
            checker_cmd=f"cd lean && lake build {cfg['module']} fvdriver && lake env lean .build/audit/{prop}.lean (#print axioms)" + (" && lake env leanchecker " + cfg["module"] if thorough else ""),
            trusted_base=["Lean 4.33 kernel", "axioms: " + ", ".join(sorted({a for o in obligations for a in o["axioms"]}) or ["none"]),
                          "statement of the theorems in lean/FV/Props as the reading of the property",
                          "correspondence check (harness, generators, projection, comparison) tying the hand-written model to /repo",
                          "rustc, cargo, the OS"],
            theorems=[dict(name=o["name"], discharged=o["ok"], axioms=o["axioms"], detail=o["detail"]) for o in obligations],
            known_findings_seen=dict(known_counts),
            correspondence=dict(suites=suites_meta, cases=stats["cases"], mismatches_in_projection=stats["mismatches"], oracle_failures=stats["oracle_failures"],
                                outcome_distribution=dict(stats["dist"])),
            evaluations=stats["cases"], distinct_nontrivial=len(stats["nontrivial"]),
            rule="cases = catalog types x generated byte strings (valid images, prefixes, extensions, single-byte mutations, random, exhaustive short); non-trivial = not rejected by the top-level alignment/minimum-size gate; distinct = distinct (type, address mod 16, options, bytes)",
            samples=stats["samples"] or [dict(note="no case sampled")],
        ),
        assumptions=["model written by hand, tied to the code by the correspondence check on every run", "x86-64, little-endian, 64-bit usize"],
        wall_s=round(time.time() - t0, 2), violations=len(violations),
    )
    # evidence/ describes /repo only; a run against another tree (seeded changes, reverted fixes) records elsewhere
    evdir = os.path.join(VERIF, "evidence") if os.path.realpath(REPO) == "/repo" else os.path.join(VERIF, ".build", "evidence-other")
    os.makedirs(evdir, exist_ok=True)
    json.dump(ev, open(os.path.join(evdir, prop + ".json"), "w"), indent=1)
    log(f"[{prop}] obligations {n_dis}/{n_obl}, cases {stats['cases']}, mismatches {stats['mismatches']}, oracle failures {stats['oracle_failures']}, {ev['wall_s']} s")
    return 1 if violations else 0

def setup():
    with Lock():
        ok, out = build_lean(["FV", "fvdriver"] + sorted({c["module"] for c in PROPS.values()}))
        if not ok:
            print(out[-3000:]); return 1
        ok, out = build_harness()
        if not ok:
            print(out[-3000:]); return 1
    print("setup ok")
    return 0

def replay(path):
    d = json.load(open(os.path.join(VERIF, path) if not os.path.isabs(path) else path))
    print(json.dumps(d, indent=1))
    if d.get("case", "-") != "-" and d["case"].split(" ")[0] in ("B", "E", "F", "A", "O", "R", "AR", "S", "AS"):
        with Lock():
            okh, hlog = build_harness()
            build_lean(["fvdriver"])
        lines = (d["case"] + "\n").encode()
        # type table first so that the driver knows the descriptors
        p = subprocess.run([harness_bin(), "exec"], input=lines, stdout=subprocess.PIPE)
        tr = p.stdout
        p2 = subprocess.run([driver_bin()], input=tr, stdout=subprocess.PIPE)
        tl = tr.decode().strip().split("\n"); ml = p2.stdout.decode().strip().split("\n")
        print("implementation now:", tl[-1])
        print("model now         :", ml[-1] if ml else "")
    return 0

def main():
    ap = argparse.ArgumentParser()
    ap.add_argument("prop", nargs="?")
    ap.add_argument("--tier", default=os.environ.get("VERIF_TIER", "quick"))
    ap.add_argument("--setup", action="store_true")
    ap.add_argument("--replay")
    a = ap.parse_args()
    seed = int(os.environ.get("VERIF_SEED", "1"))
    if a.setup:
        sys.exit(setup())
    if a.replay:
        sys.exit(replay(a.replay))
    if a.prop not in PROPS:
        print(f"unknown property {a.prop}"); sys.exit(2)
    sys.exit(check_property(a.prop, a.tier, seed))

if __name__ == "__main__":
    main()
