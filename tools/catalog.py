"""Type catalog for the correspondence harness.

A catalog entry is a flat *type expression*; named `#[flat]` items are emitted as Rust source by
gen_types.py and compiled by the real proc macro.  The same expression is rendered as a descriptor
string that the Lean driver parses into the model's `Ty`.
"""
import random

# ----------------------------------------------------------------------------------------------
# type expressions
# ----------------------------------------------------------------------------------------------
class Ty:
    sized = True
    portable = False
    has_default = False

class Prim(Ty):
    def __init__(self, rust, size, align, portable=False, has_default=True):
        self.rust, self.size, self.align, self.portable, self.has_default = rust, size, align, portable, has_default
    def rs(self): return self.rust
    def desc(self): return f"p{self.size}a{self.align}"

class BoolT(Ty):
    portable = True
    has_default = True
    size, align = 1, 1
    def rs(self): return "Bool"
    def desc(self): return "bool"

class Arr(Ty):
    def __init__(self, t, n):
        assert t.sized
        self.t, self.n = t, n
        self.portable = t.portable
        self.has_default = t.has_default and n <= 32
    def rs(self): return f"[{self.t.rs()}; {self.n}]"
    def desc(self): return f"(arr {self.t.desc()} {self.n})"

class LenT:
    def __init__(self, rust, size, align, be=False, portable=False):
        self.rust, self.size, self.align, self.be, self.portable = rust, size, align, be, portable
    def rs(self): return self.rust
    def desc(self): return f"l{self.size}a{self.align}{'b' if self.be else 'l'}"
    def max(self): return 256 ** self.size - 1

class VecT(Ty):
    sized = False
    has_default = True
    def __init__(self, t, l):
        assert t.sized
        self.t, self.l = t, l
        self.portable = t.portable and l.portable
    def rs(self): return f"FlatVec<{self.t.rs()}, {self.l.rs()}>"
    def desc(self): return f"(vec {self.t.desc()} {self.l.desc()})"

class StrT(Ty):
    sized = False
    has_default = True
    def __init__(self, l):
        self.l = l
        self.portable = l.portable
    def rs(self): return f"FlatString<{self.l.rs()}>"
    def desc(self): return f"(str {self.l.desc()})"

class FlexT(Ty):
    sized = False
    has_default = True
    def __init__(self, t, l):
        self.t, self.l = t, l
        self.portable = t.portable and l.portable
    def rs(self): return f"FlexVec<{self.t.rs()}, {self.l.rs()}>"
    def desc(self): return f"(flex {self.t.desc()} {self.l.desc()})"

class StructT(Ty):
    """fields: list of (name or None, Ty); name None → tuple struct"""
    def __init__(self, name, fields, sized=True, portable=False, default=False):
        self.name, self.fields, self.sized, self.portable, self.default = name, fields, sized, portable, default
        assert fields
        assert all(t.sized for _, t in fields[:-1])
        assert sized == fields[-1][1].sized
        self.has_default = default
        if portable:
            assert all(t.portable for _, t in fields)
        if default:
            assert all(t.has_default for _, t in fields)
    def rs(self): return self.name
    def desc(self):
        fs = " ".join(t.desc() for _, t in self.fields)
        return f"({'ss' if self.sized else 'us'} {fs})"

class EnumT(Ty):
    """variants: list of (name, kind, fields) with kind in unit|tuple|named; fields list of (name, Ty)"""
    def __init__(self, name, tag, variants, sized=True, portable=False, default=None):
        self.name, self.tag, self.variants, self.sized, self.portable, self.default = name, tag, variants, sized, portable, default
        assert variants
        self.clike = all(k == "unit" for _, k, _ in variants)
        if self.clike:
            assert sized
        for _, _, fs in variants:
            assert all(t.sized for _, t in fs[:-1])
            if sized:
                assert all(t.sized for _, t in fs)
        self.has_default = default is not None
        if portable:
            assert tag.portable and all(t.portable for _, _, fs in variants for _, t in fs)
        if default is not None:
            assert variants[default][1] == "unit"
    def rs(self): return self.name
    def desc(self):
        if self.clike:
            return f"(ce {self.tag.desc()} {len(self.variants)})"
        vs = " ".join("(v" + "".join(" " + t.desc() for _, t in fs) + ")" for _, _, fs in self.variants)
        return f"({'se' if self.sized else 'ue'} {self.tag.desc()} {vs})"

# ----------------------------------------------------------------------------------------------
# leaves
# ----------------------------------------------------------------------------------------------
U8, U16, U32, U64, U128 = Prim("u8", 1, 1, portable=True), Prim("u16", 2, 2), Prim("u32", 4, 4), Prim("u64", 8, 8), Prim("u128", 16, 16)
I8, I16, I32, I64 = Prim("i8", 1, 1, portable=True), Prim("i16", 2, 2), Prim("i32", 4, 4), Prim("i64", 8, 8)
F32, F64 = Prim("f32", 4, 4), Prim("f64", 8, 8)
UNIT = Prim("()", 0, 1, portable=True)
USIZE = Prim("usize", 8, 8)
BOOL = BoolT()
def port(mod, name, n): return Prim(f"{mod}::{name}", n, 1, portable=True)
LE_U16, LE_U32, LE_U64 = port("le", "U16", 2), port("le", "U32", 4), port("le", "U64", 8)
BE_U16, BE_U32, BE_U64 = port("be", "U16", 2), port("be", "U32", 4), port("be", "U64", 8)
LE_I32, BE_I16, LE_F32, BE_F64 = port("le", "I32", 4), port("be", "I16", 2), port("le", "F32", 4), port("be", "F64", 8)

L8 = LenT("u8", 1, 1, portable=True)
L16, L32, L64, LSZ = LenT("u16", 2, 2), LenT("u32", 4, 4), LenT("u64", 8, 8), LenT("usize", 8, 8)
LLE16, LLE32, LLE64 = LenT("le::U16", 2, 1, False, True), LenT("le::U32", 4, 1, False, True), LenT("le::U64", 8, 1, False, True)
LBE16, LBE32, LBE64 = LenT("be::U16", 2, 1, True, True), LenT("be::U32", 4, 1, True, True), LenT("be::U64", 8, 1, True, True)
ALL_LENS = [L8, L16, L32, L64, LSZ, LLE16, LLE32, LLE64, LBE16, LBE32, LBE64]
TAGS = [L8, L16, L32]

def S(name, *fields, **kw):
    """fields: 'fname', ty alternating, or just types for a tuple struct"""
    if fields and isinstance(fields[0], str):
        fl = [(fields[i], fields[i + 1]) for i in range(0, len(fields), 2)]
    else:
        fl = [(None, t) for t in fields]
    return StructT(name, fl, **kw)
def V(name, *fields):
    if not fields:
        return (name, "unit", [])
    if isinstance(fields[0], str):
        return (name, "named", [(fields[i], fields[i + 1]) for i in range(0, len(fields), 2)])
    return (name, "tuple", [(None, t) for t in fields])
def E(name, tag, *variants, **kw):
    return EnumT(name, tag, list(variants), **kw)

# ----------------------------------------------------------------------------------------------
# base catalog (fixed)
# ----------------------------------------------------------------------------------------------
def base_catalog():
    c = []
    # sized leaves and arrays
    c += [U8, U16, U32, U64, U128, I16, F32, F64, UNIT, BOOL, LE_U16, BE_U32, LE_F32, BE_F64]
    c += [Arr(U8, 3), Arr(U16, 2), Arr(BOOL, 3), Arr(LE_U32, 2), Arr(Arr(BOOL, 2), 2), Arr(U32, 0)]
    # sized structs: padding in every position
    WithBool = S("WithBool", "x", U32, "b", BOOL)
    Pad1 = S("Pad1", "a", U8, "b", U32, "c", U8)
    Pad2 = S("Pad2", "a", U8, "b", U16, "c", U8, "d", U64, "e", BOOL)
    Pad3 = S("Pad3", U16, U128, U8)
    Tup = S("Tup", U8, BOOL, U16)
    Nest = S("Nest", "p", Pad1, "q", BOOL, "r", Arr(WithBool, 2))
    PSt = S("PSt", "a", LE_U16, "b", BOOL, "c", BE_U32, "d", U8, portable=True)
    DSt = S("DSt", "a", U32, "b", U8, "c", Arr(U16, 3), default=True)
    c += [WithBool, Pad1, Pad2, Pad3, Tup, Nest, PSt, DSt]
    # C-like and sized enums, every tag type
    CL8 = E("CL8", L8, V("X"), V("Y"), V("Z"))
    CL16 = E("CL16", L16, V("X"), V("Y"))
    CL32 = E("CL32", L32, V("P"), V("Q"), V("R"), V("S"), default=2)
    SE8 = E("SE8", L8, V("A"), V("B", U16, U8), V("C", "a", U8, "b", U32), V("D", BOOL))
    SE16 = E("SE16", L16, V("A"), V("B", U16, U8), V("C", "a", U8, "b", U32), V("D", BOOL))
    SE32 = E("SE32", L32, V("A", U8), V("B", U64), V("C", CL8, BOOL))
    SEn = E("SEn", L8, V("A", WithBool), V("B", SE8), V("C", Arr(BOOL, 2)))
    DSE = E("DSE", L16, V("A", U8), V("B"), V("C", BOOL), default=1)
    PSE = E("PSE", L8, V("A"), V("B", LE_U16, BOOL), V("C", "x", BE_U32), portable=True)
    c += [CL8, CL16, CL32, SE8, SE16, SE32, SEn, DSE, PSE, Arr(SE8, 2), S("HasEnum", "e", SE16, "t", CL8, "b", BOOL)]
    # FlatVec: element sizes / aligns × length types
    for (t, l) in [(U8, L8), (U8, L16), (U8, L32), (U8, L64), (U8, LSZ), (U16, L8), (U32, L16), (U64, L8), (U128, L16),
                   (Arr(U8, 3), L32), (Arr(U8, 3), L16), (Arr(U8, 5), L8), (Arr(U16, 3), L16), (Arr(U32, 3), L8),
                   (BOOL, L8), (BOOL, L16), (WithBool, L8), (SE8, L8), (SE16, L16), (Pad2, L8), (CL8, L8), (UNIT, L8),
                   (LE_U16, LBE16), (BE_U32, LLE32), (U8, LLE64), (U8, LBE32), (BOOL, LLE16), (PSt, LLE16), (Arr(BOOL, 3), LBE16)]:
        c.append(VecT(t, l))
    # FlatString
    c += [StrT(l) for l in [L8, L16, L32, L64, LLE16, LBE32]]
    # unsized structs / enums
    S1 = S("S1", "a", U32, "b", VecT(U8, L16), sized=False)
    S2 = S("S2", "a", U8, "b", BOOL, "c", VecT(U64, L8), sized=False)
    S3 = S("S3", "x", U16, "s", StrT(L16), sized=False)
    S4 = S("S4", "v", VecT(Arr(U8, 3), L16), sized=False)
    S5 = S("S5", "a", U32, "b", VecT(Arr(U8, 3), L16), sized=False)
    S6 = S("S6", U8, VecT(BOOL, L8), sized=False)
    S7 = S("S7", "e", SE16, "w", WithBool, "v", VecT(U16, L8), sized=False, default=False)
    DS = S("DS", "a", U32, "b", U8, "v", VecT(U16, L16), sized=False, default=True)
    PS = S("PS", "a", LE_U32, "f", BOOL, "v", VecT(BE_U16, LLE16), sized=False, portable=True)
    E1 = E("E1", L8, V("A"), V("B", U8, U16), V("C", "a", U8, "b", VecT(U8, L16)), V("D", U32), sized=False)
    E2 = E("E2", L16, V("A", BOOL), V("B", VecT(U32, L8)), V("C", "s", StrT(L8)), sized=False)
    E3 = E("E3", L32, V("A"), V("B", "x", U64, "v", VecT(U8, L8)), sized=False)
    E4 = E("E4", L8, V("A", CL8), V("B", SE8, BOOL), V("C", S1), sized=False)
    DE_ = E("DE", L8, V("A", U32), V("B"), V("C", U8, VecT(U8, L8)), sized=False, default=1)
    PE = E("PE", L8, V("A"), V("B", LE_U16, BOOL), V("C", "n", BE_U32, "v", VecT(LE_U16, LBE16)), V("D", StrT(LLE16)), sized=False, portable=True)
    Outer = E("Outer", L8, V("A", U32), V("B", U8, E("Inner", L8, V("X"), V("Y", VecT(U8, L16)), sized=False)), sized=False)
    SS = S("SS", "h", U16, "inner", S1, sized=False)
    c += [S1, S2, S3, S4, S5, S6, S7, DS, PS, E1, E2, E3, E4, DE_, PE, Outer, SS]
    # field lists with padding in every position, sized-only unsized enums, variants smaller than the alignment
    E5 = E("E5", L8, V("Empty"), V("Short", U16), V("Wide", U32), sized=False)
    E6 = E("E6", L16, V("A", U8), V("B", U64), V("C", U8, U8, U8), sized=False)
    E7 = E("E7", L8, V("A"), V("Rec", "kind", U8, "seq", U16, "body", VecT(U8, L8)), V("Big", "a", U8, "b", U32, "c", U8, "d", VecT(U16, L16)), sized=False)
    E8 = E("E8", L8, V("P", U8, U64, U8, StrT(L8)), V("Q", U16, U8, U32, U8), V("R", BOOL, U16, BOOL, FlexT(VecT(U8, L8), L8)), sized=False)
    E9 = E("E9", L32, V("A", U8, U16), V("B", U16, U8, U16, U8, VecT(U32, L8)), sized=False)
    S8 = S("S8", "a", U8, "b", U16, "c", U8, "d", U32, "v", VecT(U8, L8), sized=False)
    S9 = S("S9", "a", U16, "b", U8, "c", U64, "d", U8, "s", StrT(L16), sized=False)
    S10 = S("S10", "a", U8, "e", E7, sized=False)
    c += [E5, E6, E7, E8, E9, S8, S9, S10, FlexT(E7, L16), FlexT(S8, L8), FlexT(E5, L8)]
    # FlexVec
    c += [FlexT(U8, L8), FlexT(U32, L8), FlexT(U32, L16), FlexT(U64, L16), FlexT(BOOL, L8), FlexT(WithBool, L16), FlexT(SE8, L8),
          FlexT(VecT(U8, L8), L8), FlexT(VecT(U16, L16), L16), FlexT(VecT(I32, L16), L16), FlexT(VecT(U8, L8), L32), FlexT(StrT(L8), L8),
          FlexT(StrT(L16), L16), FlexT(S1, L16), FlexT(E1, L8), FlexT(E1, L16), FlexT(VecT(U8, L8), LLE16), FlexT(VecT(LE_U16, LBE16), LBE16),
          FlexT(FlexT(VecT(U8, L8), L8), L8), FlexT(U8, L64), FlexT(VecT(BOOL, L8), L8), FlexT(PE, LLE16), FlexT(U16, LSZ),
          # items whose own length type is more aligned than both their elements and the outer offset type (S77)
          FlexT(VecT(U8, L32), L8), FlexT(StrT(L16), L8), FlexT(VecT(U8, L16), LLE16),
          # 2-byte portable offsets with items that can grow past what they count (S103)
          FlexT(StrT(LLE16), LLE16), FlexT(StrT(LBE16), LBE16),
          # nested, the inner offset type portable and wider than the outer slot (S106)
          FlexT(FlexT(U8, LLE32), L8), FlexT(FlexT(VecT(U8, L8), LBE16), L8)]
    F1 = S("F1", "x", U16, "f", FlexT(S1, L16), sized=False)
    F2 = E("F2", L8, V("A", U8), V("B", FlexT(VecT(U8, L8), L8)), sized=False)
    F3 = S("F3", "n", U8, "f", FlexT(StrT(L8), L8), sized=False, default=True)
    c += [F1, F2, F3]
    # unsized enums with a default variant and a tag wider than one byte (the tag write of the generated default emplacer)
    DE16 = E("DE16", L16, V("Idle"), V("Data", VecT(U8, L16)), sized=False, default=0)
    DE32 = E("DE32", L32, V("A", U8), V("B"), V("C", U16, StrT(L8)), sized=False, default=1)
    DEP = E("DEP", LLE16 if False else L8, V("A", BOOL), V("B"), V("C", LE_U16, VecT(U8, LLE16)), sized=False, portable=True, default=1)
    c += [DE16, DE32, DEP, FlexT(DE16, L16)]
    # defaults of unsized structs whose sized fields are small and whose tail is more strictly aligned (the field walker's
    # up-front size check at exactly MIN_SIZE)
    DS3 = S("DS3", "a", U8, "b", U16, "c", VecT(U64, L32), sized=False, default=True)
    DS4 = S("DS4", "a", U8, "b", U8, "c", U32, "s", StrT(L16), sized=False, default=True)
    DS5 = S("DS5", "a", BOOL, "b", U16, "f", FlexT(U64, L16), sized=False, default=True)
    c += [DS3, DS4, DS5]
    # zero-sized items: every slot is a bare header (the room tests of push / FromIterator at exactly one header)
    c += [FlexT(UNIT, L8), FlexT(UNIT, L16)]
    # a fixed set of generated definitions widens the shapes (the thorough tier adds seeded ones on top)
    c += random_catalog(20260926, 40, prefix="G")
    return c

# ----------------------------------------------------------------------------------------------
# random catalog (thorough tier): new programs on every seed
# ----------------------------------------------------------------------------------------------
def random_catalog(seed, count, prefix="R"):
    rnd = random.Random(seed)
    prims = [U8, U16, U32, U64, U128, I8, I16, I32, F32, F64, BOOL, LE_U16, BE_U32, LE_U64, UNIT]
    sized_named, unsized_named = [], []
    out = []
    def sized_ty(depth=0):
        r = rnd.random()
        if sized_named and r < 0.3:
            return rnd.choice(sized_named)
        if r < 0.45 and depth < 2:
            return Arr(sized_ty(depth + 1), rnd.choice([0, 1, 2, 3]))
        return rnd.choice(prims)
    def unsized_ty(depth=0):
        r = rnd.random()
        if r < 0.35:
            return VecT(sized_ty(), rnd.choice(ALL_LENS))
        if r < 0.5:
            return StrT(rnd.choice(ALL_LENS))
        if r < 0.75 and depth < 2:
            inner = rnd.choice(unsized_named) if unsized_named and rnd.random() < 0.5 else (unsized_ty(depth + 1) if rnd.random() < 0.7 else sized_ty())
            return FlexT(inner, rnd.choice(ALL_LENS))
        if unsized_named:
            return rnd.choice(unsized_named)
        return VecT(sized_ty(), rnd.choice(ALL_LENS))
    def fields(n, last_unsized, named):
        fs = [sized_ty() for _ in range(n)]
        if last_unsized:
            fs.append(unsized_ty())
        if named:
            return [(f"f{i}", t) for i, t in enumerate(fs)]
        return [(None, t) for t in fs]
    for i in range(count):
        name = f"{prefix}{i}"
        kind = rnd.choice(["ss", "se", "us", "ue", "ue", "us"])
        if kind == "ss":
            t = StructT(name, fields(rnd.randint(1, 5), False, rnd.random() < 0.7))
            sized_named.append(t)
        elif kind == "us":
            t = StructT(name, fields(rnd.randint(0, 3), True, rnd.random() < 0.7), sized=False)
            unsized_named.append(t)
        else:
            vs = []
            for j in range(rnd.randint(1, 4)):
                k = rnd.choice(["unit", "tuple", "named"])
                if k == "unit":
                    vs.append((f"V{j}", "unit", []))
                else:
                    fs = fields(rnd.randint(0 if kind == "ue" else 1, 3), kind == "ue" and rnd.random() < 0.6, k == "named")
                    if not fs:
                        vs.append((f"V{j}", "unit", []))
                    else:
                        vs.append((f"V{j}", k, fs))
            if kind == "ue" and all(k == "unit" for _, k, _ in vs):
                vs.append((f"V{len(vs)}", "tuple", [(None, unsized_ty())]))
            t = EnumT(name, rnd.choice(TAGS), vs, sized=(kind == "se"))
            (sized_named if kind == "se" else unsized_named).append(t)
        out.append(t)
    return out


# ----------------------------------------------------------------------------------------------
# layout (C rule) and documented defaults — specification side, independent of the library
# ----------------------------------------------------------------------------------------------
def ceil_mul(x, m): return (x + m - 1) // m * m
def align_of(t):
    if isinstance(t, (Prim, BoolT)): return t.align
    if isinstance(t, Arr): return align_of(t.t)
    if isinstance(t, (VecT, FlexT)): return max(align_of(t.t), t.l.align)
    if isinstance(t, StrT): return t.l.align
    if isinstance(t, StructT): return max(align_of(ft) for _, ft in t.fields)
    if isinstance(t, EnumT): return max([t.tag.align] + [align_of(ft) for _, _, fs in t.variants for _, ft in fs])
    raise TypeError(t)
def field_offsets(fs):
    pos, out = 0, []
    for ft in fs:
        pos = ceil_mul(pos, align_of(ft)); out.append(pos)
        if ft.sized: pos += size_of(ft)
    return out
def size_of(t):
    if isinstance(t, (Prim, BoolT)): return t.size
    if isinstance(t, Arr): return size_of(t.t) * t.n
    if isinstance(t, StructT):
        fs = [ft for _, ft in t.fields]; offs = field_offsets(fs)
        return ceil_mul(offs[-1] + size_of(fs[-1]), align_of(t))
    if isinstance(t, EnumT):
        if t.clike: return t.tag.size
        al = align_of(t); doff = ceil_mul(t.tag.size, al); mx = 0
        for _, _, fs in t.variants:
            if fs:
                fl = [ft for _, ft in fs]; offs = field_offsets(fl)
                mx = max(mx, ceil_mul(offs[-1] + size_of(fl[-1]), max(align_of(x) for x in fl)))
        return ceil_mul(doff + mx, al)
    raise TypeError(t)
PADHEX = "ee"
def enc_len(l, v):
    b = [(v >> (8 * i)) & 255 for i in range(l.size)]
    if l.be: b.reverse()
    return "".join(f"{x:02x}" for x in b)
def default_image(t):
    """hex image of `Default::default()` of a sized type; padding = ee"""
    if isinstance(t, (Prim, BoolT)): return "00" * t.size
    if isinstance(t, Arr): return default_image(t.t) * t.n
    if isinstance(t, StructT):
        fs = [ft for _, ft in t.fields]; offs = field_offsets(fs)
        img = [PADHEX] * size_of(t)
        for ft, o in zip(fs, offs):
            h = default_image(ft)
            for i in range(len(h) // 2): img[o + i] = h[2 * i:2 * i + 2]
        return "".join(img)
    if isinstance(t, EnumT):
        img = [PADHEX] * size_of(t)
        h = enc_len(t.tag, t.default)
        for i in range(len(h) // 2): img[i] = h[2 * i:2 * i + 2]
        return "".join(img)
    raise TypeError(t)
def default_init(t):
    """s-expression of the initialiser that the documentation says default_in_place is equivalent to"""
    if not t.has_default: return None
    if t.sized:
        h = default_image(t)
        return f"(raw {h if h else '-'})"
    if isinstance(t, VecT): return "(ve)"
    if isinstance(t, StrT): return "(sf -)"
    if isinstance(t, FlexT): return "(fe)"
    if isinstance(t, StructT):
        hs = "".join(" " + (default_image(ft) or "-") for _, ft in t.fields[:-1])
        return f"(us{hs} {default_init(t.fields[-1][1])})"
    if isinstance(t, EnumT):
        return f"(ue {t.default})"
    raise TypeError(t)
