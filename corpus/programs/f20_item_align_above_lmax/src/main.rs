//! Witness of defect F20 (C12): a FlexVec whose item alignment exceeds `L::MAX` (`FlexVec<A256, u8>`: slots are 256 bytes,
//! the last-item marker is 255). `push` succeeded and the vector then failed its own validation: `len()` panicked and
//! `from_bytes` rejected the bytes. Prints one line per observation; the check compares them with `expected.txt`.
use flatty::{prelude::*, FlexVec};

#[repr(C, align(256))]
#[derive(Clone, Copy)]
struct A256([u8; 256]);
unsafe impl flatty::Flat for A256 {}
unsafe impl flatty::traits::FlatValidate for A256 {
    unsafe fn validate_unchecked(_: &[u8]) -> Result<(), flatty::Error> {
        Ok(())
    }
}

#[repr(C, align(256))]
struct Buf([u8; 2048]);

fn main() {
    let mut b = Buf([0xAA; 2048]);
    {
        let v = FlexVec::<A256, u8>::default_in_place(&mut b.0).unwrap();
        println!("push1 ok={}", v.push(A256([7; 256])).is_ok());
        let len = std::panic::catch_unwind(std::panic::AssertUnwindSafe(|| v.len()));
        println!("len after push1 = {:?}", len.ok());
        // a second item cannot be linked (its offset would have to exceed L::MAX): it must be refused and change nothing
        println!("push2 ok={}", v.push(A256([9; 256])).is_ok());
        let len = std::panic::catch_unwind(std::panic::AssertUnwindSafe(|| v.len()));
        println!("len after push2 = {:?}", len.ok());
    }
    let r = FlexVec::<A256, u8>::from_bytes(&b.0);
    println!("from_bytes = {:?}", r.map(|x| (x.len(), x.iter().next().map(|i| i.0[0]))).map_err(|e| e.kind));
}
