//! Emplacement suite: new_in_place / assign_in_place / default_in_place on every buffer length and offset.
//! `E <tid> <place> <a16> new <init> <pre> => <res> <after> spec=<content> p=<probe of the result>`
//! `A <tid> <place> <a16> <init> <pre(valid image)> => <res> <after> p=<probe of the state afterwards> a2=<second assign>`
//! `F <tid> <place> <a16> <spec-init> <pre> => <res> <after> p=<probe>`   (default_in_place vs the documented default)
use crate::{arena::*, err_str, guarded, hex, shape::*, Rng, TypeOps, D};
use std::io::Write;

pub struct Cfg {
    pub seed: u64,
    pub thorough: bool,
    pub only: Option<usize>,
    pub from: usize,
    pub scale: usize,
}
fn probe_str(t: &dyn TypeOps, sl: &[u8]) -> String {
    match guarded(|| t.probe(sl)) {
        None => "PANIC".into(),
        Some(p) => match p.res {
            Err(e) => format!("err:{}", err_str(&e)),
            Ok((v, _s, z, w, _)) => format!("ok:v={}:z={}:{}", v, z, w.replace(' ', "_")),
        },
    }
}
fn res_str(r: Option<Result<(), flatty::Error>>) -> String {
    match r {
        None => "PANIC".into(),
        Some(Ok(())) => "ok".into(),
        Some(Err(e)) => format!("err:{}", err_str(&e)),
    }
}
const FILL: u8 = 0x5A;

pub fn exec_new(t: &dyn TypeOps, sh: &Shape, ar: &mut Arena, place: Place, d: &D, pre: &[u8]) -> String {
    let (start, sl) = ar.place(pre, place, FILL);
    let len = sl.len();
    let r = guarded(|| t.new_in_place(sl, d));
    let after = hex(sl);
    let zdirect = if matches!(r, Some(Ok(()))) { Some(t.probe(sl).res.as_ref().map(|x| x.2).unwrap_or(usize::MAX)) } else { None };
    let mut out = format!("{} {}", res_str(r.clone()), after);
    if matches!(r, Some(Ok(()))) {
        out += &format!(" spec={}", render_init(sh, d).replace(' ', "_"));
        out += &format!(" p={}", probe_str(t, sl));
    }
    if !ar.outside_intact(start, len, FILL) {
        out += " OUTSIDE-WRITTEN";
    }
    // `FlatWrap::new_in_place` over the same bytes must behave exactly like `new_in_place` (C15)
    {
        let direct = r.clone();
        let (_, sl2) = ar.place(pre, place, FILL);
        let rw = guarded(|| t.wrap_new_in_place(sl2, d));
        let same = match (&direct, &rw) {
            (Some(Ok(())), Some(Ok(z))) => Some(*z) == zdirect && hex(sl2) == after,
            (Some(Err(a)), Some(Err(b))) => a == b && hex(sl2) == after,
            (None, None) => true,
            _ => false,
        };
        if !same {
            out += " WRAP-DIFF";
        }
    }
    out
}
pub fn exec_default(t: &dyn TypeOps, ar: &mut Arena, place: Place, pre: &[u8]) -> String {
    let (start, sl) = ar.place(pre, place, FILL);
    let len = sl.len();
    let r = guarded(|| t.default_in_place(sl).unwrap());
    let after = hex(sl);
    let zdirect = if matches!(r, Some(Ok(()))) { Some(t.probe(sl).res.as_ref().map(|x| x.2).unwrap_or(usize::MAX)) } else { None };
    let mut out = format!("{} {}", res_str(r.clone()), after);
    if matches!(r, Some(Ok(()))) {
        out += &format!(" p={}", probe_str(t, sl));
    }
    if !ar.outside_intact(start, len, FILL) {
        out += " OUTSIDE-WRITTEN";
    }
    // `FlatWrap::default_in_place` over the same bytes must behave exactly like `default_in_place`
    {
        let (_, sl2) = ar.place(pre, place, FILL);
        let rw = guarded(|| t.wrap_default_in_place(sl2).unwrap());
        let same = match (&r, &rw) {
            (Some(Ok(())), Some(Ok(z))) => Some(*z) == zdirect && hex(sl2) == after,
            (Some(Err(a)), Some(Err(b))) => a == b && hex(sl2) == after,
            (None, None) => true,
            _ => false,
        };
        if !same {
            out += " WRAP-DIFF";
        }
    }
    out
}
pub fn exec_assign(t: &dyn TypeOps, ar: &mut Arena, place: Place, d: &D, d2: &D, pre: &[u8]) -> String {
    let (start, sl) = ar.place(pre, place, FILL);
    let len = sl.len();
    let r = guarded(|| t.assign_in_place(sl, d));
    let mut out = match &r {
        None => format!("PANIC {}", hex(sl)),
        Some(Err(e)) => format!("notvalid:{} {}", err_str(e), hex(sl)),
        Some(Ok(r)) => format!("{} {}", res_str(Some(r.clone())), hex(sl)),
    };
    if let Some(Ok(_)) = &r {
        out += &format!(" p={}", probe_str(t, sl));
        // the value can be assigned again without panicking
        let r2 = guarded(|| t.assign_in_place(sl, d2));
        out += &format!(" a2={}", match r2 { None => "PANIC".to_string(), Some(Err(e)) => format!("notvalid:{}", err_str(&e)), Some(Ok(r)) => res_str(Some(r)) });
        out += &format!(" p2={}", probe_str(t, sl));
    }
    if !ar.outside_intact(start, len, FILL) {
        out += " OUTSIDE-WRITTEN";
    }
    out
}
fn pc(p: Place) -> char {
    match p { Place::End => 'E', Place::Start => 'S', Place::Mid(_) => 'M' }
}
fn a16_of(ar: &Arena, place: Place, len: usize) -> usize {
    match place { Place::End => (ar.addr_mod(0, 16) + PAGE - len % 16) % 16, Place::Start => ar.addr_mod(0, 16), Place::Mid(o) => (ar.addr_mod(0, 16) + 256 + o % 16) % 16 }
}
/// size the value needs: emplace into a big aligned buffer and ask
fn needed(t: &dyn TypeOps, d: &D, big: &mut Vec<u8>) -> Option<usize> {
    let base = { let p = big.as_ptr() as usize; (16 - p % 16) % 16 };
    let room = 2048;
    for b in big[base..base + room].iter_mut() { *b = 0; }
    match guarded(|| t.new_in_place(&mut big[base..base + room], d)) {
        Some(Ok(())) => match guarded(|| t.probe(&big[base..base + room]).res) { Some(Ok((_, _, z, _, _))) => Some(z), _ => None },
        _ => None,
    }
}

pub fn run(reg: &[Box<dyn TypeOps>], defaults: &[Option<&'static str>], cfg: &Cfg, out: &mut dyn Write) {
    let mut ar = Arena::new(1);
    let mut big = vec![0u8; 4096];
    for (tid, t) in reg.iter().enumerate() {
        if let Some(o) = cfg.only { if o != tid { continue; } }
        if tid < cfg.from { continue; }
        let sh = parse(t.desc());
        let mut rng = Rng::new(cfg.seed ^ ((tid as u64 + 1) * 0x51ED270B));
        let al = t.align();
        let unsized_ = !sh.is_sized();
        let n_inits = cfg.scale * if cfg.thorough { if unsized_ { 40 } else { 6 } } else if unsized_ { 8 } else { 2 };
        // boundary initialisers for 1-byte offset types: an item whose link offset lands on / next to `L::MAX` in the middle of a
        // `FromIterator` (the emplacer has to stop there and leave a valid chain)
        let mut boundary: Vec<D> = vec![];
        if let Shape::Flex(e, l) = &sh {
            if l.size == 1 {
                for n in [249usize, 251, 252, 253, 254, 255] {
                    let item = match &**e {
                        Shape::Vec(ee, _) if ee.size() == 1 => Some(D::VecIter((0..n).map(|i| gen_sized(ee, &mut Rng::new(i as u64))).collect())),
                        Shape::Str(_) => Some(D::StrFrom(vec![b'a'; n])),
                        _ => None,
                    };
                    if let Some(big_item) = item {
                        let small = gen_init(e, &mut rng, 1).strip_def();
                        boundary.push(D::FlexIter(vec![small.clone(), big_item, small]));
                    }
                }
            }
        }
        // … for 2-byte offset types, link offsets around 256 and 512 (S117: a value whose low byte is small — what a byte-wise comparison of a
        // little-endian offset gets wrong)
        if let Shape::Flex(e, l) = &sh {
            if l.size == 2 {
                let lens: Vec<usize> = match &**e {
                    Shape::Vec(ee, il) if ee.size() == 1 => (246..=256usize).filter(|n| (*n as u128) <= il.max()).collect(),
                    Shape::Str(il) => (246..=256usize).chain(502..=512).filter(|n| (*n as u128) <= il.max()).collect(),
                    _ => vec![],
                };
                for n in lens {
                    let item = match &**e {
                        Shape::Vec(ee, _) => D::VecIter((0..n).map(|i| gen_sized(ee, &mut Rng::new(i as u64))).collect()),
                        _ => D::StrFrom(vec![b'a'; n]),
                    };
                    let small = gen_init(e, &mut rng, 1).strip_def();
                    boundary.push(D::FlexIter(vec![small.clone(), item, small]));
                }
            }
        }
        // … and for 2-byte offset types (S103): a string item of almost 64 KiB whose link offset lands on / next to `L::MAX` = 65535, with
        // another item behind it (strings only: a 65 000-element vector is too slow for the model's element-wise rendering). A handful of
        // buffer lengths each.
        let n_small = boundary.len();
        if let Shape::Flex(e, l) = &sh {
            if l.size == 2 {
                if let Shape::Str(il) = &**e {
                    if il.size >= 2 {
                        let os = sh.data_offset();
                        let isz = il.size;
                        // the item's link offset is os + ceil(isz + n, al): the values of n around where it reaches 65535
                        let around = 65535usize.saturating_sub(os + isz);
                        for n in [around.saturating_sub(al + 2), around.saturating_sub(1), around, around + 1] {
                            if n as u128 > il.max() { continue; }
                            boundary.push(D::FlexIter(vec![D::StrFrom(vec![b'a'; n]), D::StrFrom(b"b".to_vec())]));
                        }
                    }
                }
            }
        }
        for it in 0..n_inits + boundary.len() {
            let scripted = it >= n_inits;
            let huge = scripted && it - n_inits >= n_small;
            let d = if scripted { boundary[it - n_inits].clone() } else { gen_init(&sh, &mut rng, 0) };
            let need = if huge { 65536 + 64 } else { match needed(t.as_ref(), &d, &mut big) { Some(n) => n, None => if scripted { 300 } else { t.min_size() + 8 } } };
            let maxlen = need + 2 * al + 3;
            // every single length, at the natural alignment (slice flush against the end guard when it happens to be aligned,
            // in the middle otherwise), plus misaligned offsets for a subset
            for len in 0..=maxlen {
                if huge && !(len == need || len == need - 24 || len == maxlen) { continue; }
                if scripted && len > 6 && len + 12 < need { continue; }
                let mut places = vec![Place::Mid(0)];
                if (PAGE - len % PAGE) % al == 0 && it % 2 == 0 { places.push(Place::End); }
                if al > 1 && (len + it) % 5 == 0 { places.push(Place::Mid(1 + rng.below(al as u64 - 1) as usize)); }
                if al > 2 && (len + it) % 11 == 0 { places.push(Place::Mid(al / 2)); }
                for place in places {
                    let pre = rng.bytes(len);
                    let a16 = a16_of(&ar, place, len);
                    write!(out, "E {} {} {} new {} {} => ", tid, pc(place), a16, d.text(), hex(&pre)).unwrap();
                    out.flush().unwrap();
                    writeln!(out, "{}", exec_new(t.as_ref(), &sh, &mut ar, place, &d, &pre)).unwrap();
                }
            }
        }
        // default_in_place against the documented default
        if let Some(spec) = defaults[tid] {
            let reps = if cfg.thorough { 6 } else { 2 };
            for rep in 0..reps {
                let need = t.min_size();
                for len in 0..=(need + 2 * al + 3) {
                    let place = if rep == 1 && (PAGE - len % PAGE) % al == 0 { Place::End } else if rep >= 2 && al > 1 && len % 3 == 0 { Place::Mid(rng.below(16) as usize) } else { Place::Mid(0) };
                    let pre = rng.bytes(len);
                    let a16 = a16_of(&ar, place, len);
                    write!(out, "F {} {} {} {} {} => ", tid, pc(place), a16, spec, hex(&pre)).unwrap();
                    out.flush().unwrap();
                    writeln!(out, "{}", exec_default(t.as_ref(), &mut ar, place, &pre)).unwrap();
                }
            }
        }
        // assign_in_place on valid current values (unsized types)
        if unsized_ {
            let n_states = cfg.scale * if cfg.thorough { 60 } else { 14 };
            for st in 0..n_states + boundary.len() {
                let scripted = st >= n_states;
                let d0 = gen_init(&sh, &mut rng, 0);
                let need0 = match needed(t.as_ref(), &d0, &mut big) { Some(n) => n, None => continue };
                // scripted states: plenty of room, so that an item whose link offset reaches `L::MAX` is refused for that reason
                let room = if scripted { (need0 + 560) / al * al } else { need0 + match rng.below(4) { 0 => 0, 1 => rng.below(al as u64 + 1) as usize, 2 => rng.below(12) as usize, _ => rng.below(40) as usize } };
                // build the current value
                let base = { let p = big.as_ptr() as usize; (16 - p % 16) % 16 };
                let garbage = rng.bytes(room);
                big[base..base + room].copy_from_slice(&garbage);
                if !matches!(guarded(|| t.new_in_place(&mut big[base..base + room], &d0)), Some(Ok(()))) { continue; }
                let mut cur = big[base..base + room].to_vec();
                // a top-level FlexVec target now and then in the encoding the library never writes itself (terminating slot)
                if let Shape::Flex(_, l) = &sh {
                    if rng.chance(1, 3) {
                        if let Some(Ok((vlen, _, z, _, _))) = guarded(|| t.probe(&cur).res) {
                            let slack = al * (rng.below(2) as usize);
                            if let Some(alt) = terminate_chain(&cur, l, sh.data_offset(), slack, vlen, z) { cur = alt; }
                        }
                    }
                }
                let n_repl = if cfg.thorough { 8 } else { 4 };
                for r in 0..n_repl {
                    let d1 = if scripted && r == 0 { boundary[st - n_states].clone() } else if scripted && r == 1 { match &boundary[st - n_states] { D::FlexIter(v) => D::FlexIter(vec![v[1].clone()]), o => o.clone() } } else { gen_init(&sh, &mut rng, 0) };
                    let d2 = gen_init(&sh, &mut rng, 0);
                    let place = if (PAGE - room) % al == 0 && rng.chance(1, 2) { Place::End } else { Place::Mid(0) };
                    let a16 = a16_of(&ar, place, room);
                    write!(out, "A {} {} {} {} {} {} => ", tid, pc(place), a16, d1.text(), d2.text(), hex(&cur)).unwrap();
                    out.flush().unwrap();
                    writeln!(out, "{}", exec_assign(t.as_ref(), &mut ar, place, &d1, &d2, &cur)).unwrap();
                }
            }
        }
    }
}

/// re-execute a recorded `E` / `F` / `A` left-hand side
pub fn exec_line(reg: &[Box<dyn TypeOps>], ar: &mut Arena, lhs: &str, out: &mut dyn Write) {
    let f: Vec<&str> = lhs.split(' ').collect();
    let tid: usize = f[1].parse().unwrap();
    let a16: usize = f[3].parse().unwrap();
    let t = reg[tid].as_ref();
    let sh = parse(t.desc());
    let pre = crate::unhex(f[f.len() - 1]);
    let place = match f[2] { "E" => Place::End, "S" => Place::Start, _ => Place::Mid((a16 + 16 - (ar.addr_mod(0, 16) + 256) % 16) % 16) };
    write!(out, "{} => ", lhs).unwrap();
    out.flush().unwrap();
    let r = match f[0] {
        "E" => { let ds = crate::parse_ds(&f[5..f.len() - 1].join(" ")); exec_new(t, &sh, ar, place, &ds[0], &pre) }
        "F" => exec_default(t, ar, place, &pre),
        "A" => { let ds = crate::parse_ds(&f[4..f.len() - 1].join(" ")); exec_assign(t, ar, place, &ds[0], &ds[1], &pre) }
        _ => unreachable!(),
    };
    writeln!(out, "{}", r).unwrap();
}
