//! Generic (type-independent) part of the correspondence harness.
#![allow(clippy::all)]
#![allow(dead_code)]
use flatty::{
    error::ErrorKind, flex, portable::{be, le, Bool}, prelude::*, string, vec, vec::Length, Emplacer, Error, FlatString, FlatVec,
    FlexVec,
};
use std::marker::PhantomData;

pub mod arena;
pub mod gen_types;
pub mod shape;
pub mod suite_bytes;
pub mod suite_emplace;
pub mod suite_ops;
pub mod suite_portable;
pub mod suite_io;
pub mod suite_io_gen;

// ---------------------------------------------------------------------------------------------
// PRNG, hex
// ---------------------------------------------------------------------------------------------
pub struct Rng(pub u64);
impl Rng {
    pub fn new(seed: u64) -> Self {
        // splitmix so that small seeds give different streams
        let mut z = seed.wrapping_add(0x9E3779B97F4A7C15);
        z = (z ^ (z >> 30)).wrapping_mul(0xBF58476D1CE4E5B9);
        z = (z ^ (z >> 27)).wrapping_mul(0x94D049BB133111EB);
        Rng((z ^ (z >> 31)) | 1)
    }
    pub fn next(&mut self) -> u64 {
        self.0 ^= self.0 << 13;
        self.0 ^= self.0 >> 7;
        self.0 ^= self.0 << 17;
        self.0
    }
    pub fn below(&mut self, n: u64) -> u64 {
        if n == 0 {
            0
        } else {
            (self.next() >> 11) % n
        }
    }
    pub fn chance(&mut self, num: u64, den: u64) -> bool {
        self.below(den) < num
    }
    pub fn bytes(&mut self, n: usize) -> Vec<u8> {
        (0..n).map(|_| (self.next() >> 24) as u8).collect()
    }
}
pub fn hex(b: &[u8]) -> String {
    if b.is_empty() {
        return "-".into();
    }
    let mut s = String::with_capacity(b.len() * 2);
    for x in b {
        s.push_str(&format!("{:02x}", x));
    }
    s
}
pub fn unhex(s: &str) -> Vec<u8> {
    if s == "-" {
        return vec![];
    }
    (0..s.len() / 2).map(|i| u8::from_str_radix(&s[2 * i..2 * i + 2], 16).unwrap()).collect()
}
pub fn kind_str(k: &ErrorKind) -> &'static str {
    match k {
        ErrorKind::InsufficientSize => "insufficientSize",
        ErrorKind::BadAlign => "badAlign",
        ErrorKind::InvalidEnumTag => "invalidEnumTag",
        ErrorKind::InvalidData => "invalidData",
        ErrorKind::Other => "other",
    }
}
pub fn err_str(e: &Error) -> String {
    format!("{}@{}", kind_str(&e.kind), e.pos)
}

// ---------------------------------------------------------------------------------------------
// Walk: deep read through the safe accessors, canonical rendering
// ---------------------------------------------------------------------------------------------
/// `caps`: whether capacities are rendered (content comparison ignores them).
pub trait Walk {
    fn walk(&self, out: &mut String, caps: bool);
    /// addresses of the top-level fields (of the active variant) relative to `base`; generated `#[flat]` items override this
    fn field_offsets(&self, _base: usize) -> Option<Vec<usize>> {
        None
    }
}
pub fn walk_str<T: Walk + ?Sized>(x: &T, caps: bool) -> String {
    let mut s = String::new();
    x.walk(&mut s, caps);
    s
}
fn hexraw(out: &mut String, b: &[u8]) {
    for x in b {
        out.push_str(&format!("{:02x}", x));
    }
}
macro_rules! walk_prim { ($($t:ty),*) => { $(impl Walk for $t { fn walk(&self, out: &mut String, _caps: bool) {
    out.push_str("r:"); hexraw(out, self.as_bytes());
} })* } }
walk_prim!(u8, u16, u32, u64, u128, usize, i8, i16, i32, i64, i128, isize, f32, f64);
walk_prim!(le::U16, le::U32, le::U64, le::I16, le::I32, le::I64, le::F32, le::F64);
walk_prim!(be::U16, be::U32, be::U64, be::I16, be::I32, be::I64, be::F32, be::F64);
impl Walk for () {
    fn walk(&self, out: &mut String, _caps: bool) {
        out.push_str("r:");
    }
}
impl Walk for Bool {
    fn walk(&self, out: &mut String, _caps: bool) {
        out.push_str(if bool::from(*self) { "b:1" } else { "b:0" });
    }
}
impl<T: Walk, const N: usize> Walk for [T; N] {
    fn walk(&self, out: &mut String, caps: bool) {
        out.push('[');
        for (i, x) in self.iter().enumerate() {
            if i > 0 {
                out.push(' ');
            }
            x.walk(out, caps);
        }
        out.push(']');
    }
}
impl<T: Flat + Walk, L: Flat + Length> Walk for FlatVec<T, L> {
    fn walk(&self, out: &mut String, caps: bool) {
        if caps {
            out.push_str(&format!("V{}[", self.capacity()));
        } else {
            out.push_str("V[");
        }
        if self.len() > self.capacity() {
            out.push_str("!OVER");
        }
        if std::mem::size_of::<T>() == 0 {
            // zero-sized elements carry no content: only their number is rendered
            out.push_str(&format!("*{}]", self.len()));
            return;
        }
        for (i, x) in self.as_slice().iter().enumerate() {
            if i > 0 {
                out.push(' ');
            }
            x.walk(out, caps);
        }
        out.push(']');
    }
}
impl<L: Flat + Length> Walk for FlatString<L> {
    fn walk(&self, out: &mut String, caps: bool) {
        if self.len() > self.capacity() {
            out.push_str("!OVER");
        }
        if caps {
            out.push_str(&format!("S{}:", self.capacity()));
        } else {
            out.push_str("S:");
        }
        hexraw(out, self.as_str().as_bytes());
    }
}
impl<T: Flat + Walk + ?Sized, L: Flat + Length> Walk for FlexVec<T, L> {
    fn walk(&self, out: &mut String, caps: bool) {
        out.push_str("F[");
        // `len()` and `is_empty()` agree with what the iterator yields
        let n = self.iter().count();
        if self.len() != n || self.is_empty() != (n == 0) {
            out.push_str("!LEN");
        }
        for (i, x) in self.iter().enumerate() {
            if i > 0 {
                out.push(' ');
            }
            x.walk(out, caps);
        }
        out.push(']');
    }
}

// ---------------------------------------------------------------------------------------------
// Dynamic initialisers driving the real emplacers
// ---------------------------------------------------------------------------------------------
#[derive(Clone, Debug, PartialEq)]
pub enum D {
    Raw(Vec<u8>),
    VecEmpty,
    VecArr(Vec<Vec<u8>>),
    VecIter(Vec<Vec<u8>>),
    StrFrom(Vec<u8>),
    FlexEmpty,
    FlexIter(Vec<D>),
    /// unsized struct: sized field images, last field
    Struct(Vec<Vec<u8>>, Box<D>),
    /// unsized enum: variant index, sized field images, optional unsized last field
    Enum(usize, Vec<Vec<u8>>, Option<Box<D>>),
    /// the library's default path (`default_emplacer()`, `push_default`, a send guard's `default_in_place`); the payload is the
    /// documented default written as an explicit initialiser (what the model runs and what the result is compared with)
    Def(Box<D>),
    /// a message built in place and then mutated through the send guard before it is sent (IO suites only):
    /// the initialiser, then the operations applied through `DerefMut`
    Edited(Box<D>, Vec<Op>),
}
impl D {
    /// the explicit initialiser: `Def` wrappers removed at every level (the abstract state of the operation histories)
    pub fn strip_def(&self) -> D {
        match self {
            D::Def(x) => x.strip_def(),
            D::Edited(x, ops) => D::Edited(Box::new(x.strip_def()), ops.clone()),
            D::FlexIter(v) => D::FlexIter(v.iter().map(|x| x.strip_def()).collect()),
            D::Struct(f, l) => D::Struct(f.clone(), Box::new(l.strip_def())),
            D::Enum(i, f, Some(l)) => D::Enum(*i, f.clone(), Some(Box::new(l.strip_def()))),
            other => other.clone(),
        }
    }
    pub fn text(&self) -> String {
        fn hs(v: &[Vec<u8>]) -> String {
            v.iter().map(|x| format!(" {}", hex(x))).collect()
        }
        match self {
            D::Raw(b) => format!("(raw {})", hex(b)),
            D::VecEmpty => "(ve)".into(),
            D::VecArr(v) => format!("(va{})", hs(v)),
            D::VecIter(v) => format!("(vi{})", hs(v)),
            D::StrFrom(b) => format!("(sf {})", hex(b)),
            D::FlexEmpty => "(fe)".into(),
            D::FlexIter(v) => format!("(fi{})", v.iter().map(|x| format!(" {}", x.text())).collect::<String>()),
            D::Struct(f, l) => format!("(us{} {})", hs(f), l.text()),
            D::Enum(i, f, None) => format!("(ue {}{})", i, hs(f)),
            D::Enum(i, f, Some(l)) => format!("(ue {}{} {})", i, hs(f), l.text()),
            D::Def(x) => format!("(def {})", x.text()),
            D::Edited(x, ops) => format!("{}{}", x.text(), ops.iter().map(|o| format!("~{}", o.text())).collect::<String>()),
        }
    }
}

/// Build a sized flat value from its byte image (only ever called with valid images).
pub fn from_raw<T: Flat + Sized>(b: &[u8]) -> T {
    assert_eq!(b.len(), std::mem::size_of::<T>(), "harness: raw image has the wrong size");
    unsafe { std::ptr::read_unaligned(b.as_ptr() as *const T) }
}

pub trait DynTarget: Flat {
    /// # Safety
    /// as `Emplacer::emplace_unchecked`
    unsafe fn dyn_emplace<'a>(d: &D, bytes: &'a mut [u8]) -> Result<&'a mut Self, Error>;
    /// `FlexVec::push_default`, for item types that have a default (`None`: the type has none)
    fn flex_push_default<L: Flat + Length>(_v: &mut FlexVec<Self, L>) -> Option<Result<(), Error>> {
        None
    }
    /// `UninitSendGuard::default_in_place` of the blocking sender (`Err(guard)`: the type has no default)
    fn send_default<'a, B: flatty_io::blocking::WriteBuffer>(
        g: flatty_io::blocking::UninitSendGuard<'a, Self, B>,
    ) -> Result<Result<flatty_io::blocking::SendGuard<'a, Self, B>, Error>, flatty_io::blocking::UninitSendGuard<'a, Self, B>> {
        Err(g)
    }
    /// the same for the async sender
    fn asend_default<'a, B: flatty_io::async_::AsyncWriteBuffer>(
        g: flatty_io::async_::UninitSendGuard<'a, Self, B>,
    ) -> Result<Result<flatty_io::async_::SendGuard<'a, Self, B>, Error>, flatty_io::async_::UninitSendGuard<'a, Self, B>> {
        Err(g)
    }
}
/// the three default hooks of `DynTarget` for a type that implements `FlatDefault` (pasted into its `impl DynTarget`)
#[macro_export]
macro_rules! default_hooks {
    () => {
        fn flex_push_default<L_: Flat + Length>(v: &mut FlexVec<Self, L_>) -> Option<Result<(), Error>> {
            Some(v.push_default().map(|_| ()))
        }
        fn send_default<'a_, B_: flatty_io::blocking::WriteBuffer>(
            g: flatty_io::blocking::UninitSendGuard<'a_, Self, B_>,
        ) -> Result<Result<flatty_io::blocking::SendGuard<'a_, Self, B_>, Error>, flatty_io::blocking::UninitSendGuard<'a_, Self, B_>> {
            Ok(g.default_in_place())
        }
        fn asend_default<'a_, B_: flatty_io::async_::AsyncWriteBuffer>(
            g: flatty_io::async_::UninitSendGuard<'a_, Self, B_>,
        ) -> Result<Result<flatty_io::async_::SendGuard<'a_, Self, B_>, Error>, flatty_io::async_::UninitSendGuard<'a_, Self, B_>> {
            Ok(g.default_in_place())
        }
    };
}
pub struct DE<'d, T: ?Sized>(pub &'d D, PhantomData<T>);
pub fn de<'d, T: ?Sized>(d: &'d D) -> DE<'d, T> {
    DE(d, PhantomData)
}
unsafe impl<'d, T: DynTarget + ?Sized> Emplacer<T> for DE<'d, T> {
    unsafe fn emplace_unchecked(self, bytes: &mut [u8]) -> Result<&mut T, Error> {
        T::dyn_emplace(self.0, bytes)
    }
}
pub trait DynDefault: Flat {
    unsafe fn dyn_default<'a>(bytes: &'a mut [u8]) -> Result<&'a mut Self, Error>;
}
impl<T: FlatDefault + ?Sized> DynDefault for T {
    unsafe fn dyn_default<'a>(bytes: &'a mut [u8]) -> Result<&'a mut Self, Error> {
        T::default_emplacer().emplace_unchecked(bytes)
    }
}

impl<T: Flat + Sized> DynTarget for T {
    unsafe fn dyn_emplace<'a>(d: &D, bytes: &'a mut [u8]) -> Result<&'a mut Self, Error> {
        match d {
            D::Raw(b) => from_raw::<T>(b).emplace_unchecked(bytes),
            _ => panic!("harness: bad initialiser for a sized type"),
        }
    }
}
macro_rules! from_array_n {
    ($v:expr, $bytes:expr, $T:ty, $($n:literal),*) => {
        match $v.len() {
            $($n => { let mut it = $v.iter(); let a: [$T; $n] = [(); $n].map(|_| from_raw::<$T>(it.next().unwrap())); vec::FromArray(a).emplace_unchecked($bytes) })*
            _ => panic!("harness: FromArray arity not supported"),
        }
    };
}
impl<T: Flat + Sized, L: Flat + Length> DynTarget for FlatVec<T, L> {
    default_hooks!();
    unsafe fn dyn_emplace<'a>(d: &D, bytes: &'a mut [u8]) -> Result<&'a mut Self, Error> {
        match d {
            D::VecEmpty => vec::Empty.emplace_unchecked(bytes),
            D::VecIter(v) => vec::FromIterator(v.iter().map(|x| from_raw::<T>(x))).emplace_unchecked(bytes),
            D::VecArr(v) => from_array_n!(v, bytes, T, 0, 1, 2, 3, 4, 5, 6, 7, 8, 9, 10, 11, 12),
            D::Def(_) => <Self as DynDefault>::dyn_default(bytes),
            _ => panic!("harness: bad initialiser for FlatVec"),
        }
    }
}
impl<L: Flat + Length> DynTarget for FlatString<L> {
    default_hooks!();
    unsafe fn dyn_emplace<'a>(d: &D, bytes: &'a mut [u8]) -> Result<&'a mut Self, Error> {
        match d {
            D::StrFrom(v) => string::FromStr(std::str::from_utf8(v).expect("harness: initialiser is not UTF-8")).emplace_unchecked(bytes),
            D::Def(_) => <Self as DynDefault>::dyn_default(bytes),
            _ => panic!("harness: bad initialiser for FlatString"),
        }
    }
}
impl<T: DynTarget + ?Sized, L: Flat + Length> DynTarget for FlexVec<T, L> {
    default_hooks!();
    unsafe fn dyn_emplace<'a>(d: &D, bytes: &'a mut [u8]) -> Result<&'a mut Self, Error> {
        match d {
            D::FlexEmpty => flex::Empty.emplace_unchecked(bytes),
            D::FlexIter(v) => flex::FromIterator::new(v.iter().map(|x| de::<T>(x))).emplace_unchecked(bytes),
            D::Def(_) => <Self as DynDefault>::dyn_default(bytes),
            _ => panic!("harness: bad initialiser for FlexVec"),
        }
    }
}

// ---------------------------------------------------------------------------------------------
// Object-safe per-type operations (one instance per catalog type)
// ---------------------------------------------------------------------------------------------
pub struct Probe {
    /// `Ok` → (as_bytes len, size_of_val, size(), walk with capacities, walk without)
    pub res: Result<(usize, usize, usize, String, String), Error>,
    /// offsets of the top-level fields as the compiler placed them
    pub offsets: Option<Vec<usize>>,
    /// start/end of the returned reference's bytes relative to the slice start (must be inside)
    pub range_ok: bool,
}
pub trait TypeOps: Sync {
    fn name(&self) -> &'static str;
    fn desc(&self) -> &'static str;
    fn align(&self) -> usize;
    fn min_size(&self) -> usize;
    fn has_default(&self) -> bool;
    fn flags(&self) -> &'static str;
    fn validate(&self, bytes: &[u8]) -> Result<(), Error>;
    fn probe(&self, bytes: &[u8]) -> Probe;
    fn probe_mut(&self, bytes: &mut [u8]) -> Probe;
    fn new_in_place(&self, bytes: &mut [u8], d: &D) -> Result<(), Error>;
    /// the same through `FlatWrap::new_in_place` over `&mut [u8]`; on `Ok`, `size()` read through the wrapper's `Deref`
    fn wrap_new_in_place(&self, bytes: &mut [u8], d: &D) -> Result<usize, Error>;
    /// `FlatWrap::from_wrapped_bytes` over the same bytes: `(size(), as_bytes().len())` seen through the wrapper
    fn wrap_probe(&self, bytes: &[u8]) -> Result<(usize, usize), Error>;
    /// `FlatWrap::default_in_place` (types with a default): `size()` seen through the wrapper
    fn wrap_default_in_place(&self, bytes: &mut [u8]) -> Option<Result<usize, Error>>;
    /// `from_mut_bytes` (must succeed) then `assign_in_place`
    fn assign_in_place(&self, bytes: &mut [u8], d: &D) -> Result<Result<(), Error>, Error>;
    fn default_in_place(&self, bytes: &mut [u8]) -> Option<Result<(), Error>>;
    /// `from_mut_bytes` (must succeed) then the operation
    fn edit(&self, bytes: &mut [u8], op: &Op) -> Result<String, Error>;
    fn io_send(&self, inits: &[D], max: usize, script: &[suite_io::Ev]) -> String;
    fn io_recv(&self, stream: &[u8], max: usize, script: &[suite_io::Ev], nrecv: usize) -> String;
    fn aio_send(&self, inits: &[D], max: usize, script: &[suite_io::Ev]) -> String;
    fn aio_recv(&self, stream: &[u8], max: usize, script: &[suite_io::Ev], nrecv: usize) -> String;
    fn aio_pair(&self, inits: &[D], max: usize, cap: usize, wchunk: usize, rchunk: usize, pend: &[bool], schedule: &str) -> String;
}
pub struct Ops<T: ?Sized> {
    pub name: &'static str,
    pub desc: &'static str,
    pub flags: &'static str,
    pub default: Option<unsafe fn(&mut [u8]) -> Result<(), Error>>,
    pub wrap_default: Option<fn(&mut [u8]) -> Result<usize, Error>>,
    /// the real `push_slice` / `resize` (they need `T: Clone`), for element types that are `Clone`
    pub clone_ops: Option<fn(&mut [u8], &Op) -> Option<String>>,
    pub _p: PhantomData<fn(&T)>,
}
fn probe_of<T: Flat + Walk + ?Sized>(v: &T, bytes: &[u8]) -> Probe {
    let ab = v.as_bytes();
    let sov = std::mem::size_of_val(v);
    let start = ab.as_ptr() as usize;
    let base = bytes.as_ptr() as usize;
    let range_ok = start == base && ab.len() <= bytes.len() && sov <= bytes.len();
    let z = v.size();
    Probe { res: Ok((ab.len(), sov, z, walk_str(v, true), walk_str(v, false))), range_ok, offsets: v.field_offsets(base) }
}
impl<T: Flat + Walk + DynTarget + Editable + ?Sized> TypeOps for Ops<T> {
    fn name(&self) -> &'static str {
        self.name
    }
    fn desc(&self) -> &'static str {
        self.desc
    }
    fn flags(&self) -> &'static str {
        self.flags
    }
    fn align(&self) -> usize {
        T::ALIGN
    }
    fn min_size(&self) -> usize {
        T::MIN_SIZE
    }
    fn has_default(&self) -> bool {
        self.default.is_some()
    }
    fn validate(&self, bytes: &[u8]) -> Result<(), Error> {
        T::validate(bytes)
    }
    fn probe(&self, bytes: &[u8]) -> Probe {
        match T::from_bytes(bytes) {
            Ok(v) => probe_of(v, bytes),
            Err(e) => Probe { res: Err(e), range_ok: true, offsets: None },
        }
    }
    fn probe_mut(&self, bytes: &mut [u8]) -> Probe {
        let copy: *const [u8] = bytes;
        match T::from_mut_bytes(bytes) {
            Ok(v) => probe_of(&*v, unsafe { &*copy }),
            Err(e) => Probe { res: Err(e), range_ok: true, offsets: None },
        }
    }
    fn new_in_place(&self, bytes: &mut [u8], d: &D) -> Result<(), Error> {
        T::new_in_place(bytes, de::<T>(d)).map(|_| ())
    }
    fn wrap_new_in_place(&self, bytes: &mut [u8], d: &D) -> Result<usize, Error> {
        let n = bytes.len();
        let mut w = flatty::FlatWrap::<T, &mut [u8]>::new_in_place(bytes, de::<T>(d))?;
        let z = w.size();
        // the same value through `DerefMut`, and the pointer comes back unchanged
        let z2 = { let m: &mut T = &mut *w; m.size() };
        let back = w.into_inner();
        Ok(if z2 == z && back.len() == n { z } else { usize::MAX })
    }
    fn wrap_probe(&self, bytes: &[u8]) -> Result<(usize, usize), Error> {
        let w = flatty::FlatWrap::<T, &[u8]>::from_wrapped_bytes(bytes)?;
        Ok((w.size(), w.as_bytes().len()))
    }
    fn wrap_default_in_place(&self, bytes: &mut [u8]) -> Option<Result<usize, Error>> {
        let f = self.wrap_default?;
        Some(f(bytes))
    }
    fn assign_in_place(&self, bytes: &mut [u8], d: &D) -> Result<Result<(), Error>, Error> {
        let v = T::from_mut_bytes(bytes)?;
        Ok(v.assign_in_place(de::<T>(d)).map(|_| ()))
    }
    fn io_send(&self, inits: &[D], max: usize, script: &[suite_io::Ev]) -> String { suite_io::io_send::<T>(inits, max, script) }
    fn io_recv(&self, stream: &[u8], max: usize, script: &[suite_io::Ev], nrecv: usize) -> String { suite_io::io_recv::<T>(stream, max, script, nrecv) }
    fn aio_send(&self, inits: &[D], max: usize, script: &[suite_io::Ev]) -> String { suite_io::aio_send::<T>(inits, max, script) }
    fn aio_recv(&self, stream: &[u8], max: usize, script: &[suite_io::Ev], nrecv: usize) -> String { suite_io::aio_recv::<T>(stream, max, script, nrecv) }
    fn aio_pair(&self, inits: &[D], max: usize, cap: usize, wchunk: usize, rchunk: usize, pend: &[bool], schedule: &str) -> String { suite_io::aio_pair::<T>(inits, max, cap, wchunk, rchunk, pend, schedule) }
    fn edit(&self, bytes: &mut [u8], op: &Op) -> Result<String, Error> {
        if let (Some(f), Op::PushSlice(_) | Op::Resize(..)) = (self.clone_ops, op) {
            T::validate(bytes)?;
            return Ok(f(bytes, op).expect("harness: clone op"));
        }
        let copy: *const [u8] = bytes;
        let v = T::from_mut_bytes(bytes)?;
        let r = v.edit(op);
        // C05 on the live value: the first `size()` bytes alone map again, with the same `size()`
        let z = v.size();
        let all = unsafe { &*copy };
        let ok = z <= all.len() && matches!(T::from_bytes(&all[..z]), Ok(w) if w.size() == z);
        if !ok { SIZE_PREFIX_DIFF.with(|c| c.set(true)); }
        Ok(r)
    }
    fn default_in_place(&self, bytes: &mut [u8]) -> Option<Result<(), Error>> {
        let f = self.default?;
        Some(unsafe { f(bytes) })
    }
}
pub fn wrap_default_fn<T: FlatDefault + ?Sized>(bytes: &mut [u8]) -> Result<usize, Error> {
    let w = flatty::FlatWrap::<T, &mut [u8]>::default_in_place(bytes)?;
    Ok(w.size())
}
thread_local! { pub static SIZE_PREFIX_DIFF: std::cell::Cell<bool> = std::cell::Cell::new(false); }
pub unsafe fn default_fn<T: FlatDefault + ?Sized>(bytes: &mut [u8]) -> Result<(), Error> {
    T::default_in_place(bytes).map(|_| ())
}

/// run `f`, mapping a panic to `None`
pub fn guarded<R>(f: impl FnOnce() -> R) -> Option<R> {
    std::panic::catch_unwind(std::panic::AssertUnwindSafe(f)).ok()
}

// ---------------------------------------------------------------------------------------------
// parsing initialisers back (replay, corpus)
// ---------------------------------------------------------------------------------------------
fn d_tokens(s: &str) -> Vec<String> {
    let mut out = vec![];
    let mut cur = String::new();
    for c in s.chars() {
        match c {
            '(' | ')' => {
                if !cur.is_empty() {
                    out.push(std::mem::take(&mut cur));
                }
                out.push(c.to_string());
            }
            ' ' => {
                if !cur.is_empty() {
                    out.push(std::mem::take(&mut cur));
                }
            }
            _ => cur.push(c),
        }
    }
    if !cur.is_empty() {
        out.push(cur);
    }
    out
}
fn take_hexes(t: &[String], i: &mut usize) -> Vec<Vec<u8>> {
    let mut v = vec![];
    while t[*i] != "(" && t[*i] != ")" {
        v.push(unhex(&t[*i]));
        *i += 1;
    }
    v
}
fn parse_d_at(t: &[String], i: &mut usize) -> D {
    assert_eq!(t[*i], "(");
    let head = t[*i + 1].clone();
    *i += 2;
    let d = match head.as_str() {
        "raw" => { let b = unhex(&t[*i]); *i += 1; D::Raw(b) }
        "ve" => D::VecEmpty,
        "va" => D::VecArr(take_hexes(t, i)),
        "vi" => D::VecIter(take_hexes(t, i)),
        "sf" => { let b = unhex(&t[*i]); *i += 1; D::StrFrom(b) }
        "fe" => D::FlexEmpty,
        "fi" => { let mut v = vec![]; while t[*i] != ")" { v.push(parse_d_at(t, i)); } D::FlexIter(v) }
        "us" => { let f = take_hexes(t, i); let l = parse_d_at(t, i); D::Struct(f, Box::new(l)) }
        "ue" => {
            let idx: usize = t[*i].parse().unwrap();
            *i += 1;
            let f = take_hexes(t, i);
            if t[*i] == ")" { D::Enum(idx, f, None) } else { let l = parse_d_at(t, i); D::Enum(idx, f, Some(Box::new(l))) }
        }
        "def" => { let x = parse_d_at(t, i); D::Def(Box::new(x)) }
        h => panic!("bad initialiser head {h}"),
    };
    assert_eq!(t[*i], ")");
    *i += 1;
    d
}
/// parse one or more initialisers from a text
pub fn parse_ds(s: &str) -> Vec<D> {
    let t = d_tokens(s);
    let mut i = 0;
    let mut out = vec![];
    while i < t.len() {
        out.push(parse_d_at(&t, &mut i));
    }
    out
}

/// the message list of an `S` / `AS` / `AP` line: messages separated by `|`, each an initialiser optionally followed by `~op` edits
pub fn parse_msgs(s: &str) -> Vec<D> {
    s.split('|').filter(|m| !m.trim().is_empty()).map(|m| {
        let mut parts = m.split('~');
        let init = parse_ds(parts.next().unwrap()).remove(0);
        let ops: Vec<Op> = parts.map(|o| Op::parse(o.trim())).collect();
        if ops.is_empty() { init } else { D::Edited(Box::new(init), ops) }
    }).collect()
}

// ---------------------------------------------------------------------------------------------
// container operations addressed at a mapped value (C11–C14)
// ---------------------------------------------------------------------------------------------
#[derive(Clone, Debug, PartialEq)]
pub enum Op {
    Push(Vec<u8>), Pop, PushSlice(Vec<Vec<u8>>), Extend(Vec<Vec<u8>>), Truncate(usize), Clear, Remove(usize), SwapRemove(usize),
    Resize(usize, Vec<u8>), Set(usize, Vec<u8>), PushChar(u32), PushStr(Vec<u8>),
    FPush(D), FPop, FTruncate(usize), FClear, Item(usize, Box<Op>), Assign(D),
    /// write the image of sized field `.1` (of variant `.0` of an unsized enum; 0 for a struct) through the mutable accessor
    SetField(usize, usize, Vec<u8>),
    /// an operation on the unsized last field of a struct (`msg.tail.push(..)`)
    Last(Box<Op>),
}
impl Op {
    pub fn text(&self) -> String {
        fn hs(v: &[Vec<u8>]) -> String { v.iter().map(|x| format!(" {}", hex(x))).collect() }
        match self {
            Op::Push(x) => format!("push {}", hex(x)), Op::Pop => "pop".into(), Op::PushSlice(v) => format!("pushslice{}", hs(v)),
            Op::Extend(v) => format!("extend{}", hs(v)), Op::Truncate(n) => format!("trunc {}", n), Op::Clear => "clear".into(),
            Op::Remove(i) => format!("remove {}", i), Op::SwapRemove(i) => format!("swaprm {}", i), Op::Resize(n, x) => format!("resize {} {}", n, hex(x)),
            Op::Set(i, x) => format!("set {} {}", i, hex(x)), Op::PushChar(c) => format!("pushc {}", c), Op::PushStr(b) => format!("pushstr {}", hex(b)),
            Op::FPush(d) => format!("fpush {}", d.text()), Op::FPop => "fpop".into(), Op::FTruncate(n) => format!("ftrunc {}", n), Op::FClear => "fclear".into(),
            Op::Item(i, o) => format!("item {} {}", i, o.text()), Op::Assign(d) => format!("assign {}", d.text()),
            Op::SetField(v, i, x) => format!("setfield {} {} {}", v, i, hex(x)),
            Op::Last(o) => format!("last {}", o.text()),
        }
    }
    pub fn parse(s: &str) -> Op {
        let f: Vec<&str> = s.split(' ').collect();
        let hexes = |from: usize| -> Vec<Vec<u8>> { f[from..].iter().map(|x| unhex(x)).collect() };
        match f[0] {
            "push" => Op::Push(unhex(f[1])), "pop" => Op::Pop, "pushslice" => Op::PushSlice(hexes(1)), "extend" => Op::Extend(hexes(1)),
            "trunc" => Op::Truncate(f[1].parse().unwrap()), "clear" => Op::Clear, "remove" => Op::Remove(f[1].parse().unwrap()),
            "swaprm" => Op::SwapRemove(f[1].parse().unwrap()), "resize" => Op::Resize(f[1].parse().unwrap(), unhex(f[2])),
            "set" => Op::Set(f[1].parse().unwrap(), unhex(f[2])), "pushc" => Op::PushChar(f[1].parse().unwrap()), "pushstr" => Op::PushStr(unhex(f[1])),
            "fpush" => Op::FPush(parse_ds(&f[1..].join(" ")).remove(0)), "fpop" => Op::FPop, "ftrunc" => Op::FTruncate(f[1].parse().unwrap()), "fclear" => Op::FClear,
            "item" => Op::Item(f[1].parse().unwrap(), Box::new(Op::parse(&f[2..].join(" ")))), "assign" => Op::Assign(parse_ds(&f[1..].join(" ")).remove(0)),
            "setfield" => Op::SetField(f[1].parse().unwrap(), f[2].parse().unwrap(), unhex(f[3])),
            "last" => Op::Last(Box::new(Op::parse(&f[1..].join(" ")))),
            h => panic!("bad op {h}"),
        }
    }
}
pub trait Editable: DynTarget {
    /// apply an operation to the mapped value; the default knows only `assign_in_place`
    fn edit(&mut self, op: &Op) -> String {
        match op {
            Op::Assign(d) => match self.assign_in_place(de::<Self>(d)) { Ok(_) => "ok".into(), Err(e) => format!("err:{}", err_str(&e)) },
            _ => panic!("harness: operation not applicable to this type"),
        }
    }
}
impl<T: Flat + Sized> Editable for T {}
fn full(r: bool) -> String { if r { "ok".into() } else { "full".into() } }
impl<T: Flat + Sized + Walk, L: Flat + Length> Editable for FlatVec<T, L> {
    fn edit(&mut self, op: &Op) -> String {
        // elements are handled as raw images; `Clone`-requiring methods are driven through byte-wise copies of valid images
        match op {
            Op::Push(x) => full(self.push(from_raw::<T>(x)).is_ok()),
            Op::Pop => match self.pop() { Some(v) => format!("some:{}", walk_str(&v, false).replace(' ', "_")), None => "none".into() },
            Op::PushSlice(v) => {
                // `push_slice` needs `T: Clone`; flat types are trivially copyable, so the same contract is exercised through
                // `extend_until_full` after the same capacity test that `push_slice` makes
                if v.len() > self.remaining() { "full".into() } else { self.extend_until_full(v.iter().map(|x| from_raw::<T>(x))); "ok".into() }
            }
            Op::Extend(v) => { self.extend_until_full(v.iter().map(|x| from_raw::<T>(x))); "ok".into() }
            Op::Truncate(n) => { self.truncate(*n); "ok".into() }
            Op::Clear => { self.clear(); "ok".into() }
            Op::Remove(i) => walk_str(&self.remove(*i), false).replace(' ', "_"),
            Op::SwapRemove(i) => walk_str(&self.swap_remove(*i), false).replace(' ', "_"),
            Op::Set(i, x) => { self.as_mut_slice()[*i] = from_raw::<T>(x); "ok".into() }
            // `resize` needs `T: Clone`; for element types that are not, the same contract is driven through truncate / extend
            Op::Resize(n, x) => {
                if *n <= self.len() { self.truncate(*n); } else { assert!(*n <= self.capacity()); let k = *n - self.len(); self.extend_until_full((0..k).map(|_| from_raw::<T>(x))); }
                "ok".into()
            }
            Op::Assign(d) => match self.assign_in_place(de::<Self>(d)) { Ok(_) => "ok".into(), Err(e) => format!("err:{}", err_str(&e)) },
            _ => panic!("harness: operation not applicable to FlatVec"),
        }
    }
}
impl<L: Flat + Length> Editable for FlatString<L> {
    fn edit(&mut self, op: &Op) -> String {
        match op {
            Op::PushChar(c) => full(self.push(char::from_u32(*c).expect("harness: bad char")).is_ok()),
            Op::PushStr(b) => full(self.push_str(std::str::from_utf8(b).expect("harness: bad str")).is_ok()),
            Op::Clear => { self.clear(); "ok".into() }
            Op::Assign(d) => match self.assign_in_place(de::<Self>(d)) { Ok(_) => "ok".into(), Err(e) => format!("err:{}", err_str(&e)) },
            _ => panic!("harness: operation not applicable to FlatString"),
        }
    }
}
impl<T: Editable + ?Sized, L: Flat + Length> Editable for FlexVec<T, L> {
    fn edit(&mut self, op: &Op) -> String {
        match op {
            Op::FPush(D::Def(_)) => match T::flex_push_default(self).expect("harness: push_default on an item type without a default") { Ok(()) => "ok".into(), Err(e) => format!("err:{}", err_str(&e)) },
            Op::FPush(d) => match self.push(de::<T>(d)) { Ok(_) => "ok".into(), Err(e) => format!("err:{}", err_str(&e)) },
            Op::FPop => match self.pop() { Ok(()) => "ok".into(), Err(_) => "empty".into() },
            Op::FTruncate(n) => { self.truncate(*n); "ok".into() }
            Op::FClear => { self.clear(); "ok".into() }
            Op::Item(i, o) => match self.iter_mut().nth(*i) { Some(x) => x.edit(o), None => "noitem".into() },
            Op::Assign(d) => match self.assign_in_place(de::<Self>(d)) { Ok(_) => "ok".into(), Err(e) => format!("err:{}", err_str(&e)) },
            _ => panic!("harness: operation not applicable to FlexVec"),
        }
    }
}

pub fn vec_clone_ops<T: Flat + Sized + Clone, L: Flat + Length>(bytes: &mut [u8], op: &Op) -> Option<String> {
    let v = FlatVec::<T, L>::from_mut_bytes(bytes).ok()?;
    match op {
        Op::PushSlice(xs) => {
            let items: Vec<T> = xs.iter().map(|x| from_raw::<T>(x)).collect();
            Some(full(v.push_slice(&items).is_ok()))
        }
        Op::Resize(n, x) => { v.resize(*n, from_raw::<T>(x)); Some("ok".into()) }
        _ => None,
    }
}
