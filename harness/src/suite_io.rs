//! IO suites: the real blocking and async `Sender` / `Receiver` over scripted pipes.
//!  `S <tid> <max> <wscript> <init>|<init>… => <res>,<res>… sink=<hex> calls=<n>`             blocking sender
//!  `R <tid> <max> <rscript> <nrecv> <stream> => <out>,<out>… reads=<n>`                       blocking receiver
//!  `AS` / `AR`: the same for the async pair; script entries may be `p` (= `Poll::Pending`); an `AS` script covers
//!   `poll_write` and `poll_flush` calls in the order they are made; the task is polled again after every `Pending`
//!  `AP <tid> <max> <pipecap> <wchunk> <rchunk> <pend-script> <schedule> <init>|… => sent=<n> got=<out>,… done=<0|1><0|1> stuck=<0|1>`
//!   async pair over a bounded in-memory pipe, polled by an explicit schedule and only when woken
use crate::{de, err_str, guarded, hex, walk_str, DynTarget, Editable, Op, Walk, D};
use flatty::prelude::*;
use flatty_io::{AsyncReceiver, AsyncSender, Receiver, RecvError, Sender};
use futures::io::{AsyncRead, AsyncWrite};
use std::{
    cell::RefCell,
    collections::VecDeque,
    future::Future,
    io,
    pin::Pin,
    rc::Rc,
    sync::{
        atomic::{AtomicBool, Ordering},
        Arc,
    },
    task::{Context, Poll, Wake, Waker},
};

// ---- scripts -----------------------------------------------------------------------------------
#[derive(Clone, Copy, Debug, PartialEq)]
pub enum Ev {
    N(usize),
    Zero,
    /// the call fails with the `k`-th `io::ErrorKind` of `KINDS`
    Fail(u8),
    Pending,
}
/// the error kinds a scripted pipe call can fail with (`f<k>` in a script; `f` = `f0`). The last one is not used for reads: the
/// library reports its own buffer exhaustion as `OutOfMemory`, and the harness tells the two apart by the kind.
pub const KINDS: [io::ErrorKind; 11] = [
    io::ErrorKind::ConnectionReset, io::ErrorKind::Interrupted, io::ErrorKind::WouldBlock, io::ErrorKind::TimedOut, io::ErrorKind::BrokenPipe,
    io::ErrorKind::WriteZero, io::ErrorKind::UnexpectedEof, io::ErrorKind::Other, io::ErrorKind::NotConnected, io::ErrorKind::PermissionDenied,
    io::ErrorKind::OutOfMemory,
];
pub const N_WRITE_KINDS: u64 = 11;
pub const N_READ_KINDS: u64 = 10;
pub fn script_text(s: &[Ev]) -> String {
    if s.is_empty() {
        return "-".into();
    }
    s.iter()
        .map(|e| match e {
            Ev::N(n) => format!("{}", n),
            Ev::Zero => "z".into(),
            Ev::Fail(0) => "f".into(),
            Ev::Fail(k) => format!("f{}", k),
            Ev::Pending => "p".into(),
        })
        .collect::<Vec<_>>()
        .join(",")
}
pub fn parse_script(s: &str) -> Vec<Ev> {
    if s == "-" {
        return vec![];
    }
    s.split(',')
        .map(|t| match t {
            "z" => Ev::Zero,
            "f" => Ev::Fail(0),
            "p" => Ev::Pending,
            f if f.starts_with('f') => Ev::Fail(f[1..].parse().unwrap()),
            n => Ev::N(n.parse().unwrap()),
        })
        .collect()
}
pub const CALL_BUDGET: usize = 3000;

#[derive(Default)]
pub struct WState {
    script: VecDeque<Ev>,
    sink: Vec<u8>,
    calls: usize,
    flushes: usize,
    /// bytes in the sink when the last flush returned Ok
    flushed_upto: usize,
}
#[derive(Clone)]
struct ScriptWrite(Rc<RefCell<WState>>);
impl WState {
    fn write(&mut self, buf: &[u8]) -> Poll<io::Result<usize>> {
        self.calls += 1;
        if self.calls > CALL_BUDGET {
            panic!("call budget exhausted: the sender keeps retrying");
        }
        match self.script.pop_front() {
            Some(Ev::Zero) => Poll::Ready(Ok(0)),
            Some(Ev::Fail(k)) => Poll::Ready(Err(KINDS[k as usize].into())),
            Some(Ev::N(n)) => {
                let k = n.min(buf.len());
                self.sink.extend_from_slice(&buf[..k]);
                Poll::Ready(Ok(k))
            }
            Some(Ev::Pending) => Poll::Pending,
            None => {
                self.sink.extend_from_slice(buf);
                Poll::Ready(Ok(buf.len()))
            }
        }
    }
    fn flush(&mut self) -> Poll<io::Result<()>> {
        self.calls += 1;
        self.flushes += 1;
        if self.calls > CALL_BUDGET {
            panic!("call budget exhausted: the sender keeps flushing");
        }
        match self.script.pop_front() {
            Some(Ev::Pending) => Poll::Pending,
            Some(Ev::Fail(k)) => Poll::Ready(Err(KINDS[k as usize].into())),
            _ => {
                self.flushed_upto = self.sink.len();
                Poll::Ready(Ok(()))
            }
        }
    }
}
impl io::Write for ScriptWrite {
    fn write(&mut self, buf: &[u8]) -> io::Result<usize> {
        match self.0.borrow_mut().write(buf) {
            Poll::Ready(r) => r,
            Poll::Pending => Err(io::ErrorKind::WouldBlock.into()),
        }
    }
    fn flush(&mut self) -> io::Result<()> {
        Ok(())
    }
}
impl AsyncWrite for ScriptWrite {
    fn poll_write(self: Pin<&mut Self>, cx: &mut Context<'_>, buf: &[u8]) -> Poll<io::Result<usize>> {
        let r = self.0.borrow_mut().write(buf);
        if r.is_pending() {
            cx.waker().wake_by_ref();
        }
        r
    }
    fn poll_flush(self: Pin<&mut Self>, cx: &mut Context<'_>) -> Poll<io::Result<()>> {
        let r = self.0.borrow_mut().flush();
        if r.is_pending() {
            cx.waker().wake_by_ref();
        }
        r
    }
    fn poll_close(self: Pin<&mut Self>, _cx: &mut Context<'_>) -> Poll<io::Result<()>> {
        Poll::Ready(Ok(()))
    }
}
#[derive(Default)]
pub struct RState {
    script: VecDeque<Ev>,
    data: Vec<u8>,
    pos: usize,
    calls: usize,
}
#[derive(Clone)]
struct ScriptRead(Rc<RefCell<RState>>);
impl RState {
    fn read(&mut self, buf: &mut [u8]) -> Poll<io::Result<usize>> {
        self.calls += 1;
        if self.calls > CALL_BUDGET {
            panic!("call budget exhausted: the receiver keeps reading");
        }
        let want = match self.script.pop_front() {
            Some(Ev::Fail(k)) => return Poll::Ready(Err(KINDS[k as usize].into())),
            Some(Ev::Pending) => return Poll::Pending,
            Some(Ev::Zero) => 0,
            Some(Ev::N(n)) => n,
            None => usize::MAX,
        };
        let n = want.min(buf.len()).min(self.data.len() - self.pos);
        buf[..n].copy_from_slice(&self.data[self.pos..self.pos + n]);
        self.pos += n;
        Poll::Ready(Ok(n))
    }
}
impl io::Read for ScriptRead {
    fn read(&mut self, buf: &mut [u8]) -> io::Result<usize> {
        match self.0.borrow_mut().read(buf) {
            Poll::Ready(r) => r,
            Poll::Pending => Err(io::ErrorKind::WouldBlock.into()),
        }
    }
}
impl AsyncRead for ScriptRead {
    fn poll_read(self: Pin<&mut Self>, cx: &mut Context<'_>, buf: &mut [u8]) -> Poll<io::Result<usize>> {
        let r = self.0.borrow_mut().read(buf);
        if r.is_pending() {
            cx.waker().wake_by_ref();
        }
        r
    }
}

fn recv_out(r: Result<(usize, String), RecvError<io::Error>>) -> String {
    match r {
        Ok((z, w)) => format!("msg:{}:{}", z, w.replace(' ', "_")),
        Err(RecvError::Closed) => "closed".into(),
        Err(RecvError::Parse(e)) => format!("parse:{}", err_str(&e)),
        Err(RecvError::Read(e)) => {
            if e.kind() == io::ErrorKind::OutOfMemory {
                "oom".into()
            } else {
                format!("read:{:?}", e.kind())
            }
        }
    }
}
fn send_res(one: Option<Result<(), String>>) -> String {
    match one {
        None => "PANIC".to_string(),
        Some(Ok(())) => "ok".into(),
        Some(Err(s)) => s,
    }
}

// ---- blocking -----------------------------------------------------------------------------------
pub fn io_send<T: Flat + DynTarget + Editable + ?Sized>(inits: &[D], max: usize, script: &[Ev]) -> String {
    let st = Rc::new(RefCell::new(WState { script: script.iter().cloned().collect(), ..Default::default() }));
    let mut tx = Sender::<T, _>::io(ScriptWrite(st.clone()), max);
    let mut res = vec![];
    for d in inits {
        let one = guarded(|| {
            let mut g = tx.alloc().map_err(|e| format!("allocerr:{:?}", e.kind()))?;
            // the uninitialised guard exposes the whole send buffer, the same through both accessors
            let (n1, n2) = (g.as_bytes().len(), g.as_mut_bytes().len());
            if n1 != n2 || n1 < max.max(T::MIN_SIZE) { return Err(format!("GUARD-DIFF:uninit:{}:{}", n1, n2)); }
            let (d, edits): (&D, &[Op]) = match d { D::Edited(x, ops) => (x, ops), other => (other, &[]) };
            let mut g = match d {
                // the library's own default path: `UninitSendGuard::default_in_place`
                D::Def(_) => match T::send_default(g) { Ok(r) => r, Err(_) => panic!("harness: default message of a type without a default") },
                _ => g.new_in_place(de::<T>(d)),
            }.map_err(|e| format!("emplace:{}", err_str(&e)))?;
            // the message is then mutated in place through the guard's `DerefMut`, as a user builds a message
            for op in edits { let m: &mut T = &mut *g; let _ = m.edit(op); }
            // the message seen through `Deref` and `DerefMut` is the same value
            let z1 = g.size();
            let z2 = { let m: &mut T = &mut *g; m.size() };
            if z1 != z2 { return Err(format!("GUARD-DIFF:init:{}:{}", z1, z2)); }
            g.send().map_err(|e| format!("err:{:?}", e.kind()))
        });
        res.push(send_res(one));
    }
    let s = st.borrow();
    format!("{} sink={} calls={}", if res.is_empty() { "-".to_string() } else { res.join(",") }, hex(&s.sink), s.calls)
}
pub fn io_recv<T: Flat + Walk + ?Sized>(stream: &[u8], max: usize, script: &[Ev], nrecv: usize) -> String {
    let st = Rc::new(RefCell::new(RState { script: script.iter().cloned().collect(), data: stream.to_vec(), ..Default::default() }));
    let mut rx = Receiver::<T, _>::io(ScriptRead(st.clone()), max);
    let mut outs = vec![];
    let mut retained = false;
    for _ in 0..nrecv {
        let one = guarded(|| {
            if !retained {
                // once per case: `retain()` the first guard instead of dropping it; the same message must come again, at once
                retained = true;
                let before = st.borrow().calls;
                let first = match rx.recv() {
                    Ok(g) => {
                        let f = (g.size(), walk_str(&*g, false));
                        g.retain();
                        Ok(f)
                    }
                    Err(e) => Err(e),
                };
                match first {
                    Ok(first) => {
                        let mid = st.borrow().calls;
                        let again = rx.recv().map(|g| (g.size(), walk_str(&*g, false)));
                        let after = st.borrow().calls;
                        return match again {
                            Ok(x) if x == first && after == mid => recv_out(Ok(x)),
                            other => format!("RETAIN-DIFF:{}:{}:{}:{}", before, mid, after, recv_out(other)),
                        };
                        // the second guard is dropped here: `skip(size())`
                    }
                    Err(e) => return recv_out(Err(e)),
                }
            }
            let r = rx.recv().map(|g| (g.size(), walk_str(&*g, false)));
            recv_out(r)
            // the guard is dropped here: `skip(size())`
        });
        let o = one.unwrap_or_else(|| "PANIC".into());
        let stop = o == "closed" || o == "PANIC" || o.starts_with("parse") || o == "oom";
        outs.push(o);
        if stop {
            break;
        }
    }
    format!("{} reads={}", outs.join(","), st.borrow().calls)
}

// ---- async, one task against a script -------------------------------------------------------------
struct Flag(AtomicBool);
impl Wake for Flag {
    fn wake(self: Arc<Self>) {
        self.0.store(true, Ordering::SeqCst);
    }
    fn wake_by_ref(self: &Arc<Self>) {
        self.0.store(true, Ordering::SeqCst);
    }
}
/// poll a future to completion, re-polling only when it has been woken; `None` = not woken (lost wake-up) or budget exhausted
fn run_woken<F: Future>(mut fut: Pin<&mut F>, polls: &mut usize) -> Option<F::Output> {
    let flag = Arc::new(Flag(AtomicBool::new(true)));
    let waker = Waker::from(flag.clone());
    let mut cx = Context::from_waker(&waker);
    loop {
        if !flag.0.swap(false, Ordering::SeqCst) {
            return None;
        }
        *polls += 1;
        if *polls > 4 * CALL_BUDGET {
            return None;
        }
        if let Poll::Ready(x) = fut.as_mut().poll(&mut cx) {
            return Some(x);
        }
    }
}
pub fn aio_send<T: Flat + DynTarget + Editable + ?Sized>(inits: &[D], max: usize, script: &[Ev]) -> String {
    let st = Rc::new(RefCell::new(WState { script: script.iter().cloned().collect(), ..Default::default() }));
    let mut tx = AsyncSender::<T, _>::io(ScriptWrite(st.clone()), max);
    let mut res = vec![];
    let mut polls = 0usize;
    let mut flushed_ok = true;
    for d in inits {
        let before_flushes = st.borrow().flushes;
        let one = guarded(|| {
            let fut = async {
                let mut g = tx.alloc().await.map_err(|e| format!("allocerr:{:?}", e.kind()))?;
                let (n1, n2) = (g.as_bytes().len(), g.as_mut_bytes().len());
                if n1 != n2 || n1 < max.max(T::MIN_SIZE) { return Err(format!("GUARD-DIFF:uninit:{}:{}", n1, n2)); }
                let (d, edits): (&D, &[Op]) = match d { D::Edited(x, ops) => (x, ops), other => (other, &[]) };
                let mut g = match d {
                    D::Def(_) => match T::asend_default(g) { Ok(r) => r, Err(_) => panic!("harness: default message of a type without a default") },
                    _ => g.new_in_place(de::<T>(d)),
                }.map_err(|e| format!("emplace:{}", err_str(&e)))?;
                for op in edits { let m: &mut T = &mut *g; let _ = m.edit(op); }
                let z1 = g.size();
                let z2 = { let m: &mut T = &mut *g; m.size() };
                if z1 != z2 { return Err(format!("GUARD-DIFF:init:{}:{}", z1, z2)); }
                g.send().await.map_err(|e| format!("err:{:?}", e.kind()))
            };
            let mut fut = Box::pin(fut);
            match run_woken(fut.as_mut(), &mut polls) {
                Some(r) => r,
                None => Err("STUCK".to_string()),
            }
        });
        if let Some(Ok(())) = &one {
            // when a send completes all bytes have been handed over and the pipe has been flushed after the last of them
            let s = st.borrow();
            if s.flushes == before_flushes || s.flushed_upto != s.sink.len() {
                flushed_ok = false;
            }
        }
        res.push(send_res(one));
    }
    let s = st.borrow();
    format!("{} sink={} calls={} flushed={}", if res.is_empty() { "-".to_string() } else { res.join(",") }, hex(&s.sink), s.calls, if flushed_ok { 1 } else { 0 })
}
pub fn aio_recv<T: Flat + Walk + ?Sized>(stream: &[u8], max: usize, script: &[Ev], nrecv: usize) -> String {
    let st = Rc::new(RefCell::new(RState { script: script.iter().cloned().collect(), data: stream.to_vec(), ..Default::default() }));
    let mut rx = AsyncReceiver::<T, _>::io(ScriptRead(st.clone()), max);
    let mut outs = vec![];
    let mut polls = 0usize;
    let mut retained = false;
    for _ in 0..nrecv {
        let one = guarded(|| {
            if !retained {
                // once per case: `retain()` the first guard; the next `recv` must yield the same message without a read
                retained = true;
                let first = {
                    let fut = async {
                        match rx.recv().await {
                            Ok(g) => { let f = (g.size(), walk_str(&*g, false)); g.retain(); Ok(f) }
                            Err(e) => Err(e),
                        }
                    };
                    let mut fut = Box::pin(fut);
                    match run_woken(fut.as_mut(), &mut polls) { Some(r) => r, None => return "STUCK".to_string() }
                };
                return match first {
                    Err(e) => recv_out(Err(e)),
                    Ok(first) => {
                        let mid = st.borrow().calls;
                        let fut = async { rx.recv().await.map(|g| (g.size(), walk_str(&*g, false))) };
                        let mut fut = Box::pin(fut);
                        let again = match run_woken(fut.as_mut(), &mut polls) { Some(r) => r, None => return "STUCK".to_string() };
                        let after = st.borrow().calls;
                        match again {
                            Ok(x) if x == first && after == mid => recv_out(Ok(x)),
                            other => format!("RETAIN-DIFF:{}:{}:{}", mid, after, recv_out(other)),
                        }
                    }
                };
            }
            let fut = async { recv_out(rx.recv().await.map(|g| (g.size(), walk_str(&*g, false)))) };
            let mut fut = Box::pin(fut);
            run_woken(fut.as_mut(), &mut polls).unwrap_or_else(|| "STUCK".into())
        });
        let o = one.unwrap_or_else(|| "PANIC".into());
        let stop = o == "closed" || o == "PANIC" || o.starts_with("parse") || o == "oom" || o == "STUCK";
        outs.push(o);
        if stop {
            break;
        }
    }
    format!("{} reads={}", outs.join(","), st.borrow().calls)
}

// ---- async pair over a bounded pipe ---------------------------------------------------------------
#[derive(Default)]
struct Pipe {
    q: VecDeque<u8>,
    cap: usize,
    closed: bool,
    wchunk: usize,
    rchunk: usize,
    pend: VecDeque<bool>,
    reader: Option<Waker>,
    writer: Option<Waker>,
    calls: usize,
}
#[derive(Clone)]
struct End(Rc<RefCell<Pipe>>);
impl Pipe {
    fn scripted_pending(&mut self, cx: &mut Context<'_>) -> bool {
        self.calls += 1;
        if self.calls > 20 * CALL_BUDGET {
            panic!("call budget exhausted");
        }
        if self.pend.pop_front() == Some(true) {
            // spurious Pending: the pipe is ready again at once
            cx.waker().wake_by_ref();
            true
        } else {
            false
        }
    }
}
impl AsyncWrite for End {
    fn poll_write(self: Pin<&mut Self>, cx: &mut Context<'_>, buf: &[u8]) -> Poll<io::Result<usize>> {
        let mut p = self.0.borrow_mut();
        if p.scripted_pending(cx) {
            return Poll::Pending;
        }
        let free = p.cap - p.q.len();
        if free == 0 {
            p.writer = Some(cx.waker().clone());
            return Poll::Pending;
        }
        let n = free.min(buf.len()).min(p.wchunk.max(1));
        p.q.extend(&buf[..n]);
        if let Some(w) = p.reader.take() {
            w.wake();
        }
        Poll::Ready(Ok(n))
    }
    fn poll_flush(self: Pin<&mut Self>, cx: &mut Context<'_>) -> Poll<io::Result<()>> {
        let mut p = self.0.borrow_mut();
        if p.scripted_pending(cx) {
            return Poll::Pending;
        }
        Poll::Ready(Ok(()))
    }
    fn poll_close(self: Pin<&mut Self>, _cx: &mut Context<'_>) -> Poll<io::Result<()>> {
        Poll::Ready(Ok(()))
    }
}
impl AsyncRead for End {
    fn poll_read(self: Pin<&mut Self>, cx: &mut Context<'_>, buf: &mut [u8]) -> Poll<io::Result<usize>> {
        let mut p = self.0.borrow_mut();
        if p.scripted_pending(cx) {
            return Poll::Pending;
        }
        if p.q.is_empty() {
            if p.closed {
                return Poll::Ready(Ok(0));
            }
            p.reader = Some(cx.waker().clone());
            return Poll::Pending;
        }
        let n = p.q.len().min(buf.len()).min(p.rchunk.max(1));
        for b in buf[..n].iter_mut() {
            *b = p.q.pop_front().unwrap();
        }
        if let Some(w) = p.writer.take() {
            w.wake();
        }
        Poll::Ready(Ok(n))
    }
}
/// schedule: a string over `S` / `R`; a task is polled when its turn comes *and* it has been woken.
pub fn aio_pair<T: Flat + DynTarget + Walk + ?Sized>(inits: &[D], max: usize, cap: usize, wchunk: usize, rchunk: usize, pend: &[bool], schedule: &str) -> String {
    let pipe = Rc::new(RefCell::new(Pipe { cap: cap.max(1), wchunk, rchunk, pend: pend.iter().cloned().collect(), ..Default::default() }));
    let sent = Rc::new(RefCell::new(0usize));
    let got = Rc::new(RefCell::new(Vec::<String>::new()));
    let r = guarded(|| {
        let (w, rd) = (End(pipe.clone()), End(pipe.clone()));
        let (sent2, got2, pw) = (sent.clone(), got.clone(), pipe.clone());
        let mut sender: Pin<Box<dyn Future<Output = ()> + '_>> = Box::pin(async move {
            let mut tx = AsyncSender::<T, _>::io(w, max);
            for d in inits {
                let g = match tx.alloc().await { Ok(g) => g, Err(_) => break };
                let g = match g.new_in_place(de::<T>(d)) { Ok(g) => g, Err(_) => break };
                if g.send().await.is_err() { break; }
                *sent2.borrow_mut() += 1;
            }
            let mut p = pw.borrow_mut();
            p.closed = true;
            if let Some(w) = p.reader.take() { w.wake(); }
        });
        let mut receiver: Pin<Box<dyn Future<Output = ()> + '_>> = Box::pin(async move {
            let mut rx = AsyncReceiver::<T, _>::io(rd, max);
            loop {
                let o = recv_out(rx.recv().await.map(|g| (g.size(), walk_str(&*g, false))));
                let stop = !o.starts_with("msg");
                got2.borrow_mut().push(o);
                if stop { break; }
            }
        });
        let (fs, fr) = (Arc::new(Flag(AtomicBool::new(true))), Arc::new(Flag(AtomicBool::new(true))));
        let (ws, wr) = (Waker::from(fs.clone()), Waker::from(fr.clone()));
        let (mut sd, mut rd_) = (false, false);
        let sched: Vec<char> = schedule.chars().collect();
        let mut i = 0usize;
        let mut idle = 0usize;
        let mut steps = 0usize;
        while !(sd && rd_) {
            steps += 1;
            if steps > 40 * CALL_BUDGET { break; }
            // after the explicit schedule: round robin
            let c = if i < sched.len() { sched[i] } else if i % 2 == 0 { 'S' } else { 'R' };
            i += 1;
            let mut progressed = false;
            if c == 'S' && !sd && fs.0.swap(false, Ordering::SeqCst) {
                progressed = true;
                if sender.as_mut().poll(&mut Context::from_waker(&ws)).is_ready() { sd = true; }
            }
            if c == 'R' && !rd_ && fr.0.swap(false, Ordering::SeqCst) {
                progressed = true;
                if receiver.as_mut().poll(&mut Context::from_waker(&wr)).is_ready() { rd_ = true; }
            }
            if progressed { idle = 0; } else { idle += 1; }
            // nobody is runnable although somebody is not done: a lost wake-up
            if idle > 4 && !fs.0.load(Ordering::SeqCst) && !fr.0.load(Ordering::SeqCst) { break; }
        }
        (sd, rd_)
    });
    let (sd, rd) = r.unwrap_or((false, false));
    let g = got.borrow();
    format!("sent={} got={} done={}{} panic={}", sent.borrow(), if g.is_empty() { "-".to_string() } else { g.join(",") }, sd as u8, rd as u8, if r.is_none() { 1 } else { 0 })
}
