use fvharness::*;
use std::io::Write;
fn arg(args: &[String], name: &str) -> Option<String> {
    args.iter().position(|a| a == name).and_then(|i| args.get(i + 1).cloned())
}
fn main() {
    std::panic::set_hook(Box::new(|_| {}));
    let args: Vec<String> = std::env::args().collect();
    let suite = args.get(1).map(|s| s.as_str()).unwrap_or("types");
    let seed: u64 = arg(&args, "--seed").map(|s| s.parse().unwrap()).unwrap_or(1);
    let thorough = arg(&args, "--tier").map(|s| s == "thorough").unwrap_or(false);
    let only = arg(&args, "--only").map(|s| s.parse().unwrap());
    let from: usize = arg(&args, "--from").map(|s| s.parse().unwrap()).unwrap_or(0);
    let scale: usize = arg(&args, "--scale").map(|s| s.parse().unwrap()).unwrap_or(1);
    let reg = gen_types::registry();
    let stdout = std::io::stdout();
    let mut out = std::io::BufWriter::with_capacity(1 << 16, stdout.lock());
    for (i, t) in reg.iter().enumerate() {
        if from > 0 { break; }
        writeln!(out, "T {} {} {} align={} min={} flags={}", i, t.name().replace(' ', ""), t.desc(), t.align(), t.min_size(), t.flags()).unwrap();
    }
    match suite {
        "types" => {}
        "bytes" => suite_bytes::run(&reg, &suite_bytes::Cfg { seed, thorough, only, from, scale }, &mut out),
        "emplace" => suite_emplace::run(&reg, &gen_types::defaults(), &suite_emplace::Cfg { seed, thorough, only, from, scale }, &mut out),
        "io" => suite_io_gen::run(&reg, &gen_types::defaults(), &suite_io_gen::Cfg { seed, thorough, only, from, scale, which: "blocking".into() }, &mut out),
        "aio" => suite_io_gen::run(&reg, &gen_types::defaults(), &suite_io_gen::Cfg { seed, thorough, only, from, scale, which: "async".into() }, &mut out),
        "portable" => suite_portable::run(&suite_portable::Cfg { seed, thorough }, &mut out),
        "ops" => suite_ops::run(&reg, &suite_ops::Cfg { seed, thorough, only, from, scale }, &mut out),
        "exec" => {
            // lines on stdin: left-hand sides (anything after " => " is ignored)
            let mut ar = arena::Arena::new(1);
            let mut ar2 = arena::Arena::new(1);
            let stdin = std::io::stdin();
            let mut line = String::new();
            while { line.clear(); std::io::BufRead::read_line(&mut stdin.lock(), &mut line).unwrap() > 0 } {
                let full = line.trim_end().to_string();
                let mut lhs = full.split(" => ").next().unwrap().to_string();
                let rhs_given = full.split(" => ").nth(1).map(|x| x.to_string());
                if lhs.is_empty() || lhs.starts_with('#') { continue; }
                // a type may be given by name (`@Name`): corpus files survive catalog changes
                let fields: Vec<String> = lhs.split(' ').map(|x| x.to_string()).collect();
                if fields.len() > 1 && fields[1].starts_with('@') {
                    match reg.iter().position(|t| t.name().replace(' ', "") == fields[1][1..]) {
                        Some(tid) => { let mut f2 = fields.clone(); f2[1] = tid.to_string(); lhs = f2.join(" "); }
                        None => { continue; }
                    }
                }
                match lhs.split(' ').next().unwrap_or("") {
                    "B" => suite_bytes::exec_line(&reg, &mut ar, &mut ar2, &lhs, &mut out),
                    "E" | "F" | "A" => suite_emplace::exec_line(&reg, &mut ar, &lhs, &mut out),
                    "O" => suite_ops::exec_line(&reg, &mut ar, &lhs, &mut out),
                    "X" | "W" => { writeln!(out, "{} => {}", lhs, rhs_given.clone().unwrap_or_default()).unwrap(); }
                    k @ ("R" | "AR" | "S" | "AS") => {
                        let f: Vec<&str> = lhs.split(' ').collect();
                        let t = reg[f[1].parse::<usize>().unwrap()].as_ref();
                        let max: usize = f[2].parse().unwrap();
                        let script = suite_io::parse_script(f[3]);
                        write!(out, "{} => ", lhs).unwrap();
                        out.flush().unwrap();
                        let r = guarded(|| match k {
                            "R" => t.io_recv(&unhex(f[5]), max, &script, f[4].parse().unwrap()),
                            "AR" => t.aio_recv(&unhex(f[5]), max, &script, f[4].parse().unwrap()),
                            "S" => t.io_send(&fvharness::parse_msgs(&f[4..].join(" ")), max, &script),
                            _ => t.aio_send(&fvharness::parse_msgs(&f[4..].join(" ")), max, &script),
                        }).unwrap_or_else(|| "PANIC".into());
                        writeln!(out, "{}", r).unwrap();
                    }
                    _ => {}
                }
            }
        }
        s => panic!("unknown suite {s}"),
    }
    out.flush().unwrap();
}
