//! Byte-level suite: from_bytes / validate on generated inputs (families V, P, X, H, R, E).
//! One line per case: `B <tid> <place> <addr16> <P0|P1> <sfx|-> <hex> => <observed>`
use crate::{arena::*, err_str, guarded, hex, shape::*, Rng, TypeOps};
use flatty::error::ErrorKind;
use std::io::Write;

pub struct Cfg {
    pub seed: u64,
    pub thorough: bool,
    pub only: Option<usize>,
    pub from: usize,
    pub scale: usize,
}

fn observe(t: &dyn TypeOps, ar: &mut Arena, ar2: &mut Arena, bytes: &[u8], place: Place, pfx: bool, sfx: Option<&[u8]>) -> (usize, String) {
    let fill = 0xC3u8;
    let (start, sl) = ar.place(bytes, place, fill);
    let a16 = (sl.as_ptr() as usize) % 16;
    let len = sl.len();
    let r = guarded(|| {
        let p = t.probe(sl);
        // `FlatWrap::from_wrapped_bytes` over the same bytes accepts exactly what `from_bytes` accepts, with the same error, and
        // shows the same value
        let wrap_same = match (&p.res, t.wrap_probe(sl)) {
            (Ok((v, _, z, _, _)), Ok((wz, wv))) => *z == wz && *v == wv,
            (Err(a), Err(b)) => *a == b,
            _ => false,
        };
        let wrap_note = if wrap_same { "" } else { " WRAP-DIFF" };
        match p.res {
            Err(e) => format!("err {}{}", err_str(&e), wrap_note),
            Ok((v, s, z, w, wc)) => {
                let mut out = format!("ok v={} s={} z={} in={}", v, s, z, if p.range_ok { 1 } else { 0 });
                if let Some(o) = &p.offsets {
                    out += &format!(" off={}", if o.is_empty() { "-".to_string() } else { o.iter().map(|x| x.to_string()).collect::<Vec<_>>().join(",") });
                }
                // the value's own bytes validate again
                let rv = if v <= len { match t.validate(&sl[..v]) { Ok(()) => "ok".to_string(), Err(e) => format!("err:{}", err_str(&e)) } } else { "oob".into() };
                out += &format!(" rv={}", rv);
                // mapping the first size() bytes again
                let rm = if z <= len {
                    match t.probe(&sl[..z]).res {
                        Ok((_, _, z2, _, wc2)) => if z2 == z && wc2 == wc { "same" } else { "diff" },
                        Err(_) => "err",
                    }
                } else { "oob" };
                out += &format!(" rm={}", rm);
                if pfx {
                    let mut ps = String::new();
                    for k in 0..z.min(len) {
                        let c = match guarded(|| t.probe(&sl[..k]).res) {
                            None => 'X',
                            Some(Err(e)) => if e.kind == ErrorKind::InsufficientSize { 'I' } else { 'E' },
                            Some(Ok((_, _, z2, _, wc2))) => if wc2 == wc && z2 <= k { 'S' } else { 'D' },
                        };
                        ps.push(c);
                    }
                    out += &format!(" pfx={}", if ps.is_empty() { "-".to_string() } else { ps });
                }
                if let Some(sfx) = sfx {
                    let ext = if z <= len {
                        let mut m = sl[..z].to_vec();
                        m.extend_from_slice(sfx);
                        let (_, sl2) = ar2.place(&m, Place::Mid(a16), fill);
                        match guarded(|| t.probe(sl2).res) {
                            None => "panic",
                            Some(Ok((_, _, z2, _, wc2))) => if z2 == z && wc2 == wc { "same" } else { "diff" },
                            Some(Err(_)) => "err",
                        }
                    } else { "oob" };
                    out += &format!(" ext={}", ext);
                }
                out += &format!(" w={}", w);
                out += wrap_note;
                out
            }
        }
    });
    let mut r = r.unwrap_or_else(|| "PANIC".into());
    if !ar.outside_intact(start, len, fill) {
        r += " OUTSIDE-WRITTEN";
    }
    (a16, r)
}

fn place_char(p: Place) -> char {
    match p { Place::End => 'E', Place::Start => 'S', Place::Mid(_) => 'M' }
}

pub fn run(reg: &[Box<dyn TypeOps>], cfg: &Cfg, out: &mut dyn Write) {
    let mut ar = Arena::new(1);
    let mut ar2 = Arena::new(1);
    for (tid, t) in reg.iter().enumerate() {
        if let Some(o) = cfg.only { if o != tid { continue; } }
        if tid < cfg.from { continue; }
        let sh = parse(t.desc());
        let mut rng = Rng::new(cfg.seed ^ ((tid as u64 + 1) * 0x1000193));
        let al = t.align();
        let emit = |ar: &mut Arena, ar2: &mut Arena, bytes: &[u8], place: Place, pfx: bool, sfx: Option<&[u8]>, out: &mut dyn Write| {
            // the left-hand side is written (and flushed) before the library is called,
            // so that a crash is attributable to the case
            let a16 = match place { Place::End => (ar.addr_mod(0, 16) + PAGE - bytes.len() % 16) % 16, Place::Start => ar.addr_mod(0, 16), Place::Mid(o) => (ar.addr_mod(0, 16) + 256 + o % 16) % 16 };
            write!(out, "B {} {} {} {} {} {} => ", tid, place_char(place), a16, if pfx { "P1" } else { "P0" }, sfx.map(hex).unwrap_or("-".into()), hex(bytes)).unwrap();
            out.flush().unwrap();
            let (a, r) = observe(t.as_ref(), ar, ar2, bytes, place, pfx, sfx);
            assert_eq!(a, a16);
            writeln!(out, "{}", r).unwrap();
        };
        let rand_place = |rng: &mut Rng| -> Place {
            match rng.below(10) {
                0..=3 => Place::End,
                4 => Place::Start,
                5..=7 => Place::Mid((rng.below(16 / al.min(16) as u64) as usize) * al),
                _ => Place::Mid(rng.below(16) as usize),
            }
        };
        // ---- valid images and their mutations
        let n_valid = cfg.scale * if cfg.thorough { 120 } else { 30 };
        let mut big = vec![0u8; 4096 + 16];
        for it in 0..n_valid {
            let d = gen_init(&sh, &mut rng, 0);
            let room = match rng.below(4) { 0 => t.min_size() + rng.below(24) as usize, 1 => 40 + rng.below(40) as usize, _ => 96 + rng.below(160) as usize };
            let base = { let p = big.as_ptr() as usize; (16 - p % 16) % 16 };
            let garbage = rng.bytes(room);
            big[base..base + room].copy_from_slice(&garbage);
            let ok = guarded(|| t.new_in_place(&mut big[base..base + room], &d)).map(|r| r.is_ok()).unwrap_or(false);
            if !ok { continue; }
            let (vlen, z) = match guarded(|| t.probe(&big[base..base + room]).res) { Some(Ok((v, _, z, _, _))) if z <= room => (v, z), _ => continue };
            let image = big[base..base + z].to_vec();
            // a top-level FlexVec also in the encoding the library never writes itself: real offset on the last item, then (after
            // some slack) a terminating zero slot
            if let Shape::Flex(_, l) = &sh {
                for slack in [0usize, al] {
                    if let Some(alt) = crate::shape::terminate_chain(&big[base..base + room], l, sh.data_offset(), slack, vlen, z) {
                        let end = z + slack + sh.data_offset();
                        emit(&mut ar, &mut ar2, &alt[..end], Place::End, it % 2 == 0, None, out);
                        let mut w = alt[..end].to_vec();
                        let extra_n = 1 + rng.below((al + 2) as u64) as usize;
                        w.extend(rng.bytes(extra_n));
                        emit(&mut ar, &mut ar2, &w, rand_place(&mut rng), false, None, out);
                    }
                }
            }
            // a top-level FlexVec whose later slots are shifted by the offset type's alignment only: the first link is still a multiple
            // of `L::ALIGN` but no longer of the vector's alignment, so the next slot — a well-formed item otherwise — is misplaced
            // (and the other way round, S96: shifted by the *item's* alignment when the offset type is the more aligned one — the link is
            // then not even a multiple of `L::ALIGN`, and the next slot would be read through a misaligned reference)
            if let Shape::Flex(e, l) = &sh {
                let mut steps = vec![l.align];
                if e.align() != l.align { steps.push(e.align()); }
                for step in steps {
                    if al > step && image.len() >= l.size {
                        let first = decode_len(l, &image[..l.size]) as usize;
                        let lmax = if l.size >= 8 { usize::MAX } else { (1usize << (8 * l.size)) - 1 };
                        if first != 0 && first != lmax && first <= image.len() && first + step < lmax {
                            let mut m = l.encode((first + step) as u128);
                            m.extend_from_slice(&image[l.size..first]);
                            m.extend(std::iter::repeat(0u8).take(step));
                            m.extend_from_slice(&image[first..]);
                            m.extend(std::iter::repeat(0u8).take(al));
                            emit(&mut ar, &mut ar2, &m, Place::Mid(0), false, None, out);
                        }
                    }
                }
            }
            // V / X: the image followed by 0 .. 2*align+3 further bytes
            let extra = rng.below((2 * al + 4) as u64) as usize;
            let mut v = image.clone();
            v.extend(rng.bytes(extra));
            let nsfx = 1 + rng.below(12) as usize;
            let sfx = rng.bytes(nsfx);
            emit(&mut ar, &mut ar2, &v, rand_place(&mut rng), it % 3 == 0, Some(&sfx), out);
            // exactly the image at every kind of place
            emit(&mut ar, &mut ar2, &image, Place::End, it % 4 == 1, None, out);
            // C: corrupt exactly one constrained byte (Bool, enum tag, UTF-8) of the valid image: the error must point at it
            if sh.constrained() {
                let mut cs = vec![];
                constraints(&sh, &image, 0, image.len(), &mut cs);
                let nc = if cfg.thorough { cs.len() } else { cs.len().min(6) };
                for k in 0..nc {
                    let c = if cfg.thorough { cs[k].clone() } else { cs[rng.below(cs.len() as u64) as usize].clone() };
                    let mut m = image.clone();
                    let (kind, lo, hi) = match c {
                        Constraint::Bool(p) => { m[p] = 2 + rng.below(254) as u8; ("invalidData", p, p) }
                        Constraint::Tag(p, w, be, n) => {
                            let maxv = if w >= 8 { u64::MAX } else { (1u64 << (8 * w)) - 1 };
                            if (n as u64) > maxv { continue; }
                            let v = if rng.chance(1, 2) { n as u64 } else { n as u64 + rng.below(maxv - n as u64 + 1) };
                            let enc = LenS { size: w, align: 1, be }.encode(v as u128);
                            m[p..p + w].copy_from_slice(&enc);
                            ("invalidEnumTag", p, p)
                        }
                        Constraint::Utf8(a, b) => {
                            if b <= a || b > m.len() { continue; }
                            let i = a + rng.below((b - a) as u64) as usize;
                            m[i] = 0xff;
                            ("invalidData", a, i)
                        }
                    };
                    let place = if (PAGE - m.len()) % al == 0 && rng.chance(1, 2) { Place::End } else { Place::Mid(0) };
                    let a16 = match place { Place::End => (ar.addr_mod(0, 16) + PAGE - m.len() % 16) % 16, Place::Start => ar.addr_mod(0, 16), Place::Mid(o) => (ar.addr_mod(0, 16) + 256 + o % 16) % 16 };
                    write!(out, "C {} {} {} {} {} {} {} => ", tid, place_char(place), a16, kind, lo, hi, hex(&m)).unwrap();
                    out.flush().unwrap();
                    let (_, r) = observe(t.as_ref(), &mut ar, &mut ar2, &m, place, false, None);
                    writeln!(out, "{}", r).unwrap();
                    // the same corrupted image followed by a few bytes that do not make up another alignment unit (S108): a slice whose
                    // length is no multiple of `ALIGN` — a receive buffer filled to a transport-dictated length — must report the same byte
                    if al > 1 {
                        let mut m2 = m.clone();
                        let extra_n = 1 + rng.below(al as u64 - 1) as usize;
                        m2.extend(rng.bytes(extra_n));
                        let place = Place::Mid(0);
                        let a16 = (ar.addr_mod(0, 16) + 256) % 16;
                        write!(out, "C {} {} {} {} {} {} {} => ", tid, place_char(place), a16, kind, lo, hi, hex(&m2)).unwrap();
                        out.flush().unwrap();
                        let (_, r) = observe(t.as_ref(), &mut ar, &mut ar2, &m2, place, false, None);
                        writeln!(out, "{}", r).unwrap();
                    }
                }
            }
            // P: a few explicit prefixes
            for _ in 0..2 {
                if z > 0 { let k = rng.below(z as u64) as usize; emit(&mut ar, &mut ar2, &image[..k], Place::End, false, None, out); }
            }
            // H: single-byte mutations, biased to the front (headers) and to boundary values
            let nm = if cfg.thorough { 10 } else { 5 };
            for _ in 0..nm {
                if v.is_empty() { break; }
                let mut m = v.clone();
                let pos = if rng.chance(1, 2) { rng.below(m.len().min(12) as u64) as usize } else { rng.below(m.len() as u64) as usize };
                m[pos] = match rng.below(9) { 0 => 0, 1 => 1, 2 => 2, 3 => 0xff, 4 => 0xfe, 5 => m[pos].wrapping_add(1), 6 => m[pos].wrapping_sub(1), 7 => 0x80, _ => (rng.next() >> 20) as u8 };
                emit(&mut ar, &mut ar2, &m, rand_place(&mut rng), false, None, out);
            }
        }
        // ---- R: random byte strings
        let n_rand = cfg.scale * if cfg.thorough { 1200 } else { 250 };
        for _ in 0..n_rand {
            let len = match rng.below(4) { 0 => rng.below(t.min_size() as u64 + 3) as usize, 1 => t.min_size() + rng.below(2 * al as u64 + 2) as usize, _ => rng.below(72) as usize };
            let style = rng.below(6);
            let bytes: Vec<u8> = (0..len).map(|_| { let r = rng.next() >> 16; match style { 0 => 0, 1 => if r % 9 == 0 { (r >> 8) as u8 % 5 } else { 0 }, 2 => (r % 4) as u8, 3 => if r % 11 == 0 { 255 } else { (r >> 8) as u8 % 3 }, 5 => if r % 3 == 0 { 0 } else { ((r >> 8) % 14) as u8 }, _ => { let v = (r >> 8) as u8; if r % 3 == 0 { v } else { v % 9 } } } }).collect();
            emit(&mut ar, &mut ar2, &bytes, rand_place(&mut rng), rng.chance(1, 8), None, out);
        }
        // ---- E: exhaustive short strings (length 0, 1; length 2 in thorough or sampled)
        emit(&mut ar, &mut ar2, &[], Place::End, false, None, out);
        if t.min_size() <= 2 {
            for b in 0..=255u8 { emit(&mut ar, &mut ar2, &[b], Place::End, false, None, out); }
            let step = if cfg.thorough { 1 } else { 37 };
            let mut x = 0usize;
            while x < 65536 { emit(&mut ar, &mut ar2, &[(x & 255) as u8, (x >> 8) as u8], Place::End, false, None, out); x += step; }
        }
    }
}

/// re-execute recorded `B` left-hand sides (replay / shrinking)
pub fn exec_line(reg: &[Box<dyn TypeOps>], ar: &mut Arena, ar2: &mut Arena, lhs: &str, out: &mut dyn Write) {
    let f: Vec<&str> = lhs.split(' ').collect();
    assert_eq!(f[0], "B");
    let tid: usize = f[1].parse().unwrap();
    let a16: usize = f[3].parse().unwrap();
    let bytes = crate::unhex(f[6]);
    let place = match f[2] { "E" => Place::End, "S" => Place::Start, _ => Place::Mid((a16 + 16 - (ar.addr_mod(0, 16) + 256) % 16) % 16) };
    let sfx = if f[5] == "-" { None } else { Some(crate::unhex(f[5])) };
    write!(out, "{} => ", lhs).unwrap();
    out.flush().unwrap();
    let (_, r) = observe(reg[tid].as_ref(), ar, ar2, &bytes, place, f[4] == "P1", sfx.as_deref());
    writeln!(out, "{}", r).unwrap();
}
