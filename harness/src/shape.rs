//! Runtime mirror of the descriptor syntax: parser, C-layout arithmetic (for *generating* inputs only),
//! generators of valid sized images and of dynamic initialisers.
use crate::{Rng, D};

#[derive(Clone, Debug, PartialEq)]
pub struct LenS {
    pub size: usize,
    pub align: usize,
    pub be: bool,
}
impl LenS {
    pub fn max(&self) -> u128 {
        if self.size >= 16 {
            u128::MAX
        } else {
            (1u128 << (8 * self.size)) - 1
        }
    }
    pub fn encode(&self, v: u128) -> Vec<u8> {
        let mut b: Vec<u8> = (0..self.size).map(|i| (v >> (8 * i)) as u8).collect();
        if self.be {
            b.reverse();
        }
        b
    }
}
#[derive(Clone, Debug, PartialEq)]
pub enum Shape {
    Prim(usize, usize),
    Bool,
    Arr(Box<Shape>, usize),
    SStruct(Vec<Shape>),
    CEnum(LenS, usize),
    SEnum(LenS, Vec<Vec<Shape>>),
    Vec(Box<Shape>, LenS),
    Str(LenS),
    Flex(Box<Shape>, LenS),
    UStruct(Vec<Shape>),
    UEnum(LenS, Vec<Vec<Shape>>),
}

// ---- parser ----------------------------------------------------------------------------------
fn tokenize(s: &str) -> Vec<String> {
    let mut out = vec![];
    let mut cur = String::new();
    for c in s.chars() {
        match c {
            '(' | ')' => {
                if !cur.is_empty() {
                    out.push(std::mem::take(&mut cur));
                }
                out.push(c.to_string());
            }
            ' ' => {
                if !cur.is_empty() {
                    out.push(std::mem::take(&mut cur));
                }
            }
            _ => cur.push(c),
        }
    }
    if !cur.is_empty() {
        out.push(cur);
    }
    out
}
fn parse_len(t: &str) -> LenS {
    // l<size>a<align><l|b>
    let body = &t[1..t.len() - 1];
    let mut it = body.split('a');
    let size = it.next().unwrap().parse().unwrap();
    let align = it.next().unwrap().parse().unwrap();
    LenS { size, align, be: t.ends_with('b') }
}
fn parse_ty(toks: &[String], i: &mut usize) -> Shape {
    let t = &toks[*i];
    *i += 1;
    if t == "(" {
        let head = toks[*i].clone();
        *i += 1;
        let sh = match head.as_str() {
            "arr" => {
                let e = parse_ty(toks, i);
                let n = toks[*i].parse().unwrap();
                *i += 1;
                Shape::Arr(Box::new(e), n)
            }
            "ss" | "us" => {
                let mut fs = vec![];
                while toks[*i] != ")" {
                    fs.push(parse_ty(toks, i));
                }
                if head == "ss" {
                    Shape::SStruct(fs)
                } else {
                    Shape::UStruct(fs)
                }
            }
            "ce" => {
                let l = parse_len(&toks[*i]);
                *i += 1;
                let n = toks[*i].parse().unwrap();
                *i += 1;
                Shape::CEnum(l, n)
            }
            "se" | "ue" => {
                let l = parse_len(&toks[*i]);
                *i += 1;
                let mut vs = vec![];
                while toks[*i] != ")" {
                    assert_eq!(toks[*i], "(");
                    *i += 1;
                    assert_eq!(toks[*i], "v");
                    *i += 1;
                    let mut fs = vec![];
                    while toks[*i] != ")" {
                        fs.push(parse_ty(toks, i));
                    }
                    *i += 1;
                    vs.push(fs);
                }
                if head == "se" {
                    Shape::SEnum(l, vs)
                } else {
                    Shape::UEnum(l, vs)
                }
            }
            "vec" | "flex" => {
                let e = parse_ty(toks, i);
                let l = parse_len(&toks[*i]);
                *i += 1;
                if head == "vec" {
                    Shape::Vec(Box::new(e), l)
                } else {
                    Shape::Flex(Box::new(e), l)
                }
            }
            "str" => {
                let l = parse_len(&toks[*i]);
                *i += 1;
                Shape::Str(l)
            }
            h => panic!("bad descriptor head {h}"),
        };
        assert_eq!(toks[*i], ")");
        *i += 1;
        sh
    } else if t == "bool" {
        Shape::Bool
    } else if let Some(rest) = t.strip_prefix('p') {
        let mut it = rest.split('a');
        let s = it.next().unwrap().parse().unwrap();
        let a = it.next().unwrap().parse().unwrap();
        Shape::Prim(s, a)
    } else {
        panic!("bad descriptor token {t}")
    }
}
pub fn parse(desc: &str) -> Shape {
    let toks = tokenize(desc);
    let mut i = 0;
    let s = parse_ty(&toks, &mut i);
    assert_eq!(i, toks.len());
    s
}

// ---- layout (C rule), used for generating inputs ---------------------------------------------
pub fn ceil_mul(x: usize, m: usize) -> usize {
    (x + m - 1) / m * m
}
impl Shape {
    pub fn is_sized(&self) -> bool {
        !matches!(self, Shape::Vec(..) | Shape::Str(..) | Shape::Flex(..) | Shape::UStruct(..) | Shape::UEnum(..))
    }
    pub fn align(&self) -> usize {
        match self {
            Shape::Prim(_, a) => *a,
            Shape::Bool => 1,
            Shape::Arr(e, _) => e.align(),
            Shape::SStruct(fs) | Shape::UStruct(fs) => fs.iter().map(|f| f.align()).max().unwrap_or(1),
            Shape::CEnum(l, _) => l.align,
            Shape::SEnum(l, vs) | Shape::UEnum(l, vs) => vs.iter().flatten().map(|f| f.align()).max().unwrap_or(1).max(l.align),
            Shape::Vec(e, l) | Shape::Flex(e, l) => e.align().max(l.align),
            Shape::Str(l) => l.align,
        }
    }
    /// positions of the fields of a field list (C rule) and the end of the last sized field
    pub fn field_offsets(fs: &[Shape]) -> Vec<usize> {
        let mut pos = 0;
        let mut out = vec![];
        for f in fs {
            pos = ceil_mul(pos, f.align());
            out.push(pos);
            if f.is_sized() {
                pos += f.size();
            }
        }
        out
    }
    /// size of a sized shape
    pub fn size(&self) -> usize {
        match self {
            Shape::Prim(s, _) => *s,
            Shape::Bool => 1,
            Shape::Arr(e, n) => e.size() * n,
            Shape::SStruct(fs) => {
                let offs = Self::field_offsets(fs);
                let end = fs.last().map(|f| offs[fs.len() - 1] + f.size()).unwrap_or(0);
                ceil_mul(end, self.align())
            }
            Shape::CEnum(l, _) => l.size,
            Shape::SEnum(l, vs) => {
                let al = self.align();
                let doff = ceil_mul(l.size, al);
                let mx = vs.iter().map(|v| Shape::SStruct(v.clone()).size_or_zero()).max().unwrap_or(0);
                ceil_mul(doff + mx, al)
            }
            _ => panic!("size of unsized shape"),
        }
    }
    fn size_or_zero(&self) -> usize {
        match self {
            Shape::SStruct(fs) if fs.is_empty() => 0,
            s => s.size(),
        }
    }
    pub fn data_offset(&self) -> usize {
        match self {
            Shape::SEnum(l, _) | Shape::UEnum(l, _) => ceil_mul(l.size, self.align()),
            Shape::Vec(e, l) | Shape::Flex(e, l) => l.size.max(e.align()),
            Shape::Str(l) => l.size,
            _ => 0,
        }
    }
    /// does the shape contain a constrained byte (Bool, tag, UTF-8)?
    pub fn constrained(&self) -> bool {
        match self {
            Shape::Prim(..) => false,
            Shape::Bool | Shape::CEnum(..) | Shape::SEnum(..) | Shape::UEnum(..) | Shape::Str(..) => true,
            Shape::Arr(e, n) => *n > 0 && e.constrained(),
            Shape::SStruct(fs) | Shape::UStruct(fs) => fs.iter().any(|f| f.constrained()),
            Shape::Vec(e, _) | Shape::Flex(e, _) => e.constrained(),
        }
    }
}

// ---- generators ------------------------------------------------------------------------------
pub const PAD: u8 = 0xEE;
fn boundary_bytes(rng: &mut Rng, n: usize) -> Vec<u8> {
    match rng.below(6) {
        0 => vec![0; n],
        1 => vec![0xff; n],
        2 => {
            let mut v = vec![0; n];
            if n > 0 {
                v[0] = 1;
            }
            v
        }
        3 => {
            let mut v = vec![0xff; n];
            if n > 0 {
                v[n - 1] = 0x7f;
            }
            v
        }
        _ => rng.bytes(n),
    }
}
/// a valid image of a sized shape; padding bytes are `PAD`
pub fn gen_sized(sh: &Shape, rng: &mut Rng) -> Vec<u8> {
    match sh {
        // 0xEE is reserved for padding (the model treats it as a wildcard inside raw images)
        Shape::Prim(s, _) => boundary_bytes(rng, *s).into_iter().map(|b| if b == PAD { 0xED } else { b }).collect(),
        Shape::Bool => vec![rng.below(2) as u8],
        Shape::Arr(e, n) => (0..*n).flat_map(|_| gen_sized(e, rng)).collect(),
        Shape::SStruct(fs) => {
            let mut out = vec![PAD; sh.size()];
            let offs = Shape::field_offsets(fs);
            for (f, o) in fs.iter().zip(offs) {
                let b = gen_sized(f, rng);
                out[o..o + b.len()].copy_from_slice(&b);
            }
            out
        }
        Shape::CEnum(l, n) => l.encode(rng.below(*n as u64) as u128),
        Shape::SEnum(l, vs) => {
            let mut out = vec![PAD; sh.size()];
            let i = rng.below(vs.len() as u64) as usize;
            let t = l.encode(i as u128);
            out[..t.len()].copy_from_slice(&t);
            let doff = sh.data_offset();
            let offs = Shape::field_offsets(&vs[i]);
            for (f, o) in vs[i].iter().zip(offs) {
                let b = gen_sized(f, rng);
                out[doff + o..doff + o + b.len()].copy_from_slice(&b);
            }
            out
        }
        _ => panic!("gen_sized on unsized shape"),
    }
}
const UTF8_SAMPLES: &[&str] = &["", "a", "ab", "héllo", "日本", "x\u{10348}y", "0123456789", "ß", "\u{7ff}\u{800}\u{ffff}", "zzzzzzzzzzzzzzzzzzzz"];
/// a dynamic initialiser for any shape; `big` asks for larger containers
pub fn gen_init(sh: &Shape, rng: &mut Rng, depth: usize) -> D {
    if sh.is_sized() {
        return D::Raw(gen_sized(sh, rng));
    }
    let count = |rng: &mut Rng| -> usize {
        match rng.below(8) {
            0 | 1 => 0,
            2 | 3 => 1,
            4 => 2,
            5 => 3,
            6 => 4 + rng.below(4) as usize,
            _ => rng.below(12) as usize,
        }
    };
    // the containers' own default (the empty state), through the library's default path
    if matches!(sh, Shape::Vec(..) | Shape::Str(..) | Shape::Flex(..)) && rng.chance(1, 12) {
        let empty = match sh { Shape::Vec(..) => D::VecEmpty, Shape::Str(..) => D::StrFrom(vec![]), _ => D::FlexEmpty };
        return D::Def(Box::new(empty));
    }
    match sh {
        Shape::Vec(e, _) => {
            let n = count(rng);
            let xs: Vec<Vec<u8>> = (0..n).map(|_| gen_sized(e, rng)).collect();
            match rng.below(5) {
                0 if n == 0 => D::VecEmpty,
                1 | 2 => D::VecArr(xs),
                _ => D::VecIter(xs),
            }
        }
        Shape::Str(_) => {
            if rng.chance(1, 4) {
                let n = rng.below(9) as usize;
                D::StrFrom((0..n).map(|_| b'a' + rng.below(26) as u8).collect())
            } else {
                D::StrFrom(UTF8_SAMPLES[rng.below(UTF8_SAMPLES.len() as u64) as usize].as_bytes().to_vec())
            }
        }
        Shape::Flex(e, _) => {
            let n = if depth >= 2 { rng.below(3) as usize } else { count(rng).min(5) };
            if n == 0 && rng.chance(1, 2) {
                D::FlexEmpty
            } else {
                D::FlexIter((0..n).map(|_| gen_init(e, rng, depth + 1)).collect())
            }
        }
        Shape::UStruct(fs) => {
            let n = fs.len();
            D::Struct(fs[..n - 1].iter().map(|f| gen_sized(f, rng)).collect(), Box::new(gen_init(&fs[n - 1], rng, depth + 1)))
        }
        Shape::UEnum(_, vs) => {
            let i = rng.below(vs.len() as u64) as usize;
            let v = &vs[i];
            if v.last().map(|f| f.is_sized()).unwrap_or(true) {
                D::Enum(i, v.iter().map(|f| gen_sized(f, rng)).collect(), None)
            } else {
                let n = v.len();
                D::Enum(i, v[..n - 1].iter().map(|f| gen_sized(f, rng)).collect(), Some(Box::new(gen_init(&v[n - 1], rng, depth + 1))))
            }
        }
        _ => unreachable!(),
    }
}

// ---- specification-side rendering: what an initialiser says the content is ---------------------
fn hexs(b: &[u8]) -> String {
    b.iter().map(|x| format!("{:02x}", x)).collect()
}
/// canonical rendering (no capacities) of a valid sized image, by shape
pub fn render_sized(sh: &Shape, b: &[u8]) -> String {
    match sh {
        Shape::Prim(s, _) => format!("r:{}", hexs(&b[..*s])),
        Shape::Bool => format!("b:{}", if b[0] == 0 { 0 } else { 1 }),
        Shape::Arr(e, n) => {
            let es = e.size();
            format!("[{}]", (0..*n).map(|i| render_sized(e, &b[i * es..(i + 1) * es])).collect::<Vec<_>>().join(" "))
        }
        Shape::SStruct(fs) => {
            let offs = Shape::field_offsets(fs);
            format!("({})", fs.iter().zip(offs).map(|(f, o)| render_sized(f, &b[o..])).collect::<Vec<_>>().join(" "))
        }
        Shape::CEnum(l, _) => format!("<{}>", decode_len(l, b)),
        Shape::SEnum(l, vs) => {
            let t = decode_len(l, b) as usize;
            let doff = sh.data_offset();
            let offs = Shape::field_offsets(&vs[t]);
            let fs: Vec<String> = vs[t].iter().zip(offs).map(|(f, o)| render_sized(f, &b[doff + o..])).collect();
            if fs.is_empty() { format!("<{}>", t) } else { format!("<{} {}>", t, fs.join(" ")) }
        }
        _ => panic!("render_sized on unsized"),
    }
}
pub fn decode_len(l: &LenS, b: &[u8]) -> u128 {
    let mut v = 0u128;
    for i in 0..l.size {
        let byte = if l.be { b[l.size - 1 - i] } else { b[i] } as u128;
        v |= byte << (8 * i);
    }
    v
}
/// canonical rendering (no capacities) of the content an initialiser specifies
pub fn render_init(sh: &Shape, d: &D) -> String {
    match (sh, d) {
        (_, D::Raw(b)) => render_sized(sh, b),
        (_, D::Def(x)) => render_init(sh, x),
        (Shape::Vec(e, _), D::VecEmpty) if e.size() != 0 => "V[]".into(),
        (Shape::Vec(e, _), D::VecArr(xs)) | (Shape::Vec(e, _), D::VecIter(xs)) if e.size() == 0 => format!("V[*{}]", xs.len()),
        (Shape::Vec(e, _), D::VecEmpty) if e.size() == 0 => "V[*0]".into(),
        (Shape::Vec(e, _), D::VecArr(xs)) | (Shape::Vec(e, _), D::VecIter(xs)) => format!("V[{}]", xs.iter().map(|x| render_sized(e, x)).collect::<Vec<_>>().join(" ")),
        (Shape::Str(_), D::StrFrom(b)) => format!("S:{}", hexs(b)),
        (Shape::Flex(_, _), D::FlexEmpty) => "F[]".into(),
        (Shape::Flex(e, _), D::FlexIter(xs)) => format!("F[{}]", xs.iter().map(|x| render_init(e, x)).collect::<Vec<_>>().join(" ")),
        (Shape::UStruct(fs), D::Struct(vals, last)) => {
            let n = fs.len();
            let mut parts: Vec<String> = fs[..n - 1].iter().zip(vals).map(|(f, v)| render_sized(f, v)).collect();
            parts.push(render_init(&fs[n - 1], last));
            format!("({})", parts.join(" "))
        }
        (Shape::UEnum(_, vs), D::Enum(i, vals, last)) => {
            let v = &vs[*i];
            let mut parts: Vec<String> = vec![];
            match last {
                None => parts.extend(v.iter().zip(vals).map(|(f, x)| render_sized(f, x))),
                Some(l) => {
                    let n = v.len();
                    parts.extend(v[..n - 1].iter().zip(vals).map(|(f, x)| render_sized(f, x)));
                    parts.push(render_init(&v[n - 1], l));
                }
            }
            if parts.is_empty() { format!("<{}>", i) } else { format!("<{} {}>", i, parts.join(" ")) }
        }
        _ => panic!("render_init: initialiser does not fit the shape"),
    }
}

// ---- constrained bytes of a valid image (for the error-position suite) -------------------------
#[derive(Clone, Debug)]
pub enum Constraint {
    /// a `Bool` byte
    Bool(usize),
    /// an enum tag: offset, width, big-endian, number of variants
    Tag(usize, usize, bool, usize),
    /// the bytes of a string: `[start, end)`
    Utf8(usize, usize),
}
/// walk a *valid* image of `sh` starting at `off` inside `b`, with `len` bytes available to the value, collecting its
/// constrained bytes in validation order
pub fn constraints(sh: &Shape, b: &[u8], off: usize, len: usize, out: &mut Vec<Constraint>) {
    match sh {
        Shape::Prim(..) => {}
        Shape::Bool => out.push(Constraint::Bool(off)),
        Shape::Arr(e, n) => {
            let es = e.size();
            for i in 0..*n { constraints(e, b, off + i * es, es, out); }
        }
        Shape::SStruct(fs) => {
            for (f, o) in fs.iter().zip(Shape::field_offsets(fs)) { constraints(f, b, off + o, f.size(), out); }
        }
        Shape::CEnum(l, n) => out.push(Constraint::Tag(off, l.size, l.be, *n)),
        Shape::SEnum(l, vs) | Shape::UEnum(l, vs) => {
            out.push(Constraint::Tag(off, l.size, l.be, vs.len()));
            let t = decode_len(l, &b[off..]) as usize;
            if t >= vs.len() { return; }
            let al = sh.align();
            let doff = ceil_mul(l.size, al);
            let avail = if len >= doff { (len - doff) / al * al } else { 0 };
            let v = &vs[t];
            let offs = Shape::field_offsets(v);
            for (i, (f, o)) in v.iter().zip(offs).enumerate() {
                let flen = if f.is_sized() { f.size() } else { avail.saturating_sub(o) };
                let _ = i;
                constraints(f, b, off + doff + o, flen, out);
            }
        }
        Shape::Vec(e, l) => {
            let n = decode_len(l, &b[off..]) as usize;
            let doff = sh.data_offset();
            let es = e.size();
            for i in 0..n { if off + doff + (i + 1) * es <= b.len() { constraints(e, b, off + doff + i * es, es, out); } }
        }
        Shape::Str(l) => {
            let n = decode_len(l, &b[off..]) as usize;
            out.push(Constraint::Utf8(off + l.size, off + l.size + n));
        }
        Shape::Flex(e, l) => {
            let al = sh.align();
            let os = sh.data_offset();
            let total = len / al * al;
            let mut pos = 0usize;
            let mut guard = 0;
            while pos + l.size <= total && guard < 10000 {
                guard += 1;
                let next = decode_len(l, &b[off + pos..]);
                if next == 0 { break; }
                if next == l.max() {
                    constraints(e, b, off + pos + os, total - pos - os, out);
                    break;
                }
                let next = next as usize;
                if next < os || pos + next > total { break; }
                constraints(e, b, off + pos + os, next - os, out);
                pos += next;
            }
        }
        Shape::UStruct(fs) => {
            let al = sh.align();
            let avail = len / al * al;
            for (f, o) in fs.iter().zip(Shape::field_offsets(fs)) {
                let flen = if f.is_sized() { f.size() } else { avail.saturating_sub(o) };
                constraints(f, b, off + o, flen, out);
            }
        }
    }
}

/// The same FlexVec sequence as another implementation might have encoded it: the last item carries its real offset and is
/// followed — after `slack` bytes (a multiple of the alignment) — by a terminating zero slot; the library itself always leaves the
/// `MAX` marker on the last item. `v` = `as_bytes().len()`, `z` = `size()` of the value in `state`. `None` when the vector is empty
/// or there is no room for the extra slot.
pub fn terminate_chain(state: &[u8], l: &LenS, os: usize, slack: usize, v: usize, z: usize) -> Option<Vec<u8>> {
    let dec = |b: &[u8]| -> u128 {
        let mut x = 0u128;
        if l.be { for &c in b { x = (x << 8) | c as u128; } } else { for &c in b.iter().rev() { x = (x << 8) | c as u128; } }
        x
    };
    let mut pos = 0usize;
    loop {
        if pos + l.size > state.len() { return None; }
        let next = dec(&state[pos..pos + l.size]);
        if next == 0 { return None; }
        if next == l.max() { break; }
        pos += next as usize;
    }
    if z < pos + os || z + slack + os > v || v > state.len() { return None; }
    let off = (z + slack - pos) as u128;
    if off >= l.max() { return None; }
    let mut out = state.to_vec();
    out[pos..pos + l.size].copy_from_slice(&l.encode(off));
    out[z + slack..z + slack + l.size].copy_from_slice(&l.encode(0));
    Some(out)
}
