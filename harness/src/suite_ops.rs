//! Operation histories on mapped containers (C11–C14).
//! `O <tid> <place> <a16> <pre> <op...> => <ret> <after> p=<probe> abs=<content the abstract sequence predicts> same=<0|1>`
//! Every step is a line of its own with the state before it, so the model replays steps independently while the
//! harness runs real multi-step histories.
use crate::{arena::*, err_str, guarded, hex, shape::*, Op, Rng, TypeOps, D};
use std::io::Write;

pub struct Cfg {
    pub seed: u64,
    pub thorough: bool,
    pub only: Option<usize>,
    pub from: usize,
    pub scale: usize,
}
const FILL: u8 = 0x6B;
pub fn probe_str(t: &dyn TypeOps, sl: &[u8]) -> String {
    match guarded(|| t.probe(sl)) {
        None => "PANIC".into(),
        Some(p) => match p.res {
            Err(e) => format!("err:{}", err_str(&e)),
            Ok((v, _s, z, w, _)) => format!("ok:v={}:z={}:{}", v, z, w.replace(' ', "_")),
        },
    }
}
fn strip_caps(w: &str) -> String {
    let mut out = String::new();
    let mut skipping = false;
    for c in w.chars() {
        if skipping && c.is_ascii_digit() { continue; }
        skipping = c == 'V' || c == 'S';
        out.push(c);
    }
    out
}
use crate::SIZE_PREFIX_DIFF;
/// one step on the real code: returns (ret, after bytes, probe)
pub fn exec_step(t: &dyn TypeOps, ar: &mut Arena, place: Place, pre: &[u8], op: &Op) -> (String, Vec<u8>, String, bool, bool) {
    let (start, sl) = ar.place(pre, place, FILL);
    let len = sl.len();
    let r = guarded(|| t.edit(sl, op));
    let ret = match r { None => "PANIC".to_string(), Some(Err(e)) => format!("notvalid:{}", err_str(&e)), Some(Ok(s)) => s };
    let after = sl.to_vec();
    let p = probe_str(t, sl);
    let remap = remap_same(t, sl);
    if !size_prefix_same(t, sl) { SIZE_PREFIX_DIFF.with(|c| c.set(true)); }
    let intact = ar.outside_intact(start, len, FILL);
    (ret, after, p, intact, remap)
}
/// the value's own bytes (`as_bytes()`) validate and map to the same state again: same extent, same `size()`, same content and
/// the same capacities
/// the first `size()` bytes alone validate and map to the same content with the same `size()` (C05, after an operation)
pub fn size_prefix_same(t: &dyn TypeOps, sl: &[u8]) -> bool {
    guarded(|| match t.probe(sl).res {
        Ok((_, _, z, _, w)) => z <= sl.len() && matches!(t.probe(&sl[..z]).res, Ok((_, _, z2, _, w2)) if z2 == z && w2 == w),
        Err(_) => true,
    }).unwrap_or(true)
}
pub fn remap_same(t: &dyn TypeOps, sl: &[u8]) -> bool {
    guarded(|| match t.probe(sl).res {
        Ok((v, _, z, wc, _)) => v <= sl.len() && matches!(t.probe(&sl[..v]).res, Ok((v2, _, z2, wc2, _)) if v2 == v && z2 == z && wc2 == wc),
        Err(_) => true,
    }).unwrap_or(true)
}

// ---- abstract state: the initialiser language doubles as the abstract value -------------------
fn abs_elems(d: &mut D) -> &mut Vec<Vec<u8>> {
    if let D::VecEmpty = d { *d = D::VecIter(vec![]); }
    if let D::VecArr(v) = d { *d = D::VecIter(std::mem::take(v)); }
    match d { D::VecIter(v) => v, _ => panic!("abs: not a vector") }
}
fn abs_items(d: &mut D) -> &mut Vec<D> {
    if let D::FlexEmpty = d { *d = D::FlexIter(vec![]); }
    match d { D::FlexIter(v) => v, _ => panic!("abs: not a flex vector") }
}
/// apply `op` with the outcome `ret` the implementation reported to the abstract value; returns the value the abstract
/// machine says the call returns (`None` when it has no opinion)
pub fn abs_apply(sh: &Shape, d: &mut D, op: &Op, ret: &str, cap: Option<usize>) -> Option<String> {
    let rv = |x: &[u8]| -> String { match sh { Shape::Vec(e, _) => render_sized(e, x).replace(' ', "_"), _ => hex(x) } };
    match op {
        Op::Push(x) => { let v = abs_elems(d); if cap.map(|c| v.len() < c).unwrap_or(ret == "ok") { v.push(x.clone()); Some("ok".into()) } else { Some("full".into()) } }
        Op::Pop => { let v = abs_elems(d); Some(match v.pop() { Some(x) => format!("some:{}", rv(&x)), None => "none".into() }) }
        Op::PushSlice(xs) => { let v = abs_elems(d); if cap.map(|c| v.len() + xs.len() <= c).unwrap_or(ret == "ok") { v.extend(xs.iter().cloned()); Some("ok".into()) } else { Some("full".into()) } }
        Op::Extend(xs) => { let v = abs_elems(d); match cap { Some(c) => { let room = c.saturating_sub(v.len()); v.extend(xs.iter().take(room).cloned()); } None => return None } Some("ok".into()) }
        Op::Truncate(n) => { let v = abs_elems(d); v.truncate(*n); Some("ok".into()) }
        Op::Clear => { match d { D::StrFrom(b) => b.clear(), _ => abs_elems(d).clear() } Some("ok".into()) }
        Op::Remove(i) => { let v = abs_elems(d); if *i < v.len() { Some(rv(&v.remove(*i))) } else { Some("PANIC".into()) } }
        Op::SwapRemove(i) => { let v = abs_elems(d); if *i < v.len() { Some(rv(&v.swap_remove(*i))) } else { Some("PANIC".into()) } }
        Op::Resize(n, x) => { let v = abs_elems(d); if *n <= v.len() { v.truncate(*n); Some("ok".into()) } else if cap.map(|c| *n <= c).unwrap_or(ret == "ok") { v.resize(*n, x.clone()); Some("ok".into()) } else { Some("PANIC".into()) } }
        Op::Set(i, x) => { let v = abs_elems(d); if *i < v.len() { v[*i] = x.clone(); Some("ok".into()) } else { Some("PANIC".into()) } }
        Op::PushChar(c) => { let mut b = [0u8; 4]; let s = char::from_u32(*c).unwrap().encode_utf8(&mut b).as_bytes().to_vec();
            if let D::StrFrom(cur) = d { if cap.map(|k| cur.len() + s.len() <= k).unwrap_or(ret == "ok") { cur.extend(s); Some("ok".into()) } else { Some("full".into()) } } else { panic!("abs: not a string") } }
        Op::PushStr(s) => { if let D::StrFrom(cur) = d { if cap.map(|k| cur.len() + s.len() <= k).unwrap_or(ret == "ok") { cur.extend(s.iter().cloned()); Some("ok".into()) } else { Some("full".into()) } } else { panic!("abs: not a string") } }
        Op::FPush(x) => { if ret == "ok" { abs_items(d).push(x.strip_def()); } None }
        Op::FPop => { let v = abs_items(d); Some(if v.pop().is_some() { "ok".into() } else { "empty".into() }) }
        Op::FTruncate(n) => { abs_items(d).truncate(*n); Some("ok".into()) }
        Op::FClear => { abs_items(d).clear(); Some("ok".into()) }
        Op::Item(i, o) => { let v = abs_items(d); if *i < v.len() { let e = match sh { Shape::Flex(e, _) => e, _ => panic!() }; abs_apply(e, &mut v[*i], o, ret, None) } else { Some("noitem".into()) } }
        Op::Assign(x) => { if ret == "ok" { *d = x.strip_def(); } None }
        Op::Last(o) => match (sh, d) {
            (Shape::UStruct(fs), D::Struct(_, l)) => abs_apply(fs.last().unwrap(), l, o, ret, None),
            // the unsized last field of the current variant; a variant without one leaves the value alone
            (Shape::UEnum(_, vs), D::Enum(k, _, Some(l))) if !vs[*k].last().map(|f| f.is_sized()).unwrap_or(true) => abs_apply(vs[*k].last().unwrap(), l, o, ret, None),
            (Shape::UEnum(..), D::Enum(..)) => Some("novariant".into()),
            _ => panic!("abs: not a struct / enum"),
        },
        Op::SetField(v, i, x) => match d {
            D::Struct(f, _) => { f[*i] = x.clone(); Some("ok".into()) }
            D::Enum(k, f, _) => { if k == v { f[*i] = x.clone(); Some("ok".into()) } else { Some("novariant".into()) } }
            _ => panic!("abs: not a struct / enum"),
        },
    }
}
/// capacity of the top-level container as the walk reports it (`V<cap>[` / `S<cap>:`)
pub fn top_cap(probe: &str) -> Option<usize> {
    let w = probe.splitn(4, ':').nth(3)?;
    let c = w.chars().next()?;
    if c != 'V' && c != 'S' { return None; }
    let digits: String = w[1..].chars().take_while(|c| c.is_ascii_digit()).collect();
    digits.parse().ok()
}

/// `shape::terminate_chain` on a state whose probe string (`ok:v=<as_bytes len>:z=<size()>:…`) is known
fn terminate_chain(state: &[u8], l: &crate::shape::LenS, os: usize, slack: usize, probe: &str) -> Option<Vec<u8>> {
    let mut it = probe.split(':');
    if it.next()? != "ok" { return None; }
    let v: usize = it.next()?.strip_prefix("v=")?.parse().ok()?;
    let z: usize = it.next()?.strip_prefix("z=")?.parse().ok()?;
    crate::shape::terminate_chain(state, l, os, slack, v, z)
}

pub fn gen_op(sh: &Shape, cur: &D, rng: &mut Rng, depth: usize) -> Op {
    match sh {
        Shape::Vec(e, _) => {
            let n = match cur { D::VecIter(v) | D::VecArr(v) => v.len(), _ => 0 };
            let idx = |rng: &mut Rng| -> usize { if n > 0 && rng.chance(4, 5) { rng.below(n as u64) as usize } else { n + rng.below(2) as usize } };
            match rng.below(14) {
                0..=3 => Op::Push(gen_sized(e, rng)),
                4 => Op::Pop,
                5 => Op::PushSlice((0..rng.below(4)).map(|_| gen_sized(e, rng)).collect()),
                // nested items: the capacity is not known to the abstract machine, so the silently truncating `extend` is top-level only
                6 if depth == 0 => Op::Extend((0..rng.below(5)).map(|_| gen_sized(e, rng)).collect()),
                6 => Op::PushSlice((0..rng.below(3)).map(|_| gen_sized(e, rng)).collect()),
                7 => Op::Truncate(rng.below(n as u64 + 2) as usize),
                8 => if rng.chance(1, 3) { Op::Clear } else { Op::Pop },
                9 => Op::Remove(idx(rng)),
                10 => Op::SwapRemove(idx(rng)),
                11 => Op::Resize(rng.below(n as u64 + 4) as usize, gen_sized(e, rng)),
                12 => Op::Set(idx(rng), gen_sized(e, rng)),
                _ => Op::Push(gen_sized(e, rng)),
            }
        }
        Shape::Str(_) => match rng.below(8) {
            0..=2 => Op::PushChar([0x61u32, 0x7a, 0xe9, 0x20ac, 0x10348, 0x41, 0x7ff, 0x800][rng.below(8) as usize]),
            3..=5 => Op::PushStr(["", "a", "bc", "é", "日本", "xyzw", "\u{10348}"][rng.below(7) as usize].as_bytes().to_vec()),
            6 => if rng.chance(1, 2) { Op::Clear } else { Op::PushStr(b"q".to_vec()) },
            _ => Op::PushStr(b"mn".to_vec()),
        },
        Shape::Flex(e, _) => {
            let n = match cur { D::FlexIter(v) => v.len(), _ => 0 };
            match rng.below(12) {
                0..=4 => Op::FPush(gen_init(e, rng, depth + 1)),
                5 => Op::FPop,
                6 => Op::FTruncate(rng.below(n as u64 + 2) as usize),
                7 => if rng.chance(1, 4) { Op::FClear } else { Op::FPop },
                8..=10 if n > 0 && (e.is_sized() || matches!(**e, Shape::Vec(..) | Shape::Str(..) | Shape::Flex(..) | Shape::UStruct(..) | Shape::UEnum(..))) => {
                    let i = rng.below(n as u64) as usize;
                    let item = match cur { D::FlexIter(v) => &v[i], _ => unreachable!() };
                    Op::Item(i, Box::new(gen_op(e, item, rng, depth + 1)))
                }
                _ => Op::FPush(gen_init(e, rng, depth + 1)),
            }
        }
        Shape::UStruct(fs) if fs.len() >= 2 || matches!(fs.last(), Some(Shape::Vec(..) | Shape::Str(..) | Shape::Flex(..))) => {
            // a write to a sized field, or — more often — an operation on the unsized last field (`msg.tail.push(..)`); a struct that is
            // nothing but its tail always gets the latter
            let lastsh = fs.last().unwrap();
            if (fs.len() < 2 || rng.chance(3, 5)) && matches!(lastsh, Shape::Vec(..) | Shape::Str(..) | Shape::Flex(..) | Shape::UStruct(..)) {
                let ld = match cur { D::Struct(_, l) => (**l).clone(), _ => D::VecEmpty };
                Op::Last(Box::new(gen_op(lastsh, &ld, rng, depth + 1)))
            } else {
                let i = rng.below(fs.len() as u64 - 1) as usize;
                Op::SetField(0, i, gen_sized(&fs[i], rng))
            }
        }
        Shape::UEnum(_, vs) => {
            // mostly the current variant; now and then another one (the accessor must then leave the value alone)
            let cur_v = match cur { D::Enum(k, _, _) => *k, _ => 0 };
            // an operation on the unsized last field of the current variant (top level only: the driver reads the variant from the value's tag)
            if depth == 0 && rng.chance(1, 2) {
                if let D::Enum(k, _, Some(l)) = cur {
                    if let Some(lastsh) = vs[*k].last() {
                        if matches!(lastsh, Shape::Vec(..) | Shape::Str(..) | Shape::Flex(..)) { return Op::Last(Box::new(gen_op(lastsh, l, rng, depth + 1))); }
                    }
                }
            }
            // … and now and then on a variant that has none: the value must be left alone
            if depth == 0 && rng.chance(1, 8) { if let D::Enum(_, _, None) = cur { return Op::Last(Box::new(Op::Clear)); } }
            let v = if rng.chance(5, 6) { cur_v } else { rng.below(vs.len() as u64) as usize };
            let sized: Vec<usize> = vs[v].iter().enumerate().filter(|(_, f)| f.is_sized()).map(|(j, _)| j).collect();
            if sized.is_empty() { Op::Assign(cur.clone()) } else { let i = sized[rng.below(sized.len() as u64) as usize]; Op::SetField(v, i, gen_sized(&vs[v][i], rng)) }
        }
        // inside a history of an enclosing container only the current content is assigned again (it fits, so the step cannot fail): a
        // *failed* assignment empties a container first (known finding F8b, C18's subject) and the abstract sequence would not follow it
        _ if depth > 0 => Op::Assign(cur.strip_def()),
        _ => Op::Assign(gen_init(sh, rng, depth + 1)),
    }
}
fn pc(p: Place) -> char { match p { Place::End => 'E', Place::Start => 'S', Place::Mid(_) => 'M' } }
fn a16_of(ar: &Arena, place: Place, len: usize) -> usize {
    match place { Place::End => (ar.addr_mod(0, 16) + PAGE - len % 16) % 16, Place::Start => ar.addr_mod(0, 16), Place::Mid(o) => (ar.addr_mod(0, 16) + 256 + o % 16) % 16 }
}

pub fn run(reg: &[Box<dyn TypeOps>], cfg: &Cfg, out: &mut dyn Write) {
    let mut ar = Arena::new(1);
    for (tid, t) in reg.iter().enumerate() {
        if let Some(o) = cfg.only { if o != tid { continue; } }
        if tid < cfg.from { continue; }
        let sh = parse(t.desc());
        let fielded = matches!(sh, Shape::UStruct(..) | Shape::UEnum(..));
        if !matches!(sh, Shape::Vec(..) | Shape::Str(..) | Shape::Flex(..)) && !fielded { continue; }
        let mut rng = Rng::new(cfg.seed ^ ((tid as u64 + 1) * 0x2545F491));
        let al = t.align();
        // boundary histories for 1-byte offset types: an item whose link offset lands on / next to `L::MAX`, then another push
        let mut boundary: Vec<(usize, Vec<Op>)> = vec![];
        if let Shape::Flex(e, l) = &sh {
            if l.size == 1 {
                for n in 244..=256usize {
                    let item = match &**e {
                        Shape::Vec(ee, _) if ee.size() == 1 => Some(D::VecIter((0..n).map(|i| gen_sized(ee, &mut Rng::new(i as u64))).collect())),
                        Shape::Str(_) => Some(D::StrFrom(vec![b'a'; n])),
                        _ => None,
                    };
                    if let Some(it) = item {
                        let small = gen_init(e, &mut rng, 1);
                        boundary.push((700, vec![Op::FPush(small.clone()), Op::FPush(it.clone()), Op::FPush(small.clone()), Op::FPop, Op::FPush(small.clone())]));
                        // … and the same item pushed onto an empty vector, onto one emptied by `pop`, and after `clear`
                        boundary.push((700, vec![Op::FPush(it.clone()), Op::FPush(small.clone()), Op::FPop, Op::FPop, Op::FPush(it.clone()), Op::FClear, Op::FPush(it), Op::FPush(small)]));
                    }
                }
            }
        }
        // … for 2-byte offset types, link offsets around 256 and 512 (S117)
        if let Shape::Flex(e, l) = &sh {
            if l.size == 2 {
                let lens: Vec<usize> = match &**e {
                    Shape::Vec(ee, il) if ee.size() == 1 => (246..=256usize).filter(|n| (*n as u128) <= il.max()).collect(),
                    Shape::Str(il) => (246..=256usize).chain(502..=512).filter(|n| (*n as u128) <= il.max()).collect(),
                    _ => vec![],
                };
                for n in lens {
                    let it = match &**e {
                        Shape::Vec(ee, _) => D::VecIter((0..n).map(|i| gen_sized(ee, &mut Rng::new(i as u64))).collect()),
                        _ => D::StrFrom(vec![b'a'; n]),
                    };
                    let small = gen_init(e, &mut rng, 1);
                    boundary.push((1400, vec![Op::FPush(small.clone()), Op::FPush(it), Op::FPush(small.clone()), Op::FPop, Op::FPush(small)]));
                }
            }
        }
        // … and for 2-byte offset types (S103): a string item of almost 64 KiB whose link offset lands on / next to `L::MAX` = 65535, then
        // another push (strings only, see above)
        if let Shape::Flex(e, l) = &sh {
            if l.size == 2 {
                if let Shape::Str(il) = &**e {
                    if il.size >= 2 {
                        let os = sh.data_offset();
                        let around = 65535usize.saturating_sub(os + il.size);
                        for n in [around.saturating_sub(al + 2), around.saturating_sub(1), around, around + 1] {
                            if n as u128 > il.max() { continue; }
                            let it = D::StrFrom(vec![b'a'; n]);
                            let small = D::StrFrom(b"b".to_vec());
                            boundary.push((65536 + 96, vec![Op::FPush(it), Op::FPush(small.clone()), Op::FPop, Op::FPush(small)]));
                        }
                    }
                }
            }
        }
        // nested FlexVec (S106): an empty inner vector as the last item, then a push of an inner vector whose items do not all fit — an
        // emplacer that has written before it fails — in rooms from tight to moderate; then the same once more after a pop
        if let Shape::Flex(e, _) = &sh {
            if let Shape::Flex(ee, _) = &**e {
                let many = D::FlexIter((0..14).map(|_| gen_init(ee, &mut rng, 2).strip_def()).collect());
                let one = D::FlexIter(vec![gen_init(ee, &mut rng, 2).strip_def()]);
                for r in (4..64).step_by(3) {
                    boundary.push((t.min_size() + r, vec![Op::FPush(D::FlexEmpty), Op::FPush(many.clone()), Op::FPush(one.clone()), Op::FPop, Op::FPush(D::FlexEmpty), Op::FPush(many.clone())]));
                }
            }
        }
        // tight rooms (S98): an item that is a struct or an enum pushed twice into an empty vector, in a buffer of *every* length from the
        // minimum up to where two such items fit comfortably — whichever length leaves exactly "one slot and a little" for a push is among them
        if let Shape::Flex(e, _) = &sh {
            if matches!(**e, Shape::UStruct(..) | Shape::UEnum(..)) {
                let os = sh.data_offset();
                let span = 2 * (os + 24) + 3 * al;
                for k in 0..(if cfg.thorough { 2 } else { 1 }) {
                    let it = gen_init(e, &mut Rng::new(cfg.seed ^ (tid as u64 * 31 + k)), 2);
                    for r in 0..span { boundary.push((t.min_size() + r, vec![Op::FPush(it.clone()), Op::FPush(it.clone())])); }
                }
            }
        }
        // capacities above what a 2-byte length type can count (a buffer of more than 64 KiB): the string is filled up to and across
        // `L::MAX` = 65535 (strings only: the model's element-wise rendering makes a 65 535-element vector too slow to replay)
        match &sh {
            Shape::Str(l) if l.size == 2 => {
                boundary.push((2 + 65536 + 6, vec![Op::PushStr(vec![b'a'; 65530]), Op::PushStr(b"bcd".to_vec()), Op::PushStr(b"ef".to_vec()), Op::PushStr(b"g".to_vec()),
                    Op::PushStr(b"h".to_vec()), Op::Clear, Op::PushStr(b"xy".to_vec())]));
            }
            _ => {}
        }
        let n_hist = boundary.len() + cfg.scale * if cfg.thorough { 60 } else { 10 } / if fielded { 2 } else { 1 };
        let n_steps = if fielded { 8 } else if cfg.thorough { 60 } else { 25 };
        for h in 0..n_hist {
            // buffer sizes: from the minimum to comfortably large; sometimes beyond what a u8 length can count
            let scripted: Option<Vec<Op>> = if h < boundary.len() { Some(boundary[h].1.clone()) } else { None };
            let room = if scripted.is_some() { boundary[h].0 } else { t.min_size() + match rng.below(6) { 0 => rng.below(3) as usize, 1 => rng.below(12) as usize, 2 | 3 => 8 + rng.below(40) as usize, 4 => 40 + rng.below(120) as usize, _ => 250 + rng.below(120) as usize } };
            let place = if (PAGE - room % PAGE) % al == 0 && h % 2 == 0 { Place::End } else { Place::Mid(0) };
            let mut state = rng.bytes(room);
            // start from the default (empty) container emplaced on garbage; a struct / enum from a generated content
            let d0 = match sh { Shape::Vec(..) => D::VecEmpty, Shape::Str(..) => D::StrFrom(vec![]), Shape::Flex(..) => D::FlexEmpty, _ => gen_init(&sh, &mut rng, 0).strip_def() };
            {
                let (_, sl) = ar.place(&state, place, FILL);
                if !matches!(guarded(|| t.new_in_place(sl, &d0)), Some(Ok(()))) { continue; }
                state = sl.to_vec();
            }
            let mut abs = match sh { Shape::Vec(..) => D::VecIter(vec![]), Shape::Str(..) => D::StrFrom(vec![]), Shape::Flex(..) => D::FlexIter(vec![]), _ => d0.clone() };
            let p0 = probe_str(t.as_ref(), { let (_, sl) = ar.place(&state, place, FILL); sl });
            let cap0 = top_cap(&p0);
            let steps = scripted.as_ref().map(|v| v.len()).unwrap_or(n_steps);
            let mut last_probe = p0.clone();
            for step in 0..steps {
                // now and then the state is re-encoded the way a foreign implementation could have written it (same sequence,
                // terminating slot instead of the `MAX` marker): a valid value the library's own operations never produce
                if scripted.is_none() {
                    if let Shape::Flex(_, l) = &sh {
                        if rng.chance(1, 6) {
                            let slack = al * [0usize, 0, 1, 2][rng.below(4) as usize];
                            if let Some(s2) = terminate_chain(&state, l, sh.data_offset(), slack, &last_probe) { state = s2; }
                        }
                    }
                }
                let op = match &scripted { Some(v) => v[step].clone(), None => gen_op(&sh, &abs, &mut rng, 0) };
                let a16 = a16_of(&ar, place, room);
                write!(out, "O {} {} {} {} {} => ", tid, pc(place), a16, hex(&state), op.text()).unwrap();
                out.flush().unwrap();
                let before = probe_str(t.as_ref(), { let (_, sl) = ar.place(&state, place, FILL); sl });
                let (ret, after, p, intact, remap) = exec_step(t.as_ref(), &mut ar, place, &state, &op);
                let want = abs_apply(&sh, &mut abs, &op, &ret, cap0);
                let absr = render_init(&sh, &abs).replace(' ', "_");
                let capn = top_cap(&p);
                write!(out, "{} {} p={} abs={} same={}", ret, hex(&after), p, absr, if strip_caps(&before) == strip_caps(&p) { 1 } else { 0 }).unwrap();
                if let Some(w) = &want { write!(out, " want={}", w).unwrap(); }
                if capn != cap0 { write!(out, " CAP-CHANGED").unwrap(); }
                if !remap { write!(out, " REMAP-DIFF").unwrap(); }
                if SIZE_PREFIX_DIFF.with(|c| c.replace(false)) { write!(out, " SIZE-PREFIX-DIFF").unwrap(); }
                if !intact { write!(out, " OUTSIDE-WRITTEN").unwrap(); }
                writeln!(out).unwrap();
                if ret == "PANIC" && want.as_deref() != Some("PANIC") { break; }
                if !p.starts_with("ok:") { break; }
                last_probe = p.clone();
                state = after;
            }
        }
    }
}
/// re-execute a recorded `O` left-hand side (without the abstract-state columns)
pub fn exec_line(reg: &[Box<dyn TypeOps>], ar: &mut Arena, lhs: &str, out: &mut dyn Write) {
    let f: Vec<&str> = lhs.splitn(6, ' ').collect();
    let tid: usize = f[1].parse().unwrap();
    let a16: usize = f[3].parse().unwrap();
    let t = reg[tid].as_ref();
    let pre = crate::unhex(f[4]);
    let place = match f[2] { "E" => Place::End, "S" => Place::Start, _ => Place::Mid((a16 + 16 - (ar.addr_mod(0, 16) + 256) % 16) % 16) };
    let op = Op::parse(f[5]);
    write!(out, "{} => ", lhs).unwrap();
    out.flush().unwrap();
    let before = probe_str(t, { let (_, sl) = ar.place(&pre, place, FILL); sl });
    let (ret, after, p, intact, remap) = exec_step(t, ar, place, &pre, &op);
    write!(out, "{} {} p={} same={}", ret, hex(&after), p, if strip_caps(&before) == strip_caps(&p) { 1 } else { 0 }).unwrap();
    if !remap { write!(out, " REMAP-DIFF").unwrap(); }
    if SIZE_PREFIX_DIFF.with(|c| c.replace(false)) { write!(out, " SIZE-PREFIX-DIFF").unwrap(); }
    if !intact { write!(out, " OUTSIDE-WRITTEN").unwrap(); }
    writeln!(out).unwrap();
}
