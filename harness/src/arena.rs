//! Guarded arena: a run of pages with a `PROT_NONE` page on either side, so that any access
//! outside the slice handed to the library that crosses the edge faults at once.
use std::ffi::c_void;
extern "C" {
    fn mmap(addr: *mut c_void, len: usize, prot: i32, flags: i32, fd: i32, off: i64) -> *mut c_void;
    fn mprotect(addr: *mut c_void, len: usize, prot: i32) -> i32;
}
const PROT_NONE: i32 = 0;
const PROT_READ: i32 = 1;
const PROT_WRITE: i32 = 2;
const MAP_PRIVATE: i32 = 2;
const MAP_ANONYMOUS: i32 = 0x20;
pub const PAGE: usize = 4096;

pub struct Arena {
    base: *mut u8,
    pages: usize,
}
unsafe impl Send for Arena {}
#[derive(Clone, Copy, PartialEq, Debug)]
pub enum Place {
    /// slice ends exactly at the end guard page
    End,
    /// slice starts exactly after the start guard page
    Start,
    /// in the middle, at the given address offset modulo 16, surrounded by canaries
    Mid(usize),
}
impl Arena {
    pub fn new(pages: usize) -> Self {
        unsafe {
            let total = (pages + 2) * PAGE;
            let p = mmap(std::ptr::null_mut(), total, PROT_READ | PROT_WRITE, MAP_PRIVATE | MAP_ANONYMOUS, -1, 0);
            assert!(p as isize != -1, "mmap failed");
            let p = p as *mut u8;
            assert_eq!(mprotect(p as *mut c_void, PAGE, PROT_NONE), 0);
            assert_eq!(mprotect(p.add((pages + 1) * PAGE) as *mut c_void, PAGE, PROT_NONE), 0);
            Arena { base: p.add(PAGE), pages }
        }
    }
    pub fn capacity(&self) -> usize {
        self.pages * PAGE
    }
    /// Fill the whole arena with `fill`, copy `content` to the chosen place and return the slice.
    /// The returned offset is the slice's start within the arena.
    pub fn place(&mut self, content: &[u8], place: Place, fill: u8) -> (usize, &mut [u8]) {
        let len = content.len();
        if len + 320 > self.capacity() {
            // a larger arena on demand (the old mapping is left in place; page-aligned bases keep every address residue)
            *self = Arena::new((len + 320) / PAGE + 1);
        }
        let cap = self.capacity();
        assert!(len + 64 <= cap);
        let all = unsafe { std::slice::from_raw_parts_mut(self.base, cap) };
        // only refresh the neighbourhood that can have been touched (whole arena is small anyway)
        for b in all.iter_mut() {
            *b = fill;
        }
        let start = match place {
            Place::End => cap - len,
            Place::Start => 0,
            Place::Mid(off) => 256 + (off % 16),
        };
        all[start..start + len].copy_from_slice(content);
        (start, &mut all[start..start + len])
    }
    /// every byte outside `[start, start+len)` still equals `fill`?
    pub fn outside_intact(&self, start: usize, len: usize, fill: u8) -> bool {
        let all = unsafe { std::slice::from_raw_parts(self.base, self.capacity()) };
        all[..start].iter().all(|b| *b == fill) && all[start + len..].iter().all(|b| *b == fill)
    }
    pub fn addr_mod(&self, start: usize, m: usize) -> usize {
        (self.base as usize + start) % m
    }
}
