//! Portable scalars (C16): every type × values (exhaustive for 16-bit), every trait method against the native type.
//!  `PC <be> <n> <s|u|f> <native value as LE hex> => bytes=<stored> back=<to_native as LE hex> rt=<from_bytes∘to_bytes> al=<align> sz=<size> u64=<..> i64=<..> usize=<..> nat=<0|1>`
//!  `PO <be> <n> <s|u> <op> <x LE hex> <y LE hex> => <result LE hex | PANIC> cmp=<lt|eq|gt> eq=<0|1> nat=<0|1>`
//!  `PF <be> <n> <s|u> <from_u64|from_i64|from_usize> <arg LE hex (8 bytes)> => <some:LE hex | none> nat=<0|1>`
//!  `PX <be> <n> f <op> <x> <y> => nat=<0|1>`        float arithmetic / comparison against the native type only
//!  `PB <op> <a> <b> => nat=<0|1>`                    Bool operators against `bool`
use crate::{guarded, hex, Rng};
use flatty::portable::{be, le, Bool};
use flatty::prelude::*;
use num_traits::{Bounded, FromPrimitive, One, ToPrimitive, Zero};
use std::io::Write;

pub struct Cfg {
    pub seed: u64,
    pub thorough: bool,
}
fn opt<T: std::fmt::Display>(o: Option<T>) -> String {
    match o { Some(v) => format!("{}", v), None => "none".into() }
}
/// `Neg` and `num_traits::Signed` of the signed portable integers against the native type (where the native operation does not overflow)
macro_rules! signed_ext {
    ("s", $P:ty, $N:ty, $p:expr, $q:expr, $a:expr, $b:expr) => {{
        use num_traits::Signed;
        let mut ok = true;
        if let Some(rn) = $a.checked_neg() { let r: $N = (-$p).into(); ok &= r == rn; }
        if let Some(rn) = $a.checked_abs() { let r: $N = Signed::abs(&$p).into(); ok &= r == rn; }
        if $a.checked_sub($b).is_some() { let r: $N = Signed::abs_sub(&$p, &$q).into(); ok &= r == Signed::abs_sub(&$a, &$b); }
        let r: $N = Signed::signum(&$p).into();
        ok &= r == $a.signum() && Signed::is_positive(&$p) == $a.is_positive() && Signed::is_negative(&$p) == $a.is_negative();
        ok
    }};
    ("u", $P:ty, $N:ty, $p:expr, $q:expr, $a:expr, $b:expr) => { true };
}
macro_rules! int_suite {
    ($fname:ident, $P:ty, $N:ty, $be:expr, $n:expr, $sign:tt) => {
        fn $fname(cfg: &Cfg, rng: &mut Rng, out: &mut dyn Write) {
            let bytes_of = |x: $N| -> Vec<u8> { x.to_le_bytes().to_vec() };
            let codec = |x: $N, out: &mut dyn Write| {
                // the case is on the output before the library is called: a call that aborts or never returns is identified by its line
                write!(out, "PC {} {} {} {} => ", $be as u8, $n, $sign, hex(&bytes_of(x))).unwrap(); out.flush().unwrap();
                let p = <$P>::from(x);
                let stored = p.to_bytes();
                let back: $N = p.into();
                let rt = <$P>::from_bytes(stored).to_bytes();
                let want = if $be { x.to_be_bytes() } else { x.to_le_bytes() };
                let nat = stored == want && back == x && rt == stored
                    && ToPrimitive::to_u64(&p) == ToPrimitive::to_u64(&x) && ToPrimitive::to_i64(&p) == ToPrimitive::to_i64(&x) && ToPrimitive::to_usize(&p) == ToPrimitive::to_usize(&x)
                    && p.is_zero() == (x == 0)
                    && <$P as FlatBase>::ALIGN == 1 && std::mem::align_of::<$P>() == 1 && std::mem::size_of::<$P>() == $n && <$P as flatty::FlatSized>::SIZE == $n;
                writeln!(out, "bytes={} back={} rt={} al={} sz={} u64={} i64={} usize={} nat={}",
                    hex(&stored), hex(&bytes_of(back)), hex(&rt), <$P as FlatBase>::ALIGN, std::mem::size_of::<$P>(),
                    opt(ToPrimitive::to_u64(&p)), opt(ToPrimitive::to_i64(&p)), opt(ToPrimitive::to_usize(&p)), nat as u8).unwrap();
            };
            let boundary: Vec<$N> = vec![0, 1, 2, <$N>::MAX, <$N>::MAX - 1, <$N>::MIN, <$N>::MIN + 1, <$N>::MAX / 2, <$N>::MAX / 2 + 1, 0x7f as $N, 0x80u8 as $N, 0xff as $N, 0x100 as $N, (0 as $N).wrapping_sub(1), (0 as $N).wrapping_sub(2), 3, 7, 10];
            if $n == 2 {
                let mut v: u32 = 0;
                while v < 65536 { codec(v as u16 as $N, out); v += 1; }
            } else {
                for x in &boundary { codec(*x, out); }
                for _ in 0..(if cfg.thorough { 20000 } else { 2000 }) { codec(rng.next() as $N, out); }
            }
            // constants
            write!(out, "PK {} {} {} consts => ", $be as u8, $n, $sign).unwrap(); out.flush().unwrap();
            let consts_ok = <$P>::zero() == <$P>::from(0 as $N) && <$P>::one() == <$P>::from(1 as $N) && <$P>::min_value() == <$P>::from(<$N>::MIN) && <$P>::max_value() == <$P>::from(<$N>::MAX);
            writeln!(out, "zero={} one={} min={} max={} nat={}", hex(&<$P>::zero().to_bytes()), hex(&<$P>::one().to_bytes()), hex(&<$P>::min_value().to_bytes()), hex(&<$P>::max_value().to_bytes()), consts_ok as u8).unwrap();
            // binary operators, ordering, equality
            let mut pairs: Vec<($N, $N)> = vec![];
            for a in &boundary { for b in &boundary { pairs.push((*a, *b)); } }
            for _ in 0..(if cfg.thorough { 20000 } else { 1500 }) {
                let a = rng.next() as $N; let b = if rng.chance(1, 4) { a } else if rng.chance(1, 3) { (rng.next() % 5) as $N } else { rng.next() as $N };
                pairs.push((a, b));
            }
            for (a, b) in pairs {
                let (p, q) = (<$P>::from(a), <$P>::from(b));
                for op in ["add", "sub", "mul", "div", "rem"] {
                    write!(out, "PO {} {} {} {} {} {} => ", $be as u8, $n, $sign, op, hex(&bytes_of(a)), hex(&bytes_of(b))).unwrap(); out.flush().unwrap();
                    let r = guarded(|| match op { "add" => p + q, "sub" => p - q, "mul" => p * q, "div" => p / q, _ => p % q });
                    let rn = guarded(|| match op { "add" => a + b, "sub" => a - b, "mul" => a * b, "div" => a / b, _ => a % b });
                    let nat = match (&r, &rn) { (None, None) => true, (Some(x), Some(y)) => { let xb: $N = (*x).into(); xb == *y } _ => false };
                    let rs = match r { None => "PANIC".to_string(), Some(x) => { let xb: $N = x.into(); hex(&bytes_of(xb)) } };
                    writeln!(out, "{} nat={}", rs, nat as u8).unwrap();
                }
                write!(out, "PO {} {} {} cmp {} {} => ", $be as u8, $n, $sign, hex(&bytes_of(a)), hex(&bytes_of(b))).unwrap(); out.flush().unwrap();
                let c = p.cmp(&q);
                let pc = p.partial_cmp(&q);
                let eq = p == q;
                let nat = c == a.cmp(&b) && pc == Some(a.cmp(&b)) && eq == (p.to_bytes() == q.to_bytes()) && eq == (a == b);
                writeln!(out, "{} eq={} nat={}", match c { std::cmp::Ordering::Less => "lt", std::cmp::Ordering::Equal => "eq", _ => "gt" }, eq as u8, nat as u8).unwrap();
                // the compound-assignment operators, `NumCast`, `Num::from_str_radix`, `Display` / `Debug` (native oracle only);
                // the arithmetic ones only where the native operation does not overflow or divide by zero (those panic: `PO` lines)
                write!(out, "PX {} {} {} iext {} {} => ", $be as u8, $n, $sign, hex(&bytes_of(a)), hex(&bytes_of(b))).unwrap(); out.flush().unwrap();
                let same = |r: $P, rn: $N| { let r: $N = r.into(); r == rn };
                let mut ext = true;
                if let Some(rn) = a.checked_add(b) { let mut t = p; t += q; ext &= same(t, rn); }
                if let Some(rn) = a.checked_sub(b) { let mut t = p; t -= q; ext &= same(t, rn); }
                if let Some(rn) = a.checked_mul(b) { let mut t = p; t *= q; ext &= same(t, rn); }
                if let Some(rn) = a.checked_div(b) { let mut t = p; t /= q; ext &= same(t, rn); }
                if let Some(rn) = a.checked_rem(b) { let mut t = p; t %= q; ext &= same(t, rn); }
                ext &= <$P as num_traits::NumCast>::from(b).map(|v| { let n: $N = v.into(); n }) == <$N as num_traits::NumCast>::from(b);
                ext &= <$P as num_traits::NumCast>::from(a as i64).map(|v| { let n: $N = v.into(); n }) == <$N as num_traits::NumCast>::from(a as i64);
                ext &= <$P as num_traits::NumCast>::from(a as u64).map(|v| { let n: $N = v.into(); n }) == <$N as num_traits::NumCast>::from(a as u64);
                ext &= <$P as num_traits::NumCast>::from(a as f64).map(|v| { let n: $N = v.into(); n }) == <$N as num_traits::NumCast>::from(a as f64);
                ext &= format!("{}", p) == format!("{}", a) && format!("{:?}", p) == format!("{:?}", a);
                for radix in [2u32, 10, 16] {
                    let txt = match radix { 2 => format!("{:b}", b), 16 => format!("{:x}", b), _ => format!("{}", b) };
                    ext &= <$P as num_traits::Num>::from_str_radix(&txt, radix).ok().map(|v| { let n: $N = v.into(); n }) == <$N as num_traits::Num>::from_str_radix(&txt, radix).ok();
                }
                ext &= <$P as num_traits::Num>::from_str_radix("zz", 10).is_err() && <$P as num_traits::Num>::from_str_radix("", 10).is_err();
                ext &= signed_ext!($sign, $P, $N, p, q, a, b);
                writeln!(out, "nat={}", ext as u8).unwrap();
            }
            // conversions from the integers containers use for lengths
            let args: Vec<u64> = vec![0, 1, 0x7f, 0x80, 0xff, 0x100, 0x7fff, 0x8000, 0xffff, 0x10000, 0x7fffffff, 0x80000000, 0xffffffff, 0x100000000, 0x7fffffffffffffff, 0x8000000000000000, u64::MAX, u64::MAX - 1];
            let mut all = args.clone();
            for _ in 0..(if cfg.thorough { 2000 } else { 200 }) { all.push(rng.next() >> (rng.below(64) as u32)); }
            for v in all {
                write!(out, "PF {} {} {} from_u64 {} => ", $be as u8, $n, $sign, hex(&v.to_le_bytes())).unwrap(); out.flush().unwrap();
                let r = <$P as FromPrimitive>::from_u64(v); let rn = <$N as FromPrimitive>::from_u64(v);
                writeln!(out, "{} nat={}", match r { Some(x) => { let xb: $N = x.into(); format!("some:{}", hex(&bytes_of(xb))) } None => "none".into() }, (r.map(|x| { let xb: $N = x.into(); xb }) == rn) as u8).unwrap();
                let vi = v as i64;
                write!(out, "PF {} {} {} from_i64 {} => ", $be as u8, $n, $sign, hex(&v.to_le_bytes())).unwrap(); out.flush().unwrap();
                let r = <$P as FromPrimitive>::from_i64(vi); let rn = <$N as FromPrimitive>::from_i64(vi);
                writeln!(out, "{} nat={}", match r { Some(x) => { let xb: $N = x.into(); format!("some:{}", hex(&bytes_of(xb))) } None => "none".into() }, (r.map(|x| { let xb: $N = x.into(); xb }) == rn) as u8).unwrap();
                let vu = v as usize;
                write!(out, "PF {} {} {} from_usize {} => ", $be as u8, $n, $sign, hex(&v.to_le_bytes())).unwrap(); out.flush().unwrap();
                let r = <$P as FromPrimitive>::from_usize(vu); let rn = <$N as FromPrimitive>::from_usize(vu);
                writeln!(out, "{} nat={}", match r { Some(x) => { let xb: $N = x.into(); format!("some:{}", hex(&bytes_of(xb))) } None => "none".into() }, (r.map(|x| { let xb: $N = x.into(); xb }) == rn) as u8).unwrap();
            }
        }
    };
}
int_suite!(le_u16, le::U16, u16, false, 2, "u");
int_suite!(le_u32, le::U32, u32, false, 4, "u");
int_suite!(le_u64, le::U64, u64, false, 8, "u");
int_suite!(le_i16, le::I16, i16, false, 2, "s");
int_suite!(le_i32, le::I32, i32, false, 4, "s");
int_suite!(le_i64, le::I64, i64, false, 8, "s");
int_suite!(be_u16, be::U16, u16, true, 2, "u");
int_suite!(be_u32, be::U32, u32, true, 4, "u");
int_suite!(be_u64, be::U64, u64, true, 8, "u");
int_suite!(be_i16, be::I16, i16, true, 2, "s");
int_suite!(be_i32, be::I32, i32, true, 4, "s");
int_suite!(be_i64, be::I64, i64, true, 8, "s");

macro_rules! float_suite {
    ($fname:ident, $P:ty, $N:ty, $B:ty, $be:expr, $n:expr) => {
        fn $fname(cfg: &Cfg, rng: &mut Rng, out: &mut dyn Write) {
            let codec = |bits: $B, out: &mut dyn Write| {
                write!(out, "PC {} {} f {} => ", $be as u8, $n, hex(&bits.to_le_bytes())).unwrap(); out.flush().unwrap();
                let x = <$N>::from_bits(bits);
                let p = <$P>::from(x);
                let stored = p.to_bytes();
                let back: $N = p.into();
                let rt = <$P>::from_bytes(stored).to_bytes();
                let want = if $be { x.to_be_bytes() } else { x.to_le_bytes() };
                let nat = stored == want && back.to_bits() == bits && rt == stored
                    && ToPrimitive::to_u64(&p) == ToPrimitive::to_u64(&x) && ToPrimitive::to_i64(&p) == ToPrimitive::to_i64(&x)
                    && Zero::is_zero(&p) == Zero::is_zero(&x)
                    && <$P as num_traits::NumCast>::from(bits as usize).map(|v| v.to_bytes()) == <$N as num_traits::NumCast>::from(bits as usize).map(|v| <$P>::from(v).to_bytes())
                    && ToPrimitive::to_usize(&p) == ToPrimitive::to_usize(&x)
                    && <$P as num_traits::NumCast>::from(bits as u64).map(|v| v.to_bytes()) == <$N as num_traits::NumCast>::from(bits as u64).map(|v| <$P>::from(v).to_bytes())
                    && <$P as FromPrimitive>::from_u64(bits as u64).map(|v| v.to_bytes()) == <$N as FromPrimitive>::from_u64(bits as u64).map(|v| <$P>::from(v).to_bytes())
                    && <$P as FromPrimitive>::from_i64(bits as i64).map(|v| v.to_bytes()) == <$N as FromPrimitive>::from_i64(bits as i64).map(|v| <$P>::from(v).to_bytes())
                    && <$P as FlatBase>::ALIGN == 1 && std::mem::align_of::<$P>() == 1 && std::mem::size_of::<$P>() == $n;
                writeln!(out, "bytes={} back={} rt={} al={} sz={} nat={}", hex(&stored), hex(&back.to_bits().to_le_bytes()), hex(&rt), <$P as FlatBase>::ALIGN, std::mem::size_of::<$P>(), nat as u8).unwrap();
            };
            let special: Vec<$N> = vec![0.0, -0.0, 1.0, -1.0, <$N>::MAX, <$N>::MIN, <$N>::MIN_POSITIVE, <$N>::INFINITY, <$N>::NEG_INFINITY, <$N>::NAN, <$N>::EPSILON, 0.1, 1e10, -2.5];
            let mut bits: Vec<$B> = special.iter().map(|x| x.to_bits()).collect();
            // NaN payloads, subnormals
            let exp_all: $B = <$N>::INFINITY.to_bits();
            bits.push(exp_all | 1); bits.push(exp_all | (exp_all >> 1)); bits.push(exp_all | 0x12345 as $B); bits.push((exp_all | 1) | (1 << ($n * 8 - 1))); bits.push(1); bits.push(0x7ff as $B);
            for _ in 0..(if cfg.thorough { 20000 } else { 3000 }) { bits.push(rng.next() as $B); }
            for b in &bits { codec(*b, out); }
            let vals: Vec<$N> = bits.iter().take(40).map(|b| <$N>::from_bits(*b)).collect();
            for a in &vals { for b in &vals {
                let (p, q) = (<$P>::from(*a), <$P>::from(*b));
                for op in ["add", "sub", "mul", "div", "rem"] {
                    write!(out, "PX {} {} f {} {} {} => ", $be as u8, $n, op, hex(&a.to_bits().to_le_bytes()), hex(&b.to_bits().to_le_bytes())).unwrap(); out.flush().unwrap();
                    let r: $N = match op { "add" => p + q, "sub" => p - q, "mul" => p * q, "div" => p / q, _ => p % q }.into();
                    let rn: $N = match op { "add" => a + b, "sub" => a - b, "mul" => a * b, "div" => a / b, _ => a % b };
                    let nat = r.to_bits() == rn.to_bits() || (r.is_nan() && rn.is_nan());
                    writeln!(out, "nat={}", nat as u8).unwrap();
                }
                write!(out, "PX {} {} f cmp {} {} => ", $be as u8, $n, hex(&a.to_bits().to_le_bytes()), hex(&b.to_bits().to_le_bytes())).unwrap(); out.flush().unwrap();
                let assign_ok = {
                    let same = |r: $P, rn: $N| { let r: $N = r.into(); r.to_bits() == rn.to_bits() || (r.is_nan() && rn.is_nan()) };
                    let mut t = p; t += q; let o1 = same(t, a + b);
                    let mut t = p; t -= q; let o2 = same(t, a - b);
                    let mut t = p; t *= q; let o3 = same(t, a * b);
                    let mut t = p; t /= q; let o4 = same(t, a / b);
                    let mut t = p; t %= q; let o5 = same(t, a % b);
                    o1 && o2 && o3 && o4 && o5
                };
                let nat = assign_ok && p.partial_cmp(&q) == a.partial_cmp(b) && (p == q) == (p.to_bytes() == q.to_bytes()) && (-p).to_bytes() == <$P>::from(-*a).to_bytes();
                writeln!(out, "nat={}", nat as u8).unwrap();
            } }
            write!(out, "PX {} {} f consts - - => ", $be as u8, $n).unwrap(); out.flush().unwrap();
            let radix_ok = ["0", "-0", "1.5", "-2.25", "1e3", "inf", "nan", "x", "", "7"].iter().all(|t| {
                let a = <$P as num_traits::Num>::from_str_radix(t, 10).ok().map(|v| { let n: $N = v.into(); n.to_bits() });
                let b = <$N as num_traits::Num>::from_str_radix(t, 10).ok().map(|v| v.to_bits());
                a == b || (a.is_some() && b.is_some() && <$N>::from_bits(a.unwrap()).is_nan() && <$N>::from_bits(b.unwrap()).is_nan())
            });
            let consts_ok = radix_ok && <$P>::zero().to_bytes() == <$P>::from(0.0 as $N).to_bytes() && <$P>::one().to_bytes() == <$P>::from(1.0 as $N).to_bytes() && <$P>::min_value().to_bytes() == <$P>::from(<$N>::MIN).to_bytes() && <$P>::max_value().to_bytes() == <$P>::from(<$N>::MAX).to_bytes();
            writeln!(out, "nat={}", consts_ok as u8).unwrap();
        }
    };
}
float_suite!(le_f32, le::F32, f32, u32, false, 4);
float_suite!(le_f64, le::F64, f64, u64, false, 8);
float_suite!(be_f32, be::F32, f32, u32, true, 4);
float_suite!(be_f64, be::F64, f64, u64, true, 8);

pub fn run(cfg: &Cfg, out: &mut dyn Write) {
    let mut rng = Rng::new(cfg.seed ^ 0xC16);
    le_u16(cfg, &mut rng, out); le_u32(cfg, &mut rng, out); le_u64(cfg, &mut rng, out);
    le_i16(cfg, &mut rng, out); le_i32(cfg, &mut rng, out); le_i64(cfg, &mut rng, out);
    be_u16(cfg, &mut rng, out); be_u32(cfg, &mut rng, out); be_u64(cfg, &mut rng, out);
    be_i16(cfg, &mut rng, out); be_i32(cfg, &mut rng, out); be_i64(cfg, &mut rng, out);
    le_f32(cfg, &mut rng, out); le_f64(cfg, &mut rng, out); be_f32(cfg, &mut rng, out); be_f64(cfg, &mut rng, out);
    // Bool: stored byte, operators, validation of every byte value
    for a in [false, true] { for b in [false, true] {
        write!(out, "PB ops {} {} => ", a as u8, b as u8).unwrap(); out.flush().unwrap();
        let (p, q) = (Bool::from(a), Bool::from(b));
        let nat = bool::from(!p) == !a && bool::from(p & q) == (a & b) && bool::from(p | q) == (a | b) && bool::from(p ^ q) == (a ^ b)
            && p.as_bytes() == [a as u8] && (p == q) == (a == b) && p.cmp(&q) == a.cmp(&b) && std::mem::size_of::<Bool>() == 1 && <Bool as FlatBase>::ALIGN == 1 && Bool::default() == Bool::False;
        let assign = { let mut t = p; t &= q; let o1 = bool::from(t) == (a & b); let mut t = p; t |= q; let o2 = bool::from(t) == (a | b); let mut t = p; t ^= q; o1 && o2 && bool::from(t) == (a ^ b) };
        let nat = nat && assign && format!("{:?}", p) == format!("{:?}", if a { Bool::True } else { Bool::False });
        writeln!(out, "stored={} nat={}", hex(p.as_bytes()), nat as u8).unwrap();
    } }
    for v in 0..=255u8 {
        write!(out, "PB validate {} - => ", v).unwrap(); out.flush().unwrap();
        let r = Bool::validate(&[v]);
        writeln!(out, "{} nat={}", if r.is_ok() { "ok" } else { "err" }, (r.is_ok() == (v <= 1)) as u8).unwrap();
    }
}
