//! Case generation for the IO suites.
use crate::{guarded, hex, shape::*, suite_io::*, Op, Rng, TypeOps, D};
use std::io::Write;

pub struct Cfg {
    pub seed: u64,
    pub thorough: bool,
    pub only: Option<usize>,
    pub from: usize,
    pub scale: usize,
    pub which: String, // "blocking" | "async"
}
fn inits_text(v: &[D]) -> String {
    v.iter().map(|d| d.text()).collect::<Vec<_>>().join("|")
}
/// operations that cannot panic and need no `Clone` helper: the rest is replaced or dropped
fn tame(op: Op) -> Option<Op> {
    match op {
        Op::Push(_) | Op::Pop | Op::Truncate(_) | Op::Clear | Op::PushChar(_) | Op::PushStr(_) | Op::FPush(_) | Op::FPop | Op::FTruncate(_) | Op::FClear => Some(op),
        Op::Item(i, inner) => tame(*inner).map(|o| Op::Item(i, Box::new(o))),
        Op::Last(inner) => tame(*inner).map(|o| Op::Last(Box::new(o))),
        Op::SetField(..) => Some(op),
        _ => None,
    }
}
fn size_of_init(t: &dyn TypeOps, d: &D, big: &mut Vec<u8>) -> Option<usize> {
    let base = { let p = big.as_ptr() as usize; (16 - p % 16) % 16 };
    for b in big[base..base + 1024].iter_mut() { *b = 0; }
    match guarded(|| t.new_in_place(&mut big[base..base + 1024], d)) {
        Some(Ok(())) => match guarded(|| t.probe(&big[base..base + 1024]).res) { Some(Ok((_, _, z, _, _))) => Some(z), _ => None },
        _ => None,
    }
}
/// a composition of `total` into chunk sizes
fn composition(rng: &mut Rng, total: usize, maxmax: usize) -> Vec<Ev> {
    let maxchunk = 1 + rng.below(maxmax as u64) as usize;
    let mut v = vec![];
    let mut left = total;
    while left > 0 {
        let k = 1 + rng.below(maxchunk.min(left) as u64) as usize;
        v.push(Ev::N(k));
        left -= k;
    }
    v
}
fn with_pendings(rng: &mut Rng, s: &[Ev], density: u64) -> Vec<Ev> {
    let mut out = vec![];
    for e in s {
        while rng.chance(density, 10) { out.push(Ev::Pending); }
        out.push(*e);
    }
    out
}
fn wfail(rng: &mut Rng) -> Ev { Ev::Fail(rng.below(N_WRITE_KINDS) as u8) }
fn rfail(rng: &mut Rng) -> Ev { Ev::Fail(rng.below(N_READ_KINDS) as u8) }
pub fn run(reg: &[Box<dyn TypeOps>], defaults: &[Option<&'static str>], cfg: &Cfg, out: &mut dyn Write) {
    let mut big = vec![0u8; 2048];
    let is_async = cfg.which == "async";
    for (tid, t) in reg.iter().enumerate() {
        if let Some(o) = cfg.only { if o != tid { continue; } }
        if tid < cfg.from { continue; }
        if t.min_size() == 0 { continue; }
        let sh = parse(t.desc());
        // sized leaves are covered by a few representatives; every unsized type is a message type
        if sh.is_sized() && !(tid % 5 == 0 || sh.constrained()) { continue; }
        let mut rng = Rng::new(cfg.seed ^ ((tid as u64 + 1) * 0x9E3779B1) ^ if is_async { 0xA5A5 } else { 0 });
        let n_seq = cfg.scale * if cfg.thorough { 12 } else { 3 };
        for _ in 0..n_seq {
            // a message sequence; messages that do not fit in 300 bytes are skipped
            let nmsg = 1 + rng.below(4) as usize;
            let mut inits = vec![];
            let mut sizes = vec![];
            for _ in 0..nmsg {
                // now and then the type's default, written through the send guard's own `default_in_place`
                let d = match defaults[tid] { Some(spec) if rng.chance(1, 5) => D::Def(Box::new(crate::parse_ds(spec).remove(0))), _ => gen_init(&sh, &mut rng, 0) };
                if let Some(z) = size_of_init(t.as_ref(), &d, &mut big) { if z <= 300 { inits.push(d); sizes.push(z); } }
            }
            if inits.is_empty() { continue; }
            let largest = *sizes.iter().max().unwrap();
            let total: usize = sizes.iter().sum();
            let max = match rng.below(3) { 0 => largest, 1 => largest + 1, _ => 2 * largest };
            let send_line_max = |max: usize, script: &[Ev], inits: &[D], out: &mut dyn Write| {
                write!(out, "{} {} {} {} {} => ", if is_async { "AS" } else { "S" }, tid, max, script_text(script), inits_text(inits)).unwrap();
                out.flush().unwrap();
                let r = guarded(|| if is_async { t.aio_send(inits, max, script) } else { t.io_send(inits, max, script) }).unwrap_or_else(|| "PANIC".into());
                writeln!(out, "{}", r).unwrap();
            };
            let send_line = |script: &[Ev], inits: &[D], out: &mut dyn Write| send_line_max(max, script, inits, out);
            let recv_line = |script: &[Ev], stream: &[u8], nrecv: usize, out: &mut dyn Write| {
                write!(out, "{} {} {} {} {} {} => ", if is_async { "AR" } else { "R" }, tid, max, script_text(script), nrecv, hex(stream)).unwrap();
                out.flush().unwrap();
                let r = guarded(|| if is_async { t.aio_recv(stream, max, script, nrecv) } else { t.io_recv(stream, max, script, nrecv) }).unwrap_or_else(|| "PANIC".into());
                writeln!(out, "{}", r).unwrap();
            };
            // ---- sender: clean, random compositions, single faults
            send_line(&[], &inits, out);
            for _ in 0..2 {
                let c = composition(&mut rng, total, 9);
                let c = if is_async { with_pendings(&mut rng, &c, 3) } else { c };
                send_line(&c, &inits, out);
            }
            let base = composition(&mut rng, total, 7);
            let nfault = if cfg.thorough { base.len() + 1 } else { 3.min(base.len() + 1) };
            for k in 0..nfault {
                let at = if cfg.thorough { k } else { rng.below(base.len() as u64 + 1) as usize };
                let mut s = base.clone();
                s.insert(at.min(s.len()), if rng.chance(2, 3) { wfail(&mut rng) } else { Ev::Zero });
                let s = if is_async { with_pendings(&mut rng, &s, 2) } else { s };
                send_line(&s, &inits, out);
            }
            // messages longer than the declared `max_msg_len` that still fit the buffer of twice that length (S85): every message but
            // the last is torn by a fault in its second half, after whole-buffer-sized progress, and more sends follow
            if inits.len() >= 2 {
                let half = (largest + 1) / 2;
                for round in 0..2 {
                    let biggest = (0..inits.len() - 1).max_by_key(|&i| sizes[i]).unwrap();
                    let victim = if round == 0 { biggest } else { rng.below(inits.len() as u64 - 1) as usize };
                    let before: usize = sizes[..victim].iter().sum();
                    let z = sizes[victim];
                    if z < 2 { continue; }
                    let done = z / 2 + rng.below((z - z / 2) as u64) as usize; // bytes of the victim written before the fault: z/2 ..= z-1
                    let mut s = vec![];
                    if before > 0 { s.extend(composition(&mut rng, before, 9)); }
                    // the torn message: one or two writes, then the fault
                    if done > 0 { if rng.chance(1, 2) && done > 1 { let a = 1 + rng.below(done as u64 - 1) as usize; s.push(Ev::N(a)); s.push(Ev::N(done - a)); } else { s.push(Ev::N(done)); } }
                    s.push(if rng.chance(2, 3) { wfail(&mut rng) } else { Ev::Zero });
                    s.extend(composition(&mut rng, total - before - done, 9));
                    let s = if is_async { with_pendings(&mut rng, &s, 3) } else { s };
                    send_line_max(half, &s, &inits, out);
                }
                send_line_max(half, &[], &inits, out);
            }
            if is_async {
                // flush outcomes: the script entry that follows the last byte of a message is the flush
                let mut s = vec![Ev::N(sizes[0]), Ev::Pending, Ev::Pending, Ev::N(0)];
                send_line(&s, &inits, out);
                s = vec![Ev::N(sizes[0]), wfail(&mut rng)];
                send_line(&s, &inits, out);
            }
            // ---- the valid stream: what a clean sender produces
            let clean = if is_async { t.aio_send(&inits, max, &[]) } else { t.io_send(&inits, max, &[]) };
            let stream = match clean.split(' ').find(|x| x.starts_with("sink=")) { Some(x) => crate::unhex(&x[5..]), None => continue };
            let nrecv = inits.len() + 2;
            recv_line(&[], &stream, nrecv, out);
            // every single cut (quick: a sample)
            let cuts: Vec<usize> = if cfg.thorough || stream.len() <= 24 { (1..stream.len()).collect() } else { (0..10).map(|_| 1 + rng.below(stream.len() as u64 - 1) as usize).collect() };
            for c in cuts { recv_line(&[Ev::N(c)], &stream, nrecv, out); }
            for _ in 0..(if cfg.thorough { 8 } else { 3 }) {
                let c = composition(&mut rng, stream.len(), 11);
                let c = if is_async { with_pendings(&mut rng, &c, 3) } else { c };
                recv_line(&c, &stream, nrecv, out);
            }
            // read faults and early EOF at a position; retry after the fault
            for _ in 0..(if cfg.thorough { 8 } else { 3 }) {
                let mut c = composition(&mut rng, stream.len(), 9);
                let at = rng.below(c.len() as u64 + 1) as usize;
                c.insert(at, if rng.chance(2, 3) { rfail(&mut rng) } else { Ev::Zero });
                let c = if is_async { with_pendings(&mut rng, &c, 2) } else { c };
                recv_line(&c, &stream, nrecv + 2, out);
            }
            // ---- arbitrary bytes: truncations, mutations, garbage, announced lengths beyond the buffer
            for _ in 0..(if cfg.thorough { 10 } else { 4 }) {
                let mut s = stream.clone();
                match rng.below(4) {
                    0 => { let k = rng.below(s.len() as u64 + 1) as usize; s.truncate(k); }
                    1 => { if !s.is_empty() { let i = rng.below(s.len().min(16) as u64) as usize; s[i] = [0xff, 0x7f, 0x00, 0x01, 0xfe][rng.below(5) as usize]; } }
                    2 => { if !s.is_empty() { let i = rng.below(s.len() as u64) as usize; s[i] = s[i].wrapping_add(1 + rng.below(3) as u8); } }
                    _ => { let n = rng.below(3 * max as u64 + 8) as usize; s = rng.bytes(n); }
                }
                let c = composition(&mut rng, s.len().max(1), 13);
                let c = if is_async { with_pendings(&mut rng, &c, 2) } else { c };
                recv_line(&c, &s, nrecv + 3, out);
            }
            // ---- complete but malformed in content: the receiver must report a parse error, not ask for more input
            {
                let mut cases: Vec<Vec<u8>> = vec![];
                if sh.constrained() {
                    let mut cs = vec![];
                    constraints(&sh, &stream, 0, sizes[0], &mut cs);
                    for _ in 0..2 {
                        if cs.is_empty() { break; }
                        let mut m = stream.clone();
                        match cs[rng.below(cs.len() as u64) as usize].clone() {
                            Constraint::Bool(p) => { if p < sizes[0] { m[p] = 2 + rng.below(250) as u8; cases.push(m); } }
                            Constraint::Tag(p, w, be, n) => {
                                let maxv = if w >= 8 { u64::MAX } else { (1u64 << (8 * w)) - 1 };
                                if (n as u64) <= maxv && p + w <= sizes[0] { let enc = LenS { size: w, align: 1, be }.encode(n as u128); m[p..p + w].copy_from_slice(&enc); cases.push(m); }
                            }
                            Constraint::Utf8(a, b) => {
                                if b > a && b <= sizes[0] {
                                    if rng.chance(1, 2) {
                                        // a multi-byte character cut off by the end of the text (`Utf8Error::error_len() == None`):
                                        // the length is fixed, so no further input can complete it
                                        m[b - 1] = [0xc3u8, 0xe2, 0xf0][rng.below(3) as usize];
                                    } else {
                                        let i = a + rng.below((b - a) as u64) as usize; m[i] = 0xff;
                                    }
                                    cases.push(m);
                                }
                            }
                        }
                    }
                }
                if let Shape::Flex(_, l) = &sh {
                    // an offset slot that points inside its own header can never become valid
                    let os = sh.data_offset();
                    if os > 1 {
                        let mut m = l.encode(1 + rng.below(os as u64 - 1) as u128);
                        m.extend(std::iter::repeat(0u8).take(4 * max.max(t.min_size()) + 8));
                        cases.push(m);
                    }
                }
                for m in cases {
                    let c = composition(&mut rng, m.len().max(1), 13);
                    let c = if is_async { with_pendings(&mut rng, &c, 2) } else { c };
                    recv_line(&c, &m, 3, out);
                    writeln!(out, "X {} {} {} => parse", tid, max, hex(&m)).unwrap();
                }
            }
            // ---- async pair over a bounded pipe
            if is_async {
                for _ in 0..(if cfg.thorough { 6 } else { 2 }) {
                    let cap = 1 + rng.below(17) as usize;
                    let (wc, rc) = (1 + rng.below(9) as usize, 1 + rng.below(9) as usize);
                    let pend: Vec<bool> = (0..rng.below(40)).map(|_| rng.chance(1, 3)).collect();
                    let sched: String = (0..rng.below(60)).map(|_| if rng.chance(1, 2) { 'S' } else { 'R' }).collect();
                    let pt: String = if pend.is_empty() { "-".into() } else { pend.iter().map(|b| if *b { 'p' } else { '.' }).collect() };
                    write!(out, "AP {} {} {} {} {} {} {} {} => ", tid, max, cap, wc, rc, pt, if sched.is_empty() { "-" } else { &sched }, inits_text(&inits)).unwrap();
                    out.flush().unwrap();
                    let r = guarded(|| t.aio_pair(&inits, max, cap, wc, rc, &pend, &sched)).unwrap_or_else(|| "PANIC".into());
                    // what was specified (the oracle for delivery)
                    let want: Vec<String> = inits.iter().map(|d| render_init(&sh, d).replace(' ', "_")).collect();
                    writeln!(out, "{} want={}", r, want.join(",")).unwrap();
                }
            }
            // specification of the sent sequence, for the delivery oracle of the R / AR lines of this block
            let want: Vec<String> = inits.iter().zip(&sizes).map(|(d, z)| format!("msg:{}:{}", z, render_init(&sh, d).replace(' ', "_"))).collect();
            writeln!(out, "W {} {} {} => {}", tid, max, hex(&stream), want.join(",")).unwrap();
            // ---- messages built in place and then mutated through the send guard before `send()` — the way a user fills a message:
            // pushes, pops, truncations, item edits on the containers (operations that cannot panic). A block of its own: what each
            // message must contain comes from the abstract machine of the operation suite (a `Vec` of items), run next to the same
            // operations on a scratch buffer of the send buffer's size
            let editable = matches!(sh, Shape::Vec(..) | Shape::Str(..) | Shape::Flex(..) | Shape::UStruct(..) | Shape::UEnum(..));
            if editable && rng.chance(2, 3) {
                let cap = 2 * max.max(t.min_size());
                let base = { let p = big.as_ptr() as usize; (16 - p % 16) % 16 };
                let mut edited: Vec<D> = vec![];
                let mut ewant: Vec<String> = vec![];
                let mut etotal = 0usize;
                for d in inits.iter() {
                    if base + cap > big.len() { break; }
                    let mut abs = d.strip_def();
                    let n = 1 + rng.below(4) as usize;
                    let mut ops = vec![];
                    for b in big[base..base + cap].iter_mut() { *b = 0; }
                    if !matches!(guarded(|| t.new_in_place(&mut big[base..base + cap], d)), Some(Ok(()))) { break; }
                    let mut okay = true;
                    for _ in 0..n {
                        let op = match tame(crate::suite_ops::gen_op(&sh, &abs, &mut rng, 0)) { Some(op) => op, None => continue };
                        let ret = match guarded(|| t.edit(&mut big[base..base + cap], &op)) { Some(Ok(r)) => r, _ => { okay = false; break; } };
                        let probe = crate::suite_ops::probe_str(t.as_ref(), &big[base..base + cap]);
                        let _ = crate::suite_ops::abs_apply(&sh, &mut abs, &op, &ret, crate::suite_ops::top_cap(&probe));
                        ops.push(op);
                    }
                    if !okay { break; }
                    let z = match guarded(|| t.probe(&big[base..base + cap]).res) { Some(Ok((_, _, z, _, _))) => z, _ => break };
                    ewant.push(format!("msg:{}:{}", z, render_init(&sh, &abs).replace(' ', "_")));
                    etotal += z;
                    edited.push(if ops.is_empty() { d.clone() } else { D::Edited(Box::new(d.clone()), ops) });
                }
                if edited.len() == inits.len() {
                    send_line(&[], &edited, out);
                    let c = composition(&mut rng, etotal.max(1), 9);
                    let c = if is_async { with_pendings(&mut rng, &c, 3) } else { c };
                    send_line(&c, &edited, out);
                    let clean = if is_async { t.aio_send(&edited, max, &[]) } else { t.io_send(&edited, max, &[]) };
                    if let Some(x) = clean.split(' ').find(|x| x.starts_with("sink=")) {
                        let estream = crate::unhex(&x[5..]);
                        let nrecv = edited.len() + 2;
                        recv_line(&[], &estream, nrecv, out);
                        for _ in 0..2 {
                            let c = composition(&mut rng, estream.len().max(1), 7);
                            let c = if is_async { with_pendings(&mut rng, &c, 3) } else { c };
                            recv_line(&c, &estream, nrecv, out);
                        }
                        writeln!(out, "W {} {} {} => {}", tid, max, hex(&estream), ewant.join(",")).unwrap();
                    }
                }
            }
            // ---- the same messages as a peer with a different encoder might send them: a FlexVec whose last item carries its real
            // offset and is followed by a terminating zero slot (a valid encoding that this library's sender never produces)
            if let Shape::Flex(_, l) = &sh {
                let os = sh.data_offset();
                let al = sh.align();
                let mut fstream = vec![];
                let mut fsizes = vec![];
                let mut p = 0usize;
                let mut changed = false;
                for z in &sizes {
                    let image = &stream[p..p + z];
                    p += z;
                    let slack = al * (rng.below(2) as usize);
                    let mut padded = image.to_vec();
                    padded.extend(std::iter::repeat(0xAAu8).take(os + slack));
                    match terminate_chain(&padded, l, os, slack, padded.len(), *z) {
                        Some(m) if m.len() <= max => { fsizes.push(m.len()); fstream.extend(m); changed = true; }
                        _ => { fsizes.push(*z); fstream.extend_from_slice(image); }
                    }
                }
                if changed {
                    recv_line(&[], &fstream, nrecv, out);
                    for _ in 0..(if cfg.thorough { 6 } else { 2 }) {
                        let c = composition(&mut rng, fstream.len(), 11);
                        let c = if is_async { with_pendings(&mut rng, &c, 3) } else { c };
                        recv_line(&c, &fstream, nrecv, out);
                    }
                    let want: Vec<String> = inits.iter().zip(&fsizes).map(|(d, z)| format!("msg:{}:{}", z, render_init(&sh, d).replace(' ', "_"))).collect();
                    writeln!(out, "W {} {} {} => {}", tid, max, hex(&fstream), want.join(",")).unwrap();
                }
            }
        }
    }
}
