import FV.EmplaceSerFlex
/-! Emplace = serialise, assembled for every alignment-1 type and every initialiser. -/
namespace FV

/-- **`flex::FromIterator` of a portable FlexVec**: the image is the serialised chain, `size()` its length -/
theorem ser_flexIter (it : Ty) (hwf : it.WF) (ha1 : it.align1 = true) (l : LenTy) (hl : l.Law) (hl1 : l.align = 1) (items : List Init)
    (hrecOk : ∀ i ∈ items, EmpSpec it i) (hrecS : ∀ i ∈ items, EmpSpecS it i) : EmpSpecS (.flex it l) (.flexIter items) := by
  have hia := align_of_align1 it ha1
  have hlpos := hl.size_pow2.pos
  have hos : max l.size it.dict.align = l.size := by rw [hia]; exact max_one_right _ hlpos
  have hal : max l.align it.dict.align = 1 := by rw [hia, hl1, Nat.max_self]
  intro s _ hlen o ho hres b hb
  obtain ⟨addr, bytes⟩ := s
  simp only [Ty.dict, flexD, Slice.len, hos] at hlen
  simp only [emplaceU, Slice.len, hal, floorMul_one, List.take_length, List.drop_length, List.append_nil] at ho
  have hser : serialize (.flex it l) (.flexIter items) = serItems it l items := rfl
  rw [hser, serItems_eq] at hb
  cases hsa : serAll it items with
  | none => rw [hsa] at hb; cases hb
  | some bs =>
    rw [hsa] at hb
    simp only [Option.map_some, Option.some.injEq] at hb
    subst hb
    cases hf : flexFill it l items 0 none bytes addr with
    | ok o' =>
      rw [hf, Res.bind_ok] at ho
      simp only [Res.ok.injEq] at ho
      rw [← ho] at hres ⊢
      have hres' : o'.res = .ok () := hres
      have hfin := flexFill_ser it hwf hia l hl hl1 addr bytes.length hlen items hrecOk hrecS 0 none bytes [] rfl (Nat.zero_le _)
        ⟨rfl, rfl, (by intro b hb; cases hb), rfl⟩ o' hf hres' bs hsa
      rw [List.nil_append] at hfin
      obtain ⟨o2, ho2, hol, _, _⟩ := flexFill_spec it (Ty.law it hwf) (Ty.frameLaw it hwf) l hl addr (by rw [hal]; exact Nat.mod_one _)
        bytes.length (by rw [hal]; exact Nat.mod_one _) (by rw [hos]; exact hlen) items hrecOk 0 none bytes rfl (Nat.zero_mod _) (Nat.zero_le _) rfl
      rw [hf] at ho2; cases ho2
      refine ⟨hfin.bytes, ?_⟩
      show (flexD it.dict l).sizeV ⟨addr, o'.bytes⟩ = _
      simp only [Dict.sizeV, flexD, hos, hal, floorMul_one, Slice.len, Slice.take, List.take_length]
      have := flexSize_serChain it.dict l hl hl1 bs (o'.bytes.length + 1) 0 ⟨addr, o'.bytes⟩ (by simp only [Slice.len]; omega)
        hfin.small hfin.bytes (by rw [hl1]; exact Nat.mod_one _) hfin.lastSize
      rw [Nat.zero_add] at this
      exact this
    | err e => rw [hf] at ho; cases ho
    | fault f => rw [hf] at ho; cases ho

/-! ### assembled -/
theorem align1LL_getD : ∀ (vs : List (List Ty)) (idx : Nat), align1LL vs = true → align1L (vs.getD idx []) = true := by
  intro vs
  induction vs with
  | nil => intro idx _; simp [align1L]
  | cons v vs ih =>
    intro idx h
    simp only [align1LL, Bool.and_eq_true] at h
    cases idx with
    | zero => simpa using h.1
    | succ k => simpa using ih k h.2

theorem align1L_concat : ∀ (pre : List Ty) (lt : Ty), align1L (pre ++ [lt]) = true → align1L pre = true ∧ lt.align1 = true := by
  intro pre
  induction pre with
  | nil => intro lt h; simp only [List.nil_append, align1L, Bool.and_eq_true] at h; exact ⟨rfl, h.1⟩
  | cons t ts ih =>
    intro lt h
    simp only [List.cons_append, align1L, Bool.and_eq_true] at h
    have := ih lt h.2
    exact ⟨by simp only [align1L, Bool.and_eq_true]; exact ⟨h.1, this.1⟩, this.2⟩

mutual
/-- the initialiser carries exactly one image per sized field (as every generated `…Init` does) -/
def InitTight : Ty → Init → Prop
  | _, .raw _ => True
  | .vec _ _, .vecEmpty => True
  | .vec _ _, .vecArr _ => True
  | .vec _ _, .vecIter _ => True
  | .str _, .strEmpty => True
  | .str _, .strFrom _ => True
  | .flex _ _, .flexEmpty => True
  | .flex it _, .flexIter items => InitTightL it items
  | .ustruct fs last, .ustruct vals li => vals.length = fs.length ∧ InitTight last li
  | .uenum _ vs, .uenum idx vals none => vals.length = (vs.getD idx []).length
  | .uenum _ vs, .uenum idx vals (some li) => ∃ pre lt, vs.getD idx [] = pre ++ [lt] ∧ vals.length = pre.length ∧ InitTight lt li
  | _, _ => False
def InitTightL : Ty → List Init → Prop
  | _, [] => True
  | t, i :: is => InitTight t i ∧ InitTightL t is
end

mutual
/-- **Emplace = serialise (portable types).** For every well-formed alignment-1 type and every well-typed initialiser: whenever the emplacer reports `Ok`, the image starts with the reference serialisation of what was specified
(tag, fields, length, elements concatenated in declaration order, no padding), and `size()` is the length of that serialisation. -/
theorem emplaceU_ser : ∀ (i : Init) (t : Ty), t.WF → t.align1 = true → InitWT t i → InitTight t i → EmpSpecS t i
  | .raw v, t, h, _, hw, _ => by
      simp only [InitWT] at hw
      intro s _ _ o ho
      exact ser_raw t h v hw s o ho
  | .vecEmpty, t, h, ha, hw, _ht => by
      cases t <;> simp only [InitWT] at hw
      rename_i et l
      simp only [Ty.WF] at h
      simp only [Ty.align1, Bool.and_eq_true, beq_iff_eq] at ha
      intro s _ hlen o ho
      exact ser_vecEmpty et (Ty.law et h.1) ha.1 l h.2.2 ha.2 s hlen o ho
  | .vecArr xs, t, h, ha, hw, _ht => by
      cases t <;> simp only [InitWT] at hw
      rename_i et l
      simp only [Ty.WF] at h
      simp only [Ty.align1, Bool.and_eq_true, beq_iff_eq] at ha
      obtain ⟨sz, hsz⟩ := sized_some et h.2.1
      intro s _ hlen o ho
      exact ser_vecArr et h.1 ha.1 sz hsz l h.2.2 ha.2 xs hw s hlen o ho
  | .vecIter xs, t, h, ha, hw, _ht => by
      cases t <;> simp only [InitWT] at hw
      rename_i et l
      simp only [Ty.WF] at h
      simp only [Ty.align1, Bool.and_eq_true, beq_iff_eq] at ha
      obtain ⟨sz, hsz⟩ := sized_some et h.2.1
      intro s _ hlen o ho
      exact ser_vecIter et h.1 ha.1 sz hsz l h.2.2 ha.2 xs hw s hlen o ho
  | .strEmpty, t, h, ha, hw, _ht => by
      cases t <;> simp only [InitWT] at hw
      rename_i l
      simp only [Ty.WF] at h
      simp only [Ty.align1, beq_iff_eq] at ha
      intro s _ hlen o ho
      exact ser_strEmpty l h ha s hlen o ho
  | .strFrom v, t, h, ha, hw, _ht => by
      cases t <;> simp only [InitWT] at hw
      rename_i l
      simp only [Ty.WF] at h
      simp only [Ty.align1, beq_iff_eq] at ha
      intro s _ hlen o ho
      exact ser_strFrom l h ha v s hlen o ho
  | .flexEmpty, t, h, ha, hw, _ht => by
      cases t <;> simp only [InitWT] at hw
      rename_i it l
      simp only [Ty.WF] at h
      simp only [Ty.align1, Bool.and_eq_true, beq_iff_eq] at ha
      intro s _ hlen o ho
      exact ser_flexEmpty it (Ty.law it h.1) ha.1 l h.2 ha.2 s hlen o ho
  | .flexIter items, t, h, ha, hw, ht => by
      cases t <;> simp only [InitWT] at hw
      rename_i it l
      simp only [Ty.WF] at h
      simp only [InitTight] at ht
      simp only [Ty.align1, Bool.and_eq_true, beq_iff_eq] at ha
      exact ser_flexIter it h.1 ha.1 l h.2 ha.2 items (emplaceU_okL items it h.1 hw) (emplaceU_serL items it h.1 ha.1 hw ht)
  | .ustruct vals li, t, h, ha, hw, ht => by
      cases t <;> simp only [InitWT] at hw
      rename_i fs last
      simp only [Ty.WF] at h
      simp only [InitTight] at ht
      simp only [Ty.align1, Bool.and_eq_true] at ha
      exact ser_ustruct fs last h.1 h.2.1 h.2.2.1 ha.1 ha.2 vals li hw.1 ht.1 (emplaceU_ok li last h.2.2.1 hw.2)
        (emplaceU_ser li last h.2.2.1 ha.2 hw.2 ht.2)
  | .uenum idx vals none, t, h, ha, hw, ht => by
      cases t <;> simp only [InitWT] at hw
      rename_i tag vs
      simp only [Ty.WF] at h
      simp only [InitTight] at ht
      simp only [Ty.align1, Bool.and_eq_true, beq_iff_eq] at ha
      exact ser_uenum_none tag h.1 ha.1 vs h.2.1 ha.2 idx hw.1 hw.2.1 vals hw.2.2.1 hw.2.2.2 ht
  | .uenum idx vals (some li), t, h, ha, hw, ht => by
      cases t <;> simp only [InitWT] at hw
      rename_i tag vs
      simp only [Ty.WF] at h
      simp only [InitTight] at ht
      simp only [Ty.align1, Bool.and_eq_true, beq_iff_eq] at ha
      obtain ⟨hidx, hrep, pre, lt, hvar, hv, hwl⟩ := hw
      obtain ⟨pre', lt', hvar', hlen', htl⟩ := ht
      have heq : pre' ++ [lt'] = pre ++ [lt] := by rw [← hvar, ← hvar']
      have hp : pre' = pre := List.append_inj_left' heq rfl
      have hlt : lt' = lt := by
        have := List.append_inj_right' heq rfl
        simpa using this
      subst hp hlt
      have hwf := wfLL_getD vs idx h.2.1
      rw [hvar] at hwf
      have hav := align1LL_getD vs idx ha.2
      rw [hvar] at hav
      have hlta := (align1L_concat pre' lt' hav).2
      exact ser_uenum_some tag h.1 ha.1 vs h.2.1 h.2.2 ha.2 idx hidx hrep vals pre' lt' hvar hv hlen' li
        (emplaceU_ok li lt' (wfL_concat pre' lt' hwf).2 hwl) (emplaceU_ser li lt' (wfL_concat pre' lt' hwf).2 hlta hwl htl)
theorem emplaceU_serL : ∀ (items : List Init) (t : Ty), t.WF → t.align1 = true → InitWTL t items → InitTightL t items →
    ∀ i ∈ items, EmpSpecS t i
  | [], _, _, _, _, _ => by intro i hi; cases hi
  | j :: js, t, h, ha, hw, ht => by
      intro i hi
      simp only [InitWTL] at hw
      simp only [InitTightL] at ht
      rcases List.mem_cons.1 hi with heq | hm
      · rw [heq]; exact emplaceU_ser j t h ha hw.1 ht.1
      · exact emplaceU_serL js t h ha hw.2 ht.2 i hm
end
end FV
