import FV.Ops
import FV.VecOps
/-! An operation never changes the length of the byte list it is given (every write of the model faults outside it). -/
namespace FV

theorem vecWriteElems_length (S dOff : Nat) : ∀ (xs : List Bytes) (i : Nat) (bs r : Bytes),
    vecWriteElems S dOff xs i bs = .ok r → r.length = bs.length
  | [], _, bs, r, h => by simp only [vecWriteElems, Res.ok.injEq] at h; rw [← h]
  | x :: xs, i, bs, r, h => by
    simp only [vecWriteElems] at h
    split at h
    · cases hw : writeAt bs (dOff + i * S) x with
      | ok b1 =>
        rw [hw] at h
        have := vecWriteElems_length S dOff xs (i + 1) b1 r h
        rw [this, writeAt_length hw]
      | err e => rw [hw] at h; cases h
      | fault f => rw [hw] at h; cases h
    · cases h

theorem setLen_length (g : VecGeo) (bs r : Bytes) (n : Nat) (h : g.setLen bs n = .ok r) : r.length = bs.length :=
  writeAt_length h

theorem appendAll_length (g : VecGeo) (bs r : Bytes) (len : Nat) (xs : List Bytes) (h : g.appendAll bs len xs = .ok r) :
    r.length = bs.length := by
  unfold VecGeo.appendAll at h
  cases hw : vecWriteElems g.S g.dOff xs len bs with
  | ok b1 =>
    rw [hw, Res.bind_ok] at h
    rw [setLen_length g b1 r _ h, vecWriteElems_length _ _ _ _ _ _ hw]
  | err e => rw [hw] at h; simp at h
  | fault f => rw [hw] at h; simp at h

theorem bind_len {r : Res Bytes} {c : OpRet} {o : OpOut} {n : Nat} (hr : ∀ b, r = .ok b → b.length = n)
    (h : (r.bind fun b => Res.ok ⟨c, b⟩) = .ok o) : o.bytes.length = n := by
  cases r with
  | ok b => simp only [Res.bind_ok, Res.ok.injEq] at h; rw [← h]; exact hr b rfl
  | err e => simp at h
  | fault f => simp at h

theorem bind_len' {r : Res Bytes} {c : Bytes → OpRet} {o : OpOut} {n : Nat} (hr : ∀ b, r = .ok b → b.length = n)
    (h : (r.bind fun b => Res.ok ⟨c b, b⟩) = .ok o) : o.bytes.length = n := by
  cases r with
  | ok b => simp only [Res.bind_ok, Res.ok.injEq] at h; rw [← h]; exact hr b rfl
  | err e => simp at h
  | fault f => simp at h

/-- every `GenericVec` / `GenericString` operation returns a byte list of the length it was given -/
theorem vecOp_length (g : VecGeo) (bs : Bytes) (len : Nat) (op : Op) (o : OpOut) (h : vecOp g bs len op = .ok o) :
    o.bytes.length = bs.length := by
  cases op <;> simp only [vecOp] at h
  case push x =>
    split at h
    · cases h; rfl
    · exact bind_len (fun b hb => appendAll_length g bs b len [x] hb) h
  case pop =>
    split at h
    · cases h; rfl
    · exact bind_len (fun b hb => setLen_length g bs b _ hb) h
  case pushSlice xs =>
    split at h
    · cases h; rfl
    · split at h
      · exact bind_len (fun b hb => setLen_length g bs b _ hb) h
      · exact bind_len (fun b hb => appendAll_length g bs b len xs hb) h
  case pushBytes xs =>
    split at h
    · cases h; rfl
    · cases hw : writeAt bs (g.dOff + len) xs with
      | ok b1 =>
        rw [hw, Res.bind_ok] at h
        have := bind_len (fun b hb => setLen_length g b1 b _ hb) h
        rw [this, writeAt_length hw]
      | err e => rw [hw] at h; simp at h
      | fault f => rw [hw] at h; simp at h
  case extend xs =>
    split at h
    · cases h; rfl
    · exact bind_len (fun b hb => appendAll_length g bs b len _ hb) h
  case trunc n =>
    split at h
    · cases h; rfl
    · exact bind_len (fun b hb => setLen_length g bs b _ hb) h
  case clear =>
    split at h
    · cases h; rfl
    · exact bind_len (fun b hb => setLen_length g bs b _ hb) h
  case remove i =>
    split at h
    · cases hw : writeAt bs (g.dOff + i * g.S) ((bs.drop (g.dOff + (i + 1) * g.S)).take ((len - i - 1) * g.S)) with
      | ok b1 =>
        rw [hw, Res.bind_ok] at h
        have := bind_len (fun b hb => setLen_length g b1 b _ hb) h
        rw [this, writeAt_length hw]
      | err e => rw [hw] at h; simp at h
      | fault f => rw [hw] at h; simp at h
    · cases h; rfl
  case swapRm i =>
    split at h
    · cases hw : writeAt bs (g.dOff + i * g.S) (g.elemAt bs (len - 1)) with
      | ok b1 =>
        rw [hw, Res.bind_ok] at h
        have := bind_len (fun b hb => setLen_length g b1 b _ hb) h
        rw [this, writeAt_length hw]
      | err e => rw [hw] at h; simp at h
      | fault f => rw [hw] at h; simp at h
    · cases h; rfl
  case resize n x =>
    split at h
    · split at h
      · cases h; rfl
      · exact bind_len (fun b hb => setLen_length g bs b _ hb) h
    · split at h
      · exact bind_len (fun b hb => appendAll_length g bs b len _ hb) h
      · cases h; rfl
  case set i x =>
    split at h
    · exact bind_len (fun b hb => writeAt_length hb) h
    · cases h; rfl
  all_goals cases h
end FV
