import FV.EmplaceAccEnum
import FV.EmplaceFlexContent
import FV.FlexChain
/-! Acceptance pass: `flex::FromIterator`. The fill succeeds exactly when every item is representable, every slot is shorter
than `L::MAX` and the slots fit; on success `size()` of the vector is the sum of the slots. -/
namespace FV

/-- `size()` once the chain is closed: the slot size for the empty vector, else the position reached -/
def finalSize (os pos : Nat) : Option Nat → Nat
  | none => os
  | some _ => pos
/-- `size()` the fill will end with -/
def fillEnd (os : Nat) (x : Nat) : Option Nat → List Init → Nat
  | none, [] => os
  | _, _ => x

section
variable (d : Dict) (l : LenTy) (hd : Law d) (hfd : FrameLaw d) (hl : l.Law) (base : Nat)
  (hbase : base % max l.align d.align = 0)

/-- `Settled`, and in addition: a size computed from slot `q` on is the size of the whole vector, and the item in slot `q`
fills its slot exactly (up to alignment padding) -/
structure SettledZ (q pos : Nat) (whole : Bytes) : Prop where
  st : Settled d l base q pos whole
  chainZ : ∀ (whole' : Bytes) (E : Nat), whole'.length = whole.length → whole'.take q = whole.take q →
      (∀ f, whole'.length - q < f → flexSize d l (max l.size d.align) (max l.align d.align) f q ⟨base + q, whole'.drop q⟩ = .ok E) →
      ∀ f, whole'.length < f → flexSize d l (max l.size d.align) (max l.align d.align) f 0 ⟨base, whole'⟩ = .ok E
  itemZ : ∃ z, pos = q + max l.size d.align + ceilMul z (max l.align d.align) ∧
      d.size (((⟨base + q, whole.drop q⟩ : Slice).take (pos - q)).drop (max l.size d.align)) = .ok z

def FillInvZ (pos : Nat) (lastSlot : Option Nat) (whole : Bytes) : Prop :=
  match lastSlot with
  | none => pos = 0
  | some q => SettledZ d l base q pos whole

theorem FillInvZ.toInv {pos : Nat} {lastSlot : Option Nat} {whole : Bytes} (h : FillInvZ d l base pos lastSlot whole) :
    FillInv d l base pos lastSlot whole := by
  cases lastSlot with
  | none => exact h
  | some q => exact (h : SettledZ d l base q pos whole).st

include hd hfd hl hbase

/-- closing the chain: `size()` of the result is the position the fill has reached (the slot size for the empty vector) -/
theorem flexFinish_size (pos : Nat) (lastSlot : Option Nat) (whole b : Bytes) (res : Except Err Unit)
    (hinv : FillInvZ d l base pos lastSlot whole) (hbl : b.length = whole.length) (hbp : b.take pos = whole.take pos)
    (hposle : pos ≤ whole.length) (hN : max l.size d.align ≤ whole.length) (o : EO)
    (ho : flexFinish l lastSlot res b = .ok o) :
    ∀ f, whole.length < f → flexSize d l (max l.size d.align) (max l.align d.align) f 0 ⟨base, o.bytes⟩ =
      .ok (finalSize (max l.size d.align) pos lastSlot) := by
  have hls : l.size ≤ max l.size d.align := Nat.le_max_left _ _
  have hpa := hd.align_pow2
  cases lastSlot with
  | none =>
    obtain ⟨b', hb', hb'l⟩ := writeAt_ok (bs := b) (x := encLenTy l 0) (off := 0) (by rw [encLenTy_length]; omega)
    simp only [flexFinish, hb', Res.bind_ok, Res.ok.injEq] at ho
    subst ho
    intro f hf
    obtain ⟨g, rfl⟩ : ∃ g, f = g + 1 := ⟨f - 1, by omega⟩
    have hr := readU_written l 0 (Nat.pow_pos (by decide)) base (mod_trans hbase (Pow2.max_mod_left hl.align_pow2 hpa)) hb'
    rw [flexSize_term d l _ _ g 0 ⟨base, b'⟩ hr, Nat.zero_add]; rfl
  | some q =>
    have hz : SettledZ d l base q pos whole := hinv
    have hs := hz.st
    have hroom := hs.room
    have hsmall := hs.small
    obtain ⟨b', hb', hb'l⟩ := writeAt_ok (bs := b) (x := encLenTy l l.max) (off := q) (by rw [encLenTy_length]; omega)
    simp only [flexFinish, hb', Res.bind_ok, Res.ok.injEq] at ho
    subst ho
    have hqal : (base + q) % max l.align d.align = 0 := add_mod_zero hbase hs.qal
    show ∀ f, whole.length < f → flexSize d l (max l.size d.align) (max l.align d.align) f 0 ⟨base, b'⟩ = .ok pos
    have hcz := hz.chainZ b' pos (by omega)
    rw [hb'l, hbl] at hcz
    apply hcz
    · have := writeAt_frame hb' 0 q (Or.inl (by omega))
      simp only [List.drop_zero] at this
      rw [this]; exact take_take_eq hbp (by omega)
    · intro f hf
      obtain ⟨g, rfl⟩ : ∃ g, f = g + 1 := ⟨f - 1, by omega⟩
      have hread := writeAt_read hb'
      rw [encLenTy_length] at hread
      have hr : l.readU ⟨base + q, b'.drop q⟩ = .ok l.max :=
        readU_of_take l _ l.max (lmax_lt l) (mod_trans hqal (Pow2.max_mod_left hl.align_pow2 hpa)) hread
      obtain ⟨z, hpz, hzs⟩ := hz.itemZ
      obtain ⟨hia, himin, hiv⟩ := validate_ok_iff.1 hs.item
      obtain ⟨z', hz', hzle, _, _⟩ := hfd.size_ok _ hia himin hiv
      have hzz : z' = z := by
        simp only [Dict.sizeV] at hz'; rw [hzs] at hz'; cases hz'; rfl
      subst hzz
      simp only [Slice.len, Slice.take, Slice.drop, List.length_drop, List.length_take] at hzle himin
      have hloc := hfd.loc _ z' hia (by simpa [Slice.len, Slice.take, Slice.drop] using himin) hiv hz'
        ⟨base + q + max l.size d.align, b'.drop (q + max l.size d.align)⟩ rfl
        (by simp only [Slice.len, List.length_drop]; omega)
        (by
          show (b'.drop (q + max l.size d.align)).take z' = (((whole.drop q).take (pos - q)).drop (max l.size d.align)).take z'
          rw [writeAt_frame hb' _ _ (Or.inr (by rw [encLenTy_length]; omega)), take_drop_take_eq _ _ _ _ (by omega),
            List.drop_drop]
          exact drop_take_eq hbp (by omega))
      have hsz : d.size (Slice.drop ⟨base + q, b'.drop q⟩ (max l.size d.align)) = .ok z' := by
        have := hloc.2
        simp only [Dict.sizeV] at this
        simp only [Slice.drop, List.drop_drop]
        exact this
      rw [flexSize_last d l _ _ g q l.max ⟨base + q, b'.drop q⟩ hr (lmax_ne_zero l hl) rfl
        (by simp only [Slice.len, List.length_drop]; omega) z' hsz, hpz]

omit hd hfd hbase in
/-- a freshly written item at `pos` with offset `os + ⌈z⌉` becomes the settled last item -/
theorem settled_newZ (pos : Nat) (lastSlot : Option Nat) (whole b2 : Bytes) (z : Nat)
    (hinv : FillInvZ d l base pos lastSlot whole) (hposle : pos ≤ whole.length)
    (hbl : b2.length = whole.length) (hbp : b2.take pos = whole.take pos)
    (hst : Settled d l base pos (pos + (max l.size d.align + ceilMul z (max l.align d.align))) b2)
    (hitem : d.size (((⟨base + pos, b2.drop pos⟩ : Slice).take (max l.size d.align + ceilMul z (max l.align d.align))).drop (max l.size d.align)) = .ok z) :
    SettledZ d l base pos (pos + (max l.size d.align + ceilMul z (max l.align d.align))) b2 := by
  refine ⟨hst, ?_, ⟨z, by omega, by
    have e1 : pos + (max l.size d.align + ceilMul z (max l.align d.align)) - pos = max l.size d.align + ceilMul z (max l.align d.align) := by omega
    rw [e1]; exact hitem⟩⟩
  intro whole' E hlen htake hok
  cases lastSlot with
  | none =>
    have hp : pos = 0 := hinv
    subst hp
    intro f hf
    have := hok f (by omega)
    simpa using this
  | some q =>
    have hz : SettledZ d l base q pos whole := hinv
    have hs := hz.st
    have hroom := hs.room
    have hsmall := hs.small
    have htake' : whole'.take pos = whole.take pos := by rw [htake, hbp]
    have hospos : 0 < max l.size d.align := Nat.lt_of_lt_of_le hl.size_pow2.pos (Nat.le_max_left _ _)
    apply hz.chainZ whole' E (by omega) (take_take_eq htake' (by omega))
    intro f hf
    obtain ⟨g, rfl⟩ : ∃ g, f = g + 1 := ⟨f - 1, by omega⟩
    have hr : l.readU ⟨base + q, whole'.drop q⟩ = .ok (pos - q) := by
      rw [← hs.slot]
      exact readU_congr l ⟨base + q, whole.drop q⟩ ⟨base + q, whole'.drop q⟩ rfl (by simp only [Slice.len, List.length_drop]; omega)
        (by simp only [Slice.len, List.length_drop]; omega) (drop_take_eq htake' (by have := Nat.le_max_left l.size d.align; omega))
    rw [flexSize_item d l _ _ g q (pos - q) ⟨base + q, whole'.drop q⟩ hr (by omega) (by omega)
      (by simp only [Slice.len, List.length_drop]; omega)]
    have e2 : q + (pos - q) = pos := by omega
    simp only [Slice.drop, List.drop_drop, e2, Nat.add_assoc]
    exact hok g (by omega)
end

/-- the recursive hypotheses about one item initialiser -/
structure ItemAcc (it : Ty) (i : Init) : Prop where
  spec : EmpSpec it i
  acc : EmpAcc it i
  ge : it.dict.minSize ≤ sizeSpec it i

/-- **`flex::FromIterator`, acceptance and size.** -/
theorem flexFill_acc (it : Ty) (hd : Law it.dict) (hfd : FrameLaw it.dict) (l : LenTy) (hl : l.Law) (base : Nat)
    (hbase : base % max l.align it.dict.align = 0) (N : Nat) (hNal : N % max l.align it.dict.align = 0)
    (hN : max l.size it.dict.align ≤ N) :
    ∀ (items : List Init), (∀ i ∈ items, ItemAcc it i) → ∀ (pos : Nat) (lastSlot : Option Nat) (whole : Bytes),
      whole.length = N → pos % max l.align it.dict.align = 0 → pos ≤ N → FillInvZ it.dict l base pos lastSlot whole →
      ∀ o, flexFill it l items pos lastSlot whole base = .ok o →
        (o.res = .ok () ↔ RepL it l items ∧ pos + sizeItems it l items ≤ N) ∧
        (o.res = .ok () → ∀ f, N < f →
          flexSize it.dict l (max l.size it.dict.align) (max l.align it.dict.align) f 0 ⟨base, o.bytes⟩ =
            .ok (fillEnd (max l.size it.dict.align) (pos + sizeItems it l items) lastSlot items)) := by
  have hls : l.size ≤ max l.size it.dict.align := Nat.le_max_left _ _
  have hpa := hd.align_pow2
  have hapos := (Pow2.of_max hl.align_pow2 hpa).pos
  have hosal := dataOffset_mod l hl it.dict.align hpa
  have haldv : max l.align it.dict.align % it.dict.align = 0 := Pow2.max_mod_right hl.align_pow2 hpa
  intro items
  induction items with
  | nil =>
    intro _ pos lastSlot whole hwl _ hposle hinv o ho
    rw [flexFill_nil] at ho
    have hres := flexFinish_res ho
    refine ⟨⟨fun _ => ⟨trivial, by simp only [sizeItems]; omega⟩, fun _ => hres⟩, fun _ f hf => ?_⟩
    have := flexFinish_size it.dict l hd hfd hl base hbase pos lastSlot whole whole (.ok ()) hinv rfl rfl (by omega) (by omega) o ho f (by omega)
    rw [this]
    cases lastSlot <;> simp [sizeItems, finalSize, fillEnd]
  | cons i is ih =>
    intro hrec pos lastSlot whole hwl hposal hposle hinv o ho
    obtain ⟨hspec, hacc, hge⟩ := hrec i (by simp)
    -- every failing exit reports an error
    have failing : ∀ (b : Bytes) (e : Err), flexFinish l lastSlot (.error e) b = .ok o →
        ¬ (RepL it l (i :: is) ∧ pos + sizeItems it l (i :: is) ≤ N) →
        (o.res = .ok () ↔ RepL it l (i :: is) ∧ pos + sizeItems it l (i :: is) ≤ N) ∧
        (o.res = .ok () → ∀ f, N < f →
          flexSize it.dict l (max l.size it.dict.align) (max l.align it.dict.align) f 0 ⟨base, o.bytes⟩ =
            .ok (fillEnd (max l.size it.dict.align) (pos + sizeItems it l (i :: is)) lastSlot (i :: is))) := by
      intro b e hfin hnot
      have hres := flexFinish_res hfin
      refine ⟨⟨fun h => (by rw [hres] at h; cases h), fun h => absurd h hnot⟩, fun h => (by rw [hres] at h; cases h)⟩
    rw [flexFill_cons] at ho
    simp only [RepL, sizeItems] at failing ⊢
    by_cases hsmall : whole.length - pos < max l.size it.dict.align
    · simp only [hsmall, if_true] at ho
      exact failing _ _ ho (by intro h; omega)
    · simp only [hsmall, if_false] at ho
      have hposos : (pos + max l.size it.dict.align) % max l.align it.dict.align = 0 := add_mod_zero hposal hosal
      have hpal : (base + pos + max l.size it.dict.align) % it.dict.align = 0 := by
        rw [Nat.add_assoc]; exact mod_trans (add_mod_zero hbase hposos) haldv
      have hrem : (N - (pos + max l.size it.dict.align)) % max l.align it.dict.align = 0 :=
        Nat.sub_mod_eq_zero_of_mod_eq (by rw [hNal, hposos])
      cases hck : checkAlignMin it.dict.align it.dict.minSize ⟨base + pos + max l.size it.dict.align, whole.drop (pos + max l.size it.dict.align)⟩ with
      | fault f => rw [hck] at ho; cases ho
      | err e =>
        rw [hck] at ho
        simp only [] at ho
        apply failing _ _ ho
        intro h
        have : checkAlignMin it.dict.align it.dict.minSize ⟨base + pos + max l.size it.dict.align, whole.drop (pos + max l.size it.dict.align)⟩ = .ok () := by
          rw [checkAlignMin_ok]
          refine ⟨hpal, ?_⟩
          simp only [Slice.len, List.length_drop, hwl]
          have := le_ceilMul (x := sizeSpec it i) hapos
          omega
        rw [this] at hck; cases hck
      | ok u =>
        rw [hck] at ho
        simp only [] at ho
        obtain ⟨_, hpmin⟩ := checkAlignMin_ok.1 hck
        obtain ⟨oi, hoi, hok⟩ := hspec _ hpal hpmin
        obtain ⟨hiff, hsize⟩ := hacc _ hpal hpmin oi hoi
        simp only [Slice.len, List.length_drop, hwl] at hiff hpmin
        simp only [hoi, Res.bind_ok] at ho
        have hol : oi.bytes.length = N - (pos + max l.size it.dict.align) := by
          have := hok.len; simpa [Slice.len, hwl] using this
        have hb1l : (whole.take (pos + max l.size it.dict.align) ++ oi.bytes).length = whole.length := by
          simp only [List.length_append, List.length_take, hol]; omega
        have hb1p : (whole.take (pos + max l.size it.dict.align) ++ oi.bytes).take pos = whole.take pos := by
          rw [List.take_append_of_le_length (by simp only [List.length_take]; omega), List.take_take, Nat.min_eq_left (by omega)]
        cases hres : oi.res with
        | error e =>
          rw [hres] at ho
          simp only [] at ho
          apply failing _ _ ho
          intro h
          have : oi.res = .ok () := hiff.2 ⟨h.1.1, by have := le_ceilMul (x := sizeSpec it i) hapos; omega⟩
          rw [hres] at this; cases this
        | ok u =>
          rw [hres] at ho
          simp only [] at ho
          have hz := hsize hres
          simp only at hz
          simp only [hz, Res.bind_ok] at ho
          have hfits := (hiff.1 hres)
          have hv := hok.valid hres
          have hceil : ceilMul (sizeSpec it i) (max l.align it.dict.align) ≤ N - (pos + max l.size it.dict.align) :=
            ceilMul_least hapos hrem hfits.2
          have hzc := le_ceilMul (x := sizeSpec it i) hapos
          by_cases hlt : max l.size it.dict.align + ceilMul (sizeSpec it i) (max l.align it.dict.align) < l.max
          · simp only [hlt, if_true] at ho
            obtain ⟨b2, hb2, hb2l⟩ := writeAt_ok (bs := whole.take (pos + max l.size it.dict.align) ++ oi.bytes)
              (x := encLenTy l (max l.size it.dict.align + ceilMul (sizeSpec it i) (max l.align it.dict.align))) (off := pos)
              (by rw [encLenTy_length, hb1l]; omega)
            simp only [hb2, Res.bind_ok] at ho
            have hb2p : b2.take pos = whole.take pos := by
              have := writeAt_frame hb2 0 pos (Or.inl (by omega))
              simp only [List.drop_zero] at this
              rw [this, hb1p]
            have hread := writeAt_read hb2
            rw [encLenTy_length] at hread
            have hposa : (base + pos) % max l.align it.dict.align = 0 := add_mod_zero hbase hposal
            -- the item as the walkers will see it
            have hzz : it.dict.sizeV ⟨base + pos + max l.size it.dict.align, oi.bytes⟩ = .ok (sizeSpec it i) := hz
            have hloc := hfd.loc ⟨base + pos + max l.size it.dict.align, oi.bytes⟩ (sizeSpec it i) hpal (by simp only [Slice.len, hol]; omega) hv hzz
              ⟨base + pos + max l.size it.dict.align,
                ((b2.drop pos).take (max l.size it.dict.align + ceilMul (sizeSpec it i) (max l.align it.dict.align))).drop (max l.size it.dict.align)⟩ rfl
              (by simp only [Slice.len, List.length_drop, List.length_take, hb2l, hb1l]; omega)
              (by
                show ((((b2.drop pos).take (max l.size it.dict.align + ceilMul (sizeSpec it i) (max l.align it.dict.align))).drop (max l.size it.dict.align))).take (sizeSpec it i) = oi.bytes.take (sizeSpec it i)
                rw [take_drop_take_eq _ _ _ _ (by omega), List.drop_drop,
                  writeAt_frame hb2 _ _ (Or.inr (by rw [encLenTy_length]; omega)),
                  List.drop_left' (by simp only [List.length_take]; omega)])
            have hst : Settled it.dict l base pos (pos + (max l.size it.dict.align + ceilMul (sizeSpec it i) (max l.align it.dict.align))) b2 := by
              apply settled_new it.dict l hd hfd hl base hbase pos lastSlot whole b2 _ hinv.toInv hposal (by omega) hb2p (by omega) hlt (by omega)
                (readU_of_take l _ _ (Nat.lt_trans hlt (lmax_lt l)) (mod_trans hposa (Pow2.max_mod_left hl.align_pow2 hpa)) hread)
              exact validate_ok_iff.2 ⟨hpal, by simp only [Slice.len, Slice.take, Slice.drop, List.length_drop, List.length_take, hb2l, hb1l]; omega, hloc.1⟩
            have hstZ := settled_newZ it.dict l hl base pos lastSlot whole b2 (sizeSpec it i) hinv (by omega) (by omega) hb2p hst
              (by have := hloc.2; simp only [Dict.sizeV] at this; exact this)
            obtain ⟨ihiff, ihsize⟩ := ih (fun j hj => hrec j (by simp [hj])) _ (some pos) b2 (by omega)
              (add_mod_zero hposal (add_mod_zero hosal (ceilMul_mod _ _))) (by omega) hstZ o ho
            refine ⟨?_, fun hr f hf => ?_⟩
            · rw [ihiff]
              constructor
              · intro h; exact ⟨⟨hfits.1, hlt, h.1⟩, by omega⟩
              · intro h; exact ⟨h.1.2.2, by omega⟩
            · have := ihsize hr f hf
              rw [this]
              cases lastSlot <;> simp only [fillEnd, Nat.add_assoc]
          · simp only [hlt, if_false] at ho
            exact failing _ _ ho (by intro h; exact hlt h.1.2.1)
end FV
