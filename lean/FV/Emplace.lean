import FV.VecOps
/-! Emplacers (repaired-code semantics): `new_in_place` / `assign_in_place` on bytes. Definitions only (prototype). -/
namespace FV

/-- a dynamic initialiser; sized values are given by their byte images -/
inductive Init where
  | raw (bs : Bytes)
  | vecEmpty
  | vecArr (xs : List Bytes)
  | vecIter (xs : List Bytes)
  | strEmpty
  | strFrom (bs : Bytes)
  | flexEmpty
  | flexIter (items : List Init)
  | ustruct (fields : List Bytes) (last : Init)
  | uenum (idx : Nat) (fields : List Bytes) (last : Option Init)
deriving Repr

/-- state after an emplacer ran: the bytes, and `Ok`/`Err` -/
instance : DecidableEq (Except Err Unit)
  | .ok (), .ok () => isTrue rfl
  | .error a, .error b => if h : a = b then isTrue (by rw [h]) else isFalse (by intro hh; cases hh; exact h rfl)
  | .ok (), .error _ => isFalse (by intro h; cases h)
  | .error _, .ok () => isFalse (by intro h; cases h)

structure EO where
  bytes : Bytes
  res : Except Err Unit
deriving DecidableEq

def EO.ok (b : Bytes) : EO := ⟨b, .ok ()⟩
def EO.err (b : Bytes) (k : EKind) (p : Nat) : EO := ⟨b, .error ⟨k, p⟩⟩
def EO.offset (o : EO) (n : Nat) : EO :=
  match o.res with
  | .ok () => o
  | .error e => ⟨o.bytes, .error { e with pos := e.pos + n }⟩

def encLenTy (l : LenTy) (n : Nat) : Bytes := if l.be then toBE n l.size else toLE n l.size

/-- write sized field images at their positions (`iter.next()` + `emplace_unchecked` of a sized value) -/
def writeFields : List Dict → List Bytes → Nat → Bytes → Res Bytes
  | [], _, _, bs => .ok bs
  | _ :: _, [], _, _ => .fault .panic                      -- ill-typed initialiser
  | [d], v :: _, pos, bs => if v.length = d.ssize then writeAt bs pos v else .fault .panic
  | d :: d' :: ds, v :: vs, pos, bs =>
    if v.length = d.ssize then
      match writeAt bs pos v with
      | .ok b1 => writeFields (d' :: ds) vs (ceilMul (pos + d.ssize) d'.align) b1
      | .err e => .err e
      | .fault f => .fault f
    else .fault .panic

/-- position of the last field of a list -/
def lastPos : List Dict → Nat → Nat
  | [], pos => pos
  | [_], pos => pos
  | d :: d' :: ds, pos => lastPos (d' :: ds) (ceilMul (pos + d.ssize) d'.align)

def vecWriteElems (S dOff : Nat) : List Bytes → Nat → Bytes → Res Bytes
  | [], _, bs => .ok bs
  | x :: xs, i, bs =>
    if x.length = S then
      match writeAt bs (dOff + i * S) x with
      | .ok b1 => vecWriteElems S dOff xs (i + 1) b1
      | .err e => .err e
      | .fault f => .fault f
    else .fault .panic

mutual
/-- `emplace_unchecked` -/
def emplaceU : Ty → Init → Slice → Res EO
  | t, .raw v, s =>
    match t.dict.sized with
    | some sz => if v.length = sz then (writeAt s.bytes 0 v).bind fun b => .ok (EO.ok b) else .fault .panic
    | none => .fault .panic
  | .vec et l, .vecEmpty, s => (writeAt s.bytes 0 (encLenTy l 0)).bind fun b => .ok (EO.ok b)
  | .vec et l, .vecArr xs, s =>
    let d := et.dict
    (writeAt s.bytes 0 (encLenTy l 0)).bind fun b0 =>
    (vecSlots d l s.len).bind fun slots =>
    let cap := min slots l.max
    if cap < xs.length then .ok (EO.err b0 .insufficientSize 0)
    else (vecWriteElems d.ssize (max l.size d.align) xs 0 b0).bind fun b1 =>
      (writeAt b1 0 (encLenTy l xs.length)).bind fun b2 => .ok (EO.ok b2)
  | .vec et l, .vecIter xs, s =>
    let d := et.dict
    (writeAt s.bytes 0 (encLenTy l 0)).bind fun b0 =>
    (vecSlots d l s.len).bind fun slots =>
    let cap := min slots l.max
    let fit := xs.take cap
    (vecWriteElems d.ssize (max l.size d.align) fit 0 b0).bind fun b1 =>
      (writeAt b1 0 (encLenTy l fit.length)).bind fun b2 =>
        if cap < xs.length then .ok (EO.err b2 .insufficientSize 0) else .ok (EO.ok b2)
  | .str l, .strEmpty, s => (writeAt s.bytes 0 (encLenTy l 0)).bind fun b => .ok (EO.ok b)
  | .str l, .strFrom v, s =>
    (writeAt s.bytes 0 (encLenTy l 0)).bind fun b0 =>
    if s.len < l.size then .fault .panic else
    let cap := min (floorMul (s.len - l.size) l.align) l.max
    if cap < v.length then .ok (EO.err b0 .insufficientSize 0)
    else (writeAt b0 l.size v).bind fun b1 => (writeAt b1 0 (encLenTy l v.length)).bind fun b2 => .ok (EO.ok b2)
  | .flex it l, .flexEmpty, s => (writeAt s.bytes 0 (encLenTy l 0)).bind fun b => .ok (EO.ok b)
  | .flex it l, .flexIter items, s =>
    let al := max l.align it.dict.align
    let n := floorMul s.len al
    -- works on the floored view; bytes beyond stay
    (flexFill it l items 0 none (s.bytes.take n) s.addr).bind fun o =>
      .ok ⟨o.bytes ++ s.bytes.drop n, o.res⟩
  | .ustruct fs last, .ustruct vals li, s =>
    let ds := dictL fs
    let all := ds ++ [last.dict]
    let al := alignL all
    let n := floorMul s.len al
    let s0 : Slice := s.take n
    match checkAlignMin al (minSizeL all 0) s0 with
    | .err e => .ok ⟨s.bytes, .error e⟩
    | .fault f => .fault f
    | .ok () =>
      let lfo := ceilMul (foldSize ds 0) last.dict.align
      (if ds.isEmpty then Res.ok s0.bytes else writeFields ds vals 0 s0.bytes).bind fun b1 =>
        (emplaceU last li ⟨s.addr + lfo, b1.drop lfo⟩).bind fun o =>
          .ok ⟨b1.take lfo ++ o.bytes ++ s.bytes.drop n, o.res⟩
  | .uenum tag vs, .uenum idx vals li, s =>
    let dvs := dictLL vs
    let al := max tag.align (alignLL dvs)
    let dOff := ceilMul tag.size al
    if s.len < dOff then .fault .oob else
    let n := floorMul (s.len - dOff) al
    let data : Slice := (s.drop dOff).take n
    let v := dvs.getD idx []
    let tagBytes := encLenTy tag idx
    if v.isEmpty then
      (writeAt s.bytes 0 tagBytes).bind fun b => .ok (EO.ok b)
    else
      match checkAlignMin (alignL v) (minSizeL v 0) data with
      | .err e => .ok ⟨s.bytes, .error { e with pos := e.pos + dOff }⟩
      | .fault f => .fault f
      | .ok () =>
        (writeAt s.bytes 0 tagBytes).bind fun b0 =>
        let dbytes := (b0.drop dOff).take n
        match li with
        | none =>
          (writeFields v vals 0 dbytes).bind fun b1 => .ok (EO.ok (b0.take dOff ++ b1 ++ b0.drop (dOff + n)))
        | some lasti =>
          let sizedPart := v.dropLast
          let lpos := lastPos v 0
          (if sizedPart.isEmpty then Res.ok dbytes else writeFields sizedPart vals 0 dbytes).bind fun b1 =>
            match vs.getD idx [] |>.getLast? with
            | none => .fault .panic
            | some lt =>
              (emplaceU lt lasti ⟨s.addr + dOff + lpos, b1.drop lpos⟩).bind fun o =>
                .ok ⟨b0.take dOff ++ (b1.take lpos ++ o.bytes) ++ b0.drop (dOff + n), o.res.mapError fun e => { e with pos := e.pos }⟩
  | _, _, _ => .fault .panic
/-- `flex::FromIterator`: `data` = remaining bytes (starting at offset `pos`), `lastSlot` = offset of the previous slot -/
def flexFill (it : Ty) (l : LenTy) : List Init → Nat → Option Nat → Bytes → Nat → Res EO
  | [], _, lastSlot, whole, _ =>
    match lastSlot with
    | some q => (writeAt whole q (encLenTy l l.max)).bind fun b => .ok (EO.ok b)
    | none => (writeAt whole 0 (encLenTy l 0)).bind fun b => .ok (EO.ok b)
  | i :: is, pos, lastSlot, whole, base =>
    let d := it.dict
    let al := max l.align d.align
    let os := max l.size d.align
    let finish (res : Except Err Unit) (b : Bytes) : Res EO :=
      match lastSlot with
      | some q => (writeAt b q (encLenTy l l.max)).bind fun b' => .ok ⟨b', res⟩
      | none => (writeAt b 0 (encLenTy l 0)).bind fun b' => .ok ⟨b', res⟩
    if whole.length - pos < os then finish (.error ⟨.insufficientSize, pos⟩) whole
    else
      let payload : Slice := ⟨base + pos + os, whole.drop (pos + os)⟩
      match checkAlignMin d.align d.minSize payload with
      | .fault f => .fault f
      | .err e => finish (.error { e with pos := e.pos + pos + os }) whole
      | .ok () =>
        (emplaceU it i payload).bind fun o =>
          let b1 := whole.take (pos + os) ++ o.bytes
          match o.res with
          | .error e => finish (.error { e with pos := e.pos + pos + os }) b1
          | .ok () =>
            (d.size ⟨payload.addr, o.bytes⟩).bind fun z =>
              let off := os + ceilMul z al
              if off < l.max then
                (writeAt b1 pos (encLenTy l off)).bind fun b2 => flexFill it l is (pos + off) (some pos) b2 base
              else finish (.error ⟨.insufficientSize, pos⟩) b1
end

/-- `new_in_place`: the checked entry point -/
def emplace (t : Ty) (i : Init) (s : Slice) : Res EO :=
  match checkAlignMin t.dict.align t.dict.minSize s with
  | .err e => .ok ⟨s.bytes, .error e⟩
  | .fault f => .fault f
  | .ok () => emplaceU t i s
end FV

namespace FV
/-- `assign_in_place` on a valid value mapped from `s`: the emplacer runs unchecked on the value's own bytes
(`as_mut_bytes()`), everything after them is untouched. -/
def assign (t : Ty) (i : Init) (s : Slice) : Res EO :=
  (t.dict.viewLen s.len).bind fun v =>
    (emplaceU t i (s.take v)).bind fun o => .ok ⟨o.bytes ++ s.bytes.drop v, o.res⟩

/-- replace a byte value inside every raw sized image of an initialiser (used to tell padding from data) -/
def substB (a b : UInt8) (bs : Bytes) : Bytes := bs.map fun x => if x = a then b else x
mutual
def Init.subst (a b : UInt8) : Init → Init
  | .raw bs => .raw (substB a b bs)
  | .vecEmpty => .vecEmpty
  | .vecArr xs => .vecArr (xs.map (substB a b))
  | .vecIter xs => .vecIter (xs.map (substB a b))
  | .strEmpty => .strEmpty
  | .strFrom bs => .strFrom bs
  | .flexEmpty => .flexEmpty
  | .flexIter items => .flexIter (substL a b items)
  | .ustruct fields last => .ustruct (fields.map (substB a b)) (last.subst a b)
  | .uenum idx fields none => .uenum idx (fields.map (substB a b)) none
  | .uenum idx fields (some l) => .uenum idx (fields.map (substB a b)) (some (l.subst a b))
def substL (a b : UInt8) : List Init → List Init
  | [] => []
  | x :: xs => x.subst a b :: substL a b xs
end
end FV
