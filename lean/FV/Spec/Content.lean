import FV.Emplace
import FV.Walk
/-! Specification side: the content an initialiser *specifies*, as a `Val` without capacities.
Independent of how emplacers lay anything out: sized values are read from their own byte image. -/
namespace FV

/-- remove capacities from a rendered walk: digits directly after `V` or `S` -/
def stripCapsL : List Char → Bool → List Char
  | [], _ => []
  | c :: r, skipping =>
    if skipping && c.isDigit then stripCapsL r true
    else if c == 'V' || c == 'S' then c :: stripCapsL r true
    else c :: stripCapsL r false
def stripCaps (s : String) : String := String.ofList (stripCapsL s.toList false)

/-- content of a sized value given by its image -/
def specSizedV (t : Ty) (v : Bytes) : Res Val := (t.dict.walk ⟨0, v⟩).map Val.strip

def specSizedLV : List Ty → List Bytes → Res (List Val)
  | [], _ => .ok []
  | _ :: _, [] => .fault .panic
  | t :: ts, v :: vs => (specSizedV t v).bind fun x => (specSizedLV ts vs).bind fun xs => .ok (x :: xs)

def specElemsV (t : Ty) : List Bytes → Res (List Val)
  | [] => .ok []
  | v :: vs => (specSizedV t v).bind fun x => (specElemsV t vs).bind fun xs => .ok (x :: xs)

mutual
/-- **the content an initialiser specifies** -/
def specV : Ty → Init → Res Val
  | t, .raw v => specSizedV t v
  | .vec et _, .vecEmpty => .ok (if et.dict.ssize = 0 then .vecZ 0 0 else .vec 0 [])
  | .vec et _, .vecArr xs => if et.dict.ssize = 0 then .ok (.vecZ 0 xs.length) else (specElemsV et xs).bind fun es => .ok (.vec 0 es)
  | .vec et _, .vecIter xs => if et.dict.ssize = 0 then .ok (.vecZ 0 xs.length) else (specElemsV et xs).bind fun es => .ok (.vec 0 es)
  | .str _, .strEmpty => .ok (.str 0 [])
  | .str _, .strFrom v => .ok (.str 0 v)
  | .flex _ _, .flexEmpty => .ok (.flex [])
  | .flex it _, .flexIter items => (specItemsV it items).bind fun xs => .ok (.flex xs)
  | .ustruct fs last, .ustruct vals li =>
    (specSizedLV fs vals).bind fun xs => (specV last li).bind fun x => .ok (.tuple (xs ++ [x]))
  | .uenum _ vs, .uenum idx vals none => (specSizedLV (vs.getD idx []) vals).bind fun xs => .ok (.tag idx xs)
  | .uenum _ vs, .uenum idx vals (some li) =>
    let v := vs.getD idx []
    match v.getLast? with
    | none => .fault .panic
    | some lt => (specSizedLV v.dropLast vals).bind fun xs => (specV lt li).bind fun x => .ok (.tag idx (xs ++ [x]))
  | _, _ => .fault .panic
def specItemsV (it : Ty) : List Init → Res (List Val)
  | [] => .ok []
  | i :: is => (specV it i).bind fun x => (specItemsV it is).bind fun xs => .ok (x :: xs)
end

/-- text forms used by the driver -/
def specSized (t : Ty) (v : Bytes) : Res String := (specSizedV t v).map (Val.render false)
def specOf (t : Ty) (i : Init) : Res String := (specV t i).map (Val.render false)
end FV
