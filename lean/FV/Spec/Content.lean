import FV.Emplace
import FV.Walk
/-! Specification side: the content an initialiser *specifies*, rendered canonically (no capacities).
Independent of how emplacers lay anything out: sized values are read from their own byte image. -/
namespace FV

/-- remove capacities from a rendered walk: digits directly after `V` or `S` -/
def stripCapsL : List Char → Bool → List Char
  | [], _ => []
  | c :: r, skipping =>
    if skipping && c.isDigit then stripCapsL r true
    else if c == 'V' || c == 'S' then c :: stripCapsL r true
    else c :: stripCapsL r false
def stripCaps (s : String) : String := String.ofList (stripCapsL s.toList false)

/-- content of a sized value given by its image -/
def specSized (t : Ty) (v : Bytes) : Res String := (t.walk ⟨0, v⟩).bind fun w => .ok (stripCaps w)

def specSizedL : List Ty → List Bytes → Res (List String)
  | [], _ => .ok []
  | _ :: _, [] => .fault .panic
  | t :: ts, v :: vs => (specSized t v).bind fun x => (specSizedL ts vs).bind fun xs => .ok (x :: xs)

def specElems (t : Ty) : List Bytes → Res (List String)
  | [] => .ok []
  | v :: vs => (specSized t v).bind fun x => (specElems t vs).bind fun xs => .ok (x :: xs)

def tagged (i : Nat) (xs : List String) : String := if xs.isEmpty then s!"<{i}>" else s!"<{i} {joinSp xs}>"

mutual
def specOf : Ty → Init → Res String
  | t, .raw v => specSized t v
  | .vec et _, .vecEmpty => .ok (if et.dict.ssize = 0 then "V[*0]" else "V[]")
  | .vec et _, .vecArr xs => if et.dict.ssize = 0 then .ok s!"V[*{xs.length}]" else (specElems et xs).bind fun es => .ok ("V[" ++ joinSp es ++ "]")
  | .vec et _, .vecIter xs => if et.dict.ssize = 0 then .ok s!"V[*{xs.length}]" else (specElems et xs).bind fun es => .ok ("V[" ++ joinSp es ++ "]")
  | .str _, .strEmpty => .ok "S:"
  | .str _, .strFrom v => .ok ("S:" ++ hexOf v)
  | .flex _ _, .flexEmpty => .ok "F[]"
  | .flex it _, .flexIter items => (specItems it items).bind fun xs => .ok ("F[" ++ joinSp xs ++ "]")
  | .ustruct fs last, .ustruct vals li =>
    (specSizedL fs vals).bind fun xs => (specOf last li).bind fun x => .ok ("(" ++ joinSp (xs ++ [x]) ++ ")")
  | .uenum _ vs, .uenum idx vals none => (specSizedL (vs.getD idx []) vals).bind fun xs => .ok (tagged idx xs)
  | .uenum _ vs, .uenum idx vals (some li) =>
    let v := vs.getD idx []
    match v.getLast? with
    | none => .fault .panic
    | some lt => (specSizedL v.dropLast vals).bind fun xs => (specOf lt li).bind fun x => .ok (tagged idx (xs ++ [x]))
  | _, _ => .fault .panic
def specItems (it : Ty) : List Init → Res (List String)
  | [] => .ok []
  | i :: is => (specOf it i).bind fun x => (specItems it is).bind fun xs => .ok (x :: xs)
end
end FV
