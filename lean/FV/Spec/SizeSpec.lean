import FV.Emplace
/-! Specification side: how many bytes the value specified by an initialiser occupies (`size()` of the result), and when the
content is representable at all (lengths and FlexVec offsets within the length type). Written without reference to how the
emplacers proceed. -/
namespace FV

mutual
/-- `size()` of the value an initialiser specifies -/
def sizeSpec : Ty → Init → Nat
  | t, .raw _ => t.dict.ssize
  | .vec et l, .vecEmpty => ceilMul (max l.size et.dict.align + et.dict.ssize * 0) (max l.align et.dict.align)
  | .vec et l, .vecArr xs => ceilMul (max l.size et.dict.align + et.dict.ssize * xs.length) (max l.align et.dict.align)
  | .vec et l, .vecIter xs => ceilMul (max l.size et.dict.align + et.dict.ssize * xs.length) (max l.align et.dict.align)
  | .str l, .strEmpty => ceilMul (l.size + 0) l.align
  | .str l, .strFrom v => ceilMul (l.size + v.length) l.align
  | .flex it l, .flexEmpty => max l.size it.dict.align
  | .flex it l, .flexIter items =>
    match items with
    | [] => max l.size it.dict.align
    | _ => sizeItems it l items
  | .ustruct fs last, .ustruct _ li =>
    ceilMul (ceilMul (foldSize (dictL fs) 0) last.dict.align + sizeSpec last li) (alignL (dictL fs ++ [last.dict]))
  | .uenum tag vs, .uenum idx _ none =>
    let al := max tag.align (alignLL (dictLL vs))
    let v := dictL (vs.getD idx [])
    ceilMul (ceilMul tag.size al + (if v.isEmpty then 0 else foldSize v 0)) al
  | .uenum tag vs, .uenum idx _ (some li) =>
    let al := max tag.align (alignLL (dictLL vs))
    match (vs.getD idx []).getLast? with
    | none => 0
    | some lt => ceilMul (ceilMul tag.size al + (lastPos (dictL (vs.getD idx [])) 0 + sizeSpec lt li)) al
  | _, _ => 0
/-- the items of a FlexVec, each in a slot of header + padded payload -/
def sizeItems (it : Ty) (l : LenTy) : List Init → Nat
  | [] => 0
  | i :: is => max l.size it.dict.align + ceilMul (sizeSpec it i) (max l.align it.dict.align) + sizeItems it l is
end

mutual
/-- the content can be represented: lengths fit the length type (and `usize`, which only matters for zero-sized elements),
FlexVec slots are shorter than `L::MAX` -/
def Rep : Ty → Init → Prop
  | .vec et l, .vecArr xs => xs.length ≤ l.max ∧ (et.dict.ssize = 0 → xs.length ≤ usizeMax)
  | .vec et l, .vecIter xs => xs.length ≤ l.max ∧ (et.dict.ssize = 0 → xs.length ≤ usizeMax)
  | .str l, .strFrom v => v.length ≤ l.max
  | .flex it l, .flexIter items => RepL it l items
  | .ustruct _ last, .ustruct _ li => Rep last li
  | .uenum _ vs, .uenum idx _ (some li) =>
    match (vs.getD idx []).getLast? with
    | none => True
    | some lt => Rep lt li
  | _, _ => True
def RepL (it : Ty) (l : LenTy) : List Init → Prop
  | [] => True
  | i :: is => Rep it i ∧ max l.size it.dict.align + ceilMul (sizeSpec it i) (max l.align it.dict.align) < l.max ∧ RepL it l is
end

mutual
def repB : Ty → Init → Bool
  | .vec et l, .vecArr xs => decide (xs.length ≤ l.max) && (et.dict.ssize != 0 || decide (xs.length ≤ usizeMax))
  | .vec et l, .vecIter xs => decide (xs.length ≤ l.max) && (et.dict.ssize != 0 || decide (xs.length ≤ usizeMax))
  | .str l, .strFrom v => v.length ≤ l.max
  | .flex it l, .flexIter items => repLB it l items
  | .ustruct _ last, .ustruct _ li => repB last li
  | .uenum _ vs, .uenum idx _ (some li) =>
    match (vs.getD idx []).getLast? with
    | none => true
    | some lt => repB lt li
  | _, _ => true
def repLB (it : Ty) (l : LenTy) : List Init → Bool
  | [] => true
  | i :: is => repB it i && decide (max l.size it.dict.align + ceilMul (sizeSpec it i) (max l.align it.dict.align) < l.max) && repLB it l is
end

mutual
/-- the executable test the driver prints decides `Rep` -/
theorem repB_iff : ∀ (i : Init) (t : Ty), repB t i = true ↔ Rep t i
  | .raw _, t => by cases t <;> simp [repB, Rep]
  | .vecEmpty, t => by cases t <;> simp [repB, Rep]
  | .vecArr xs, t => by
      cases t <;> simp only [repB, Rep, Bool.and_eq_true, Bool.or_eq_true, decide_eq_true_eq, bne_iff_ne, ne_eq]
      rename_i et l
      constructor
      · intro h; exact ⟨h.1, fun hz => h.2.resolve_left (fun hn => hn hz)⟩
      · intro h
        refine ⟨h.1, ?_⟩
        by_cases hz : et.dict.ssize = 0
        · exact Or.inr (h.2 hz)
        · exact Or.inl hz
  | .vecIter xs, t => by
      cases t <;> simp only [repB, Rep, Bool.and_eq_true, Bool.or_eq_true, decide_eq_true_eq, bne_iff_ne, ne_eq]
      rename_i et l
      constructor
      · intro h; exact ⟨h.1, fun hz => h.2.resolve_left (fun hn => hn hz)⟩
      · intro h
        refine ⟨h.1, ?_⟩
        by_cases hz : et.dict.ssize = 0
        · exact Or.inr (h.2 hz)
        · exact Or.inl hz
  | .strEmpty, t => by cases t <;> simp [repB, Rep]
  | .strFrom v, t => by cases t <;> simp [repB, Rep]
  | .flexEmpty, t => by cases t <;> simp [repB, Rep]
  | .flexIter items, t => by
      cases t <;> simp only [repB, Rep]
      rename_i it l
      exact repLB_iff items it l
  | .ustruct vals li, t => by
      cases t <;> simp only [repB, Rep]
      rename_i fs last
      exact repB_iff li last
  | .uenum idx vals none, t => by cases t <;> simp [repB, Rep]
  | .uenum idx vals (some li), t => by
      cases t <;> simp only [repB, Rep]
      rename_i tag vs
      cases (vs.getD idx []).getLast? with
      | none => simp
      | some lt => exact repB_iff li lt
theorem repLB_iff : ∀ (items : List Init) (it : Ty) (l : LenTy), repLB it l items = true ↔ RepL it l items
  | [], _, _ => by simp [repLB, RepL]
  | i :: is, it, l => by
      simp only [repLB, RepL, Bool.and_eq_true, decide_eq_true_eq]
      rw [repB_iff i it, repLB_iff is it l]
      constructor
      · intro h; exact ⟨h.1.1, h.1.2, h.2⟩
      · intro h; exact ⟨⟨h.1, h.2.1⟩, h.2.2⟩
end
end FV
