import FV.Spec.Content
/-! Reference serialisation of portable values: a pure function of the content, defined without any layout arithmetic —
the concatenation, in declaration order, of tag, fields, length and elements, each in its fixed byte order. -/
namespace FV

mutual
/-- every alignment occurring in the type is 1 (the shape of `Portable` types) -/
def Ty.align1 : Ty → Bool
  | .prim _ a => a == 1
  | .bool => true
  | .arr t _ => t.align1
  | .sstruct fs => align1L fs
  | .cenum tag _ => tag.align == 1
  | .senum tag vs => tag.align == 1 && align1LL vs
  | .vec t l => t.align1 && l.align == 1
  | .str l => l.align == 1
  | .flex t l => t.align1 && l.align == 1
  | .ustruct fs last => align1L fs && last.align1
  | .uenum tag vs => tag.align == 1 && align1LL vs
def align1L : List Ty → Bool
  | [] => true
  | t :: ts => t.align1 && align1L ts
def align1LL : List (List Ty) → Bool
  | [] => true
  | v :: vs => align1L v && align1LL vs
end

def concatB : List Bytes → Bytes
  | [] => []
  | x :: xs => x ++ concatB xs

mutual
/-- the serialisation of what an initialiser specifies (sized values are given by their image, which for an
alignment-1 type is already the concatenation of their parts) -/
def serialize : Ty → Init → Option Bytes
  | _, .raw v => some v
  | .vec _ l, .vecEmpty => some (encLenTy l 0)
  | .vec _ l, .vecArr xs => some (encLenTy l xs.length ++ concatB xs)
  | .vec _ l, .vecIter xs => some (encLenTy l xs.length ++ concatB xs)
  | .str l, .strEmpty => some (encLenTy l 0)
  | .str l, .strFrom v => some (encLenTy l v.length ++ v)
  | .flex _ l, .flexEmpty => some (encLenTy l 0)
  | .flex it l, .flexIter items => serItems it l items
  | .ustruct _ last, .ustruct vals li => (serialize last li).map fun b => concatB vals ++ b
  | .uenum tag _, .uenum idx vals none => some (encLenTy tag idx ++ concatB vals)
  | .uenum tag vs, .uenum idx vals (some li) =>
    match (vs.getD idx []).getLast? with
    | none => none
    | some lt => (serialize lt li).map fun b => encLenTy tag idx ++ concatB vals ++ b
  | _, _ => none
/-- items of a FlexVec: every item but the last is preceded by its distance to the next slot, the last by `L::MAX`;
an empty vector is a single zero slot -/
def serItems (it : Ty) (l : LenTy) : List Init → Option Bytes
  | [] => some (encLenTy l 0)
  | [i] => (serialize it i).map fun b => encLenTy l l.max ++ b
  | i :: is => (serialize it i).bind fun b => (serItems it l is).map fun r => encLenTy l (l.size + b.length) ++ b ++ r
end
end FV
