import FV.IoArb
import FV.IoAsyncRecv
/-! C10 for the async receiver: whatever bytes arrive, in whatever chunks, with `Pending` anywhere — `recv` polled to an outcome never
faults, and a guard it hands out covers valid bytes. -/
namespace FV

def ATotal (t : Ty) (mode : Bool) (evs : List AREv) (b : RBuf) (rest : Bytes) : Prop :=
  ∃ o b' rest' evs', arecv t.dict mode evs b rest = (o, b', rest', evs') ∧ o ≠ .fault ∧ RInv t.dict b' ∧
    (∀ occ, o = .msg occ → occ = b'.occ ∧ t.dict.validate b'.slice = .ok ())

/-- the bytes one `poll_read` can take -/
def takeN (b : RBuf) (c : Nat) (rest : Bytes) : Nat :=
  min (min c ((compactB b).cap - ((compactB b).start + (compactB b).occ.length))) rest.length

theorem arecv_true_cons (d : Dict) (ev : AREv) (evs' : List AREv) (b : RBuf) (rest : Bytes) :
    arecv d true (ev :: evs') b rest =
      if b.start + b.occ.length = b.cap ∧ b.start = 0 then (.oom, b, rest, ev :: evs')
      else match ev with
        | .pending => arecv d true evs' (compactB b) rest
        | .fail k => (.readErr k, compactB b, rest, evs')
        | .deliver c =>
          if takeN b c rest = 0 then (.closed, { compactB b with occ := (compactB b).occ ++ rest.take (takeN b c rest) }, rest.drop (takeN b c rest), evs')
          else arecv d false evs' { compactB b with occ := (compactB b).occ ++ rest.take (takeN b c rest) } (rest.drop (takeN b c rest)) := by
  conv => lhs; unfold arecv
  rfl

theorem arecv_total (t : Ty) (h : t.WF) : ∀ (n : Nat) (evs : List AREv) (b : RBuf) (rest : Bytes), evs.length ≤ n → RInv t.dict b →
    ATotal t true evs b rest ∧ ATotal t false evs b rest := by
  have hfalse : ∀ (evs : List AREv) (b : RBuf) (rest : Bytes), RInv t.dict b → ATotal t true evs b rest → ATotal t false evs b rest := by
    intro evs b rest hinv htrue
    unfold ATotal
    conv => enter [1, o, 1, b', 1, rest', 1, evs', 1, 1]; unfold arecv
    have hnf := C01_validate_total t h b.slice
    cases hv : t.dict.validate b.slice with
    | fault f => rw [hv] at hnf; exact absurd hnf (by simp)
    | ok u => exact ⟨_, _, _, _, rfl, by simp, hinv, by intro occ ho; cases ho; exact ⟨rfl, hv⟩⟩
    | err e =>
      simp only
      split
      · exact ⟨_, _, _, _, rfl, by simp, hinv, by intro occ ho; cases ho⟩
      · exact htrue
  have hnil : ∀ (b : RBuf) (rest : Bytes), RInv t.dict b → ATotal t true [] b rest := by
    intro b rest hinv
    exact ⟨_, _, _, _, by unfold arecv; rfl, by simp, hinv, by intro occ ho; cases ho⟩
  intro n
  induction n with
  | zero =>
    intro evs b rest hl hinv
    have : evs = [] := List.eq_nil_of_length_eq_zero (by omega)
    subst this
    exact ⟨hnil b rest hinv, hfalse [] b rest hinv (hnil b rest hinv)⟩
  | succ n ih =>
    intro evs b rest hl hinv
    have htrue : ATotal t true evs b rest := by
      cases evs with
      | nil => exact hnil b rest hinv
      | cons ev evs' =>
        have hl' : evs'.length ≤ n := by simp only [List.length_cons] at hl; omega
        unfold ATotal
        rw [arecv_true_cons]
        by_cases hoom : b.start + b.occ.length = b.cap ∧ b.start = 0
        · rw [if_pos hoom]
          exact ⟨_, _, _, _, rfl, by simp, hinv, by intro occ ho; cases ho⟩
        · rw [if_neg hoom]
          have hb1 : RInv t.dict (compactB b) := compact_inv t.dict b hinv
          cases ev with
          | pending => exact (ih evs' _ rest hl' hb1).1
          | fail k => exact ⟨_, _, _, _, rfl, by simp, hb1, by intro occ ho; cases ho⟩
          | deliver c =>
            simp only
            have hgot : RInv t.dict { compactB b with occ := (compactB b).occ ++ rest.take (takeN b c rest) } := by
              refine ⟨hb1.base_al, hb1.start_al, ?_⟩
              have := hb1.within
              simp only [List.length_append, List.length_take, takeN]; omega
            by_cases hz : takeN b c rest = 0
            · rw [if_pos hz]
              exact ⟨_, _, _, _, rfl, by simp, hgot, by intro occ ho; cases ho⟩
            · rw [if_neg hz]
              exact (ih evs' _ _ hl' hgot).2
    exact ⟨htrue, hfalse evs b rest hinv htrue⟩

/-- **C10 for the async receiver.** -/
theorem arecv_never_faults (t : Ty) (h : t.WF) (evs : List AREv) (b : RBuf) (rest : Bytes) (hinv : RInv t.dict b) :
    ∃ o b' rest' evs', arecv t.dict false evs b rest = (o, b', rest', evs') ∧ o ≠ .fault ∧
      (∀ occ, o = .msg occ → ∃ b'', dropGuard t.dict b' = some b'' ∧ RInv t.dict b'') := by
  obtain ⟨o, b', rest', evs', hr, ho, hi, hm⟩ := (arecv_total t h evs.length evs b rest (Nat.le_refl _) hinv).2
  refine ⟨o, b', rest', evs', hr, ho, ?_⟩
  intro occ hocc
  obtain ⟨_, hv⟩ := hm occ hocc
  obtain ⟨z, hz, hzle, hzm, _, _⟩ := C05_size_exact t h b'.slice hv
  have hzle' : z ≤ b'.occ.length := hzle
  simp only [dropGuard, hz, hzle', if_true]
  split
  · exact ⟨_, rfl, hi.base_al, Nat.zero_mod _, by simp⟩
  · refine ⟨_, rfl, hi.base_al, add_mod_zero hi.start_al hzm, ?_⟩
    have := hi.within
    simp only [List.length_drop]; omega
end FV
#print axioms FV.arecv_never_faults
