import FV.ErrLaw
/-! Content errors are final: FlexVec, unsized structs and enums; assembly over `Ty`. -/
namespace FV

/-- the same for the checked entry point -/
theorem validate_hard {d : Dict} (hE : ErrLaw d) {s s' : Slice} {e : Err} (hx : Ext s s')
    (hv : d.validate s = .err e) (hh : e.Hard) : d.validate s' = .err e := by
  unfold Dict.validate at hv ⊢
  unfold checkAlignMin at hv ⊢
  rw [hx.addr]
  by_cases ha : s.addr % d.align = 0
  · simp only [ha, ne_eq, not_true_eq_false, if_false] at hv ⊢
    by_cases hl : s.len < d.minSize
    · simp only [hl, if_true, Res.bind_err, Res.err.injEq] at hv
      subst hv; exact absurd rfl hh
    · have hl' : ¬ s'.len < d.minSize := by have := hx.len; omega
      simp only [hl, hl', if_false, Res.bind_ok] at hv ⊢
      exact hE.hard s s' e ha (by omega) hx hv hh
  · simp only [ha, ne_eq, not_false_eq_true, if_true, Res.bind_err] at hv ⊢
    exact hv

theorem flex_hard_aux (d : Dict) (hE : ErrLaw d) (l : LenTy) (os : Nat) :
    ∀ f f' pos data data' e, data.len < f → data'.len < f' → Ext data data' →
      flexValidate d l os f pos data = .err e → e.Hard → flexValidate d l os f' pos data' = .err e := by
  intro f
  induction f with
  | zero => intro f' pos data data' e h; omega
  | succ f ih =>
    intro f' pos data data' e hf hf' hx hv hh
    obtain ⟨g, rfl⟩ : ∃ g, f' = g + 1 := ⟨f' - 1, by omega⟩
    have hl' := hx.len
    by_cases hal : data.addr % max l.align d.align = 0
    case neg =>
      have hal' : ¬ data'.addr % max l.align d.align = 0 := by rw [hx.addr]; exact hal
      unfold flexValidate at hv ⊢
      simp only [ne_eq, hal, hal', not_false_eq_true, if_true] at hv ⊢
      exact hv
    have hal' : data'.addr % max l.align d.align = 0 := by rw [hx.addr]; exact hal
    by_cases hla : data.addr % l.align = 0
    case neg =>
      have hla' : ¬ data'.addr % l.align = 0 := by rw [hx.addr]; exact hla
      unfold flexValidate at hv ⊢
      simp only [ne_eq, hal, hal', not_true_eq_false, if_false, checkAlignMin, hla, hla', not_false_eq_true, if_true] at hv ⊢
      exact hv
    have hla' : data'.addr % l.align = 0 := by rw [hx.addr]; exact hla
    by_cases hlen : l.size ≤ data.len
    case neg =>
      unfold flexValidate at hv
      have : data.len < l.size := by omega
      simp only [ne_eq, hal, not_true_eq_false, if_false, checkAlignMin, hla, this, if_true, Res.err.injEq] at hv
      subst hv; exact absurd rfl hh
    obtain ⟨next, hr⟩ := l.readU_noFault data hlen hla
    have hr' : l.readU data' = .ok next := by
      rw [readU_congr l data data' hx.addr hlen (by omega) (hx.take_eq _ hlen)]; exact hr
    have hc : checkAlignMin l.align l.size data = .ok () := checkAlignMin_ok.2 ⟨hla, hlen⟩
    have hc' : checkAlignMin l.align l.size data' = .ok () := checkAlignMin_ok.2 ⟨hla', by omega⟩
    by_cases hn : next = 0
    · unfold flexValidate at hv
      simp [hal, hc, hr, hn] at hv
    by_cases hbad : next ≠ l.max ∧ os > next
    · unfold flexValidate at hv ⊢
      simp only [ne_eq, hal, hal', not_true_eq_false, if_false, hc, hc', hr, hr', hn] at hv ⊢
      have hb2 : ¬ next = l.max ∧ os > next := hbad
      simp only [hb2] at hv ⊢
      exact hv
    have hge : next = l.max ∨ os ≤ next := by
      by_cases hm : next = l.max
      · exact .inl hm
      · exact .inr (by have := fun h => hbad ⟨hm, h⟩; omega)
    rw [flexValidate_unfold d l os f pos next data hal hla hlen hr hn hge] at hv
    rw [flexValidate_unfold d l os g pos next data' hal' hla' (by omega) hr' hn hge]
    by_cases hcond : os > data.len ∨ (next ≠ l.max ∧ next > data.len)
    · simp only [hcond, if_true, Res.err.injEq] at hv
      subst hv; exact absurd rfl hh
    have hcond' : ¬ (os > data'.len ∨ (next ≠ l.max ∧ next > data'.len)) := by
      intro h
      apply hcond
      rcases h with h | h
      · exact .inl (by omega)
      · exact .inr ⟨h.1, by omega⟩
    simp only [hcond, hcond', if_false] at hv ⊢
    have hos : os ≤ data.len := by
      have := fun h => hcond (.inl h); omega
    by_cases hm : next = l.max
    · simp only [hm, if_true] at hv ⊢
      obtain ⟨e0, h0, rfl⟩ := offset_eq_err hv
      rw [validate_hard hE (hx.drop os hos) h0 (hard_of_offset hh)]
      rfl
    · simp only [hm, if_false] at hv ⊢
      have hnd : next ≤ data.len := by
        have := fun h => hcond (.inr ⟨hm, h⟩); omega
      have hitem : data'.take next = data.take next := by
        simp only [Slice.take, hx.addr, hx.take_eq next hnd]
      rw [hitem]
      cases hp : d.validate ((data.take next).drop os) with
      | fault w => simp [hp] at hv
      | err e0 => simp only [hp, Res.offset_err] at hv ⊢; exact hv
      | ok u =>
        simp only [hp, Res.offset_ok] at hv ⊢
        exact ih g (pos + next) (data.drop next) (data'.drop next) e
          (by simp only [Slice.len_drop]; omega) (by simp only [Slice.len_drop]; omega) (hx.drop next hnd) hv hh

theorem flex_err (d : Dict) (hE : ErrLaw d) (l : LenTy) : ErrLaw (flexD d l) := ⟨by
  intro s s' e _ _ hx hv hh
  simp only [flexD] at hv ⊢
  have h1 := floorMul_le s.len (max l.align d.align)
  have h2 := floorMul_le s'.len (max l.align d.align)
  exact flex_hard_aux d hE l _ _ _ 0 _ _ e (by simp only [Slice.len_take]; omega) (by simp only [Slice.len_take]; omega)
    (hx.take_floor _) hv hh⟩

theorem ustruct_err (ds : List Dict) (last : Dict) (hl : ∀ d ∈ ds, Law d) (hf : ∀ d ∈ ds, FrameLaw d)
    (he : ∀ d ∈ ds, ErrLaw d) (hs : AllSized ds) (hlast : Law last) (hflast : FrameLaw last) (helast : ErrLaw last) :
    ErrLaw (ustructD ds last) := ⟨by
  have hall : ∀ d ∈ ds ++ [last], Law d := by
    intro d hd
    rcases List.mem_append.1 hd with h | h
    · exact hl d h
    · simp at h; subst h; exact hlast
  have hallf : ∀ d ∈ ds ++ [last], FrameLaw d := by
    intro d hd
    rcases List.mem_append.1 hd with h | h
    · exact hf d h
    · simp at h; subst h; exact hflast
  have halle : ∀ d ∈ ds ++ [last], ErrLaw d := by
    intro d hd
    rcases List.mem_append.1 hd with h | h
    · exact he d h
    · simp at h; subst h; exact helast
  have hok : FieldsOk (ds ++ [last]) := ⟨hall, hallf, allSizedButLast_append ds last hs⟩
  have hapos := alignL_pos (ds ++ [last])
  intro s s' e hal hlen hx hv hh
  simp only [ustructD] at hal hlen hv ⊢
  have h1 := le_ceilMul (x := minSizeL (ds ++ [last]) 0) hapos
  have h2 := floorMul_greatest hapos (ceilMul_mod (minSizeL (ds ++ [last]) 0) (alignL (ds ++ [last]))) hlen
  have h3 := floorMul_le s.len (alignL (ds ++ [last]))
  exact fields_hard _ 0 _ _ e ⟨hok, halle⟩
    (placed0 _ _ (fun d hd => by simpa using mod_trans hal (alignL_mod _ hall d hd)))
    (by simp only [Slice.len_take]; omega) (hx.take_floor _) hv hh⟩

theorem uenum_err (tag : LenTy) (ht : tag.Law) (vs : List (List Dict))
    (hl : ∀ v ∈ vs, ∀ d ∈ v, Law d) (hf : ∀ v ∈ vs, ∀ d ∈ v, FrameLaw d) (he : ∀ v ∈ vs, ∀ d ∈ v, ErrLaw d)
    (hs : ∀ v ∈ vs, AllSizedButLast v) : ErrLaw (uenumD tag vs) := ⟨by
  have hpa : Pow2 (max tag.align (alignLL vs)) := Pow2.of_max ht.align_pow2 (alignLL_pow2 vs hl)
  have hapos := hpa.pos
  have hdo := le_ceilMul (x := tag.size) hapos
  have hdom := ceilMul_mod tag.size (max tag.align (alignLL vs))
  have hminle := le_ceilMul (x := ceilMul tag.size (max tag.align (alignLL vs)) + minList (vs.map varMinSize)) hapos
  intro s s' e hal hlen hx hv hh
  simp only [uenumD] at hal hlen hv ⊢
  have hl' := hx.len
  have hd1 : ceilMul tag.size (max tag.align (alignLL vs)) ≤ s.len := by omega
  have hd2 : ceilMul tag.size (max tag.align (alignLL vs)) ≤ s'.len := by omega
  rw [readU_congr tag s s' hx.addr (by omega) (by omega) (hx.take_eq _ (by omega))]
  cases hr : tag.readU s with
  | fault f => simp [hr] at hv
  | err e0 => simp only [hr, Res.bind_eq, Res.bind_err] at hv ⊢; exact hv
  | ok t =>
    simp only [hr, Res.bind_eq, Res.bind_ok] at hv ⊢
    split at hv
    · rename_i hlt
      simp only [hlt, if_true]
      simp only [Slice.dropU, hd1, hd2, if_true, Res.bind_ok] at hv ⊢
      have hmem := getD_mem vs t [] hlt
      have hxd := (hx.drop _ hd1).take_floor (max tag.align (alignLL vs))
      split at hv
      · simp only [Res.err.injEq] at hv; subst hv; exact absurd rfl hh
      · rename_i hge
        have hge' : ¬ ((s'.drop (ceilMul tag.size (max tag.align (alignLL vs)))).take
            (floorMul (s'.drop (ceilMul tag.size (max tag.align (alignLL vs)))).len (max tag.align (alignLL vs)))).len
            < varMinSize (vs.getD t []) := by
          have := hxd.len; omega
        simp only [hge', if_false]
        obtain ⟨e0, h0, rfl⟩ := offset_eq_err hv
        have hne : (vs.getD t []).isEmpty = false := by
          cases hq : vs.getD t [] with
          | nil => rw [hq] at h0; simp [validateAll] at h0
          | cons a b => rfl
        have hvm : varMinSize (vs.getD t []) = minSizeL (vs.getD t []) 0 := by
          simp only [varMinSize, hne, Bool.false_eq_true, if_false]
        have := fields_hard (vs.getD t []) 0 _ _ e0
          ⟨⟨hl _ hmem, hf _ hmem, hs _ hmem⟩, he _ hmem⟩
          (placed0 _ _ (by
            intro d hd
            simp only [Slice.addr_take, Slice.addr_drop]
            apply add_mod_zero
            · exact mod_trans hal (mod_trans (Pow2.max_mod_right ht.align_pow2 (alignLL_pow2 vs hl)) (alignLL_mod vs hl _ hmem d hd))
            · exact mod_trans hdom (mod_trans (Pow2.max_mod_right ht.align_pow2 (alignLL_pow2 vs hl)) (alignLL_mod vs hl _ hmem d hd))))
          (by rw [← hvm]; omega) hxd h0 (hard_of_offset hh)
        rw [this]; rfl
    · rename_i hge
      simp only [hge, if_false]; exact hv⟩

mutual
theorem Ty.errLaw : ∀ t : Ty, t.WF → ErrLaw t.dict
  | .prim s a, _ => prim_err s a
  | .bool, _ => bool_err
  | .arr t n, h => by
      simp only [Ty.WF] at h
      have hs := dict_sized_isSome t h.2
      obtain ⟨sz, hsz⟩ : ∃ sz, t.dict.sized = some sz := by cases hq : t.dict.sized <;> simp_all
      exact arr_err t.dict sz hsz n
  | .sstruct fs, h => by
      simp only [Ty.WF] at h
      exact sstruct_err (dictL fs) (lawL fs h.1) (frameL fs h.1) (errL fs h.1) (sizedL_allSized fs h.2)
  | .cenum tag n, _ => cenum_err tag n
  | .senum tag vs, h => by
      simp only [Ty.WF] at h
      exact senum_err tag h.1 (dictLL vs) (lawLL vs h.2.1) (frameLL vs h.2.1) (errLL vs h.2.1) (sizedLL_all vs h.2.2)
  | .vec t l, h => by
      simp only [Ty.WF] at h
      have hs := dict_sized_isSome t h.2.1
      obtain ⟨sz, hsz⟩ : ∃ sz, t.dict.sized = some sz := by cases hq : t.dict.sized <;> simp_all
      exact vec_err t.dict sz hsz l
  | .str l, _ => str_err l
  | .flex t l, h => by
      simp only [Ty.WF] at h
      exact flex_err t.dict (Ty.errLaw t h.1) l
  | .ustruct fs last, h => by
      simp only [Ty.WF] at h
      exact ustruct_err (dictL fs) last.dict (lawL fs h.1) (frameL fs h.1) (errL fs h.1) (sizedL_allSized fs h.2.1)
        (Ty.law last h.2.2.1) (Ty.frameLaw last h.2.2.1) (Ty.errLaw last h.2.2.1)
  | .uenum tag vs, h => by
      simp only [Ty.WF] at h
      exact uenum_err tag h.1 (dictLL vs) (lawLL vs h.2.1) (frameLL vs h.2.1) (errLL vs h.2.1) (butLastLL_all vs h.2.2)
theorem errL : ∀ fs : List Ty, wfL fs → ∀ d ∈ dictL fs, ErrLaw d
  | [], _ => by intro d hd; simp [dictL] at hd
  | t :: ts, h => by
      intro d hd
      simp only [dictL, List.mem_cons] at hd
      rcases hd with rfl | hm
      · exact Ty.errLaw t h.1
      · exact errL ts h.2 d hm
theorem errLL : ∀ vs : List (List Ty), wfLL vs → ∀ v ∈ dictLL vs, ∀ d ∈ v, ErrLaw d
  | [], _ => by intro v hv; simp [dictLL] at hv
  | v0 :: vs, h => by
      intro v hv
      simp only [dictLL, List.mem_cons] at hv
      rcases hv with rfl | hm
      · exact errL v0 h.1
      · exact errLL vs h.2 v hm
end

/-- **A content error is final.** For every well-formed type: if the bytes `m` (at an aligned address) are rejected with an error
other than `InsufficientSize`, then `m` followed by any bytes is rejected with the same error, and every proper prefix of `m` is
either rejected with that same error or reported as `InsufficientSize` — never accepted, never a different content error. -/
theorem hard_final (t : Ty) (h : t.WF) (a : Nat) (m : Bytes) (e : Err) (hv : t.dict.validate ⟨a, m⟩ = .err e) (hh : e.Hard) :
    (∀ sfx, t.dict.validate ⟨a, m ++ sfx⟩ = .err e) ∧
    (∀ k, k ≤ m.length → t.dict.validate ⟨a, m.take k⟩ = .err e ∨ Insuff (t.dict.validate ⟨a, m.take k⟩)) := by
  have E := Ty.errLaw t h
  have F := Ty.frameLaw t h
  have L := Ty.law t h
  constructor
  · intro sfx
    have hx : Ext ⟨a, m⟩ ⟨a, m ++ sfx⟩ := ⟨rfl, by simp [Slice.len], by simp [Slice.len]⟩
    exact validate_hard E hx hv hh
  · intro k hk
    have hx : Ext ⟨a, m.take k⟩ ⟨a, m⟩ :=
      ⟨rfl, by simp only [Slice.len, List.length_take]; omega, by simp [Slice.len, Nat.min_eq_left hk]⟩
    cases hp : t.dict.validate ⟨a, m.take k⟩ with
    | fault w => exact absurd (L.validate_noFault ⟨a, m.take k⟩) (by rw [hp]; simp)
    | ok u =>
      obtain ⟨ha, hl, hu⟩ := validate_ok_iff.1 hp
      have := validate_ok_iff.2 ⟨by simpa using ha, by have := hx.len; omega, F.ext ha hl hx hu⟩
      rw [this] at hv; cases hv
    | err e' =>
      by_cases hh' : e'.kind = .insufficientSize
      · right; exact ⟨e'.pos, by cases e'; simp only at hh'; subst hh'; rfl⟩
      · left
        have := validate_hard E hx hp hh'
        rw [this] at hv; cases hv; rfl
end FV
