import FV.FrameFlex
/-! The deep read (`Dict.walk`) of a valid value: it succeeds, and it does not depend on anything behind the value — a valid
prefix of a valid slice has the same content (`mono`); with the frame contract this gives locality (`WalkLaw.loc`). -/
namespace FV

structure WalkLaw (d : Dict) : Prop where
  total : ∀ s, d.minSize ≤ s.len → d.validateU s = .ok () → ∃ v, d.walk s = .ok v
  mono : ∀ s k, d.minSize ≤ k → k ≤ s.len → d.validateU s = .ok () → d.validateU (s.take k) = .ok () →
      (d.walk (s.take k)).map Val.strip = (d.walk s).map Val.strip

theorem Slice.take_bytes_take (s : Slice) (k n : Nat) (h : n ≤ k) : (s.take k).bytes.take n = s.bytes.take n := by
  simp only [Slice.take, List.take_take, Nat.min_eq_left h]

/-! ### sized leaves -/
theorem prim_walk (sz a : Nat) : WalkLaw (primD sz a) :=
  { total := by
      intro s hl _
      simp only [primD] at hl ⊢
      simp [Slice.takeU, hl]
    mono := by
      intro s k hk hks _ _
      simp only [primD] at hk ⊢
      have h1 : sz ≤ (s.take k).len := by simp only [Slice.len_take]; omega
      have h2 : sz ≤ s.len := by omega
      simp only [Slice.takeU, h1, h2, if_true, Res.bind_ok, Res.map_ok]
      simp only [Slice.take, List.take_take, Nat.min_eq_left hk] }

theorem bool_walk : WalkLaw boolD :=
  { total := by
      intro s hl _
      simp only [boolD] at hl ⊢
      cases hs : s.bytes with
      | nil => simp [Slice.len, hs] at hl
      | cons b bs => exact ⟨_, rfl⟩
    mono := by
      intro s k hk hks _ _
      simp only [boolD] at hk ⊢
      cases hs : s.bytes with
      | nil => simp [Slice.len, hs] at hks; omega
      | cons b bs =>
        cases k with
        | zero => omega
        | succ k => simp [Slice.take, hs] }

theorem cenum_walk (tag : LenTy) (n : Nat) : WalkLaw (cenumD tag n) :=
  { total := by
      intro s hl hv
      simp only [cenumD] at hl hv ⊢
      cases hr : tag.readU s with
      | ok t => exact ⟨.tag t [], by simp⟩
      | err e => simp [hr] at hv
      | fault f => simp [hr] at hv
    mono := by
      intro s k hk hks _ _
      simp only [cenumD] at hk ⊢
      rw [readU_congr tag s (s.take k) rfl (by omega) (by simp only [Slice.len_take]; omega)
        (Slice.take_bytes_take s k tag.size hk)] }

/-! ### arrays -/
theorem walkArr_congr (d : Dict) (sz : Nat) (hss : d.ssize = sz) (s s' : Slice) (ha : s'.addr = s.addr) (N : Nat)
    (hb : s'.bytes.take N = s.bytes.take N) (hl : N ≤ s.len) (hl' : N ≤ s'.len) :
    ∀ k i, (i + k) * sz ≤ N → walkArr d s' k i = walkArr d s k i := by
  intro k
  induction k with
  | zero => intro i _; simp [walkArr]
  | succ k ih =>
    intro i hN
    have e1 : (i + (k + 1)) * sz = i * sz + (k+1) * sz := Nat.add_mul _ _ _
    have e2 : (k+1) * sz = k * sz + sz := Nat.succ_mul _ _
    have h1 : i * sz ≤ s.len := by omega
    have h1' : i * sz ≤ s'.len := by omega
    have h2 : sz ≤ s.len - i * sz := by omega
    have h2' : sz ≤ s'.len - i * sz := by omega
    simp only [walkArr, hss, Slice.dropU, h1, h1', if_true, Res.bind_ok, Slice.takeU, Slice.len_drop, h2, h2']
    rw [elem_slice_eq s s' ha N (i * sz) sz hb (by omega)]
    have := ih (i + 1) (by have : i + 1 + k = i + (k + 1) := by omega
                           rw [this]; exact hN)
    simp only [this]

theorem walkArr_total (d : Dict) (hw : WalkLaw d) (sz : Nat) (hss : d.ssize = sz) (hmin : d.minSize = sz) (s : Slice) :
    ∀ k i, arrLoop d s k i = .ok () → ∃ vs, walkArr d s k i = .ok vs := by
  intro k
  induction k with
  | zero => intro i _; exact ⟨[], rfl⟩
  | succ k ih =>
    intro i h
    simp only [arrLoop, hss, Res.bind_eq, Slice.dropU, Slice.takeU] at h
    simp only [walkArr, hss, Slice.dropU, Slice.takeU]
    split at h
    · rename_i h1
      simp only [h1, if_true, Res.bind_ok] at h ⊢
      split at h
      · rename_i h2
        simp only [h2, if_true, Res.bind_ok] at h ⊢
        cases hv : d.validateU ((s.drop (i * sz)).take sz) with
        | ok u =>
          simp only [hv, Res.offset_ok, Res.bind_ok] at h
          obtain ⟨v, hv'⟩ := hw.total ((s.drop (i * sz)).take sz) (by simp only [Slice.len_take, Slice.len_drop] at h2 ⊢; omega) hv
          obtain ⟨vs, hvs⟩ := ih (i + 1) h
          exact ⟨v :: vs, by simp [hv', hvs]⟩
        | err e => simp [hv] at h
        | fault f => simp [hv] at h
      · simp at h
    · simp at h

theorem arr_walk (d : Dict) (hw : WalkLaw d) (hd : Law d) (sz : Nat) (hsz : d.sized = some sz) (n : Nat) : WalkLaw (arrD d n) := by
  have hss : d.ssize = sz := by simp [Dict.ssize, hsz]
  have hmin := hd.sized_min sz hsz
  exact
  { total := by
      intro s _ hv
      simp only [arrD] at hv ⊢
      obtain ⟨vs, hvs⟩ := walkArr_total d hw sz hss hmin s n 0 hv
      exact ⟨.arr vs, by simp [hvs]⟩
    mono := by
      intro s k hk hks _ _
      simp only [arrD, hss] at hk ⊢
      rw [walkArr_congr d sz hss s (s.take k) rfl (n * sz) (Slice.take_bytes_take s k _ hk) (by omega)
        (by simp only [Slice.len_take]; omega) n 0 (by simp)] }

theorem WalkLaw.mono' {d : Dict} (hw : WalkLaw d) (s : Slice) (k : Nat) (hk : d.minSize ≤ k) (hks : k ≤ s.len)
    (hv : d.validateU s = .ok ()) (hv1 : d.validateU (s.take k) = .ok ()) :
    ∃ v v1, d.walk s = .ok v ∧ d.walk (s.take k) = .ok v1 ∧ v1.strip = v.strip := by
  obtain ⟨v, h⟩ := hw.total s (by omega) hv
  obtain ⟨v1, h1⟩ := hw.total (s.take k) (by simp only [Slice.len_take]; omega) hv1
  have := hw.mono s k hk hks hv hv1
  rw [h, h1] at this
  simp only [Res.map_ok, Res.ok.injEq] at this
  exact ⟨v, v1, h, h1, this⟩

/-! ### field lists -/
theorem walkAll_mono :
    ∀ (ds : List Dict) (pos : Nat) (data : Slice) (k : Nat), FieldsOk ds → (∀ d ∈ ds, WalkLaw d) → HeadAligned ds pos →
      minSizeL ds pos ≤ pos + k → k ≤ data.len → validateAll ds pos data = .ok () → validateAll ds pos (data.take k) = .ok () →
      ∃ vs vs1, walkAll ds pos data = .ok vs ∧ walkAll ds pos (data.take k) = .ok vs1 ∧ stripL vs1 = stripL vs := by
  intro ds
  induction ds with
  | nil => intro _ _ _ _ _ _ _ _ _ _; exact ⟨[], [], rfl, rfl, rfl⟩
  | cons d ds ih =>
    intro pos data k hok hwl hpl hmin hk hv hv1
    have hL := hok.law d (by simp)
    have hW := hwl d (by simp)
    have hcm : ceilMul pos d.align = pos := ceilMul_of_mod hL.align_pow2.pos (by simpa [HeadAligned] using hpl)
    cases ds with
    | nil =>
      simp only [validateAll] at hv hv1
      have hv' : d.validateU data = .ok () := Res.offset_eq_ok.1 hv
      have hv1' : d.validateU (data.take k) = .ok () := Res.offset_eq_ok.1 hv1
      have hlen : d.minSize ≤ k := by simp only [minSizeL, hcm] at hmin; omega
      obtain ⟨v, v1, h, h1, hs⟩ := hW.mono' data k hlen hk hv' hv1'
      exact ⟨[v], [v1], by simp [walkAll, h], by simp [walkAll, h1], by simp [stripL, hs]⟩
    | cons d' ds' =>
      have hL' := hok.law d' (by simp)
      obtain ⟨n, hn⟩ : ∃ n, d.sized = some n := by
        have := hok.sized.1; cases h : d.sized <;> simp_all
      have hss : d.ssize = n := by simp [Dict.ssize, hn]
      have hdmin := hL.sized_min n hn
      have hnext := next_le_minSizeL d d' ds' pos (fun x hx => (hok.law x (by simp [hx])).align_pow2.pos) hcm
      have hge : pos ≤ ceilMul (pos + d.ssize) d'.align := by
        have := le_ceilMul (x := pos + d.ssize) hL'.align_pow2.pos; omega
      have hge2 : pos + n ≤ ceilMul (pos + d.ssize) d'.align := by
        have := le_ceilMul (x := pos + d.ssize) hL'.align_pow2.pos; omega
      have hsplit : ceilMul (pos + d.ssize) d'.align - pos ≤ data.len := by omega
      have hsplit1 : ceilMul (pos + d.ssize) d'.align - pos ≤ (data.take k).len := by simp only [Slice.len_take]; omega
      simp only [validateAll] at hv hv1
      cases hvd : d.validateU data with
      | fault f => simp [hvd] at hv
      | err e => simp [hvd] at hv
      | ok u =>
        cases hvd1 : d.validateU (data.take k) with
        | fault f => simp [hvd1] at hv1
        | err e => simp [hvd1] at hv1
        | ok u1 =>
          simp only [hvd, Res.offset_ok, Slice.splitAt, hsplit, if_true] at hv
          simp only [hvd1, Res.offset_ok, Slice.splitAt, hsplit1, if_true] at hv1
          rw [Slice.take_drop data k _ (by omega)] at hv1
          obtain ⟨v, v1, h, h1, hs⟩ := hW.mono' data k (by omega) hk hvd hvd1
          obtain ⟨vs, vs1, hr, hr1, hss'⟩ := ih (ceilMul (pos + d.ssize) d'.align) (data.drop (ceilMul (pos + d.ssize) d'.align - pos))
            (k - (ceilMul (pos + d.ssize) d'.align - pos)) hok.tail (fun x hx => hwl x (by simp [hx])) (by simp only [HeadAligned]; exact ceilMul_mod _ _)
            (by rw [minSizeL_next d d' ds' pos hL'.align_pow2.pos hcm]; omega)
            (by simp only [Slice.len_drop]; omega) hv hv1
          refine ⟨v :: vs, v1 :: vs1, ?_, ?_, by simp [stripL, hs, hss']⟩
          · simp [walkAll, h, Slice.splitAt, hsplit, hr]
          · simp only [walkAll, h1, Res.bind_ok, Slice.splitAt, hsplit1, if_true]
            rw [Slice.take_drop data k _ (by omega), hr1]; rfl

/-- a valid field list can be read -/
theorem walkAll_total (ds : List Dict) (pos : Nat) (data : Slice) (hok : FieldsOk ds) (hwl : ∀ d ∈ ds, WalkLaw d)
    (hpl : HeadAligned ds pos) (hmin : minSizeL ds pos ≤ pos + data.len) (hv : validateAll ds pos data = .ok ()) :
    ∃ vs, walkAll ds pos data = .ok vs := by
  have htk : data.take data.len = data := by cases data; simp [Slice.take, Slice.len]
  obtain ⟨vs, _, h, _, _⟩ := walkAll_mono ds pos data data.len hok hwl hpl hmin (Nat.le_refl _) hv (by rw [htk]; exact hv)
  exact ⟨vs, h⟩

theorem HeadAligned.zero (ds : List Dict) : HeadAligned ds 0 := by
  cases ds <;> simp [HeadAligned]

theorem Slice.take_len (s : Slice) : s.take s.len = s := by cases s; simp [Slice.take, Slice.len]

/-! ### sized struct / sized enum -/
theorem sstruct_walk (ds : List Dict) (hl : ∀ d ∈ ds, Law d) (hf : ∀ d ∈ ds, FrameLaw d) (hw : ∀ d ∈ ds, WalkLaw d)
    (hs : AllSized ds) : WalkLaw (sstructD ds) := by
  have hok : FieldsOk ds := ⟨hl, hf, allSized_butLast hs⟩
  have hmsz := minSizeL_eq_foldSize ds hl hs 0
  have hapos := alignL_pos ds
  exact
  { total := by
      intro s hlen hv
      simp only [sstructD] at hlen hv ⊢
      have := le_ceilMul (x := foldSize ds 0) hapos
      obtain ⟨vs, h⟩ := walkAll_total ds 0 s hok hw (HeadAligned.zero _) (by omega) hv
      exact ⟨.tuple vs, by simp [h]⟩
    mono := by
      intro s k hk hks hv hv1
      simp only [sstructD] at hk hv hv1 ⊢
      have := le_ceilMul (x := foldSize ds 0) hapos
      obtain ⟨vs, vs1, h, h1, hss⟩ := walkAll_mono ds 0 s k hok hw (HeadAligned.zero _) (by omega) hks hv hv1
      simp [h, h1, Val.strip, hss] }

theorem senum_walk (tag : LenTy) (ht : tag.Law) (vs : List (List Dict))
    (hl : ∀ v ∈ vs, ∀ d ∈ v, Law d) (hf : ∀ v ∈ vs, ∀ d ∈ v, FrameLaw d) (hw : ∀ v ∈ vs, ∀ d ∈ v, WalkLaw d)
    (hs : ∀ v ∈ vs, AllSized v) : WalkLaw (senumD tag vs) := by
  have hpa : Pow2 (max tag.align (alignLL vs)) := Pow2.of_max ht.align_pow2 (alignLL_pow2 vs hl)
  have hapos := hpa.pos
  have hdo : tag.size ≤ ceilMul tag.size (max tag.align (alignLL vs)) := le_ceilMul hapos
  have hsz := le_ceilMul (x := ceilMul tag.size (max tag.align (alignLL vs)) + maxVarSize vs) hapos
  -- common part: from validity, the tag and the variant's field list
  have inv : ∀ s : Slice, (senumD tag vs).minSize ≤ s.len → (senumD tag vs).validateU s = .ok () →
      ∃ t, tag.readU s = .ok t ∧ t < vs.length ∧
        validateAll (vs.getD t []) 0 (s.drop (ceilMul tag.size (max tag.align (alignLL vs)))) = .ok () := by
    intro s hlen hv
    simp only [senumD] at hlen hv
    cases hr : tag.readU s with
    | fault f => simp [hr] at hv
    | err e => simp [hr] at hv
    | ok t =>
      simp only [hr, Res.bind_eq, Res.bind_ok] at hv
      split at hv
      · rename_i hlt
        have hd1 : ceilMul tag.size (max tag.align (alignLL vs)) ≤ s.len := by omega
        simp only [Slice.dropU, hd1, if_true, Res.bind_ok] at hv
        exact ⟨t, rfl, hlt, Res.offset_eq_ok.1 hv⟩
      · simp at hv
  exact
  { total := by
      intro s hlen hv
      obtain ⟨t, hr, hlt, hva⟩ := inv s hlen hv
      simp only [senumD] at hlen ⊢
      have hd1 : ceilMul tag.size (max tag.align (alignLL vs)) ≤ s.len := by omega
      have hmem := getD_mem vs t [] hlt
      have h3 := le_maxVarSize vs _ hmem
      have h4 := le_ceilMul (x := foldSize (vs.getD t []) 0) (alignL_pos (vs.getD t []))
      have hms := minSizeL_eq_foldSize _ (hl _ hmem) (hs _ hmem) 0
      obtain ⟨xs, hx⟩ := walkAll_total (vs.getD t []) 0 (s.drop (ceilMul tag.size (max tag.align (alignLL vs))))
        ⟨hl _ hmem, hf _ hmem, allSized_butLast (hs _ hmem)⟩ (hw _ hmem) (HeadAligned.zero _)
        (by simp only [Slice.len_drop]; omega) hva
      exact ⟨.tag t xs, by simp only [hr, Res.bind_ok, Slice.dropU, hd1, if_true, hx]⟩
    mono := by
      intro s k hk hks hv hv1
      obtain ⟨t, hr, hlt, hva⟩ := inv s (by omega) hv
      obtain ⟨t1, hr1, _, hva1⟩ := inv (s.take k) (by simp only [Slice.len_take]; omega) hv1
      simp only [senumD] at hk ⊢
      have hd1 : ceilMul tag.size (max tag.align (alignLL vs)) ≤ s.len := by omega
      have hd2 : ceilMul tag.size (max tag.align (alignLL vs)) ≤ (s.take k).len := by simp only [Slice.len_take]; omega
      have ht1 : t1 = t := by
        rw [readU_congr tag s (s.take k) rfl (by omega) (by simp only [Slice.len_take]; omega)
          (Slice.take_bytes_take s k tag.size (by omega)), hr] at hr1
        cases hr1; rfl
      subst ht1
      have hmem := getD_mem vs t1 [] hlt
      have h3 := le_maxVarSize vs _ hmem
      have h4 := le_ceilMul (x := foldSize (vs.getD t1 []) 0) (alignL_pos (vs.getD t1 []))
      have hms := minSizeL_eq_foldSize _ (hl _ hmem) (hs _ hmem) 0
      rw [Slice.take_drop s k _ (by omega)] at hva1
      obtain ⟨xs, xs1, hx, hx1, hss⟩ := walkAll_mono (vs.getD t1 []) 0 (s.drop (ceilMul tag.size (max tag.align (alignLL vs))))
        (k - ceilMul tag.size (max tag.align (alignLL vs)))
        ⟨hl _ hmem, hf _ hmem, allSized_butLast (hs _ hmem)⟩ (hw _ hmem) (HeadAligned.zero _)
        (by omega) (by simp only [Slice.len_drop]; omega) hva hva1
      simp only [hr, hr1, Res.bind_ok, Slice.dropU, hd1, hd2, if_true]
      rw [Slice.take_drop s k _ (by omega), hx, hx1]
      simp only [Res.bind_ok, Res.map_ok, Val.strip, hss] }

/-! ### FlatVec / FlatString -/
theorem walkElems_congr (d : Dict) (sz : Nat) (hss : d.ssize = sz) (dOff : Nat) (s s' : Slice) (ha : s'.addr = s.addr)
    (N : Nat) (hb : s'.bytes.take N = s.bytes.take N) (hl : N ≤ s.len) (hl' : N ≤ s'.len) :
    ∀ k i, dOff + (i + k) * sz ≤ N → walkElems d dOff s' k i = walkElems d dOff s k i := by
  intro k
  induction k with
  | zero => intro i _; simp [walkElems]
  | succ k ih =>
    intro i hN
    have e1 : (i + (k + 1)) * sz = i * sz + (k+1) * sz := Nat.add_mul _ _ _
    have e2 : (k+1) * sz = k * sz + sz := Nat.succ_mul _ _
    have h1 : dOff + i * sz ≤ s.len := by omega
    have h1' : dOff + i * sz ≤ s'.len := by omega
    have h2 : sz ≤ s.len - (dOff + i * sz) := by omega
    have h2' : sz ≤ s'.len - (dOff + i * sz) := by omega
    simp only [walkElems, hss, Slice.dropU, h1, h1', if_true, Res.bind_ok, Slice.takeU, Slice.len_drop, h2, h2']
    rw [elem_slice_eq s s' ha N (dOff + i * sz) sz hb (by omega)]
    have := ih (i + 1) (by have : i + 1 + k = i + (k + 1) := by omega
                           rw [this]; exact hN)
    simp only [this]

theorem walkElems_total (d : Dict) (hw : WalkLaw d) (sz : Nat) (hss : d.ssize = sz) (hmin : d.minSize = sz) (dOff : Nat) (s : Slice) :
    ∀ k i, vecElems d dOff s k i = .ok () → ∃ vs, walkElems d dOff s k i = .ok vs := by
  intro k
  induction k with
  | zero => intro i _; exact ⟨[], rfl⟩
  | succ k ih =>
    intro i h
    simp only [vecElems, hss, Res.bind_eq, Slice.dropU, Slice.takeU] at h
    simp only [walkElems, hss, Slice.dropU, Slice.takeU]
    split at h
    · rename_i h1
      simp only [h1, if_true, Res.bind_ok] at h ⊢
      split at h
      · rename_i h2
        simp only [h2, if_true, Res.bind_ok] at h ⊢
        cases hv : d.validateU ((s.drop (dOff + i * sz)).take sz) with
        | ok u =>
          simp only [hv, Res.offset_ok, Res.bind_ok] at h
          obtain ⟨v, hv'⟩ := hw.total ((s.drop (dOff + i * sz)).take sz) (by simp only [Slice.len_take, Slice.len_drop] at h2 ⊢; omega) hv
          obtain ⟨vs, hvs⟩ := ih (i + 1) h
          exact ⟨v :: vs, by simp [hv', hvs]⟩
        | err e => simp [hv] at h
        | fault f => simp [hv] at h
      · simp at h
    · simp at h

theorem vec_walk (d : Dict) (hw : WalkLaw d) (hd : Law d) (sz : Nat) (hsz : d.sized = some sz) (l : LenTy) (hl : l.Law) :
    WalkLaw (vecD d l) := by
  have hss : d.ssize = sz := by simp [Dict.ssize, hsz]
  have hmin := hd.sized_min sz hsz
  have hapos := (Pow2.of_max hl.align_pow2 hd.align_pow2).pos
  have hdo := dataOffset_mod l hl d.align hd.align_pow2
  have hls : l.size ≤ max l.size d.align := Nat.le_max_left _ _
  exact
  { total := by
      intro s hlen hv
      have hlen' : max l.size d.align ≤ s.len := hlen
      obtain ⟨len, slots, hr, hsl, _, hel⟩ := vec_valid_inv d sz hss l s hlen' hv
      simp only [vecD, hr, hsl, Res.bind_ok]
      by_cases hz : d.ssize = 0
      · simp only [hz, if_true]; exact ⟨_, rfl⟩
      · simp only [hz, if_false]
        obtain ⟨vs, hvs⟩ := walkElems_total d hw sz hss hmin _ s len 0 (hel hz)
        exact ⟨.vec (min slots l.max) vs, by simp only [hvs, Res.bind_ok]⟩
    mono := by
      intro s k hk hks hv hv1
      have hk' : max l.size d.align ≤ k := hk
      obtain ⟨len, slots, hr, hsl, _, _⟩ := vec_valid_inv d sz hss l s (by omega) hv
      obtain ⟨len1, slots1, hr1, hsl1, hcap1, _⟩ := vec_valid_inv d sz hss l (s.take k) (by simp only [Slice.len_take]; omega) hv1
      have hlen1 : len1 = len := by
        rw [readU_congr l s (s.take k) rfl (by omega) (by simp only [Slice.len_take]; omega)
          (Slice.take_bytes_take s k l.size (by omega)), hr] at hr1
        cases hr1; rfl
      subst hlen1
      simp only [vecD, hr, hr1, hsl, hsl1, Res.bind_ok]
      by_cases hz : d.ssize = 0
      · simp only [hz, if_true, Res.map_ok, Val.strip]
      · simp only [hz, if_false]
        have hkl : (s.take k).len = k := by simp only [Slice.len_take]; omega
        rw [hkl, vecSlots_ok d l k hk'] at hsl1
        simp only [hz, if_false, Res.ok.injEq] at hsl1
        have hfit : max l.size d.align + (0 + len1) * sz ≤ k := by
          have hz' : sz ≠ 0 := by rw [← hss]; exact hz
          have hle : len1 ≤ floorMul (k - max l.size d.align) (max l.align d.align) / sz := by
            rw [← hss, hsl1]; omega
          have := vec_z_le _ _ sz hapos hdo (n := k) (len := len1) hk' hz' hle
          have h2 := le_ceilMul (x := max l.size d.align + sz * len1) hapos
          rw [Nat.zero_add, Nat.mul_comm]; omega
        rw [walkElems_congr d sz hss _ s (s.take k) rfl k (Slice.take_bytes_take s k k (Nat.le_refl _)) hks
          (by omega) len1 0 hfit]
        cases hwe : walkElems d (max l.size d.align) s len1 0 with
        | ok vs => simp only [Res.bind_ok, Res.map_ok, Val.strip]
        | err e => rfl
        | fault f => rfl }

theorem str_walk (l : LenTy) (hl : l.Law) : WalkLaw (strD l) :=
  { total := by
      intro s hlen hv
      simp only [strD] at hlen hv ⊢
      cases hr : l.readU s with
      | ok len =>
        have : ¬ s.len < l.size := by omega
        simp only [hr, Res.bind_ok, this, if_false]
        exact ⟨_, rfl⟩
      | err e => simp [hr] at hv
      | fault f => simp [hr] at hv
    mono := by
      intro s k hk hks hv hv1
      simp only [strD] at hk hv hv1 ⊢
      have hkl : (s.take k).len = k := by simp only [Slice.len_take]; omega
      cases hr : l.readU s with
      | ok len =>
        have hr1 : l.readU (s.take k) = .ok len := by
          rw [readU_congr l s (s.take k) rfl (by omega) (by omega) (Slice.take_bytes_take s k l.size hk), hr]
        have n1 : ¬ s.len < l.size := by omega
        have n2 : ¬ (s.take k).len < l.size := by omega
        have hcap : ¬ len > min (floorMul (k - l.size) l.align) l.max := by
          intro hgt
          simp [hr1, n2, hkl, hgt] at hv1
          split at hv1 <;> cases hv1
        simp only [hr1, Res.bind_ok, n1, n2, if_false, Res.map_ok, Val.strip]
        have hfl := floorMul_le (k - l.size) l.align
        have : l.size + len ≤ k := by omega
        congr 2
        show ((s.bytes.take k).drop l.size).take len = (s.bytes.drop l.size).take len
        exact drop_take_eq (a := s.bytes.take k) (b := s.bytes) (n := k) (by rw [List.take_take, Nat.min_self]) this
      | err e => simp [hr] at hv
      | fault f => simp [hr] at hv }

/-! ### unsized struct / unsized enum -/
theorem ustruct_walk (ds : List Dict) (last : Dict) (hl : ∀ d ∈ ds, Law d) (hf : ∀ d ∈ ds, FrameLaw d) (hw : ∀ d ∈ ds, WalkLaw d)
    (hs : AllSized ds) (hlast : Law last) (hflast : FrameLaw last) (hwlast : WalkLaw last) : WalkLaw (ustructD ds last) := by
  have hall : ∀ d ∈ ds ++ [last], Law d := by
    intro d hd
    rcases List.mem_append.1 hd with h | h
    · exact hl d h
    · simp at h; subst h; exact hlast
  have hallf : ∀ d ∈ ds ++ [last], FrameLaw d := by
    intro d hd
    rcases List.mem_append.1 hd with h | h
    · exact hf d h
    · simp at h; subst h; exact hflast
  have hallw : ∀ d ∈ ds ++ [last], WalkLaw d := by
    intro d hd
    rcases List.mem_append.1 hd with h | h
    · exact hw d h
    · simp at h; subst h; exact hwlast
  have hok : FieldsOk (ds ++ [last]) := ⟨hall, hallf, allSizedButLast_append ds last hs⟩
  have hapos := alignL_pos (ds ++ [last])
  have h1 := le_ceilMul (x := minSizeL (ds ++ [last]) 0) hapos
  have hcm := ceilMul_mod (minSizeL (ds ++ [last]) 0) (alignL (ds ++ [last]))
  exact
  { total := by
      intro s hlen hv
      simp only [ustructD] at hlen hv ⊢
      have h2 := floorMul_greatest hapos hcm hlen
      have h3 := floorMul_le s.len (alignL (ds ++ [last]))
      obtain ⟨vs, h⟩ := walkAll_total (ds ++ [last]) 0 (s.take (floorMul s.len (alignL (ds ++ [last])))) hok hallw
        (HeadAligned.zero _) (by simp only [Slice.len_take]; omega) hv
      exact ⟨.tuple vs, by simp only [h, Res.bind_ok]⟩
    mono := by
      intro s k hk hks hv hv1
      simp only [ustructD] at hk hv hv1 ⊢
      have hkl : (s.take k).len = k := by simp only [Slice.len_take]; omega
      rw [hkl] at hv1 ⊢
      have h2 := floorMul_greatest hapos hcm hk
      have h3 := floorMul_le k (alignL (ds ++ [last]))
      have h4 : floorMul k (alignL (ds ++ [last])) ≤ floorMul s.len (alignL (ds ++ [last])) := floorMul_mono hks
      have e1 : (s.take k).take (floorMul k (alignL (ds ++ [last]))) =
          (s.take (floorMul s.len (alignL (ds ++ [last])))).take (floorMul k (alignL (ds ++ [last]))) := by
        rw [Slice.take_take s k _ h3, Slice.take_take s _ _ h4]
      rw [e1] at hv1 ⊢
      have h5 := floorMul_le s.len (alignL (ds ++ [last]))
      obtain ⟨vs, vs1, h, hh1, hss⟩ := walkAll_mono (ds ++ [last]) 0 (s.take (floorMul s.len (alignL (ds ++ [last]))))
        (floorMul k (alignL (ds ++ [last]))) hok hallw (HeadAligned.zero _) (by omega)
        (by simp only [Slice.len_take]; omega) hv hv1
      simp only [h, hh1, Res.bind_ok, Res.map_ok, Val.strip, hss] }

theorem uenum_walk (tag : LenTy) (ht : tag.Law) (vs : List (List Dict))
    (hl : ∀ v ∈ vs, ∀ d ∈ v, Law d) (hf : ∀ v ∈ vs, ∀ d ∈ v, FrameLaw d) (hw : ∀ v ∈ vs, ∀ d ∈ v, WalkLaw d)
    (hs : ∀ v ∈ vs, AllSizedButLast v) : WalkLaw (uenumD tag vs) := by
  have hpa : Pow2 (max tag.align (alignLL vs)) := Pow2.of_max ht.align_pow2 (alignLL_pow2 vs hl)
  have hapos := hpa.pos
  have hdo := le_ceilMul (x := tag.size) hapos
  have hminle := le_ceilMul (x := ceilMul tag.size (max tag.align (alignLL vs)) + minList (vs.map varMinSize)) hapos
  have hvmin : ∀ v : List Dict, minSizeL v 0 ≤ varMinSize v ∨ v = [] := by
    intro v
    cases v with
    | nil => exact Or.inr rfl
    | cons x xs => left; simp [varMinSize]
  exact
  { total := by
      intro s hlen hv
      have hlen' : ceilMul (ceilMul tag.size (max tag.align (alignLL vs)) + minList (vs.map varMinSize)) (max tag.align (alignLL vs)) ≤ s.len := hlen
      have hd1 : ceilMul tag.size (max tag.align (alignLL vs)) ≤ s.len := by omega
      obtain ⟨t, hr, hlt, hmin, hva⟩ := uenum_valid_inv tag vs s _ _ rfl rfl hd1 hv
      have hmem := getD_mem vs t [] hlt
      have hfl := floorMul_le (s.len - ceilMul tag.size (max tag.align (alignLL vs))) (max tag.align (alignLL vs))
      obtain ⟨xs, hx⟩ := walkAll_total (vs.getD t []) 0 _ ⟨hl _ hmem, hf _ hmem, hs _ hmem⟩ (hw _ hmem) (HeadAligned.zero _)
        (by
          simp only [Slice.len_take, Slice.len_drop]
          rcases hvmin (vs.getD t []) with h | h
          · omega
          · rw [h]; simp [minSizeL]) hva
      refine ⟨.tag t xs, ?_⟩
      simp only [uenumD, hr, Res.bind_ok, Slice.dropU, hd1, if_true, Slice.len_drop, hx]
    mono := by
      intro s k hk hks hv hv1
      have hk' : ceilMul (ceilMul tag.size (max tag.align (alignLL vs)) + minList (vs.map varMinSize)) (max tag.align (alignLL vs)) ≤ k := hk
      have hkl : (s.take k).len = k := by simp only [Slice.len_take]; omega
      have hd1 : ceilMul tag.size (max tag.align (alignLL vs)) ≤ s.len := by omega
      have hd2 : ceilMul tag.size (max tag.align (alignLL vs)) ≤ (s.take k).len := by omega
      obtain ⟨t, hr, hlt, hmin, hva⟩ := uenum_valid_inv tag vs s _ _ rfl rfl hd1 hv
      obtain ⟨t1, hr1, _, hmin1, hva1⟩ := uenum_valid_inv tag vs (s.take k) _ _ rfl rfl hd2 hv1
      have ht1 : t1 = t := by
        rw [readU_congr tag s (s.take k) rfl (by omega) (by omega) (Slice.take_bytes_take s k tag.size (by omega)), hr] at hr1
        cases hr1; rfl
      subst ht1
      rw [hkl] at hmin1 hva1
      have hmem := getD_mem vs t1 [] hlt
      have hfl := floorMul_le (s.len - ceilMul tag.size (max tag.align (alignLL vs))) (max tag.align (alignLL vs))
      have hfl1 := floorMul_le (k - ceilMul tag.size (max tag.align (alignLL vs))) (max tag.align (alignLL vs))
      have hmono : floorMul (k - ceilMul tag.size (max tag.align (alignLL vs))) (max tag.align (alignLL vs)) ≤
          floorMul (s.len - ceilMul tag.size (max tag.align (alignLL vs))) (max tag.align (alignLL vs)) := floorMul_mono (by omega)
      have e1 : ((s.take k).drop (ceilMul tag.size (max tag.align (alignLL vs)))).take
            (floorMul (k - ceilMul tag.size (max tag.align (alignLL vs))) (max tag.align (alignLL vs))) =
          ((s.drop (ceilMul tag.size (max tag.align (alignLL vs)))).take
            (floorMul (s.len - ceilMul tag.size (max tag.align (alignLL vs))) (max tag.align (alignLL vs)))).take
            (floorMul (k - ceilMul tag.size (max tag.align (alignLL vs))) (max tag.align (alignLL vs))) := by
        rw [Slice.take_drop s k _ (by omega), Slice.take_take _ _ _ hfl1, Slice.take_take _ _ _ hmono]
      rw [e1] at hva1
      obtain ⟨xs, xs1, hx, hx1, hss⟩ := walkAll_mono (vs.getD t1 []) 0 _
        (floorMul (k - ceilMul tag.size (max tag.align (alignLL vs))) (max tag.align (alignLL vs)))
        ⟨hl _ hmem, hf _ hmem, hs _ hmem⟩ (hw _ hmem) (HeadAligned.zero _)
        (by
          rcases hvmin (vs.getD t1 []) with h | h
          · omega
          · rw [h]; simp [minSizeL])
        (by simp only [Slice.len_take, Slice.len_drop]; omega) hva hva1
      have hd2k : ceilMul tag.size (max tag.align (alignLL vs)) ≤ k := by omega
      simp only [uenumD, hr, hr1, Res.bind_ok, Slice.dropU, hd1, hd2k, if_true, Slice.len_drop, hkl]
      rw [e1, hx, hx1]
      simp only [Res.bind_ok, Res.map_ok, Val.strip, hss] }

/-! ### FlexVec -/
theorem walkFlex_mono (d : Dict) (hw : WalkLaw d) (l : LenTy) (os : Nat) (hos : 0 < os) (hls : l.size ≤ os) :
    ∀ (f f1 pos : Nat) (data : Slice) (k fw fw1 : Nat), k ≤ data.len → data.len < fw → k < fw1 →
      flexValidate d l os f pos data = .ok () → flexValidate d l os f1 pos (data.take k) = .ok () →
      ∃ vs vs1, walkFlex d l os fw data = .ok vs ∧ walkFlex d l os fw1 (data.take k) = .ok vs1 ∧ stripL vs1 = stripL vs := by
  intro f
  induction f with
  | zero => intro f1 pos data k fw fw1 _ _ _ h _; simp [flexValidate] at h
  | succ f ih =>
    intro f1 pos data k fw fw1 hk hfw hfw1 hv hv1
    cases f1 with
    | zero => simp [flexValidate] at hv1
    | succ f1 =>
      obtain ⟨_, hlen, step⟩ := flexValidate_inv d l os f pos data hv
      obtain ⟨_, hlen1, step1⟩ := flexValidate_inv d l os f1 pos (data.take k) hv1
      have hkl : (data.take k).len = k := by simp only [Slice.len_take]; omega
      rw [hkl] at hlen1
      have hrc : l.readU (data.take k) = l.readU data :=
        readU_congr l data (data.take k) rfl hlen (by omega) (Slice.take_bytes_take data k l.size hlen1)
      cases fw with
      | zero => omega
      | succ fw =>
        cases fw1 with
        | zero => omega
        | succ fw1 =>
          cases step with
          | term hr =>
            rw [← hrc] at hr
            exact ⟨[], [], by simp [walkFlex, ← hrc, hr], by simp [walkFlex, hr], rfl⟩
          | last next hr hn hmax h2 hvp =>
            subst hmax
            have hr1 : l.readU (data.take k) = .ok l.max := by rw [hrc]; exact hr
            cases step1 with
            | term hr' => rw [hr1] at hr'; simp only [Res.ok.injEq] at hr'; exact absurd hr' hn
            | item next' hr' _ hmax' _ _ _ _ => rw [hr1] at hr'; simp only [Res.ok.injEq] at hr'; exact absurd hr'.symm hmax'
            | last next' hr' _ _ h2' hvp' =>
              rw [hkl] at h2'
              rw [Slice.take_drop data k os h2'] at hvp'
              obtain ⟨_, hm, hvu⟩ := validate_ok_iff.1 hvp
              obtain ⟨_, hm1, hvu1⟩ := validate_ok_iff.1 hvp'
              simp only [Slice.len_take, Slice.len_drop] at hm1
              obtain ⟨v, v1, hwv, hwv1, hs⟩ := hw.mono' (data.drop os) (k - os) (by omega) (by simp only [Slice.len_drop]; omega) hvu hvu1
              have hk2 : os ≤ (data.take k).len := by omega
              refine ⟨[v], [v1], ?_, ?_, by simp [stripL, hs]⟩
              · simp [walkFlex, hr, hn, Slice.splitAt, h2, hwv]
              · simp only [walkFlex, hr1, Res.bind_ok, hn, if_false, if_true, Slice.splitAt, hk2]
                rw [Slice.take_drop data k os h2', hwv1]; rfl
          | item next hr hn hmax h1 h2 hvp hrest =>
            have hr1 : l.readU (data.take k) = .ok next := by rw [hrc]; exact hr
            cases step1 with
            | term hr' => rw [hr1] at hr'; cases hr'; exact absurd rfl hn
            | last next' hr' _ hmax' _ _ => rw [hr1] at hr'; cases hr'; exact absurd hmax' hmax
            | item next' hr' _ _ _ h2' hvp' hrest' =>
              rw [hr1] at hr'; cases hr'
              rw [hkl] at h2'
              obtain ⟨_, hm, hvu⟩ := validate_ok_iff.1 hvp
              obtain ⟨v, hwv⟩ := hw.total _ hm hvu
              have htt : (data.take k).take next = data.take next := Slice.take_take data k next h2'
              rw [Slice.take_drop data k next h2'] at hrest'
              obtain ⟨vs, vs1, hr2, hr3, hss⟩ := ih f1 (pos + next) (data.drop next) (k - next) fw fw1
                (by simp only [Slice.len_drop]; omega) (by simp only [Slice.len_drop]; omega) (by omega) hrest hrest'
              have h3 : os ≤ (data.take next).len := by simp only [Slice.len_take]; omega
              have hk2 : next ≤ (data.take k).len := by omega
              refine ⟨v :: vs, v :: vs1, ?_, ?_, by simp [stripL, hss]⟩
              · simp [walkFlex, hr, hn, hmax, Slice.splitAt, h2, h1, hwv, hr2]
              · simp only [walkFlex, hr1, Res.bind_ok, hn, hmax, if_false, Slice.splitAt, hk2, if_true, htt, h3, hwv]
                rw [Slice.take_drop data k next h2', hr3]; rfl

theorem flex_walk (d : Dict) (hw : WalkLaw d) (hd : Law d) (l : LenTy) (hl : l.Law) : WalkLaw (flexD d l) := by
  have hls : l.size ≤ max l.size d.align := Nat.le_max_left _ _
  have hospos : 0 < max l.size d.align := Nat.lt_of_lt_of_le hl.size_pow2.pos hls
  have hapos := (Pow2.of_max hl.align_pow2 hd.align_pow2).pos
  exact
  { total := by
      intro s _ hv
      simp only [flexD] at hv ⊢
      have hfl := floorMul_le s.len (max l.align d.align)
      have hdl : (s.take (floorMul s.len (max l.align d.align))).len = floorMul s.len (max l.align d.align) := by
        simp only [Slice.len_take]; omega
      obtain ⟨vs, _, h, _, _⟩ := walkFlex_mono d hw l _ hospos hls (s.len + 1) (s.len + 1) 0
        (s.take (floorMul s.len (max l.align d.align))) (floorMul s.len (max l.align d.align)) (s.len + 1) (s.len + 1)
        (by omega) (by omega) (by omega) hv (by rw [Slice.take_take s _ _ (Nat.le_refl _)]; exact hv)
      exact ⟨.flex vs, by simp only [h, Res.bind_ok]⟩
    mono := by
      intro s k _ hks hv hv1
      simp only [flexD] at hv hv1 ⊢
      have hkl : (s.take k).len = k := by simp only [Slice.len_take]; omega
      rw [hkl] at hv1 ⊢
      have hfl := floorMul_le s.len (max l.align d.align)
      have hfl1 := floorMul_le k (max l.align d.align)
      have hmono : floorMul k (max l.align d.align) ≤ floorMul s.len (max l.align d.align) := floorMul_mono hks
      have e1 : (s.take k).take (floorMul k (max l.align d.align)) =
          (s.take (floorMul s.len (max l.align d.align))).take (floorMul k (max l.align d.align)) := by
        rw [Slice.take_take s k _ hfl1, Slice.take_take s _ _ hmono]
      rw [e1] at hv1 ⊢
      obtain ⟨vs, vs1, h, h1, hss⟩ := walkFlex_mono d hw l _ hospos hls (s.len + 1) (k + 1) 0
        (s.take (floorMul s.len (max l.align d.align))) (floorMul k (max l.align d.align)) (s.len + 1) (k + 1)
        (by simp only [Slice.len_take]; omega) (by simp only [Slice.len_take]; omega) (by omega) hv hv1
      simp only [h, h1, Res.bind_ok, Res.map_ok, Val.strip, hss] }
end FV
