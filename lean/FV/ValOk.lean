import FV.WalkAll
/-! C02, consistency of the returned view: in the content read from a validated slice every container reports `len ≤ capacity`,
every string is valid UTF-8 — at every nesting depth, for every well-formed type. -/
namespace FV

mutual
/-- no container in the content is over its capacity, every string is valid UTF-8 -/
def Val.ok : Val → Prop
  | .raw _ => True
  | .bool _ => True
  | .arr xs => Val.okL xs
  | .tuple xs => Val.okL xs
  | .tag _ xs => Val.okL xs
  | .vec cap xs => xs.length ≤ cap ∧ Val.okL xs
  | .vecZ cap len => len ≤ cap
  | .str cap bs => bs.length ≤ cap ∧ utf8ValidUpTo (bs.length + 1) 0 bs = none
  | .flex xs => Val.okL xs
def Val.okL : List Val → Prop
  | [] => True
  | x :: xs => Val.ok x ∧ Val.okL xs
end

/-- what a combinator owes: the deep read of a slice it validated is consistent -/
def OkLaw (d : Dict) : Prop := ∀ (s : Slice) (v : Val), d.validateU s = .ok () → d.walk s = .ok v → v.ok

theorem prim_okLaw (sz a : Nat) : OkLaw (primD sz a) := by
  intro s v _ hw
  simp only [primD] at hw
  cases ht : s.takeU sz with
  | ok y => rw [ht] at hw; simp only [Res.bind] at hw; cases hw; trivial
  | err e => rw [ht] at hw; cases hw
  | fault f => rw [ht] at hw; cases hw

theorem bool_okLaw : OkLaw boolD := by
  intro s v _ hw
  simp only [boolD] at hw
  cases hs : s.bytes with
  | nil => rw [hs] at hw; cases hw
  | cons b bs => rw [hs] at hw; cases hw; trivial

theorem cenum_okLaw (tag : LenTy) (n : Nat) : OkLaw (cenumD tag n) := by
  intro s v _ hw
  simp only [cenumD] at hw
  cases hr : tag.readU s with
  | ok t => rw [hr] at hw; simp only [Res.bind] at hw; cases hw; trivial
  | err e => rw [hr] at hw; cases hw
  | fault f => rw [hr] at hw; cases hw

theorem walkArr_ok (d : Dict) (hd : OkLaw d) (s : Slice) : ∀ (k i : Nat) (vs : List Val),
    arrLoop d s k i = .ok () → walkArr d s k i = .ok vs → Val.okL vs := by
  intro k
  induction k with
  | zero => intro i vs _ hw; simp only [walkArr] at hw; cases hw; trivial
  | succ k ih =>
    intro i vs hv hw
    simp only [arrLoop, Res.bind_eq] at hv
    simp only [walkArr] at hw
    cases ha : s.dropU (i * d.ssize) with
    | ok a =>
      rw [ha] at hv hw; simp only [Res.bind] at hv hw
      cases he : a.takeU d.ssize with
      | ok e =>
        rw [he] at hv hw; simp only [Res.bind] at hv hw
        cases hve : d.validateU e with
        | ok u =>
          rw [hve] at hv; simp only [Res.offset, Res.bind] at hv
          cases hwe : d.walk e with
          | ok v =>
            rw [hwe] at hw; simp only [Res.bind] at hw
            cases hr : walkArr d s k (i + 1) with
            | ok rest =>
              rw [hr] at hw; simp only [Res.bind] at hw; cases hw
              exact ⟨hd e v hve hwe, ih (i + 1) rest hv hr⟩
            | err x => rw [hr] at hw; cases hw
            | fault x => rw [hr] at hw; cases hw
          | err x => rw [hwe] at hw; cases hw
          | fault x => rw [hwe] at hw; cases hw
        | err x => rw [hve] at hv; simp [Res.offset, Res.bind] at hv
        | fault x => rw [hve] at hv; simp [Res.offset, Res.bind] at hv
      | err x => rw [he] at hw; cases hw
      | fault x => rw [he] at hw; cases hw
    | err x => rw [ha] at hw; cases hw
    | fault x => rw [ha] at hw; cases hw

theorem arr_okLaw (d : Dict) (hd : OkLaw d) (n : Nat) : OkLaw (arrD d n) := by
  intro s v hv hw
  simp only [arrD] at hv hw
  cases hr : walkArr d s n 0 with
  | ok xs => rw [hr] at hw; simp only [Res.bind] at hw; cases hw; exact walkArr_ok d hd s n 0 xs hv hr
  | err x => rw [hr] at hw; cases hw
  | fault x => rw [hr] at hw; cases hw

/-- field lists: every field's deep read is consistent -/
theorem walkAll_ok : ∀ (ds : List Dict), (∀ d ∈ ds, OkLaw d) → ∀ (pos : Nat) (data : Slice) (vs : List Val),
    validateAll ds pos data = .ok () → walkAll ds pos data = .ok vs → Val.okL vs := by
  intro ds
  induction ds with
  | nil => intro _ pos data vs _ hw; simp only [walkAll] at hw; cases hw; trivial
  | cons d ds ih =>
    intro hl pos data vs hv hw
    cases ds with
    | nil =>
      simp only [validateAll] at hv
      simp only [walkAll] at hw
      cases hve : d.validateU data with
      | ok u =>
        cases hwe : d.walk data with
        | ok v => rw [hwe] at hw; simp only [Res.bind] at hw; cases hw; exact ⟨hl d (by simp) data v hve hwe, trivial⟩
        | err x => rw [hwe] at hw; cases hw
        | fault x => rw [hwe] at hw; cases hw
      | err x => rw [hve] at hv; simp [Res.offset] at hv
      | fault x => rw [hve] at hv; simp [Res.offset] at hv
    | cons d' ds' =>
      simp only [validateAll] at hv
      simp only [walkAll] at hw
      cases hve : d.validateU data with
      | ok u =>
        rw [hve] at hv; simp only [Res.offset] at hv
        cases hwe : d.walk data with
        | ok v =>
          rw [hwe] at hw; simp only [Res.bind] at hw
          cases hsp : data.splitAt (ceilMul (pos + d.ssize) d'.align - pos) with
          | ok pr =>
            obtain ⟨hd', rest⟩ := pr
            rw [hsp] at hv hw; simp only at hv hw
            cases hr : walkAll (d' :: ds') (ceilMul (pos + d.ssize) d'.align) rest with
            | ok vs' =>
              rw [hr] at hw; simp only [Res.bind] at hw; cases hw
              exact ⟨hl d (by simp) data v hve hwe, ih (fun x hx => hl x (by simp [hx])) _ rest vs' hv hr⟩
            | err x => rw [hr] at hw; cases hw
            | fault x => rw [hr] at hw; cases hw
          | err x => rw [hsp] at hw; cases hw
          | fault x => rw [hsp] at hw; cases hw
        | err x => rw [hwe] at hw; cases hw
        | fault x => rw [hwe] at hw; cases hw
      | err x => rw [hve] at hv; simp [Res.offset] at hv
      | fault x => rw [hve] at hv; simp [Res.offset] at hv

theorem sstruct_okLaw (ds : List Dict) (hl : ∀ d ∈ ds, OkLaw d) : OkLaw (sstructD ds) := by
  intro s v hv hw
  simp only [sstructD] at hv hw
  cases hr : walkAll ds 0 s with
  | ok xs => rw [hr] at hw; simp only [Res.bind] at hw; cases hw; exact walkAll_ok ds hl 0 s xs hv hr
  | err x => rw [hr] at hw; cases hw
  | fault x => rw [hr] at hw; cases hw

theorem getD_okLaw : ∀ (vs : List (List Dict)), (∀ v ∈ vs, ∀ d ∈ v, OkLaw d) → ∀ (t : Nat), ∀ d ∈ vs.getD t [], OkLaw d := by
  intro vs
  induction vs with
  | nil => intro _ t d hd; simp at hd
  | cons v vs ih =>
    intro hl t d hd
    cases t with
    | zero => exact hl v (by simp) d (by simpa using hd)
    | succ k => exact ih (fun v' hv' => hl v' (by simp [hv'])) k d (by simpa using hd)

theorem senum_okLaw (tag : LenTy) (vs : List (List Dict)) (hl : ∀ v ∈ vs, ∀ d ∈ v, OkLaw d) : OkLaw (senumD tag vs) := by
  intro s v hv hw
  simp only [senumD, Res.bind_eq] at hv hw
  cases hr : tag.readU s with
  | ok t =>
    rw [hr] at hv hw; simp only [Res.bind] at hv hw
    split at hv
    · cases hd : s.dropU (ceilMul tag.size (max tag.align (alignLL vs))) with
      | ok data =>
        rw [hd] at hv hw; simp only [Res.bind] at hv hw
        cases hva : validateAll (vs.getD t []) 0 data with
        | ok u =>
          cases hwa : walkAll (vs.getD t []) 0 data with
          | ok xs =>
            rw [hwa] at hw; simp only [Res.bind] at hw; cases hw
            exact walkAll_ok _ (getD_okLaw vs hl t) 0 data xs hva hwa
          | err x => rw [hwa] at hw; cases hw
          | fault x => rw [hwa] at hw; cases hw
        | err x => rw [hva] at hv; simp [Res.offset] at hv
        | fault x => rw [hva] at hv; simp [Res.offset] at hv
      | err x => rw [hd] at hw; cases hw
      | fault x => rw [hd] at hw; cases hw
    · cases hv
  | err x => rw [hr] at hw; cases hw
  | fault x => rw [hr] at hw; cases hw

theorem walkElems_ok (d : Dict) (hd : OkLaw d) (dOff : Nat) (s : Slice) : ∀ (k i : Nat) (vs : List Val),
    vecElems d dOff s k i = .ok () → walkElems d dOff s k i = .ok vs → Val.okL vs ∧ vs.length = k := by
  intro k
  induction k with
  | zero => intro i vs _ hw; simp only [walkElems] at hw; cases hw; exact ⟨trivial, rfl⟩
  | succ k ih =>
    intro i vs hv hw
    simp only [vecElems, Res.bind_eq] at hv
    simp only [walkElems] at hw
    cases ha : s.dropU (dOff + i * d.ssize) with
    | ok a =>
      rw [ha] at hv hw; simp only [Res.bind] at hv hw
      cases he : a.takeU d.ssize with
      | ok e =>
        rw [he] at hv hw; simp only [Res.bind] at hv hw
        cases hve : d.validateU e with
        | ok u =>
          rw [hve] at hv; simp only [Res.offset, Res.bind] at hv
          cases hwe : d.walk e with
          | ok v =>
            rw [hwe] at hw; simp only [Res.bind] at hw
            cases hr : walkElems d dOff s k (i + 1) with
            | ok rest =>
              rw [hr] at hw; simp only [Res.bind] at hw; cases hw
              obtain ⟨h1, h2⟩ := ih (i + 1) rest hv hr
              exact ⟨⟨hd e v hve hwe, h1⟩, by simp [h2]⟩
            | err x => rw [hr] at hw; cases hw
            | fault x => rw [hr] at hw; cases hw
          | err x => rw [hwe] at hw; cases hw
          | fault x => rw [hwe] at hw; cases hw
        | err x => rw [hve] at hv; simp [Res.offset, Res.bind] at hv
        | fault x => rw [hve] at hv; simp [Res.offset, Res.bind] at hv
      | err x => rw [he] at hw; cases hw
      | fault x => rw [he] at hw; cases hw
    | err x => rw [ha] at hw; cases hw
    | fault x => rw [ha] at hw; cases hw

theorem vec_okLaw (d : Dict) (hd : OkLaw d) (l : LenTy) : OkLaw (vecD d l) := by
  intro s v hv hw
  simp only [vecD, Res.bind_eq] at hv hw
  cases hr : l.readU s with
  | ok len =>
    rw [hr] at hv hw; simp only [Res.bind] at hv hw
    cases hsl : vecSlots d l s.len with
    | ok slots =>
      rw [hsl] at hv hw; simp only [Res.bind] at hv hw
      by_cases hc : len > min slots l.max
      · simp [hc] at hv
      · simp only [hc, if_false] at hv
        by_cases hz : d.ssize = 0
        · simp only [hz, if_true] at hw; cases hw; exact Nat.le_of_not_gt hc
        · simp only [hz, if_false] at hv hw
          cases hwe : walkElems d (max l.size d.align) s len 0 with
          | ok xs =>
            rw [hwe] at hw; simp only [Res.bind] at hw; cases hw
            obtain ⟨h1, h2⟩ := walkElems_ok d hd _ s len 0 xs hv hwe
            exact ⟨by rw [h2]; exact Nat.le_of_not_gt hc, h1⟩
          | err x => rw [hwe] at hw; cases hw
          | fault x => rw [hwe] at hw; cases hw
    | err x => rw [hsl] at hw; cases hw
    | fault x => rw [hsl] at hw; cases hw
  | err x => rw [hr] at hw; cases hw
  | fault x => rw [hr] at hw; cases hw

theorem str_okLaw (l : LenTy) : OkLaw (strD l) := by
  intro s v hv hw
  simp only [strD, Res.bind_eq] at hv hw
  cases hr : l.readU s with
  | ok len =>
    rw [hr] at hv hw; simp only [Res.bind] at hv hw
    by_cases hlt : s.len < l.size
    · simp [hlt] at hw
    · simp only [hlt, if_false] at hv hw
      cases hw
      by_cases hc : len > min (floorMul (s.len - l.size) l.align) l.max
      · simp [hc] at hv
      · simp only [hc, if_false] at hv
        have hle : len ≤ min (floorMul (s.len - l.size) l.align) l.max := Nat.le_of_not_gt hc
        have hfl := floorMul_le (s.len - l.size) l.align
        have hl : ((s.bytes.drop l.size).take len).length = len := by
          simp only [List.length_take, List.length_drop]
          have : s.len = s.bytes.length := rfl
          omega
        refine ⟨by rw [hl]; exact hle, ?_⟩
        rw [hl]
        split at hv
        · assumption
        · cases hv
  | err x => rw [hr] at hw; cases hw
  | fault x => rw [hr] at hw; cases hw

theorem walkFlex_ok (d : Dict) (hd : OkLaw d) (l : LenTy) (os : Nat) : ∀ (fuel pos : Nat) (data : Slice) (vs : List Val),
    flexValidate d l os fuel pos data = .ok () → walkFlex d l os fuel data = .ok vs → Val.okL vs := by
  intro fuel
  induction fuel with
  | zero => intro pos data vs hv _; simp [flexValidate] at hv
  | succ fuel ih =>
    intro pos data vs hv hw
    simp only [flexValidate] at hv
    simp only [walkFlex] at hw
    split at hv
    · cases hv
    · cases hck : checkAlignMin l.align l.size data with
      | ok u =>
        rw [hck] at hv; simp only at hv
        cases hr : l.readU data with
        | ok next =>
          rw [hr] at hv hw; simp only [Res.bind] at hv hw
          by_cases hz : next = 0
          · simp only [hz, if_true] at hw; cases hw; trivial
          · simp only [hz, if_false] at hv hw
            split at hv
            · cases hv
            · split at hv
              · cases hv
              · by_cases hm : next = l.max
                · simp only [hm, if_true, decide_true] at hv hw
                  cases hsp : data.splitAt os with
                  | ok pr =>
                    obtain ⟨_, payload⟩ := pr
                    rw [hsp] at hv hw; simp only at hv hw
                    cases hvp : d.validate payload with
                    | ok u2 =>
                      cases hwp : d.walk payload with
                      | ok v =>
                        rw [hwp] at hw; simp only [Res.bind] at hw; cases hw
                        exact ⟨hd payload v (validate_ok_iff.1 hvp).2.2 hwp, trivial⟩
                      | err x => rw [hwp] at hw; cases hw
                      | fault x => rw [hwp] at hw; cases hw
                    | err x => rw [hvp] at hv; simp [Res.offset] at hv
                    | fault x => rw [hvp] at hv; simp [Res.offset] at hv
                  | err x => rw [hsp] at hw; cases hw
                  | fault x => rw [hsp] at hw; cases hw
                · simp only [hm, if_false, decide_false] at hv hw
                  cases hsp : data.splitAt next with
                  | ok pr =>
                    obtain ⟨item, rest⟩ := pr
                    rw [hsp] at hv hw; simp only at hv hw
                    cases hsp2 : item.splitAt os with
                    | ok pr2 =>
                      obtain ⟨_, payload⟩ := pr2
                      rw [hsp2] at hv hw; simp only at hv hw
                      cases hvp : d.validate payload with
                      | ok u2 =>
                        rw [hvp] at hv; simp only [Res.offset] at hv
                        cases hwp : d.walk payload with
                        | ok v =>
                          rw [hwp] at hw; simp only [Res.bind] at hw
                          cases hrr : walkFlex d l os fuel rest with
                          | ok vs' =>
                            rw [hrr] at hw; simp only [Res.bind] at hw; cases hw
                            exact ⟨hd payload v (validate_ok_iff.1 hvp).2.2 hwp, ih _ rest vs' hv hrr⟩
                          | err x => rw [hrr] at hw; cases hw
                          | fault x => rw [hrr] at hw; cases hw
                        | err x => rw [hwp] at hw; cases hw
                        | fault x => rw [hwp] at hw; cases hw
                      | err x => rw [hvp] at hv; simp [Res.offset] at hv
                      | fault x => rw [hvp] at hv; simp [Res.offset] at hv
                    | err x => rw [hsp2] at hw; cases hw
                    | fault x => rw [hsp2] at hw; cases hw
                  | err x => rw [hsp] at hw; cases hw
                  | fault x => rw [hsp] at hw; cases hw
        | err x => rw [hr] at hw; cases hw
        | fault x => rw [hr] at hw; cases hw
      | err x => rw [hck] at hv; cases hv
      | fault x => rw [hck] at hv; cases hv

theorem flex_okLaw (d : Dict) (hd : OkLaw d) (l : LenTy) : OkLaw (flexD d l) := by
  intro s v hv hw
  simp only [flexD] at hv hw
  cases hr : walkFlex d l (max l.size d.align) (s.len + 1) (s.take (floorMul s.len (max l.align d.align))) with
  | ok xs => rw [hr] at hw; simp only [Res.bind] at hw; cases hw; exact walkFlex_ok d hd l _ _ 0 _ xs hv hr
  | err x => rw [hr] at hw; cases hw
  | fault x => rw [hr] at hw; cases hw

theorem ustruct_okLaw (ds : List Dict) (last : Dict) (hl : ∀ d ∈ ds ++ [last], OkLaw d) : OkLaw (ustructD ds last) := by
  intro s v hv hw
  simp only [ustructD] at hv hw
  cases hr : walkAll (ds ++ [last]) 0 (s.take (floorMul s.len (alignL (ds ++ [last])))) with
  | ok xs => rw [hr] at hw; simp only [Res.bind] at hw; cases hw; exact walkAll_ok _ hl 0 _ xs hv hr
  | err x => rw [hr] at hw; cases hw
  | fault x => rw [hr] at hw; cases hw

theorem uenum_okLaw (tag : LenTy) (vs : List (List Dict)) (hl : ∀ v ∈ vs, ∀ d ∈ v, OkLaw d) : OkLaw (uenumD tag vs) := by
  intro s v hv hw
  simp only [uenumD, Res.bind_eq] at hv hw
  cases hr : tag.readU s with
  | ok t =>
    rw [hr] at hv hw; simp only [Res.bind] at hv hw
    split at hv
    · cases hd : s.dropU (ceilMul tag.size (max tag.align (alignLL vs))) with
      | ok data =>
        rw [hd] at hv hw; simp only [Res.bind] at hv hw
        split at hv
        · cases hv
        · cases hva : validateAll (vs.getD t []) 0 (data.take (floorMul data.len (max tag.align (alignLL vs)))) with
          | ok u =>
            cases hwa : walkAll (vs.getD t []) 0 (data.take (floorMul data.len (max tag.align (alignLL vs)))) with
            | ok xs =>
              rw [hwa] at hw; simp only [Res.bind] at hw; cases hw
              exact walkAll_ok _ (getD_okLaw vs hl t) 0 _ xs hva hwa
            | err x => rw [hwa] at hw; cases hw
            | fault x => rw [hwa] at hw; cases hw
          | err x => rw [hva] at hv; simp [Res.offset] at hv
          | fault x => rw [hva] at hv; simp [Res.offset] at hv
      | err x => rw [hd] at hw; cases hw
      | fault x => rw [hd] at hw; cases hw
    · cases hv
  | err x => rw [hr] at hw; cases hw
  | fault x => rw [hr] at hw; cases hw

mutual
theorem Ty.okLaw : ∀ t : Ty, OkLaw t.dict
  | .prim s a => prim_okLaw s a
  | .bool => bool_okLaw
  | .arr t n => arr_okLaw t.dict (Ty.okLaw t) n
  | .sstruct fs => sstruct_okLaw (dictL fs) (okL fs)
  | .cenum tag n => cenum_okLaw tag n
  | .senum tag vs => senum_okLaw tag (dictLL vs) (okLL vs)
  | .vec t l => vec_okLaw t.dict (Ty.okLaw t) l
  | .str l => str_okLaw l
  | .flex t l => flex_okLaw t.dict (Ty.okLaw t) l
  | .ustruct fs last => ustruct_okLaw (dictL fs) last.dict (by
      intro d hd
      rcases List.mem_append.mp hd with h | h
      · exact okL fs d h
      · simp only [List.mem_singleton] at h; subst h; exact Ty.okLaw last)
  | .uenum tag vs => uenum_okLaw tag (dictLL vs) (okLL vs)
theorem okL : ∀ fs : List Ty, ∀ d ∈ dictL fs, OkLaw d
  | [] => by intro d hd; simp [dictL] at hd
  | t :: ts => by
      intro d hd
      simp only [dictL, List.mem_cons] at hd
      rcases hd with rfl | hm
      · exact Ty.okLaw t
      · exact okL ts d hm
theorem okLL : ∀ vs : List (List Ty), ∀ v ∈ dictLL vs, ∀ d ∈ v, OkLaw d
  | [] => by intro v hv; simp [dictLL] at hv
  | v0 :: vs => by
      intro v hv
      simp only [dictLL, List.mem_cons] at hv
      rcases hv with rfl | hm
      · exact okL v0
      · exact okLL vs v hm
end
end FV
#print axioms FV.Ty.okLaw
