import FV.VecRefine
/-! Observables of a mapped `FlatVec` after a history (C11): `len()`, `size()`, capacity — stated with the type's own `Dict`
functions (`readU`, `size`, `vecGeo`), so that the refinement of `C11_history` is tied to what `FlatVec::len`, `FlatBase::size` and
`FlatVec::capacity` compute from the bytes the history leaves behind. -/
namespace FV

/-- the length field read by `l.readU` is the `decLen` of the operation model -/
theorem readU_of_dec (l : LenTy) (addr : Nat) (bs : Bytes) (S dOff : Nat) (h1 : l.size ≤ bs.length) (h2 : addr % l.align = 0) :
    l.readU ⟨addr, bs⟩ = .ok (VecCfg.decLen ⟨S, dOff, l⟩ bs) := by
  unfold LenTy.readU VecCfg.decLen
  have : ¬ (Slice.len ⟨addr, bs⟩) < l.size := by show ¬ bs.length < l.size; omega
  simp [this, h2]

theorem readU_ok_aligned (l : LenTy) (s : Slice) (n : Nat) (h : l.readU s = .ok n) : s.addr % l.align = 0 ∧ l.size ≤ s.len := by
  unfold LenTy.readU at h
  split at h
  · cases h
  · split at h
    · cases h
    · constructor <;> omega
end FV
