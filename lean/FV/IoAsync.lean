import FV.IoSend
/-! C08 (sender half, prototype): `WriteAll::poll` as a resumable state machine; it refines the blocking `write_all`
followed by a flush, run against the same script with the `Pending` outcomes erased. -/
namespace FV

/-- outcome of one `poll_write` / `poll_flush` call -/
inductive AEv | pending | ok (n : Nat) | err (k : Nat)
deriving Repr, DecidableEq

structure AState where
  pos : Nat
  sink : Bytes
  poisoned : Bool
deriving Repr, DecidableEq

inductive APoll | pending | done | brokenPipe | err (k : Nat) | flushErr (k : Nat) | blocked
deriving Repr, DecidableEq

/-- one call of `WriteAll::poll`: loops over `poll_write` until `Pending`, an error, or completion; then `poll_flush` -/
def apoll (msg : Bytes) : List AEv → AState → APoll × AState × List AEv
  | evs, st =>
    if msg.length ≤ st.pos then
      -- all bytes handed over: flush
      match evs with
      | [] => (.blocked, st, [])
      | .pending :: evs' => (.pending, st, evs')
      | .ok _ :: evs' => (.done, st, evs')
      | .err k :: evs' => (.flushErr k, st, evs')
    else match evs with
      | [] => (.blocked, st, [])
      | .pending :: evs' => (.pending, st, evs')
      | .ok n :: evs' =>
        if n = 0 then (.brokenPipe, { st with poisoned := st.pos ≠ 0 }, evs')
        else
          let k := min n (msg.length - st.pos)
          apoll msg evs' { st with pos := st.pos + k, sink := st.sink ++ (msg.drop st.pos).take k }
      | .err k :: evs' => (.err k, { st with poisoned := st.pos ≠ 0 }, evs')

/-- the executor: poll again after every `Pending` (the pipe has registered the waker and made progress) -/
def arun (msg : Bytes) : List AEv → AState → APoll × AState × List AEv
  | [], st => apoll msg [] st
  | ev :: evs, st =>
    match apoll msg (ev :: evs) st with
    | (.pending, st', evs') =>
      -- `apoll` consumed at least the event it returned `Pending` for, so this terminates
      if evs'.length < (ev :: evs).length then arun msg evs' st' else (.blocked, st', evs')
    | r => r
termination_by evs => evs.length
decreasing_by simp_all

/-- the same sender without suspension points: the blocking loop followed by a flush -/
def brun (msg : Bytes) : List AEv → AState → APoll × AState × List AEv
  | evs, st =>
    if msg.length ≤ st.pos then
      match evs with
      | [] => (.blocked, st, [])
      | .pending :: evs' => brun msg evs' st          -- never present after erasure
      | .ok _ :: evs' => (.done, st, evs')
      | .err k :: evs' => (.flushErr k, st, evs')
    else match evs with
      | [] => (.blocked, st, [])
      | .pending :: evs' => brun msg evs' st
      | .ok n :: evs' =>
        if n = 0 then (.brokenPipe, { st with poisoned := st.pos ≠ 0 }, evs')
        else
          let k := min n (msg.length - st.pos)
          brun msg evs' { st with pos := st.pos + k, sink := st.sink ++ (msg.drop st.pos).take k }
      | .err k :: evs' => (.err k, { st with poisoned := st.pos ≠ 0 }, evs')

theorem apoll_consumes (msg : Bytes) : ∀ (evs : List AEv) (st : AState),
    (apoll msg evs st).2.2.length ≤ evs.length ∧
    ((apoll msg evs st).1 = .pending → (apoll msg evs st).2.2.length < evs.length) := by
  intro evs
  induction evs with
  | nil => intro st; unfold apoll; split <;> simp
  | cons ev evs ih =>
    intro st
    unfold apoll
    split
    · cases ev <;> simp
    · cases ev with
      | pending => simp
      | err k => simp
      | ok n =>
        simp only
        split
        · simp
        · have := ih { st with pos := st.pos + min n (msg.length - st.pos), sink := st.sink ++ (msg.drop st.pos).take (min n (msg.length - st.pos)) }
          constructor
          · simp only [List.length_cons]; omega
          · intro h; have := this.2 h; simp only [List.length_cons]; omega

theorem apoll_brun (msg : Bytes) : ∀ (evs : List AEv) (st : AState),
    ((apoll msg evs st).1 = .pending → brun msg evs st = brun msg (apoll msg evs st).2.2 (apoll msg evs st).2.1) ∧
    ((apoll msg evs st).1 ≠ .pending → brun msg evs st = apoll msg evs st) := by
  intro evs
  induction evs with
  | nil =>
    intro st
    unfold apoll brun
    split <;> simp
  | cons ev evs ih =>
    intro st
    by_cases hdone : msg.length ≤ st.pos
    · cases ev with
      | pending =>
        have ha : apoll msg (AEv.pending :: evs) st = (.pending, st, evs) := by unfold apoll; simp [hdone]
        have hb : brun msg (AEv.pending :: evs) st = brun msg evs st := by
          conv => lhs; unfold brun
          simp [hdone]
        simp [ha, hb]
      | ok n =>
        have ha : apoll msg (AEv.ok n :: evs) st = (.done, st, evs) := by unfold apoll; simp [hdone]
        have hb : brun msg (AEv.ok n :: evs) st = (.done, st, evs) := by unfold brun; simp [hdone]
        simp [ha, hb]
      | err k =>
        have ha : apoll msg (AEv.err k :: evs) st = (.flushErr k, st, evs) := by unfold apoll; simp [hdone]
        have hb : brun msg (AEv.err k :: evs) st = (.flushErr k, st, evs) := by unfold brun; simp [hdone]
        simp [ha, hb]
    · cases ev with
      | pending =>
        have ha : apoll msg (AEv.pending :: evs) st = (.pending, st, evs) := by unfold apoll; simp [hdone]
        have hb : brun msg (AEv.pending :: evs) st = brun msg evs st := by
          conv => lhs; unfold brun
          simp [hdone]
        simp [ha, hb]
      | err k =>
        have ha : apoll msg (AEv.err k :: evs) st = (.err k, { st with poisoned := st.pos ≠ 0 }, evs) := by unfold apoll; simp [hdone]
        have hb : brun msg (AEv.err k :: evs) st = (.err k, { st with poisoned := st.pos ≠ 0 }, evs) := by unfold brun; simp [hdone]
        simp [ha, hb]
      | ok n =>
        by_cases hn : n = 0
        · have ha : apoll msg (AEv.ok n :: evs) st = (.brokenPipe, { st with poisoned := st.pos ≠ 0 }, evs) := by
            unfold apoll; simp [hdone, hn]
          have hb : brun msg (AEv.ok n :: evs) st = (.brokenPipe, { st with poisoned := st.pos ≠ 0 }, evs) := by
            unfold brun; simp [hdone, hn]
          simp [ha, hb]
        · have ha : apoll msg (AEv.ok n :: evs) st = apoll msg evs
              { st with pos := st.pos + min n (msg.length - st.pos), sink := st.sink ++ (msg.drop st.pos).take (min n (msg.length - st.pos)) } := by
            conv => lhs; unfold apoll
            simp [hdone, hn]
          have hb : brun msg (AEv.ok n :: evs) st = brun msg evs
              { st with pos := st.pos + min n (msg.length - st.pos), sink := st.sink ++ (msg.drop st.pos).take (min n (msg.length - st.pos)) } := by
            conv => lhs; unfold brun
            simp [hdone, hn]
          rw [ha, hb]
          exact ih _

/-- **Stuttering refinement.** Polling to completion, resuming after every `Pending`, gives exactly the result,
the state (position, bytes in the sink, poisoned flag) and the remaining script of the suspension-free sender:
no byte is lost, duplicated or reordered by suspension, and completion implies the flush returned `Ready(Ok)`. -/
theorem arun_eq_brun (msg : Bytes) : ∀ (n : Nat) (evs : List AEv) (st : AState), evs.length ≤ n →
    arun msg evs st = brun msg evs st := by
  intro n
  induction n with
  | zero =>
    intro evs st h
    have : evs = [] := List.eq_nil_of_length_eq_zero (by omega)
    subst this
    unfold arun brun apoll
    split <;> rfl
  | succ n ih =>
    intro evs st h
    cases evs with
    | nil => unfold arun brun apoll; split <;> rfl
    | cons ev evs =>
      have hc := apoll_consumes msg (ev :: evs) st
      have hb := apoll_brun msg (ev :: evs) st
      unfold arun
      cases hp : apoll msg (ev :: evs) st with
      | mk r rest =>
        obtain ⟨st', evs'⟩ := rest
        rw [hp] at hc hb
        simp only at hc hb
        cases r with
        | pending =>
          have hlt := hc.2 rfl
          simp only [hlt, if_true]
          rw [ih evs' st' (by simp only [List.length_cons] at hlt h; omega)]
          exact (hb.1 rfl).symm
        | done => simp only; exact (hb.2 (by simp)).symm
        | brokenPipe => simp only; exact (hb.2 (by simp)).symm
        | err k => simp only; exact (hb.2 (by simp)).symm
        | flushErr k => simp only; exact (hb.2 (by simp)).symm
        | blocked => simp only; exact (hb.2 (by simp)).symm
end FV
#print axioms FV.arun_eq_brun
