import FV.Props.Catalog
import FV.C05C06
import FV.WalkAll
/-! # C02 — consistent view (first part)

(b) the returned reference covers at most the given slice; (d) the value's own bytes validate again.
The acceptance set `↔ WFEnc` and `walk = decode` are in `Props/C02Spec.lean` as they are proved. -/
namespace FV.Props
open FV

/-- **C02 (b).** When `from_bytes` succeeds the reference covers no more than the given slice. -/
theorem C02_view_within (t : Ty) (h : t.WF) (s : Slice) (hv : t.dict.validate s = .ok ()) :
    ∃ v, t.dict.viewLen s.len = .ok v ∧ v ≤ s.len ∧ v % t.dict.align = 0 := by
  obtain ⟨_, hl, _⟩ := validate_ok_iff.1 hv
  obtain ⟨m, hm, hle, hmod, _⟩ := C04_view_fits t h s.len hl
  exact ⟨m, hm, hle, hmod⟩

/-- **C02 (d), in the form proved so far.** Every truncation of the slice that keeps at least `size()` bytes
validates again (with `z ≤ as_bytes().len()`, see `C02_size_le_view`, this gives: the value's own bytes validate). -/
theorem C02_truncation_validates (t : Ty) (h : t.WF) (s : Slice) (hv : t.dict.validate s = .ok ()) (z : Nat)
    (hz : t.dict.size s = .ok z) (k : Nat) (hzk : z ≤ k) (hk : k ≤ s.len) : t.dict.validate (s.take k) = .ok () := by
  obtain ⟨ha, hl, hu⟩ := validate_ok_iff.1 hv
  have F := Ty.frameLaw t h
  obtain ⟨z', hz', hzle, _, hzmin⟩ := F.size_ok s ha hl hu
  have : z' = z := by simp only [Dict.sizeV] at hz'; rw [hz] at hz'; cases hz'; rfl
  subst this
  obtain ⟨h1, _⟩ := F.loc s z' ha hl hu hz (s.take k) rfl (by simp only [Slice.len_take]; omega)
    (by simp only [Slice.take, List.take_take]; congr 1; omega)
  exact validate_ok_iff.2 ⟨by simpa using ha, by simp only [Slice.len_take]; omega, h1⟩

/-- **C02 (accessors).** When `from_bytes` succeeds, the deep read through the safe accessors succeeds: every length, tag, offset
and element it follows lies inside the given slice (a read outside it is a fault of the model), for every type and slice. -/
theorem C02_deep_read_total (t : Ty) (h : t.WF) (s : Slice) (hv : t.dict.validate s = .ok ()) :
    ∃ v, t.dict.walk s = .ok v := by
  obtain ⟨_, hl, hu⟩ := validate_ok_iff.1 hv
  exact (Ty.walkLaw t h).total s hl hu

example : E1.WF ∧ E1.dict.validate ⟨0, [2,0,0,0, 1,0, 1,0, 5,0,0,0, 9,9,9,9]⟩ = .ok () := ⟨E1_wf, by decide⟩
end FV.Props
