import FV.Props.C12
import FV.Props.C15
import FV.FlexEdit
import FV.FlexLen
/-! # C12 — when exactly is a `push` accepted -/
namespace FV.Props
open FV

/-- **`push` is accepted exactly when it can be.** For a FlexVec that is a chain of items (any item type, any length type), with
`w` what the walk to the end of the chain finds (`w.pos` = where the new slot goes; the walk itself fails only when the current
last item cannot be sealed because its slot length is not representable in the length type): `push(emplacer)` returns `Ok`
**iff** the walk succeeds, a slot header fits behind the chain, the content is representable and the bytes behind the header
hold its specified size. Otherwise it is refused (and `C13` says nothing observable changed). -/
theorem C12_push_accepts_iff (it : Ty) (h : it.WF) (l : LenTy) (hl : l.Law) (i : Init) (hw : InitWT it i) (data : Slice)
    (items : List (Nat × Bytes)) (hc : Chain it.dict l (max l.size it.dict.align) 0 data items)
    (hend : data.len % max l.align it.dict.align = 0) (o : EO) (ho : flexPush it l i data = .ok o) :
    o.res = .ok () ↔
      ∃ w, pushWalk it l (data.len + 1) 0 data = .ok (.ok w) ∧ w.pos + max l.size it.dict.align ≤ data.len ∧
        Rep it i ∧ sizeSpec it i ≤ data.len - (w.pos + max l.size it.dict.align) := by
  have hd := Ty.law it h
  have hfd := Ty.frameLaw it h
  have hls : l.size ≤ max l.size it.dict.align := Nat.le_max_left _ _
  have hpa := hd.align_pow2
  have hosal := dataOffset_mod l hl it.dict.align hpa
  have haldv : max l.align it.dict.align % it.dict.align = 0 := Pow2.max_mod_right hl.align_pow2 hpa
  obtain ⟨_, hal⟩ := Chain.slot_len it.dict l hd hfd hl hc
  obtain ⟨r, hr, hspec⟩ := pushWalk_spec it l hd hfd hl hc (add_mod_zero hal hend) (data.len + 1) (Nat.lt_succ_self _)
  simp only [flexPush, hr, Res.bind_ok] at ho
  cases r with
  | error e =>
    simp only [Res.ok.injEq] at ho
    constructor
    · intro hres; rw [← ho] at hres; cases hres
    · intro ⟨w, hw', _⟩; rw [hr] at hw'; cases hw'
  | ok w =>
    have hp : PushEnd it.dict l (max l.size it.dict.align) 0 data items w := hspec
    have hle := hp.le
    have hwal := hp.al
    simp only [Nat.sub_zero] at hle hwal
    have hnl : ¬ data.len < w.pos := by omega
    simp only [hnl, if_false] at ho
    -- the walk is a function: any `w'` it returns is `w`
    have hwuniq : ∀ w', pushWalk it l (data.len + 1) 0 data = .ok (.ok w') → w' = w := by
      intro w' hw'; rw [hr] at hw'; cases hw'; rfl
    by_cases hroom : data.len - w.pos < max l.size it.dict.align
    · simp only [hroom, if_true, Res.ok.injEq] at ho
      constructor
      · intro hres; rw [← ho] at hres; cases hres
      · intro ⟨w', hw', hfit, _⟩
        have := hwuniq w' hw'; subst this; omega
    · simp only [hroom, if_false] at ho
      -- the item emplacer decides
      obtain ⟨oi, hoi, hiff⟩ := C15_accepts_iff_fits it h i hw
        ⟨data.addr + w.pos + max l.size it.dict.align, data.bytes.drop (w.pos + max l.size it.dict.align)⟩
      have hpal : (data.addr + w.pos + max l.size it.dict.align) % it.dict.align = 0 := by
        rw [Nat.add_assoc]; exact mod_trans (add_mod_zero hal (add_mod_zero hwal hosal)) haldv
      simp only [Slice.len, List.length_drop] at hiff
      have hdl : data.len = data.bytes.length := rfl
      simp only [hoi, Res.bind_ok] at ho
      have hkey : o.res = .ok () ↔ oi.res = .ok () := by
        cases hri : oi.res with
        | error e =>
          rw [hri] at ho
          simp only [Res.ok.injEq] at ho
          rw [← ho]; constructor <;> intro hh <;> cases hh
        | ok u =>
          rw [hri] at ho
          simp only [] at ho
          refine ⟨fun _ => rfl, fun _ => ?_⟩
          cases hw1 : writeAt (data.bytes.take (w.pos + max l.size it.dict.align) ++ oi.bytes) w.pos (encLenTy l l.max) with
          | ok b2 =>
            simp only [hw1, Res.bind_ok] at ho
            cases hs : w.sealing with
            | none => simp only [hs, Res.ok.injEq] at ho; rw [← ho]; rfl
            | some ql =>
              obtain ⟨q, lo⟩ := ql
              simp only [hs] at ho
              cases hw2 : writeAt b2 q (encLenTy l lo) with
              | ok b3 => simp only [hw2, Res.bind_ok, Res.ok.injEq] at ho; rw [← ho]; rfl
              | err e' => rw [hw2] at ho; cases ho
              | fault f' => rw [hw2] at ho; cases ho
          | err e' => rw [hw1] at ho; cases ho
          | fault f' => rw [hw1] at ho; cases ho
      rw [hkey, hiff]
      constructor
      · intro ⟨_, hrep, hfit⟩
        exact ⟨w, hr, by omega, hrep, by omega⟩
      · intro ⟨w', hw', hfit1, hrep, hfit⟩
        have := hwuniq w' hw'; subst this
        exact ⟨hpal, hrep, by omega⟩

/-- non-vacuity: `FlexVec<FlatVec<u8,u8>, u8>` holding `[7,8]` in 8 bytes: an empty item fits behind it (accepted), a 3-byte one
does not (refused) -/
example : (flexPush (.vec u8 L8) L8 .vecEmpty ⟨0, [255, 2, 7, 8, 9, 9, 9, 9]⟩).bind (fun o => .ok o.res) = .ok (.ok ()) := by
  decide +kernel
example : (flexPush (.vec u8 L8) L8 (.vecArr [[1],[2],[3]]) ⟨0, [255, 2, 7, 8, 9, 9, 9, 9]⟩).bind (fun o => .ok o.res) =
    .ok (.error ⟨.insufficientSize, 5⟩) := by decide +kernel

/-- **editing one item (`iter_mut()`, an item's own `push` / `assign` / field write) keeps the sequence and touches no other
item.** `flexItemRange` is the walk to item `i`: it returns the item's payload range `[off, off+len)` — the bytes the item's
`&mut` covers, bounded by its slot (for the last item: by the end of the vector). If an operation on the item leaves `len` bytes
that again validate as an item, the vector is a chain with the same number of items at the same slot offsets, and every item
other than `i` has exactly the same image; the bytes outside the range are untouched (`C14_item_edit_frame`). Whatever the nested
operation is: it cannot grow the item beyond its slot, because the slot is all it is given. -/
theorem C12_item_edit (it : Ty) (h : it.WF) (l : LenTy) (data : Slice) (items : List (Nat × Bytes))
    (hc : Chain it.dict l (max l.size it.dict.align) 0 data items) (f i off len : Nat)
    (hr : flexItemRange l (max l.size it.dict.align) f i 0 data = .ok (some (off, len)))
    (p' : Bytes) (hp : p'.length = len) (hv : it.dict.validate ⟨data.addr + off, p'⟩ = .ok ()) :
    off + len ≤ data.len ∧ i < items.length ∧
    ∃ items' : List (Nat × Bytes), items'.length = items.length ∧ items'.map Prod.fst = items.map Prod.fst ∧
      (∀ j, j ≠ i → items'[j]? = items[j]?) ∧
      Chain it.dict l (max l.size it.dict.align) 0 ⟨data.addr, data.bytes.take off ++ p' ++ data.bytes.drop (off + len)⟩ items' := by
  obtain ⟨_, hin, hilt, hed⟩ := Chain.edit it.dict l (Ty.frameLaw it h) hc f i off len hr
  simp only [Nat.sub_zero] at hin hed
  exact ⟨hin, hilt, hed p' hp hv⟩

/-- **`truncate(n)` with `n ≥ len()` is a no-op on the bytes**, whatever valid encoding the vector is in — in particular when its
last item carries a real offset and is followed by a terminating slot, an encoding the library's own operations never produce
(the mutation-score run found that no generated history started from one; they now do). -/
theorem C12_truncate_noop (it : Ty) (l : LenTy) (hl : l.Law) (n : Nat) (data : Slice) (items : List (Nat × Bytes))
    (hc : Chain it.dict l (max l.size it.dict.align) 0 data items) (hn : items.length ≤ n) :
    flexTruncate it l n data = .ok data.bytes := by
  have hospos : 0 < max l.size it.dict.align := Nat.lt_of_lt_of_le hl.size_pow2.pos (Nat.le_max_left _ _)
  have hs := Chain.slots it it.dict l _ hospos hc (data.len + 1) (Nat.lt_succ_self _)
  simp only [flexTruncate, hs, Res.bind_ok, List.length_map]
  have : n ≥ items.length := hn
  simp [this]

/-- non-vacuity: item 0 of the two-item `FlexVec<FlatVec<u8,u8>, u8>` `[[7], [8,9]]` occupies bytes 1..4 -/
example : flexItemRange L8 1 9 0 0 ⟨0, [4, 1, 7, 0, 255, 2, 8, 9]⟩ = .ok (some (1, 3)) := by decide

/-- **`len()` and `is_empty()` report the abstract sequence.** On every valid encoding — a chain of `items`, closed by the `MAX`
marker or by a terminating slot — `len()` does not panic (it unwraps every step of the iterator) and returns the number of items,
and `is_empty()` holds exactly when there is none. (`push_default` is `push` with the item type's default initialiser and `clear` is
`truncate(0)`: `C12_push`, `C12_truncate`.) -/
theorem C12_len_is_empty (it : Ty) (h : it.WF) (l : LenTy) (hl : l.Law) (data : Slice) (items : List (Nat × Bytes))
    (hc : Chain it.dict l (max l.size it.dict.align) 0 data items) :
    flexLen it l (max l.size it.dict.align) (items.length + 1) data = .ok items.length ∧
      flexIsEmpty it l data = .ok items.isEmpty :=
  ⟨flexLen_spec it l (Ty.law it h) hl hc _ (Nat.lt_succ_self _), flexIsEmpty_spec it l (Ty.law it h) hl hc⟩

/-- non-vacuity: a `FlexVec<u8, u8>` holding `[7]` (slot `ff`, item `07`) and an empty one -/
example : flexLen u8 ⟨1, 1, false⟩ 1 2 ⟨0, [255, 7]⟩ = .ok 1 ∧ flexIsEmpty u8 ⟨1, 1, false⟩ ⟨0, [255, 7]⟩ = .ok false ∧
    flexIsEmpty u8 ⟨1, 1, false⟩ ⟨0, [0, 7]⟩ = .ok true := by decide
end FV.Props
