import FV.Props.Catalog
import FV.IoArb
/-! # C10 — a receiver fed arbitrary bytes -/
namespace FV.Props
open FV

/-- **C10.** For every well-formed message type, every buffer state satisfying the invariant (aligned start, window
inside the buffer — it holds initially and is re-established by every step), every byte stream and every script of read
outcomes: `recv` terminates — the model recurses on the script, at most one entry per read — with a message, a parse
error, a read error, `OutOfMemory` or `Closed`, never a fault; a guard it hands out covers bytes that validate, and
dropping it cannot trip the buffer's window assertion and re-establishes the invariant. -/
theorem C10_recv_never_faults (t : Ty) (h : t.WF) (evs : List ReadEv) (b : RBuf) (rest : Bytes) (hinv : RInv t.dict b) :
    ∃ o b' rest' evs', recv t.dict evs b rest = (o, b', rest', evs') ∧ o ≠ .fault ∧
      (∀ occ, o = .msg occ → ∃ b'', dropGuard t.dict b' = some b'' ∧ RInv t.dict b'') :=
  FV.C10_recv_never_faults t h evs b rest hinv

/-- **C10 (malformed is not "incomplete"), FlexVec offsets.** An item offset (not the `L::MAX` marker) that points inside its own slot can never
become valid by receiving more bytes; it is reported as a content error at the slot (`InvalidData`), which `recv` turns into
a parse error instead of asking for more input. (Before the repair it was `InsufficientSize`, and a receiver fed such a stream
read until its buffer was full.) -/
theorem C10_flex_bad_offset_is_content_error (d : Dict) (l : LenTy) (os fuel pos next : Nat) (data : Slice)
    (hal : data.addr % max l.align d.align = 0) (hla : data.addr % l.align = 0) (hlen : l.size ≤ data.len)
    (hr : l.readU data = .ok next) (hn : next ≠ 0) (hmax : next ≠ l.max) (hlt : next < os) :
    flexValidate d l os (fuel + 1) pos data = .err ⟨.invalidData, pos⟩ := by
  unfold flexValidate
  have hc : checkAlignMin l.align l.size data = .ok () := checkAlignMin_ok.2 ⟨hla, hlen⟩
  have : os > next := hlt
  simp [hal, hc, hr, hn, hmax, this]

example : (recv (Ty.flex u32 L8).dict [.deliver 100] ⟨0, 64, 0, []⟩ [2,0,0,0, 0,0,0,0, 0,0,0,0]).1 = .parse ⟨.invalidData, 0⟩ := by decide

/-- non-vacuity: the crafted FlexVec<u32,u8> image with a misplaced terminator (defect F18) is now a parse error -/
example : (recv (Ty.flex u32 L8).dict [.deliver 2, .deliver 100] ⟨0, 24, 0, []⟩ [9,0,0,0, 7,0,0,0, 0,0,0,0]).1 =
    .parse ⟨.badAlign, 9⟩ := by decide
end FV.Props
