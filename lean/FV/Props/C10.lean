import FV.Props.Catalog
import FV.IoArb
/-! # C10 — a receiver fed arbitrary bytes -/
namespace FV.Props
open FV

/-- **C10.** For every well-formed message type, every buffer state satisfying the invariant (aligned start, window
inside the buffer — it holds initially and is re-established by every step), every byte stream and every script of read
outcomes: `recv` terminates — the model recurses on the script, at most one entry per read — with a message, a parse
error, a read error, `OutOfMemory` or `Closed`, never a fault; a guard it hands out covers bytes that validate, and
dropping it cannot trip the buffer's window assertion and re-establishes the invariant. -/
theorem C10_recv_never_faults (t : Ty) (h : t.WF) (evs : List ReadEv) (b : RBuf) (rest : Bytes) (hinv : RInv t.dict b) :
    ∃ o b' rest' evs', recv t.dict evs b rest = (o, b', rest', evs') ∧ o ≠ .fault ∧
      (∀ occ, o = .msg occ → ∃ b'', dropGuard t.dict b' = some b'' ∧ RInv t.dict b'') :=
  FV.C10_recv_never_faults t h evs b rest hinv

/-- non-vacuity: the crafted FlexVec<u32,u8> image with a misplaced terminator (defect F18) is now a parse error -/
example : (recv (Ty.flex u32 L8).dict [.deliver 2, .deliver 100] ⟨0, 24, 0, []⟩ [9,0,0,0, 7,0,0,0, 0,0,0,0]).1 =
    .parse ⟨.badAlign, 9⟩ := by decide
end FV.Props
