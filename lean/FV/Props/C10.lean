import FV.Props.Catalog
import FV.IoArb
import FV.IoRecvBad
import FV.AddrIndep
import FV.IoAsyncArb
/-! # C10 — a receiver fed arbitrary bytes -/
namespace FV.Props
open FV

/-- **C10.** For every well-formed message type, every buffer state satisfying the invariant (aligned start, window
inside the buffer — it holds initially and is re-established by every step), every byte stream and every script of read
outcomes: `recv` terminates — the model recurses on the script, at most one entry per read — with a message, a parse
error, a read error, `OutOfMemory` or `Closed`, never a fault; a guard it hands out covers bytes that validate, and
dropping it cannot trip the buffer's window assertion and re-establishes the invariant. -/
theorem C10_recv_never_faults (t : Ty) (h : t.WF) (evs : List ReadEv) (b : RBuf) (rest : Bytes) (hinv : RInv t.dict b) :
    ∃ o b' rest' evs', recv t.dict evs b rest = (o, b', rest', evs') ∧ o ≠ .fault ∧
      (∀ occ, o = .msg occ → ∃ b'', dropGuard t.dict b' = some b'' ∧ RInv t.dict b'') :=
  FV.C10_recv_never_faults t h evs b rest hinv

/-- **C10 (malformed is not "incomplete"), FlexVec offsets.** An item offset (not the `L::MAX` marker) that points inside its own slot can never
become valid by receiving more bytes; it is reported as a content error at the slot (`InvalidData`), which `recv` turns into
a parse error instead of asking for more input. (Before the repair it was `InsufficientSize`, and a receiver fed such a stream
read until its buffer was full.) -/
theorem C10_flex_bad_offset_is_content_error (d : Dict) (l : LenTy) (os fuel pos next : Nat) (data : Slice)
    (hal : data.addr % max l.align d.align = 0) (hla : data.addr % l.align = 0) (hlen : l.size ≤ data.len)
    (hr : l.readU data = .ok next) (hn : next ≠ 0) (hmax : next ≠ l.max) (hlt : next < os) :
    flexValidate d l os (fuel + 1) pos data = .err ⟨.invalidData, pos⟩ := by
  unfold flexValidate
  have hc : checkAlignMin l.align l.size data = .ok () := checkAlignMin_ok.2 ⟨hla, hlen⟩
  have : os > next := hlt
  simp [hal, hc, hr, hn, hmax, this]

example : (recv (Ty.flex u32 L8).dict [.deliver 100] ⟨0, 64, 0, []⟩ [2,0,0,0, 0,0,0,0, 0,0,0,0]).1 = .parse ⟨.invalidData, 0⟩ := by decide

/-- non-vacuity: the crafted FlexVec<u32,u8> image with a misplaced terminator (defect F18) is now a parse error -/
example : (recv (Ty.flex u32 L8).dict [.deliver 2, .deliver 100] ⟨0, 24, 0, []⟩ [9,0,0,0, 7,0,0,0, 0,0,0,0]).1 =
    .parse ⟨.badAlign, 9⟩ := by decide

/-- **C10 (a content error is final).** For every well-formed message type: bytes rejected with an error other than
`InsufficientSize` are rejected with the same error whatever follows them, and each of their prefixes is either rejected with
that same error or reported as `InsufficientSize`. "Malformed" is therefore a property of the bytes, not of how many of them
have arrived: no chunking can turn a content error into an accepted message, into a different error, or — once the bytes are
all there — into a request for more input. -/
theorem C10_content_error_is_final (t : Ty) (h : t.WF) (a : Nat) (m : Bytes) (e : Err)
    (hv : t.dict.validate ⟨a, m⟩ = .err e) (hh : e.kind ≠ .insufficientSize) :
    (∀ sfx, t.dict.validate ⟨a, m ++ sfx⟩ = .err e) ∧
    (∀ k, k ≤ m.length → t.dict.validate ⟨a, m.take k⟩ = .err e ∨ ∃ p, t.dict.validate ⟨a, m.take k⟩ = .err ⟨.insufficientSize, p⟩) :=
  hard_final t h a m e hv hh

/-- **C10 (the stream continues with a complete but malformed message).** For every well-formed message type, every sequence
of valid messages, every byte string `bad` that validation rejects with a content error `e`, anything after it, and every
script of positive read sizes long enough to bring in `bad`: the receive loop (receive, drop the guard, repeat) yields the valid
messages in order and then the parse error `e` — it never asks for input beyond `bad`, never reports `OutOfMemory` (buffer at
least twice the longest item), never faults. -/
theorem C10_stream_goes_bad (t : Ty) (h : t.WF) (hmin : 0 < t.dict.minSize) (msgs : List Bytes)
    (hmsgs : ∀ m ∈ msgs, ∀ a, a % t.dict.align = 0 → t.dict.validate ⟨a, m⟩ = .ok () ∧ t.dict.size ⟨a, m⟩ = .ok m.length)
    (bad : Bytes) (e : Err) (hh : e.kind ≠ .insufficientSize)
    (hbad : ∀ a, a % t.dict.align = 0 → t.dict.validate ⟨a, bad⟩ = .err e)
    (tl : Bytes) (base cap : Nat) (hbase : base % t.dict.align = 0) (hfit : ∀ m ∈ msgs, 2 * m.length ≤ cap)
    (hfitb : 2 * bad.length ≤ cap)
    (evs : List ReadEv) (hevs : Covers evs ((flat msgs).length + bad.length)) :
    recvLoop t.dict (msgs.length + 1) evs ⟨base, cap, 0, []⟩ (flat msgs ++ (bad ++ tl)) = msgs.map .msg ++ [.parse e] :=
  FV.C10_stream_goes_bad t h hmin msgs hmsgs bad e hh hbad tl base cap hbase hfit hfitb evs hevs

/-- the same with the byte strings classified at *some* aligned address each (validation does not depend on the address beyond
its residue modulo the alignment, `Ty.addrIndep`) -/
theorem C10_stream_goes_bad_anywhere (t : Ty) (h : t.WF) (hmin : 0 < t.dict.minSize) (msgs : List Bytes)
    (hmsgs : ∀ m ∈ msgs, ∃ a, a % t.dict.align = 0 ∧ t.dict.validate ⟨a, m⟩ = .ok () ∧ t.dict.size ⟨a, m⟩ = .ok m.length)
    (bad : Bytes) (e : Err) (hh : e.kind ≠ .insufficientSize)
    (hbad : ∃ a, a % t.dict.align = 0 ∧ t.dict.validate ⟨a, bad⟩ = .err e)
    (tl : Bytes) (base cap : Nat) (hbase : base % t.dict.align = 0) (hfit : ∀ m ∈ msgs, 2 * m.length ≤ cap)
    (hfitb : 2 * bad.length ≤ cap)
    (evs : List ReadEv) (hevs : Covers evs ((flat msgs).length + bad.length)) :
    recvLoop t.dict (msgs.length + 1) evs ⟨base, cap, 0, []⟩ (flat msgs ++ (bad ++ tl)) = msgs.map .msg ++ [.parse e] := by
  apply FV.C10_stream_goes_bad t h hmin msgs _ bad e hh _ tl base cap hbase hfit hfitb evs hevs
  · intro m hm a' ha'
    obtain ⟨a, ha, hv, hz⟩ := hmsgs m hm
    obtain ⟨e1, e2⟩ := validate_any_addr t h m a a' ha ha'
    rw [← e1, ← e2]; exact ⟨hv, hz⟩
  · intro a' ha'
    obtain ⟨a, ha, hv⟩ := hbad
    rw [← (validate_any_addr t h bad a a' ha ha').1]; exact hv

/-- non-vacuity: `FlatVec<bool, u8>`; `[1, 5]` announces one element which is not a bool: the hypothesis on `bad` holds at every
address … -/
example : ∀ a, a % (Ty.vec .bool L8).dict.align = 0 → (Ty.vec .bool L8).dict.validate ⟨a, [1, 5]⟩ = .err ⟨.invalidData, 1⟩ := by
  intro a _
  simp [Dict.validate, checkAlignMin, Ty.dict, vecD, boolD, L8, Nat.mod_one, Slice.len, LenTy.readU, vecSlots, Dict.ssize,
    floorMul, vecElems, Slice.dropU, Slice.takeU, Slice.drop, Slice.take, leNat, LenTy.max, Res.offset]

/-- … and the loop on `[1,1] ++ [1,5] ++ [9,9]` in chunks of 1, 2, 3 bytes gives the message, then the parse error -/
example : recvLoop (Ty.vec .bool L8).dict 2 [.deliver 1, .deliver 2, .deliver 3] ⟨0, 8, 0, []⟩ ([1,1] ++ ([1,5] ++ [9,9])) =
    [.msg [1,1], .parse ⟨.invalidData, 1⟩] := by decide +kernel

/-- **C10 for the async receiver.** Whatever bytes arrive, in whatever chunks, with `Poll::Pending` any number of times anywhere: the
async `recv` polled to an outcome (a message, a parse error, a read error, `OutOfMemory`, `Closed` — or the script running out) never
faults; a guard it hands out covers valid bytes, and dropping it cannot trip the window assertion and re-establishes the buffer
invariant. (Proved directly on the model of the async `recv`, not through the refinement: it also covers scripts on which the
blocking receiver would not reach an outcome.) -/
theorem C10_async_recv_never_faults (t : Ty) (h : t.WF) (evs : List AREv) (b : RBuf) (rest : Bytes) (hinv : RInv t.dict b) :
    ∃ o b' rest' evs', arecv t.dict false evs b rest = (o, b', rest', evs') ∧ o ≠ .fault ∧
      (∀ occ, o = .msg occ → ∃ b'', dropGuard t.dict b' = some b'' ∧ RInv t.dict b'') :=
  arecv_never_faults t h evs b rest hinv
end FV.Props
