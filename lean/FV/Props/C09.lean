import FV.Props.Catalog
import FV.IoSend
/-! # C09 — IO faults surface as errors (first instalment: one send) -/
namespace FV.Props
open FV

/-- **C09 (a, b) for one send.** A failing outcome (`Ok(0)` or `Err`) at any position of the script ends the call: the number
of pipe calls is at most the number of bytes accepted plus one (no retry loop); the sink has gained a — possibly empty —
proper prefix of the message and nothing else; the sender is poisoned exactly when that prefix is non-empty, so that
nothing can follow a partial message. -/
theorem C09_send_fault (msg : Bytes) (evs : List WriteEv) (sink0 : Bytes) :
    let r := writeAll msg evs 0 sink0 0
    ∃ j, j ≤ msg.length ∧ r.sink = sink0 ++ msg.take j ∧ r.used ≤ j + 1 ∧
      (r.out = .done → j = msg.length) ∧
      (r.out = .brokenPipe ∨ r.out = .err → j < msg.length ∧ (r.poisoned = true ↔ j ≠ 0)) :=
  FV.C09_send_fault msg evs sink0

example : (writeAll [1,2,3] [.fail, .accept 3] 0 [] 0).out = .err ∧ (writeAll [1,2,3] [.fail, .accept 3] 0 [] 0).used = 1 := by decide
end FV.Props
