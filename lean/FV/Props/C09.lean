import FV.Props.Catalog
import FV.IoSendSeq
import FV.IoRecvRetry
import FV.IoArb
import FV.IoKinds
import FV.IoAsyncSpec
import FV.IoAsyncSeq
/-! # C09 — IO faults surface as errors; nothing is lost or duplicated by them -/
namespace FV.Props
open FV

/-- **C09 (a, b) for one send.** A failing outcome (`Ok(0)` or `Err`) at any position of the script ends the call: the number
of pipe calls is at most the number of bytes accepted plus one (no retry loop); the sink has gained a — possibly empty —
proper prefix of the message and nothing else; the sender is poisoned exactly when that prefix is non-empty, so that
nothing can follow a partial message. -/
theorem C09_send_fault (msg : Bytes) (evs : List WriteEv) (sink0 : Bytes) :
    let r := writeAll msg evs 0 sink0 0
    ∃ j, j ≤ msg.length ∧ r.sink = sink0 ++ msg.take j ∧ r.used ≤ j + 1 ∧
      (r.out = .done → j = msg.length) ∧
      (r.out = .brokenPipe ∨ (∃ k, r.out = .err k) → j < msg.length ∧ (r.poisoned = true ↔ j ≠ 0)) :=
  FV.C09_send_fault msg evs sink0

/-- **C09 (b) for a whole session.** Whatever the script of write outcomes — accepted sizes, `Ok(0)`, errors at any position,
or the pipe never answering again — after any sequence of sends from an unpoisoned sender the sink holds: what it held, then every
message whose send completed (in order), then at most one proper prefix of a message whose send failed, and nothing after it. -/
theorem C09_session_sink_shape (ms : List Bytes) (st : SeqSt) (hp : st.poisoned = false) :
    ∃ part : Bytes, (sendSeq ms st).2.sink = st.sink ++ flat (completed ms (sendSeq ms st).1) ++ part ∧
      (part = [] ∨ ∃ m ∈ ms, ∃ j, 0 < j ∧ j < m.length ∧ part = m.take j) :=
  sendSeq_sink_shape ms st hp

/-- **C09 (c), first half.** A `recv` that ends with a read error has consumed exactly one pipe call and has kept every byte
received so far: the occupied bytes are the same (the window may only have been moved to the front of the buffer), so the
call can be retried and continues where it stopped. -/
theorem C09_read_error_keeps_bytes (d : Dict) (b b' : RBuf) (rest rest' : Bytes) (evs evs' : List ReadEv) (ev : ReadEv) (k k' : Nat)
    (h : recv d (ev :: evs) b rest = (.readErr k', b', rest', evs')) (hev : ev = .fail k)
    (hi : ∃ p, d.validate b.slice = .err ⟨.insufficientSize, p⟩) :
    b'.occ = b.occ ∧ rest' = rest ∧ evs' = evs ∧ k' = k := by
  obtain ⟨p, hp⟩ := hi
  subst hev
  unfold recv at h
  simp only [hp] at h
  simp only [ne_eq, not_true_eq_false, if_false] at h
  have hstep : readStep b (.fail k) rest = .oom ∨ ∃ b1, readStep b (.fail k) rest = .err b1 k ∧ b1.occ = b.occ := by
    unfold readStep
    split
    · exact Or.inl rfl
    · right; refine ⟨_, rfl, ?_⟩; split <;> rfl
  rcases hstep with ho | ⟨b1, hb1, hocc⟩
  · rw [ho] at h; simp at h
  · rw [hb1] at h
    simp only [Prod.mk.injEq, true_and] at h
    obtain ⟨h1, h2, h3, h4⟩ := h
    exact ⟨by rw [← h2]; exact hocc, h3.symm, h4.symm, by simpa using h1.symm⟩

/-- **C09 (c).** For every well-formed message type with `MIN_SIZE > 0`, every list of messages, every buffer ≥ 2·largest message,
every script of positive read sizes **with failing reads anywhere in it**: a receiver that calls `recv` again after each
`Err(Read(_))` obtains exactly the sent messages, each once, in order, then `Closed` — a transient error loses nothing, duplicates
nothing, and never turns into a fault or `OutOfMemory`. -/
theorem C09_receiver_retries_deliver (t : Ty) (h : t.WF) (hmin : 0 < t.dict.minSize) (msgs : List Bytes)
    (hmsgs : ∀ m ∈ msgs, ∀ a, a % t.dict.align = 0 → t.dict.validate ⟨a, m⟩ = .ok () ∧ t.dict.size ⟨a, m⟩ = .ok m.length)
    (base cap : Nat) (hbase : base % t.dict.align = 0) (hcap : 0 < cap) (hfit : ∀ m ∈ msgs, 2 * m.length ≤ cap)
    (evs : List ReadEv) (hevs : CoversF evs ((flat msgs).length + 1)) :
    recvLoopRetry t.dict (msgs.length + 1) evs ⟨base, cap, 0, []⟩ (flat msgs) = msgs.map .msg ++ [.closed] := by
  apply recv_delivers_retry t.dict hmin msgs evs ⟨base, cap, 0, []⟩ (flat msgs)
  · intro m hm
    exact ⟨isMsg_of_valid t h hmin m (hmsgs m hm), hfit m hm⟩
  · exact hcap
  · exact ⟨hbase, Nat.zero_mod _, by simp⟩
  · rfl
  · simpa using hevs

/-- non-vacuity: two `u16` messages; the first read fails, the third read fails in the middle of the second message -/
example : recvLoopRetry u16.dict 3 [.fail 0, .deliver 1, .deliver 3, .fail 1, .deliver 9, .fail 7, .deliver 9] ⟨0, 4, 0, []⟩ [1,0,2,0] =
    [.msg [1,0], .msg [2,0], .closed] := by decide +kernel

example : (writeAll [1,2,3] [.fail 1, .accept 3] 0 [] 0).out = .err 1 ∧ (writeAll [1,2,3] [.fail 1, .accept 3] 0 [] 0).used = 1 := by decide

/-- **C09, "fail with any `io::ErrorKind`" (send side).** The error a send returns is the error of the *first* failing write call of
that send — every earlier call accepted at least one byte, exactly one more pipe call was made than there were successful ones, and the
script continues right behind the failing call: no retry, no swallowed error, whatever its kind. -/
theorem C09_send_error_is_first_failure (msg : Bytes) (evs : List WriteEv) (sink0 : Bytes) (k : Nat)
    (h : (writeAll msg evs 0 sink0 0).out = .err k) :
    ∃ pre, evs = pre ++ .fail k :: (writeAll msg evs 0 sink0 0).evs ∧ (∀ e ∈ pre, ∃ n, e = .accept n ∧ 0 < n) ∧
      (writeAll msg evs 0 sink0 0).used = pre.length + 1 := by
  obtain ⟨pre, h1, h2, h3⟩ := writeAll_err_is_first_failure msg evs 0 sink0 0 k h
  exact ⟨pre, h1, h2, by omega⟩

/-- **C09, kind-blindness of the blocking sender.** Renaming the error kinds in the script of pipe outcomes renames the kind of the
returned error and changes nothing else: the same bytes reach the sink, the same number of calls is made, the sender is poisoned in
exactly the same cases. (A sender that treats one kind specially — `Interrupted` as "nothing happened", say — violates this.) -/
theorem C09_send_kind_blind (f : Nat → Nat) (msg : Bytes) (evs : List WriteEv) (sink0 : Bytes) :
    let r := writeAll msg evs 0 sink0 0
    let r' := writeAll msg (evs.map (WriteEv.mapKind f)) 0 sink0 0
    r'.out = r.out.mapKind f ∧ r'.sink = r.sink ∧ r'.poisoned = r.poisoned ∧ r'.used = r.used ∧
      r'.evs = r.evs.map (WriteEv.mapKind f) := by
  simp only [writeAll_kind_blind, SendRes.mapKind, and_self]

/-- **C09, kind-blindness of `WriteAll::poll`** (the async sender; `poll_write` and `poll_flush` errors alike). -/
theorem C09_async_poll_kind_blind (f : Nat → Nat) (msg : Bytes) (evs : List AEv) (st : AState) :
    apoll msg (evs.map (AEv.mapKind f)) st =
      ((apoll msg evs st).1.mapKind f, (apoll msg evs st).2.1, (apoll msg evs st).2.2.map (AEv.mapKind f)) :=
  apoll_kind_blind f msg evs st

/-- **C09, "fail with any `io::ErrorKind`" (receive side).** A read error returned by `recv` is the error of the failing read call:
every earlier read of this `recv` delivered bytes, and the script continues right behind the failing call. -/
theorem C09_recv_error_is_pipes_error (d : Dict) (evs : List ReadEv) (b : RBuf) (rest : Bytes) (k : Nat) (b' : RBuf) (rest' : Bytes)
    (evs' : List ReadEv) (h : recv d evs b rest = (.readErr k, b', rest', evs')) :
    ∃ pre, evs = pre ++ .fail k :: evs' ∧ ∀ e ∈ pre, ∃ c, e = .deliver c :=
  recv_err_is_pipes_error d evs b rest k b' rest' evs' h

/-- **C09, kind-blindness of the blocking receiver.** The window, the bytes still in the pipe, the number of reads and the outcome
of `recv` do not depend on the kinds the failing reads carry. -/
theorem C09_recv_kind_blind (f : Nat → Nat) (d : Dict) (evs : List ReadEv) (b : RBuf) (rest : Bytes) :
    recv d (evs.map (ReadEv.mapKind f)) b rest = mapRecv f (recv d evs b rest) :=
  recv_kind_blind f d evs b rest

/-- non-vacuity: a partial write, then `Interrupted` (kind 1): the send fails with that error, the sender is poisoned -/
example : (writeAll [1,2,3] [.accept 2, .fail 1, .accept 3] 0 [] 0).out = .err 1 ∧
    (writeAll [1,2,3] [.accept 2, .fail 1, .accept 3] 0 [] 0).poisoned = true ∧
    (writeAll [1,2,3] [.accept 2, .fail 1, .accept 3] 0 [] 0).sink = [1,2] := by decide

/-- **C09, no failing outcome is swallowed and none is invented (whole session).** Over any sequence of sends from an unpoisoned
sender and any script of write outcomes: the part of the script the session consumed holds exactly as many failing outcomes
(`Ok(0)`, errors of any kind) as sends reported an error, plus at most one for a send that never returned because the script ran
out. A sender that retries a failed write silently, or reports an error the pipe never produced, violates this. -/
theorem C09_session_faults_surface (ms : List Bytes) (st : SeqSt) (hp : st.poisoned = false) :
    ∃ consumed, st.evs = consumed ++ (sendSeq ms st).2.evs ∧
      faults consumed ≤ countFailed (sendSeq ms st).1 ∧ countFailed (sendSeq ms st).1 ≤ faults consumed + 1 :=
  sendSeq_faults_surface ms st hp

/-- non-vacuity: three messages; an error before the first byte of the second (not poisoned, the third is sent), then `Ok(0)` -/
example : (sendSeq [[1,2], [3,4], [5]] ⟨[], false, [.accept 2, .fail 3, .accept 9, .zero]⟩).1 = [.ok, .failed, .ok] ∧
    (sendSeq [[1,2], [3,4], [5]] ⟨[], false, [.accept 2, .fail 3, .accept 9, .zero]⟩).2.sink = [1,2,5] := by decide

/-- **C09 (a, b) for one async send.** `WriteAll` polled to completion across any pattern of `Pending`, from an unpoisoned sender: the
sink has gained a prefix of the message and nothing else; `Ready(Ok(()))` — and equally a `poll_flush` that failed after the last byte
— mean the whole message is in the sink and the sender is not poisoned; `Ok(0)` or a write error of any kind mean a *proper* prefix,
and the sender is poisoned exactly when that prefix is non-empty, so nothing can follow a partial message; the run never ends in
`Pending`. (`arun_eq_brun` carries the invariant of the suspension-free loop over to the polled future.) -/
theorem C09_async_send_fault (msg : Bytes) (evs : List AEv) (sink0 : Bytes) :
    ∃ j, j ≤ msg.length ∧ (arun msg evs ⟨0, sink0, false⟩).2.1.sink = sink0 ++ msg.take j ∧
      ((arun msg evs ⟨0, sink0, false⟩).1 = .done → j = msg.length ∧ (arun msg evs ⟨0, sink0, false⟩).2.1.poisoned = false) ∧
      ((∃ k, (arun msg evs ⟨0, sink0, false⟩).1 = .flushErr k) → j = msg.length ∧ (arun msg evs ⟨0, sink0, false⟩).2.1.poisoned = false) ∧
      ((arun msg evs ⟨0, sink0, false⟩).1 = .brokenPipe ∨ (∃ k, (arun msg evs ⟨0, sink0, false⟩).1 = .err k) →
        j < msg.length ∧ ((arun msg evs ⟨0, sink0, false⟩).2.1.poisoned = true ↔ j ≠ 0)) ∧
      (arun msg evs ⟨0, sink0, false⟩).1 ≠ .pending :=
  arun_send_fault msg evs sink0

/-- **C09 (b) for a whole async session.** From an unpoisoned async sender, after any script of `poll_write` / `poll_flush` outcomes —
`Pending` anywhere, accepted sizes, `Ok(0)`, errors of any kind, or the pipe never answering again — and any sequence of sends: the
sink holds what it held, then every message that went out whole (completed sends, and sends whose flush failed after the last byte),
in order, then a possibly empty prefix of *one* further message, and nothing after it. -/
theorem C09_async_session_sink_shape (ms : List Bytes) (st : ASeqSt) (hp : st.poisoned = false) :
    ∃ part : Bytes, (asendSeq ms st).2.sink = st.sink ++ flat (whole ms (asendSeq ms st).1) ++ part ∧
      (part = [] ∨ ∃ m ∈ ms, ∃ j, 0 < j ∧ j ≤ m.length ∧ part = m.take j) :=
  asendSeq_sink_shape ms st hp
end FV.Props
