import FV.Props.Catalog
import FV.IoSendSeq
import FV.IoRecvRetry
import FV.IoArb
/-! # C09 — IO faults surface as errors; nothing is lost or duplicated by them -/
namespace FV.Props
open FV

/-- **C09 (a, b) for one send.** A failing outcome (`Ok(0)` or `Err`) at any position of the script ends the call: the number
of pipe calls is at most the number of bytes accepted plus one (no retry loop); the sink has gained a — possibly empty —
proper prefix of the message and nothing else; the sender is poisoned exactly when that prefix is non-empty, so that
nothing can follow a partial message. -/
theorem C09_send_fault (msg : Bytes) (evs : List WriteEv) (sink0 : Bytes) :
    let r := writeAll msg evs 0 sink0 0
    ∃ j, j ≤ msg.length ∧ r.sink = sink0 ++ msg.take j ∧ r.used ≤ j + 1 ∧
      (r.out = .done → j = msg.length) ∧
      (r.out = .brokenPipe ∨ r.out = .err → j < msg.length ∧ (r.poisoned = true ↔ j ≠ 0)) :=
  FV.C09_send_fault msg evs sink0

/-- **C09 (b) for a whole session.** Whatever the script of write outcomes — accepted sizes, `Ok(0)`, errors at any position,
or the pipe never answering again — after any sequence of sends from an unpoisoned sender the sink holds: what it held, then every
message whose send completed (in order), then at most one proper prefix of a message whose send failed, and nothing after it. -/
theorem C09_session_sink_shape (ms : List Bytes) (st : SeqSt) (hp : st.poisoned = false) :
    ∃ part : Bytes, (sendSeq ms st).2.sink = st.sink ++ flat (completed ms (sendSeq ms st).1) ++ part ∧
      (part = [] ∨ ∃ m ∈ ms, ∃ j, 0 < j ∧ j < m.length ∧ part = m.take j) :=
  sendSeq_sink_shape ms st hp

/-- **C09 (c), first half.** A `recv` that ends with a read error has consumed exactly one pipe call and has kept every byte
received so far: the occupied bytes are the same (the window may only have been moved to the front of the buffer), so the
call can be retried and continues where it stopped. -/
theorem C09_read_error_keeps_bytes (d : Dict) (b b' : RBuf) (rest rest' : Bytes) (evs evs' : List ReadEv) (ev : ReadEv)
    (h : recv d (ev :: evs) b rest = (.readErr, b', rest', evs')) (hev : ev = .fail)
    (hi : ∃ p, d.validate b.slice = .err ⟨.insufficientSize, p⟩) :
    b'.occ = b.occ ∧ rest' = rest ∧ evs' = evs := by
  obtain ⟨p, hp⟩ := hi
  subst hev
  unfold recv at h
  simp only [hp] at h
  simp only [ne_eq, not_true_eq_false, if_false] at h
  have hstep : readStep b .fail rest = .oom ∨ ∃ b1, readStep b .fail rest = .err b1 ∧ b1.occ = b.occ := by
    unfold readStep
    split
    · exact Or.inl rfl
    · right; refine ⟨_, rfl, ?_⟩; split <;> rfl
  rcases hstep with ho | ⟨b1, hb1, hocc⟩
  · rw [ho] at h; simp at h
  · rw [hb1] at h
    simp only [Prod.mk.injEq, true_and] at h
    obtain ⟨h2, h3, h4⟩ := h
    exact ⟨by rw [← h2]; exact hocc, h3.symm, h4.symm⟩

/-- **C09 (c).** For every well-formed message type with `MIN_SIZE > 0`, every list of messages, every buffer ≥ 2·largest message,
every script of positive read sizes **with failing reads anywhere in it**: a receiver that calls `recv` again after each
`Err(Read(_))` obtains exactly the sent messages, each once, in order, then `Closed` — a transient error loses nothing, duplicates
nothing, and never turns into a fault or `OutOfMemory`. -/
theorem C09_receiver_retries_deliver (t : Ty) (h : t.WF) (hmin : 0 < t.dict.minSize) (msgs : List Bytes)
    (hmsgs : ∀ m ∈ msgs, ∀ a, a % t.dict.align = 0 → t.dict.validate ⟨a, m⟩ = .ok () ∧ t.dict.size ⟨a, m⟩ = .ok m.length)
    (base cap : Nat) (hbase : base % t.dict.align = 0) (hcap : 0 < cap) (hfit : ∀ m ∈ msgs, 2 * m.length ≤ cap)
    (evs : List ReadEv) (hevs : CoversF evs ((flat msgs).length + 1)) :
    recvLoopRetry t.dict (msgs.length + 1) evs ⟨base, cap, 0, []⟩ (flat msgs) = msgs.map .msg ++ [.closed] := by
  apply recv_delivers_retry t.dict hmin msgs evs ⟨base, cap, 0, []⟩ (flat msgs)
  · intro m hm
    exact ⟨isMsg_of_valid t h hmin m (hmsgs m hm), hfit m hm⟩
  · exact hcap
  · exact ⟨hbase, Nat.zero_mod _, by simp⟩
  · rfl
  · simpa using hevs

/-- non-vacuity: two `u16` messages; the first read fails, the third read fails in the middle of the second message -/
example : recvLoopRetry u16.dict 3 [.fail, .deliver 1, .deliver 3, .fail, .deliver 9, .fail, .deliver 9] ⟨0, 4, 0, []⟩ [1,0,2,0] =
    [.msg [1,0], .msg [2,0], .closed] := by decide +kernel

example : (writeAll [1,2,3] [.fail, .accept 3] 0 [] 0).out = .err ∧ (writeAll [1,2,3] [.fail, .accept 3] 0 [] 0).used = 1 := by decide
end FV.Props
