import FV.Props.Catalog
import FV.Ops
/-! # C13 — a rejected container operation leaves the container as it was (FlatVec / FlatString part) -/
namespace FV.Props
open FV

theorem bind_ret {α} {r : Res α} {c : OpRet} {f : α → Bytes} {o : OpOut}
    (h : (r.bind fun b => Res.ok ⟨c, f b⟩) = .ok o) : o.ret = c := by
  cases r with
  | ok a => simp only [Res.bind_ok, Res.ok.injEq] at h; rw [← h]
  | err e => simp at h
  | fault f => simp at h

/-- **C13 (FlatVec / FlatString).** Whenever `push`, `push_slice`, `push(char)` or `push_str` is refused (`Err` / `full`),
not a single byte of the container has changed — so every observable (length, items, `size()`, validity) is as before and
later operations behave as if the call had never happened. -/
theorem C13_vec_refused_unchanged (g : VecGeo) (bs : Bytes) (len : Nat) (op : Op) (o : OpOut)
    (hop : (∃ x, op = .push x) ∨ (∃ xs, op = .pushSlice xs) ∨ (∃ xs, op = .pushBytes xs))
    (h : vecOp g bs len op = .ok o) (hr : o.ret = .full) : o.bytes = bs := by
  rcases hop with ⟨x, rfl⟩ | ⟨xs, rfl⟩ | ⟨xs, rfl⟩
  · simp only [vecOp] at h
    split at h
    · cases h; rfl
    · have := bind_ret (f := fun b => b) h; rw [hr] at this; cases this
  · simp only [vecOp] at h
    split at h
    · cases h; rfl
    · split at h
      · have := bind_ret (f := fun b => b) h; rw [hr] at this; cases this
      · have := bind_ret (f := fun b => b) h; rw [hr] at this; cases this
  · simp only [vecOp] at h
    split at h
    · cases h; rfl
    · cases h1 : writeAt bs (g.dOff + len) xs with
      | ok b1 =>
        rw [h1, Res.bind_ok] at h
        have := bind_ret (f := fun b => b) h; rw [hr] at this; cases this
      | err e => rw [h1] at h; simp at h
      | fault f => rw [h1] at h; simp at h

/-- non-vacuity: a full `FlatVec<u16,u16>` refuses the push and is unchanged -/
example : vecOp ⟨L16, 2, 2, 2⟩ [2,0, 1,0, 2,0, 9] 2 (.push [3,0]) = .ok ⟨.full, [2,0, 1,0, 2,0, 9]⟩ := by decide
end FV.Props
