import FV.Props.Catalog
import FV.Ops
import FV.Props.C12
/-! # C13 — a rejected container operation leaves the container as it was

FlatVec / FlatString: a refused `push` / `push_slice` / `push_str` changes no byte (`C13_vec_refused_unchanged`).
FlexVec: a refused `push` — for whatever reason — leaves exactly the same sequence of items, slot for slot and image for image
(`C13_flex_push_refused_unchanged`); bytes may differ only behind the last item, where no accessor looks. Since every later
operation acts on the chain (`C12_truncate`, `C12_pop`, `C12_push`), later operations behave as if the call had not happened. -/
namespace FV.Props
open FV

theorem bind_ret {α} {r : Res α} {c : OpRet} {f : α → Bytes} {o : OpOut}
    (h : (r.bind fun b => Res.ok ⟨c, f b⟩) = .ok o) : o.ret = c := by
  cases r with
  | ok a => simp only [Res.bind_ok, Res.ok.injEq] at h; rw [← h]
  | err e => simp at h
  | fault f => simp at h

/-- **C13 (FlatVec / FlatString).** Whenever `push`, `push_slice`, `push(char)` or `push_str` is refused (`Err` / `full`),
not a single byte of the container has changed — so every observable (length, items, `size()`, validity) is as before and
later operations behave as if the call had never happened. -/
theorem C13_vec_refused_unchanged (g : VecGeo) (bs : Bytes) (len : Nat) (op : Op) (o : OpOut)
    (hop : (∃ x, op = .push x) ∨ (∃ xs, op = .pushSlice xs) ∨ (∃ xs, op = .pushBytes xs))
    (h : vecOp g bs len op = .ok o) (hr : o.ret = .full) : o.bytes = bs := by
  rcases hop with ⟨x, rfl⟩ | ⟨xs, rfl⟩ | ⟨xs, rfl⟩
  · simp only [vecOp] at h
    split at h
    · cases h; rfl
    · have := bind_ret (f := fun b => b) h; rw [hr] at this; cases this
  · simp only [vecOp] at h
    split at h
    · cases h; rfl
    · split at h
      · have := bind_ret (f := fun b => b) h; rw [hr] at this; cases this
      · have := bind_ret (f := fun b => b) h; rw [hr] at this; cases this
  · simp only [vecOp] at h
    split at h
    · cases h; rfl
    · cases h1 : writeAt bs (g.dOff + len) xs with
      | ok b1 =>
        rw [h1, Res.bind_ok] at h
        have := bind_ret (f := fun b => b) h; rw [hr] at this; cases this
      | err e => rw [h1] at h; simp at h
      | fault f => rw [h1] at h; simp at h

/-- **C13 (FlexVec).** Whenever `FlexVec::push` returns an error — no room for a slot, no room for the item, the item's
emplacer fails (nested error), or the offset needed to seal the previous item is not representable in the length type — the
vector is the same sequence of items as before: same length, same slots, same item images; it never faults. -/
theorem C13_flex_push_refused_unchanged (it : Ty) (h : it.WF) (l : LenTy) (hl : l.Law) (i : Init) (hw : InitWT it i)
    (data : Slice) (items : List (Nat × Bytes)) (hc : Chain it.dict l (max l.size it.dict.align) 0 data items)
    (hend : data.len % max l.align it.dict.align = 0) :
    ∃ o, flexPush it l i data = .ok o ∧ o.bytes.length = data.len ∧
      (∀ e, o.res = .error e → Chain it.dict l (max l.size it.dict.align) 0 ⟨data.addr, o.bytes⟩ items) := by
  obtain ⟨o, h1, h2, _, h4⟩ := C12_push it h l hl i hw data items hc hend
  exact ⟨o, h1, h2, h4⟩

/-- **C13 (FlexVec, `size()`).** A refused `push` — whichever way it is refused, and whatever the item's emplacer wrote into the
spare room before it failed — leaves `size()` exactly as it was, for every item type, length type and state. -/
theorem C13_flex_push_refused_size (it : Ty) (h : it.WF) (l : LenTy) (hl : l.Law) (i : Init) (hw : InitWT it i)
    (data : Slice) (items : List (Nat × Bytes)) (hc : Chain it.dict l (max l.size it.dict.align) 0 data items)
    (hend : data.len % max l.align it.dict.align = 0) (o : EO) (ho : flexPush it l i data = .ok o) (e : Err)
    (hres : o.res = .error e) (f : Nat) (hf : data.len < f) :
    flexSize it.dict l (max l.size it.dict.align) (max l.align it.dict.align) f 0 ⟨data.addr, o.bytes⟩ =
      flexSize it.dict l (max l.size it.dict.align) (max l.align it.dict.align) f 0 data :=
  flexPush_refused_size it l (Ty.law it h) (Ty.frameLaw it h) hl i (emplaceSpec_of_wt it h i hw) data items hc hend o ho e hres f hf

/-- non-vacuity: a 3-byte item does not fit behind the one item of this 8-byte `FlexVec<FlatVec<u8,u8>, u8>`: refused, unchanged -/
example : flexPush (.vec u8 L8) L8 (.vecArr [[1],[2],[3],[4],[5],[6]]) ⟨0, [255, 2, 7, 8, 9, 9, 9, 9]⟩ =
    .ok ⟨[255, 2, 7, 8, 9, 0, 9, 9], .error ⟨.insufficientSize, 5⟩⟩ := by decide +kernel

/-- non-vacuity: a full `FlatVec<u16,u16>` refuses the push and is unchanged -/
example : vecOp ⟨L16, 2, 2, 2⟩ [2,0, 1,0, 2,0, 9] 2 (.push [3,0]) = .ok ⟨.full, [2,0, 1,0, 2,0, 9]⟩ := by decide

theorem bind_ret2 {α β} {r : Res α} {c : OpRet} {g : α → Res β} {f : β → Bytes} {o : OpOut}
    (h : (r.bind fun a => (g a).bind fun b => Res.ok ⟨c, f b⟩) = .ok o) : o.ret = c := by
  cases r with
  | ok a => rw [Res.bind_ok] at h; exact bind_ret h
  | err e => simp at h
  | fault f => simp at h

/-- **C13 (FlatVec / FlatString), every operation.** Whatever the operation — `push`, `pop`, `push_slice`, `extend_from_iter`,
`truncate`, `clear`, `remove`, `swap_remove`, `resize`, an indexed write, `push_str` — if it reports a refusal (`Err` / `full`,
`None` from `pop`, or the out-of-range panic of an indexed operation), not a single byte of the container has changed. -/
theorem C13_vec_any_refusal_unchanged (g : VecGeo) (bs : Bytes) (len : Nat) (op : Op) (o : OpOut)
    (h : vecOp g bs len op = .ok o) (hr : o.ret = .full ∨ o.ret = .none ∨ o.ret = .panic) : o.bytes = bs := by
  have no {c : OpRet} (hc : o.ret = c) (h1 : c ≠ .full) (h2 : c ≠ .none) (h3 : c ≠ .panic) : False := by
    rcases hr with hr | hr | hr <;> rw [hc] at hr
    · exact h1 hr
    · exact h2 hr
    · exact h3 hr
  cases op <;> simp only [vecOp] at h
  case push x =>
    split at h
    · cases h; rfl
    · exact (no (bind_ret (f := fun b => b) h) (by simp) (by simp) (by simp)).elim
  case pop =>
    split at h
    · cases h; rfl
    · exact (no (bind_ret (f := fun b => b) h) (by simp) (by simp) (by simp)).elim
  case pushSlice xs =>
    split at h
    · cases h; rfl
    · split at h <;> exact (no (bind_ret (f := fun b => b) h) (by simp) (by simp) (by simp)).elim
  case pushBytes xs =>
    split at h
    · cases h; rfl
    · exact (no (bind_ret2 (f := fun b => b) h) (by simp) (by simp) (by simp)).elim
  case extend xs =>
    split at h
    · cases h; rfl
    · exact (no (bind_ret (f := fun b => b) h) (by simp) (by simp) (by simp)).elim
  case trunc n =>
    split at h
    · cases h; rfl
    · exact (no (bind_ret (f := fun b => b) h) (by simp) (by simp) (by simp)).elim
  case clear =>
    split at h
    · cases h; rfl
    · exact (no (bind_ret (f := fun b => b) h) (by simp) (by simp) (by simp)).elim
  case remove i =>
    split at h
    · exact (no (bind_ret2 (f := fun b => b) h) (by simp) (by simp) (by simp)).elim
    · cases h; rfl
  case swapRm i =>
    split at h
    · exact (no (bind_ret2 (f := fun b => b) h) (by simp) (by simp) (by simp)).elim
    · cases h; rfl
  case resize n x =>
    split at h
    · split at h
      · cases h; rfl
      · exact (no (bind_ret (f := fun b => b) h) (by simp) (by simp) (by simp)).elim
    · split at h
      · exact (no (bind_ret (f := fun b => b) h) (by simp) (by simp) (by simp)).elim
      · cases h; rfl
  case set i x =>
    split at h
    · exact (no (bind_ret (f := fun b => b) h) (by simp) (by simp) (by simp)).elim
    · cases h; rfl
  all_goals cases h

/-- **C13 (FlexVec, `pop` on an empty vector).** `Err(EmptyError)` leaves every byte as it was. -/
theorem C13_flex_pop_empty_unchanged (it : Ty) (l : LenTy) (data : Slice) (b : Bytes) (h : flexPop it l data = .ok (b, false)) :
    b = data.bytes := by
  unfold flexPop at h
  cases hs : flexSlots it l (data.len + 1) 0 data with
  | ok slots =>
    rw [hs, Res.bind_ok] at h
    split at h
    · cases h; rfl
    · cases ht : flexTruncate it l (slots.length - 1) data with
      | ok b' => rw [ht, Res.bind_ok] at h; cases h
      | err e => rw [ht] at h; simp at h
      | fault f => rw [ht] at h; simp at h
  | err e => rw [hs] at h; simp at h
  | fault f => rw [hs] at h; simp at h

/-- non-vacuity: `pop` on an empty `FlatVec<u16,u16>`, `remove(5)` on one of two elements -/
example : vecOp ⟨L16, 2, 2, 2⟩ [0,0, 1,0, 2,0] 0 .pop = .ok ⟨.none, [0,0, 1,0, 2,0]⟩ := by decide
example : vecOp ⟨L16, 2, 2, 2⟩ [2,0, 1,0, 2,0] 2 (.remove 5) = .ok ⟨.panic, [2,0, 1,0, 2,0]⟩ := by decide
end FV.Props
namespace FV.Props
open FV
def refusal : OpRet → Bool
  | .full | .none | .panic | .empty | .noitem | .novariant => true
  | _ => false

theorem vecOp_refusal_unchanged (g : VecGeo) (bs : Bytes) (len : Nat) (op : Op) (o : OpOut)
    (h : vecOp g bs len op = .ok o) (hr : refusal o.ret = true) : o.bytes = bs := by
  have no {c : OpRet} (hc : o.ret = c) (h1 : refusal c = false) : False := by
    rw [hc, h1] at hr; cases hr
  cases op <;> simp only [vecOp] at h
  case push x =>
    split at h
    · cases h; rfl
    · exact (no (bind_ret (f := fun b => b) h) rfl).elim
  case pop =>
    split at h
    · cases h; rfl
    · exact (no (bind_ret (f := fun b => b) h) rfl).elim
  case pushSlice xs =>
    split at h
    · cases h; rfl
    · split at h <;> exact (no (bind_ret (f := fun b => b) h) rfl).elim
  case pushBytes xs =>
    split at h
    · cases h; rfl
    · exact (no (bind_ret2 (f := fun b => b) h) rfl).elim
  case extend xs =>
    split at h
    · cases h; rfl
    · exact (no (bind_ret (f := fun b => b) h) rfl).elim
  case trunc n =>
    split at h
    · cases h; rfl
    · exact (no (bind_ret (f := fun b => b) h) rfl).elim
  case clear =>
    split at h
    · cases h; rfl
    · exact (no (bind_ret (f := fun b => b) h) rfl).elim
  case remove i =>
    split at h
    · exact (no (bind_ret2 (f := fun b => b) h) rfl).elim
    · cases h; rfl
  case swapRm i =>
    split at h
    · exact (no (bind_ret2 (f := fun b => b) h) rfl).elim
    · cases h; rfl
  case resize n x =>
    split at h
    · split at h
      · cases h; rfl
      · exact (no (bind_ret (f := fun b => b) h) rfl).elim
    · split at h
      · exact (no (bind_ret (f := fun b => b) h) rfl).elim
      · cases h; rfl
  case set i x =>
    split at h
    · exact (no (bind_ret (f := fun b => b) h) rfl).elim
    · cases h; rfl
  all_goals cases h
theorem reassemble (bs : Bytes) (off len : Nat) : bs.take off ++ (bs.drop off).take len ++ bs.drop (off + len) = bs := by
  rw [List.append_assoc]
  have : (bs.drop off).take len ++ bs.drop (off + len) = bs.drop off := by
    rw [← List.drop_drop]; exact List.take_append_drop len (bs.drop off)
  rw [this]; exact List.take_append_drop off bs

theorem refusal_retOfRes (x : Except Err Unit) : refusal (retOfRes x) = false := by
  cases x with
  | ok u => cases u; rfl
  | error e => rfl

theorem vec_dispatch (r : Res VecGeo) (rl : Res Nat) (bs : Bytes) (op : Op) (o : OpOut)
    (h : (r.bind fun g => rl.bind fun len => vecOp g bs len op) = .ok o) (hr : refusal o.ret = true) : o.bytes = bs := by
  cases r with
  | ok g =>
    rw [Res.bind_ok] at h
    cases rl with
    | ok len => rw [Res.bind_ok] at h; exact vecOp_refusal_unchanged g bs len op o h hr
    | err e => simp at h
    | fault f => simp at h
  | err e => simp at h
  | fault f => simp at h

theorem ret_of_bind {α} {r : Res α} {c : α → OpRet} {f : α → Bytes} {o : OpOut}
    (h : (r.bind fun a => Res.ok ⟨c a, f a⟩) = .ok o) : ∃ a, r = .ok a ∧ o.ret = c a ∧ o.bytes = f a := by
  cases r with
  | ok a => simp only [Res.bind_ok, Res.ok.injEq] at h; exact ⟨a, rfl, by rw [← h], by rw [← h]⟩
  | err e => simp at h
  | fault f => simp at h

theorem setFieldAt_ret (ds : List Dict) (base i : Nat) (x bs : Bytes) (o : OpOut) (h : setFieldAt ds base i x bs = .ok o) :
    refusal o.ret = false := by
  unfold setFieldAt at h
  split at h
  · split at h
    · rw [bind_ret (f := fun b => b) h]; rfl
    · cases h
  · cases h

/-- **C13, every operation on every value.** Whatever operation is applied to whatever value — a vector or string operation, a
FlexVec `pop`, a write through a variant's fields, an operation on the `i`-th item of a FlexVec, nested to any depth — if it is
refused without an error value (`full`, `None`, the out-of-range panic, `EmptyError`, no such item, not that variant), every byte
of the value is as before. (Refusals that carry an `Error` — `push` / `assign_in_place` — are the `flex_push` theorems above and C18.) -/
theorem C13_any_refusal_unchanged (op : Op) : ∀ (t : Ty) (s : Slice) (o : OpOut), applyOp op t s = .ok o → refusal o.ret = true →
    o.bytes = s.bytes := by
  induction op with
  | item i op ih =>
    intro t s o h hr
    cases t <;> simp only [applyOp] at h <;> try (cases h; done)
    case flex it l =>
      cases hrange : flexItemRange l (max l.size it.dict.align) (floorMul s.len (max l.align it.dict.align) + 1) i 0
          (s.take (floorMul s.len (max l.align it.dict.align))) with
      | ok r =>
        rw [hrange, Res.bind_ok] at h
        cases r with
        | none => cases h; rfl
        | some p =>
          obtain ⟨off, len⟩ := p
          simp only at h
          cases hin : applyOp op it ⟨s.addr + off, (s.bytes.drop off).take len⟩ with
          | ok o' =>
            rw [hin, Res.bind_ok] at h
            cases h
            have := ih it _ o' hin hr
            simp only at this ⊢
            rw [this]; exact reassemble s.bytes off len
          | err e => rw [hin] at h; simp at h
          | fault f => rw [hin] at h; simp at h
      | err e => rw [hrange] at h; simp at h
      | fault f => rw [hrange] at h; simp at h
    case vec et l => exact vec_dispatch _ _ _ _ _ h hr
    case str l => exact vec_dispatch _ _ _ _ _ h hr
  | last op ih =>
    intro t s o h hr
    cases t <;> simp only [applyOp] at h <;> try (cases h; done)
    case ustruct fs lastT =>
      split at h
      · cases h
      · cases hin : applyOp op lastT ⟨s.addr + ceilMul (foldSize (dictL fs) 0) lastT.dict.align,
            (s.bytes.take (floorMul s.len (alignL (dictL fs ++ [lastT.dict])))).drop (ceilMul (foldSize (dictL fs) 0) lastT.dict.align)⟩ with
        | ok o' =>
          rw [hin, Res.bind_ok] at h
          cases h
          have := ih lastT _ o' hin hr
          simp only at this ⊢
          rw [this]
          -- take lfo ++ drop lfo (take n) ++ drop n = bytes, as lfo ≤ n
          rename_i hle
          have hle' : ceilMul (foldSize (dictL fs) 0) lastT.dict.align ≤ floorMul s.len (alignL (dictL fs ++ [lastT.dict])) := by omega
          have h1 : s.bytes.take (ceilMul (foldSize (dictL fs) 0) lastT.dict.align) =
              (s.bytes.take (floorMul s.len (alignL (dictL fs ++ [lastT.dict])))).take (ceilMul (foldSize (dictL fs) 0) lastT.dict.align) := by
            rw [List.take_take, Nat.min_eq_left hle']
          rw [h1, List.take_append_drop, List.take_append_drop]
        | err e => rw [hin] at h; simp at h
        | fault f => rw [hin] at h; simp at h
    case uenum tag vs =>
      cases ht : tag.readU s with
      | ok tg =>
        rw [ht, Res.bind_ok] at h
        split at h
        · cases h; rfl
        · rename_i lt _
          split at h
          · cases h; rfl
          · split at h
            · cases h
            · split at h
              · cases h
              · rename_i _ hle
                generalize hn : floorMul (s.len - ceilMul tag.size (max tag.align (alignLL (dictLL vs)))) (max tag.align (alignLL (dictLL vs))) = n at *
                generalize hd : ceilMul tag.size (max tag.align (alignLL (dictLL vs))) = dOff at *
                generalize hp : lastPos ((dictLL vs).getD tg []) 0 = lpos at *
                cases hin : applyOp op lt ⟨s.addr + dOff + lpos, ((s.bytes.drop dOff).take n).drop lpos⟩ with
                | ok o' =>
                  rw [hin, Res.bind_ok] at h
                  cases h
                  have := ih lt _ o' hin hr
                  simp only at this ⊢
                  rw [this]
                  have hle' : lpos ≤ n := by omega
                  -- take (dOff+lpos) ++ drop lpos (take n (drop dOff)) ++ drop (dOff+n) = bytes
                  have e1 : ((s.bytes.drop dOff).take n).drop lpos = ((s.bytes.drop (dOff + lpos)).take (n - lpos)) := by
                    rw [List.drop_take, List.drop_drop]
                  rw [e1]
                  have e2 : s.bytes.drop (dOff + n) = (s.bytes.drop (dOff + lpos)).drop (n - lpos) := by
                    rw [List.drop_drop]; congr 1; omega
                  rw [e2, List.append_assoc, List.take_append_drop, List.take_append_drop]
                | err e => rw [hin] at h; simp at h
                | fault f => rw [hin] at h; simp at h
      | err e => rw [ht] at h; simp at h
      | fault f => rw [ht] at h; simp at h
    case vec et l => exact vec_dispatch _ _ _ _ _ h hr
    case str l => exact vec_dispatch _ _ _ _ _ h hr
  | assign i =>
    intro t s o h hr
    simp only [applyOp] at h
    obtain ⟨a, _, hret, _⟩ := ret_of_bind h
    rw [hret, refusal_retOfRes] at hr; cases hr
  | setField v i x =>
    intro t s o h hr
    cases t <;> simp only [applyOp] at h <;> try (cases h; done)
    case ustruct fs last => rw [setFieldAt_ret _ _ _ _ _ _ h] at hr; cases hr
    case uenum tag vs =>
      cases ht : tag.readU s with
      | ok tg =>
        rw [ht, Res.bind_ok] at h
        split at h
        · cases h; rfl
        · rw [setFieldAt_ret _ _ _ _ _ _ h] at hr; cases hr
      | err e => rw [ht] at h; simp at h
      | fault f => rw [ht] at h; simp at h
    case vec et l => exact vec_dispatch _ _ _ _ _ h hr
    case str l => exact vec_dispatch _ _ _ _ _ h hr
  | fpush i =>
    intro t s o h hr
    cases t <;> simp only [applyOp] at h <;> try (cases h; done)
    case flex it l =>
      obtain ⟨a, _, hret, _⟩ := ret_of_bind h
      rw [hret, refusal_retOfRes] at hr; cases hr
    case vec et l => exact vec_dispatch _ _ _ _ _ h hr
    case str l => exact vec_dispatch _ _ _ _ _ h hr
  | fpop =>
    intro t s o h hr
    cases t <;> simp only [applyOp] at h <;> try (cases h; done)
    case flex it l =>
      obtain ⟨⟨b, r⟩, hp, hret, hb⟩ := ret_of_bind (c := fun (p : Bytes × Bool) => if p.2 then OpRet.ok else OpRet.empty)
        (f := fun (p : Bytes × Bool) => p.1 ++ s.bytes.drop (floorMul s.len (max l.align it.dict.align))) h
      cases r with
      | true => rw [hret] at hr; cases hr
      | false =>
        have := C13_flex_pop_empty_unchanged it l _ b hp
        rw [hb, this]; exact List.take_append_drop _ _
    case vec et l => exact vec_dispatch _ _ _ _ _ h hr
    case str l => exact vec_dispatch _ _ _ _ _ h hr
  | ftrunc n =>
    intro t s o h hr
    cases t <;> simp only [applyOp] at h <;> try (cases h; done)
    case flex it l => rw [bind_ret (f := fun b => b ++ s.bytes.drop (floorMul s.len (max l.align it.dict.align))) h] at hr; cases hr
    case vec et l => exact vec_dispatch _ _ _ _ _ h hr
    case str l => exact vec_dispatch _ _ _ _ _ h hr
  | fclear =>
    intro t s o h hr
    cases t <;> simp only [applyOp] at h <;> try (cases h; done)
    case flex it l => rw [bind_ret (f := fun b => b ++ s.bytes.drop (floorMul s.len (max l.align it.dict.align))) h] at hr; cases hr
    case vec et l => exact vec_dispatch _ _ _ _ _ h hr
    case str l => exact vec_dispatch _ _ _ _ _ h hr
  | _ =>
    intro t s o h hr
    cases t <;> simp only [applyOp] at h <;> first | (cases h; done) | exact vec_dispatch _ _ _ _ _ h hr

/-- non-vacuity: `pop` on the second (empty) item of a FlexVec of vectors is `None` and changes nothing -/
example : applyOp (.item 1 .pop) (.flex (.vec u8 L8) L8) ⟨0, [3, 1, 7, 255, 0, 9]⟩ = .ok ⟨.none, [3, 1, 7, 255, 0, 9]⟩ := by decide +kernel
end FV.Props
