import FV.Props.Catalog
import FV.Ops
import FV.Props.C12
/-! # C13 — a rejected container operation leaves the container as it was

FlatVec / FlatString: a refused `push` / `push_slice` / `push_str` changes no byte (`C13_vec_refused_unchanged`).
FlexVec: a refused `push` — for whatever reason — leaves exactly the same sequence of items, slot for slot and image for image
(`C13_flex_push_refused_unchanged`); bytes may differ only behind the last item, where no accessor looks. Since every later
operation acts on the chain (`C12_truncate`, `C12_pop`, `C12_push`), later operations behave as if the call had not happened. -/
namespace FV.Props
open FV

theorem bind_ret {α} {r : Res α} {c : OpRet} {f : α → Bytes} {o : OpOut}
    (h : (r.bind fun b => Res.ok ⟨c, f b⟩) = .ok o) : o.ret = c := by
  cases r with
  | ok a => simp only [Res.bind_ok, Res.ok.injEq] at h; rw [← h]
  | err e => simp at h
  | fault f => simp at h

/-- **C13 (FlatVec / FlatString).** Whenever `push`, `push_slice`, `push(char)` or `push_str` is refused (`Err` / `full`),
not a single byte of the container has changed — so every observable (length, items, `size()`, validity) is as before and
later operations behave as if the call had never happened. -/
theorem C13_vec_refused_unchanged (g : VecGeo) (bs : Bytes) (len : Nat) (op : Op) (o : OpOut)
    (hop : (∃ x, op = .push x) ∨ (∃ xs, op = .pushSlice xs) ∨ (∃ xs, op = .pushBytes xs))
    (h : vecOp g bs len op = .ok o) (hr : o.ret = .full) : o.bytes = bs := by
  rcases hop with ⟨x, rfl⟩ | ⟨xs, rfl⟩ | ⟨xs, rfl⟩
  · simp only [vecOp] at h
    split at h
    · cases h; rfl
    · have := bind_ret (f := fun b => b) h; rw [hr] at this; cases this
  · simp only [vecOp] at h
    split at h
    · cases h; rfl
    · split at h
      · have := bind_ret (f := fun b => b) h; rw [hr] at this; cases this
      · have := bind_ret (f := fun b => b) h; rw [hr] at this; cases this
  · simp only [vecOp] at h
    split at h
    · cases h; rfl
    · cases h1 : writeAt bs (g.dOff + len) xs with
      | ok b1 =>
        rw [h1, Res.bind_ok] at h
        have := bind_ret (f := fun b => b) h; rw [hr] at this; cases this
      | err e => rw [h1] at h; simp at h
      | fault f => rw [h1] at h; simp at h

/-- **C13 (FlexVec).** Whenever `FlexVec::push` returns an error — no room for a slot, no room for the item, the item's
emplacer fails (nested error), or the offset needed to seal the previous item is not representable in the length type — the
vector is the same sequence of items as before: same length, same slots, same item images; it never faults. -/
theorem C13_flex_push_refused_unchanged (it : Ty) (h : it.WF) (l : LenTy) (hl : l.Law) (i : Init) (hw : InitWT it i)
    (data : Slice) (items : List (Nat × Bytes)) (hc : Chain it.dict l (max l.size it.dict.align) 0 data items)
    (hend : data.len % max l.align it.dict.align = 0) :
    ∃ o, flexPush it l i data = .ok o ∧ o.bytes.length = data.len ∧
      (∀ e, o.res = .error e → Chain it.dict l (max l.size it.dict.align) 0 ⟨data.addr, o.bytes⟩ items) := by
  obtain ⟨o, h1, h2, _, h4⟩ := C12_push it h l hl i hw data items hc hend
  exact ⟨o, h1, h2, h4⟩

/-- **C13 (FlexVec, `size()`).** A refused `push` — whichever way it is refused, and whatever the item's emplacer wrote into the
spare room before it failed — leaves `size()` exactly as it was, for every item type, length type and state. -/
theorem C13_flex_push_refused_size (it : Ty) (h : it.WF) (l : LenTy) (hl : l.Law) (i : Init) (hw : InitWT it i)
    (data : Slice) (items : List (Nat × Bytes)) (hc : Chain it.dict l (max l.size it.dict.align) 0 data items)
    (hend : data.len % max l.align it.dict.align = 0) (o : EO) (ho : flexPush it l i data = .ok o) (e : Err)
    (hres : o.res = .error e) (f : Nat) (hf : data.len < f) :
    flexSize it.dict l (max l.size it.dict.align) (max l.align it.dict.align) f 0 ⟨data.addr, o.bytes⟩ =
      flexSize it.dict l (max l.size it.dict.align) (max l.align it.dict.align) f 0 data :=
  flexPush_refused_size it l (Ty.law it h) (Ty.frameLaw it h) hl i (emplaceSpec_of_wt it h i hw) data items hc hend o ho e hres f hf

/-- non-vacuity: a 3-byte item does not fit behind the one item of this 8-byte `FlexVec<FlatVec<u8,u8>, u8>`: refused, unchanged -/
example : flexPush (.vec u8 L8) L8 (.vecArr [[1],[2],[3],[4],[5],[6]]) ⟨0, [255, 2, 7, 8, 9, 9, 9, 9]⟩ =
    .ok ⟨[255, 2, 7, 8, 9, 0, 9, 9], .error ⟨.insufficientSize, 5⟩⟩ := by decide +kernel

/-- non-vacuity: a full `FlatVec<u16,u16>` refuses the push and is unchanged -/
example : vecOp ⟨L16, 2, 2, 2⟩ [2,0, 1,0, 2,0, 9] 2 (.push [3,0]) = .ok ⟨.full, [2,0, 1,0, 2,0, 9]⟩ := by decide
end FV.Props
