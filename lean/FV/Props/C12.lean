import FV.Props.Catalog
import FV.Ops
import FV.FlexChain
import FV.EmplaceAll
import FV.EmplaceFlexContent
/-! # C12 — FlexVec behaves as a sequence of independently sized items under every history

`Chain d l os 0 data items` says that the bytes `data` of a FlexVec (the view, floored to the alignment) are exactly the
sequence `items`: one entry per item, giving the offset of its slot and the item's image (its first `size()` bytes). A slice
validates as a FlexVec iff it is such a chain (`C12_valid_iff_sequence`). Every operation maps chains to chains and acts on the
list as the corresponding sequence operation (`C12_truncate`, `C12_pop`, `C12_push`), hence so does every finite history
(`C12_history`). The content of the appended item is the one the initialiser specifies (`C12_pushed_item_content`); when a push
is accepted (`C12_push_accepts_iff`) and what an in-place edit of one item does to the sequence (`C12_item_edit`; its byte frame
is `C14_item_edit_frame`) are in `Props/C12Push.lean`; the harness compares every step of generated histories, nested edits
included, with an abstract `Vec` of item contents. -/
namespace FV.Props
open FV

/-- **valid = a sequence.** The bytes validate as `FlexVec<it, l>` exactly when they are a chain of items. -/
theorem C12_valid_iff_sequence (it : Ty) (h : it.WF) (l : LenTy) (hl : l.Law) (data : Slice) :
    flexValidate it.dict l (max l.size it.dict.align) (data.len + 1) 0 data = .ok () ↔
      ∃ items, Chain it.dict l (max l.size it.dict.align) 0 data items := by
  have hls : l.size ≤ max l.size it.dict.align := Nat.le_max_left _ _
  have hospos : 0 < max l.size it.dict.align := Nat.lt_of_lt_of_le hl.size_pow2.pos hls
  constructor
  · exact Chain.of_valid it.dict l (Ty.law it h) (Ty.frameLaw it h) hl _ _ _ _
  · intro ⟨items, hc⟩
    exact FlexOK.final it.dict l hl (Ty.law it h).align_pow2 _ hospos 0 data
      (Chain.flexOK it.dict l (Ty.law it h) (Ty.frameLaw it h) hl hc)

/-- **truncate(n) keeps exactly the first `min(n, len)` items**; `clear()` is `truncate(0)`. -/
theorem C12_truncate (it : Ty) (h : it.WF) (l : LenTy) (hl : l.Law) (n : Nat) (data : Slice) (items : List (Nat × Bytes))
    (hc : Chain it.dict l (max l.size it.dict.align) 0 data items) :
    ∃ b', flexTruncate it l n data = .ok b' ∧ b'.length = data.len ∧
      Chain it.dict l (max l.size it.dict.align) 0 ⟨data.addr, b'⟩ (items.take n) :=
  flexTruncate_spec it.dict l (Ty.law it h) (Ty.frameLaw it h) hl it n data items hc

/-- **pop removes exactly the last item** (and reports whether there was one). -/
theorem C12_pop (it : Ty) (h : it.WF) (l : LenTy) (hl : l.Law) (data : Slice) (items : List (Nat × Bytes))
    (hc : Chain it.dict l (max l.size it.dict.align) 0 data items) :
    ∃ b', flexPop it l data = .ok (b', !items.isEmpty) ∧ b'.length = data.len ∧
      Chain it.dict l (max l.size it.dict.align) 0 ⟨data.addr, b'⟩ items.dropLast :=
  flexPop_spec it.dict l (Ty.law it h) (Ty.frameLaw it h) hl it data items hc

/-- the item emplacer's contract holds for every well-typed initialiser (C15) -/
theorem emplaceSpec_of_wt (it : Ty) (h : it.WF) (i : Init) (hw : InitWT it i) : EmplaceSpec it i := by
  intro s
  by_cases hal : s.addr % it.dict.align = 0
  · by_cases hlen : s.len < it.dict.minSize
    · have hc : checkAlignMin it.dict.align it.dict.minSize s = .err ⟨.insufficientSize, 0⟩ := by
        unfold checkAlignMin; rw [if_neg (by simpa using hal), if_pos hlen]
      exact ⟨⟨s.bytes, .error ⟨.insufficientSize, 0⟩⟩, by simp only [emplace, hc], rfl, fun hh => by cases hh⟩
    · have hc : checkAlignMin it.dict.align it.dict.minSize s = .ok () := checkAlignMin_ok.2 ⟨hal, by omega⟩
      obtain ⟨o, ho, hok⟩ := emplaceU_ok i it h hw s hal (by omega)
      refine ⟨o, by simp only [emplace, hc, ho], hok.len, fun hres => ?_⟩
      exact validate_ok_iff.2 ⟨hal, by simp only [Slice.len, hok.len]; simp only [Slice.len] at hlen; omega, hok.valid hres⟩
  · have hc : checkAlignMin it.dict.align it.dict.minSize s = .err ⟨.badAlign, 0⟩ := by
      unfold checkAlignMin; rw [if_pos hal]
    exact ⟨⟨s.bytes, .error ⟨.badAlign, 0⟩⟩, by simp only [emplace, hc], rfl, fun hh => by cases hh⟩

/-- **push appends exactly one item, or changes nothing.** On `Ok` the sequence is the old one followed by one new item (all
earlier slots and images unchanged) whose image is what the item's emplacer wrote into the new slot's payload; on any `Err` the
sequence is exactly the old one. Never a fault; length kept. -/
theorem C12_push (it : Ty) (h : it.WF) (l : LenTy) (hl : l.Law) (i : Init) (hw : InitWT it i) (data : Slice)
    (items : List (Nat × Bytes)) (hc : Chain it.dict l (max l.size it.dict.align) 0 data items)
    (hend : data.len % max l.align it.dict.align = 0) :
    ∃ o, flexPush it l i data = .ok o ∧ o.bytes.length = data.len ∧
      (o.res = .ok () → ∃ p ob z,
        emplace it i ⟨data.addr + p + max l.size it.dict.align, data.bytes.drop (p + max l.size it.dict.align)⟩ = .ok ⟨ob, .ok ()⟩ ∧
        it.dict.sizeV ⟨data.addr + p + max l.size it.dict.align, ob⟩ = .ok z ∧
        Chain it.dict l (max l.size it.dict.align) 0 ⟨data.addr, o.bytes⟩ (items ++ [(p, ob.take z)])) ∧
      (∀ e, o.res = .error e → Chain it.dict l (max l.size it.dict.align) 0 ⟨data.addr, o.bytes⟩ items) :=
  flexPush_spec it l (Ty.law it h) (Ty.frameLaw it h) hl i (emplaceSpec_of_wt it h i hw) data items hc hend

/-- **the pushed item has the specified content.** The image that `push` appends (see `C12_push`) reads, on its own bytes, as
exactly the content the initialiser specifies; the images of the earlier items are untouched, so their contents are too. -/
theorem C12_pushed_item_content (it : Ty) (h : it.WF) (i : Init) (hw : InitWT it i) (payload : Slice) (ob : Bytes) (z : Nat)
    (hem : emplace it i payload = .ok ⟨ob, .ok ()⟩) (hz : it.dict.sizeV ⟨payload.addr, ob⟩ = .ok z) :
    (it.dict.walk ⟨payload.addr, ob.take z⟩).map Val.strip = specV it i := by
  unfold emplace at hem
  cases hck : checkAlignMin it.dict.align it.dict.minSize payload with
  | ok u =>
    obtain ⟨hal, hlen⟩ := checkAlignMin_ok.1 hck
    simp only [hck] at hem
    obtain ⟨o, ho, hok, hcon⟩ := emplaceU_content i it h hw payload hal hlen
    rw [hem] at ho; cases ho
    have hv := hok.valid rfl
    have hcont := hcon rfl
    have hol : ob.length = payload.len := hok.len
    obtain ⟨z', hz', hzle, _, _⟩ := (Ty.frameLaw it h).size_ok ⟨payload.addr, ob⟩ hal (by simp only [Slice.len, hol]; exact hlen) hv
    rw [hz] at hz'; cases hz'
    rw [← hcont]
    exact walk_loc it.dict (Ty.frameLaw it h) (Ty.walkLaw it h) ⟨payload.addr, ob⟩ z hal (by simp only [Slice.len, hol]; exact hlen) hv hz
      ⟨payload.addr, ob.take z⟩ rfl (by simp only [Slice.len, List.length_take] at hzle ⊢; omega)
      (by simp only [List.take_take, Nat.min_self])
  | err e => simp only [hck, Res.ok.injEq, EO.mk.injEq] at hem; cases hem.2
  | fault f => simp only [hck] at hem; cases hem

/-! ### histories -/
inductive FOp where
  | trunc (n : Nat)
  | pop
  | push (i : Init)

/-- one operation on the bytes -/
def fstep (it : Ty) (l : LenTy) (op : FOp) (data : Slice) : Res Bytes :=
  match op with
  | .trunc n => flexTruncate it l n data
  | .pop => (flexPop it l data).bind fun r => .ok r.1
  | .push i => (flexPush it l i data).bind fun o => .ok o.bytes

def frun (it : Ty) (l : LenTy) : List FOp → Slice → Res Bytes
  | [], data => .ok data.bytes
  | op :: ops, data => (fstep it l op data).bind fun b => frun it l ops ⟨data.addr, b⟩

/-- the same operation on the abstract sequence (a push either appends one item or, refused, changes nothing) -/
def AbsStep (op : FOp) (xs ys : List (Nat × Bytes)) : Prop :=
  match op with
  | .trunc n => ys = xs.take n
  | .pop => ys = xs.dropLast
  | .push _ => ys = xs ∨ ∃ x, ys = xs ++ [x]

inductive AbsRun : List FOp → List (Nat × Bytes) → List (Nat × Bytes) → Prop
  | nil (xs) : AbsRun [] xs xs
  | cons {op ops xs ys zs} : AbsStep op xs ys → AbsRun ops ys zs → AbsRun (op :: ops) xs zs

/-- **C12, every history.** From any valid FlexVec and for any finite sequence of `truncate` / `clear` / `pop` / `push` (with
well-typed initialisers), the run never faults, and the final bytes are a chain whose item list is obtained from the initial
one by the corresponding sequence operations. -/
theorem C12_history (it : Ty) (h : it.WF) (l : LenTy) (hl : l.Law) :
    ∀ (ops : List FOp), (∀ i, FOp.push i ∈ ops → InitWT it i) → ∀ (data : Slice) (items : List (Nat × Bytes)),
      Chain it.dict l (max l.size it.dict.align) 0 data items → data.len % max l.align it.dict.align = 0 →
      ∃ b' items', frun it l ops data = .ok b' ∧ b'.length = data.len ∧
        Chain it.dict l (max l.size it.dict.align) 0 ⟨data.addr, b'⟩ items' ∧ AbsRun ops items items' := by
  intro ops
  induction ops with
  | nil =>
    intro _ data items hc _
    exact ⟨data.bytes, items, rfl, rfl, hc, .nil _⟩
  | cons op ops ih =>
    intro hwt data items hc hend
    have hwt' : ∀ i, FOp.push i ∈ ops → InitWT it i := fun i hi => hwt i (by simp [hi])
    cases op with
    | trunc n =>
      obtain ⟨b1, h1, h1l, hc1⟩ := C12_truncate it h l hl n data items hc
      obtain ⟨b', items', hr, hl', hc', ha⟩ := ih hwt' ⟨data.addr, b1⟩ _ hc1 (by simp only [Slice.len, h1l]; exact hend)
      exact ⟨b', items', by simp only [frun, fstep, h1, Res.bind_ok, hr], by rw [hl']; exact h1l, hc', .cons rfl ha⟩
    | pop =>
      obtain ⟨b1, h1, h1l, hc1⟩ := C12_pop it h l hl data items hc
      obtain ⟨b', items', hr, hl', hc', ha⟩ := ih hwt' ⟨data.addr, b1⟩ _ hc1 (by simp only [Slice.len, h1l]; exact hend)
      exact ⟨b', items', by simp only [frun, fstep, h1, Res.bind_ok, hr], by rw [hl']; exact h1l, hc', .cons rfl ha⟩
    | push i =>
      obtain ⟨o, h1, h1l, hok, herr⟩ := C12_push it h l hl i (hwt i (by simp)) data items hc hend
      cases hres : o.res with
      | ok u =>
        obtain ⟨p, ob, z, _, _, hc1⟩ := hok hres
        obtain ⟨b', items', hr, hl', hc', ha⟩ := ih hwt' ⟨data.addr, o.bytes⟩ _ hc1 (by simp only [Slice.len, h1l]; exact hend)
        exact ⟨b', items', by simp only [frun, fstep, h1, Res.bind_ok, hr], by rw [hl']; exact h1l, hc',
          .cons (Or.inr ⟨_, rfl⟩) ha⟩
      | error e =>
        have hc1 := herr e hres
        obtain ⟨b', items', hr, hl', hc', ha⟩ := ih hwt' ⟨data.addr, o.bytes⟩ _ hc1 (by simp only [Slice.len, h1l]; exact hend)
        exact ⟨b', items', by simp only [frun, fstep, h1, Res.bind_ok, hr], by rw [hl']; exact h1l, hc', .cons (Or.inl rfl) ha⟩

/-- non-vacuity: `FlexVec<FlatVec<u8,u8>, u8>` with two items is a chain … -/
example : ∃ items, Chain (Ty.vec u8 L8).dict L8 1 0 ⟨0, [3, 1, 7, 255, 0, 9, 9]⟩ items ∧ items.length = 2 := by
  refine ⟨_, Chain.item (next := 3) (z := 2) (by decide) (by decide) (by decide) (by decide) (by decide) (by decide) (by decide)
    (by decide) (by decide) (Chain.last (z := 1) (by decide) (by decide) (by decide) (by decide) (by decide) (by decide) (by decide)), rfl⟩
/-- … and truncate(1) marks the first item as the last; truncate(2) changes nothing -/
example : flexTruncate (.vec u8 L8) L8 1 ⟨0, [3, 1, 7, 255, 0, 9, 9]⟩ = .ok [255, 1, 7, 255, 0, 9, 9] := by decide
example : flexTruncate (.vec u8 L8) L8 2 ⟨0, [3, 1, 7, 255, 0, 9, 9]⟩ = .ok [3, 1, 7, 255, 0, 9, 9] := by decide
end FV.Props
