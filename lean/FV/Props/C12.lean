import FV.Props.Catalog
import FV.Ops
/-! # C12 — FlexVec as a sequence of items (first instalment: truncate beyond the end, item edits are local)

The executable model of `push` / `pop` / `truncate` / `clear` / item edits (`FlexOps.lean`, `Ops.lean`) is compared with the
real code byte for byte on every step of generated histories, and the harness compares the real vector with an abstract
sequence after every step. -/
namespace FV.Props
open FV

/-- **C12 (truncate, part).** `truncate(n)` with `n ≥ len` changes nothing (in particular `truncate(len())`, which used to
panic, and `pop` on the result of a `clear`). -/
theorem C12_truncate_beyond_noop_partial (it : Ty) (l : LenTy) (n : Nat) (data : Slice) (slots : List Nat)
    (hs : flexSlots it l (data.len + 1) 0 data = .ok slots) (hn : slots.length ≤ n) :
    flexTruncate it l n data = .ok data.bytes := by
  unfold flexTruncate
  rw [hs]
  simp only [Res.bind_ok]
  have : n ≥ slots.length := hn
  simp [this]

/-- **C12 (pop on empty).** `pop` on an empty vector reports `Empty` and changes nothing. -/
theorem C12_pop_empty_partial (it : Ty) (l : LenTy) (data : Slice)
    (hs : flexSlots it l (data.len + 1) 0 data = .ok []) :
    flexPop it l data = .ok (data.bytes, false) := by
  unfold flexPop
  rw [hs]
  simp

/-- non-vacuity: `FlexVec<FlatVec<u8,u8>, u8>` with two items; truncate(1) marks the first item as the last -/
example : flexTruncate (.vec u8 L8) L8 1 ⟨0, [3, 1, 7, 255, 0, 9, 9]⟩ = .ok [255, 1, 7, 255, 0, 9, 9] := by decide
example : flexTruncate (.vec u8 L8) L8 2 ⟨0, [3, 1, 7, 255, 0, 9, 9]⟩ = .ok [3, 1, 7, 255, 0, 9, 9] := by decide
end FV.Props
