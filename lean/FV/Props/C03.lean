import FV.Props.Catalog
import FV.EmplaceVec
/-! # C03 / C15 / C18 — emplacement (first instalment: `FlatVec` filled from an iterator)

`emplaceU` is `Emplacer::emplace_unchecked`; `emplace` (= `new_in_place`) adds the alignment / minimum-size gate.
The theorems for the remaining emplacers (generated `Init` types, `FlatString`, `FlexVec`) follow the same contract
`EmpOk`; until they are proved the statements below are named `_partial`: they cover `vec::FromIterator`
(and `FromArray`, which differs only in refusing before it writes). The correspondence check compares *every*
emplacer of every catalog type with the model on every run. -/
namespace FV.Props
open FV

/-- **C03 / C15 / C18 (a), `FlatVec` part.** Filling a `FlatVec` from an iterator into any aligned buffer that holds
at least the header: never faults, keeps the buffer length, and the resulting bytes *always* validate — when all
items fitted (`Ok`) and also when they did not (`Err(InsufficientSize)`: the vector then holds the items that fitted,
which is what makes a failed `assign_in_place` leave a valid value behind). -/
theorem C03_vec_from_iterator_partial (et : Ty) (hL : Law et.dict) (sz : Nat) (hsz : et.dict.sized = some sz)
    (l : LenTy) (hl : l.Law) (xs : List Bytes) (hxs : ∀ x ∈ xs, ValidImage et.dict x) (s : Slice)
    (hal : s.addr % max l.align et.dict.align = 0) (hlen : max l.size et.dict.align ≤ s.len) :
    ∃ o, emplaceU (.vec et l) (.vecIter xs) s = .ok o ∧ o.bytes.length = s.len ∧
      (vecD et.dict l).validateU ⟨s.addr, o.bytes⟩ = .ok () ∧
      (∀ e, o.res = .error e → e.kind = .insufficientSize ∨ e.kind = .badAlign) := by
  obtain ⟨o, h1, h2, h3⟩ := emplace_vecIter et hL sz hsz l hl xs hxs s hal hlen
  exact ⟨o, h1, h2.len, h3, h2.kinds⟩

/-- non-vacuity: `FlatVec<u16, u16>` from three items into a 7-byte buffer keeps two and reports `InsufficientSize` -/
example : emplaceU (.vec u16 L16) (.vecIter [[1,0],[2,0],[3,0]]) ⟨0, [9,9,9,9,9,9,9]⟩ =
    .ok ⟨[2,0,1,0,2,0,9], .error ⟨.insufficientSize, 0⟩⟩ := by decide
end FV.Props
