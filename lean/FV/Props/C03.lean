import FV.Props.Catalog
import FV.EmplaceAll
import FV.Spec.Serialize
/-! # C03 — emplace, then read back

`emplaceU` is `Emplacer::emplace_unchecked`; `emplace` (= `new_in_place`) adds the alignment / minimum-size gate.
`InitWT t i` says the initialiser `i` is one the Rust type checker accepts for `t` (right constructor for the type,
one image per sized field, a variant index that exists) and that the byte images it carries for *sized* values are
valid values of their types; everything a `…Init`, `flat_vec!`, `FromIterator`, `FromStr` or `Empty` can express is
an `Init`.

`C03_statement` below is the whole property in the model's terms. The theorem proved here for **every** well-formed
type and well-typed initialiser is its validation clause (`C03_emplace_validates_partial`): no fault, slot length
kept, and on `Ok` the bytes validate. The other two clauses (the deep read equals the specified content; the
non-padding bytes equal the reference serialisation) are decided on every run by the correspondence check, which
compares the implementation with `Ty.walk`, `specOf` and `serialize` for every emplacer of every catalog type. -/
namespace FV.Props
open FV

/-- **C03, in full.** (Stated, not proved in full: see the module comment.) -/
def C03_statement : Prop :=
  ∀ (t : Ty) (i : Init) (s : Slice), t.WF → InitWT t i → s.addr % t.dict.align = 0 → t.dict.minSize ≤ s.len →
    ∃ o, emplaceU t i s = .ok o ∧
      (o.res = .ok () →
        t.dict.validate ⟨s.addr, o.bytes⟩ = .ok () ∧
        ((t.walk ⟨s.addr, o.bytes⟩).bind fun w => .ok (stripCaps w)) = specOf t i ∧
        (t.align1 = true → ∀ b, serialize t i = some b → o.bytes.take b.length = b))

/-- **C03, validation clause, for every type and every initialiser.** Into any aligned slot of at least `MIN_SIZE`
bytes, whatever it held before: the emplacer does not fault, keeps the slot length, and if it reports `Ok` the bytes
pass the *checked* validation of the type. -/
theorem C03_emplace_validates_partial (t : Ty) (h : t.WF) (i : Init) (hw : InitWT t i) (s : Slice)
    (hal : s.addr % t.dict.align = 0) (hlen : t.dict.minSize ≤ s.len) :
    ∃ o, emplaceU t i s = .ok o ∧ o.bytes.length = s.len ∧
      (o.res = .ok () → t.dict.validate ⟨s.addr, o.bytes⟩ = .ok ()) := by
  obtain ⟨o, ho, hok⟩ := emplaceU_ok i t h hw s hal hlen
  refine ⟨o, ho, hok.len, fun hres => ?_⟩
  exact validate_ok_iff.2 ⟨hal, by simp only [Slice.len, hok.len]; exact hlen, hok.valid hres⟩

/-- non-vacuity: a nested initialiser (`E1::C { a: 7, b: flat_vec![1, 2] }`) is well typed … -/
example : InitWT E1 (.uenum 2 [[7]] (some (.vecArr [[1], [2]]))) := by
  simp only [InitWT, E1]
  refine ⟨by decide, by decide, [u8], .vec u8 L16, rfl, ⟨by decide, ?_⟩, ?_⟩
  · intro i d v hd hv
    cases i with
    | zero =>
      simp only [dictL, List.getElem?_cons_zero, Option.some.injEq] at hd hv
      subst hd hv
      exact ⟨1, rfl, rfl, fun a _ => rfl⟩
    | succ k => simp [dictL] at hd
  · intro x hx
    simp only [List.mem_cons, List.not_mem_nil, or_false] at hx
    rcases hx with rfl | rfl <;> exact ⟨1, rfl, rfl, fun a _ => rfl⟩

/-- … and the model computes the documented image for it (tag 2, `a`, pad, length 2, the two items) -/
example : emplaceU E1 (.uenum 2 [[7]] (some (.vecArr [[1], [2]]))) ⟨0, [9,9,9,9,9,9,9,9,9,9,9,9]⟩ =
    .ok ⟨[2,9,9,9,7,9,2,0,1,2,9,9], .ok ()⟩ := by decide +kernel

/-- `FlatVec` filled from an iterator: the result validates even when not all items fitted -/
theorem C03_vec_from_iterator (et : Ty) (hL : Law et.dict) (sz : Nat) (hsz : et.dict.sized = some sz)
    (l : LenTy) (hl : l.Law) (xs : List Bytes) (hxs : ∀ x ∈ xs, ValidImage et.dict x) (s : Slice)
    (hal : s.addr % max l.align et.dict.align = 0) (hlen : max l.size et.dict.align ≤ s.len) :
    ∃ o, emplaceU (.vec et l) (.vecIter xs) s = .ok o ∧ o.bytes.length = s.len ∧
      (vecD et.dict l).validateU ⟨s.addr, o.bytes⟩ = .ok () ∧
      (∀ e, o.res = .error e → e.kind = .insufficientSize ∨ e.kind = .badAlign) := by
  obtain ⟨o, h1, h2, h3⟩ := emplace_vecIter et hL sz hsz l hl xs hxs s hal hlen
  exact ⟨o, h1, h2.len, h3, h2.kinds⟩

/-- non-vacuity: `FlatVec<u16, u16>` from three items into a 7-byte buffer keeps two and reports `InsufficientSize` -/
example : emplaceU (.vec u16 L16) (.vecIter [[1,0],[2,0],[3,0]]) ⟨0, [9,9,9,9,9,9,9]⟩ =
    .ok ⟨[2,0,1,0,2,0,9], .error ⟨.insufficientSize, 0⟩⟩ := by decide
end FV.Props
