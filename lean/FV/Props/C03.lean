import FV.Props.Catalog
import FV.EmplaceAll
import FV.EmplaceFlexContent
import FV.Spec.Serialize
import FV.EmplaceAccAll
/-! # C03 — emplace, then read back

`emplaceU` is `Emplacer::emplace_unchecked`; `emplace` (= `new_in_place`) adds the alignment / minimum-size gate.
`InitWT t i` says the initialiser `i` is one the Rust type checker accepts for `t` (right constructor for the type,
one image per sized field, a variant index that exists) and that the byte images it carries for *sized* values are
valid values of their types; everything a `…Init`, `flat_vec!`, `FromIterator`, `FromStr` or `Empty` can express is
an `Init`.

`C03_statement` below is the whole property in the model's terms: (1) the bytes validate, (2) the deep read through the
accessors (`Dict.walk`) is the content the initialiser specifies (`specV`, defined without any layout: sized values are read from
their own image), (3) for alignment-1 (portable) types the image is the reference serialisation. `C03_emplace_reads_back` proves
(1) and (2) for **every** well-formed type and well-typed initialiser. Clause (3) is decided on every run by the correspondence
check (`ser=`), with the padding-freedom theorems of C17. -/
namespace FV.Props
open FV

/-- **C03, in full.** (Clauses 1 and 2 are `C03_emplace_reads_back`; clause 3 is not proved in Lean.) -/
def C03_statement : Prop :=
  ∀ (t : Ty) (i : Init) (s : Slice), t.WF → InitWT t i → s.addr % t.dict.align = 0 → t.dict.minSize ≤ s.len →
    ∃ o, emplaceU t i s = .ok o ∧
      (o.res = .ok () →
        t.dict.validate ⟨s.addr, o.bytes⟩ = .ok () ∧
        (t.dict.walk ⟨s.addr, o.bytes⟩).map Val.strip = specV t i ∧
        (t.align1 = true → ∀ b, serialize t i = some b → o.bytes.take b.length = b))

/-- **C03, clauses 1 and 2, for every type and every initialiser.** Into any aligned slot of at least `MIN_SIZE` bytes, whatever
it held before: the emplacer does not fault, keeps the slot length, and if it reports `Ok` the bytes pass the *checked*
validation of the type **and read back as exactly the content that was specified** — at every nesting depth: sized images,
`flat_vec!` / `FromIterator` elements in order, string bytes, FlexVec items in order, struct fields, the chosen enum variant. -/
theorem C03_emplace_reads_back (t : Ty) (h : t.WF) (i : Init) (hw : InitWT t i) (s : Slice)
    (hal : s.addr % t.dict.align = 0) (hlen : t.dict.minSize ≤ s.len) :
    ∃ o, emplaceU t i s = .ok o ∧ o.bytes.length = s.len ∧
      (o.res = .ok () → t.dict.validate ⟨s.addr, o.bytes⟩ = .ok () ∧
        ∃ c, specV t i = .ok c ∧ (t.dict.walk ⟨s.addr, o.bytes⟩).map Val.strip = .ok c) := by
  obtain ⟨o, ho, hok, hc⟩ := emplaceU_content i t h hw s hal hlen
  refine ⟨o, ho, hok.len, fun hres => ⟨?_, ?_⟩⟩
  · exact validate_ok_iff.2 ⟨hal, by simp only [Slice.len, hok.len]; exact hlen, hok.valid hres⟩
  · exact spec_ok_of_content t h i s o hal hlen hok hc hres

/-- the validation clause alone (kept under its earlier name) -/
theorem C03_emplace_validates_partial (t : Ty) (h : t.WF) (i : Init) (hw : InitWT t i) (s : Slice)
    (hal : s.addr % t.dict.align = 0) (hlen : t.dict.minSize ≤ s.len) :
    ∃ o, emplaceU t i s = .ok o ∧ o.bytes.length = s.len ∧
      (o.res = .ok () → t.dict.validate ⟨s.addr, o.bytes⟩ = .ok ()) := by
  obtain ⟨o, h1, h2, h3⟩ := C03_emplace_reads_back t h i hw s hal hlen
  exact ⟨o, h1, h2, fun hres => (h3 hres).1⟩

/-- non-vacuity: a nested initialiser (`E1::C { a: 7, b: flat_vec![1, 2] }`) is well typed … -/
example : InitWT E1 (.uenum 2 [[7]] (some (.vecArr [[1], [2]]))) := by
  simp only [InitWT, E1]
  refine ⟨by decide, by decide, [u8], .vec u8 L16, rfl, ⟨by decide, ?_⟩, ?_⟩
  · intro i d v hd hv
    cases i with
    | zero =>
      simp only [dictL, List.getElem?_cons_zero, Option.some.injEq] at hd hv
      subst hd hv
      exact ⟨1, rfl, rfl, fun a _ => rfl⟩
    | succ k => simp [dictL] at hd
  · intro x hx
    simp only [List.mem_cons, List.not_mem_nil, or_false] at hx
    rcases hx with rfl | rfl <;> exact ⟨1, rfl, rfl, fun a _ => rfl⟩

/-- … and the model computes the documented image for it (tag 2, `a`, pad, length 2, the two items) -/
example : emplaceU E1 (.uenum 2 [[7]] (some (.vecArr [[1], [2]]))) ⟨0, [9,9,9,9,9,9,9,9,9,9,9,9]⟩ =
    .ok ⟨[2,9,9,9,7,9,2,0,1,2,9,9], .ok ()⟩ := by decide +kernel

/-- … which reads back as variant 2 with field `7` and the vector `[1, 2]`, exactly what the initialiser specifies -/
example : (E1.dict.walk ⟨0, [2,9,9,9,7,9,2,0,1,2,9,9]⟩).map Val.strip = .ok (.tag 2 [.raw [7], .vec 0 [.raw [1], .raw [2]]]) ∧
    specV E1 (.uenum 2 [[7]] (some (.vecArr [[1], [2]]))) = .ok (.tag 2 [.raw [7], .vec 0 [.raw [1], .raw [2]]]) := ⟨rfl, rfl⟩

/-- `FlatVec` filled from an iterator: the result validates even when not all items fitted -/
theorem C03_vec_from_iterator (et : Ty) (hL : Law et.dict) (sz : Nat) (hsz : et.dict.sized = some sz)
    (l : LenTy) (hl : l.Law) (xs : List Bytes) (hxs : ∀ x ∈ xs, ValidImage et.dict x) (s : Slice)
    (hal : s.addr % max l.align et.dict.align = 0) (hlen : max l.size et.dict.align ≤ s.len) :
    ∃ o, emplaceU (.vec et l) (.vecIter xs) s = .ok o ∧ o.bytes.length = s.len ∧
      (vecD et.dict l).validateU ⟨s.addr, o.bytes⟩ = .ok () ∧
      (∀ e, o.res = .error e → e.kind = .insufficientSize ∨ e.kind = .badAlign) := by
  obtain ⟨o, h1, h2, h3⟩ := emplace_vecIter et hL sz hsz l hl xs hxs s hal hlen
  exact ⟨o, h1, h2.len, h3, h2.kinds⟩

/-- non-vacuity: `FlatVec<u16, u16>` from three items into a 7-byte buffer keeps two and reports `InsufficientSize` -/
example : emplaceU (.vec u16 L16) (.vecIter [[1,0],[2,0],[3,0]]) ⟨0, [9,9,9,9,9,9,9]⟩ =
    .ok ⟨[2,0,1,0,2,0,9], .error ⟨.insufficientSize, 0⟩⟩ := by decide
end FV.Props
