import FV.Props.C03
/-! # C15 — see `Props/C03.lean` for the shared emplacement contract (first instalment). -/
namespace FV.Props
open FV
theorem C15_vec_from_iterator_partial (et : Ty) (hL : Law et.dict) (sz : Nat) (hsz : et.dict.sized = some sz)
    (l : LenTy) (hl : l.Law) (xs : List Bytes) (hxs : ∀ x ∈ xs, ValidImage et.dict x) (s : Slice)
    (hal : s.addr % max l.align et.dict.align = 0) (hlen : max l.size et.dict.align ≤ s.len) :
    ∃ o, emplaceU (.vec et l) (.vecIter xs) s = .ok o ∧ o.bytes.length = s.len ∧
      (vecD et.dict l).validateU ⟨s.addr, o.bytes⟩ = .ok () ∧
      (∀ e, o.res = .error e → e.kind = .insufficientSize ∨ e.kind = .badAlign) :=
  C03_vec_from_iterator_partial et hL sz hsz l hl xs hxs s hal hlen
end FV.Props
