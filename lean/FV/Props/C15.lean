import FV.Props.C03
/-! # C15 — emplacement into any buffer either succeeds correctly or reports the right error

`emplace` is `new_in_place` / `default_in_place` / `FlatWrap::new_in_place`: the alignment and `MIN_SIZE` gate followed
by `emplace_unchecked`. The buffer `s` is arbitrary: any length from 0, any address. -/
namespace FV.Props
open FV

/-- **C15 for every type, every well-typed initialiser and every buffer.** `new_in_place` never faults (no panic, no
out-of-bounds or misaligned access) and always keeps the buffer length; a misaligned buffer is refused with
`BadAlign` and left untouched; an aligned buffer shorter than `MIN_SIZE` is refused with `InsufficientSize` and left
untouched; any other failure is `InsufficientSize`/`BadAlign` too; and `Ok` means the bytes validate (C03).
That a buffer which *can* hold the content is accepted is `C15_accepts_iff_fits` below. -/
theorem C15_emplace_total (t : Ty) (h : t.WF) (i : Init) (hw : InitWT t i) (s : Slice) :
    ∃ o, emplace t i s = .ok o ∧ o.bytes.length = s.len ∧
      (s.addr % t.dict.align ≠ 0 → o = ⟨s.bytes, .error ⟨.badAlign, 0⟩⟩) ∧
      (s.addr % t.dict.align = 0 → s.len < t.dict.minSize → o = ⟨s.bytes, .error ⟨.insufficientSize, 0⟩⟩) ∧
      (∀ e, o.res = .error e → e.kind = .insufficientSize ∨ e.kind = .badAlign) ∧
      (o.res = .ok () → t.dict.validate ⟨s.addr, o.bytes⟩ = .ok ()) := by
  by_cases hal : s.addr % t.dict.align = 0
  · by_cases hlen : s.len < t.dict.minSize
    · have hc : checkAlignMin t.dict.align t.dict.minSize s = .err ⟨.insufficientSize, 0⟩ := by
        unfold checkAlignMin; rw [if_neg (by simpa using hal), if_pos hlen]
      refine ⟨⟨s.bytes, .error ⟨.insufficientSize, 0⟩⟩, by simp only [emplace, hc], rfl, fun h => absurd hal h,
        fun _ _ => rfl, ?_, fun h => by cases h⟩
      intro e he; simp only [Except.error.injEq] at he; rw [← he]; exact Or.inl rfl
    · have hc : checkAlignMin t.dict.align t.dict.minSize s = .ok () := checkAlignMin_ok.2 ⟨hal, by omega⟩
      obtain ⟨o, ho, hok⟩ := emplaceU_ok i t h hw s hal (by omega)
      refine ⟨o, by simp only [emplace, hc, ho], hok.len, fun h => absurd hal h, fun _ h => absurd h hlen, hok.kinds, fun hres => ?_⟩
      exact validate_ok_iff.2 ⟨hal, by simp only [Slice.len, hok.len]; simp only [Slice.len] at hlen; omega, hok.valid hres⟩
  · have hc : checkAlignMin t.dict.align t.dict.minSize s = .err ⟨.badAlign, 0⟩ := by
      unfold checkAlignMin; rw [if_pos hal]
    refine ⟨⟨s.bytes, .error ⟨.badAlign, 0⟩⟩, by simp only [emplace, hc], rfl, fun _ => rfl, fun h => absurd h hal, ?_,
      fun h => by cases h⟩
    intro e he; simp only [Except.error.injEq] at he; rw [← he]; exact Or.inr rfl

/-- **C15, acceptance is exact, for every type and every emplacer.** `new_in_place` into any buffer returns `Ok` **iff** the
buffer is aligned, the content is representable (`Rep`: lengths within the length type, FlexVec slots below `L::MAX`) and the
buffer has at least as many bytes as the specified content occupies (`sizeSpec`, computed from the type and the content alone;
never below `MIN_SIZE`). In particular: the boundary length is accepted, one byte less is refused, and acceptance is monotone
in the buffer length. -/
theorem C15_accepts_iff_fits (t : Ty) (h : t.WF) (i : Init) (hw : InitWT t i) (s : Slice) :
    ∃ o, emplace t i s = .ok o ∧
      (o.res = .ok () ↔ s.addr % t.dict.align = 0 ∧ Rep t i ∧ sizeSpec t i ≤ s.len) := by
  obtain ⟨hacc, hge⟩ := emplaceU_acc i t h hw
  by_cases hal : s.addr % t.dict.align = 0
  · by_cases hlen : s.len < t.dict.minSize
    · have hc : checkAlignMin t.dict.align t.dict.minSize s = .err ⟨.insufficientSize, 0⟩ := by
        unfold checkAlignMin; rw [if_neg (by simpa using hal), if_pos hlen]
      refine ⟨⟨s.bytes, .error ⟨.insufficientSize, 0⟩⟩, by simp only [emplace, hc], ?_⟩
      constructor
      · intro hh; cases hh
      · intro hh; omega
    · have hc : checkAlignMin t.dict.align t.dict.minSize s = .ok () := checkAlignMin_ok.2 ⟨hal, by omega⟩
      obtain ⟨o, ho, _⟩ := emplaceU_ok i t h hw s hal (by omega)
      refine ⟨o, by simp only [emplace, hc, ho], ?_⟩
      rw [(hacc s hal (by omega) o ho).1]
      constructor
      · intro hh; exact ⟨hal, hh⟩
      · intro hh; exact hh.2
  · have hc : checkAlignMin t.dict.align t.dict.minSize s = .err ⟨.badAlign, 0⟩ := by
      unfold checkAlignMin; rw [if_pos hal]
    refine ⟨⟨s.bytes, .error ⟨.badAlign, 0⟩⟩, by simp only [emplace, hc], ?_⟩
    constructor
    · intro hh; cases hh
    · intro hh; exact absurd hh.1 hal

/-- non-vacuity, an unsized enum: `E1::C { a: 5, b: [1,2,3] }` occupies 12 bytes (tag 1, padding to the data offset 4, `a` 1,
padding 1, length 2, elements 3 → 11, padded to the alignment 4); 12 bytes are accepted, 11 refused -/
example : sizeSpec E1 (.uenum 2 [[5]] (some (.vecArr [[1],[2],[3]]))) = 12 := by decide
example : (emplace E1 (.uenum 2 [[5]] (some (.vecArr [[1],[2],[3]]))) ⟨0, [9,9,9,9,9,9,9,9,9,9,9,9]⟩).bind (fun o => .ok o.res) = .ok (.ok ()) := by
  decide +kernel
example : (emplace E1 (.uenum 2 [[5]] (some (.vecArr [[1],[2],[3]]))) ⟨0, [9,9,9,9,9,9,9,9,9,9,9]⟩).bind (fun o => .ok o.res) =
    .ok (.error ⟨.insufficientSize, 0⟩) := by decide +kernel

/-- **Acceptance is exact for `FlatVec`** (in terms of slots). `flat_vec![…]` / `FromArray` into an aligned buffer holding at least the header
succeeds **iff** the number of items is at most the capacity of that buffer (`min(slots, L::MAX)`): the boundary buffer
length is accepted, one element slot less is refused. -/
theorem C15_vec_accepts_iff_fits (et : Ty) (hL : Law et.dict) (sz : Nat) (hsz : et.dict.sized = some sz) (l : LenTy)
    (hl : l.Law) (xs : List Bytes) (hxs : ∀ x ∈ xs, ValidImage et.dict x) (s : Slice)
    (hal : s.addr % (Ty.vec et l).dict.align = 0) (hlen : (Ty.vec et l).dict.minSize ≤ s.len) :
    ∃ o, emplaceU (.vec et l) (.vecArr xs) s = .ok o ∧
      (o.res = .ok () ↔ xs.length ≤ min (if sz = 0 then usizeMax else
        floorMul (s.len - max l.size et.dict.align) (max l.align et.dict.align) / sz) l.max) := by
  obtain ⟨o, h1, _, h3⟩ := emplace_vecArr_iff et hL sz hsz l hl xs hxs s hal hlen
  exact ⟨o, h1, h3⟩

/-- non-vacuity at the boundary: three `u16` items need 8 bytes; 8 are accepted, 7 refused -/
example : (emplace (.vec u16 L16) (.vecArr [[1,0],[2,0],[3,0]]) ⟨0, [9,9,9,9,9,9,9,9]⟩).bind (fun o => .ok o.res) = .ok (.ok ()) := by decide +kernel
example : (emplace (.vec u16 L16) (.vecArr [[1,0],[2,0],[3,0]]) ⟨0, [9,9,9,9,9,9,9]⟩).bind (fun o => .ok o.res) =
    .ok (.error ⟨.insufficientSize, 0⟩) := by decide +kernel
/-- a misaligned buffer -/
example : emplace (.vec u16 L16) .vecEmpty ⟨1, [9,9,9,9]⟩ = .ok ⟨[9,9,9,9], .error ⟨.badAlign, 0⟩⟩ := by decide +kernel
end FV.Props
