import FV.Props.C03
/-! # C20 — `default_in_place` (first instalment: the empty `FlatVec`)

The correspondence check compares `default_in_place` of every catalog type that has a default with the
*documented* default written as an explicit initialiser (zero / `Default::default()` image for sized values, empty
containers, per-field defaults, the `#[default]` variant), for every buffer length and prior content. -/
namespace FV.Props
open FV

/-- **C20, `FlatVec` part.** The default emplacer of a `FlatVec` on any aligned buffer that holds the header, whatever
the buffer contained before: never faults, the result validates, reads as length 0, and has the minimal size. -/
theorem C20_vec_default_partial (et : Ty) (hL : Law et.dict) (sz : Nat) (hsz : et.dict.sized = some sz)
    (l : LenTy) (hl : l.Law) (s : Slice)
    (hal : s.addr % max l.align et.dict.align = 0) (hlen : max l.size et.dict.align ≤ s.len) :
    ∃ o, emplaceU (.vec et l) .vecEmpty s = .ok o ∧ o.res = .ok () ∧ o.bytes.length = s.len ∧
      l.readU ⟨s.addr, o.bytes⟩ = .ok 0 ∧
      (vecD et.dict l).validateU ⟨s.addr, o.bytes⟩ = .ok () ∧
      (vecD et.dict l).size ⟨s.addr, o.bytes⟩ = .ok (ceilMul (max l.size et.dict.align) (max l.align et.dict.align)) := by
  have hss : et.dict.ssize = sz := by simp [Dict.ssize, hsz]
  have hls : l.size ≤ max l.size et.dict.align := Nat.le_max_left _ _
  obtain ⟨b0, hb0, hb0l⟩ := writeAt_ok (bs := s.bytes) (x := encLenTy l 0) (off := 0)
    (by rw [encLenTy_length]; simp only [Slice.len] at hlen; omega)
  have hread := writeAt_read hb0
  simp only [List.drop_zero, encLenTy_length] at hread
  have hla : s.addr % l.align = 0 := mod_trans hal (Pow2.max_mod_left hl.align_pow2 hL.align_pow2)
  have hr : l.readU ⟨s.addr, b0⟩ = .ok 0 := by
    apply readU_of_prefix l ⟨s.addr, b0⟩ 0 (Nat.pow_pos (by decide)) hla (b0.drop l.size)
    show b0 = encLenTy l 0 ++ b0.drop l.size
    rw [← hread, List.take_append_drop]
  have hlen' : max l.size et.dict.align ≤ (⟨s.addr, b0⟩ : Slice).len := by simp only [Slice.len]; rw [hb0l]; exact hlen
  refine ⟨EO.ok b0, by simp [emplaceU, hb0], rfl, hb0l, hr, ?_, ?_⟩
  · exact vec_valid_intro et.dict sz hss l ⟨s.addr, b0⟩ 0 hlen' hr (Nat.zero_le _) (by simp [vecElems])
  · show (vecD et.dict l).size ⟨s.addr, b0⟩ = _
    simp [vecD, hr, hss]

example : emplaceU (.vec u16 L16) .vecEmpty ⟨0, [9,9,9,9,9]⟩ = .ok ⟨[0,0,9,9,9], .ok ()⟩ := by decide
end FV.Props
