import FV.Props.C03
/-! # C20 — `default_in_place` (first instalment: the empty `FlatVec`)

The correspondence check compares `default_in_place` of every catalog type that has a default with the
*documented* default written as an explicit initialiser (zero / `Default::default()` image for sized values, empty
containers, per-field defaults, the `#[default]` variant), for every buffer length and prior content. -/
namespace FV.Props
open FV

/-- **C20, `FlatVec` part.** The default emplacer of a `FlatVec` on any aligned buffer that holds the header, whatever
the buffer contained before: never faults, the result validates, reads as length 0, and has the minimal size. -/
theorem C20_vec_default_partial (et : Ty) (hL : Law et.dict) (sz : Nat) (hsz : et.dict.sized = some sz)
    (l : LenTy) (hl : l.Law) (s : Slice)
    (hal : s.addr % max l.align et.dict.align = 0) (hlen : max l.size et.dict.align ≤ s.len) :
    ∃ o, emplaceU (.vec et l) .vecEmpty s = .ok o ∧ o.res = .ok () ∧ o.bytes.length = s.len ∧
      l.readU ⟨s.addr, o.bytes⟩ = .ok 0 ∧
      (vecD et.dict l).validateU ⟨s.addr, o.bytes⟩ = .ok () ∧
      (vecD et.dict l).size ⟨s.addr, o.bytes⟩ = .ok (ceilMul (max l.size et.dict.align) (max l.align et.dict.align)) := by
  have hss : et.dict.ssize = sz := by simp [Dict.ssize, hsz]
  have hls : l.size ≤ max l.size et.dict.align := Nat.le_max_left _ _
  obtain ⟨b0, hb0, hb0l⟩ := writeAt_ok (bs := s.bytes) (x := encLenTy l 0) (off := 0)
    (by rw [encLenTy_length]; simp only [Slice.len] at hlen; omega)
  have hread := writeAt_read hb0
  simp only [List.drop_zero, encLenTy_length] at hread
  have hla : s.addr % l.align = 0 := mod_trans hal (Pow2.max_mod_left hl.align_pow2 hL.align_pow2)
  have hr : l.readU ⟨s.addr, b0⟩ = .ok 0 := by
    apply readU_of_prefix l ⟨s.addr, b0⟩ 0 (Nat.pow_pos (by decide)) hla (b0.drop l.size)
    show b0 = encLenTy l 0 ++ b0.drop l.size
    rw [← hread, List.take_append_drop]
  have hlen' : max l.size et.dict.align ≤ (⟨s.addr, b0⟩ : Slice).len := by simp only [Slice.len]; rw [hb0l]; exact hlen
  refine ⟨EO.ok b0, by simp [emplaceU, hb0], rfl, hb0l, hr, ?_, ?_⟩
  · exact vec_valid_intro et.dict sz hss l ⟨s.addr, b0⟩ 0 hlen' hr (Nat.zero_le _) (by simp [vecElems])
  · show (vecD et.dict l).size ⟨s.addr, b0⟩ = _
    simp [vecD, hr, hss]

example : emplaceU (.vec u16 L16) .vecEmpty ⟨0, [9,9,9,9,9]⟩ = .ok ⟨[0,0,9,9,9], .ok ()⟩ := by decide

/-- **C20, validity for every type.** Whatever initialiser the default emplacer of a type amounts to (per-field defaults,
the `#[default]` variant, empty containers, `Default::default()` images of sized values) — as long as it is well typed,
running it on any aligned slot of at least `MIN_SIZE` bytes, whatever the slot held before, never faults and, on `Ok`,
leaves bytes that validate. *Which* initialiser the generated `default_in_place` amounts to is a fact about the macro
output of each type definition; the correspondence check compares it with the documented default for every catalog type. -/
theorem C20_default_valid_partial (t : Ty) (h : t.WF) (dflt : Init) (hw : InitWT t dflt) (s : Slice)
    (hal : s.addr % t.dict.align = 0) (hlen : t.dict.minSize ≤ s.len) :
    ∃ o, emplaceU t dflt s = .ok o ∧ o.bytes.length = s.len ∧
      (o.res = .ok () → t.dict.validate ⟨s.addr, o.bytes⟩ = .ok ()) :=
  C03_emplace_validates_partial t h dflt hw s hal hlen

/-- **C20, content for every type.** The value a default initialiser produces reads as the content that initialiser specifies —
the documented default — and therefore does not depend on the address, the length or the previous contents of the buffer:
two runs into any two buffers read the same. -/
theorem C20_default_content (t : Ty) (h : t.WF) (dflt : Init) (hw : InitWT t dflt) (s s' : Slice)
    (hal : s.addr % t.dict.align = 0) (hlen : t.dict.minSize ≤ s.len)
    (hal' : s'.addr % t.dict.align = 0) (hlen' : t.dict.minSize ≤ s'.len) :
    ∃ o o', emplaceU t dflt s = .ok o ∧ emplaceU t dflt s' = .ok o' ∧
      (o.res = .ok () → (t.dict.walk ⟨s.addr, o.bytes⟩).map Val.strip = specV t dflt) ∧
      (o.res = .ok () → o'.res = .ok () →
        (t.dict.walk ⟨s.addr, o.bytes⟩).map Val.strip = (t.dict.walk ⟨s'.addr, o'.bytes⟩).map Val.strip) := by
  obtain ⟨o, ho, _, hc⟩ := emplaceU_content dflt t h hw s hal hlen
  obtain ⟨o', ho', _, hc'⟩ := emplaceU_content dflt t h hw s' hal' hlen'
  exact ⟨o, o', ho, ho', hc, fun h1 h2 => by rw [hc h1, hc' h2]⟩

/-- the empty `FlatString` and the empty `FlexVec` (of any item type): `Ok`, valid, whatever was in the buffer -/
theorem C20_str_default_partial (l : LenTy) (hl : l.Law) (s : Slice) (hal : s.addr % (Ty.str l).dict.align = 0)
    (hlen : (Ty.str l).dict.minSize ≤ s.len) :
    ∃ o, emplaceU (.str l) .strEmpty s = .ok o ∧ o.bytes.length = s.len ∧ (o.res = .ok () → (Ty.str l).dict.validateU ⟨s.addr, o.bytes⟩ = .ok ()) := by
  obtain ⟨o, h1, h2⟩ := emplace_strEmpty_spec l hl s hal hlen
  exact ⟨o, h1, h2.len, h2.valid⟩

theorem C20_flex_default_partial (it : Ty) (h : it.WF) (l : LenTy) (hl : l.Law) (s : Slice)
    (hal : s.addr % (Ty.flex it l).dict.align = 0) (hlen : (Ty.flex it l).dict.minSize ≤ s.len) :
    ∃ o, emplaceU (.flex it l) .flexEmpty s = .ok o ∧ o.bytes.length = s.len ∧
      (o.res = .ok () → (Ty.flex it l).dict.validateU ⟨s.addr, o.bytes⟩ = .ok ()) := by
  obtain ⟨o, h1, h2⟩ := emplace_flexEmpty_spec it (Ty.law it h) l hl s hal hlen
  exact ⟨o, h1, h2.len, h2.valid⟩

example : emplaceU (.str L16) .strEmpty ⟨0, [9,9,9,9,9]⟩ = .ok ⟨[0,0,9,9,9], .ok ()⟩ := by decide
example : emplaceU FlexS1 .flexEmpty ⟨0, [9,9,9,9,9,9,9,9]⟩ = .ok ⟨[0,0,9,9,9,9,9,9], .ok ()⟩ := by decide

/-- **C20, size of the default.** Whatever well-typed initialiser the default of a type amounts to: it is accepted by every
aligned buffer of at least `sizeSpec t dflt` bytes (for the empty containers that is exactly `MIN_SIZE`, see below), refused by
every shorter one, and on `Ok` the value's `size()` is `sizeSpec t dflt` — the same in every buffer, and minimal: no buffer
shorter than it can hold this state. -/
theorem C20_default_size (t : Ty) (h : t.WF) (dflt : Init) (hw : InitWT t dflt) (s : Slice)
    (hal : s.addr % t.dict.align = 0) (hlen : t.dict.minSize ≤ s.len) :
    ∃ o, emplaceU t dflt s = .ok o ∧
      (o.res = .ok () ↔ Rep t dflt ∧ sizeSpec t dflt ≤ s.len) ∧
      (o.res = .ok () → t.dict.size ⟨s.addr, o.bytes⟩ = .ok (sizeSpec t dflt)) := by
  obtain ⟨o, ho, _⟩ := emplaceU_ok dflt t h hw s hal hlen
  obtain ⟨h1, h2⟩ := (emplaceU_acc dflt t h hw).1 s hal hlen o ho
  exact ⟨o, ho, h1, h2⟩

/-- **C20, the empty containers.** The empty `FlatVec`, `FlatString` and `FlexVec` occupy exactly `MIN_SIZE` bytes and are
representable: `default_in_place` succeeds on **every** aligned buffer of at least `MIN_SIZE` bytes, with `size() = MIN_SIZE`. -/
theorem C20_empty_always_accepted (t : Ty) (h : t.WF) (dflt : Init)
    (hd : (∃ et l, t = .vec et l ∧ dflt = .vecEmpty) ∨ (∃ l, t = .str l ∧ dflt = .strEmpty) ∨ (∃ it l, t = .flex it l ∧ dflt = .flexEmpty))
    (s : Slice) (hal : s.addr % t.dict.align = 0) (hlen : t.dict.minSize ≤ s.len) :
    ∃ o, emplaceU t dflt s = .ok o ∧ o.res = .ok () ∧ t.dict.size ⟨s.addr, o.bytes⟩ = .ok t.dict.minSize := by
  have hw : InitWT t dflt := by
    rcases hd with ⟨et, l, rfl, rfl⟩ | ⟨l, rfl, rfl⟩ | ⟨it, l, rfl, rfl⟩ <;> simp only [InitWT]
  have hspec : sizeSpec t dflt = t.dict.minSize ∧ Rep t dflt := by
    rcases hd with ⟨et, l, rfl, rfl⟩ | ⟨l, rfl, rfl⟩ | ⟨it, l, rfl, rfl⟩
    · simp only [Ty.WF] at h
      have hapos := (Pow2.of_max h.2.2.align_pow2 (Ty.law et h.1).align_pow2).pos
      simp only [sizeSpec, Rep, Ty.dict, vecD, Nat.mul_zero, Nat.add_zero,
        ceilMul_of_mod hapos (dataOffset_mod l h.2.2 et.dict.align (Ty.law et h.1).align_pow2), and_self]
    · simp only [Ty.WF] at h
      simp only [sizeSpec, Rep, Ty.dict, strD, Nat.add_zero, ceilMul_of_mod h.align_pow2.pos h.size_mod, and_self]
    · simp only [sizeSpec, Rep, Ty.dict, flexD, and_self]
  obtain ⟨o, ho, hiff, hsz⟩ := C20_default_size t h dflt hw s hal hlen
  have hres : o.res = .ok () := hiff.2 ⟨hspec.2, by rw [hspec.1]; exact hlen⟩
  exact ⟨o, ho, hres, by rw [← hspec.1]; exact hsz hres⟩
end FV.Props
