import FV.Props.C17
import FV.EmplaceSerAll
import FV.Props.C16
/-! # C17 / C03 clause 3 — the emplaced image of a portable value is its reference serialisation -/
namespace FV.Props
open FV

/-- **C17 (image).** For every well-formed type all of whose parts have alignment 1 (`Ty.align1`: the `Portable` shape), every
well-typed initialiser with one image per sized field (as every generated `…Init` has), at **any address** and in any buffer of at
least `MIN_SIZE` bytes: whenever the emplacer reports `Ok`, the image starts with `serialize t i` — tag, fields, length and
elements concatenated in declaration order, each in its fixed byte order, nothing in between — and `size()` of the value is
exactly the length of that serialisation (no trailing padding either). `flex::FromIterator` included: the chain is every item
preceded by its distance to the next slot, the last by `L::MAX`. -/
theorem C17_image_is_serialisation (t : Ty) (h : t.WF) (ha : t.align1 = true) (i : Init) (hw : InitWT t i) (ht : InitTight t i)
    (s : Slice) (hlen : t.dict.minSize ≤ s.len) :
    ∃ o, emplaceU t i s = .ok o ∧
      (o.res = .ok () → ∀ b, serialize t i = some b → o.bytes.take b.length = b ∧ t.dict.size ⟨s.addr, o.bytes⟩ = .ok b.length) := by
  have hal : s.addr % t.dict.align = 0 := by rw [C17_align_one t ha]; exact Nat.mod_one _
  obtain ⟨o, ho, _⟩ := emplaceU_ok i t h hw s hal hlen
  exact ⟨o, ho, fun hres b hb => emplaceU_ser i t h ha hw ht s hal hlen o ho hres b hb⟩

/-- non-vacuity: the portable enum of `Props/C17.lean`, variant `C { n, v: [1, 2] }`, at an odd address in a dirty buffer -/
example : emplaceU (.uenum ⟨1, 1, false⟩ [[], [.prim 2 1, .bool], [.prim 4 1, .vec (.prim 2 1) ⟨2, 1, true⟩]])
    (.uenum 2 [[0xde, 0xad, 0xbe, 0xef]] (some (.vecIter [[1, 0], [2, 0]]))) ⟨3, [9,9,9,9,9,9,9,9,9,9,9,9,9]⟩ =
    .ok ⟨[2, 0xde, 0xad, 0xbe, 0xef, 0, 2, 1, 0, 2, 0, 9, 9], .ok ()⟩ := by decide +kernel
/-- non-vacuity for the FlexVec case: `FlexVec<FlatString<u8>, le::U16>` holding "ab", "c" at an odd address -/
example : emplaceU (.flex (.str ⟨1, 1, false⟩) ⟨2, 1, false⟩) (.flexIter [.strFrom [97, 98], .strFrom [99]]) ⟨1, [9,9,9,9,9,9,9,9,9,9,9]⟩ =
    .ok ⟨[5, 0, 2, 97, 98, 255, 255, 1, 99, 9, 9], .ok ()⟩ ∧
    serialize (.flex (.str ⟨1, 1, false⟩) ⟨2, 1, false⟩) (.flexIter [.strFrom [97, 98], .strFrom [99]]) =
      some [5, 0, 2, 97, 98, 255, 255, 1, 99] := ⟨by decide +kernel, by decide⟩
/-- **C17 / C16 (the length field of a container is the portable scalar).** The bytes a container writes for a length or offset `n`
are exactly the stored bytes of the unsigned portable integer of that width and byte order holding `n` (`C16_byte_order`), and the
value a container reads back from a length field is that portable integer's native value: the two models of "a number in `N`
bytes of fixed order" — the containers' `LenTy` and the scalars' `PTy` — are one. `L::MAX` is the largest value that scalar holds. -/
theorem C17_length_field_is_portable_scalar (l : LenTy) (n : Nat) :
    encLenTy l n = (⟨l.be, l.size, false⟩ : PTy).fromNative (n : Int) ∧
    (∀ (s : Slice) (v : Nat), l.readU s = .ok v → ((⟨l.be, l.size, false⟩ : PTy).toNative (s.bytes.take l.size) = (v : Int))) ∧
    ((l.max : Int) = (⟨l.be, l.size, false⟩ : PTy).hi) := by
  refine ⟨?_, ?_, ?_⟩
  · simp [encLenTy, PTy.fromNative]
  · intro s v h
    unfold LenTy.readU at h
    split at h
    · cases h
    · split at h
      · cases h
      · simp only [Res.ok.injEq] at h
        subst h
        cases hb : l.be <;> simp [PTy.toNative, beNat]
  · have hp : 0 < 256 ^ l.size := Nat.pow_pos (by omega)
    simp only [LenTy.max, PTy.hi, Bool.false_eq_true, if_false]
    omega
end FV.Props
