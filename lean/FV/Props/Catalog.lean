import FV.C01
/-! Concrete, non-trivial type definitions used by the non-vacuity examples of the property files. -/
namespace FV.Props
def L8 : LenTy := ⟨1, 1, false⟩
def L16 : LenTy := ⟨2, 2, false⟩
def u8 : Ty := .prim 1 1
def u16 : Ty := .prim 2 2
def u32 : Ty := .prim 4 4
/-- `#[flat(sized = false)] enum E1 { A, B(u8, u16), C { a: u8, b: FlatVec<u8, u16> }, D(u32) }` -/
def E1 : Ty := .uenum L8 [[], [u8, u16], [u8, .vec u8 L16], [u32]]
/-- `#[flat(sized = false)] struct S1 { a: u32, b: FlatVec<u8, u16> }` -/
def S1 : Ty := .ustruct [u32] (.vec u8 L16)
/-- `FlexVec<S1, u16>` -/
def FlexS1 : Ty := .flex S1 L16
/-- `#[flat] struct WithBool { x: u32, b: Bool }` -/
def WithBool : Ty := .sstruct [u32, .bool]

theorem E1_wf : E1.WF := by
  simp only [E1, u8, u16, u32, L8, L16, Ty.WF, wfL, wfLL, butLastL, butLastLL, Ty.isSized, sizedL]; decide
theorem S1_wf : S1.WF := by
  simp only [S1, u8, u32, L16, Ty.WF, wfL, wfLL, butLastL, butLastLL, Ty.isSized, sizedL]; decide
theorem FlexS1_wf : FlexS1.WF := by
  simp only [FlexS1, S1, u8, u32, L16, Ty.WF, wfL, wfLL, butLastL, butLastLL, Ty.isSized, sizedL]; decide
theorem WithBool_wf : WithBool.WF := by
  simp only [WithBool, u32, Ty.WF, wfL, wfLL, butLastL, butLastLL, Ty.isSized, sizedL]; decide
end FV.Props
