import FV.Props.Catalog
import FV.C05C06
import FV.WalkAll
/-! # C06 — framing contract -/
namespace FV.Props
open FV

/-- **C06 (prefixes).** Every proper prefix of a message `m` (the first `size()` bytes of a valid value) is
rejected as `InsufficientSize` — never accepted as a different value, never a content error. (On this code the
alternative the property allows, "accepted as the same content when only padding is missing", never occurs,
because lengths are floored to the alignment before anything is examined.) -/
theorem C06_prefix_insufficient (t : Ty) (h : t.WF) (s : Slice) (hv : t.dict.validate s = .ok ()) (z : Nat)
    (hz : t.dict.size s = .ok z) (k : Nat) (hk : k < z) :
    ∃ p, t.dict.validate (s.take k) = .err ⟨.insufficientSize, p⟩ :=
  FV.C06_prefix_insufficient t h s hv z hz k hk

/-- **C06 (extensions).** A message followed by arbitrary further bytes validates and has the same `size()`. -/
theorem C06_extension_same (t : Ty) (h : t.WF) (s : Slice) (hv : t.dict.validate s = .ok ()) (z : Nat)
    (hz : t.dict.size s = .ok z) (sfx : Bytes) :
    t.dict.validate ⟨s.addr, s.bytes.take z ++ sfx⟩ = .ok () ∧ t.dict.size ⟨s.addr, s.bytes.take z ++ sfx⟩ = .ok z :=
  FV.C06_extension_same t h s hv z hz sfx

/-- **C06 (extensions, content).** … and decodes to the same content as the message alone. -/
theorem C06_extension_same_content (t : Ty) (h : t.WF) (s : Slice) (hv : t.dict.validate s = .ok ()) (z : Nat)
    (hz : t.dict.size s = .ok z) (sfx : Bytes) :
    (t.dict.walk ⟨s.addr, s.bytes.take z ++ sfx⟩).map Val.strip = (t.dict.walk s).map Val.strip := by
  obtain ⟨ha, hl, hu⟩ := validate_ok_iff.1 hv
  obtain ⟨z', hz', hzle, _, _⟩ := (Ty.frameLaw t h).size_ok s ha hl hu
  have : z' = z := by simp only [Dict.sizeV] at hz'; rw [hz] at hz'; cases hz'; rfl
  subst this
  apply walk_loc t.dict (Ty.frameLaw t h) (Ty.walkLaw t h) s z' ha hl hu hz ⟨s.addr, s.bytes.take z' ++ sfx⟩ rfl
  · simp only [Slice.len, List.length_append, List.length_take] at hzle ⊢; omega
  · simp only [List.take_append_of_le_length (show z' ≤ (s.bytes.take z').length by
      simp only [List.length_take, Slice.len] at hzle ⊢; omega), List.take_take, Nat.min_self]

example : FlexS1.WF := FlexS1_wf
/-- non-vacuity: a FlexVec<S1,u16> with one item -/
example : FlexS1.dict.validate ⟨0, [255,255,0,0, 7,0,0,0, 1,0, 5, 0]⟩ = .ok () ∧
    FlexS1.dict.size ⟨0, [255,255,0,0, 7,0,0,0, 1,0, 5, 0]⟩ = .ok 12 := ⟨by decide, by decide⟩
end FV.Props
