import FV.Props.Catalog
import FV.C05C06
/-! # C05 — `size()` is the exact extent

`Dict.size s` is `from_bytes(s).size()`. Stated over *every valid image*, which contains every state reachable
by construction followed by mutations because those preserve validity (C11/C12). -/
namespace FV.Props
open FV

/-- **C05.** For every valid value: `size()` never exceeds the number of bytes the value was mapped from, is a
whole number of alignment units, and is sufficient — the first `size()` bytes validate again and have the
same `size()`. -/
theorem C05_size_exact (t : Ty) (h : t.WF) (s : Slice) (hv : t.dict.validate s = .ok ()) :
    ∃ z, t.dict.size s = .ok z ∧ z ≤ s.len ∧ z % t.dict.align = 0 ∧
      t.dict.validate (s.take z) = .ok () ∧ t.dict.size (s.take z) = .ok z :=
  FV.C05_size_exact t h s hv

/-- non-vacuity: a valid 16-byte image of `E1` (variant `C`, one element) whose extent is 12 -/
example : E1.WF ∧ E1.dict.validate ⟨0, [2,0,0,0, 1,0, 1,0, 5,0,0,0, 9,9,9,9]⟩ = .ok () ∧
    E1.dict.size ⟨0, [2,0,0,0, 1,0, 1,0, 5,0,0,0, 9,9,9,9]⟩ = .ok 12 := ⟨E1_wf, by decide, by decide⟩
end FV.Props
