import FV.Props.Catalog
import FV.C05C06
import FV.WalkAll
/-! # C05 — `size()` is the exact extent

`Dict.size s` is `from_bytes(s).size()`. Stated over *every valid image*, which contains every state reachable
by construction followed by mutations because those preserve validity (C11/C12). -/
namespace FV.Props
open FV

/-- **C05.** For every valid value: `size()` never exceeds the number of bytes the value was mapped from, is a
whole number of alignment units, and is sufficient — the first `size()` bytes validate again and have the
same `size()`. -/
theorem C05_size_exact (t : Ty) (h : t.WF) (s : Slice) (hv : t.dict.validate s = .ok ()) :
    ∃ z, t.dict.size s = .ok z ∧ z ≤ s.len ∧ z % t.dict.align = 0 ∧
      t.dict.validate (s.take z) = .ok () ∧ t.dict.size (s.take z) = .ok z :=
  FV.C05_size_exact t h s hv

/-- **C05 (content).** For every valid value the deep read through the accessors succeeds, and the value mapped from its first
`size()` bytes alone reads as the *same content* (capacities aside): nothing outside the first `size()` bytes contributes. -/
theorem C05_truncation_same_content (t : Ty) (h : t.WF) (s : Slice) (hv : t.dict.validate s = .ok ()) (z : Nat)
    (hz : t.dict.size s = .ok z) :
    (∃ v, t.dict.walk s = .ok v) ∧ (t.dict.walk (s.take z)).map Val.strip = (t.dict.walk s).map Val.strip := by
  obtain ⟨ha, hl, hu⟩ := validate_ok_iff.1 hv
  refine ⟨(Ty.walkLaw t h).total s hl hu, ?_⟩
  obtain ⟨z', hz', hzle, _, _⟩ := (Ty.frameLaw t h).size_ok s ha hl hu
  have : z' = z := by simp only [Dict.sizeV] at hz'; rw [hz] at hz'; cases hz'; rfl
  subst this
  exact walk_loc t.dict (Ty.frameLaw t h) (Ty.walkLaw t h) s z' ha hl hu hz (s.take z') rfl
    (by simp only [Slice.len_take]; omega) (by simp only [Slice.take, List.take_take, Nat.min_self])

/-- non-vacuity: a valid 16-byte image of `E1` (variant `C`, one element) whose extent is 12 -/
example : E1.WF ∧ E1.dict.validate ⟨0, [2,0,0,0, 1,0, 1,0, 5,0,0,0, 9,9,9,9]⟩ = .ok () ∧
    E1.dict.size ⟨0, [2,0,0,0, 1,0, 1,0, 5,0,0,0, 9,9,9,9]⟩ = .ok 12 := ⟨E1_wf, by decide, by decide⟩
/-- … which reads as variant 2 with fields `1` and a one-element vector (capacity 8 in the 16-byte slice, 4 in its own 12 bytes) -/
example : E1.dict.walk ⟨0, [2,0,0,0, 1,0, 1,0, 5,0,0,0, 9,9,9,9]⟩ = .ok (.tag 2 [.raw [1], .vec 8 [.raw [5]]]) ∧
    E1.dict.walk ⟨0, [2,0,0,0, 1,0, 1,0, 5,0,0,0]⟩ = .ok (.tag 2 [.raw [1], .vec 4 [.raw [5]]]) := ⟨rfl, rfl⟩
end FV.Props
