import FV.Props.Catalog
import FV.C04Layout
import FV.EmplaceEnum
/-! # C19 — content errors are reported at the byte that is wrong

The position of an error is defined by the nesting path: the leaf validators (`Bool`, enum tags, UTF-8) report a position
inside their own bytes, and every enclosing constructor adds the offset at which it placed the part — the field position
(= C offset, C04), `DATA_OFFSET + i·SIZE` for a vector element, `i·SIZE` for an array element, the slot position plus
`OFFSET_SIZE` for a FlexVec item, `DATA_OFFSET` for an enum payload. The theorems below are these composition laws for the
generic walkers and containers; the correspondence check corrupts exactly one constrained byte of valid images of every
catalog type and requires the reported position to be that byte (for strings: within the string, at or before it). -/
namespace FV.Props
open FV

def IsContent (k : EKind) : Prop := k = .invalidData ∨ k = .invalidEnumTag

/-- **Leaf: `Bool`.** A rejected `Bool` is reported at its own byte, and that byte is not 0/1. -/
theorem C19_bool (s : Slice) (e : Err) (h : boolD.validateU s = .err e) :
    e = ⟨.invalidData, 0⟩ ∧ ∃ b rest, s.bytes = b :: rest ∧ 1 < b.toNat := by
  simp only [boolD] at h
  split at h
  · cases h
  · rename_i b rest hb
    split at h
    · cases h
    · cases h; exact ⟨rfl, b, rest, hb, by omega⟩

/-- **Leaf: C-like enum / tag.** A rejected tag is reported at the first byte of the tag, and the tag is out of range. -/
theorem C19_tag (tag : LenTy) (n : Nat) (s : Slice) (e : Err) (h : (cenumD tag n).validateU s = .err e) :
    e = ⟨.invalidEnumTag, 0⟩ ∧ ∃ t, tag.readU s = .ok t ∧ n ≤ t := by
  simp only [cenumD, Res.bind_eq, Res.pure_eq] at h
  cases hr : tag.readU s with
  | ok t =>
    rw [hr, Res.bind_ok] at h
    split at h
    · cases h
    · cases h; exact ⟨rfl, t, rfl, by omega⟩
  | err e' => simp [LenTy.readU] at hr; split at hr <;> (try split at hr) <;> cases hr
  | fault f => rw [hr] at h; simp at h

/-- **Struct / variant fields.** An error reported by the field walker is the error of one field, shifted by exactly that
field's position (the positions are the C offsets by `C04_positions_eq_c`): `kind` unchanged, `pos = field position +
position inside the field`, and the field was validated on the bytes starting at that position. -/
theorem C19_fields (ds : List Dict) (hal : ∀ d ∈ ds, 0 < d.align) :
    ∀ (pos : Nat) (data : Slice) (e : Err), validateAll ds pos data = .err e →
    ∃ (i : Nat) (d : Dict) (P : Nat) (sub : Slice) (inner : Err), ds[i]? = some d ∧ (posList ds pos)[i]? = some P ∧ pos ≤ P ∧
      sub.bytes = data.bytes.drop (P - pos) ∧ sub.addr = data.addr + (P - pos) ∧
      d.validateU sub = .err inner ∧ e = ⟨inner.kind, inner.pos + P⟩ := by
  induction ds with
  | nil => intro pos data e h; simp [validateAll] at h
  | cons d ds ih =>
    intro pos data e h
    cases ds with
    | nil =>
      simp only [validateAll] at h
      cases hv : d.validateU data with
      | ok u => rw [hv] at h; simp at h
      | fault f => rw [hv] at h; simp at h
      | err inner =>
        rw [hv, Res.offset_err] at h
        cases h
        exact ⟨0, d, pos, data, inner, rfl, rfl, Nat.le_refl _, by simp, by simp, hv, rfl⟩
    | cons d' ds' =>
      simp only [validateAll] at h
      cases hv : d.validateU data with
      | err inner =>
        rw [hv, Res.offset_err] at h
        cases h
        exact ⟨0, d, pos, data, inner, rfl, rfl, Nat.le_refl _, by simp, by simp, hv, rfl⟩
      | fault f => rw [hv] at h; simp at h
      | ok u =>
        cases u
        rw [hv] at h
        simp only [Res.offset_ok] at h
        have hle : pos ≤ ceilMul (pos + d.ssize) d'.align := by
          have := le_ceilMul (x := pos + d.ssize) (hal d' (by simp)); omega
        cases hsp : data.splitAt (ceilMul (pos + d.ssize) d'.align - pos) with
        | err e' => simp [Slice.splitAt] at hsp; split at hsp <;> cases hsp
        | fault f => rw [hsp] at h; simp at h
        | ok pr =>
          obtain ⟨fst, rest⟩ := pr
          rw [hsp] at h
          simp only at h
          have hrest : rest = data.drop (ceilMul (pos + d.ssize) d'.align - pos) := by
            simp only [Slice.splitAt] at hsp; split at hsp
            · cases hsp; rfl
            · cases hsp
          obtain ⟨i, dd, P, sub, inner, h1, h2, h3, h4, h5, h6, h7⟩ :=
            ih (fun x hx => hal x (by simp [hx])) (ceilMul (pos + d.ssize) d'.align) rest e h
          refine ⟨i + 1, dd, P, sub, inner, by simpa using h1, by simpa [posList] using h2, by omega, ?_, ?_, h6, h7⟩
          · rw [h4, hrest]; simp only [Slice.drop, List.drop_drop]; congr 1; omega
          · rw [h5, hrest]; simp only [Slice.drop]; omega

/-- **Array elements.** An error inside an array is the error of one element shifted by `i · SIZE`. -/
theorem C19_array (d : Dict) (s : Slice) : ∀ (k i : Nat) (e : Err), arrLoop d s k i = .err e →
    ∃ (j : Nat) (sub : Slice) (inner : Err), i ≤ j ∧ j < i + k ∧ sub.bytes = (s.bytes.drop (j * d.ssize)).take d.ssize ∧
      d.validateU sub = .err inner ∧ e = ⟨inner.kind, inner.pos + j * d.ssize⟩ := by
  intro k
  induction k with
  | zero => intro i e h; simp [arrLoop] at h
  | succ k ih =>
    intro i e h
    simp only [arrLoop, Res.bind_eq] at h
    cases h1 : s.dropU (i * d.ssize) with
    | err e' => simp [Slice.dropU] at h1; split at h1 <;> cases h1
    | fault f => rw [h1] at h; simp at h
    | ok a =>
      rw [h1, Res.bind_ok] at h
      cases h2 : a.takeU d.ssize with
      | err e' => simp [Slice.takeU] at h2; split at h2 <;> cases h2
      | fault f => rw [h2] at h; simp at h
      | ok el =>
        rw [h2, Res.bind_ok] at h
        have ha : a = s.drop (i * d.ssize) := by simp only [Slice.dropU] at h1; split at h1 <;> cases h1; rfl
        have hel : el = a.take d.ssize := by simp only [Slice.takeU] at h2; split at h2 <;> cases h2; rfl
        cases hv : d.validateU el with
        | err inner =>
          rw [hv] at h
          simp only [Res.offset_err, Res.bind_err] at h
          cases h
          exact ⟨i, el, inner, Nat.le_refl _, by omega, by rw [hel, ha]; rfl, hv, rfl⟩
        | fault f => rw [hv] at h; simp at h
        | ok u =>
          rw [hv] at h
          simp only [Res.offset_ok, Res.bind_ok] at h
          obtain ⟨j, sub, inner, hj1, hj2, hj3, hj4, hj5⟩ := ih (i + 1) e h
          exact ⟨j, sub, inner, by omega, by omega, hj3, hj4, hj5⟩

/-- **Vector elements.** An error inside a `FlatVec` element is that element's error shifted by `DATA_OFFSET + i · SIZE`. -/
theorem C19_vec_elems (d : Dict) (dOff : Nat) (s : Slice) : ∀ (k i : Nat) (e : Err), vecElems d dOff s k i = .err e →
    ∃ (j : Nat) (sub : Slice) (inner : Err), i ≤ j ∧ j < i + k ∧ sub.bytes = (s.bytes.drop (dOff + j * d.ssize)).take d.ssize ∧
      d.validateU sub = .err inner ∧ e = ⟨inner.kind, inner.pos + (dOff + j * d.ssize)⟩ := by
  intro k
  induction k with
  | zero => intro i e h; simp [vecElems] at h
  | succ k ih =>
    intro i e h
    simp only [vecElems, Res.bind_eq] at h
    cases h1 : s.dropU (dOff + i * d.ssize) with
    | err e' => simp [Slice.dropU] at h1; split at h1 <;> cases h1
    | fault f => rw [h1] at h; simp at h
    | ok a =>
      rw [h1, Res.bind_ok] at h
      cases h2 : a.takeU d.ssize with
      | err e' => simp [Slice.takeU] at h2; split at h2 <;> cases h2
      | fault f => rw [h2] at h; simp at h
      | ok el =>
        rw [h2, Res.bind_ok] at h
        have ha : a = s.drop (dOff + i * d.ssize) := by simp only [Slice.dropU] at h1; split at h1 <;> cases h1; rfl
        have hel : el = a.take d.ssize := by simp only [Slice.takeU] at h2; split at h2 <;> cases h2; rfl
        cases hv : d.validateU el with
        | err inner =>
          rw [hv] at h
          simp only [Res.offset_err, Res.bind_err] at h
          cases h
          exact ⟨i, el, inner, Nat.le_refl _, by omega, by rw [hel, ha]; rfl, hv, rfl⟩
        | fault f => rw [hv] at h; simp at h
        | ok u =>
          rw [hv] at h
          simp only [Res.offset_ok, Res.bind_ok] at h
          obtain ⟨j, sub, inner, hj1, hj2, hj3, hj4, hj5⟩ := ih (i + 1) e h
          exact ⟨j, sub, inner, by omega, by omega, hj3, hj4, hj5⟩

/-- **Enum payload.** An error of an unsized enum is the tag's (`InvalidEnumTag` at byte 0), the room check's (`InsufficientSize`
at `DATA_OFFSET`), or the error of the variant's field list shifted by exactly `DATA_OFFSET`. -/
theorem C19_enum_payload (tag : LenTy) (vs : List (List Dict)) (s : Slice) (e : Err) (h : (uenumD tag vs).validateU s = .err e) :
    e = ⟨.invalidEnumTag, 0⟩ ∨ e = ⟨.insufficientSize, ceilMul tag.size (max tag.align (alignLL vs))⟩ ∨
      ∃ t data inner, tag.readU s = .ok t ∧ validateAll (vs.getD t []) 0 data = .err inner ∧
        data.bytes = ((s.bytes.drop (ceilMul tag.size (max tag.align (alignLL vs)))).take
          (floorMul (s.len - ceilMul tag.size (max tag.align (alignLL vs))) (max tag.align (alignLL vs)))) ∧
        e = ⟨inner.kind, inner.pos + ceilMul tag.size (max tag.align (alignLL vs))⟩ := by
  simp only [uenumD, Res.bind_eq] at h
  cases hr : tag.readU s with
  | ok t =>
    rw [hr, Res.bind_ok] at h
    split at h
    · cases hd : s.dropU (ceilMul tag.size (max tag.align (alignLL vs))) with
      | ok data0 =>
        rw [hd, Res.bind_ok] at h
        have hd0 : data0 = s.drop (ceilMul tag.size (max tag.align (alignLL vs))) := by
          simp only [Slice.dropU] at hd; split at hd <;> cases hd; rfl
        split at h
        · cases h; exact Or.inr (Or.inl rfl)
        · cases hv : validateAll (vs.getD t []) 0 (data0.take (floorMul data0.len (max tag.align (alignLL vs)))) with
          | err inner =>
            rw [hv, Res.offset_err] at h
            cases h
            refine Or.inr (Or.inr ⟨t, _, inner, rfl, hv, ?_, rfl⟩)
            rw [hd0]; simp only [Slice.take, Slice.drop, Slice.len, List.length_drop]
          | ok u => rw [hv] at h; simp at h
          | fault f => rw [hv] at h; simp at h
      | err e' => simp [Slice.dropU] at hd; split at hd <;> cases hd
      | fault f => rw [hd] at h; simp at h
    · cases h; exact Or.inl rfl
  | err e' => simp [LenTy.readU] at hr; split at hr <;> (try split at hr) <;> cases hr
  | fault f => rw [hr] at h; simp at h

/-- **FlexVec items.** An error of the chain walk is reported either at a slot (`BadAlign`, an unreadable or impossible offset:
at the slot's own position; an item that does not fit: `InsufficientSize` at the slot's payload) or is the error of one item
shifted by exactly that item's payload position — slot position + `OFFSET_SIZE`. -/
theorem C19_flex_items (d : Dict) (l : LenTy) (os : Nat) : ∀ (fuel pos : Nat) (data : Slice) (e : Err),
    flexValidate d l os fuel pos data = .err e →
    (∃ q, pos ≤ q ∧ (e.pos = q ∨ e.pos = q + os) ∧ (e.kind = .badAlign ∨ e.kind = .insufficientSize ∨ e.kind = .invalidData)) ∨
    ∃ (q : Nat) (payload : Slice) (inner : Err), pos ≤ q ∧ d.validate payload = .err inner ∧ e = ⟨inner.kind, inner.pos + (q + os)⟩ := by
  intro fuel
  induction fuel with
  | zero => intro pos data e h; simp [flexValidate] at h
  | succ f ih =>
    intro pos data e h
    unfold flexValidate at h
    split at h
    · cases h; exact Or.inl ⟨pos, Nat.le_refl _, Or.inl rfl, Or.inl rfl⟩
    · cases hc : checkAlignMin l.align l.size data with
      | err e' =>
        simp only [hc] at h; cases h
        have := checkAlignMin_err_kind hc
        unfold checkAlignMin at hc
        refine Or.inl ⟨pos, Nat.le_refl _, Or.inl ?_, ?_⟩
        · split at hc
          · cases hc; simp
          · split at hc
            · cases hc; simp
            · cases hc
        · rcases this with h1 | h1
          · exact Or.inr (Or.inl h1)
          · exact Or.inl h1
      | fault w => simp [hc] at h
      | ok u =>
        simp only [hc] at h
        cases hr : l.readU data with
        | err e' => simp [LenTy.readU] at hr; split at hr <;> (try split at hr) <;> cases hr
        | fault w => simp [hr] at h
        | ok next =>
          simp only [hr] at h
          split at h
          · cases h
          · split at h
            · cases h; exact Or.inl ⟨pos, Nat.le_refl _, Or.inl rfl, Or.inr (Or.inr rfl)⟩
            · split at h
              · cases h; exact Or.inl ⟨pos, Nat.le_refl _, Or.inr rfl, Or.inr (Or.inl rfl)⟩
              · split at h
                · -- last item
                  cases hs : data.splitAt os with
                  | ok pr =>
                    obtain ⟨fst, payload⟩ := pr
                    simp only [hs] at h
                    cases hv : d.validate payload with
                    | err inner =>
                      rw [hv, Res.offset_err] at h; cases h
                      exact Or.inr ⟨pos, payload, inner, Nat.le_refl _, hv, rfl⟩
                    | ok u => rw [hv] at h; simp at h
                    | fault w => rw [hv] at h; simp at h
                  | err e' => simp [Slice.splitAt] at hs; split at hs <;> cases hs
                  | fault w => simp [hs] at h
                · cases hs : data.splitAt next with
                  | ok pr =>
                    obtain ⟨item, rest⟩ := pr
                    simp only [hs] at h
                    cases hs2 : item.splitAt os with
                    | ok pr2 =>
                      obtain ⟨fst, payload⟩ := pr2
                      simp only [hs2] at h
                      cases hv : d.validate payload with
                      | err inner =>
                        rw [hv, Res.offset_err] at h; cases h
                        exact Or.inr ⟨pos, payload, inner, Nat.le_refl _, hv, rfl⟩
                      | ok u =>
                        rw [hv] at h
                        simp only [Res.offset_ok] at h
                        rcases ih (pos + next) rest e h with ⟨q, hq, hp, hk⟩ | ⟨q, pl, inner, hq, hv', he⟩
                        · exact Or.inl ⟨q, by omega, hp, hk⟩
                        · exact Or.inr ⟨q, pl, inner, by omega, hv', he⟩
                      | fault w => rw [hv] at h; simp at h
                    | err e' => simp [Slice.splitAt] at hs2; split at hs2 <;> cases hs2
                    | fault w => simp [hs2] at h
                  | err e' => simp [Slice.splitAt] at hs; split at hs <;> cases hs
                  | fault w => simp [hs] at h

/-- non-vacuity: a bad `Bool` in the second element of `[WithBool; 2]` (byte 12) and in a vector element -/
example : (Ty.arr WithBool 2).dict.validate ⟨0, [1,0,0,0, 1,0,0,0,  2,0,0,0, 7,0,0,0]⟩ = .err ⟨.invalidData, 12⟩ := by decide
example : (Ty.vec .bool L16).dict.validate ⟨0, [3,0, 1, 1, 2, 1]⟩ = .err ⟨.invalidData, 4⟩ := by decide
end FV.Props
