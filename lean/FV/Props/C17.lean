import FV.Spec.Serialize
import FV.C04Layout
import FV.Props.Catalog
/-! # C17 — portable composites: alignment 1, no padding, image = reference serialisation

`Ty.align1` is the shape of the types for which the code has a `Portable` impl (every field, the length type **and the
tag** portable: all of alignment 1). That the *code's* set of `Portable` impls is no larger is a compile-time fact checked by
negative programs (definitions that must be refused by rustc). The correspondence check compares the image of every
portable catalog type, at every address offset, with `serialize` — a definition with no layout arithmetic in it.
`C17_image_is_serialisation_partial` (in `Props/C17Ser.lean`, it needs the emplacer proofs) proves that equality for every portable
type and initialiser except `flex::FromIterator`. -/
namespace FV.Props
open FV

theorem alignL_one : ∀ ds : List Dict, (∀ d ∈ ds, d.align = 1) → alignL ds = 1
  | [], _ => rfl
  | d :: ds, h => by
    simp only [alignL, h d (by simp), alignL_one ds (fun x hx => h x (by simp [hx]))]; rfl
theorem alignLL_one : ∀ vs : List (List Dict), (∀ v ∈ vs, ∀ d ∈ v, d.align = 1) → alignLL vs = 1
  | [], _ => rfl
  | v :: vs, h => by
    simp only [alignLL, alignL_one v (h v (by simp)), alignLL_one vs (fun x hx => h x (by simp [hx]))]; rfl

mutual
/-- **C17 (alignment).** Every type built from alignment-1 parts — portable scalars, `Bool`, `u8`, and structs, enums (with
an alignment-1 tag), arrays, `FlatVec` / `FlatString` / `FlexVec` with alignment-1 length types — has alignment 1, so it can be
mapped at any address. -/
theorem C17_align_one : ∀ t : Ty, t.align1 = true → t.dict.align = 1
  | .prim s a, h => by simpa [Ty.align1, Ty.dict, primD] using h
  | .bool, _ => rfl
  | .arr t n, h => by simp only [Ty.align1] at h; simpa [Ty.dict, arrD] using C17_align_one t h
  | .sstruct fs, h => by
    simp only [Ty.align1] at h
    simp only [Ty.dict, sstructD]; exact alignL_one _ (align_oneL fs h)
  | .cenum tag n, h => by simpa [Ty.align1, Ty.dict, cenumD] using h
  | .senum tag vs, h => by
    simp only [Ty.align1, Bool.and_eq_true, beq_iff_eq] at h
    simp only [Ty.dict, senumD, h.1, alignLL_one _ (align_oneLL vs h.2)]; rfl
  | .vec t l, h => by
    simp only [Ty.align1, Bool.and_eq_true, beq_iff_eq] at h
    simp only [Ty.dict, vecD, h.2, C17_align_one t h.1]; rfl
  | .str l, h => by simpa [Ty.align1, Ty.dict, strD] using h
  | .flex t l, h => by
    simp only [Ty.align1, Bool.and_eq_true, beq_iff_eq] at h
    simp only [Ty.dict, flexD, h.2, C17_align_one t h.1]; rfl
  | .ustruct fs last, h => by
    simp only [Ty.align1, Bool.and_eq_true] at h
    simp only [Ty.dict, ustructD]
    apply alignL_one
    intro d hd
    simp only [List.mem_append, List.mem_singleton] at hd
    rcases hd with hd | rfl
    · exact align_oneL fs h.1 d hd
    · exact C17_align_one last h.2
  | .uenum tag vs, h => by
    simp only [Ty.align1, Bool.and_eq_true, beq_iff_eq] at h
    simp only [Ty.dict, uenumD, h.1, alignLL_one _ (align_oneLL vs h.2)]; rfl
theorem align_oneL : ∀ fs : List Ty, align1L fs = true → ∀ d ∈ dictL fs, d.align = 1
  | [], _ => by intro d hd; simp [dictL] at hd
  | t :: ts, h => by
    simp only [align1L, Bool.and_eq_true] at h
    intro d hd
    simp only [dictL, List.mem_cons] at hd
    rcases hd with rfl | hm
    · exact C17_align_one t h.1
    · exact align_oneL ts h.2 d hm
theorem align_oneLL : ∀ vs : List (List Ty), align1LL vs = true → ∀ v ∈ dictLL vs, ∀ d ∈ v, d.align = 1
  | [], _ => by intro v hv; simp [dictLL] at hv
  | v0 :: vs, h => by
    simp only [align1LL, Bool.and_eq_true] at h
    intro v hv
    simp only [dictLL, List.mem_cons] at hv
    rcases hv with rfl | hm
    · exact align_oneL v0 h.1
    · exact align_oneLL vs h.2 v hm
end

/-- **C17 (no padding).** In a field list whose alignments are all 1 the field positions are the running sums of the
sizes: nothing is skipped between fields and there is no trailing padding. -/
theorem C17_no_padding (ds : List Dict) (pos : Nat) (h : ∀ d ∈ ds, d.align = 1) :
    foldSize ds pos = pos + (ds.map Dict.ssize).sum ∧ alignL ds = 1 :=
  no_padding_of_align_one ds pos h

/-- non-vacuity: `#[flat(sized = false, portable = true)] enum { A, B(le::U16, Bool), C { n: be::U32, v: FlatVec<le::U16, be::U16> } }` -/
example : (Ty.uenum ⟨1, 1, false⟩ [[], [.prim 2 1, .bool], [.prim 4 1, .vec (.prim 2 1) ⟨2, 1, true⟩]]).align1 = true := by decide
example : serialize (.uenum ⟨1, 1, false⟩ [[], [.prim 2 1, .bool], [.prim 4 1, .vec (.prim 2 1) ⟨2, 1, true⟩]])
    (.uenum 2 [[0xde, 0xad, 0xbe, 0xef]] (some (.vecIter [[1, 0], [2, 0]]))) = some [2, 0xde, 0xad, 0xbe, 0xef, 0, 2, 1, 0, 2, 0] := by decide
end FV.Props
