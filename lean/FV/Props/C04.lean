import FV.Props.Catalog
import FV.View
import FV.C04Layout
/-! # C04 — computed layout = C layout; a view never claims more than its slice

What a theorem can reach is the library's computation against the plain C rule. What rustc actually lays out is
observed by the correspondence check (`size_of_val`, `align_of`, field addresses of every catalog type). -/
namespace FV.Props
open FV

/-- **C04 (a).** `ceil_mul` is the least multiple of `m` that is ≥ `x`. -/
theorem C04_ceil_least (x m : Nat) (hm : 0 < m) :
    ceilMul x m % m = 0 ∧ x ≤ ceilMul x m ∧ ∀ y, y % m = 0 → x ≤ y → ceilMul x m ≤ y :=
  ⟨ceilMul_mod x m, le_ceilMul hm, fun _ hy hle => ceilMul_least hm hy hle⟩
/-- **C04 (a).** `floor_mul` is the greatest multiple of `m` that is ≤ `x`. -/
theorem C04_floor_greatest (x m : Nat) (hm : 0 < m) :
    floorMul x m % m = 0 ∧ floorMul x m ≤ x ∧ ∀ y, y % m = 0 → y ≤ x → y ≤ floorMul x m :=
  ⟨floorMul_mod x m, floorMul_le x m, fun _ hy hle => floorMul_greatest hm hy hle⟩

/-- **C04 (b).** The positions the field walker (`PosIter`) computes are the C offsets of the field list. -/
theorem C04_positions_eq_c (ds : List Dict) (pos : Nat) (h : ∀ d ∈ ds, 0 < d.align) (hh : HeadAligned ds pos) :
    posList ds pos = cOffsets (ds.map sa) pos :=
  posList_eq_cOffsets ds pos h hh
/-- **C04 (b).** `SIZE` of a `#[flat]` struct = C size (end of last field rounded up to the C alignment). -/
theorem C04_struct_size_eq_c (ds : List Dict) : (sstructD ds).sized = some (cSize (ds.map sa)) :=
  sstruct_size_eq_c ds
/-- **C04 (b).** Enum `DATA_OFFSET` = `repr(C, tag)` payload offset. -/
theorem C04_enum_data_offset_eq_c (tag : LenTy) (ht : tag.Law) (u : Nat) (hu : Pow2 u) :
    ceilMul tag.size (max tag.align u) = ceilMul tag.size u :=
  enum_dataOffset_eq_c tag ht u hu
/-- **C04 (b).** `FlatVec::DATA_OFFSET = max(L::SIZE, T::ALIGN)` = C offset of the data after the length. -/
theorem C04_vec_data_offset_eq_c (l : LenTy) (hl : l.Law) (a : Nat) (ha : Pow2 a) : max l.size a = ceilMul l.size a :=
  vec_dataOffset_eq_c l hl a ha

/-- **C04 (c).** A mapped value never claims more bytes than the slice it was mapped from; what it claims is a
whole number of alignment units and at least the type's minimum. -/
theorem C04_view_fits (t : Ty) (h : t.WF) (n : Nat) (hn : t.dict.minSize ≤ n) :
    ∃ m, t.dict.viewLen n = .ok m ∧ m ≤ n ∧ m % t.dict.align = 0 ∧ t.dict.minSize ≤ m :=
  FV.C04_view_fits t h n hn

example : S1.WF ∧ S1.dict.minSize = 8 ∧ S1.dict.viewLen 11 = .ok 8 := ⟨S1_wf, by decide, by decide⟩
end FV.Props
