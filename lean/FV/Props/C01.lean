import FV.Props.Catalog
import FV.View
import FV.FrameFlex
/-! # C01 — validation is total

Model reading: `Dict.validate` is `FlatValidate::validate` (alignment + minimum-size gate, then
`validate_unchecked`); a `fault` is a panic, an out-of-slice or misaligned access, an arithmetic underflow /
division by zero in the metadata computation, or fuel exhaustion of the FlexVec chain walk (non-termination).
`from_bytes` / `from_mut_bytes` = `validate` followed by the construction of the wide pointer (`viewLen`). -/
namespace FV.Props
open FV

/-- `from_bytes` on the model: validation, then the view (its length is the observable) -/
def fromBytes (t : Ty) (s : Slice) : Res Nat :=
  (t.dict.validate s).bind fun _ => t.dict.viewLen s.len

/-- **C01.** Checking an arbitrary byte slice (any length, any address, any contents) as any well-formed flat
type terminates with `ok` or `err`: never a fault. -/
theorem C01_validate_total (t : Ty) (h : t.WF) (s : Slice) : (t.dict.validate s).NoFault :=
  FV.C01_validate_total t h s

/-- **C01 (mapping).** `from_bytes` / `from_mut_bytes` never fault either: once validation succeeded the
pointer metadata is computed without underflow or division by zero. -/
theorem C01_from_bytes_total (t : Ty) (h : t.WF) (s : Slice) : (fromBytes t s).NoFault := by
  unfold fromBytes
  apply Res.noFault_bind (C01_validate_total t h s)
  intro a ha
  obtain ⟨_, hl, _⟩ := validate_ok_iff.1 (by cases a; exact ha)
  obtain ⟨m, hm, _⟩ := C04_view_fits t h s.len hl
  rw [hm]; trivial

/-- non-vacuity: the hypotheses are met by nested catalog types, and both outcomes occur -/
example : E1.WF ∧ FlexS1.WF := ⟨E1_wf, FlexS1_wf⟩

example : fromBytes E1 ⟨0, [5, 7, 1, 0, 9, 0]⟩ = .err ⟨.invalidEnumTag, 0⟩ := by decide
end FV.Props
namespace FV.Props
example : fromBytes E1 ⟨0, [2,0,0,0, 1,0, 1,0, 5,0,0,0]⟩ = .ok 12 := by decide
end FV.Props
