import FV.Props.Catalog
import FV.IoAsync
import FV.IoAsyncRecv
import FV.IoArb
import FV.IoPipeLive
import FV.IoAsyncLoop
/-! # C08 — async IO: both futures are stuttering refinements of the blocking loops; the pipe between them is a FIFO

The executor and the waker are not in the model. The harness drives the real futures with a counting waker: a task is
polled again only when it has been woken, so a `Pending` returned without the pipe having registered the waker shows
as a stuck run. -/
namespace FV.Props
open FV

/-- **C08 (sender).** Polling `WriteAll` to completion — resuming after every `Pending` of `poll_write` / `poll_flush`,
the position kept across suspension — gives the same result, the same bytes in the sink, the same poisoned flag and
the same remaining script as the suspension-free loop on the script: no byte is lost, duplicated or reordered by
suspension, and completion implies that `poll_flush` returned `Ready(Ok)` after the last byte. -/
theorem C08_sender_refines_blocking (msg : Bytes) (n : Nat) (evs : List AEv) (st : AState) (h : evs.length ≤ n) :
    arun msg evs st = brun msg evs st :=
  arun_eq_brun msg n evs st h

/-- **C08 (receiver).** The async `recv` — suspended by `poll_read` any number of times at any point, re-polled, `poll_read`
starting over (room check, compaction, `OutOfMemory`, then the pipe) — reaches, for every message type, buffer state and stream,
the same outcome with the same buffer, stream position and remaining script as the blocking `recv` on the script with the
`Pending`s removed, whenever that script is long enough for the blocking `recv` to reach an outcome at all. Together with
`C07_receiver_delivers` (every chunking) this gives the delivery of the message sequence under every pattern of `Pending`. -/
theorem C08_receiver_refines_blocking (d : Dict) (evs : List AREv) (b : RBuf) (rest : Bytes) :
    Agrees eraseP (arecv d false evs b rest) (recv d (eraseP evs) b rest) :=
  (arecv_refines d evs.length evs b rest (Nat.le_refl _)).1

/-- **C08 (the pair).** Over a bounded in-memory pipe of any capacity ≥ 0, for every interleaving of polls of the two tasks and
every chunk limit: received bytes, then bytes in the pipe, then bytes not yet sent are always the stream; the pipe never
exceeds its capacity. (Each task sees the pipe as a script of outcomes with `Pending`; the two theorems above and C07 quantify
over all such scripts. That a `Pending` is always followed by a wake-up is a property of the executor, which the harness
exercises with a counting waker.) -/
theorem C08_pipe_fifo (cap : Nat) (sched : List Sched) (stream : Bytes) :
    let fin := sched.foldl (pipeStep cap) ⟨stream, [], []⟩
    fin.got ++ fin.q ++ fin.toSend = stream ∧ fin.q.length ≤ cap := by
  have := pipe_fifo cap sched ⟨stream, [], []⟩
  exact ⟨by simpa using this.1, this.2 (Nat.zero_le _)⟩

/-- **C08 (progress).** Over a bounded pipe of any capacity ≥ 1: if both tasks keep being polled — alternately, each poll moving
at least one byte whenever it can and at most its chunk limit — then after as many rounds as the stream has bytes the receiver
has taken exactly the stream, in order. No schedule of this kind starves either side; with `C08_pipe_fifo` (every schedule is
safe) and the two refinement theorems this is the delivery of the sent sequence by the pair. -/
theorem C08_pipe_fair_delivers (cap : Nat) (hcap : 0 < cap) (stream : Bytes) (rounds : List (Nat × Nat))
    (hpos : ∀ ab ∈ rounds, 0 < ab.1 ∧ 0 < ab.2) (hlen : stream.length ≤ rounds.length) :
    ((rounds.flatMap fun ab => [Sched.w ab.1, Sched.r ab.2]).foldl (pipeStep cap) ⟨stream, [], []⟩).got = stream :=
  pipe_fair_delivers cap hcap stream rounds hpos hlen

/-- non-vacuity: `FlatVec<u8,u16>` messages; the blocking `recv` on the erased script reaches an outcome (a message), so the
theorem applies: the async `recv` suspended twice in its second read returns the same message -/
example : (arecv (Ty.vec u8 L16).dict false [.deliver 2, .pending, .pending, .deliver 2] ⟨0, 8, 0, []⟩ [1,0,7,0, 9]).1 = .msg [1,0,7,0] := by
  have hb : (recv (Ty.vec u8 L16).dict (eraseP [.deliver 2, .pending, .pending, .deliver 2]) ⟨0, 8, 0, []⟩ [1,0,7,0, 9]).1 = .msg [1,0,7,0] := by
    decide
  rcases C08_receiver_refines_blocking (Ty.vec u8 L16).dict [.deliver 2, .pending, .pending, .deliver 2] ⟨0, 8, 0, []⟩ [1,0,7,0, 9] with h | h
  · rw [hb] at h; cases h
  · rw [h.1, hb]

/-- non-vacuity: one poll hands over two bytes and is suspended by the pipe; the position is kept -/
example : apoll [1,2,3] [.ok 2, .pending, .ok 9] ⟨0, [], false⟩ = (.pending, ⟨2, [1,2], false⟩, [.ok 9]) := by decide

/-- **C08 (the async receiver delivers).** For every well-formed message type with `MIN_SIZE > 0`, every list of messages, every
buffer that holds twice the largest one, and every script of `poll_read` outcomes — `Pending` any number of times anywhere — whose
non-`Pending` entries are positive read sizes and are numerous enough: the async receive loop (await `recv`, look through the guard,
drop it; repeat) yields exactly the sent messages, in order, then `Closed`. No message is lost, duplicated, reordered or altered by
suspension; no fault, no `OutOfMemory`. (Composition of `C08_receiver_refines_blocking`, lifted to the loop, with
`C07_receiver_delivers`.) -/
theorem C08_async_receiver_delivers (t : Ty) (h : t.WF) (hmin : 0 < t.dict.minSize) (msgs : List Bytes)
    (hmsgs : ∀ m ∈ msgs, ∀ a, a % t.dict.align = 0 → t.dict.validate ⟨a, m⟩ = .ok () ∧ t.dict.size ⟨a, m⟩ = .ok m.length)
    (base cap : Nat) (hbase : base % t.dict.align = 0) (hcap : 0 < cap) (hfit : ∀ m ∈ msgs, 2 * m.length ≤ cap)
    (aevs : List AREv) (hevs : Covers (eraseP aevs) ((flat msgs).length + 1)) :
    arecvLoop t.dict (msgs.length + 1) aevs ⟨base, cap, 0, []⟩ (flat msgs) = msgs.map .msg ++ [.closed] := by
  have hb := FV.C07_receiver_delivers t h hmin msgs hmsgs base cap hbase hcap hfit (eraseP aevs) hevs
  rw [arecvLoop_eq t.dict _ aevs _ _ (by rw [hb]; simp), hb]

/-- non-vacuity of the script hypothesis: `Pending` before, between and inside the reads; the type and message hypotheses are those of
`C07_receiver_delivers` (met by `S1` and by the `u16` example there) -/
example : Covers (eraseP [.pending, .deliver 1, .pending, .pending, .deliver 3, .deliver 9, .pending, .deliver 9]) 4 := by
  refine ⟨by decide, ?_⟩
  intro ev hev
  simp only [eraseP, List.mem_cons, List.not_mem_nil, or_false] at hev
  rcases hev with rfl | rfl | rfl | rfl <;> exact ⟨_, rfl, by decide⟩
end FV.Props
