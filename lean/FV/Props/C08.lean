import FV.Props.Catalog
import FV.IoAsync
/-! # C08 — async IO (first instalment: the sender is a stuttering refinement of the blocking one)

The executor and the waker are not in the model. The harness drives the real futures with a counting waker: a task is
polled again only when it has been woken, so a `Pending` returned without the pipe having registered the waker shows
as a stuck run. -/
namespace FV.Props
open FV

/-- **C08 (sender).** Polling `WriteAll` to completion — resuming after every `Pending` of `poll_write` / `poll_flush`,
the position kept across suspension — gives the same result, the same bytes in the sink, the same poisoned flag and
the same remaining script as the suspension-free loop on the script: no byte is lost, duplicated or reordered by
suspension, and completion implies that `poll_flush` returned `Ready(Ok)` after the last byte. -/
theorem C08_sender_refines_blocking (msg : Bytes) (n : Nat) (evs : List AEv) (st : AState) (h : evs.length ≤ n) :
    arun msg evs st = brun msg evs st :=
  arun_eq_brun msg n evs st h

/-- non-vacuity: one poll hands over two bytes and is suspended by the pipe; the position is kept -/
example : apoll [1,2,3] [.ok 2, .pending, .ok 9] ⟨0, [], false⟩ = (.pending, ⟨2, [1,2], false⟩, [.ok 9]) := by decide
end FV.Props
