import FV.Props.C03
import FV.Props.C17Ser
import FV.EmplaceImage
import FV.SizeView
import FV.ValWf
/-! # C03, clause 3 — byte-exact image of portable values (see `C03_statement` in `Props/C03.lean`) -/
namespace FV.Props
open FV

/-- **C03, clause 3 (portable types).** The non-padding bytes — for an alignment-1 type there is no padding, so: the bytes — that
an emplacer leaves behind are exactly the documented encoding of the specified content, for every emplacer. (For native, padded
layouts the documented encoding is the C layout: `C03_emplace_reads_back` with the layout theorems of C04, and the byte-for-byte
comparison with padding masked in the correspondence check.) -/
theorem C03_portable_image_is_serialisation (t : Ty) (h : t.WF) (ha : t.align1 = true) (i : Init) (hw : InitWT t i) (ht : InitTight t i)
    (s : Slice) (hlen : t.dict.minSize ≤ s.len) :
    ∃ o, emplaceU t i s = .ok o ∧
      (o.res = .ok () → ∀ b, serialize t i = some b → o.bytes.take b.length = b) := by
  obtain ⟨o, ho, hs⟩ := C17_image_is_serialisation t h ha i hw ht s hlen
  exact ⟨o, ho, fun hres b hb => (hs hres b hb).1⟩

/-- **C03, "any aligned buffer that is large enough".** *Large enough* has an exact meaning: the specified content occupies
`sizeSpec t i` bytes (header, elements, padding — computed from the type and the content alone, `FV/Spec/SizeSpec.lean`), and it is
representable (`Rep`: lengths within the length type, FlexVec slots below `L::MAX`). Into **every** aligned buffer of at least
that many bytes the emplacer succeeds, and the result validates, reads back as the specified content and has `size()` equal to
`sizeSpec t i`, whatever the buffer held before. -/
theorem C03_large_enough_is_accepted (t : Ty) (h : t.WF) (i : Init) (hw : InitWT t i) (hr : Rep t i) (s : Slice)
    (hal : s.addr % t.dict.align = 0) (hlen : sizeSpec t i ≤ s.len) :
    ∃ o, emplaceU t i s = .ok o ∧ o.res = .ok () ∧ t.dict.validate ⟨s.addr, o.bytes⟩ = .ok () ∧
      (t.dict.walk ⟨s.addr, o.bytes⟩).map Val.strip = specV t i ∧
      t.dict.size ⟨s.addr, o.bytes⟩ = .ok (sizeSpec t i) := by
  obtain ⟨hacc, hge⟩ := emplaceU_acc i t h hw
  have hmin : t.dict.minSize ≤ s.len := by omega
  obtain ⟨o, ho, hok, hc⟩ := emplaceU_content i t h hw s hal hmin
  obtain ⟨hiff, hsize⟩ := hacc s hal hmin o ho
  have hres : o.res = .ok () := hiff.2 ⟨hr, hlen⟩
  exact ⟨o, ho, hres, validate_ok_iff.2 ⟨hal, by simp only [Slice.len, hok.len]; exact hmin, hok.valid hres⟩, hc hres, hsize hres⟩

/-- **C03, clause 3 for native struct layouts.** After a generated `…Init` of an unsized struct ran (whatever the outcome of the
last field's emplacer), every sized field's bytes — at the position the field walker assigns, which is the C offset
(`C04_positions_eq_c`) — are exactly the image that was given for that field; the bytes between fields are padding and are not
specified. -/
theorem C03_struct_fields_at_c_offsets (fs : List Ty) (last : Ty) (h : (Ty.ustruct fs last).WF) (vals : List Bytes) (li : Init)
    (hw : InitWT (.ustruct fs last) (.ustruct vals li)) (s : Slice)
    (hal : s.addr % (Ty.ustruct fs last).dict.align = 0) (hlen : (Ty.ustruct fs last).dict.minSize ≤ s.len) :
    ∃ o, emplaceU (.ustruct fs last) (.ustruct vals li) s = .ok o ∧
      ∀ (i : Nat) (d : Dict) (v : Bytes) (P : Nat), (dictL fs)[i]? = some d → vals[i]? = some v → (posList (dictL fs) 0)[i]? = some P →
        (o.bytes.drop P).take d.ssize = v := by
  obtain ⟨addr, bytes⟩ := s
  simp only [Ty.WF] at h
  simp only [InitWT] at hw
  simp only [Ty.dict, ustructD, Slice.len] at hal hlen
  have hl := lawL fs h.1
  have hlast := Ty.law last h.2.2.1
  obtain ⟨b1, ol, hb1l, hroom, _, _, holl, hel, hcomp⟩ := ustruct_shape fs last vals li hl (sizedL_allSized fs h.2.1) hlast hw.1
    (emplaceU_ok li last h.2.2.1 hw.2) addr bytes hal hlen
  refine ⟨_, hcomp, ?_⟩
  intro i d v P hd hv hP
  have hend := posList_end_le (dictL fs) 0 i P d (fun x hx => (hl x hx).align_pow2.pos) (headAligned_zero _) hd hP
  have h4 := le_ceilMul (x := foldSize (dictL fs) 0) hlast.align_pow2.pos
  show (((b1.take _ ++ ol.bytes) ++ bytes.drop _).drop P).take d.ssize = v
  rw [List.append_assoc, drop_take_eq (a := b1.take _ ++ (ol.bytes ++ bytes.drop _)) (b := b1) (n := ceilMul (foldSize (dictL fs) 0) last.dict.align)
    (by rw [List.take_append_of_le_length (by simp only [List.length_take, hb1l]; omega), List.take_take, Nat.min_self]) (by omega)]
  exact hel i d v P hd hv hP

/-- **C03, clause 3 for native enum layouts.** After a generated `…Init` of an unsized enum succeeded (variant with sized
fields only): the first `tag.size` bytes are the encoding of the variant index, and every field sits at `DATA_OFFSET` plus its C
offset with exactly the given image; everything in between is padding. -/
theorem C03_enum_tag_and_fields_at_c_offsets (tag : LenTy) (vs : List (List Ty)) (h : (Ty.uenum tag vs).WF)
    (idx : Nat) (vals : List Bytes) (hw : InitWT (.uenum tag vs) (.uenum idx vals none)) (s : Slice)
    (hal : s.addr % (Ty.uenum tag vs).dict.align = 0) (hlen : (Ty.uenum tag vs).dict.minSize ≤ s.len)
    (o : EO) (ho : emplaceU (.uenum tag vs) (.uenum idx vals none) s = .ok o) (hres : o.res = .ok ()) :
    o.bytes.take tag.size = encLenTy tag idx ∧
    ∀ (i : Nat) (d : Dict) (v : Bytes) (P : Nat), (dictL (vs.getD idx []))[i]? = some d → vals[i]? = some v →
      (posList (dictL (vs.getD idx [])) 0)[i]? = some P →
      (o.bytes.drop (ceilMul tag.size (max tag.align (alignLL (dictLL vs))) + P)).take d.ssize = v := by
  simp only [Ty.WF] at h
  simp only [InitWT] at hw
  exact uenum_none_image tag h.1 vs (lawLL vs h.2.1) idx hw.1 vals (sizedL_allSized _ hw.2.2.1) hw.2.2.2 s hal hlen o ho hres

/-- **C03 for `assign_in_place`.** Assigning to a valid value runs the emplacer on the value's own bytes (`as_mut_bytes()`,
`v` of them): it never faults, keeps the length, succeeds **iff** the new content is representable and its specified size is at
most `v`, and on success the whole slice validates, reads back as exactly the specified content and has `size()` = `sizeSpec`. -/
theorem C03_assign_reads_back (t : Ty) (h : t.WF) (i : Init) (hw : InitWT t i) (s : Slice) (hv : t.dict.validate s = .ok ()) :
    ∃ o v, assign t i s = .ok o ∧ t.dict.viewLen s.len = .ok v ∧ o.bytes.length = s.len ∧
      (o.res = .ok () ↔ Rep t i ∧ sizeSpec t i ≤ v) ∧
      (o.res = .ok () → t.dict.validate ⟨s.addr, o.bytes⟩ = .ok () ∧
        (t.dict.walk ⟨s.addr, o.bytes⟩).map Val.strip = specV t i ∧ t.dict.size ⟨s.addr, o.bytes⟩ = .ok (sizeSpec t i)) := by
  obtain ⟨ha, hl, _⟩ := validate_ok_iff.1 hv
  obtain ⟨_, v, _, hvw, _, hvle, hown⟩ := own_bytes_validate t h s hv
  obtain ⟨ha', hl', _⟩ := validate_ok_iff.1 hown
  have hvl : (s.take v).len = v := by simp only [Slice.len_take]; omega
  obtain ⟨o1, ho1, hok, hc⟩ := emplaceU_content i t h hw (s.take v) ha' hl'
  obtain ⟨hiff, hsize⟩ := (emplaceU_acc i t h hw).1 (s.take v) ha' hl' o1 ho1
  have hol : o1.bytes.length = v := by have := hok.len; omega
  have hsl : s.len = s.bytes.length := rfl
  have F := Ty.frameLaw t h
  refine ⟨⟨o1.bytes ++ s.bytes.drop v, o1.res⟩, v, by simp only [assign, hvw, Res.bind_ok, ho1], hvw, ?_, by rw [hvl] at hiff; exact hiff, ?_⟩
  · simp only [List.length_append, List.length_drop, hol]; omega
  · intro hres
    have hvu := hok.valid hres
    have hz := hsize hres
    simp only [Slice.addr_take] at hvu hz ha'
    have hmin : t.dict.minSize ≤ (⟨s.addr, o1.bytes⟩ : Slice).len := by simp only [Slice.len, hol]; omega
    obtain ⟨z, hz', hzle, _, _⟩ := F.size_ok ⟨s.addr, o1.bytes⟩ ha' hmin hvu
    have hzz : z = sizeSpec t i := by simp only [Dict.sizeV] at hz'; rw [hz] at hz'; cases hz'; rfl
    subst hzz
    simp only [Slice.len] at hzle
    have hb : (o1.bytes ++ s.bytes.drop v).take (sizeSpec t i) = o1.bytes.take (sizeSpec t i) :=
      List.take_append_of_le_length hzle
    have hlen' : sizeSpec t i ≤ (⟨s.addr, o1.bytes ++ s.bytes.drop v⟩ : Slice).len := by
      simp only [Slice.len, List.length_append]; omega
    obtain ⟨h1, h2⟩ := F.loc ⟨s.addr, o1.bytes⟩ (sizeSpec t i) ha' hmin hvu hz' ⟨s.addr, o1.bytes ++ s.bytes.drop v⟩ rfl hlen' hb
    refine ⟨validate_ok_iff.2 ⟨ha, by simp only [Slice.len, List.length_append, List.length_drop, hol]; omega, h1⟩, ?_, h2⟩
    rw [walk_loc t.dict F (Ty.walkLaw t h) ⟨s.addr, o1.bytes⟩ (sizeSpec t i) ha' hmin hvu hz' ⟨s.addr, o1.bytes ++ s.bytes.drop v⟩ rfl hlen' hb]
    exact hc hres

/-- … and for a variant that ends in an unsized field: tag and sized fields as above (the last field's content is
`C03_emplace_reads_back`). -/
theorem C03_enum_unsized_variant_image (tag : LenTy) (vs : List (List Ty)) (h : (Ty.uenum tag vs).WF)
    (idx : Nat) (vals : List Bytes) (li : Init) (pre : List Ty) (lt : Ty) (hvar : vs.getD idx [] = pre ++ [lt])
    (hw : InitWT (.uenum tag vs) (.uenum idx vals (some li))) (s : Slice)
    (hal : s.addr % (Ty.uenum tag vs).dict.align = 0) (hlen : (Ty.uenum tag vs).dict.minSize ≤ s.len)
    (o : EO) (ho : emplaceU (.uenum tag vs) (.uenum idx vals (some li)) s = .ok o) (hres : o.res = .ok ()) :
    o.bytes.take tag.size = encLenTy tag idx ∧
    ∀ (i : Nat) (d : Dict) (v : Bytes) (P : Nat), (dictL pre)[i]? = some d → vals[i]? = some v →
      (posList (dictL pre) 0)[i]? = some P →
      (o.bytes.drop (ceilMul tag.size (max tag.align (alignLL (dictLL vs))) + P)).take d.ssize = v := by
  simp only [Ty.WF] at h
  simp only [InitWT] at hw
  obtain ⟨hidx, _, pre', lt', hvar', hv, hwl⟩ := hw
  have heq : pre' ++ [lt'] = pre ++ [lt] := by rw [← hvar', hvar]
  obtain ⟨rfl, rfl⟩ : pre' = pre ∧ lt' = lt := by
    have := List.append_inj' heq rfl
    exact ⟨this.1, by simpa using this.2⟩
  have hwf := wfLL_getD vs idx h.2.1
  have hbl := butLastLL_getD vs idx h.2.2
  rw [hvar] at hwf hbl
  exact uenum_some_image tag h.1 vs (lawLL vs h.2.1) idx hidx vals pre' lt' hvar
    (sizedL_allSized _ (butLastL_concat pre' lt' hbl)) hv li (emplaceU_ok li lt' (wfL_concat pre' lt' hwf).2 hwl) s hal hlen o ho hres

/-- non-vacuity: `S1 { a: u32, b: FlatVec<u8,u16> }` with three bytes in `b` occupies 12 bytes (4 + 2 + 3, padded to 4) -/
example : sizeSpec S1 (.ustruct [[1,0,0,0]] (.vecArr [[7],[8],[9]])) = 12 := by decide

/-- **C03 + C02: what an emplacer produced is a well-typed, consistent value.** For every well-formed type and well-typed initialiser,
on every aligned slot of at least `MIN_SIZE` bytes: if the emplacer reports `Ok`, the content read back through the accessors is a
well-typed value of the type (`ValWF`: tag in range, arities, array lengths, capacities within the length type's range) in which every
container reports `len ≤ capacity` and every string is valid UTF-8 (`Val.ok`). -/
theorem C03_emplaced_content_well_typed (t : Ty) (h : t.WF) (i : Init) (hw : InitWT t i) (s : Slice)
    (hal : s.addr % t.dict.align = 0) (hlen : t.dict.minSize ≤ s.len) :
    ∃ o, emplaceU t i s = .ok o ∧ (o.res = .ok () → ∃ v, t.dict.walk ⟨s.addr, o.bytes⟩ = .ok v ∧ ValWF t v ∧ v.ok) := by
  obtain ⟨o, ho, hl, hread⟩ := C03_emplace_reads_back t h i hw s hal hlen
  refine ⟨o, ho, fun hres => ?_⟩
  obtain ⟨hv, _, _, _⟩ := hread hres
  obtain ⟨ha, hm, hu⟩ := validate_ok_iff.1 hv
  obtain ⟨v, hwv⟩ := (Ty.walkLaw t h).total ⟨s.addr, o.bytes⟩ hm hu
  exact ⟨v, hwv, Ty.wfLaw t _ v hu hwv, Ty.okLaw t _ v hu hwv⟩
end FV.Props
