import FV.Props.C03
import FV.Props.C17Ser
/-! # C03, clause 3 — byte-exact image of portable values (see `C03_statement` in `Props/C03.lean`) -/
namespace FV.Props
open FV

/-- **C03, clause 3 (portable types).** The non-padding bytes — for an alignment-1 type there is no padding, so: the bytes — that
an emplacer leaves behind are exactly the documented encoding of the specified content, for every emplacer. (For native, padded
layouts the documented encoding is the C layout: `C03_emplace_reads_back` with the layout theorems of C04, and the byte-for-byte
comparison with padding masked in the correspondence check.) -/
theorem C03_portable_image_is_serialisation (t : Ty) (h : t.WF) (ha : t.align1 = true) (i : Init) (hw : InitWT t i) (ht : InitTight t i)
    (s : Slice) (hlen : t.dict.minSize ≤ s.len) :
    ∃ o, emplaceU t i s = .ok o ∧
      (o.res = .ok () → ∀ b, serialize t i = some b → o.bytes.take b.length = b) := by
  obtain ⟨o, ho, hs⟩ := C17_image_is_serialisation t h ha i hw ht s hlen
  exact ⟨o, ho, fun hres b hb => (hs hres b hb).1⟩
end FV.Props
