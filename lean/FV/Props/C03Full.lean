import FV.Props.C03
import FV.Props.C17Ser
/-! # C03, clause 3 — byte-exact image of portable values (see `C03_statement` in `Props/C03.lean`) -/
namespace FV.Props
open FV

/-- **C03, clause 3 (portable types).** The non-padding bytes — for an alignment-1 type there is no padding, so: the bytes — that
an emplacer leaves behind are exactly the documented encoding of the specified content, for every emplacer. (For native, padded
layouts the documented encoding is the C layout: `C03_emplace_reads_back` with the layout theorems of C04, and the byte-for-byte
comparison with padding masked in the correspondence check.) -/
theorem C03_portable_image_is_serialisation (t : Ty) (h : t.WF) (ha : t.align1 = true) (i : Init) (hw : InitWT t i) (ht : InitTight t i)
    (s : Slice) (hlen : t.dict.minSize ≤ s.len) :
    ∃ o, emplaceU t i s = .ok o ∧
      (o.res = .ok () → ∀ b, serialize t i = some b → o.bytes.take b.length = b) := by
  obtain ⟨o, ho, hs⟩ := C17_image_is_serialisation t h ha i hw ht s hlen
  exact ⟨o, ho, fun hres b hb => (hs hres b hb).1⟩

/-- **C03, "any aligned buffer that is large enough".** *Large enough* has an exact meaning: the specified content occupies
`sizeSpec t i` bytes (header, elements, padding — computed from the type and the content alone, `FV/Spec/SizeSpec.lean`), and it is
representable (`Rep`: lengths within the length type, FlexVec slots below `L::MAX`). Into **every** aligned buffer of at least
that many bytes the emplacer succeeds, and the result validates, reads back as the specified content and has `size()` equal to
`sizeSpec t i`, whatever the buffer held before. -/
theorem C03_large_enough_is_accepted (t : Ty) (h : t.WF) (i : Init) (hw : InitWT t i) (hr : Rep t i) (s : Slice)
    (hal : s.addr % t.dict.align = 0) (hlen : sizeSpec t i ≤ s.len) :
    ∃ o, emplaceU t i s = .ok o ∧ o.res = .ok () ∧ t.dict.validate ⟨s.addr, o.bytes⟩ = .ok () ∧
      (t.dict.walk ⟨s.addr, o.bytes⟩).map Val.strip = specV t i ∧
      t.dict.size ⟨s.addr, o.bytes⟩ = .ok (sizeSpec t i) := by
  obtain ⟨hacc, hge⟩ := emplaceU_acc i t h hw
  have hmin : t.dict.minSize ≤ s.len := by omega
  obtain ⟨o, ho, hok, hc⟩ := emplaceU_content i t h hw s hal hmin
  obtain ⟨hiff, hsize⟩ := hacc s hal hmin o ho
  have hres : o.res = .ok () := hiff.2 ⟨hr, hlen⟩
  exact ⟨o, ho, hres, validate_ok_iff.2 ⟨hal, by simp only [Slice.len, hok.len]; exact hmin, hok.valid hres⟩, hc hres, hsize hres⟩

/-- non-vacuity: `S1 { a: u32, b: FlatVec<u8,u16> }` with three bytes in `b` occupies 12 bytes (4 + 2 + 3, padded to 4) -/
example : sizeSpec S1 (.ustruct [[1,0,0,0]] (.vecArr [[7],[8],[9]])) = 12 := by decide
end FV.Props
