import FV.Props.C02
import FV.Props.C12
import FV.Accepts
import FV.SizeView
import FV.ValOk
import FV.ValWf
/-! # C02 — the acceptance set, constructor by constructor

"`from_bytes` succeeds iff the slice is suitably aligned and holds a well-formed encoding": the alignment / minimum-size gate is
`checkAlignMin` (`validate_ok_iff`); below it, each constructor accepts exactly the encodings described by the right-hand sides
here — lengths within capacity, tags in range, `Bool` 0/1 (`C19_bool`), UTF-8 strings, FlexVec offsets forming a chain of valid
items, every nested field / element / item valid. Nesting is the recursion over the descriptor (`Ty.dict`). -/
namespace FV.Props
open FV

/-- **the gate**: checked validation = aligned ∧ at least `MIN_SIZE` ∧ accepted by the constructor -/
theorem C02_gate (d : Dict) (s : Slice) :
    d.validate s = .ok () ↔ s.addr % d.align = 0 ∧ d.minSize ≤ s.len ∧ d.validateU s = .ok () := validate_ok_iff

/-- **struct / variant fields**: accepted iff every field is accepted on the bytes from its C-layout position on -/
theorem C02_fields_accept_iff (ds : List Dict) (data : Slice) (hal : ∀ d ∈ ds, 0 < d.align) (hmin : minSizeL ds 0 ≤ data.len) :
    validateAll ds 0 data = .ok () ↔
      ∀ (i : Nat) (d : Dict) (P : Nat), ds[i]? = some d → (posList ds 0)[i]? = some P → d.validateU (data.drop P) = .ok () := by
  have := validateAll_iff ds 0 data hal (headAligned_zero _) (by omega)
  simpa using this

/-- **`FlatVec`**: accepted iff the length is within the capacity of the slice and `L::MAX`, and every element is accepted -/
theorem C02_vec_accepts_iff (et : Ty) (h : et.WF) (sz : Nat) (hsz : et.dict.sized = some sz) (l : LenTy) (hl : l.Law) (s : Slice)
    (hlen : max l.size et.dict.align ≤ s.len) :
    (Ty.vec et l).dict.validateU s = .ok () ↔
      ∃ len, l.readU s = .ok len ∧
        len ≤ min (if sz = 0 then usizeMax else floorMul (s.len - max l.size et.dict.align) (max l.align et.dict.align) / sz) l.max ∧
        (sz ≠ 0 → ∀ m, m < len → et.dict.validateU ((s.drop (max l.size et.dict.align + m * sz)).take sz) = .ok ()) :=
  vec_accepts_iff et.dict (Ty.law et h) sz hsz l hl s hlen

/-- **`FlatString`**: accepted iff the length is within capacity and the bytes are UTF-8 -/
theorem C02_str_accepts_iff (l : LenTy) (s : Slice) (hlen : l.size ≤ s.len) :
    (Ty.str l).dict.validateU s = .ok () ↔
      ∃ len, l.readU s = .ok len ∧ len ≤ min (floorMul (s.len - l.size) l.align) l.max ∧
        utf8ValidUpTo (len + 1) 0 ((s.bytes.drop l.size).take len) = none :=
  str_accepts_iff l s hlen

/-- **unsized enum**: accepted iff the tag is in range, the payload has room for the variant and the variant's fields are accepted -/
theorem C02_enum_accepts_iff (tag : LenTy) (vs : List (List Ty)) (s : Slice)
    (hlen : ceilMul tag.size (max tag.align (alignLL (dictLL vs))) ≤ s.len) :
    (Ty.uenum tag vs).dict.validateU s = .ok () ↔
      ∃ t, tag.readU s = .ok t ∧ t < (dictLL vs).length ∧
        varMinSize ((dictLL vs).getD t []) ≤ floorMul (s.len - ceilMul tag.size (max tag.align (alignLL (dictLL vs)))) (max tag.align (alignLL (dictLL vs))) ∧
        validateAll ((dictLL vs).getD t []) 0 ((s.drop (ceilMul tag.size (max tag.align (alignLL (dictLL vs))))).take
          (floorMul (s.len - ceilMul tag.size (max tag.align (alignLL (dictLL vs)))) (max tag.align (alignLL (dictLL vs))))) = .ok () :=
  uenum_accepts_iff tag (dictLL vs) s hlen

/-- **`FlexVec`**: accepted iff the offsets form a chain of valid items ending in the zero terminator or an `L::MAX`-marked last item -/
theorem C02_flex_accepts_iff (it : Ty) (h : it.WF) (l : LenTy) (hl : l.Law) (data : Slice) :
    flexValidate it.dict l (max l.size it.dict.align) (data.len + 1) 0 data = .ok () ↔
      ∃ items, Chain it.dict l (max l.size it.dict.align) 0 data items :=
  C12_valid_iff_sequence it h l hl data

/-- **C02 (d): the value's own bytes validate.** For every well-formed type and every slice that `from_bytes` accepts:
`size() ≤ as_bytes().len() ≤` the slice length, and `from_bytes(x.as_bytes())` succeeds — the first `as_bytes().len()` bytes
validate again. (`size ≤ view` is a sixth per-combinator law, `SizeView`, assembled by recursion over the type.) -/
theorem C02_own_bytes_validate (t : Ty) (h : t.WF) (s : Slice) (hv : t.dict.validate s = .ok ()) :
    ∃ z v, t.dict.size s = .ok z ∧ t.dict.viewLen s.len = .ok v ∧ z ≤ v ∧ v ≤ s.len ∧ t.dict.validate (s.take v) = .ok () :=
  own_bytes_validate t h s hv

/-- non-vacuity: `S1 { a: u32, b: FlatVec<u8,u16> }` with two elements in a 13-byte slice: size 8, view 12 -/
example : S1.dict.validate ⟨0, [1,0,0,0, 2,0, 7,8, 9,9,9,9, 9]⟩ = .ok () ∧ S1.dict.size ⟨0, [1,0,0,0, 2,0, 7,8, 9,9,9,9, 9]⟩ = .ok 8 ∧
    S1.dict.viewLen 13 = .ok 12 := by decide +kernel

/-- **C02, the returned view is consistent with what was checked.** For every type (no well-formedness assumption is needed) and every
slice that `from_bytes` accepts: in the content read through the safe accessors **every container reports `len ≤ capacity`** and
**every string is valid UTF-8**, at every nesting depth — elements of arrays and vectors, fields of structs and of the active enum
variant, items of FlexVecs, the tail of unsized structs. (That the deep read succeeds at all is `C02_deep_read_total`; the harness
checks the same on the implementation: the `!OVER` marker and `as_str()`.) -/
theorem C02_content_consistent (t : Ty) (s : Slice) (v : Val) (hv : t.dict.validate s = .ok ()) (hw : t.dict.walk s = .ok v) :
    v.ok :=
  Ty.okLaw t s v (validate_ok_iff.1 hv).2.2 hw

/-- non-vacuity: a `FlatVec<u8, u16>` holding `[7, 8]` in 6 bytes reads as a vector of capacity 4 with two elements -/
example : (Ty.vec (.prim 1 1) ⟨2, 2, false⟩).dict.validate ⟨0, [2, 0, 7, 8, 9, 9]⟩ = .ok () ∧
    (Ty.vec (.prim 1 1) ⟨2, 2, false⟩).dict.walk ⟨0, [2, 0, 7, 8, 9, 9]⟩ = .ok (.vec 4 [.raw [7], .raw [8]]) ∧
    (Val.vec 4 [.raw [7], .raw [8]]).ok := ⟨by decide, rfl, by simp [Val.ok, Val.okL]⟩

/-- **C02, the content is a well-typed value of the type.** For every descriptor and every accepted slice, the content read through
the accessors has exactly the shape the type prescribes, at every level: scalar leaves of the declared size; arrays of the declared
length; one value per field of a struct and of the active enum variant; **an enum tag below the number of variants**; vectors and
strings within their capacity, the capacity within what the length type can count, strings valid UTF-8; every element, field and
FlexVec item again well typed. (`ValWF`, defined by recursion on the content; `Ty.wfLaw` by recursion over the descriptor.) -/
theorem C02_content_well_typed (t : Ty) (s : Slice) (v : Val) (hv : t.dict.validate s = .ok ()) (hw : t.dict.walk s = .ok v) :
    ValWF t v :=
  Ty.wfLaw t s v (validate_ok_iff.1 hv).2.2 hw

/-- non-vacuity: the same `FlatVec<u8, u16>` image; and `ValWF` does exclude ill-typed contents (a tag out of range) -/
example : ValWF (Ty.vec (.prim 1 1) ⟨2, 2, false⟩) (.vec 4 [.raw [7], .raw [8]]) := by
  simp [ValWF, ValWFA, LenTy.max]
example : ¬ ValWF (Ty.cenum ⟨1, 1, false⟩ 3) (.tag 3 []) := by simp [ValWF]
end FV.Props
