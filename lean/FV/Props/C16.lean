import FV.PortableOps
import FV.Combinators
/-! # C16 — portable scalars

`PTy` ranges over the 12 integer types (`be`, `n ∈ {2,4,8}`, signedness); the four float types are their bit patterns
(`signed = false`), so NaN payloads are ordinary values. The table of `derive_*!` invocations of the source is tied to
`PTy` by the correspondence check (every method of every type against the native type and against this model, exhaustively
for the 16-bit types). -/
namespace FV.Props
open FV

theorem pow_half_lt (n : Nat) (hn : 0 < n) : 256 ^ n / 2 < 256 ^ n ∧ 2 * (256 ^ n / 2) = 256 ^ n := by
  obtain ⟨k, rfl⟩ : ∃ k, n = k + 1 := ⟨n - 1, by omega⟩
  have hp : 0 < 256 ^ k := Nat.pow_pos (by omega)
  rw [Nat.pow_succ]
  omega

/-- **Size.** A portable scalar occupies exactly the size of its native counterpart (alignment 1 is `primD n 1`). -/
theorem C16_size (p : PTy) (v : Int) : (p.fromNative v).length = p.n := by
  unfold PTy.fromNative; split <;> split <;> simp [toBE]

/-- **Fixed byte order.** The stored bytes are the little-endian image of the (two's complement) value, reversed for the
big-endian types — independent of anything else. -/
theorem C16_byte_order (p : PTy) (v : Int) :
    p.fromNative v = (if p.be then (toLE (if p.signed then ofSigned p.n v else v.toNat) p.n).reverse
                      else toLE (if p.signed then ofSigned p.n v else v.toNat) p.n) := by
  unfold PTy.fromNative toBE; rfl

theorem toSigned_ofSigned (n : Nat) (hn : 0 < n) (v : Int) (hlo : -((256 ^ n / 2 : Nat) : Int) ≤ v)
    (hhi : v ≤ ((256 ^ n / 2 : Nat) : Int) - 1) : toSigned n (ofSigned n v) = v := by
  obtain ⟨h1, h2⟩ := pow_half_lt n hn
  have hp : (0 : Int) < ((256 ^ n : Nat) : Int) := by exact_mod_cast Nat.pow_pos (by omega)
  unfold toSigned ofSigned
  by_cases hneg : v < 0
  · have hm : v % ((256 ^ n : Nat) : Int) = v + ((256 ^ n : Nat) : Int) := by
      rw [← Int.add_emod_right]; exact Int.emod_eq_of_lt (by omega) (by omega)
    rw [hm]
    have hge : ¬ ((v + ((256 ^ n : Nat) : Int)).toNat < 256 ^ n / 2) := by
      have : ((v + ((256 ^ n : Nat) : Int)).toNat : Int) = v + ((256 ^ n : Nat) : Int) := Int.toNat_of_nonneg (by omega)
      omega
    simp only [hge, if_false]
    rw [Int.toNat_of_nonneg (by omega)]; omega
  · have hm : v % ((256 ^ n : Nat) : Int) = v := Int.emod_eq_of_lt (by omega) (by omega)
    rw [hm]
    have hlt : v.toNat < 256 ^ n / 2 := by
      have : (v.toNat : Int) = v := Int.toNat_of_nonneg (by omega)
      omega
    simp only [hlt, if_true]
    exact Int.toNat_of_nonneg (by omega)

/-- **Lossless: native → portable → native is the identity** for every value of the native type (every bit pattern of
the floats, the extremes of the integers). -/
theorem C16_native_roundtrip (p : PTy) (hn : 0 < p.n) (v : Int) (hv : p.inRange v = true) :
    p.toNative (p.fromNative v) = v := by
  have hv' : p.lo ≤ v ∧ v ≤ p.hi := by
    simp only [PTy.inRange, Bool.and_eq_true, decide_eq_true_eq] at hv; exact hv
  have hpp : 0 < 256 ^ p.n := Nat.pow_pos (by omega)
  unfold PTy.toNative PTy.fromNative
  cases hs : p.signed with
  | true =>
    simp only [PTy.lo, PTy.hi, hs, if_true] at hv'
    simp only [if_true]
    have hr := toSigned_ofSigned p.n hn v hv'.1 hv'.2
    have hlt : ofSigned p.n v < 256 ^ p.n := by
      unfold ofSigned
      have hp : (0 : Int) < ((256 ^ p.n : Nat) : Int) := by exact_mod_cast hpp
      have h1 := Int.emod_lt_of_pos v hp
      have h0 := Int.emod_nonneg v (by omega : ((256 ^ p.n : Nat) : Int) ≠ 0)
      have : ((v % ((256 ^ p.n : Nat) : Int)).toNat : Int) < ((256 ^ p.n : Nat) : Int) := by rw [Int.toNat_of_nonneg h0]; exact h1
      exact_mod_cast this
    cases p.be <;> simp [be_roundtrip _ _ hlt, le_roundtrip _ _ hlt, hr]
  | false =>
    simp only [PTy.lo, PTy.hi, hs, Bool.false_eq_true, if_false] at hv'
    simp only [Bool.false_eq_true, if_false]
    have hnn : (v.toNat : Int) = v := Int.toNat_of_nonneg hv'.1
    have hlt : v.toNat < 256 ^ p.n := by
      have h2 := hv'.2
      have : (v.toNat : Int) < ((256 ^ p.n : Nat) : Int) := by omega
      exact_mod_cast this
    cases p.be <;> simp [be_roundtrip _ _ hlt, le_roundtrip _ _ hlt, hnn]

/-- **Lossless: stored bytes → native → stored bytes is the identity**, so equality of portable values is equality of
the stored bytes. -/
theorem C16_bytes_roundtrip (p : PTy) (hn : 0 < p.n) (stored : Bytes) (hl : stored.length = p.n) :
    p.fromNative (p.toNative stored) = stored := by
  unfold PTy.toNative PTy.fromNative
  have hle : leNat stored < 256 ^ p.n := by have := leNat_lt stored; rwa [hl] at this
  have hbe : beNat stored < 256 ^ p.n := by have := leNat_lt stored.reverse; simpa [beNat, hl] using this
  cases hs : p.signed <;> cases hb : p.be <;>
    simp only [Bool.false_eq_true, if_false, if_true, signed_roundtrip _ _ hn hle, signed_roundtrip _ _ hn hbe, Int.toNat_natCast]
  · rw [← hl]; exact le_bytes_roundtrip stored
  · rw [← hl]; exact be_bytes_roundtrip stored
  · rw [← hl]; exact le_bytes_roundtrip stored
  · rw [← hl]; exact be_bytes_roundtrip stored

/-- **Equality is equality of the stored bytes**, and agrees with equality of the native values. -/
theorem C16_eq_iff (p : PTy) (hn : 0 < p.n) (a b : Int) (ha : p.inRange a = true) (hb : p.inRange b = true) :
    p.fromNative a = p.fromNative b ↔ a = b := by
  constructor
  · intro h
    have := congrArg p.toNative h
    rwa [C16_native_roundtrip p hn a ha, C16_native_roundtrip p hn b hb] at this
  · intro h; rw [h]

/-- **Operators delegate to the native type.** For an *arbitrary* native binary operation whose result is a value of the
native type, the portable operator (`from_native ∘ op ∘ to_native`) stores exactly that result: reading it back gives the
native result. Ordering, `zero/one/min/max` and the `u64/i64/usize` conversions are the same composition. -/
theorem C16_delegates (p : PTy) (hn : 0 < p.n) (op : Int → Int → Int) (x y : Bytes)
    (hr : p.inRange (op (p.toNative x) (p.toNative y)) = true) :
    p.toNative (p.fromNative (op (p.toNative x) (p.toNative y))) = op (p.toNative x) (p.toNative y) :=
  C16_native_roundtrip p hn _ hr

/-- **Bool** stores 0/1 and validation rejects every other byte. -/
theorem C16_bool_validate (a : Nat) (b : UInt8) (rest : Bytes) :
    boolD.validateU ⟨a, b :: rest⟩ = .ok () ↔ b.toNat ≤ 1 := by
  simp only [boolD]
  split <;> simp_all

/-- non-vacuity: `be::I16` stores −2 as `ff fe`; `le::U32` 0x01020304 as `04 03 02 01` -/
example : (⟨true, 2, true⟩ : PTy).fromNative (-2) = [0xff, 0xfe] ∧ (⟨true, 2, true⟩ : PTy).inRange (-2) = true := by decide
example : (⟨false, 4, false⟩ : PTy).fromNative 0x01020304 = [4, 3, 2, 1] := by decide
/-- every `n`-byte pattern is a value of the native type: `to_native` never leaves the range -/
theorem C16_toNative_inRange (p : PTy) (hn : 0 < p.n) (stored : Bytes) (hl : stored.length = p.n) :
    p.inRange (p.toNative stored) = true := by
  obtain ⟨h1, h2⟩ := pow_half_lt p.n hn
  have hle : leNat stored < 256 ^ p.n := by have := leNat_lt stored; rwa [hl] at this
  have hbe : beNat stored < 256 ^ p.n := by have := leNat_lt stored.reverse; simpa [beNat, hl] using this
  have key : ∀ u : Nat, u < 256 ^ p.n →
      p.inRange (if p.signed then toSigned p.n u else (u : Int)) = true := by
    intro u hu
    by_cases hs : p.signed = true
    · simp only [PTy.inRange, PTy.lo, PTy.hi, hs, if_true, Bool.and_eq_true, decide_eq_true_eq, toSigned]
      split <;> constructor <;> omega
    · have hs' : p.signed = false := by simpa using hs
      simp only [PTy.inRange, PTy.lo, PTy.hi, hs', Bool.false_eq_true, if_false, Bool.and_eq_true, decide_eq_true_eq]
      constructor <;> omega
  unfold PTy.toNative
  cases hb : p.be
  · simpa using key _ hle
  · simpa using key _ hbe

/-- a checked native operator either panics (`none`) or returns a value of the native range, which the portable type stores
and reads back unchanged -/
theorem C16_binop_sound (p : PTy) (hn : 0 < p.n) (op : String) (a b v : Int) (h : p.binop op a b = some v) :
    p.inRange v = true ∧ p.toNative (p.fromNative v) = v := by
  have hr : p.inRange v = true := by
    unfold PTy.binop at h
    generalize (if op = "add" then some (a + b) else if op = "sub" then some (a - b) else if op = "mul" then some (a * b)
      else if op = "div" then (if b = 0 then none else some (Int.tdiv a b))
      else if op = "rem" then (if b = 0 then none else if p.inRange (Int.tdiv a b) then some (Int.tmod a b) else none)
      else none : Option Int) = r at h
    cases r with
    | none => cases h
    | some w =>
      simp only at h
      split at h
      · injection h with h; subst h; assumption
      · cases h
  exact ⟨hr, C16_native_roundtrip p hn v hr⟩

/-- `FromPrimitive::from_{u64,i64,usize}`: `Some` exactly for the representable values, and then the stored value reads back as
that value -/
theorem C16_fromPrim (p : PTy) (hn : 0 < p.n) (v : Int) :
    (p.inRange v = true → ∃ bs, p.fromPrim v = some bs ∧ bs.length = p.n ∧ p.toNative bs = v) ∧
    (p.inRange v = false → p.fromPrim v = none) := by
  constructor
  · intro h
    exact ⟨p.fromNative v, by simp [PTy.fromPrim, h], C16_size p v, C16_native_roundtrip p hn v h⟩
  · intro h; simp [PTy.fromPrim, h]

/-- `ToPrimitive::to_{u64,i64}` of a stored value: `Some` exactly when the native value is in the target's range, and then it
is the native value -/
theorem C16_toPrim (v : Int) :
    (∀ r, PTy.toU64 v = some r → r = v ∧ 0 ≤ v ∧ v < 2 ^ 64) ∧ (∀ r, PTy.toI64 v = some r → r = v ∧ -(2 ^ 63) ≤ v ∧ v < 2 ^ 63) := by
  constructor
  · intro r h
    unfold PTy.toU64 at h
    split at h
    · injection h with h; subst h; refine ⟨rfl, ?_, ?_⟩ <;> omega
    · cases h
  · intro r h
    unfold PTy.toI64 at h
    split at h
    · injection h with h; subst h; refine ⟨rfl, ?_, ?_⟩ <;> omega
    · cases h

/-- unsigned big-endian patterns of one width order like their values when compared as byte strings of numbers — the reason
the library cannot derive `Ord` on the byte array for the other fifteen types: a little-endian witness where the orders differ -/
example : (⟨false, 2, false⟩ : PTy).toNative [0x00, 0x01] > (⟨false, 2, false⟩ : PTy).toNative [0xff, 0x00] := by decide
example : (⟨true, 2, true⟩ : PTy).binop "add" 32767 1 = none ∧ (⟨true, 2, true⟩ : PTy).binop "div" (-32768) (-1) = none ∧
    (⟨true, 2, true⟩ : PTy).binop "rem" (-32768) (-1) = none ∧ (⟨true, 2, false⟩ : PTy).binop "sub" 0 1 = none := by decide
end FV.Props
