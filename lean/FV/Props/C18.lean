import FV.Props.C03
/-! # C18 — a failed in-place assignment leaves a valid value behind

`assign_in_place` runs the emplacer unchecked on the bytes of the current value. The property holds for the container
emplacers (they write a consistent header before and after filling), and the theorems below prove that for every
element / item type. It does **not** hold for every generated `…Init`: the code writes tag and sized fields before it
knows whether the last field's emplacer will succeed (known findings F17, F8c in `known_findings.json`); the model
follows the code, and `C18_nested_enum_counterexample` proves the failure in the model for the recorded witness, so the
general statement stays unproved (`_partial`) on purpose. -/
namespace FV.Props
open FV

/-- **`FlatVec` from an iterator**: whatever the outcome — also `Err(InsufficientSize)` — the bytes validate. -/
theorem C18_vec_from_iterator_partial (et : Ty) (hL : Law et.dict) (sz : Nat) (hsz : et.dict.sized = some sz)
    (l : LenTy) (hl : l.Law) (xs : List Bytes) (hxs : ∀ x ∈ xs, ValidImage et.dict x) (s : Slice)
    (hal : s.addr % max l.align et.dict.align = 0) (hlen : max l.size et.dict.align ≤ s.len) :
    ∃ o, emplaceU (.vec et l) (.vecIter xs) s = .ok o ∧ o.bytes.length = s.len ∧
      (vecD et.dict l).validateU ⟨s.addr, o.bytes⟩ = .ok () ∧
      (∀ e, o.res = .error e → e.kind = .insufficientSize ∨ e.kind = .badAlign) :=
  C03_vec_from_iterator et hL sz hsz l hl xs hxs s hal hlen

/-- **`FlexVec` from an iterator, for every item type and every item initialiser**: whatever the outcome — an item
that does not fit, an item whose own emplacer fails, an offset that the length type cannot represent — the chain that
is left behind validates (it holds the items that were completed). -/
theorem C18_flex_from_iterator_partial (it : Ty) (h : it.WF) (l : LenTy) (hl : l.Law) (items : List Init)
    (hw : InitWTL it items) (s : Slice) (hal : s.addr % (Ty.flex it l).dict.align = 0)
    (hlen : (Ty.flex it l).dict.minSize ≤ s.len) :
    ∃ o, emplaceU (.flex it l) (.flexIter items) s = .ok o ∧ o.bytes.length = s.len ∧
      (Ty.flex it l).dict.validateU ⟨s.addr, o.bytes⟩ = .ok () ∧
      (∀ e, o.res = .error e → e.kind = .insufficientSize ∨ e.kind = .badAlign) := by
  obtain ⟨o, h1, h2, h3⟩ := emplace_flexIter_spec it (Ty.law it h) (Ty.frameLaw it h) l hl items
    (emplaceU_okL items it h hw) s hal hlen
  exact ⟨o, h1, h2.len, h3, h2.kinds⟩

/-- non-vacuity: `FlexVec<FlatVec<u8,u16>, u16>` from two items into 10 bytes: the second does not fit, the first stays -/
example : emplaceU (.flex (.vec u8 L16) L16) (.flexIter [.vecArr [[1],[2]], .vecArr [[3],[4],[5],[6],[7]]]) ⟨0, [9,9,9,9,9,9,9,9,9,9]⟩ =
    .ok ⟨[255,255,2,0,1,2,9,9,0,0], .error ⟨.insufficientSize, 8⟩⟩ := by decide +kernel

/-! ### the known finding, in the model -/
def Inner : Ty := .uenum L8 [[], [.vec u8 L16]]
def Outer : Ty := .uenum L8 [[u32], [u8, Inner]]

/-- **C18 is false of the code as it stands (finding F17), shown in the model.** An 8-byte `Outer::A(0x07070707)` is valid;
assigning `Outer::B(1, Inner::Y(flat_vec![1,2,3]))` fails with `InsufficientSize` — and leaves tag `B` and field `1`
written in front of stale bytes that are not a valid `Inner`. The same input is replayed against the implementation by
the correspondence check (corpus line "F17 witness"). -/
theorem C18_nested_enum_counterexample :
    Outer.dict.validate ⟨0, [0,0xEE,0xEE,0xEE,7,7,7,7]⟩ = .ok () ∧
    assign Outer (.uenum 1 [[1]] (some (.uenum 1 [] (some (.vecArr [[1],[2],[3]]))))) ⟨0, [0,0xEE,0xEE,0xEE,7,7,7,7]⟩ =
      .ok ⟨[1,0xEE,0xEE,0xEE,1,7,7,7], .error ⟨.insufficientSize, 2⟩⟩ ∧
    Outer.dict.validate ⟨0, [1,0xEE,0xEE,0xEE,1,7,7,7]⟩ = .err ⟨.invalidEnumTag, 6⟩ := by decide +kernel
end FV.Props
