import FV.Props.C03
import FV.AssignSafe
import FV.SizeView
import FV.ErrLaw
/-! # C18 — a failed in-place assignment leaves a valid value behind

`assign_in_place` runs the emplacer unchecked on the bytes of the current value. The property holds for the container
emplacers (they write a consistent header before and after filling), and the theorems below prove that for every
element / item type. It does **not** hold for every generated `…Init`: the code writes tag and sized fields before it
knows whether the last field's emplacer will succeed (known findings F17, F8c in `known_findings.json`); the model
follows the code, and `C18_nested_enum_counterexample` proves the failure in the model for the recorded witness.

`C18_failed_assign_leaves_valid` is the positive half at full generality: for the class `AssignOK` — every type except an
unsized enum with a variant whose last field is (or ends in) another unsized enum, and a struct ending in such a field — a failed
`assign_in_place` leaves a valid value, for every initialiser and every valid target. The counterexample lies just outside that
class, so the class is sharp. -/
namespace FV.Props
open FV

/-- **`FlatVec` from an iterator**: whatever the outcome — also `Err(InsufficientSize)` — the bytes validate. -/
theorem C18_vec_from_iterator_partial (et : Ty) (hL : Law et.dict) (sz : Nat) (hsz : et.dict.sized = some sz)
    (l : LenTy) (hl : l.Law) (xs : List Bytes) (hxs : ∀ x ∈ xs, ValidImage et.dict x) (s : Slice)
    (hal : s.addr % max l.align et.dict.align = 0) (hlen : max l.size et.dict.align ≤ s.len) :
    ∃ o, emplaceU (.vec et l) (.vecIter xs) s = .ok o ∧ o.bytes.length = s.len ∧
      (vecD et.dict l).validateU ⟨s.addr, o.bytes⟩ = .ok () ∧
      (∀ e, o.res = .error e → e.kind = .insufficientSize ∨ e.kind = .badAlign) :=
  C03_vec_from_iterator et hL sz hsz l hl xs hxs s hal hlen

/-- **`FlexVec` from an iterator, for every item type and every item initialiser**: whatever the outcome — an item
that does not fit, an item whose own emplacer fails, an offset that the length type cannot represent — the chain that
is left behind validates (it holds the items that were completed). -/
theorem C18_flex_from_iterator_partial (it : Ty) (h : it.WF) (l : LenTy) (hl : l.Law) (items : List Init)
    (hw : InitWTL it items) (s : Slice) (hal : s.addr % (Ty.flex it l).dict.align = 0)
    (hlen : (Ty.flex it l).dict.minSize ≤ s.len) :
    ∃ o, emplaceU (.flex it l) (.flexIter items) s = .ok o ∧ o.bytes.length = s.len ∧
      (Ty.flex it l).dict.validateU ⟨s.addr, o.bytes⟩ = .ok () ∧
      (∀ e, o.res = .error e → e.kind = .insufficientSize ∨ e.kind = .badAlign) := by
  obtain ⟨o, h1, h2, h3⟩ := emplace_flexIter_spec it (Ty.law it h) (Ty.frameLaw it h) l hl items
    (emplaceU_okL items it h hw) s hal hlen
  exact ⟨o, h1, h2.len, h3, h2.kinds⟩

/-- non-vacuity: `FlexVec<FlatVec<u8,u16>, u16>` from two items into 10 bytes: the second does not fit, the first stays -/
example : emplaceU (.flex (.vec u8 L16) L16) (.flexIter [.vecArr [[1],[2]], .vecArr [[3],[4],[5],[6],[7]]]) ⟨0, [9,9,9,9,9,9,9,9,9,9]⟩ =
    .ok ⟨[255,255,2,0,1,2,9,9,0,0], .error ⟨.insufficientSize, 8⟩⟩ := by decide +kernel

/-! ### the known finding, in the model -/
def Inner : Ty := .uenum L8 [[], [.vec u8 L16]]
def Outer : Ty := .uenum L8 [[u32], [u8, Inner]]

/-- **C18 is false of the code as it stands (finding F17), shown in the model.** An 8-byte `Outer::A(0x07070707)` is valid;
assigning `Outer::B(1, Inner::Y(flat_vec![1,2,3]))` fails with `InsufficientSize` — and leaves tag `B` and field `1`
written in front of stale bytes that are not a valid `Inner`. The same input is replayed against the implementation by
the correspondence check (corpus line "F17 witness"). -/
theorem C18_nested_enum_counterexample :
    Outer.dict.validate ⟨0, [0,0xEE,0xEE,0xEE,7,7,7,7]⟩ = .ok () ∧
    assign Outer (.uenum 1 [[1]] (some (.uenum 1 [] (some (.vecArr [[1],[2],[3]]))))) ⟨0, [0,0xEE,0xEE,0xEE,7,7,7,7]⟩ =
      .ok ⟨[1,0xEE,0xEE,0xEE,1,7,7,7], .error ⟨.insufficientSize, 2⟩⟩ ∧
    Outer.dict.validate ⟨0, [1,0xEE,0xEE,0xEE,1,7,7,7]⟩ = .err ⟨.invalidEnumTag, 6⟩ := by decide +kernel

/-- **C18 (the target is still a valid value), for every type of the class `AssignOK`.** `AssignOK t` holds for sized values,
`FlatVec`, `FlatString`, `FlexVec` (of anything), an unsized struct whose last field is a container or again such a struct, and an
unsized enum each of whose variants ends — if it has an unsized field at all — in such a field (`GSafe`). For every such type,
every well-typed initialiser and every slice holding a valid value: `assign_in_place` never faults, keeps the length, and —
**whether it returns `Ok` or `Err`** — leaves bytes that validate, so the value can be inspected, measured and assigned again. -/
theorem C18_failed_assign_leaves_valid (t : Ty) (h : t.WF) (hok : AssignOK t) (i : Init) (hw : InitWT t i) (s : Slice)
    (hv : t.dict.validate s = .ok ()) :
    ∃ o, assign t i s = .ok o ∧ o.bytes.length = s.len ∧ t.dict.validate ⟨s.addr, o.bytes⟩ = .ok () := by
  obtain ⟨ha, hl, _⟩ := validate_ok_iff.1 hv
  obtain ⟨z, v, _, hvw, _, hvle, hown⟩ := own_bytes_validate t h s hv
  obtain ⟨ha', hl', hu'⟩ := validate_ok_iff.1 hown
  obtain ⟨o, ho, hol, hval⟩ := emplaceU_assign_valid i t h hw hok (s.take v) ha' hl' hu'
  have hol' : o.bytes.length = v := by simp only [Slice.len_take] at hol; omega
  have hsl : s.len = s.bytes.length := rfl
  refine ⟨⟨o.bytes ++ s.bytes.drop v, o.res⟩, by simp only [assign, hvw, Res.bind_ok, ho], ?_, ?_⟩
  · simp only [List.length_append, List.length_drop, hol']; omega
  · have hx : Ext ⟨s.addr, o.bytes⟩ ⟨s.addr, o.bytes ++ s.bytes.drop v⟩ :=
      ⟨rfl, by simp [Slice.len], by simp [Slice.len]⟩
    have hmin : t.dict.minSize ≤ (⟨s.addr, o.bytes⟩ : Slice).len := by
      simp only [Slice.len, hol']; simp only [Slice.len_take] at hl'; omega
    exact validate_ok_iff.2 ⟨ha, by simp only [Slice.len, List.length_append, List.length_drop, hol']; omega,
      (Ty.frameLaw t h).ext (by simpa using ha') hmin hx (by simpa using hval)⟩

/-- the class is sharp: `Outer` of the counterexample is the smallest shape outside it … -/
example : ¬ AssignOK Outer := by
  simp only [AssignOK, Outer]
  intro hh
  exact hh [u8, Inner] (by simp) Inner (by simp) 
/-- … while `E1` (variants ending in a `FlatVec`), `S1` and `FlexVec<S1>` are inside -/
example : AssignOK E1 ∧ AssignOK S1 ∧ AssignOK FlexS1 := by
  refine ⟨?_, ?_, ?_⟩
  · simp only [AssignOK, E1]
    intro v hv lt hlt
    simp only [List.mem_cons, List.not_mem_nil, or_false] at hv
    rcases hv with rfl | rfl | rfl | rfl <;> simp at hlt <;> subst hlt <;> simp [GSafe, u16, u32]
  · simp [AssignOK, S1, GSafe]
  · simp [AssignOK, FlexS1]
end FV.Props
