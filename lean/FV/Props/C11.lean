import FV.Props.Catalog
import FV.VecRefine
import FV.StrRefine
import FV.VecObs
/-! # C11 — FlatVec / FlatString = capacity-bounded Vec / String under every history

`vecOp` is the operation as `stavec::GenericVec` performs it on the mapped bytes (the model the correspondence check compares
with the real code byte for byte on every step of every generated history); `elemsOf` is the abstraction function;
`specVec` is an ordinary `Vec` whose growth is refused beyond the fixed capacity (with `Vec`'s panics for out-of-range
`remove` / `swap_remove` / `resize` / index writes). The invariant `VInv` is re-established by every step, so the statement
lifts to every finite history by induction (`C11_history`). `stavec` is an external crate: it is *modelled* here. -/
namespace FV.Props
open FV

/-- **C11 (one step).** For every element size, length type, buffer and state satisfying the invariant, and every operation whose
arguments are element images: the operation never faults, keeps the buffer length, returns what the bounded `Vec` returns, leaves
exactly the bounded `Vec`'s sequence, and re-establishes the invariant — in particular the capacity (a function of the buffer length
only) never changes and `len ≤ capacity`. -/
theorem C11_vec_step_refines (g : VecGeo) (bs : Bytes) (len : Nat) (hI : VInv g bs len) (op : Op) (hop : OpWF g op) :
    ∃ o, vecOp g bs len op = .ok o ∧ o.bytes.length = bs.length ∧
      ∃ len', VInv g o.bytes len' ∧ (o.ret, elemsOf g o.bytes len') = specVec g.cap (elemsOf g bs len) op :=
  vecOp_refines g bs len hI op hop

/-- the abstract machine run over a history -/
def specRun (cap : Nat) : List Bytes → List Op → List Bytes
  | xs, [] => xs
  | xs, op :: ops => specRun cap (specVec cap xs op).2 ops
/-- the byte-level machine run over a history (`none` on a fault) -/
def vecRun (g : VecGeo) : Bytes → Nat → List Op → Option (Bytes × Nat)
  | bs, len, [] => some (bs, len)
  | bs, len, op :: ops =>
    match vecOp g bs len op with
    | .ok o => vecRun g o.bytes (g.cfg.decLen o.bytes) ops
    | _ => none

/-- **C11 (every history).** After any finite sequence of operations the mapped vector holds exactly what the bounded `Vec` holds,
no step faults, and the invariant (hence the fixed capacity) holds at the end. -/
theorem C11_history (g : VecGeo) : ∀ (ops : List Op) (bs : Bytes) (len : Nat), VInv g bs len → (∀ op ∈ ops, OpWF g op) →
    ∃ bs' len', vecRun g bs len ops = some (bs', len') ∧ VInv g bs' len' ∧ bs'.length = bs.length ∧
      elemsOf g bs' len' = specRun g.cap (elemsOf g bs len) ops := by
  intro ops
  induction ops with
  | nil => intro bs len hI _; exact ⟨bs, len, rfl, hI, rfl, rfl⟩
  | cons op ops ih =>
    intro bs len hI hops
    obtain ⟨o, ho, hl, len', hI', hspec⟩ := vecOp_refines g bs len hI op (hops op (by simp))
    have hdec : g.cfg.decLen o.bytes = len' := hI'.dec
    obtain ⟨bs', len'', hrun, hI'', hl'', hel⟩ := ih o.bytes len' hI' (fun x hx => hops x (by simp [hx]))
    refine ⟨bs', len'', by simp [vecRun, ho, hdec, hrun], hI'', by omega, ?_⟩
    rw [hel]
    simp only [specRun]
    have : (specVec g.cap (elemsOf g bs len) op).2 = elemsOf g o.bytes len' := by rw [← hspec]
    rw [this]

/-- **C11 (tie to validity).** A slice that validates as `FlatVec<T, L>` satisfies the invariant with the geometry `ptr_from_bytes`
derives from the slice length and with the length the length field holds. -/
theorem C11_valid_gives_invariant (d : Dict) (sz : Nat) (hss : d.ssize = sz) (l : LenTy) (hl : l.Law) (s : Slice)
    (hlen : max l.size d.align ≤ s.len) (hv : (vecD d l).validateU s = .ok ()) :
    ∃ g len, vecGeo d l s.len = .ok g ∧ l.readU s = .ok len ∧ VInv g s.bytes len ∧ g.S = sz ∧ g.l = l :=
  vinv_of_valid d sz hss l hl s hlen hv

/-- non-vacuity: `FlatVec<u16, u16>` holding [1] in a 7-byte buffer (capacity 2): push 2 succeeds, push 3 is refused -/
example : vecOp ⟨L16, 2, 2, 2⟩ [1,0, 1,0, 9,9, 9] 1 (.push [2,0]) = .ok ⟨.ok, [2,0, 1,0, 2,0, 9]⟩ := by decide
example : vecOp ⟨L16, 2, 2, 2⟩ [2,0, 1,0, 2,0, 9] 2 (.remove 0) = .ok ⟨.elem [1,0], [1,0, 2,0, 2,0, 9]⟩ := by decide
example : VInv ⟨L16, 2, 2, 2⟩ [1,0, 1,0, 9,9, 9] 1 := ⟨by decide, by decide, by decide, by decide, by decide⟩

/-- **C11 for `FlatString`: `push(char)` / `push_str` on a valid string.** The slice validates as `FlatString<L>` (so the text is
valid UTF-8 within the capacity the slice leaves); valid UTF-8 bytes are pushed. Then the operation never faults and keeps the
buffer length; it is accepted exactly when the new text fits the capacity, and the text is then the old text followed by the pushed
bytes; otherwise it is refused and no byte changes; and **in both cases the bytes validate again** with the same geometry — the
capacity never changes and the text stays valid UTF-8. (`clear`, which only rewrites the length field, is the `clear` of
`C11_vec_step_refines` with element size 1.) -/
theorem C11_str_push (l : LenTy) (s : Slice) (hlen : l.size ≤ s.len) (hv : (strD l).validateU s = .ok ()) (xs : Bytes)
    (hxs : Utf8Ok xs) :
    ∃ g len o, strGeo l s.len = .ok g ∧ l.readU s = .ok len ∧ vecOp g s.bytes len (.pushBytes xs) = .ok o ∧
      o.bytes.length = s.len ∧ (strD l).validateU ⟨s.addr, o.bytes⟩ = .ok () ∧
      (len + xs.length ≤ g.cap → o.ret = .ok ∧ l.readU ⟨s.addr, o.bytes⟩ = .ok (len + xs.length) ∧
        strText g o.bytes (len + xs.length) = strText g s.bytes len ++ xs) ∧
      (g.cap < len + xs.length → o.ret = .full ∧ o.bytes = s.bytes) := by
  obtain ⟨g, len, hg, hr, hI, hS, hu⟩ := (str_valid_iff l s hlen).1 hv
  obtain ⟨o, ho, hol, hok, hfull⟩ := pushBytes_refines g hS s.bytes len hI xs
  obtain ⟨len', hI', hu'⟩ := pushBytes_keeps_utf8 g hS s.bytes len hI xs hu hxs o ho
  have hal : s.addr % l.align = 0 := by
    unfold LenTy.readU at hr
    by_cases h : s.addr % l.align = 0
    · exact h
    · have : ¬ s.len < l.size := by omega
      simp [this, h] at hr
  have hgl : g.l = l ∧ g.dOff = l.size := by
    have : ¬ s.len < l.size := by omega
    simp only [strGeo, this, if_false, Res.ok.injEq] at hg
    subst hg; exact ⟨rfl, rfl⟩
  have hread : ∀ n, VInv g o.bytes n → l.readU ⟨s.addr, o.bytes⟩ = .ok n := by
    intro n hn
    have h1 : ¬ (⟨s.addr, o.bytes⟩ : Slice).len < l.size := by simp only [Slice.len]; rw [hol]; exact Nat.not_lt.2 hlen
    have hd := hn.dec
    unfold VecCfg.decLen VecGeo.cfg at hd
    simp only [hgl.1] at hd
    simp only [LenTy.readU, h1, if_false, hal, ne_eq, not_true_eq_false, Res.ok.injEq]
    exact hd
  have hlen' : l.size ≤ (⟨s.addr, o.bytes⟩ : Slice).len := by simp only [Slice.len]; rw [hol]; exact hlen
  refine ⟨g, len, o, hg, hr, ho, hol, ?_, ?_, hfull⟩
  · apply (str_valid_iff l ⟨s.addr, o.bytes⟩ hlen').2
    refine ⟨g, len', ?_, hread len' hI', hI', hS, hu'⟩
    show strGeo l o.bytes.length = .ok g
    rw [hol]; exact hg
  · intro hfit
    obtain ⟨h1, h2, h3⟩ := hok hfit
    exact ⟨h1, hread _ h2, h3⟩

/-- non-vacuity: `FlatString<u8>` holding "a" in 4 bytes (capacity 3): pushing "é" (2 bytes) fits, pushing 3 more bytes does not -/
example : (strD ⟨1, 1, false⟩).validateU ⟨0, [1, 0x61, 9, 9]⟩ = .ok () ∧ utf8ValidUpTo 3 0 [0xC3, 0xA9] = none ∧
    vecOp ⟨⟨1, 1, false⟩, 1, 1, 3⟩ [1, 0x61, 9, 9] 1 (.pushBytes [0xC3, 0xA9]) = .ok ⟨.ok, [3, 0x61, 0xC3, 0xA9]⟩ ∧
    vecOp ⟨⟨1, 1, false⟩, 1, 1, 3⟩ [1, 0x61, 9, 9] 1 (.pushBytes [0x62, 0x63, 0x64]) = .ok ⟨.full, [1, 0x61, 9, 9]⟩ := by decide

/-- **C11 (observable state after every history).** Start from any slice that validates as `FlatVec<T, L>` and apply any finite
sequence of operations (arguments are element images). Then no step faults, the buffer keeps its length, and on the bytes left
behind: the elements are those of the bounded `Vec` (`xs`), `len()` (the length field as `L` reads it) is `xs.length`, which is within
the capacity; `size()` (the type's own size function) is the reference extent `ceil(DATA_OFFSET + size_of::<T>() * xs.length, ALIGN)`;
and the geometry derived from the buffer — in particular the capacity — is the one derived before the history. -/
theorem C11_history_observables (d : Dict) (l : LenTy) (hl : l.Law) (s : Slice)
    (hlen : max l.size d.align ≤ s.len) (hv : (vecD d l).validateU s = .ok ()) (ops : List Op)
    (hops : ∀ g, vecGeo d l s.len = .ok g → ∀ op ∈ ops, OpWF g op) :
    ∃ g len bs' len', vecGeo d l s.len = .ok g ∧ l.readU s = .ok len ∧ vecRun g s.bytes len ops = some (bs', len') ∧
      bs'.length = s.len ∧ vecGeo d l bs'.length = .ok g ∧
      elemsOf g bs' len' = specRun g.cap (elemsOf g s.bytes len) ops ∧
      len' = (specRun g.cap (elemsOf g s.bytes len) ops).length ∧ len' ≤ g.cap ∧
      l.readU ⟨s.addr, bs'⟩ = .ok len' ∧
      (vecD d l).size ⟨s.addr, bs'⟩ = .ok (ceilMul (max l.size d.align + d.ssize * len') (max l.align d.align)) := by
  obtain ⟨g, len, hg, hr, hI, _, hgl⟩ := C11_valid_gives_invariant d d.ssize rfl l hl s hlen hv
  obtain ⟨bs', len', hrun, hI', hlen', hel⟩ := C11_history g ops s.bytes len hI (hops g hg)
  obtain ⟨hal, hsz⟩ := readU_ok_aligned l s len hr
  have hsl : s.len = s.bytes.length := rfl
  have hread : l.readU ⟨s.addr, bs'⟩ = .ok len' := by
    have h := readU_of_dec l s.addr bs' g.S g.dOff (by omega) hal
    have hdec := hI'.dec
    unfold VecGeo.cfg at hdec
    rw [hgl] at hdec
    rw [h, hdec]
  refine ⟨g, len, bs', len', hg, hr, hrun, by omega, by rw [hlen', ← hsl]; exact hg, hel, ?_, hI'.len_le, hread, ?_⟩
  · rw [← hel]; simp
  · simp only [vecD, hread, Bind.bind, Res.bind]
    rfl

/-- non-vacuity: `FlatVec<u16, u16>` [1] in a 7-byte buffer validates, and `push 2; push 3; pop` is a well-formed history -/
example : (vecD (primD 2 2) L16).validateU ⟨0, [1,0, 1,0, 9,9, 9]⟩ = .ok () := by decide

/-- a history of `push` / `push_str` calls on a mapped `FlatString<L>` at address `addr`, as the code performs it: geometry from the
buffer length, current length from the length field, then the byte-level operation (`none` on a fault) -/
def strRun (l : LenTy) (addr : Nat) : Bytes → List Bytes → Option Bytes
  | bs, [] => some bs
  | bs, xs :: rest =>
    match strGeo l bs.length, l.readU ⟨addr, bs⟩ with
    | .ok g, .ok len =>
      match vecOp g bs len (.pushBytes xs) with
      | .ok o => strRun l addr o.bytes rest
      | _ => none
    | _, _ => none

/-- **C11 for `FlatString`, every history.** From any slice that validates as `FlatString<L>`, any finite sequence of `push` / `push_str`
calls with valid UTF-8 arguments — accepted or refused, in any order — never faults, keeps the buffer length, and leaves bytes that
validate as `FlatString<L>` again: the text is valid UTF-8 within the unchanged capacity after every history. -/
theorem C11_str_history (l : LenTy) (addr : Nat) : ∀ (xss : List Bytes) (bs : Bytes), l.size ≤ bs.length →
    (strD l).validateU ⟨addr, bs⟩ = .ok () → (∀ xs ∈ xss, Utf8Ok xs) →
    ∃ bs', strRun l addr bs xss = some bs' ∧ bs'.length = bs.length ∧ (strD l).validateU ⟨addr, bs'⟩ = .ok () := by
  intro xss
  induction xss with
  | nil => intro bs _ hv _; exact ⟨bs, rfl, rfl, hv⟩
  | cons xs rest ih =>
    intro bs hlen hv hall
    obtain ⟨g, len, o, hg, hr, ho, hol, hv', _, _⟩ := C11_str_push l ⟨addr, bs⟩ hlen hv xs (hall xs (by simp))
    have hol' : o.bytes.length = bs.length := hol
    obtain ⟨bs', hrun, hl', hv''⟩ := ih o.bytes (by omega) hv' (fun x hx => hall x (by simp [hx]))
    have hg' : strGeo l bs.length = .ok g := hg
    refine ⟨bs', ?_, by omega, hv''⟩
    simp only [strRun, hg', hr, ho]
    exact hrun
/-- non-vacuity: "a" in a 4-byte `FlatString<u8>`; push "é" (fits), then "bcd" (refused): the run ends on the bytes after the first push -/
example : strRun ⟨1, 1, false⟩ 0 [1, 0x61, 9, 9] [[0xC3, 0xA9], [0x62, 0x63, 0x64]] = some [3, 0x61, 0xC3, 0xA9] := by decide

end FV.Props
