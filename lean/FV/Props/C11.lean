import FV.Props.Catalog
import FV.Ops
/-! # C11 / C13 (FlatVec part) — `FlatVec` on bytes refines a capacity-bounded list (first instalment: push, pop)

`vecOp` is the operation as `stavec::GenericVec` performs it on the mapped bytes (the model the correspondence check
compares with the real code on every step of every generated history). `elems` is the abstraction function. -/
namespace FV.Props
open FV

/-- abstraction: the elements of the vector as byte chunks -/
def elems (g : VecGeo) (bs : Bytes) (len : Nat) : List Bytes := (List.range len).map (g.elemAt bs)

def cfgOf (g : VecGeo) : VecCfg := ⟨g.S, g.dOff, g.l⟩

theorem elems_eq (g : VecGeo) (bs : Bytes) : elems g bs ((cfgOf g).decLen bs) = (cfgOf g).elems bs := rfl

@[simp] theorem cfgOf_S (g : VecGeo) : (cfgOf g).S = g.S := rfl
@[simp] theorem cfgOf_dOff (g : VecGeo) : (cfgOf g).dOff = g.dOff := rfl
@[simp] theorem cfgOf_encLen (g : VecGeo) (n : Nat) : (cfgOf g).encLen n = encLenTy g.l n := rfl

theorem vecOp_push_eq (g : VecGeo) (bs x : Bytes) (hx : x.length = g.S) :
    vecOp g bs ((cfgOf g).decLen bs) (.push x) =
      ((cfgOf g).push g.cap bs x).bind fun (r, ok) => .ok ⟨if ok then .ok else .full, r⟩ := by
  simp only [vecOp, VecCfg.push]
  by_cases h : (cfgOf g).decLen bs = g.cap
  · simp [h]
  · simp only [h, if_false, VecGeo.appendAll, vecWriteElems, hx, if_true, VecGeo.setLen, cfgOf_S, cfgOf_dOff, cfgOf_encLen,
      List.length_cons, List.length_nil, Res.bind_eq, Res.pure_eq, Nat.zero_add]
    cases h1 : writeAt bs (g.dOff + (cfgOf g).decLen bs * g.S) x with
    | ok b1 =>
      simp only [Res.bind_ok]
      cases h2 : writeAt b1 0 (encLenTy g.l ((cfgOf g).decLen bs + 1)) <;> simp
    | err e => simp
    | fault f => simp

/-- **C11 (push) / C13 (FlatVec).** `push` on a valid vector (length within capacity, capacity within the buffer and within
the length type): never faults and keeps the buffer length; when the vector is full it is refused and *nothing at all* changes
(C13); otherwise the abstract sequence gets the item appended and the length grows by one. The capacity `g.cap` is a function
of the buffer length only, so it never changes. -/
theorem C11_push_refines (g : VecGeo) (bs x : Bytes) (hd : g.l.size ≤ g.dOff) (hx : x.length = g.S)
    (hcap : g.cap < 256 ^ g.l.size) (hlen : (cfgOf g).decLen bs ≤ g.cap) (hroom : g.dOff + g.cap * g.S ≤ bs.length) :
    ∃ o, vecOp g bs ((cfgOf g).decLen bs) (.push x) = .ok o ∧ o.bytes.length = bs.length ∧
      (o.ret = .full → (cfgOf g).decLen bs = g.cap ∧ o.bytes = bs) ∧
      (o.ret = .ok → elems g o.bytes ((cfgOf g).decLen o.bytes) = elems g bs ((cfgOf g).decLen bs) ++ [x] ∧
        (cfgOf g).decLen o.bytes = (cfgOf g).decLen bs + 1) ∧
      (o.ret = .ok ∨ o.ret = .full) := by
  obtain ⟨r, ok, h1, h2, h3, h4⟩ := push_refines (cfgOf g) g.cap bs x hd hx hcap hlen hroom
  rw [vecOp_push_eq g bs x hx, h1]
  cases ok with
  | true =>
    refine ⟨⟨.ok, r⟩, rfl, h2, ?_, ?_, Or.inl rfl⟩
    · intro h; cases h
    · intro _
      obtain ⟨a, b⟩ := h4 rfl
      exact ⟨by rw [elems_eq, elems_eq]; exact b, a⟩
  | false =>
    refine ⟨⟨.full, r⟩, rfl, h2, ?_, ?_, Or.inr rfl⟩
    · intro _; exact h3 rfl
    · intro h; cases h

theorem vecOp_pop_eq (g : VecGeo) (bs : Bytes) :
    vecOp g bs ((cfgOf g).decLen bs) .pop =
      ((cfgOf g).pop bs).bind fun (r, o) => .ok ⟨match o with | some e => .some e | none => .none, r⟩ := by
  simp only [vecOp, VecCfg.pop]
  by_cases h : (cfgOf g).decLen bs = 0
  · simp [h]
  · simp only [h, if_false, VecGeo.setLen, cfgOf_encLen, Res.bind_eq, Res.pure_eq]
    cases h2 : writeAt bs 0 (encLenTy g.l ((cfgOf g).decLen bs - 1)) <;> simp [VecGeo.elemAt, VecCfg.elem]

/-- **C11 (pop).** `pop` never faults; on an empty vector it returns `None` and changes nothing; otherwise it returns exactly
the last element, the abstract sequence loses exactly that element, and the length shrinks by one. -/
theorem C11_pop_refines (g : VecGeo) (bs : Bytes) (hd : g.l.size ≤ g.dOff) (hsz : g.l.size ≤ bs.length)
    (hlen : (cfgOf g).decLen bs < 256 ^ g.l.size) :
    ∃ o, vecOp g bs ((cfgOf g).decLen bs) .pop = .ok o ∧ o.bytes.length = bs.length ∧
      ((cfgOf g).decLen bs = 0 → o.ret = .none ∧ o.bytes = bs) ∧
      (0 < (cfgOf g).decLen bs →
        (∃ e, o.ret = .some e ∧ (elems g bs ((cfgOf g).decLen bs)).getLast? = some e) ∧
        elems g o.bytes ((cfgOf g).decLen o.bytes) = (elems g bs ((cfgOf g).decLen bs)).dropLast ∧
        (cfgOf g).decLen o.bytes = (cfgOf g).decLen bs - 1) := by
  obtain ⟨r, o, h1, h2, h3, h4⟩ := pop_refines (cfgOf g) bs hd hsz hlen
  rw [vecOp_pop_eq g bs, h1]
  refine ⟨_, rfl, h2, ?_, ?_⟩
  · intro h0; obtain ⟨a, b⟩ := h3 h0; subst a; exact ⟨rfl, b⟩
  · intro hpos
    obtain ⟨a, b, c⟩ := h4 hpos
    refine ⟨?_, by rw [elems_eq, elems_eq]; exact b, c⟩
    cases o with
    | none =>
      exfalso
      have : (cfgOf g).elems bs ≠ [] := by
        unfold VecCfg.elems; intro hh
        have := congrArg List.length hh
        simp at this; omega
      rw [eq_comm, List.getLast?_eq_none_iff] at a
      exact this a
    | some e => exact ⟨e, rfl, by rw [elems_eq]; exact a.symm⟩

/-- non-vacuity: `FlatVec<u16, u16>` holding [1] in a 7-byte buffer (capacity 2): push 2 succeeds, push 3 is refused -/
example : vecOp ⟨L16, 2, 2, 2⟩ [1,0, 1,0, 9,9, 9] 1 (.push [2,0]) = .ok ⟨.ok, [2,0, 1,0, 2,0, 9]⟩ := by decide
example : (vecOp ⟨L16, 2, 2, 2⟩ [2,0, 1,0, 2,0, 9] 2 (.push [3,0])).NoFault := by decide
end FV.Props
