import FV.Props.Catalog
import FV.Ops
/-! # C14 — in-place mutation stays inside the value (first instalment)

Every write in the model is a `writeAt`, which *faults* when it does not lie inside the byte list it is given — so a model
run that does not fault has not touched anything outside the slice; the correspondence check compares the entire buffer
after every operation with the model and watches canaries / guard pages around the buffer. -/
namespace FV.Props
open FV

/-- **C14 (byte level).** A write changes no byte before or after the written range and keeps the length. -/
theorem C14_write_frame {bs x : Bytes} {off : Nat} {r : Bytes} (h : writeAt bs off x = .ok r) :
    r.length = bs.length ∧ ∀ a k, (a + k ≤ off ∨ off + x.length ≤ a) → (r.drop a).take k = (bs.drop a).take k :=
  ⟨writeAt_length h, fun a k hk => writeAt_frame h a k hk⟩

/-- **C14 (item edits).** Editing item `i` of a FlexVec through `iter_mut` changes only bytes inside that item's payload
range: everything before it (earlier items, all offset slots up to its own) and everything after it (later items, spare room)
is byte-for-byte as before — provided the nested operation keeps the length of the item's bytes, which every operation of the
model does. -/
theorem C14_item_edit_frame (it : Ty) (l : LenTy) (i : Nat) (op : Op) (s : Slice) (out : OpOut) (off len : Nat)
    (hr : flexItemRange l (max l.size it.dict.align) (floorMul s.len (max l.align it.dict.align) + 1) i 0
      (s.take (floorMul s.len (max l.align it.dict.align))) = .ok (some (off, len)))
    (h : applyOp (.item i op) (.flex it l) s = .ok out) (hin : off + len ≤ s.len)
    (hkeep : ∀ o, applyOp op it ⟨s.addr + off, (s.bytes.drop off).take len⟩ = .ok o → o.bytes.length = len) :
    out.bytes.take off = s.bytes.take off ∧ out.bytes.drop (off + len) = s.bytes.drop (off + len) := by
  simp only [applyOp, hr, Res.bind_ok] at h
  cases hi : applyOp op it ⟨s.addr + off, (s.bytes.drop off).take len⟩ with
  | ok o =>
    rw [hi, Res.bind_ok] at h
    cases h
    have hl := hkeep o hi
    have hsl : s.len = s.bytes.length := rfl
    have hoff : (s.bytes.take off).length = off := by rw [List.length_take]; omega
    constructor
    · rw [List.append_assoc, List.take_append_of_le_length (by omega), List.take_of_length_le (by omega)]
    · have hpre : (s.bytes.take off ++ o.bytes).length = off + len := by rw [List.length_append, hoff, hl]
      rw [List.drop_append_of_le_length (by omega), List.drop_of_length_le (by omega), List.nil_append]
  | err e => rw [hi] at h; simp at h
  | fault f => rw [hi] at h; simp at h
end FV.Props
