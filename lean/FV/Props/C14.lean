import FV.OpLen
import FV.Props.Catalog
import FV.Ops
import FV.Props.C12
/-! # C14 — in-place mutation stays inside the value (first instalment)

Every write in the model is a `writeAt`, which *faults* when it does not lie inside the byte list it is given — so a model
run that does not fault has not touched anything outside the slice; the correspondence check compares the entire buffer
after every operation with the model and watches canaries / guard pages around the buffer. -/
namespace FV.Props
open FV

/-- **C14 (byte level).** A write changes no byte before or after the written range and keeps the length. -/
theorem C14_write_frame {bs x : Bytes} {off : Nat} {r : Bytes} (h : writeAt bs off x = .ok r) :
    r.length = bs.length ∧ ∀ a k, (a + k ≤ off ∨ off + x.length ≤ a) → (r.drop a).take k = (bs.drop a).take k :=
  ⟨writeAt_length h, fun a k hk => writeAt_frame h a k hk⟩

/-- **C14 (item edits).** Editing item `i` of a FlexVec through `iter_mut` changes only bytes inside that item's payload
range: everything before it (earlier items, all offset slots up to its own) and everything after it (later items, spare room)
is byte-for-byte as before — provided the nested operation keeps the length of the item's bytes, which every operation of the
model does. -/
theorem C14_item_edit_frame (it : Ty) (l : LenTy) (i : Nat) (op : Op) (s : Slice) (out : OpOut) (off len : Nat)
    (hr : flexItemRange l (max l.size it.dict.align) (floorMul s.len (max l.align it.dict.align) + 1) i 0
      (s.take (floorMul s.len (max l.align it.dict.align))) = .ok (some (off, len)))
    (h : applyOp (.item i op) (.flex it l) s = .ok out) (hin : off + len ≤ s.len)
    (hkeep : ∀ o, applyOp op it ⟨s.addr + off, (s.bytes.drop off).take len⟩ = .ok o → o.bytes.length = len) :
    out.bytes.take off = s.bytes.take off ∧ out.bytes.drop (off + len) = s.bytes.drop (off + len) := by
  simp only [applyOp, hr, Res.bind_ok] at h
  cases hi : applyOp op it ⟨s.addr + off, (s.bytes.drop off).take len⟩ with
  | ok o =>
    rw [hi, Res.bind_ok] at h
    cases h
    have hl := hkeep o hi
    have hsl : s.len = s.bytes.length := rfl
    have hoff : (s.bytes.take off).length = off := by rw [List.length_take]; omega
    constructor
    · rw [List.append_assoc, List.take_append_of_le_length (by omega), List.take_of_length_le (by omega)]
    · have hpre : (s.bytes.take off ++ o.bytes).length = off + len := by rw [List.length_append, hoff, hl]
      rw [List.drop_append_of_le_length (by omega), List.drop_of_length_le (by omega), List.nil_append]
  | err e => rw [hi] at h; simp at h
  | fault f => rw [hi] at h; simp at h

/-- **C14 (emplace).** For every well-formed type, well-typed initialiser and every buffer, `new_in_place` is a function of the
buffer handed to it that never faults — every write of the model faults as soon as it leaves the byte list it is given — and
returns a buffer of the same length: nothing outside the buffer can have been touched. -/
theorem C14_emplace_inside (t : Ty) (h : t.WF) (i : Init) (hw : InitWT t i) (s : Slice) :
    ∃ o, emplace t i s = .ok o ∧ o.bytes.length = s.len := by
  obtain ⟨o, ho, hol, _⟩ := emplaceSpec_of_wt t h i hw s
  exact ⟨o, ho, hol⟩

/-- **C14 (assign).** `assign_in_place` on a value mapped from `s` (aligned, at least `MIN_SIZE`) changes nothing after the
value's own bytes: the view has length `v ≤ s.len`, the result has the length of `s`, and from `v` on it is `s`. -/
theorem C14_assign_frame (t : Ty) (h : t.WF) (i : Init) (hw : InitWT t i) (s : Slice)
    (hal : s.addr % t.dict.align = 0) (hlen : t.dict.minSize ≤ s.len) :
    ∃ o v, assign t i s = .ok o ∧ t.dict.viewLen s.len = .ok v ∧ v ≤ s.len ∧ o.bytes.length = s.len ∧
      o.bytes.drop v = s.bytes.drop v := by
  obtain ⟨v, hv, hvle, _, hvmin⟩ := (Ty.viewLaw t h).fits s.len hlen
  have hsl : s.len = s.bytes.length := rfl
  obtain ⟨o, ho, hok⟩ := emplaceU_ok i t h hw (s.take v) (by simpa using hal) (by simp only [Slice.len_take]; omega)
  have hol : o.bytes.length = v := by have := hok.len; simp only [Slice.len_take] at this; omega
  refine ⟨⟨o.bytes ++ s.bytes.drop v, o.res⟩, v, by simp only [assign, hv, Res.bind_ok, ho], hv, hvle, ?_, ?_⟩
  · simp only [List.length_append, List.length_drop, hol]; omega
  · rw [List.drop_left' hol]

/-- **C14 (FlexVec truncate / pop / clear).** These operations write at most one offset slot: there is a position `q` such that
every byte outside `[q, q + L::SIZE)` is as before — no item payload is touched. -/
theorem C14_truncate_frame (it : Ty) (l : LenTy) (n : Nat) (data : Slice) (b' : Bytes)
    (h : flexTruncate it l n data = .ok b') :
    b'.length = data.len ∧ ∃ q, ∀ a k, (a + k ≤ q ∨ q + l.size ≤ a) → (b'.drop a).take k = (data.bytes.drop a).take k := by
  unfold flexTruncate at h
  cases hs : flexSlots it l (data.len + 1) 0 data with
  | ok slots =>
    simp only [hs, Res.bind_ok] at h
    split at h
    · cases h; exact ⟨rfl, 0, fun _ _ _ => rfl⟩
    · split at h
      · exact ⟨writeAt_length h, 0, fun a k hk => writeAt_frame h a k (by rw [encLenTy_length]; exact hk)⟩
      · split at h
        · rename_i q _
          exact ⟨writeAt_length h, q, fun a k hk => writeAt_frame h a k (by rw [encLenTy_length]; exact hk)⟩
        · cases h
  | err e => simp [hs] at h
  | fault f => simp [hs] at h

/-- the walker places the fields of a struct or variant one after the other: a later field starts at or after the end of an
earlier one (alignment padding lies between them) -/
theorem posList_disjoint : ∀ (l : List Dict) (q i j Pi Pj : Nat) (di : Dict), (∀ x ∈ l, 0 < x.align) → i < j →
    l[i]? = some di → (posList l q)[i]? = some Pi → (posList l q)[j]? = some Pj → Pi + di.ssize ≤ Pj := by
  intro l
  induction l with
  | nil => intro q i j Pi Pj di _ _ h; simp at h
  | cons a l ih =>
    intro q i j Pi Pj di hpos hij hdi hPi hPj
    cases l with
    | nil =>
      -- one field: there is no `j`
      have : j = 0 := by
        cases j with
        | zero => rfl
        | succ j => simp [posList] at hPj
      omega
    | cons b l' =>
      cases j with
      | zero => omega
      | succ j =>
        simp only [posList, List.getElem?_cons_succ] at hPj
        cases i with
        | zero =>
          simp only [posList, List.getElem?_cons_zero, Option.some.injEq] at hPi hdi
          subst hPi hdi
          have hge := posList_ge (b :: l') (ceilMul (q + a.ssize) b.align) j Pj (fun x hx => hpos x (by simp [hx])) hPj
          have := le_ceilMul (x := q + a.ssize) (hpos b (by simp))
          omega
        | succ i =>
          simp only [posList, List.getElem?_cons_succ] at hPi
          simp only [List.getElem?_cons_succ] at hdi
          exact ih _ i j Pi Pj di (fun x hx => hpos x (by simp [hx])) (by omega) hdi hPi hPj

/-- **C14 (sibling fields).** Writing the image of field `i` of a struct or enum variant at its position changes no byte of
any other field `j` (before or after it), for every field list. -/
theorem C14_field_write_frame (l : List Dict) (hpos : ∀ x ∈ l, 0 < x.align) (q i j Pi Pj : Nat) (di dj : Dict) (hij : i ≠ j)
    (hdi : l[i]? = some di) (hdj : l[j]? = some dj) (hPi : (posList l q)[i]? = some Pi) (hPj : (posList l q)[j]? = some Pj)
    (bs v r : Bytes) (hv : v.length = di.ssize) (hw : writeAt bs Pi v = .ok r) :
    (r.drop Pj).take dj.ssize = (bs.drop Pj).take dj.ssize := by
  apply writeAt_frame hw
  rcases Nat.lt_or_gt_of_ne hij with h | h
  · right; rw [hv]; exact posList_disjoint l q i j Pi Pj di hpos h hdi hPi hPj
  · left; exact posList_disjoint l q j i Pj Pi dj hpos h hdj hPj hPi

/-- the bytes at `[a, a+k)` of the result of `setFieldAt` are those of the input whenever the range does not meet the written field -/
theorem setFieldAt_frame (ds : List Dict) (base i : Nat) (x bs : Bytes) (o : OpOut) (h : setFieldAt ds base i x bs = .ok o) :
    ∃ d P, ds[i]? = some d ∧ (posList ds 0)[i]? = some P ∧ d.sized = some x.length ∧ o.ret = .ok ∧ o.bytes.length = bs.length ∧
      (o.bytes.drop (base + P)).take x.length = x ∧
      ∀ a k, (a + k ≤ base + P ∨ base + P + x.length ≤ a) → (o.bytes.drop a).take k = (bs.drop a).take k := by
  unfold setFieldAt at h
  split at h
  · rename_i d P hd hP
    split at h
    · rename_i hs
      cases hw : writeAt bs (base + P) x with
      | ok r =>
        rw [hw] at h
        simp only [Res.bind] at h
        cases h
        refine ⟨d, P, hd, hP, hs, rfl, writeAt_length hw, ?_, fun a k hk => writeAt_frame hw a k hk⟩
        unfold writeAt at hw
        split at hw
        · cases hw
          rw [List.append_assoc, List.drop_append_of_le_length (by simp; omega)]
          simp
        · cases hw
      | err e => rw [hw] at h; simp [Res.bind] at h
      | fault f => rw [hw] at h; simp [Res.bind] at h
    · cases h
  · cases h

/-- **C14 (field writes through the accessors).** Writing sized field `i` of an unsized struct (`self.field = v`) or of the active
variant of an unsized enum (`*binding = v` through `as_mut()`) — the model of what the generated accessors do, compared with the
real accessors on every `setfield` step of the operation histories — keeps the length of the slice, leaves the new image at the
field's walker position, and changes **no other byte**: in particular no byte of any sibling field `j ≠ i`, sized or not, and nothing
after the value. A `setfield` addressed at a variant that is not the active one changes nothing at all. -/
theorem C14_setField_frame (t : Ty) (v i : Nat) (x : Bytes) (s : Slice) (o : OpOut)
    (h : applyOp (.setField v i x) t s = .ok o) :
    o.bytes.length = s.bytes.length ∧
    (o.ret = .novariant → o.bytes = s.bytes) ∧
    (o.ret = .ok → ∃ P, (o.bytes.drop P).take x.length = x ∧
      ∀ a k, (a + k ≤ P ∨ P + x.length ≤ a) → (o.bytes.drop a).take k = (s.bytes.drop a).take k) := by
  cases t with
  | ustruct fs last =>
    simp only [applyOp] at h
    obtain ⟨d, P, _, _, _, hret, hlen, himg, hfr⟩ := setFieldAt_frame _ 0 i x s.bytes o h
    refine ⟨hlen, ?_, ?_⟩
    · intro hn; rw [hret] at hn; cases hn
    · intro _; exact ⟨0 + P, himg, hfr⟩
  | uenum tag vs =>
    simp only [applyOp] at h
    cases ht : tag.readU s with
    | ok tv =>
      rw [ht] at h
      simp only [Res.bind] at h
      split at h
      · cases h
        refine ⟨rfl, ?_, ?_⟩
        · intro _; rfl
        · intro hn; cases hn
      · obtain ⟨d, P, _, _, _, hret, hlen, himg, hfr⟩ := setFieldAt_frame _ _ i x s.bytes o h
        refine ⟨hlen, ?_, ?_⟩
        · intro hn; rw [hret] at hn; cases hn
        · intro _; exact ⟨_, himg, hfr⟩
    | err e => rw [ht] at h; simp [Res.bind] at h
    | fault f => rw [ht] at h; simp [Res.bind] at h
  | prim _ _ => simp [applyOp] at h
  | bool => simp [applyOp] at h
  | arr _ _ => simp [applyOp] at h
  | sstruct _ => simp [applyOp] at h
  | cenum _ _ => simp [applyOp] at h
  | senum _ _ => simp [applyOp] at h
  | vec et l =>
    simp only [applyOp] at h
    cases hg : vecGeo et.dict l s.len with
    | ok g =>
      rw [hg] at h; simp only [Res.bind] at h
      cases hr : l.readU s with
      | ok len => rw [hr] at h; simp [Res.bind, vecOp] at h
      | err e => rw [hr] at h; simp [Res.bind] at h
      | fault f => rw [hr] at h; simp [Res.bind] at h
    | err e => rw [hg] at h; simp [Res.bind] at h
    | fault f => rw [hg] at h; simp [Res.bind] at h
  | str l =>
    simp only [applyOp] at h
    cases hg : strGeo l s.len with
    | ok g =>
      rw [hg] at h; simp only [Res.bind] at h
      cases hr : l.readU s with
      | ok len => rw [hr] at h; simp [Res.bind, vecOp] at h
      | err e => rw [hr] at h; simp [Res.bind] at h
      | fault f => rw [hr] at h; simp [Res.bind] at h
    | err e => rw [hg] at h; simp [Res.bind] at h
    | fault f => rw [hg] at h; simp [Res.bind] at h
  | flex _ _ => simp [applyOp] at h

def outOf : Res OpOut → Option (OpRet × Bytes)
  | .ok o => some (o.ret, o.bytes)
  | _ => none
/-- non-vacuity: `{ a: u8, b: u16, v: FlatVec<u8, u8> }`, field `b` written at its C offset 2; a `u8`-tagged enum `{ A(u8, u16), B }`
addressed at its active and at another variant -/
example : outOf (applyOp (.setField 0 1 [9, 9]) (.ustruct [.prim 1 1, .prim 2 2] (.vec (.prim 1 1) ⟨1, 1, false⟩)) ⟨0, [7, 0, 1, 2, 0, 0]⟩)
    = some (.ok, [7, 0, 9, 9, 0, 0]) := by decide
example : outOf (applyOp (.setField 0 1 [9, 9]) (.uenum ⟨1, 1, false⟩ [[.prim 1 1, .prim 2 2], []]) ⟨0, [0, 0, 5, 0, 1, 2]⟩)
    = some (.ok, [0, 0, 5, 0, 9, 9]) := by decide
example : outOf (applyOp (.setField 0 1 [9, 9]) (.uenum ⟨1, 1, false⟩ [[.prim 1 1, .prim 2 2], []]) ⟨0, [1, 0, 5, 0, 1, 2]⟩)
    = some (.novariant, [1, 0, 5, 0, 1, 2]) := by decide
/-- **C14 (every vector / string operation).** Whatever `GenericVec` / `GenericString` operation runs on whatever bytes — push, pop,
push_slice, extend, truncate, clear, remove, swap_remove, resize, an indexed write, push_str — if it returns at all it returns a byte
list of exactly the length it was given: every write of the model faults outside its list, so nothing beyond the value was touched. -/
theorem C14_vec_op_keeps_length (g : VecGeo) (bs : Bytes) (len : Nat) (op : Op) (o : OpOut) (h : vecOp g bs len op = .ok o) :
    o.bytes.length = bs.length := vecOp_length g bs len op o h
/-- **C14 (operations on a struct's last field).** `msg.tail.push(..)` — any operation on the unsized last field of a struct — changes
only bytes of that field: the sized fields in front of it (everything before `LAST_FIELD_OFFSET`) and everything behind the struct's
own (floored) bytes are byte-for-byte as before, and the buffer keeps its length — provided the nested operation keeps the length of
the field's bytes, which every operation of the model does (`C14_vec_op_keeps_length` for vectors and strings). -/
theorem C14_last_field_frame (fs : List Ty) (last : Ty) (op : Op) (s : Slice) (out : OpOut)
    (h : applyOp (.last op) (.ustruct fs last) s = .ok out)
    (hkeep : ∀ o, applyOp op last ⟨s.addr + ceilMul (foldSize (dictL fs) 0) last.dict.align,
        (s.bytes.take (floorMul s.len (alignL (dictL fs ++ [last.dict])))).drop (ceilMul (foldSize (dictL fs) 0) last.dict.align)⟩ = .ok o →
      o.bytes.length = floorMul s.len (alignL (dictL fs ++ [last.dict])) - ceilMul (foldSize (dictL fs) 0) last.dict.align) :
    out.bytes.length = s.bytes.length ∧
    out.bytes.take (ceilMul (foldSize (dictL fs) 0) last.dict.align) = s.bytes.take (ceilMul (foldSize (dictL fs) 0) last.dict.align) ∧
    out.bytes.drop (floorMul s.len (alignL (dictL fs ++ [last.dict]))) = s.bytes.drop (floorMul s.len (alignL (dictL fs ++ [last.dict]))) := by
  simp only [applyOp] at h
  split at h
  · cases h
  · rename_i hle
    generalize hn : floorMul s.len (alignL (dictL fs ++ [last.dict])) = n at *
    generalize hlfo : ceilMul (foldSize (dictL fs) 0) last.dict.align = lfo at *
    have hnle : n ≤ s.bytes.length := by rw [← hn]; exact floorMul_le _ _
    cases hi : applyOp op last ⟨s.addr + lfo, (s.bytes.take n).drop lfo⟩ with
    | ok o =>
      rw [hi, Res.bind_ok] at h
      cases h
      have hl := hkeep o hi
      have hpre : (s.bytes.take lfo).length = lfo := by rw [List.length_take]; omega
      have hmid : (s.bytes.take lfo ++ o.bytes).length = n := by rw [List.length_append, hpre, hl]; omega
      refine ⟨?_, ?_, ?_⟩
      · simp only [List.length_append, List.length_drop, hpre, hl]; omega
      · rw [List.append_assoc, List.take_append_of_le_length (by omega), List.take_of_length_le (by omega)]
      · rw [List.drop_append_of_le_length (by omega), List.drop_of_length_le (by omega), List.nil_append]
    | err e => rw [hi] at h; simp at h
    | fault f => rw [hi] at h; simp at h
/-- **C14 (operations on the last field of an enum's current variant).** The same for `if let …Mut::V { tail, .. } = msg.as_mut() { tail.push(..) }`:
the tag, the variant's sized fields (everything before the field) and everything behind the enum's own (floored) payload are as
before, the buffer keeps its length — provided the nested operation keeps the length of the field's bytes; on a variant without an
unsized last field nothing at all changes. -/
theorem C14_last_variant_field_frame (tag : LenTy) (vs : List (List Ty)) (op : Op) (s : Slice) (out : OpOut) (t : Nat)
    (ht : tag.readU s = .ok t)
    (h : applyOp (.last op) (.uenum tag vs) s = .ok out)
    (hkeep : ∀ lt o, (vs.getD t []).getLast? = some lt →
      applyOp op lt ⟨s.addr + ceilMul tag.size (max tag.align (alignLL (dictLL vs))) + lastPos ((dictLL vs).getD t []) 0,
        ((s.bytes.drop (ceilMul tag.size (max tag.align (alignLL (dictLL vs))))).take
          (floorMul (s.len - ceilMul tag.size (max tag.align (alignLL (dictLL vs)))) (max tag.align (alignLL (dictLL vs))))).drop
            (lastPos ((dictLL vs).getD t []) 0)⟩ = .ok o →
      o.bytes.length = floorMul (s.len - ceilMul tag.size (max tag.align (alignLL (dictLL vs)))) (max tag.align (alignLL (dictLL vs))) -
        lastPos ((dictLL vs).getD t []) 0) :
    out.bytes.length = s.bytes.length ∧
    out.bytes.take (ceilMul tag.size (max tag.align (alignLL (dictLL vs))) + lastPos ((dictLL vs).getD t []) 0) =
      s.bytes.take (ceilMul tag.size (max tag.align (alignLL (dictLL vs))) + lastPos ((dictLL vs).getD t []) 0) ∧
    out.bytes.drop (ceilMul tag.size (max tag.align (alignLL (dictLL vs))) +
        floorMul (s.len - ceilMul tag.size (max tag.align (alignLL (dictLL vs)))) (max tag.align (alignLL (dictLL vs)))) =
      s.bytes.drop (ceilMul tag.size (max tag.align (alignLL (dictLL vs))) +
        floorMul (s.len - ceilMul tag.size (max tag.align (alignLL (dictLL vs)))) (max tag.align (alignLL (dictLL vs)))) := by
  simp only [applyOp, ht, Res.bind_ok] at h
  generalize hd : ceilMul tag.size (max tag.align (alignLL (dictLL vs))) = dOff at *
  generalize hn : floorMul (s.len - dOff) (max tag.align (alignLL (dictLL vs))) = n at *
  generalize hp : lastPos ((dictLL vs).getD t []) 0 = lpos at *
  have hnle : n ≤ s.len - dOff := by rw [← hn]; exact floorMul_le _ _
  split at h
  · cases h; exact ⟨rfl, rfl, rfl⟩
  · rename_i lt hlast
    split at h
    · cases h; exact ⟨rfl, rfl, rfl⟩
    · split at h
      · cases h
      · split at h
        · cases h
        · rename_i hroom hle
          cases hi : applyOp op lt ⟨s.addr + dOff + lpos, ((s.bytes.drop dOff).take n).drop lpos⟩ with
          | ok o =>
            rw [hi, Res.bind_ok] at h
            cases h
            have hl := hkeep lt o hlast hi
            have hsl : s.len = s.bytes.length := rfl
            have hpre : (s.bytes.take (dOff + lpos)).length = dOff + lpos := by rw [List.length_take]; omega
            have hmid : (s.bytes.take (dOff + lpos) ++ o.bytes).length = dOff + n := by rw [List.length_append, hpre, hl]; omega
            refine ⟨?_, ?_, ?_⟩
            · simp only [List.length_append, List.length_drop, hpre, hl]; omega
            · rw [List.append_assoc, List.take_append_of_le_length (by omega), List.take_of_length_le (by omega)]
            · rw [List.drop_append_of_le_length (by omega), List.drop_of_length_le (by omega), List.nil_append]
          | err e => rw [hi] at h; simp at h
          | fault f => rw [hi] at h; simp at h
end FV.Props
