import FV.Props.Catalog
import FV.IoSend
import FV.AddrIndep
import FV.EmplaceAccAll
import FV.IoRetain
import FV.WalkAddr
import FV.Props.C03
import FV.Props.C05
import FV.Props.C12
/-! # C07 — blocking IO delivers the sent sequence under every chunking

Pipe = a script with one entry per `read` / `write` call. "Every interleaving of a sender and a receiver thread over a
byte pipe" is "every pair of compositions of the stream into call sizes": with atomic calls thread scheduling adds no
behaviour. The scheduler itself is not modelled. -/
namespace FV.Props
open FV

/-- **C07 (sender).** Whatever partial write sizes (≥ 1) the sink accepts, one send hands over exactly the message
bytes, completes, and does not poison the sender. -/
theorem C07_sender_delivers (msg : Bytes) (evs : List WriteEv) (sink0 : Bytes)
    (hall : ∀ ev ∈ evs, ∃ n, ev = .accept n ∧ 0 < n) (hlen : msg.length ≤ evs.length) :
    (writeAll msg evs 0 sink0 0).out = .done ∧ (writeAll msg evs 0 sink0 0).sink = sink0 ++ msg ∧
      (writeAll msg evs 0 sink0 0).poisoned = false :=
  send_delivers msg evs sink0 hall hlen

/-- **C07 (receiver), for every message type.** For every well-formed type with a non-empty minimum, every list of
messages (each the first `size()` bytes of a valid value), every buffer that holds twice the largest message (what
`Receiver::io(max_msg_len)` allocates), and every script of positive read sizes that is long enough: the sequence of `recv`
results — each guard being dropped before the next call — is exactly the sent messages followed by `Closed`. No fault
(the window assertion of the buffer included), no `OutOfMemory`, nothing that was not sent. -/
theorem C07_receiver_delivers (t : Ty) (h : t.WF) (hmin : 0 < t.dict.minSize) (msgs : List Bytes)
    (hmsgs : ∀ m ∈ msgs, ∀ a, a % t.dict.align = 0 → t.dict.validate ⟨a, m⟩ = .ok () ∧ t.dict.size ⟨a, m⟩ = .ok m.length)
    (base cap : Nat) (hbase : base % t.dict.align = 0) (hcap : 0 < cap) (hfit : ∀ m ∈ msgs, 2 * m.length ≤ cap)
    (evs : List ReadEv) (hevs : Covers evs ((flat msgs).length + 1)) :
    recvLoop t.dict (msgs.length + 1) evs ⟨base, cap, 0, []⟩ (flat msgs) = msgs.map .msg ++ [.closed] :=
  FV.C07_receiver_delivers t h hmin msgs hmsgs base cap hbase hcap hfit evs hevs

/-- **C07 (receiver), the messages being valid *somewhere*.** Validation and `size()` depend on the address only modulo the
alignment (`Ty.addrIndep`, for every well-formed type): a message that was valid in the sender's buffer is valid in the receiver's
window wherever it lands. So it is enough that each sent byte string is the first `size()` bytes of a valid value at *some*
aligned address. -/
theorem C07_receiver_delivers_anywhere (t : Ty) (h : t.WF) (hmin : 0 < t.dict.minSize) (msgs : List Bytes)
    (hmsgs : ∀ m ∈ msgs, ∃ a, a % t.dict.align = 0 ∧ t.dict.validate ⟨a, m⟩ = .ok () ∧ t.dict.size ⟨a, m⟩ = .ok m.length)
    (base cap : Nat) (hbase : base % t.dict.align = 0) (hcap : 0 < cap) (hfit : ∀ m ∈ msgs, 2 * m.length ≤ cap)
    (evs : List ReadEv) (hevs : Covers evs ((flat msgs).length + 1)) :
    recvLoop t.dict (msgs.length + 1) evs ⟨base, cap, 0, []⟩ (flat msgs) = msgs.map .msg ++ [.closed] := by
  apply FV.C07_receiver_delivers t h hmin msgs _ base cap hbase hcap hfit evs hevs
  intro m hm a' ha'
  obtain ⟨a, ha, hv, hz⟩ := hmsgs m hm
  obtain ⟨e1, e2⟩ := validate_any_addr t h m a a' ha ha'
  rw [← e1, ← e2]; exact ⟨hv, hz⟩

/-- **C07 (what the sender puts on the wire is such a message).** A representable content emplaced by the sender into any
aligned buffer that is large enough: the first `size()` bytes of the result — what `send` writes — are `sizeSpec` bytes long, and
they validate with that `size()` at the sender's address, hence (above) at the receiver's. -/
theorem C07_emplaced_is_deliverable (t : Ty) (h : t.WF) (i : Init) (hw : InitWT t i) (hr : Rep t i) (s : Slice)
    (hal : s.addr % t.dict.align = 0) (hlen : sizeSpec t i ≤ s.len) :
    ∃ o, emplaceU t i s = .ok o ∧ o.res = .ok () ∧ (o.bytes.take (sizeSpec t i)).length = sizeSpec t i ∧
      t.dict.validate ⟨s.addr, o.bytes.take (sizeSpec t i)⟩ = .ok () ∧
      t.dict.size ⟨s.addr, o.bytes.take (sizeSpec t i)⟩ = .ok (sizeSpec t i) := by
  obtain ⟨hacc, hge⟩ := emplaceU_acc i t h hw
  have hmin : t.dict.minSize ≤ s.len := by omega
  obtain ⟨o, ho, hok⟩ := emplaceU_ok i t h hw s hal hmin
  obtain ⟨hiff, hsize⟩ := hacc s hal hmin o ho
  have hres : o.res = .ok () := hiff.2 ⟨hr, hlen⟩
  have hv : t.dict.validate ⟨s.addr, o.bytes⟩ = .ok () :=
    validate_ok_iff.2 ⟨hal, by simp only [Slice.len, hok.len]; exact hmin, hok.valid hres⟩
  obtain ⟨z, hz, hzle, _, h1, h2⟩ := C05_size_exact t h ⟨s.addr, o.bytes⟩ hv
  have : z = sizeSpec t i := by rw [hsize hres] at hz; cases hz; rfl
  subst this
  refine ⟨o, ho, hres, ?_, h1, h2⟩
  simp only [Slice.len] at hzle
  simp only [List.length_take]; omega

/-- **C07 ("with equal content").** What the sender specified is what the receiver reads: a representable content emplaced into the
send buffer, cut to the `size()` bytes that `send` writes, and mapped again at *any* aligned address — wherever those bytes come to
lie in the receiver's window — validates, has `size()` equal to its length (so dropping the guard consumes exactly the message)
and reads back, through the accessors, as exactly the content the initialiser specified. With `C07_receiver_delivers` (the byte
strings handed out are the byte strings sent, under every chunking) this is delivery of the sent *values*, not just of bytes. -/
theorem C07_sent_content_arrives (t : Ty) (h : t.WF) (i : Init) (hw : InitWT t i) (hr : Rep t i) (s : Slice)
    (hal : s.addr % t.dict.align = 0) (hlen : sizeSpec t i ≤ s.len) (a' : Nat) (ha' : a' % t.dict.align = 0) :
    ∃ o c, emplaceU t i s = .ok o ∧ o.res = .ok () ∧ specV t i = .ok c ∧
      t.dict.validate ⟨a', o.bytes.take (sizeSpec t i)⟩ = .ok () ∧
      t.dict.size ⟨a', o.bytes.take (sizeSpec t i)⟩ = .ok (o.bytes.take (sizeSpec t i)).length ∧
      (t.dict.walk ⟨a', o.bytes.take (sizeSpec t i)⟩).map Val.strip = .ok c := by
  obtain ⟨hacc, hge⟩ := emplaceU_acc i t h hw
  have hmin : t.dict.minSize ≤ s.len := by omega
  obtain ⟨o, ho, hlen', hread⟩ := C03_emplace_reads_back t h i hw s hal hmin
  obtain ⟨o2, ho2, hres, hl2, hv2, hz2⟩ := C07_emplaced_is_deliverable t h i hw hr s hal hlen
  rw [ho] at ho2; cases ho2
  obtain ⟨hv, c, hc, hwalk⟩ := hread hres
  obtain ⟨hiff, hsize⟩ := hacc s hal hmin o ho
  have hz : t.dict.size ⟨s.addr, o.bytes⟩ = .ok (sizeSpec t i) := hsize hres
  obtain ⟨_, hloc⟩ := C05_truncation_same_content t h ⟨s.addr, o.bytes⟩ hv (sizeSpec t i) hz
  obtain ⟨e1, e2⟩ := validate_any_addr t h (o.bytes.take (sizeSpec t i)) s.addr a' hal ha'
  have ew : t.dict.walk ⟨a', o.bytes.take (sizeSpec t i)⟩ = t.dict.walk ⟨s.addr, o.bytes.take (sizeSpec t i)⟩ :=
    (Ty.walkAddr t h) a' s.addr _ (by rw [ha', hal])
  refine ⟨o, c, ho, hres, hc, ?_, ?_, ?_⟩
  · rw [← e1]; exact hv2
  · rw [← e2, hl2]; exact hz2
  · rw [ew]
    have : (⟨s.addr, o.bytes⟩ : Slice).take (sizeSpec t i) = ⟨s.addr, o.bytes.take (sizeSpec t i)⟩ := rfl
    rw [← this, hloc]; exact hwalk

/-- **C07 (`retain`).** A guard that is forgotten (`RecvGuard::retain`, or a leaked guard) leaves the message in the window: the
next `recv` returns the same message, from the same window, without another read. (The harness retains the first guard of every
receive case and compares.) -/
theorem C07_retain_returns_same (d : Dict) (evs : List ReadEv) (b : RBuf) (rest bytes : Bytes) (b' : RBuf) (rest' : Bytes)
    (evs' : List ReadEv) (h : recv d evs b rest = (.msg bytes, b', rest', evs')) :
    recv d evs' b' rest' = (.msg bytes, b', rest', evs') :=
  recv_after_retain d evs b rest bytes b' rest' evs' h

/-- non-vacuity: the hypotheses are met by a catalog type; two `u16` messages delivered in chunks of 1 and 3 bytes -/
example : S1.WF ∧ 0 < S1.dict.minSize := ⟨S1_wf, by decide⟩
example : recvLoop u16.dict 3 [.deliver 1, .deliver 3, .deliver 9, .deliver 9] ⟨0, 4, 0, []⟩ [1,0,2,0] =
    [.msg [1,0], .msg [2,0], .closed] := by decide
/-- non-vacuity of `C07_sent_content_arrives`: `S1 { a: 1, b: [7, 8, 9] }` emplaced at address 0 over garbage; its first 12 bytes mapped
at address 8 read as the specified content -/
example : (emplaceU S1 (.ustruct [[1,0,0,0]] (.vecArr [[7],[8],[9]])) ⟨0, List.replicate 16 9⟩).bind
      (fun o => (S1.dict.walk ⟨8, o.bytes.take 12⟩).map Val.strip) = specV S1 (.ustruct [[1,0,0,0]] (.vecArr [[7],[8],[9]])) := by
  rfl
/-- **C07 (a message mutated in place is deliverable).** Take any valid `FlexVec` message in the send buffer and apply any finite
sequence of `push` / `pop` / `truncate` / `clear` through the guard. The run never faults; the result validates; its `size()` —
the number of bytes `send` writes — does not exceed the buffer; and those first `size()` bytes alone validate again with the same
`size()`: exactly the hypothesis under which `C07_receiver_delivers` delivers a message. -/
theorem C07_edited_flex_is_deliverable (it : Ty) (h : it.WF) (l : LenTy) (hl : l.Law) (ops : List FOp)
    (hwt : ∀ i, FOp.push i ∈ ops → InitWT it i) (data : Slice)
    (hend : data.len % max l.align it.dict.align = 0) (hv : (Ty.flex it l).dict.validate data = .ok ()) :
    ∃ b' z, frun it l ops data = .ok b' ∧ b'.length = data.len ∧
      (Ty.flex it l).dict.validate ⟨data.addr, b'⟩ = .ok () ∧ (Ty.flex it l).dict.size ⟨data.addr, b'⟩ = .ok z ∧ z ≤ b'.length ∧
      (Ty.flex it l).dict.validate ⟨data.addr, b'.take z⟩ = .ok () ∧ (Ty.flex it l).dict.size ⟨data.addr, b'.take z⟩ = .ok z := by
  have hwf : (Ty.flex it l).WF := ⟨h, hl⟩
  obtain ⟨hal, hmin, hu⟩ := validate_ok_iff.1 hv
  have hfl : floorMul data.len (max l.align it.dict.align) = data.len := by
    unfold floorMul; have := Nat.div_add_mod data.len (max l.align it.dict.align); rw [hend] at this; rw [Nat.mul_comm]; omega
  have htake : data.take data.len = data := by cases data; simp [Slice.take, Slice.len]
  have hu' : flexValidate it.dict l (max l.size it.dict.align) (data.len + 1) 0 data = .ok () := by
    have := hu; simp only [Ty.dict, flexD, hfl, htake] at this; exact this
  obtain ⟨items, hc⟩ := (C12_valid_iff_sequence it h l hl data).1 hu'
  obtain ⟨b', items', hrun, hlen, hc', _⟩ := C12_history it h l hl ops hwt data items hc hend
  have hv' : (Ty.flex it l).dict.validate ⟨data.addr, b'⟩ = .ok () := by
    apply validate_ok_iff.2
    refine ⟨hal, ?_, ?_⟩
    · simp only [Slice.len]; rw [hlen]; exact hmin
    · have hval := (C12_valid_iff_sequence it h l hl ⟨data.addr, b'⟩).2 ⟨items', hc'⟩
      have hl' : (⟨data.addr, b'⟩ : Slice).len = data.len := by simp [Slice.len, hlen]
      have htake' : (⟨data.addr, b'⟩ : Slice).take data.len = ⟨data.addr, b'⟩ := by simp [Slice.take, ← hlen]
      simp only [Ty.dict, flexD, hl', hfl, htake']
      rw [hl'] at hval; exact hval
  obtain ⟨z, hz, hzle, _, h1, h2⟩ := C05_size_exact (Ty.flex it l) hwf ⟨data.addr, b'⟩ hv'
  exact ⟨b', z, hrun, hlen, hv', hz, by simpa [Slice.len] using hzle, by simpa [Slice.take] using h1, by simpa [Slice.take] using h2⟩
/-- non-vacuity: an 8-byte `FlexVec<FlatVec<u8,u8>, u8>` holding one item validates and its length is a whole number of alignment units -/
example : (Ty.flex (.vec u8 L8) L8).dict.validate ⟨0, [255, 2, 7, 8, 9, 9, 9, 9]⟩ = .ok () ∧
    (⟨0, [255, 2, 7, 8, 9, 9, 9, 9]⟩ : Slice).len % max L8.align (Ty.vec u8 L8).dict.align = 0 := by decide +kernel
end FV.Props
