import FV.IoSend
/-! C09 (b) for a whole session: a sequence of sends over one scripted sink. A send on a poisoned sender is refused (the
`assert!(!self.poisoned)` of `write_all`), which is what guarantees that nothing ever follows a partially written message. -/
namespace FV

inductive SendR | ok | failed | refused
deriving Repr, DecidableEq

structure SeqSt where
  sink : Bytes
  poisoned : Bool
  evs : List WriteEv

/-- a call that never returned because the script ran out: it has handed over a proper prefix and has not poisoned the sender -/
theorem writeAll_blocked (msg : Bytes) :
    ∀ (evs : List WriteEv) (pos : Nat) (sink0 : Bytes) (used : Nat), pos ≤ msg.length →
      (writeAll msg evs pos (sink0 ++ msg.take pos) used).out = .blocked →
      ∃ j, j < msg.length ∧ (writeAll msg evs pos (sink0 ++ msg.take pos) used).sink = sink0 ++ msg.take j ∧
        (writeAll msg evs pos (sink0 ++ msg.take pos) used).poisoned = false := by
  intro evs
  induction evs with
  | nil =>
    intro pos sink0 used hpos h
    unfold writeAll at h ⊢
    split
    · rename_i hle; simp [hle] at h
    · rename_i hlt; exact ⟨pos, by omega, rfl, rfl⟩
  | cons ev evs ih =>
    intro pos sink0 used hpos h
    unfold writeAll at h ⊢
    split
    · rename_i hle; simp [hle] at h
    · rename_i hlt
      simp only [hlt, if_false] at h
      cases ev with
      | zero => simp at h
      | fail => simp at h
      | accept n =>
        simp only at h ⊢
        split
        · rename_i hn; simp [hn] at h
        · rename_i hn
          simp only [hn, if_false] at h
          have hsink : sink0 ++ msg.take pos ++ (msg.drop pos).take (min n (msg.length - pos))
              = sink0 ++ msg.take (pos + min n (msg.length - pos)) := by
            rw [List.append_assoc]; congr 1
            rw [List.take_add]
          rw [hsink] at h ⊢
          exact ih (pos + min n (msg.length - pos)) sink0 (used + 1) (by omega) h

/-- the blocking sender used for a list of messages; a call that does not return (script exhausted) ends the session -/
def sendSeq : List Bytes → SeqSt → List SendR × SeqSt
  | [], st => ([], st)
  | m :: ms, st =>
    if st.poisoned then
      let (rs, st') := sendSeq ms st
      (.refused :: rs, st')
    else
      let r := writeAll m st.evs 0 st.sink 0
      if r.out = .blocked then ([.failed], ⟨r.sink, r.poisoned, r.evs⟩)
      else
        let (rs, st') := sendSeq ms ⟨r.sink, r.poisoned, r.evs⟩
        ((if r.out = .done then .ok else .failed) :: rs, st')

/-- the messages whose send completed -/
def completed : List Bytes → List SendR → List Bytes
  | m :: ms, .ok :: rs => m :: completed ms rs
  | _ :: ms, _ :: rs => completed ms rs
  | _, _ => []

theorem sendSeq_poisoned (ms : List Bytes) (st : SeqSt) (hp : st.poisoned = true) :
    (sendSeq ms st).1 = ms.map (fun _ => SendR.refused) ∧ (sendSeq ms st).2 = st := by
  induction ms with
  | nil => simp [sendSeq]
  | cons m ms ih => simp [sendSeq, hp, ih.1, ih.2]

theorem completed_refused (ms : List Bytes) : completed ms (ms.map fun _ => SendR.refused) = [] := by
  induction ms with
  | nil => rfl
  | cons m ms ih => simp [completed, ih]

/-- **The sink always holds whole messages followed by at most one partial message, with nothing after it.** Starting from an
unpoisoned sender, after any script of write outcomes (accepted sizes, `Ok(0)`, errors, or running out): the sink is what it was,
then every message whose send completed, in order, then a (possibly empty) proper prefix of *one* message whose send failed.
(When that prefix is non-empty the sender is poisoned, so every later send is refused — that is what keeps anything from
following it.) -/
theorem sendSeq_sink_shape : ∀ (ms : List Bytes) (st : SeqSt), st.poisoned = false →
    ∃ part : Bytes, (sendSeq ms st).2.sink = st.sink ++ flat (completed ms (sendSeq ms st).1) ++ part ∧
      (part = [] ∨ ∃ m ∈ ms, ∃ j, 0 < j ∧ j < m.length ∧ part = m.take j) := by
  intro ms
  induction ms with
  | nil => intro st _; exact ⟨[], by simp [sendSeq, completed, flat], Or.inl rfl⟩
  | cons m ms ih =>
    intro st hp
    have hspec := writeAll_spec m st.evs 0 st.sink 0 (by omega)
    simp only [List.take_zero, List.append_nil] at hspec
    obtain ⟨j, _, hj, hs, hd, hf, _, _⟩ := hspec
    simp only [sendSeq, hp, Bool.false_eq_true, if_false]
    by_cases hb : (writeAll m st.evs 0 st.sink 0).out = .blocked
    · have hbl := writeAll_blocked m st.evs 0 st.sink 0 (by omega) (by simpa using hb)
      simp only [List.take_zero, List.append_nil] at hbl
      obtain ⟨j', hj', hs', _⟩ := hbl
      simp only [hb, if_true, completed, flat, List.append_nil]
      by_cases hz : j' = 0
      · subst hz; exact ⟨[], by simp [hs'], Or.inl rfl⟩
      · exact ⟨m.take j', by simp [hs'], Or.inr ⟨m, by simp, j', by omega, hj', rfl⟩⟩
    · simp only [hb, if_false]
      by_cases hdone : (writeAll m st.evs 0 st.sink 0).out = .done
      · obtain ⟨hjl, hpz⟩ := hd hdone
        subst hjl
        rw [List.take_length] at hs
        obtain ⟨part, h1, h2⟩ := ih ⟨(writeAll m st.evs 0 st.sink 0).sink, (writeAll m st.evs 0 st.sink 0).poisoned, (writeAll m st.evs 0 st.sink 0).evs⟩ hpz
        refine ⟨part, ?_, ?_⟩
        · simp only [hdone, if_true, completed, flat_cons]
          rw [h1, hs]; simp [List.append_assoc]
        · rcases h2 with h2 | ⟨m', hm', j', hj1, hj2, hj3⟩
          · exact Or.inl h2
          · exact Or.inr ⟨m', by simp [hm'], j', hj1, hj2, hj3⟩
      · have hfail : (writeAll m st.evs 0 st.sink 0).out = .brokenPipe ∨ (∃ k, (writeAll m st.evs 0 st.sink 0).out = .err k) := by
          cases h : (writeAll m st.evs 0 st.sink 0).out <;> simp_all
        obtain ⟨hpo, hjlt⟩ := hf hfail
        simp only [hdone, if_false, completed]
        by_cases hz : j = 0
        · -- nothing was handed over: the sender is not poisoned and carries on
          have hpz : (writeAll m st.evs 0 st.sink 0).poisoned = false := by
            cases hq : (writeAll m st.evs 0 st.sink 0).poisoned with
            | false => rfl
            | true => exact absurd (hpo.1 hq) (by simp [hz])
          subst hz
          simp only [List.take_zero, List.append_nil] at hs
          obtain ⟨part, h1, h2⟩ := ih ⟨(writeAll m st.evs 0 st.sink 0).sink, (writeAll m st.evs 0 st.sink 0).poisoned, (writeAll m st.evs 0 st.sink 0).evs⟩ hpz
          refine ⟨part, by rw [h1, hs], ?_⟩
          rcases h2 with h2 | ⟨m', hm', j', hj1, hj2, hj3⟩
          · exact Or.inl h2
          · exact Or.inr ⟨m', by simp [hm'], j', hj1, hj2, hj3⟩
        · -- a proper non-empty prefix went out: poisoned, every later send is refused
          have hpt : (writeAll m st.evs 0 st.sink 0).poisoned = true := hpo.2 hz
          obtain ⟨h1, h2⟩ := sendSeq_poisoned ms ⟨(writeAll m st.evs 0 st.sink 0).sink, (writeAll m st.evs 0 st.sink 0).poisoned, (writeAll m st.evs 0 st.sink 0).evs⟩ hpt
          refine ⟨m.take j, ?_, Or.inr ⟨m, by simp, j, by omega, hjlt, rfl⟩⟩
          rw [h2, h1, completed_refused]
          simp [flat, hs]
end FV
