import FV.Accepts
import FV.EmplaceAccEnum
/-! `size()` never exceeds `as_bytes().len()`: a sixth per-combinator law, assembled over `Ty`. With the frame contract it
gives: the bytes of a valid value's own view validate again (`from_bytes(x.as_bytes())` succeeds). -/
namespace FV

structure SizeView (d : Dict) : Prop where
  le : ∀ s z v, s.addr % d.align = 0 → d.minSize ≤ s.len → d.validateU s = .ok () →
    d.size s = .ok z → d.viewLen s.len = .ok v → z ≤ v

theorem sized_sv (d : Dict) (sz : Nat) (hsize : ∀ s, d.size s = .ok sz) (hview : ∀ n, d.viewLen n = .ok sz) : SizeView d := ⟨by
  intro s z v _ _ _ hz hv
  rw [hsize] at hz; rw [hview] at hv; cases hz; cases hv; exact Nat.le_refl _⟩

theorem prim_sv (s a : Nat) : SizeView (primD s a) := sized_sv _ s (fun _ => rfl) (fun _ => rfl)
theorem bool_sv : SizeView boolD := sized_sv _ 1 (fun _ => rfl) (fun _ => rfl)
theorem arr_sv (d : Dict) (n : Nat) : SizeView (arrD d n) := sized_sv _ (n * d.ssize) (fun _ => rfl) (fun _ => rfl)
theorem sstruct_sv (ds : List Dict) : SizeView (sstructD ds) := sized_sv _ _ (fun _ => rfl) (fun _ => rfl)
theorem cenum_sv (tag : LenTy) (n : Nat) : SizeView (cenumD tag n) := sized_sv _ tag.size (fun _ => rfl) (fun _ => rfl)
theorem senum_sv (tag : LenTy) (vs : List (List Dict)) : SizeView (senumD tag vs) := sized_sv _ _ (fun _ => rfl) (fun _ => rfl)

theorem vec_sv (d : Dict) (sz : Nat) (hsz : d.sized = some sz) (l : LenTy) : SizeView (vecD d l) := ⟨by
  intro s z v _ hlen hv hz hvw
  have hss : d.ssize = sz := by simp [Dict.ssize, hsz]
  simp only [vecD] at hlen
  obtain ⟨len, slots, hr, hsl, hcap, _⟩ := vec_valid_inv d sz hss l s hlen hv
  simp only [vecD, hr, hsl, Res.bind_eq, Res.bind_ok, Res.pure_eq, Res.ok.injEq] at hz hvw
  rw [← hz, ← hvw]
  apply ceilMul_mono
  have : d.ssize * len ≤ slots * d.ssize := by
    rw [Nat.mul_comm]; exact Nat.mul_le_mul_right _ (by omega)
  omega⟩

theorem str_sv (l : LenTy) (hl : l.Law) : SizeView (strD l) := ⟨by
  intro s z v _ hlen hv hz hvw
  simp only [strD] at hlen
  obtain ⟨len, hr, hcap, _⟩ := str_valid_inv l s hlen hv
  have hnl : ¬ s.len < l.size := by omega
  simp only [strD, hr, Res.bind_eq, Res.bind_ok, Res.pure_eq, Res.ok.injEq, hnl, if_false] at hz hvw
  rw [← hz, ← hvw, ceilMul_add_of_mod hl.align_pow2.pos hl.size_mod]
  have := ceilMul_least (x := len) hl.align_pow2.pos (floorMul_mod (s.len - l.size) l.align) (by omega)
  omega⟩

theorem flex_sv (d : Dict) (hd : Law d) (hfd : FrameLaw d) (l : LenTy) (hl : l.Law) : SizeView (flexD d l) := ⟨by
  intro s z v _ _ hv hz hvw
  simp only [flexD] at hv hz hvw
  have key : (s.take (floorMul s.len (max l.align d.align))).len = floorMul s.len (max l.align d.align) := by
    simp only [Slice.len_take]; have := floorMul_le s.len (max l.align d.align); omega
  obtain ⟨e, he, hele, _, _, _, _⟩ := flex_chain d l hd hfd hl (s.len + 1) 0 _
    (by rw [key]; have := floorMul_le s.len (max l.align d.align); omega) (by rw [key]; exact floorMul_mod _ _) hv
  rw [key] at hele
  rw [he] at hz
  simp only [Nat.zero_add, Res.ok.injEq] at hz hvw
  omega⟩

theorem ustruct_sv (ds : List Dict) (last : Dict) (hl : ∀ d ∈ ds, Law d) (hs : AllSized ds) (hlast : Law last) (hsl : SizeView last) :
    SizeView (ustructD ds last) := ⟨by
  intro s z v hal hlen hv hz hvw
  have hall : ∀ d ∈ ds ++ [last], Law d := by
    intro d hd
    rcases List.mem_append.1 hd with h | h
    · exact hl d h
    · simp at h; subst h; exact hlast
  have hpos : ∀ d ∈ ds ++ [last], 0 < d.align := fun d hd => (hall d hd).align_pow2.pos
  have hapos := alignL_pos (ds ++ [last])
  simp only [ustructD] at hal hlen hv hz hvw
  have hms := minSizeL_append ds last hl hs 0
  have h1 := le_ceilMul (x := minSizeL (ds ++ [last]) 0) hapos
  have h2 := floorMul_greatest hapos (ceilMul_mod (minSizeL (ds ++ [last]) 0) (alignL (ds ++ [last]))) hlen
  have h3 := floorMul_le s.len (alignL (ds ++ [last]))
  have hlamod : alignL (ds ++ [last]) % last.align = 0 := alignL_mod _ hall last (by simp)
  generalize hal_def : alignL (ds ++ [last]) = al at *
  generalize hn_def : floorMul s.len al = n at *
  generalize hlfo_def : ceilMul (foldSize ds 0) last.align = lfo at *
  have hk3 : (s.take n).len = n := by simp only [Slice.len_take]; omega
  have hnl : ¬ n < lfo := by omega
  -- the last field, as validation saw it
  have hlv : last.validateU ((s.take n).drop lfo) = .ok () := by
    have := validateAll_inv (ds ++ [last]) 0 (s.take n) hpos (headAligned_zero _) (by rw [hk3]; omega) hv ds.length last lfo
      (by simp) (by rw [← hlfo_def]; exact posList_append_last ds last 0 hpos (headAligned_zero _))
    simpa using this
  have hdl : lfo ≤ (s.take n).len := by rw [hk3]; omega
  simp only [Res.bind_eq, Slice.dropU, hdl, if_true, Res.bind_ok, hnl, if_false, Res.pure_eq] at hz hvw
  cases hzl : last.size ((s.take n).drop lfo) with
  | fault f => simp [hzl] at hz
  | err e => simp [hzl] at hz
  | ok zl =>
    cases hvl : last.viewLen (n - lfo) with
    | fault f => simp [hvl] at hvw
    | err e => simp [hvl] at hvw
    | ok m =>
      simp only [hzl, hvl, Res.bind_ok, Res.ok.injEq] at hz hvw
      rw [← hz, ← hvw]
      apply ceilMul_mono
      have := hsl.le ((s.take n).drop lfo) zl m
        (by simp only [Slice.addr_drop, Slice.addr_take]; exact add_mod_zero (mod_trans hal hlamod) (by rw [← hlfo_def]; exact ceilMul_mod _ _))
        (by simp only [Slice.len_drop, hk3]; omega) hlv hzl (by simp only [Slice.len_drop, hk3]; exact hvl)
      omega⟩

theorem uenum_sv (tag : LenTy) (ht : tag.Law) (vs : List (List Dict))
    (hl : ∀ v ∈ vs, ∀ d ∈ v, Law d) (hf : ∀ v ∈ vs, ∀ d ∈ v, FrameLaw d) (hs : ∀ v ∈ vs, AllSizedButLast v) :
    SizeView (uenumD tag vs) := ⟨by
  have hpa : Pow2 (max tag.align (alignLL vs)) := Pow2.of_max ht.align_pow2 (alignLL_pow2 vs hl)
  have hapos := hpa.pos
  have hdo := le_ceilMul (x := tag.size) hapos
  have hdom := ceilMul_mod tag.size (max tag.align (alignLL vs))
  have hminle := le_ceilMul (x := ceilMul tag.size (max tag.align (alignLL vs)) + minList (vs.map varMinSize)) hapos
  intro s z v hal hlen hv hz hvw
  simp only [uenumD] at hal hlen
  have hge : ceilMul tag.size (max tag.align (alignLL vs)) ≤ s.len := by omega
  obtain ⟨t, hr, hlt, hvm, hva⟩ := uenum_valid_inv tag vs s _ _ rfl rfl hge hv
  have hmem := getD_mem vs t [] hlt
  have hnl : ¬ s.len < ceilMul tag.size (max tag.align (alignLL vs)) := by omega
  simp only [uenumD, hr, Res.bind_eq, Res.bind_ok, Slice.dropU, hge, if_true, hnl, if_false, Res.pure_eq, Slice.len_drop, Res.ok.injEq] at hz hvw
  rw [← hvw]
  have hfl := floorMul_le (s.len - ceilMul tag.size (max tag.align (alignLL vs))) (max tag.align (alignLL vs))
  have hdl : ((s.drop (ceilMul tag.size (max tag.align (alignLL vs)))).take
      (floorMul (s.len - ceilMul tag.size (max tag.align (alignLL vs))) (max tag.align (alignLL vs)))).len
      = floorMul (s.len - ceilMul tag.size (max tag.align (alignLL vs))) (max tag.align (alignLL vs)) := by
    simp only [Slice.len_take, Slice.len_drop]; omega
  -- the content of the variant ends inside the floored data
  have hbound : ∀ e, e ≤ floorMul (s.len - ceilMul tag.size (max tag.align (alignLL vs))) (max tag.align (alignLL vs)) →
      ceilMul (ceilMul tag.size (max tag.align (alignLL vs)) + e) (max tag.align (alignLL vs)) ≤
        ceilMul tag.size (max tag.align (alignLL vs)) + floorMul (s.len - ceilMul tag.size (max tag.align (alignLL vs))) (max tag.align (alignLL vs)) := by
    intro e he
    rw [ceilMul_add_of_mod hapos hdom]
    have := ceilMul_least (x := e) hapos (floorMul_mod _ _) he
    omega
  cases hq : vs.getD t [] with
  | nil =>
    simp only [hq, List.isEmpty_nil, if_true, Res.bind_ok, Res.ok.injEq] at hz
    rw [← hz]; exact hbound 0 (Nat.zero_le _)
  | cons d0 v0 =>
    simp only [hq, List.isEmpty_cons, Bool.false_eq_true, if_false] at hz
    rw [hq] at hva hvm hmem
    have hlv := hl _ hmem
    have hd0 : 0 < d0.align := (hlv d0 (by simp)).align_pow2.pos
    have hvmin : varMinSize (d0 :: v0) = minSizeL (d0 :: v0) 0 := by simp [varMinSize]
    rw [hvmin] at hvm
    obtain ⟨e, he, hele, _, _⟩ := fields_loc (d0 :: v0) 0 _ ⟨hlv, hf _ hmem, hs _ hmem⟩
      (placed0 _ _ (by
        intro d hd
        simp only [Slice.addr_take, Slice.addr_drop]
        apply add_mod_zero
        · exact mod_trans hal (mod_trans (Pow2.max_mod_right ht.align_pow2 (alignLL_pow2 vs hl)) (alignLL_mod vs hl _ hmem d hd))
        · exact mod_trans hdom (mod_trans (Pow2.max_mod_right ht.align_pow2 (alignLL_pow2 vs hl)) (alignLL_mod vs hl _ hmem d hd))))
      (by rw [hdl]; omega) hva
    rw [hdl] at hele
    rw [foldSizeDyn_eq_extent _ 0 0 _ (by simp) (by simp only; exact (ceilMul_of_mod hd0 (Nat.zero_mod _)).symm), he] at hz
    simp only [Res.bind_ok, Res.ok.injEq] at hz
    rw [← hz]; exact hbound e (by omega)⟩

mutual
theorem Ty.sizeView : ∀ t : Ty, t.WF → SizeView t.dict
  | .prim s a, _ => prim_sv s a
  | .bool, _ => bool_sv
  | .arr t n, _ => arr_sv t.dict n
  | .sstruct fs, _ => sstruct_sv (dictL fs)
  | .cenum tag n, _ => cenum_sv tag n
  | .senum tag vs, _ => senum_sv tag (dictLL vs)
  | .vec t l, h => by
      simp only [Ty.WF] at h
      obtain ⟨sz, hsz⟩ := sized_some t h.2.1
      exact vec_sv t.dict sz hsz l
  | .str l, h => by simp only [Ty.WF] at h; exact str_sv l h
  | .flex t l, h => by
      simp only [Ty.WF] at h
      exact flex_sv t.dict (Ty.law t h.1) (Ty.frameLaw t h.1) l h.2
  | .ustruct fs last, h => by
      simp only [Ty.WF] at h
      exact ustruct_sv (dictL fs) last.dict (lawL fs h.1) (sizedL_allSized fs h.2.1) (Ty.law last h.2.2.1) (Ty.sizeView last h.2.2.1)
  | .uenum tag vs, h => by
      simp only [Ty.WF] at h
      exact uenum_sv tag h.1 (dictLL vs) (lawLL vs h.2.1) (frameLL vs h.2.1) (butLastLL_all vs h.2.2)
end

/-- **the value's own bytes validate**: for a valid slice, `size() ≤ as_bytes().len()`, and the first `as_bytes().len()` bytes
validate again with the same `size()` -/
theorem own_bytes_validate (t : Ty) (h : t.WF) (s : Slice) (hv : t.dict.validate s = .ok ()) :
    ∃ z v, t.dict.size s = .ok z ∧ t.dict.viewLen s.len = .ok v ∧ z ≤ v ∧ v ≤ s.len ∧ t.dict.validate (s.take v) = .ok () := by
  obtain ⟨ha, hl, hu⟩ := validate_ok_iff.1 hv
  have F := Ty.frameLaw t h
  obtain ⟨z, hz, hzle, _, hzmin⟩ := F.size_ok s ha hl hu
  obtain ⟨v, hvw, hvle, _, _⟩ := (Ty.viewLaw t h).fits s.len hl
  have hzv := (Ty.sizeView t h).le s z v ha hl hu hz hvw
  obtain ⟨h1, _⟩ := F.loc s z ha hl hu hz (s.take v) rfl (by simp only [Slice.len_take]; omega)
    (by simp only [Slice.take, List.take_take]; congr 1; omega)
  exact ⟨z, v, hz, hvw, hzv, hvle, validate_ok_iff.2 ⟨by simpa using ha, by simp only [Slice.len_take]; omega, h1⟩⟩
end FV
#print axioms FV.own_bytes_validate
