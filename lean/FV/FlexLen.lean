import FV.FlexChain
/-! `FlexVec::is_empty` and `FlexVec::len` (`containers/src/flex.rs`): what the first `DataIter::next` returns, and the number of
`Some(Ok(_))` the iterator yields (`len()` unwraps every item: a `Some(Err(_))` is a panic). -/
namespace FV

/-- `is_empty()`: `bytes_iter().next().is_none()` — the first slot reads `0`; a misaligned or short slot is `Some(Err(_))` -/
def flexIsEmpty (it : Ty) (l : LenTy) (data : Slice) : Res Bool :=
  if data.addr % max l.align it.dict.align ≠ 0 then .ok false
  else (readSlot l data 0).bind fun r =>
    match r with
    | .error _ => .ok false
    | .ok n => .ok (n == 0)

/-- `len()`: walk the chain counting items; the payload split of `DataIter::next` included (a slot that does not fit is an `Err`,
which `len()` unwraps: a fault) -/
def flexLen (it : Ty) (l : LenTy) (os : Nat) : Nat → Slice → Res Nat
  | 0, _ => .fault .fuel
  | fuel + 1, data =>
    if data.addr % max l.align it.dict.align ≠ 0 then .fault .panic
    else (readSlot l data 0).bind fun r =>
      match r with
      | .error _ => .fault .panic
      | .ok n =>
        if n = 0 then .ok 0
        else if n = l.max then (if os ≤ data.len then .ok 1 else .fault .panic)
        else if n < os ∨ data.len < os ∨ data.len < n then .fault .panic
        else (flexLen it l os fuel (data.drop n)).bind fun k => .ok (k + 1)

section
variable (it : Ty) (l : LenTy) (hd : Law it.dict) (hl : l.Law)
include hd hl

theorem readSlot_of_aligned (data : Slice) (n : Nat) (hal : data.addr % max l.align it.dict.align = 0) (hlen : l.size ≤ data.len)
    (hr : l.readU data = .ok n) : readSlot l data 0 = .ok (.ok n) := by
  have hla : data.addr % l.align = 0 := mod_trans hal (Pow2.max_mod_left hl.align_pow2 hd.align_pow2)
  have hck : checkAlignMin l.align l.size data = .ok () := checkAlignMin_ok.2 ⟨hla, hlen⟩
  simp [readSlot, hck, hr, Res.bind]

/-- **`is_empty()` is emptiness of the sequence**, for every valid encoding (terminating slot or `MAX` marker). -/
theorem flexIsEmpty_spec {os pos : Nat} {data : Slice} {items : List (Nat × Bytes)} (h : Chain it.dict l os pos data items) :
    flexIsEmpty it l data = .ok items.isEmpty := by
  cases h with
  | term hal hlen hr =>
    simp [flexIsEmpty, hal, readSlot_of_aligned it l hd hl data 0 hal hlen hr, Res.bind]
  | last hal hlen hr hn h2 hv hz =>
    simp [flexIsEmpty, hal, readSlot_of_aligned it l hd hl data _ hal hlen hr, Res.bind, hn]
  | item hal hlen hr hn hmax h1 h2 hv hz hrest =>
    simp [flexIsEmpty, hal, readSlot_of_aligned it l hd hl data _ hal hlen hr, Res.bind, hn]

/-- **`len()` is the length of the sequence** and never panics on a valid encoding. -/
theorem flexLen_spec {os pos : Nat} {data : Slice} {items : List (Nat × Bytes)} (h : Chain it.dict l os pos data items) :
    ∀ fuel, items.length < fuel → flexLen it l os fuel data = .ok items.length := by
  induction h with
  | term hal hlen hr =>
    intro fuel hf
    cases fuel with
    | zero => omega
    | succ k => simp [flexLen, hal, readSlot_of_aligned it l hd hl _ 0 hal hlen hr, Res.bind]
  | last hal hlen hr hn h2 hv hz =>
    intro fuel hf
    cases fuel with
    | zero => omega
    | succ k => simp [flexLen, hal, readSlot_of_aligned it l hd hl _ _ hal hlen hr, Res.bind, hn, h2]
  | @item pos data next z rest hal hlen hr hn hmax h1 h2 hv hz hrest ih =>
    intro fuel hf
    cases fuel with
    | zero => omega
    | succ k =>
      have hos : os ≤ data.len := Nat.le_trans h1 h2
      have hno : ¬ (next < os ∨ data.len < os ∨ data.len < next) := by omega
      simp only [List.length_cons] at hf
      simp [flexLen, hal, readSlot_of_aligned it l hd hl _ _ hal hlen hr, Res.bind, hn, hmax, hno, ih k (by omega)]
end
end FV
#print axioms FV.flexIsEmpty_spec
#print axioms FV.flexLen_spec
