import FV.EmplaceAll
import FV.WalkAddr
import FV.Spec.Content
/-! Emplace, then read back: the deep read of what an emplacer wrote is the content the initialiser specifies. -/
namespace FV

/-- content clause of the emplacer contract -/
def EmpContent (t : Ty) (i : Init) (s : Slice) (o : EO) : Prop :=
  o.res = .ok () → (t.dict.walk ⟨s.addr, o.bytes⟩).map Val.strip = specV t i

/-- **A sized image reads as its own content wherever it is placed** (suitably aligned), whatever follows it. -/
theorem image_content (t : Ty) (h : t.WF) (v : Bytes) (hv : ValidImage t.dict v) (s : Slice)
    (hal : s.addr % t.dict.align = 0) (hb : s.bytes.take t.dict.ssize = v) :
    (t.dict.walk s).map Val.strip = specSizedV t v := by
  obtain ⟨sz, hsz, hvl, hval⟩ := hv
  have hss : t.dict.ssize = sz := by simp [Dict.ssize, hsz]
  have hmin := (Ty.law t h).sized_min sz hsz
  rw [hss] at hb
  have hlen : sz ≤ s.len := by
    have := congrArg List.length hb
    simp only [List.length_take, hvl] at this
    simp only [Slice.len]; omega
  have hz : t.dict.sizeV ⟨s.addr, v⟩ = .ok sz := (Ty.frameLaw t h).sized_sizeV sz hsz _
  have h1 := walk_loc t.dict (Ty.frameLaw t h) (Ty.walkLaw t h) ⟨s.addr, v⟩ sz hal (by simp only [Slice.len]; omega)
    (hval s.addr hal) hz s rfl hlen (by simp only; rw [hb, ← hvl]; simp)
  rw [h1, Ty.walkAddr t h s.addr 0 v (by rw [hal]; simp)]
  rfl

theorem specSizedV_ok (t : Ty) (h : t.WF) (v : Bytes) (hv : ValidImage t.dict v) : ∃ c, specSizedV t v = .ok c := by
  obtain ⟨sz, hsz, hvl, hval⟩ := hv
  have hmin := (Ty.law t h).sized_min sz hsz
  obtain ⟨w, hw⟩ := (Ty.walkLaw t h).total ⟨0, v⟩ (by simp only [Slice.len]; omega) (hval 0 (Nat.zero_mod _))
  exact ⟨w.strip, by simp [specSizedV, hw]⟩

/-! ### sized values -/
theorem content_raw (t : Ty) (h : t.WF) (v : Bytes) (hv : ValidImage t.dict v) (s : Slice) (hal : s.addr % t.dict.align = 0)
    (o : EO) (ho : emplaceU t (.raw v) s = .ok o) : EmpContent t (.raw v) s o := by
  intro _
  obtain ⟨sz, hsz, hvl, _⟩ := hv
  have hss : t.dict.ssize = sz := by simp [Dict.ssize, hsz]
  have hb : o.bytes.take t.dict.ssize = v := by
    have hcomp : emplaceU t (.raw v) s = (writeAt s.bytes 0 v).bind fun b => .ok (EO.ok b) := by
      cases t <;> simp only [emplaceU, hsz, hvl, if_true]
    rw [hcomp] at ho
    cases hw : writeAt s.bytes 0 v with
    | ok b =>
      rw [hw, Res.bind_ok] at ho
      cases ho
      have := writeAt_read hw
      simp only [List.drop_zero] at this
      rw [hss, ← hvl]; exact this
    | err e => rw [hw] at ho; cases ho
    | fault f => rw [hw] at ho; cases ho
  have hs : specV t (.raw v) = specSizedV t v := by cases t <;> rfl
  rw [hs]
  exact image_content t h v ⟨sz, hsz, hvl, by assumption⟩ ⟨s.addr, o.bytes⟩ hal hb

/-! ### FlatVec -/
theorem walkElems_images (et : Ty) (h : et.WF) (sz : Nat) (hss : et.dict.ssize = sz) (dOff : Nat) (s : Slice) :
    ∀ (ys : List Bytes) (i : Nat), (∀ y ∈ ys, ValidImage et.dict y) →
      (∀ m (hm : m < ys.length), (s.drop (dOff + (i + m) * sz)).take sz = ⟨s.addr + (dOff + (i + m) * sz), ys[m]⟩ ∧
        (s.addr + (dOff + (i + m) * sz)) % et.dict.align = 0) →
      dOff + (i + ys.length) * sz ≤ s.len →
      ∃ vs es, walkElems et.dict dOff s ys.length i = .ok vs ∧ specElemsV et ys = .ok es ∧ stripL vs = es := by
  intro ys
  induction ys with
  | nil => intro i _ _ _; exact ⟨[], [], rfl, rfl, rfl⟩
  | cons y ys ih =>
    intro i hval hel hfit
    have e1 : (i + (ys.length + 1)) * sz = i * sz + (ys.length + 1) * sz := Nat.add_mul _ _ _
    have e2 : (ys.length + 1) * sz = ys.length * sz + sz := Nat.succ_mul _ _
    simp only [List.length_cons] at hfit
    have h1 : dOff + i * sz ≤ s.len := by omega
    have h2 : sz ≤ s.len - (dOff + i * sz) := by omega
    obtain ⟨hslice, hal⟩ := hel 0 (by simp)
    simp only [Nat.add_zero, List.getElem_cons_zero] at hslice hal
    have hvy := hval y (by simp)
    have hcont := image_content et h y hvy ⟨s.addr + (dOff + i * sz), y⟩ hal
      (by obtain ⟨sz', hsz', hyl, _⟩ := hvy; simp only [Dict.ssize, hsz', Option.getD_some, ← hyl, List.take_length])
    obtain ⟨c, hc⟩ := specSizedV_ok et h y hvy
    rw [hc] at hcont
    cases hw : et.dict.walk ⟨s.addr + (dOff + i * sz), y⟩ with
    | ok w =>
      rw [hw] at hcont
      simp only [Res.map_ok, Res.ok.injEq] at hcont
      obtain ⟨vs, es, hvs, hes, hst⟩ := ih (i + 1) (fun z hz => hval z (by simp [hz]))
        (by
          intro m hm
          have := hel (m + 1) (by simpa using hm)
          have e : i + (m + 1) = i + 1 + m := by omega
          simpa [e] using this)
        (by have e : i + 1 + ys.length = i + (ys.length + 1) := by omega
            rw [e]; exact hfit)
      refine ⟨w :: vs, c :: es, ?_, ?_, by simp [stripL, hcont, hst]⟩
      · simp only [List.length_cons, walkElems, hss, Slice.dropU, h1, if_true, Res.bind_ok, Slice.takeU, Slice.len_drop, h2, hslice, hw, hvs]
      · simp only [specElemsV, hc, Res.bind_ok, hes]
    | err e => rw [hw] at hcont; simp at hcont
    | fault f => rw [hw] at hcont; simp at hcont

/-- a vector image whose first `n` element slots hold the images `xs` and whose length field says `n` reads as `xs` -/
theorem vec_filled_content (et : Ty) (h : et.WF) (sz : Nat) (hsz : et.dict.sized = some sz) (l : LenTy) (hl : l.Law)
    (a : Nat) (hal : a % max l.align et.dict.align = 0) (b1 b2 : Bytes) (xs : List Bytes)
    (hxs : ∀ x ∈ xs, ValidImage et.dict x) (hlenb : max l.size et.dict.align ≤ b1.length)
    (hel : ∀ i (hi : i < xs.length), (b1.drop (max l.size et.dict.align + i * sz)).take sz = xs[i])
    (hfit : max l.size et.dict.align + xs.length * sz ≤ b1.length) (hn : xs.length < 256 ^ l.size)
    (hw : writeAt b1 0 (encLenTy l xs.length) = .ok b2) :
    ((vecD et.dict l).walk ⟨a, b2⟩).map Val.strip =
      (if et.dict.ssize = 0 then .ok (.vecZ 0 xs.length) else (specElemsV et xs).bind fun es => .ok (.vec 0 es)) := by
  have hd := Ty.law et h
  have hss : et.dict.ssize = sz := by simp [Dict.ssize, hsz]
  have hls : l.size ≤ max l.size et.dict.align := Nat.le_max_left _ _
  have hb2l := writeAt_length hw
  have hread := writeAt_read hw
  simp only [List.drop_zero, encLenTy_length] at hread
  have hr : l.readU ⟨a, b2⟩ = .ok xs.length :=
    readU_of_take l ⟨a, b2⟩ _ hn (mod_trans hal (Pow2.max_mod_left hl.align_pow2 hd.align_pow2)) hread
  have hslots := vecSlots_ok et.dict l (⟨a, b2⟩ : Slice).len (by simp only [Slice.len, hb2l]; exact hlenb)
  simp only [vecD, hr, hslots, Res.bind_ok]
  by_cases hz : et.dict.ssize = 0
  · simp only [hz, if_true, Res.map_ok, Val.strip]
  · simp only [hz, if_false]
    have hda : a % et.dict.align = 0 := mod_trans hal (Pow2.max_mod_right hl.align_pow2 hd.align_pow2)
    have hdoa : max l.size et.dict.align % et.dict.align = 0 := Pow2.max_mod_right hl.size_pow2 hd.align_pow2
    obtain ⟨vs, es, hvs, hes, hst⟩ := walkElems_images et h sz hss (max l.size et.dict.align) ⟨a, b2⟩ xs 0 hxs
      (by
        intro m hm
        simp only [Nat.zero_add]
        have hframe : (b2.drop (max l.size et.dict.align + m * sz)).take sz = (b1.drop (max l.size et.dict.align + m * sz)).take sz :=
          writeAt_frame hw _ _ (Or.inr (by rw [encLenTy_length]; omega))
        refine ⟨?_, add_mod_zero hda (add_mod_zero hdoa (mul_mod_zero (hd.sized_mod sz hsz)))⟩
        simp only [Slice.drop, Slice.take, Slice.mk.injEq, true_and]
        rw [hframe, hel m hm])
      (by simp only [Slice.len, hb2l, Nat.zero_add]; exact hfit)
    simp only [hvs, hes, Res.bind_ok, Res.map_ok, Val.strip, hst]

/-- the computation of `vec::FromIterator`, step by step -/
theorem vecIter_compute (et : Ty) (hL : Law et.dict) (sz : Nat) (hsz : et.dict.sized = some sz) (l : LenTy) (hl : l.Law)
    (xs : List Bytes) (hxs : ∀ x ∈ xs, ValidImage et.dict x) (s : Slice)
    (hlen : max l.size et.dict.align ≤ s.len) :
    ∃ cap b1 b2, cap ≤ l.max ∧
      b1.length = s.len ∧
      (∀ i (hi : i < (xs.take cap).length), (b1.drop (max l.size et.dict.align + i * sz)).take sz = (xs.take cap)[i]) ∧
      max l.size et.dict.align + (xs.take cap).length * sz ≤ b1.length ∧
      writeAt b1 0 (encLenTy l (xs.take cap).length) = .ok b2 ∧
      emplaceU (.vec et l) (.vecIter xs) s = .ok (if cap < xs.length then EO.err b2 .insufficientSize 0 else EO.ok b2) := by
  have hss : et.dict.ssize = sz := by simp [Dict.ssize, hsz]
  have hpa := Pow2.of_max hl.align_pow2 hL.align_pow2
  have hapos := hpa.pos
  have hdo := dataOffset_mod l hl et.dict.align hL.align_pow2
  have hls : l.size ≤ max l.size et.dict.align := Nat.le_max_left _ _
  obtain ⟨b0, hb0, hb0l⟩ := writeAt_ok (bs := s.bytes) (x := encLenTy l 0) (off := 0)
    (by rw [encLenTy_length]; simp only [Slice.len] at hlen; omega)
  have hslots := vecSlots_ok et.dict l s.len hlen
  rw [hss] at hslots
  obtain ⟨cap, hcapdef⟩ : ∃ c, c = min (if sz = 0 then usizeMax else floorMul (s.len - max l.size et.dict.align) (max l.align et.dict.align) / sz) l.max := ⟨_, rfl⟩
  have hfitlen : (xs.take cap).length ≤ cap := by rw [List.length_take]; omega
  have hroom : max l.size et.dict.align + (0 + (xs.take cap).length) * sz ≤ b0.length := by
    rw [hb0l, Nat.zero_add]
    by_cases hz : sz = 0
    · subst hz; simp only [Slice.len] at hlen; omega
    · have hc : (xs.take cap).length ≤ floorMul (s.len - max l.size et.dict.align) (max l.align et.dict.align) / sz := by
        have : cap ≤ floorMul (s.len - max l.size et.dict.align) (max l.align et.dict.align) / sz := by
          rw [hcapdef]; simp only [hz, if_false]; omega
        omega
      have := vec_z_le _ _ sz hapos hdo (n := s.len) (len := (xs.take cap).length) hlen hz hc
      have h2 := le_ceilMul (x := max l.size et.dict.align + sz * (xs.take cap).length) hapos
      simp only [Slice.len] at this
      rw [Nat.mul_comm]; omega
  obtain ⟨b1, hb1, hb1l, _, hel⟩ := vecWriteElems_spec sz (max l.size et.dict.align) (xs.take cap) 0 b0
    (fun x hx => by obtain ⟨sz', h1, h2, _⟩ := hxs x (List.mem_of_mem_take hx); rw [hsz] at h1; cases h1; exact h2) hroom
  obtain ⟨b2, hb2, _⟩ := writeAt_ok (bs := b1) (x := encLenTy l (xs.take cap).length) (off := 0)
    (by rw [encLenTy_length, hb1l, hb0l]; simp only [Slice.len] at hlen; omega)
  refine ⟨cap, b1, b2, by rw [hcapdef]; exact Nat.min_le_right _ _, by rw [hb1l, hb0l]; rfl,
    (by intro i hi; have := hel i hi; simpa using this), by rw [hb1l]; simpa using hroom, hb2, ?_⟩
  simp only [emplaceU, hb0, Res.bind_ok, hslots, hss, ← hcapdef, hb1, hb2]
  split <;> rfl

theorem content_vecIter (et : Ty) (h : et.WF) (sz : Nat) (hsz : et.dict.sized = some sz) (l : LenTy) (hl : l.Law)
    (xs : List Bytes) (hxs : ∀ x ∈ xs, ValidImage et.dict x) (s : Slice)
    (hal : s.addr % max l.align et.dict.align = 0) (hlen : max l.size et.dict.align ≤ s.len)
    (o : EO) (ho : emplaceU (.vec et l) (.vecIter xs) s = .ok o) : EmpContent (.vec et l) (.vecIter xs) s o := by
  intro hres
  obtain ⟨cap, b1, b2, hcapmax, hb1l, hel, hfit, hw, hcomp⟩ := vecIter_compute et (Ty.law et h) sz hsz l hl xs hxs s hlen
  rw [hcomp] at ho
  simp only [Res.ok.injEq] at ho
  by_cases hover : cap < xs.length
  · simp only [hover, if_true] at ho; rw [← ho] at hres; simp [EO.err] at hres
  · simp only [hover, if_false] at ho
    rw [← ho]
    have htk : xs.take cap = xs := List.take_of_length_le (by omega)
    rw [htk] at hel hfit hw
    have hn : xs.length < 256 ^ l.size := by have := lmax_lt l; omega
    have := vec_filled_content et h sz hsz l hl s.addr hal b1 b2 xs hxs (by rw [hb1l]; exact hlen) hel hfit hn hw
    simp only [specV]
    exact this

theorem content_vecArr (et : Ty) (h : et.WF) (sz : Nat) (hsz : et.dict.sized = some sz) (l : LenTy) (hl : l.Law)
    (xs : List Bytes) (hxs : ∀ x ∈ xs, ValidImage et.dict x) (s : Slice)
    (hal : s.addr % max l.align et.dict.align = 0) (hlen : max l.size et.dict.align ≤ s.len)
    (o : EO) (ho : emplaceU (.vec et l) (.vecArr xs) s = .ok o) : EmpContent (.vec et l) (.vecArr xs) s o := by
  intro hres
  -- `FromArray` differs from `FromIterator` only by refusing before it writes: on `Ok` the results coincide
  have hls : l.size ≤ max l.size et.dict.align := Nat.le_max_left _ _
  obtain ⟨b0, hb0, hb0l⟩ := writeAt_ok (bs := s.bytes) (x := encLenTy l 0) (off := 0)
    (by rw [encLenTy_length]; simp only [Slice.len] at hlen; omega)
  have hslots := vecSlots_ok et.dict l s.len hlen
  obtain ⟨c, hc⟩ : ∃ c, c = min (if et.dict.ssize = 0 then usizeMax else floorMul (s.len - max l.size et.dict.align) (max l.align et.dict.align) / et.dict.ssize) l.max := ⟨_, rfl⟩
  simp only [emplaceU, hb0, Res.bind_ok, hslots, ← hc] at ho
  by_cases hover : c < xs.length
  · simp only [hover, if_true, Res.ok.injEq] at ho; rw [← ho] at hres; simp [EO.err] at hres
  · simp only [hover, if_false] at ho
    have hsame : emplaceU (.vec et l) (.vecIter xs) s = .ok o := by
      simp only [emplaceU, hb0, Res.bind_ok, hslots, ← hc]
      rw [List.take_of_length_le (by omega)]
      simp only [hover, if_false]
      exact ho
    have := content_vecIter et h sz hsz l hl xs hxs s hal hlen o hsame hres
    simp only [specV] at this ⊢
    exact this

theorem content_vecEmpty (et : Ty) (hL : Law et.dict) (l : LenTy) (hl : l.Law) (s : Slice)
    (hal : s.addr % max l.align et.dict.align = 0) (hlen : max l.size et.dict.align ≤ s.len)
    (o : EO) (ho : emplaceU (.vec et l) .vecEmpty s = .ok o) : EmpContent (.vec et l) .vecEmpty s o := by
  intro _
  have hls : l.size ≤ max l.size et.dict.align := Nat.le_max_left _ _
  have hla : s.addr % l.align = 0 := mod_trans hal (Pow2.max_mod_left hl.align_pow2 hL.align_pow2)
  obtain ⟨b0, hb0, hb0l, hr, _⟩ := header_written l hl 0 (Nat.pow_pos (by decide)) s hla (by omega)
  simp only [emplaceU, hb0, Res.bind_ok, Res.ok.injEq] at ho
  rw [← ho]
  have hslots := vecSlots_ok et.dict l (⟨s.addr, b0⟩ : Slice).len (by simp only [Slice.len, hb0l]; exact hlen)
  show ((vecD et.dict l).walk ⟨s.addr, b0⟩).map Val.strip = specV (.vec et l) .vecEmpty
  simp only [vecD, hr, hslots, Res.bind_ok, specV]
  by_cases hz : et.dict.ssize = 0
  · simp only [hz, if_true, Res.map_ok, Val.strip]
  · simp only [hz, if_false, walkElems, Res.bind_ok, Res.map_ok, Val.strip, stripL]

theorem content_strEmpty (l : LenTy) (hl : l.Law) (s : Slice) (hal : s.addr % l.align = 0) (hlen : l.size ≤ s.len)
    (o : EO) (ho : emplaceU (.str l) .strEmpty s = .ok o) : EmpContent (.str l) .strEmpty s o := by
  intro _
  obtain ⟨b0, hb0, hb0l, hr, _⟩ := header_written l hl 0 (Nat.pow_pos (by decide)) s hal hlen
  simp only [emplaceU, hb0, Res.bind_ok, Res.ok.injEq] at ho
  rw [← ho]
  show ((strD l).walk ⟨s.addr, b0⟩).map Val.strip = specV (.str l) .strEmpty
  have hnl : ¬ (⟨s.addr, b0⟩ : Slice).len < l.size := by simp only [Slice.len, hb0l]; simp only [Slice.len] at hlen; omega
  simp only [strD, hr, Res.bind_ok, hnl, if_false, Res.map_ok, Val.strip, specV, List.take_zero]

theorem content_strFrom (l : LenTy) (hl : l.Law) (v : Bytes) (s : Slice) (hal : s.addr % l.align = 0) (hlen : l.size ≤ s.len)
    (o : EO) (ho : emplaceU (.str l) (.strFrom v) s = .ok o) : EmpContent (.str l) (.strFrom v) s o := by
  intro hres
  obtain ⟨b0, hb0, hb0l, _, _⟩ := header_written l hl 0 (Nat.pow_pos (by decide)) s hal hlen
  have hnl : ¬ s.len < l.size := by omega
  simp only [emplaceU, hb0, Res.bind_ok, hnl, if_false] at ho
  split at ho
  · simp only [Res.ok.injEq] at ho; rw [← ho] at hres; simp [EO.err] at hres
  · rename_i hfit
    have hfl := floorMul_le (s.len - l.size) l.align
    obtain ⟨b1, hb1, hb1l⟩ := writeAt_ok (bs := b0) (x := v) (off := l.size) (by rw [hb0l]; omega)
    have hlm := lmax_lt l
    obtain ⟨b2, hb2, hb2l, hr2, hrest⟩ := header_written l hl v.length (by omega) ⟨s.addr, b1⟩ hal
      (by simp only [Slice.len, hb1l, hb0l]; simp only [Slice.len] at hlen; omega)
    simp only [hb1, Res.bind_ok, hb2, Res.ok.injEq] at ho
    rw [← ho]
    show ((strD l).walk ⟨s.addr, b2⟩).map Val.strip = specV (.str l) (.strFrom v)
    simp only [Slice.len] at hb2l
    have hnl2 : ¬ (⟨s.addr, b2⟩ : Slice).len < l.size := by
      simp only [Slice.len, hb2l, hb1l, hb0l]; simp only [Slice.len] at hlen; omega
    have hpay : (b2.drop l.size).take v.length = v := by rw [hrest]; exact writeAt_read hb1
    simp only [strD, hr2, Res.bind_ok, hnl2, if_false, Res.map_ok, Val.strip, specV, hpay]

theorem content_flexEmpty (it : Ty) (hL : Law it.dict) (l : LenTy) (hl : l.Law) (s : Slice)
    (hal : s.addr % max l.align it.dict.align = 0) (hlen : max l.size it.dict.align ≤ s.len)
    (o : EO) (ho : emplaceU (.flex it l) .flexEmpty s = .ok o) : EmpContent (.flex it l) .flexEmpty s o := by
  intro _
  obtain ⟨addr, bytes⟩ := s
  simp only [Slice.len] at hlen
  have hls : l.size ≤ max l.size it.dict.align := Nat.le_max_left _ _
  have hla : addr % l.align = 0 := mod_trans hal (Pow2.max_mod_left hl.align_pow2 hL.align_pow2)
  have hapos := (Pow2.of_max hl.align_pow2 hL.align_pow2).pos
  obtain ⟨b0, hb0, hb0l, _, _⟩ := header_written l hl 0 (Nat.pow_pos (by decide)) ⟨addr, bytes⟩ hla (by simp only [Slice.len]; omega)
  simp only [Slice.len] at hb0l
  simp only [emplaceU, hb0, Res.bind_ok, Res.ok.injEq] at ho
  rw [← ho]
  show ((flexD it.dict l).walk ⟨addr, b0⟩).map Val.strip = specV (.flex it l) .flexEmpty
  have hn := floorMul_greatest hapos (dataOffset_mod l hl it.dict.align hL.align_pow2) hlen
  have hfl := floorMul_le bytes.length (max l.align it.dict.align)
  have hread := writeAt_read hb0
  simp only [List.drop_zero, encLenTy_length] at hread
  have hr : l.readU ⟨addr, b0.take (floorMul bytes.length (max l.align it.dict.align))⟩ = .ok 0 := by
    apply readU_of_take l ⟨addr, _⟩ 0 (Nat.pow_pos (by decide)) hla
    show (b0.take _).take l.size = _
    rw [List.take_take, Nat.min_eq_left (by omega), hread]
  simp only [flexD, Slice.len, Slice.take, hb0l, walkFlex, hr, Res.bind_ok, if_true, Res.map_ok, Val.strip, stripL, specV]

/-! ### field lists -/
/-- **A field list reads as the list of what every field reads** on the bytes from its position on. -/
theorem walkAll_intro : ∀ (ds : List Dict) (pos : Nat) (data : Slice) (cs : List Val), (∀ d ∈ ds, 0 < d.align) → HeadAligned ds pos →
    minSizeL ds pos ≤ pos + data.len → cs.length = ds.length →
    (∀ (i : Nat) (d : Dict) (P : Nat) (c : Val), ds[i]? = some d → (posList ds pos)[i]? = some P → cs[i]? = some c →
      (d.walk (data.drop (P - pos))).map Val.strip = .ok c) →
    ∃ vs, walkAll ds pos data = .ok vs ∧ stripL vs = cs := by
  intro ds
  induction ds with
  | nil =>
    intro _ _ cs _ _ _ hl _
    cases cs with
    | nil => exact ⟨[], rfl, rfl⟩
    | cons c cs => simp at hl
  | cons d ds ih =>
    intro pos data cs hal hh hmin hl hfield
    cases cs with
    | nil => simp at hl
    | cons c cs =>
      have h0 := hfield 0 d pos c rfl (by cases ds <;> rfl) rfl
      rw [Nat.sub_self, Slice.drop_zero] at h0
      cases hw : d.walk data with
      | ok w =>
        rw [hw] at h0
        simp only [Res.map_ok, Res.ok.injEq] at h0
        cases ds with
        | nil =>
          cases cs with
          | nil => exact ⟨[w], by simp [walkAll, hw], by simp [stripL, h0]⟩
          | cons c' cs' => simp at hl
        | cons d' ds' =>
          have hcm : ceilMul pos d.align = pos := ceilMul_of_mod (hal d (by simp)) (by simpa [HeadAligned] using hh)
          have hnext := next_le_minSizeL d d' ds' pos (fun x hx => hal x (by simp [hx])) hcm
          have hle : pos ≤ ceilMul (pos + d.ssize) d'.align := by
            have := le_ceilMul (x := pos + d.ssize) (hal d' (by simp)); omega
          have hsp : ceilMul (pos + d.ssize) d'.align - pos ≤ data.len := by omega
          obtain ⟨vs, hvs, hst⟩ := ih (ceilMul (pos + d.ssize) d'.align) (data.drop (ceilMul (pos + d.ssize) d'.align - pos)) cs
            (fun x hx => hal x (by simp [hx])) (by simp only [HeadAligned]; exact ceilMul_mod _ _)
            (by rw [minSizeL_next d d' ds' pos (hal d' (by simp)) hcm]; simp only [Slice.len_drop]; omega)
            (by simpa using hl)
            (by
              intro i dd P cc hi hP hc
              have := hfield (i + 1) dd P cc (by simpa using hi) (by simpa [posList] using hP) (by simpa using hc)
              have hPge : ceilMul (pos + d.ssize) d'.align ≤ P :=
                posList_ge (d' :: ds') _ i P (fun x hx => hal x (by simp [hx])) hP
              rw [Slice.drop_drop]
              have e : ceilMul (pos + d.ssize) d'.align - pos + (P - ceilMul (pos + d.ssize) d'.align) = P - pos := by omega
              rw [e]; exact this)
          exact ⟨w :: vs, by simp [walkAll, hw, Slice.splitAt, hsp, hvs], by simp [stripL, h0, hst]⟩
      | err e => rw [hw] at h0; simp at h0
      | fault f => rw [hw] at h0; simp at h0

/-- the contents of a list of sized images, index by index -/
theorem specSizedLV_spec : ∀ (fs : List Ty) (vals : List Bytes), wfL fs → ValsOk (dictL fs) vals →
    ∃ cs, specSizedLV fs vals = .ok cs ∧ cs.length = fs.length ∧
      ∀ (i : Nat) (t : Ty) (v : Bytes) (c : Val), fs[i]? = some t → vals[i]? = some v → cs[i]? = some c → specSizedV t v = .ok c := by
  intro fs
  induction fs with
  | nil => intro vals _ _; exact ⟨[], by simp [specSizedLV], rfl, by intro i t v c h; simp at h⟩
  | cons t ts ih =>
    intro vals hwf hv
    cases vals with
    | nil => have := hv.1; simp [dictL] at this
    | cons v vs =>
      have hvi : ValidImage t.dict v := hv.2 0 t.dict v (by simp [dictL]) rfl
      obtain ⟨c, hc⟩ := specSizedV_ok t hwf.1 v hvi
      obtain ⟨cs, hcs, hcl, hci⟩ := ih vs hwf.2
        ⟨by have := hv.1; simp only [dictL, List.length_cons] at this; omega,
         fun i d x hd hx => hv.2 (i + 1) d x (by simpa [dictL] using hd) (by simpa using hx)⟩
      refine ⟨c :: cs, by simp [specSizedLV, hc, hcs], by simp [hcl], ?_⟩
      intro i t' v' c' ht hv' hc'
      cases i with
      | zero =>
        simp only [List.getElem?_cons_zero, Option.some.injEq] at ht hv' hc'
        rw [← ht, ← hv', ← hc']; exact hc
      | succ i => exact hci i t' v' c' (by simpa using ht) (by simpa using hv') (by simpa using hc')

theorem dictL_getElem? : ∀ (fs : List Ty) (i : Nat), (dictL fs)[i]? = (fs[i]?).map Ty.dict := by
  intro fs
  induction fs with
  | nil => intro i; simp [dictL]
  | cons t ts ih =>
    intro i
    cases i with
    | zero => simp [dictL]
    | succ i => simpa [dictL] using ih i

theorem dictL_length : ∀ fs : List Ty, (dictL fs).length = fs.length := by
  intro fs; induction fs with
  | nil => rfl
  | cons t ts ih => simp [dictL, ih]

/-- all-sized field list written by `writeFields` ⇒ it reads as the contents of the images -/
theorem sizedFields_content_of_written (fs : List Ty) (hwf : wfL fs) (vals : List Bytes) (hv : ValsOk (dictL fs) vals)
    (A : Nat) (hA : A % alignL (dictL fs) = 0) (b1 : Bytes)
    (hel : ∀ (i : Nat) (d : Dict) (v : Bytes) (P : Nat), (dictL fs)[i]? = some d → vals[i]? = some v → (posList (dictL fs) 0)[i]? = some P →
      (b1.drop P).take d.ssize = v)
    (hmin : minSizeL (dictL fs) 0 ≤ b1.length) :
    ∃ cs vs, specSizedLV fs vals = .ok cs ∧ walkAll (dictL fs) 0 ⟨A, b1⟩ = .ok vs ∧ stripL vs = cs := by
  have hl := lawL fs hwf
  have hpos : ∀ d ∈ dictL fs, 0 < d.align := fun d hd => (hl d hd).align_pow2.pos
  obtain ⟨cs, hcs, hcl, hci⟩ := specSizedLV_spec fs vals hwf hv
  obtain ⟨vs, hvs, hst⟩ := walkAll_intro (dictL fs) 0 ⟨A, b1⟩ cs hpos (headAligned_zero _) (by simpa [Slice.len] using hmin)
    (by rw [hcl, dictL_length])
    (by
      intro i d P c hi hP hc
      rw [Nat.sub_zero]
      rw [dictL_getElem?] at hi
      cases hti : fs[i]? with
      | none => rw [hti] at hi; cases hi
      | some t =>
        rw [hti] at hi
        simp only [Option.map_some, Option.some.injEq] at hi
        subst hi
        have hlt : i < fs.length := by
          rcases Nat.lt_or_ge i fs.length with h | h
          · exact h
          · rw [List.getElem?_eq_none h] at hti; cases hti
        have hvi : i < vals.length := by have := hv.1; rw [dictL_length] at this; omega
        have hvv : vals[i]? = some vals[i] := List.getElem?_eq_getElem hvi
        have hdi : (dictL fs)[i]? = some t.dict := by rw [dictL_getElem?, hti]; rfl
        have hmem : t.dict ∈ dictL fs := List.mem_of_getElem? hdi
        have htwf : t.WF := by
          have : ∀ (gs : List Ty) (j : Nat) (u : Ty), wfL gs → gs[j]? = some u → u.WF := by
            intro gs
            induction gs with
            | nil => intro j u _ h; simp at h
            | cons g gs ihg =>
              intro j u hw hj
              cases j with
              | zero => simp at hj; subst hj; exact hw.1
              | succ j => exact ihg j u hw.2 (by simpa using hj)
          exact this fs i t hwf hti
        rw [← hci i t vals[i] c hti hvv hc]
        apply image_content t htwf vals[i] (hv.2 i t.dict _ hdi hvv)
        · show (A + P) % t.dict.align = 0
          exact add_mod_zero (mod_trans hA (alignL_mod _ hl t.dict hmem)) (posList_mod (dictL fs) 0 i P t.dict (headAligned_zero _) hdi hP)
        · exact hel i t.dict _ P hdi hvv hP)
  exact ⟨cs, vs, hcs, hvs, hst⟩

theorem wfL_getElem? : ∀ (gs : List Ty) (j : Nat) (u : Ty), wfL gs → gs[j]? = some u → u.WF := by
  intro gs
  induction gs with
  | nil => intro j u _ h; simp at h
  | cons g gs ihg =>
    intro j u hw hj
    cases j with
    | zero => simp at hj; subst hj; exact hw.1
    | succ j => exact ihg j u hw.2 (by simpa using hj)

/-- sized fields written by `writeFields`, last field with known content ⇒ the field list reads as images' contents + last -/
theorem fields_content_of_written (fs : List Ty) (last : Ty) (hwf : wfL fs) (hlwf : last.WF)
    (vals : List Bytes) (hv : ValsOk (dictL fs) vals) (A : Nat) (hA : A % alignL (dictL fs ++ [last.dict]) = 0)
    (b1 R : Bytes)
    (hel : ∀ (i : Nat) (d : Dict) (v : Bytes) (P : Nat), (dictL fs)[i]? = some d → vals[i]? = some v → (posList (dictL fs) 0)[i]? = some P →
      (b1.drop P).take d.ssize = v)
    (hR : R.take (foldSize (dictL fs) 0) = b1.take (foldSize (dictL fs) 0))
    (hmin : minSizeL (dictL fs ++ [last.dict]) 0 ≤ R.length) (cl : Val)
    (hlc : (last.dict.walk ⟨A + ceilMul (foldSize (dictL fs) 0) last.dict.align, R.drop (ceilMul (foldSize (dictL fs) 0) last.dict.align)⟩).map Val.strip = .ok cl) :
    ∃ cs vs, specSizedLV fs vals = .ok cs ∧ walkAll (dictL fs ++ [last.dict]) 0 ⟨A, R⟩ = .ok vs ∧ stripL vs = cs ++ [cl] := by
  have hl := lawL fs hwf
  have hlaw : ∀ d ∈ dictL fs ++ [last.dict], Law d := by
    intro d hd; simp only [List.mem_append, List.mem_singleton] at hd
    rcases hd with h | rfl
    · exact hl d h
    · exact Ty.law last hlwf
  have hpos : ∀ d ∈ dictL fs ++ [last.dict], 0 < d.align := fun d hd => (hlaw d hd).align_pow2.pos
  have hposd : ∀ d ∈ dictL fs, 0 < d.align := fun d hd => hpos d (by simp [hd])
  obtain ⟨cs, hcs, hcl, hci⟩ := specSizedLV_spec fs vals hwf hv
  have hdl := dictL_length fs
  obtain ⟨vs, hvs, hst⟩ := walkAll_intro (dictL fs ++ [last.dict]) 0 ⟨A, R⟩ (cs ++ [cl]) hpos (headAligned_zero _)
    (by simpa [Slice.len] using hmin) (by simp [hcl, hdl])
    (by
      intro i d P c hi hP hc
      rw [Nat.sub_zero]
      rcases Nat.lt_trichotomy i (dictL fs).length with hlt | heq | hgt
      · rw [List.getElem?_append_left hlt] at hi
        rw [posList_append_lt (dictL fs) last.dict 0 i hlt] at hP
        rw [List.getElem?_append_left (by omega)] at hc
        have hi' := hi
        rw [dictL_getElem?] at hi
        cases hti : fs[i]? with
        | none => rw [hti] at hi; cases hi
        | some t =>
          rw [hti] at hi
          simp only [Option.map_some, Option.some.injEq] at hi
          subst hi
          have hvi : i < vals.length := by have := hv.1; omega
          have hvv : vals[i]? = some vals[i] := List.getElem?_eq_getElem hvi
          have hmem : t.dict ∈ dictL fs := List.mem_of_getElem? hi'
          have hend := posList_end_le (dictL fs) 0 i P t.dict hposd (headAligned_zero _) hi' hP
          rw [← hci i t vals[i] c hti hvv hc]
          apply image_content t (wfL_getElem? fs i t hwf hti) vals[i] (hv.2 i t.dict _ hi' hvv)
          · show (A + P) % t.dict.align = 0
            exact add_mod_zero (mod_trans hA (alignL_mod _ hlaw t.dict (by simp [hmem])))
              (posList_mod (dictL fs) 0 i P t.dict (headAligned_zero _) hi' hP)
          · show (R.drop P).take t.dict.ssize = vals[i]
            rw [drop_take_eq hR hend]
            exact hel i t.dict _ P hi' hvv hP
      · have hPl := posList_append_last (dictL fs) last.dict 0 hpos (headAligned_zero _)
        rw [heq] at hi hP hc
        rw [hPl] at hP
        simp only [List.getElem?_append_right (Nat.le_refl _), Nat.sub_self, List.getElem?_cons_zero, Option.some.injEq] at hi hP
        rw [List.getElem?_append_right (by omega)] at hc
        have : (dictL fs).length - cs.length = 0 := by omega
        rw [this] at hc
        simp only [List.getElem?_cons_zero, Option.some.injEq] at hc
        rw [← hi, ← hP, ← hc]
        exact hlc
      · rw [List.getElem?_eq_none (by simp; omega)] at hi
        cases hi)
  exact ⟨cs, vs, hcs, hvs, hst⟩

/-- the full contract: no fault, valid on `Ok`, and the specified content on `Ok` -/
def EmpSpecC (t : Ty) (i : Init) : Prop :=
  ∀ s : Slice, s.addr % t.dict.align = 0 → t.dict.minSize ≤ s.len →
    ∃ o, emplaceU t i s = .ok o ∧ EmpOk t.dict s o ∧ EmpContent t i s o

theorem EmpSpecC.spec {t : Ty} {i : Init} (h : EmpSpecC t i) : EmpSpec t i := by
  intro s hal hlen
  obtain ⟨o, h1, h2, _⟩ := h s hal hlen
  exact ⟨o, h1, h2⟩

/-- when an emplacer reports `Ok`, what it specifies is a well-defined content -/
theorem spec_ok_of_content (t : Ty) (h : t.WF) (i : Init) (s : Slice) (o : EO) (hal : s.addr % t.dict.align = 0)
    (hlen : t.dict.minSize ≤ s.len) (hok : EmpOk t.dict s o) (hc : EmpContent t i s o) (hres : o.res = .ok ()) :
    ∃ c, specV t i = .ok c ∧ (t.dict.walk ⟨s.addr, o.bytes⟩).map Val.strip = .ok c := by
  obtain ⟨w, hw⟩ := (Ty.walkLaw t h).total ⟨s.addr, o.bytes⟩ (by simp only [Slice.len, hok.len]; exact hlen) (hok.valid hres)
  have := hc hres
  rw [hw] at this
  exact ⟨w.strip, this.symm, by rw [hw]; rfl⟩

/-- **generated `…Init` of an unsized struct: content** -/
theorem content_ustruct (fs : List Ty) (last : Ty) (hwf : wfL fs) (hsz : sizedL fs) (hlwf : last.WF) (vals : List Bytes) (li : Init)
    (hv : ValsOk (dictL fs) vals) (hrec : EmpSpecC last li) : EmpSpecC (.ustruct fs last) (.ustruct vals li) := by
  have hl := lawL fs hwf
  have hf := frameL fs hwf
  have hs := sizedL_allSized fs hsz
  have hlast := Ty.law last hlwf
  intro s hal hlen
  obtain ⟨o, ho, hok⟩ := emplace_ustruct fs last vals li hl hf hs hlast hv hrec.spec s hal hlen
  refine ⟨o, ho, hok, ?_⟩
  intro hres
  obtain ⟨addr, bytes⟩ := s
  simp only [Ty.dict, ustructD, Slice.len] at hal hlen
  have hlaw : ∀ d ∈ dictL fs ++ [last.dict], Law d := by
    intro d hd; simp only [List.mem_append, List.mem_singleton] at hd
    rcases hd with h | rfl
    · exact hl d h
    · exact hlast
  have hposd : ∀ d ∈ dictL fs, 0 < d.align := fun d hd => (hl d hd).align_pow2.pos
  have hapos := alignL_pos (dictL fs ++ [last.dict])
  have hms := minSizeL_append (dictL fs) last.dict hl hs 0
  have h1 := le_ceilMul (x := minSizeL (dictL fs ++ [last.dict]) 0) hapos
  have h2 := floorMul_greatest hapos (ceilMul_mod (minSizeL (dictL fs ++ [last.dict]) 0) (alignL (dictL fs ++ [last.dict]))) hlen
  have h3 := floorMul_le bytes.length (alignL (dictL fs ++ [last.dict]))
  have hlpos := hlast.align_pow2.pos
  have h4 := le_ceilMul (x := foldSize (dictL fs) 0) hlpos
  have hlamod : alignL (dictL fs ++ [last.dict]) % last.dict.align = 0 := alignL_mod _ hlaw last.dict (by simp)
  have hlfomod := ceilMul_mod (foldSize (dictL fs) 0) last.dict.align
  simp only [emplaceU, Slice.len, Slice.take] at ho
  have hspec : specV (.ustruct fs last) (.ustruct vals li) =
      (specSizedLV fs vals).bind fun xs => (specV last li).bind fun x => .ok (.tuple (xs ++ [x])) := by simp only [specV]
  rw [hspec]
  show ((ustructD (dictL fs) last.dict).walk ⟨addr, o.bytes⟩).map Val.strip = _
  simp only [ustructD, Slice.len, Slice.take]
  generalize hn_def : floorMul bytes.length (alignL (dictL fs ++ [last.dict])) = n at *
  have hn : (bytes.take n).length = n := by simp only [List.length_take]; omega
  obtain ⟨b1, hb1, hb1l, _, _, hel⟩ := writeFields_spec (dictL fs) vals 0 (bytes.take n)
    hposd (headAligned_zero _) hv.1 hv.len (by rw [hn]; omega)
  rw [hn] at hb1l
  have hw : (if (dictL fs).isEmpty then Res.ok (bytes.take n) else writeFields (dictL fs) vals 0 (bytes.take n)) = .ok b1 := by
    cases hds : dictL fs with
    | nil => rw [hds] at hb1; simpa [writeFields] using hb1
    | cons d ds => rw [hds] at hb1; simpa using hb1
  have hsa : (addr + ceilMul (foldSize (dictL fs) 0) last.dict.align) % last.dict.align = 0 := add_mod_zero (mod_trans hal hlamod) hlfomod
  have hsl : last.dict.minSize ≤ (⟨addr + ceilMul (foldSize (dictL fs) 0) last.dict.align, b1.drop (ceilMul (foldSize (dictL fs) 0) last.dict.align)⟩ : Slice).len := by simp only [Slice.len, List.length_drop]; omega
  obtain ⟨o', ho', hok', hc'⟩ := hrec ⟨addr + ceilMul (foldSize (dictL fs) 0) last.dict.align, b1.drop (ceilMul (foldSize (dictL fs) 0) last.dict.align)⟩ hsa hsl
  have hol : o'.bytes.length = n - ceilMul (foldSize (dictL fs) 0) last.dict.align := by have := hok'.len; simpa [Slice.len, hb1l] using this
  have hck : checkAlignMin (alignL (dictL fs ++ [last.dict])) (minSizeL (dictL fs ++ [last.dict]) 0) ⟨addr, bytes.take n⟩ = .ok () := by
    rw [checkAlignMin_ok]; exact ⟨hal, by simp only [Slice.len]; rw [hn]; omega⟩
  simp only [hck, hw, Res.bind_ok, ho', Res.ok.injEq] at ho
  rw [← ho] at hres ⊢
  have hres' : o'.res = .ok () := hres
  obtain ⟨cl, hcl, hwl⟩ := spec_ok_of_content last hlwf li _ o' hsa hsl hok' hc' hres'
  have hRl : (b1.take (ceilMul (foldSize (dictL fs) 0) last.dict.align) ++ o'.bytes).length = n := by
    simp only [List.length_append, List.length_take, hol, hb1l]; omega
  have hlenR : (b1.take (ceilMul (foldSize (dictL fs) 0) last.dict.align) ++ o'.bytes ++ bytes.drop n).length = bytes.length := by
    rw [List.length_append, hRl, List.length_drop]; omega
  simp only [hlenR, hn_def]
  rw [List.take_append_of_le_length (by omega), List.take_of_length_le (by omega)]
  obtain ⟨cs, vs, hcs, hvs, hst⟩ := fields_content_of_written fs last hwf hlwf vals hv addr hal b1 (b1.take (ceilMul (foldSize (dictL fs) 0) last.dict.align) ++ o'.bytes) hel
    (by rw [List.take_append_of_le_length (by simp only [List.length_take]; omega), List.take_take, Nat.min_eq_left h4])
    (by rw [hRl]; omega) cl
    (by rw [List.drop_left' (by simp only [List.length_take]; omega)]; exact hwl)
  simp only [hvs, hcs, hcl, Res.bind_ok, Res.map_ok, Val.strip, hst]

/-! ### unsized enums -/
/-- tag and data part put together, read back -/
theorem uenum_wrap_content (tag : LenTy) (dvs : List (List Dict)) (addr : Nat) (bytes b0 data' : Bytes)
    (idx : Nat) (hrep : idx < 256 ^ tag.size) (al dOff n : Nat)
    (hal_def : al = max tag.align (alignLL dvs)) (hd : dOff = ceilMul tag.size al) (hapos : 0 < al) (hge : dOff ≤ bytes.length)
    (hn : n = floorMul (bytes.length - dOff) al) (hta : addr % tag.align = 0)
    (hb0 : writeAt bytes 0 (encLenTy tag idx) = .ok b0) (hdl : data'.length = n) (vs : List Val)
    (hw : walkAll (dvs.getD idx []) 0 ⟨addr + dOff, data'⟩ = .ok vs) :
    (uenumD tag dvs).walk ⟨addr, b0.take dOff ++ data' ++ b0.drop (dOff + n)⟩ = .ok (.tag idx vs) := by
  have hb0l := writeAt_length hb0
  have hnle : n ≤ bytes.length - dOff := by rw [hn]; exact floorMul_le _ _
  have htd : tag.size ≤ dOff := by rw [hd]; exact le_ceilMul hapos
  have hRl : (b0.take dOff ++ data' ++ b0.drop (dOff + n)).length = bytes.length := by
    simp only [List.length_append, List.length_take, List.length_drop, hdl, hb0l]; omega
  have hread := writeAt_read hb0
  simp only [List.drop_zero, encLenTy_length] at hread
  have hr : tag.readU ⟨addr, b0.take dOff ++ data' ++ b0.drop (dOff + n)⟩ = .ok idx := by
    apply readU_of_take tag _ idx hrep hta
    show (b0.take dOff ++ data' ++ b0.drop (dOff + n)).take tag.size = _
    rw [List.append_assoc, List.take_append_of_le_length (by simp only [List.length_take]; omega), List.take_take,
      Nat.min_eq_left htd, hread]
  subst hal_def hd
  have hdo : ceilMul tag.size (max tag.align (alignLL dvs)) ≤ (⟨addr, b0.take (ceilMul tag.size (max tag.align (alignLL dvs))) ++ data' ++ b0.drop (ceilMul tag.size (max tag.align (alignLL dvs)) + n)⟩ : Slice).len := by
    simp only [Slice.len, hRl]; exact hge
  simp only [uenumD, hr, Res.bind_ok, Slice.dropU, hdo, if_true, Slice.len_drop]
  simp only [Slice.len, hRl, ← hn, Slice.drop, Slice.take]
  rw [List.append_assoc, List.drop_left' (by simp only [List.length_take]; omega), List.take_left' hdl, hw]
  rfl

theorem content_uenum_none (tag : LenTy) (ht : tag.Law) (vs : List (List Ty)) (hwf : wfLL vs)
    (idx : Nat) (hidx : idx < vs.length) (hrep : idx < 256 ^ tag.size) (vals : List Bytes)
    (hsz : sizedL (vs.getD idx [])) (hv : ValsOk (dictL (vs.getD idx [])) vals) :
    EmpSpecC (.uenum tag vs) (.uenum idx vals none) := by
  have hl := lawLL vs hwf
  have hf := frameLL vs hwf
  have hs := sizedL_allSized _ hsz
  have hvwf := wfLL_getD vs idx hwf
  intro s hal hlen
  obtain ⟨o, ho, hok⟩ := emplace_uenum_none tag ht vs hl hf idx hidx hrep vals hs hv s hal hlen
  refine ⟨o, ho, hok, ?_⟩
  intro hres
  obtain ⟨addr, bytes⟩ := s
  simp only [Ty.dict, uenumD, Slice.len] at hal hlen
  obtain ⟨hapos, hge, htd, hta, hva⟩ := uenum_geometry tag ht (dictLL vs) hl addr bytes.length hal hlen
  have hidx' : idx < (dictLL vs).length := by rw [dictLL_length]; exact hidx
  have hmem : (dictLL vs).getD idx [] ∈ dictLL vs := getD_mem _ _ _ hidx'
  obtain ⟨b0, hb0, hb0l⟩ := writeAt_ok (bs := bytes) (x := encLenTy tag idx) (off := 0) (by rw [encLenTy_length]; omega)
  have hnl : ¬ bytes.length < ceilMul tag.size (max tag.align (alignLL (dictLL vs))) := by omega
  simp only [emplaceU, Slice.len, hnl, if_false, hb0, Res.bind_ok] at ho
  have hspec : specV (.uenum tag vs) (.uenum idx vals none) = (specSizedLV (vs.getD idx []) vals).bind fun xs => .ok (.tag idx xs) := by
    simp only [specV]
  rw [hspec]
  rw [dictLL_getD] at hmem ho
  show ((uenumD tag (dictLL vs)).walk ⟨addr, o.bytes⟩).map Val.strip = _
  generalize hv_def : vs.getD idx [] = v at *
  cases v with
  | nil =>
    simp only [dictL, List.isEmpty_nil, if_true, Res.ok.injEq] at ho
    rw [← ho]
    have hread := writeAt_read hb0
    simp only [List.drop_zero, encLenTy_length] at hread
    have hr : tag.readU ⟨addr, b0⟩ = .ok idx := readU_of_take tag _ idx hrep hta hread
    have hdo : ceilMul tag.size (max tag.align (alignLL (dictLL vs))) ≤ (⟨addr, b0⟩ : Slice).len := by simp only [Slice.len, hb0l]; exact hge
    simp only [uenumD, EO.ok, hr, Res.bind_ok, Slice.dropU, hdo, if_true, dictLL_getD, hv_def, dictL, walkAll, specSizedLV,
      Res.map_ok, Val.strip, stripL]
  | cons t0 v0 =>
    simp only [dictL, List.isEmpty_cons, Bool.false_eq_true, if_false] at ho
    cases hck : checkAlignMin (alignL (dictL (t0 :: v0))) (minSizeL (dictL (t0 :: v0)) 0)
        (Slice.take (Slice.drop ⟨addr, bytes⟩ (ceilMul tag.size (max tag.align (alignLL (dictLL vs))))) (floorMul (bytes.length - ceilMul tag.size (max tag.align (alignLL (dictLL vs)))) (max tag.align (alignLL (dictLL vs))))) with
    | fault f => simp only [dictL] at hck; simp only [hck] at ho; cases ho
    | err e => simp only [dictL] at hck; simp only [hck, Res.ok.injEq] at ho; rw [← ho] at hres; cases hres
    | ok u =>
      obtain ⟨_, hmin⟩ := checkAlignMin_ok.1 hck
      simp only [dictL] at hck
      simp only [hck] at ho
      simp only [Slice.len, Slice.take, Slice.drop, List.length_take, List.length_drop] at hmin
      have hnle := floorMul_le (bytes.length - ceilMul tag.size (max tag.align (alignLL (dictLL vs)))) (max tag.align (alignLL (dictLL vs)))
      generalize hn_def : floorMul (bytes.length - ceilMul tag.size (max tag.align (alignLL (dictLL vs)))) (max tag.align (alignLL (dictLL vs))) = n at *
      have hdl : ((b0.drop (ceilMul tag.size (max tag.align (alignLL (dictLL vs))))).take n).length = n := by
        simp only [List.length_take, List.length_drop, hb0l]; omega
      have hlv := hl _ hmem
      have hfold := minSizeL_eq_foldSize (dictL (t0 :: v0)) hlv hs 0
      obtain ⟨b1, hb1, hb1l, _, _, hel⟩ := writeFields_spec (dictL (t0 :: v0)) vals 0 ((b0.drop (ceilMul tag.size (max tag.align (alignLL (dictLL vs))))).take n)
        (fun d hd => (hlv d hd).align_pow2.pos) (headAligned_zero _) hv.1 hv.len (by rw [hdl, ← hfold]; omega)
      rw [hdl] at hb1l
      simp only [dictL] at hb1
      simp only [hb1, Res.bind_ok, Res.ok.injEq] at ho
      rw [← ho]
      obtain ⟨cs, ws, hcs, hws, hst⟩ := sizedFields_content_of_written (t0 :: v0) hvwf vals hv
        (addr + ceilMul tag.size (max tag.align (alignLL (dictLL vs)))) (hva _ hmem) b1 hel (by rw [hb1l]; omega)
      have := uenum_wrap_content tag (dictLL vs) addr bytes b0 b1 idx hrep _ _ n rfl rfl hapos hge hn_def.symm hta hb0 hb1l ws
        (by rw [dictLL_getD, hv_def]; exact hws)
      simp only [EO.ok]
      rw [this, hcs]
      simp only [Res.map_ok, Res.bind_ok, Val.strip, hst]

theorem content_uenum_some (tag : LenTy) (ht : tag.Law) (vs : List (List Ty)) (hwf : wfLL vs) (hbl : butLastLL vs)
    (idx : Nat) (hidx : idx < vs.length) (hrep : idx < 256 ^ tag.size) (vals : List Bytes)
    (pre : List Ty) (lt : Ty) (hvar : vs.getD idx [] = pre ++ [lt])
    (hv : ValsOk (dictL pre) vals) (lasti : Init) (hrec : EmpSpecC lt lasti) :
    EmpSpecC (.uenum tag vs) (.uenum idx vals (some lasti)) := by
  have hl := lawLL vs hwf
  have hf := frameLL vs hwf
  have hvwf := wfLL_getD vs idx hwf
  have hvbl := butLastLL_getD vs idx hbl
  rw [hvar] at hvwf hvbl
  obtain ⟨hprewf, hltwf⟩ := wfL_concat pre lt hvwf
  have hs := sizedL_allSized _ (butLastL_concat pre lt hvbl)
  intro s hal hlen
  obtain ⟨o, ho, hok⟩ := emplace_uenum_some tag ht vs hl hf idx hidx hrep vals pre lt hvar hs hv lasti hrec.spec s hal hlen
  refine ⟨o, ho, hok, ?_⟩
  intro hres
  obtain ⟨addr, bytes⟩ := s
  simp only [Ty.dict, uenumD, Slice.len] at hal hlen
  obtain ⟨hapos, hge, htd, hta, hva⟩ := uenum_geometry tag ht (dictLL vs) hl addr bytes.length hal hlen
  have hidx' : idx < (dictLL vs).length := by rw [dictLL_length]; exact hidx
  have hmem : (dictLL vs).getD idx [] ∈ dictLL vs := getD_mem _ _ _ hidx'
  obtain ⟨b0, hb0, hb0l⟩ := writeAt_ok (bs := bytes) (x := encLenTy tag idx) (off := 0) (by rw [encLenTy_length]; omega)
  have hnl : ¬ bytes.length < ceilMul tag.size (max tag.align (alignLL (dictLL vs))) := by omega
  simp only [emplaceU, Slice.len, hnl, if_false, hb0, Res.bind_ok] at ho
  rw [dictLL_getD, hvar, dictL_append] at hmem
  rw [dictLL_getD, hvar, dictL_append] at ho
  simp only [dictL] at hmem ho
  have hspec : specV (.uenum tag vs) (.uenum idx vals (some lasti)) =
      (specSizedLV pre vals).bind fun xs => (specV lt lasti).bind fun x => .ok (.tag idx (xs ++ [x])) := by
    simp only [specV, hvar, List.getLast?_concat, List.dropLast_concat]
  rw [hspec]
  show ((uenumD tag (dictLL vs)).walk ⟨addr, o.bytes⟩).map Val.strip = _
  have hlv := hl _ hmem
  have hlpre : ∀ d ∈ dictL pre, Law d := fun d hd => hlv d (by simp [hd])
  have hllt : Law lt.dict := hlv _ (by simp)
  have hposv : ∀ x ∈ dictL pre ++ [lt.dict], 0 < x.align := fun x hx => (hlv x hx).align_pow2.pos
  have hms := minSizeL_append (dictL pre) lt.dict hlpre hs 0
  have hlp := lastPos_append (dictL pre) lt.dict 0 hposv (headAligned_zero _)
  have h4 := le_ceilMul (x := foldSize (dictL pre) 0) hllt.align_pow2.pos
  have hltmod : alignL (dictL pre ++ [lt.dict]) % lt.dict.align = 0 := alignL_mod _ hlv lt.dict (by simp)
  have hlfomod := ceilMul_mod (foldSize (dictL pre) 0) lt.dict.align
  have hvA := hva _ hmem
  have hne : (dictL pre ++ [lt.dict]).isEmpty = false := by cases dictL pre <;> rfl
  have hgetD : (dictLL vs).getD idx [] = dictL pre ++ [lt.dict] := by rw [dictLL_getD, hvar, dictL_append]; rfl
  simp only [hne, Bool.false_eq_true, if_false, List.dropLast_concat, List.getLast?_concat, hlp] at ho
  have hnle := floorMul_le (bytes.length - ceilMul tag.size (max tag.align (alignLL (dictLL vs)))) (max tag.align (alignLL (dictLL vs)))
  generalize hn_def : floorMul (bytes.length - ceilMul tag.size (max tag.align (alignLL (dictLL vs)))) (max tag.align (alignLL (dictLL vs))) = n at *
  cases hck : checkAlignMin (alignL (dictL pre ++ [lt.dict])) (minSizeL (dictL pre ++ [lt.dict]) 0)
      (Slice.take (Slice.drop ⟨addr, bytes⟩ (ceilMul tag.size (max tag.align (alignLL (dictLL vs))))) n) with
  | fault f => simp only [hck] at ho; cases ho
  | err e => simp only [hck, Res.ok.injEq] at ho; rw [← ho] at hres; cases hres
  | ok u =>
    obtain ⟨_, hmin⟩ := checkAlignMin_ok.1 hck
    simp only [hck] at ho
    simp only [Slice.len, Slice.take, Slice.drop, List.length_take, List.length_drop] at hmin
    have hdl : ((b0.drop (ceilMul tag.size (max tag.align (alignLL (dictLL vs))))).take n).length = n := by
      simp only [List.length_take, List.length_drop, hb0l]; omega
    obtain ⟨b1, hb1, hb1l, _, _, hel⟩ := writeFields_spec (dictL pre) vals 0 ((b0.drop (ceilMul tag.size (max tag.align (alignLL (dictLL vs))))).take n)
      (fun d hd => (hlpre d hd).align_pow2.pos) (headAligned_zero _) hv.1 hv.len (by rw [hdl]; omega)
    rw [hdl] at hb1l
    have hw : (if (dictL pre).isEmpty then Res.ok ((b0.drop (ceilMul tag.size (max tag.align (alignLL (dictLL vs))))).take n)
        else writeFields (dictL pre) vals 0 ((b0.drop (ceilMul tag.size (max tag.align (alignLL (dictLL vs))))).take n)) = .ok b1 := by
      cases hds : dictL pre with
      | nil => rw [hds] at hb1; simpa [writeFields] using hb1
      | cons d ds => rw [hds] at hb1; simpa using hb1
    have hsa : (addr + ceilMul tag.size (max tag.align (alignLL (dictLL vs))) + ceilMul (foldSize (dictL pre) 0) lt.dict.align) % lt.dict.align = 0 :=
      add_mod_zero (mod_trans hvA hltmod) hlfomod
    have hsl : lt.dict.minSize ≤ (⟨addr + ceilMul tag.size (max tag.align (alignLL (dictLL vs))) + ceilMul (foldSize (dictL pre) 0) lt.dict.align,
        b1.drop (ceilMul (foldSize (dictL pre) 0) lt.dict.align)⟩ : Slice).len := by simp only [Slice.len, List.length_drop]; omega
    obtain ⟨o', ho', hok', hc'⟩ := hrec _ hsa hsl
    have hol : o'.bytes.length = n - ceilMul (foldSize (dictL pre) 0) lt.dict.align := by
      have := hok'.len; simpa [Slice.len, hb1l] using this
    simp only [hw, Res.bind_ok, ho', Res.ok.injEq] at ho
    rw [← ho] at hres ⊢
    have hres' : o'.res = .ok () := by
      cases hr : o'.res with
      | ok u => rfl
      | error e => simp only [hr, Except.mapError] at hres; cases hres
    obtain ⟨cl, hcl, hwl⟩ := spec_ok_of_content lt hltwf lasti _ o' hsa hsl hok' hc' hres'
    have hRl : (b1.take (ceilMul (foldSize (dictL pre) 0) lt.dict.align) ++ o'.bytes).length = n := by
      simp only [List.length_append, List.length_take, hol, hb1l]; omega
    obtain ⟨cs, ws, hcs, hws, hst⟩ := fields_content_of_written pre lt hprewf hltwf vals hv
      (addr + ceilMul tag.size (max tag.align (alignLL (dictLL vs)))) hvA b1
      (b1.take (ceilMul (foldSize (dictL pre) 0) lt.dict.align) ++ o'.bytes) hel
      (by rw [List.take_append_of_le_length (by simp only [List.length_take]; omega), List.take_take, Nat.min_eq_left h4])
      (by rw [hRl]; omega) cl
      (by rw [List.drop_left' (by simp only [List.length_take]; omega)]; exact hwl)
    have := uenum_wrap_content tag (dictLL vs) addr bytes b0 (b1.take (ceilMul (foldSize (dictL pre) 0) lt.dict.align) ++ o'.bytes)
      idx hrep _ _ n rfl rfl hapos hge hn_def.symm hta hb0 hRl ws (by rw [hgetD]; exact hws)
    show ((uenumD tag (dictLL vs)).walk ⟨addr, _⟩).map Val.strip = _
    rw [this, hcs, hcl]
    simp only [Res.map_ok, Res.bind_ok, Val.strip, hst]
end FV
