import FV.EmplaceFields
import FV.FrameUnsized
/-! Emplace theorems, part 3: generated `Init` structs (sized fields, then the unsized last field). -/
namespace FV

/-- a valid sized image validates wherever its bytes start a suitably aligned slice -/
theorem validImage_at (d : Dict) (hL : Law d) (hF : FrameLaw d) (v : Bytes) (hv : ValidImage d v) (s : Slice)
    (hal : s.addr % d.align = 0) (hb : s.bytes.take d.ssize = v) : d.validateU s = .ok () := by
  obtain ⟨sz, hsz, hvl, hval⟩ := hv
  have hss : d.ssize = sz := by simp [Dict.ssize, hsz]
  have hmin := hL.sized_min sz hsz
  rw [hss] at hb
  have hlen : sz ≤ s.len := by
    have := congrArg List.length hb
    simp only [List.length_take, hvl] at this
    simp only [Slice.len]; omega
  have hz : d.sizeV ⟨s.addr, v⟩ = .ok sz := hF.sized_sizeV sz hsz _
  exact (hF.loc ⟨s.addr, v⟩ sz hal (by simp [Slice.len]; omega) (hval s.addr hal) hz s rfl hlen
    (by simp only; rw [hb, ← hvl]; simp)).1

theorem posList_mod : ∀ (l : List Dict) (q : Nat) (j : Nat) (Q : Nat) (d : Dict), HeadAligned l q →
    l[j]? = some d → (posList l q)[j]? = some Q → Q % d.align = 0 := by
  intro l
  induction l with
  | nil => intro q j Q d _ h _; simp at h
  | cons a l ihl =>
    intro q j Q d hh hd h
    cases l with
    | nil =>
      cases j with
      | zero =>
        simp only [posList, List.getElem?_cons_zero, Option.some.injEq] at h hd
        rw [← h, ← hd]; simpa [HeadAligned] using hh
      | succ j => simp at hd
    | cons b l' =>
      cases j with
      | zero =>
        simp only [posList, List.getElem?_cons_zero, Option.some.injEq] at h hd
        rw [← h, ← hd]; simpa [HeadAligned] using hh
      | succ j =>
        simp only [posList, List.getElem?_cons_succ] at h
        simp only [List.getElem?_cons_succ] at hd
        exact ihl (ceilMul (q + a.ssize) b.align) j Q d (by simp only [HeadAligned]; exact ceilMul_mod _ _) hd h

theorem posList_append_lt : ∀ (ds : List Dict) (last : Dict) (pos i : Nat), i < ds.length →
    (posList (ds ++ [last]) pos)[i]? = (posList ds pos)[i]? := by
  intro ds
  induction ds with
  | nil => intro _ _ i h; simp at h
  | cons d ds ih =>
    intro last pos i hi
    cases ds with
    | nil =>
      have : i = 0 := by simp at hi; omega
      subst this; simp [posList]
    | cons d' ds' =>
      cases i with
      | zero => simp [posList]
      | succ i =>
        simp only [List.cons_append, posList, List.getElem?_cons_succ]
        exact ih last _ i (by simpa using hi)

theorem foldSize_ceil_head (d : Dict) (ds : List Dict) (x : Nat) (hd : 0 < d.align) :
    foldSize (d :: ds) (ceilMul x d.align) = foldSize (d :: ds) x := by
  simp only [foldSize]; rw [ceilMul_of_mod hd (ceilMul_mod _ _)]

theorem posList_append_last : ∀ (ds : List Dict) (last : Dict) (pos : Nat), (∀ x ∈ ds ++ [last], 0 < x.align) →
    HeadAligned (ds ++ [last]) pos →
    (posList (ds ++ [last]) pos)[ds.length]? = some (ceilMul (foldSize ds pos) last.align) := by
  intro ds
  induction ds with
  | nil =>
    intro last pos hp hh
    simp only [List.nil_append, posList, List.length_nil, List.getElem?_cons_zero, foldSize]
    rw [ceilMul_of_mod (hp last (by simp)) (by simpa [HeadAligned] using hh)]
  | cons d ds ih =>
    intro last pos hp hh
    have hcm : ceilMul pos d.align = pos := ceilMul_of_mod (hp d (by simp)) (by simpa [HeadAligned] using hh)
    cases ds with
    | nil => simp [posList, foldSize, hcm]
    | cons d' ds' =>
      simp only [List.cons_append, posList, List.length_cons, List.getElem?_cons_succ]
      have := ih last (ceilMul (pos + d.ssize) d'.align) (fun x hx => hp x (by simp at hx ⊢; right; exact hx))
        (by simp only [List.cons_append, HeadAligned]; exact ceilMul_mod _ _)
      simp only [List.cons_append, List.length_cons] at this
      rw [this, foldSize_ceil_head d' ds' _ (hp d' (by simp))]
      simp only [foldSize, hcm]

theorem take_append_take_drop {α} (a b : List α) (P k n : Nat) (h : P + k ≤ a.length) (hn : a.length ≤ n) :
    (((a ++ b).take n).drop P).take k = (a.drop P).take k := by
  apply drop_take_eq (n := a.length) _ h
  rw [List.take_take, Nat.min_eq_left hn, List.take_append_of_le_length (Nat.le_refl _)]

theorem headAligned_zero (ds : List Dict) : HeadAligned ds 0 := by
  cases ds <;> simp [HeadAligned]

/-- what the sized part of an initialiser must supply: one valid image per sized field -/
def ValsOk (ds : List Dict) (vals : List Bytes) : Prop :=
  ds.length ≤ vals.length ∧ ∀ (i : Nat) (d : Dict) (v : Bytes), ds[i]? = some d → vals[i]? = some v → ValidImage d v

theorem ValsOk.len {ds : List Dict} {vals : List Bytes} (h : ValsOk ds vals) :
    ∀ (i : Nat) (d : Dict) (v : Bytes), ds[i]? = some d → vals[i]? = some v → v.length = d.ssize := by
  intro i d v hd hv
  obtain ⟨sz, hsz, hvl, _⟩ := h.2 i d v hd hv
  simp [Dict.ssize, hsz, hvl]

/-- **Sized fields written by `writeFields`, last field valid ⇒ the field list validates.** `R` is the final image of the
walked data (length `n`), which agrees with the written fields below `lfo` and holds the last field from `lfo` on. -/
theorem fields_valid_of_written (ds : List Dict) (last : Dict) (hl : ∀ d ∈ ds, Law d) (hf : ∀ d ∈ ds, FrameLaw d) (hs : AllSized ds)
    (hlast : Law last) (vals : List Bytes) (hv : ValsOk ds vals) (A : Nat) (hA : A % alignL (ds ++ [last]) = 0)
    (b1 R : Bytes)
    (hel : ∀ (i : Nat) (d : Dict) (v : Bytes) (P : Nat), ds[i]? = some d → vals[i]? = some v → (posList ds 0)[i]? = some P →
      (b1.drop P).take d.ssize = v)
    (hR : R.take (foldSize ds 0) = b1.take (foldSize ds 0))
    (hmin : minSizeL (ds ++ [last]) 0 ≤ R.length)
    (hlv : last.validateU ⟨A + ceilMul (foldSize ds 0) last.align, R.drop (ceilMul (foldSize ds 0) last.align)⟩ = .ok ()) :
    validateAll (ds ++ [last]) 0 ⟨A, R⟩ = .ok () := by
  have hlaw : ∀ d ∈ ds ++ [last], Law d := by
    intro d hd; simp only [List.mem_append, List.mem_singleton] at hd
    rcases hd with h | rfl
    · exact hl d h
    · exact hlast
  have hpos : ∀ d ∈ ds ++ [last], 0 < d.align := fun d hd => (hlaw d hd).align_pow2.pos
  have hposd : ∀ d ∈ ds, 0 < d.align := fun d hd => hpos d (by simp [hd])
  apply validateAll_intro (ds ++ [last]) 0 ⟨A, R⟩ hpos (headAligned_zero _) (by simpa [Slice.len] using hmin)
  intro i d P hi hP
  rw [Nat.sub_zero]
  rcases Nat.lt_trichotomy i ds.length with hlt | heq | hgt
  · rw [List.getElem?_append_left hlt] at hi
    rw [posList_append_lt ds last 0 i hlt] at hP
    have hvi : i < vals.length := by have := hv.1; omega
    have hvv : vals[i]? = some vals[i] := List.getElem?_eq_getElem hvi
    have hmem : d ∈ ds := List.mem_of_getElem? hi
    have hend := posList_end_le ds 0 i P d hposd (headAligned_zero _) hi hP
    apply validImage_at d (hl d hmem) (hf d hmem) vals[i] (hv.2 i d _ hi hvv)
    · show (A + P) % d.align = 0
      exact add_mod_zero (mod_trans hA (alignL_mod _ hlaw d (by simp [hmem]))) (posList_mod ds 0 i P d (headAligned_zero _) hi hP)
    · show (R.drop P).take d.ssize = vals[i]
      rw [drop_take_eq hR hend]
      exact hel i d _ P hi hvv hP
  · subst heq
    have hPl := posList_append_last ds last 0 hpos (headAligned_zero _)
    rw [hPl] at hP
    simp only [List.getElem?_append_right (Nat.le_refl _), Nat.sub_self, List.getElem?_cons_zero, Option.some.injEq] at hi hP
    rw [← hi, ← hP]
    exact hlv
  · rw [List.getElem?_eq_none (by simp; omega)] at hi
    cases hi

/-- the recursive hypothesis of the assembled theorem, for one field type and initialiser -/
def EmpSpec (t : Ty) (i : Init) : Prop :=
  ∀ s : Slice, s.addr % t.dict.align = 0 → t.dict.minSize ≤ s.len → ∃ o, emplaceU t i s = .ok o ∧ EmpOk t.dict s o

/-- **generated `…Init` of an unsized struct**: writes the sized fields, then runs the last field's emplacer on the rest -/
theorem emplace_ustruct (fs : List Ty) (last : Ty) (vals : List Bytes) (li : Init)
    (hl : ∀ d ∈ dictL fs, Law d) (hf : ∀ d ∈ dictL fs, FrameLaw d) (hs : AllSized (dictL fs)) (hlast : Law last.dict)
    (hv : ValsOk (dictL fs) vals) (hrec : EmpSpec last li) : EmpSpec (.ustruct fs last) (.ustruct vals li) := by
  intro s hal hlen
  obtain ⟨addr, bytes⟩ := s
  simp only [Ty.dict, ustructD, Slice.len] at hal hlen
  have hlaw : ∀ d ∈ dictL fs ++ [last.dict], Law d := by
    intro d hd; simp only [List.mem_append, List.mem_singleton] at hd
    rcases hd with h | rfl
    · exact hl d h
    · exact hlast
  have hposd : ∀ d ∈ dictL fs, 0 < d.align := fun d hd => (hl d hd).align_pow2.pos
  have hapos := alignL_pos (dictL fs ++ [last.dict])
  have hms := minSizeL_append (dictL fs) last.dict hl hs 0
  have h1 := le_ceilMul (x := minSizeL (dictL fs ++ [last.dict]) 0) hapos
  have h2 := floorMul_greatest hapos (ceilMul_mod (minSizeL (dictL fs ++ [last.dict]) 0) (alignL (dictL fs ++ [last.dict]))) hlen
  have h3 := floorMul_le bytes.length (alignL (dictL fs ++ [last.dict]))
  have hlpos := hlast.align_pow2.pos
  have h4 := le_ceilMul (x := foldSize (dictL fs) 0) hlpos
  have hlamod : alignL (dictL fs ++ [last.dict]) % last.dict.align = 0 := alignL_mod _ hlaw last.dict (by simp)
  have hlfomod := ceilMul_mod (foldSize (dictL fs) 0) last.dict.align
  simp only [emplaceU, Slice.len, Slice.take]
  generalize hal_def : alignL (dictL fs ++ [last.dict]) = al at *
  generalize hn_def : floorMul bytes.length al = n at *
  generalize hlfo_def : ceilMul (foldSize (dictL fs) 0) last.dict.align = lfo at *
  have hn : (bytes.take n).length = n := by simp only [List.length_take]; omega
  obtain ⟨b1, hb1, hb1l, _, _, hel⟩ := writeFields_spec (dictL fs) vals 0 (bytes.take n)
    hposd (headAligned_zero _) hv.1 hv.len (by rw [hn]; omega)
  rw [hn] at hb1l
  have hw : (if (dictL fs).isEmpty then Res.ok (bytes.take n) else writeFields (dictL fs) vals 0 (bytes.take n)) = .ok b1 := by
    cases hds : dictL fs with
    | nil => rw [hds] at hb1; simpa [writeFields] using hb1
    | cons d ds => rw [hds] at hb1; simpa using hb1
  obtain ⟨o, ho, hok⟩ := hrec ⟨addr + lfo, b1.drop lfo⟩ (add_mod_zero (mod_trans hal hlamod) hlfomod)
    (by simp only [Slice.len, List.length_drop]; omega)
  have hol : o.bytes.length = n - lfo := by
    have := hok.len; simpa [Slice.len, hb1l] using this
  have hck : checkAlignMin al (minSizeL (dictL fs ++ [last.dict]) 0) ⟨addr, bytes.take n⟩ = .ok () := by
    rw [checkAlignMin_ok]; exact ⟨hal, by simp only [Slice.len]; rw [hn]; omega⟩
  have hRl : (b1.take lfo ++ o.bytes).length = n := by
    simp only [List.length_append, List.length_take, hol, hb1l]; omega
  have hlenR : (b1.take lfo ++ o.bytes ++ bytes.drop n).length = bytes.length := by
    rw [List.length_append, hRl, List.length_drop]; omega
  refine ⟨_, by simp only [hck, hw, Res.bind_eq, Res.bind_ok, ho]; rfl, hlenR, ?_, ?_⟩
  · intro hres
    show validateAll (dictL fs ++ [last.dict]) 0 (Slice.take ⟨addr, _⟩ (floorMul (Slice.len ⟨addr, _⟩) _)) = .ok ()
    simp only [Slice.len, Slice.take, hlenR, hal_def, hn_def]
    rw [List.take_append_of_le_length (by omega), List.take_of_length_le (by omega)]
    subst hlfo_def hal_def
    apply fields_valid_of_written (dictL fs) last.dict hl hf hs hlast vals hv addr hal b1 _ hel
    · rw [List.take_append_of_le_length (by simp only [List.length_take]; omega), List.take_take, Nat.min_eq_left h4]
    · rw [hRl]; omega
    · rw [List.drop_left' (by simp only [List.length_take]; omega)]
      exact hok.valid hres
  · intro e he; exact hok.kinds e he
end FV
