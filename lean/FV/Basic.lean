def hello := "world"
