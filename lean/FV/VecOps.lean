import FV.FrameVec
import FV.Portable
/-! C11 (prototype): FlatVec operations on bytes and their refinement to a capacity-bounded list.
The element type is any sized dictionary of size `S`; the length type any `LenTy`. -/
namespace FV

/-- overwrite `x` at `off` (`ptr.write` / `copy`): faults outside the slice -/
def writeAt (bs : Bytes) (off : Nat) (x : Bytes) : Res Bytes :=
  if off + x.length ≤ bs.length then .ok (bs.take off ++ x ++ bs.drop (off + x.length)) else .fault .oob

theorem writeAt_length {bs x : Bytes} {off : Nat} {r : Bytes} (h : writeAt bs off x = .ok r) : r.length = bs.length := by
  unfold writeAt at h; split at h
  · cases h; simp; omega
  · cases h

/-- bytes strictly before or after the written range are unchanged (C14 frame lemma, byte level) -/
theorem writeAt_frame {bs x : Bytes} {off : Nat} {r : Bytes} (h : writeAt bs off x = .ok r) (a k : Nat)
    (hk : a + k ≤ off ∨ off + x.length ≤ a) : (r.drop a).take k = (bs.drop a).take k := by
  unfold writeAt at h; split at h
  · cases h
    rename_i hle
    rcases hk with hk | hk
    · -- before
      apply List.ext_getElem?
      intro i
      simp only [List.getElem?_take, List.getElem?_drop]
      by_cases hi : i < k
      · simp only [hi, if_true]
        rw [List.append_assoc, List.getElem?_append_left (by simp; omega)]
        simp [List.getElem?_take]; omega
      · simp [hi]
    · -- after
      apply List.ext_getElem?
      intro i
      simp only [List.getElem?_take, List.getElem?_drop]
      by_cases hi : i < k
      · simp only [hi, if_true]
        rw [List.getElem?_append_right (by simp; omega)]
        simp only [List.length_append, List.length_take, List.getElem?_drop]
        congr 1; omega
      · simp [hi]
  · cases h

/-- reading back the written range -/
theorem writeAt_read {bs x : Bytes} {off : Nat} {r : Bytes} (h : writeAt bs off x = .ok r) :
    (r.drop off).take x.length = x := by
  unfold writeAt at h; split at h
  · cases h
    rename_i hle
    have : (bs.take off).length = off := by simp; omega
    rw [List.append_assoc, List.drop_append_of_le_length (by omega)]
    simp [this]
  · cases h

structure VecCfg where
  S : Nat          -- element size
  dOff : Nat       -- DATA_OFFSET
  l : LenTy

/-- encoded length field -/
def VecCfg.encLen (c : VecCfg) (n : Nat) : Bytes := if c.l.be then toBE n c.l.size else toLE n c.l.size
def VecCfg.decLen (c : VecCfg) (bs : Bytes) : Nat :=
  if c.l.be then leNat (bs.take c.l.size).reverse else leNat (bs.take c.l.size)

/-- abstract view: elements as byte chunks -/
def VecCfg.elem (c : VecCfg) (bs : Bytes) (i : Nat) : Bytes := (bs.drop (c.dOff + i * c.S)).take c.S
def VecCfg.elems (c : VecCfg) (bs : Bytes) : List Bytes := (List.range (c.decLen bs)).map (c.elem bs)

/-- `push_unchecked` preceded by the `is_full` test (`GenericVec::push`) -/
def VecCfg.push (c : VecCfg) (cap : Nat) (bs : Bytes) (x : Bytes) : Res (Bytes × Bool) :=
  let len := c.decLen bs
  if len = cap then .ok (bs, false)                 -- refused: Err(value), nothing written
  else do
    let b1 ← writeAt bs (c.dOff + len * c.S) x
    let b2 ← writeAt b1 0 (c.encLen (len + 1))
    pure (b2, true)

/-- `pop` -/
def VecCfg.pop (c : VecCfg) (bs : Bytes) : Res (Bytes × Option Bytes) :=
  let len := c.decLen bs
  if len = 0 then .ok (bs, none)
  else do
    let b1 ← writeAt bs 0 (c.encLen (len - 1))
    pure (b1, some (c.elem bs (len - 1)))

theorem decLen_encLen (c : VecCfg) (n : Nat) (hn : n < 256 ^ c.l.size) (rest : Bytes) :
    c.decLen (c.encLen n ++ rest) = n := by
  unfold VecCfg.decLen VecCfg.encLen
  split
  · have hl : (toBE n c.l.size).length = c.l.size := by simp [toBE]
    rw [List.take_append_of_le_length (by omega), List.take_of_length_le (by omega)]
    exact be_roundtrip n _ hn
  · have hl : (toLE n c.l.size).length = c.l.size := by simp
    rw [List.take_append_of_le_length (by omega), List.take_of_length_le (by omega)]
    exact le_roundtrip n _ hn

theorem encLen_length (c : VecCfg) (n : Nat) : (c.encLen n).length = c.l.size := by
  unfold VecCfg.encLen; split <;> simp [toBE]

/-- writing the length field does not touch the element area -/
theorem elem_after_len (c : VecCfg) (bs r : Bytes) (n i : Nat) (hd : c.l.size ≤ c.dOff)
    (h : writeAt bs 0 (c.encLen n) = .ok r) : c.elem r i = c.elem bs i := by
  unfold VecCfg.elem
  exact writeAt_frame h _ _ (Or.inr (by rw [encLen_length]; omega))

theorem decLen_after_len (c : VecCfg) (bs r : Bytes) (n : Nat) (hn : n < 256 ^ c.l.size)
    (h : writeAt bs 0 (c.encLen n) = .ok r) : c.decLen r = n := by
  unfold writeAt at h; split at h
  · cases h; simp only [List.take_zero, List.nil_append, Nat.zero_add]
    exact decLen_encLen c n hn _
  · cases h

/-- **push refines list append** (and a refused push changes nothing) -/
theorem push_refines (c : VecCfg) (cap : Nat) (bs x : Bytes) (hd : c.l.size ≤ c.dOff) (hx : x.length = c.S)
    (hcap : cap < 256 ^ c.l.size) (hlen : c.decLen bs ≤ cap) (hroom : c.dOff + cap * c.S ≤ bs.length) :
    ∃ r ok, c.push cap bs x = .ok (r, ok) ∧ r.length = bs.length ∧
      (ok = false → c.decLen bs = cap ∧ r = bs) ∧
      (ok = true → c.decLen r = c.decLen bs + 1 ∧ c.elems r = c.elems bs ++ [x]) := by
  unfold VecCfg.push
  by_cases hfull : c.decLen bs = cap
  · exact ⟨bs, false, by simp [hfull], rfl, fun _ => ⟨hfull, rfl⟩, fun h => by cases h⟩
  · have hlt : c.decLen bs < cap := by omega
    have h1 : c.dOff + c.decLen bs * c.S + x.length ≤ bs.length := by
      have : (c.decLen bs + 1) * c.S ≤ cap * c.S := Nat.mul_le_mul_right _ hlt
      rw [Nat.add_mul, Nat.one_mul] at this
      omega
    obtain ⟨b1, hb1⟩ : ∃ b1, writeAt bs (c.dOff + c.decLen bs * c.S) x = .ok b1 := by
      unfold writeAt; simp [h1]
    have hl1 := writeAt_length hb1
    have h2 : 0 + (c.encLen (c.decLen bs + 1)).length ≤ b1.length := by
      rw [encLen_length, hl1]
      have : 0 < cap * c.S ∨ cap * c.S = 0 := by omega
      omega
    obtain ⟨b2, hb2⟩ : ∃ b2, writeAt b1 0 (c.encLen (c.decLen bs + 1)) = .ok b2 := by
      have h2' : (c.encLen (c.decLen bs + 1)).length ≤ b1.length := by omega
      unfold writeAt; simp [h2']
    have hl2 := writeAt_length hb2
    refine ⟨b2, true, ?_, ?_, ?_, ?_⟩
    · simp [hfull, hb1, hb2]
    · omega
    · intro h; cases h
    intro _
    have hdec : c.decLen b2 = c.decLen bs + 1 := decLen_after_len c b1 b2 _ (by omega) hb2
    refine ⟨hdec, ?_⟩
    unfold VecCfg.elems
    rw [hdec, List.range_succ, List.map_append]
    congr 1
    · -- old elements unchanged
      apply List.map_congr_left
      intro i hi
      have hi' : i < c.decLen bs := List.mem_range.1 hi
      rw [elem_after_len c b1 b2 _ i hd hb2]
      unfold VecCfg.elem
      apply writeAt_frame hb1
      left
      have : (i + 1) * c.S ≤ c.decLen bs * c.S := Nat.mul_le_mul_right _ hi'
      rw [Nat.add_mul, Nat.one_mul] at this
      omega
    · -- the new element reads back
      simp only [List.map_cons, List.map_nil]
      rw [elem_after_len c b1 b2 _ _ hd hb2]
      unfold VecCfg.elem
      have := writeAt_read hb1
      rw [hx] at this
      rw [this]

/-- **pop refines removing the last element** -/
theorem pop_refines (c : VecCfg) (bs : Bytes) (hd : c.l.size ≤ c.dOff) (hsz : c.l.size ≤ bs.length)
    (hlen : c.decLen bs < 256 ^ c.l.size) :
    ∃ r o, c.pop bs = .ok (r, o) ∧ r.length = bs.length ∧
      (c.decLen bs = 0 → o = none ∧ r = bs) ∧
      (0 < c.decLen bs → o = (c.elems bs).getLast? ∧ c.elems r = (c.elems bs).dropLast ∧ c.decLen r = c.decLen bs - 1) := by
  unfold VecCfg.pop
  by_cases h0 : c.decLen bs = 0
  · exact ⟨bs, none, by simp [h0], rfl, fun _ => ⟨rfl, rfl⟩, fun h => by omega⟩
  · have h1 : 0 + (c.encLen (c.decLen bs - 1)).length ≤ bs.length := by rw [encLen_length]; omega
    obtain ⟨b1, hb1⟩ : ∃ b1, writeAt bs 0 (c.encLen (c.decLen bs - 1)) = .ok b1 := by
      have h1' : (c.encLen (c.decLen bs - 1)).length ≤ bs.length := by omega
      unfold writeAt; simp [h1']
    have hdec : c.decLen b1 = c.decLen bs - 1 := decLen_after_len c bs b1 _ (by omega) hb1
    refine ⟨b1, some (c.elem bs (c.decLen bs - 1)), ?_, writeAt_length hb1, ?_, ?_⟩
    · simp [h0, hb1]
    · intro h; omega
    intro _
    have hrange : c.decLen bs = (c.decLen bs - 1) + 1 := by omega
    refine ⟨?_, ?_, hdec⟩
    · unfold VecCfg.elems
      rw [hrange, List.range_succ, List.map_append]
      simp
    · unfold VecCfg.elems
      rw [hdec]
      conv => rhs; rw [hrange, List.range_succ, List.map_append]
      simp only [List.map_cons, List.map_nil, List.dropLast_concat]
      apply List.map_congr_left
      intro i _
      exact elem_after_len c bs b1 _ i hd hb1
end FV
#print axioms FV.push_refines
#print axioms FV.pop_refines
