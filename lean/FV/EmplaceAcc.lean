import FV.EmplaceAll
import FV.Spec.SizeSpec
/-! Acceptance pass over the emplacers: an emplacer succeeds **exactly when** the specified content is representable and its
size fits the slot, and on success `size()` of the result is the specified size. Non-recursive emplacers. -/
namespace FV

/-- the acceptance contract of one (type, initialiser) pair -/
def EmpAcc (t : Ty) (i : Init) : Prop :=
  ∀ s : Slice, s.addr % t.dict.align = 0 → t.dict.minSize ≤ s.len → ∀ o, emplaceU t i s = .ok o →
    (o.res = .ok () ↔ Rep t i ∧ sizeSpec t i ≤ s.len) ∧
    (o.res = .ok () → t.dict.size ⟨s.addr, o.bytes⟩ = .ok (sizeSpec t i))

theorem readU_written (l : LenTy) (n : Nat) (hn : n < 256 ^ l.size) (a : Nat) (hla : a % l.align = 0) {b1 b2 : Bytes}
    (hw : writeAt b1 0 (encLenTy l n) = .ok b2) : l.readU ⟨a, b2⟩ = .ok n := by
  have hread := writeAt_read hw
  simp only [List.drop_zero, encLenTy_length] at hread
  exact readU_of_take l ⟨a, b2⟩ n hn hla hread

theorem acc_raw (t : Ty) (hL : Law t.dict) (hF : FrameLaw t.dict) (v : Bytes) (hv : ValidImage t.dict v) : EmpAcc t (.raw v) := by
  intro s _ hlen o ho
  obtain ⟨sz, hsz, hvl, _⟩ := hv
  have hss : t.dict.ssize = sz := by simp [Dict.ssize, hsz]
  have hmin := hL.sized_min sz hsz
  have hres : o.res = .ok () := by
    cases t <;> simp only [emplaceU, hsz, hvl, if_true] at ho <;>
      (cases hw : writeAt s.bytes 0 v <;> simp only [hw, Res.bind_ok, Res.bind_err, Res.bind_fault, Res.ok.injEq] at ho <;>
        first | (rw [← ho]; rfl) | cases ho)
  have hspec : sizeSpec t (.raw v) = sz := by cases t <;> simp only [sizeSpec, hss]
  have hrep : Rep t (.raw v) := by cases t <;> simp only [Rep]
  refine ⟨⟨fun _ => ⟨hrep, by rw [hspec]; omega⟩, fun _ => hres⟩, fun _ => ?_⟩
  rw [hspec]; exact hF.sized_sizeV sz hsz _

/-- shape of the result of `vec::FromIterator` -/
theorem vecIter_shape (et : Ty) (l : LenTy) (xs : List Bytes) (s : Slice) (hlen : max l.size et.dict.align ≤ s.len) (o : EO)
    (ho : emplaceU (.vec et l) (.vecIter xs) s = .ok o) :
    ∃ b1 b2, writeAt b1 0 (encLenTy l (xs.take (min (if et.dict.ssize = 0 then usizeMax else
        floorMul (s.len - max l.size et.dict.align) (max l.align et.dict.align) / et.dict.ssize) l.max)).length) = .ok b2 ∧
      o = if min (if et.dict.ssize = 0 then usizeMax else
        floorMul (s.len - max l.size et.dict.align) (max l.align et.dict.align) / et.dict.ssize) l.max < xs.length
        then EO.err b2 .insufficientSize 0 else EO.ok b2 := by
  have hslots := vecSlots_ok et.dict l s.len hlen
  simp only [emplaceU, hslots] at ho
  cases hb0 : writeAt s.bytes 0 (encLenTy l 0) with
  | err e => simp [hb0] at ho
  | fault f => simp [hb0] at ho
  | ok b0 =>
    simp only [hb0, Res.bind_ok] at ho
    generalize min (if et.dict.ssize = 0 then usizeMax else
        floorMul (s.len - max l.size et.dict.align) (max l.align et.dict.align) / et.dict.ssize) l.max = cap at ho ⊢
    cases hb1 : vecWriteElems et.dict.ssize (max l.size et.dict.align) (xs.take cap) 0 b0 with
    | err e => simp [hb1] at ho
    | fault f => simp [hb1] at ho
    | ok b1 =>
      simp only [hb1, Res.bind_ok] at ho
      cases hb2 : writeAt b1 0 (encLenTy l (xs.take cap).length) with
      | err e => rw [hb2] at ho; cases ho
      | fault f => rw [hb2] at ho; cases ho
      | ok b2 =>
        simp only [hb2, Res.bind_ok] at ho
        refine ⟨b1, b2, hb2, ?_⟩
        split at ho <;> rename_i hc <;> simp only [hc, if_true, if_false] <;> (simp only [Res.ok.injEq] at ho; exact ho.symm)

/-- the arithmetic of FlatVec acceptance: `len` elements fit the capacity of an `n`-byte slot iff they are representable and
their extent is at most `n` -/
theorem vec_fits_iff (d : Dict) (hd : Law d) (l : LenTy) (hl : l.Law) (n len : Nat) (hn : max l.size d.align ≤ n) :
    len ≤ min (if d.ssize = 0 then usizeMax else floorMul (n - max l.size d.align) (max l.align d.align) / d.ssize) l.max ↔
      (len ≤ l.max ∧ (d.ssize = 0 → len ≤ usizeMax)) ∧ ceilMul (max l.size d.align + d.ssize * len) (max l.align d.align) ≤ n := by
  have hapos := (Pow2.of_max hl.align_pow2 hd.align_pow2).pos
  have hdo := dataOffset_mod l hl d.align hd.align_pow2
  by_cases hz : d.ssize = 0
  · simp only [hz, if_true, Nat.zero_mul, Nat.add_zero, ceilMul_of_mod hapos hdo, true_implies]
    constructor
    · intro h; exact ⟨⟨by omega, by omega⟩, hn⟩
    · intro h; omega
  · simp only [hz, if_false, false_implies, and_true]
    constructor
    · intro h
      exact ⟨by omega, vec_z_le _ _ d.ssize hapos hdo hn hz (by omega)⟩
    · intro h
      have := vec_len_le_slots _ _ d.ssize hapos hdo hz h.2
      omega

theorem acc_vecIter (et : Ty) (hL : Law et.dict) (l : LenTy) (hl : l.Law) (xs : List Bytes) : EmpAcc (.vec et l) (.vecIter xs) := by
  intro s hal hlen o ho
  simp only [Ty.dict, vecD] at hal hlen
  obtain ⟨b1, b2, hb2, ho'⟩ := vecIter_shape et l xs s hlen o ho
  have hfit := vec_fits_iff et.dict hL l hl s.len xs.length hlen
  have hla : s.addr % l.align = 0 := mod_trans hal (Pow2.max_mod_left hl.align_pow2 hL.align_pow2)
  generalize min (if et.dict.ssize = 0 then usizeMax else
      floorMul (s.len - max l.size et.dict.align) (max l.align et.dict.align) / et.dict.ssize) l.max = cap at hb2 ho' hfit
  simp only [Rep, sizeSpec]
  by_cases hover : cap < xs.length
  · simp only [hover, if_true] at ho'
    subst ho'
    refine ⟨⟨fun h => by simp [EO.err] at h, fun h => ?_⟩, fun h => by simp [EO.err] at h⟩
    have := hfit.2 h; omega
  · simp only [hover, if_false] at ho'
    subst ho'
    refine ⟨⟨fun _ => hfit.1 (by omega), fun _ => rfl⟩, fun _ => ?_⟩
    rw [List.take_of_length_le (by omega)] at hb2
    have hn : xs.length < 256 ^ l.size := by
      have := hfit.1 (by omega); have := lmax_lt l; omega
    show (vecD et.dict l).size ⟨s.addr, b2⟩ = _
    simp only [vecD, readU_written l xs.length hn s.addr hla hb2, Res.bind_eq, Res.bind_ok, Res.pure_eq]

theorem acc_vecArr (et : Ty) (hL : Law et.dict) (l : LenTy) (hl : l.Law) (xs : List Bytes) : EmpAcc (.vec et l) (.vecArr xs) := by
  intro s hal hlen o ho
  have hlen' : max l.size et.dict.align ≤ s.len := by simpa [Ty.dict, vecD] using hlen
  have hfit := vec_fits_iff et.dict hL l hl s.len xs.length hlen'
  have hslots := vecSlots_ok et.dict l s.len hlen'
  obtain ⟨c, hc⟩ : ∃ c, c = min (if et.dict.ssize = 0 then usizeMax else floorMul (s.len - max l.size et.dict.align) (max l.align et.dict.align) / et.dict.ssize) l.max := ⟨_, rfl⟩
  rw [← hc] at hfit
  by_cases hover : c < xs.length
  · have hres : o.res = .error ⟨.insufficientSize, 0⟩ := by
      simp only [emplaceU, hslots] at ho
      cases hb0 : writeAt s.bytes 0 (encLenTy l 0) with
      | err e => simp [hb0] at ho
      | fault f => simp [hb0] at ho
      | ok b0 =>
        simp only [hb0, Res.bind_ok, ← hc, hover, if_true, Res.ok.injEq] at ho
        rw [← ho]; rfl
    simp only [Rep, sizeSpec]
    refine ⟨⟨fun h => (by rw [hres] at h; cases h), fun h => ?_⟩, fun h => (by rw [hres] at h; cases h)⟩
    have := hfit.2 h; omega
  · have hsame : emplaceU (.vec et l) (.vecIter xs) s = .ok o := by
      simp only [emplaceU, hslots] at ho ⊢
      cases hb0 : writeAt s.bytes 0 (encLenTy l 0) with
      | err e => simp [hb0] at ho
      | fault f => simp [hb0] at ho
      | ok b0 =>
        simp only [hb0, Res.bind_ok, ← hc, hover, if_false] at ho ⊢
        rw [List.take_of_length_le (by omega)]
        exact ho
    have := acc_vecIter et hL l hl xs s hal hlen o hsame
    simpa only [Rep, sizeSpec] using this

theorem acc_vecEmpty (et : Ty) (hL : Law et.dict) (l : LenTy) (hl : l.Law) : EmpAcc (.vec et l) .vecEmpty := by
  intro s hal hlen o ho
  simp only [Ty.dict, vecD] at hal hlen
  have hapos := (Pow2.of_max hl.align_pow2 hL.align_pow2).pos
  have hdo := dataOffset_mod l hl et.dict.align hL.align_pow2
  have hla : s.addr % l.align = 0 := mod_trans hal (Pow2.max_mod_left hl.align_pow2 hL.align_pow2)
  cases hb0 : writeAt s.bytes 0 (encLenTy l 0) with
  | err e => simp [emplaceU, hb0] at ho
  | fault f => simp [emplaceU, hb0] at ho
  | ok b0 =>
    simp only [emplaceU, hb0, Res.bind_ok, Res.ok.injEq] at ho
    subst ho
    simp only [Rep, sizeSpec, Nat.mul_zero, Nat.add_zero, ceilMul_of_mod hapos hdo]
    refine ⟨⟨fun _ => ⟨trivial, hlen⟩, fun _ => rfl⟩, fun _ => ?_⟩
    show (vecD et.dict l).size ⟨s.addr, b0⟩ = _
    simp only [vecD, readU_written l 0 (Nat.pow_pos (by decide)) s.addr hla hb0, Res.bind_eq, Res.bind_ok, Res.pure_eq,
      Nat.mul_zero, Nat.add_zero, ceilMul_of_mod hapos hdo]

theorem acc_strEmpty (l : LenTy) (hl : l.Law) : EmpAcc (.str l) .strEmpty := by
  intro s hal hlen o ho
  simp only [Ty.dict, strD] at hal hlen
  have hapos := hl.align_pow2.pos
  cases hb0 : writeAt s.bytes 0 (encLenTy l 0) with
  | err e => simp [emplaceU, hb0] at ho
  | fault f => simp [emplaceU, hb0] at ho
  | ok b0 =>
    simp only [emplaceU, hb0, Res.bind_ok, Res.ok.injEq] at ho
    subst ho
    simp only [Rep, sizeSpec, Nat.add_zero, ceilMul_of_mod hapos hl.size_mod]
    refine ⟨⟨fun _ => ⟨trivial, hlen⟩, fun _ => rfl⟩, fun _ => ?_⟩
    show (strD l).size ⟨s.addr, b0⟩ = _
    simp only [strD, readU_written l 0 (Nat.pow_pos (by decide)) s.addr hal hb0, Res.bind_eq, Res.bind_ok, Res.pure_eq,
      Nat.add_zero, ceilMul_of_mod hapos hl.size_mod]

theorem acc_strFrom (l : LenTy) (hl : l.Law) (v : Bytes) : EmpAcc (.str l) (.strFrom v) := by
  intro s hal hlen o ho
  simp only [Ty.dict, strD] at hal hlen
  have hapos := hl.align_pow2.pos
  have hnl : ¬ s.len < l.size := by omega
  -- arithmetic: the bytes fit the capacity iff the padded extent fits the slot
  have hfit : v.length ≤ min (floorMul (s.len - l.size) l.align) l.max ↔ v.length ≤ l.max ∧ ceilMul (l.size + v.length) l.align ≤ s.len := by
    constructor
    · intro h
      have := vec_z_le l.size l.align 1 hapos hl.size_mod (n := s.len) (len := v.length) hlen (by omega) (by rw [Nat.div_one]; omega)
      rw [Nat.one_mul] at this
      exact ⟨by omega, this⟩
    · intro h
      have := vec_len_le_slots l.size l.align 1 hapos hl.size_mod (n := s.len) (len := v.length) (by omega) (by rw [Nat.one_mul]; exact h.2)
      rw [Nat.div_one] at this; omega
  simp only [Rep, sizeSpec]
  cases hb0 : writeAt s.bytes 0 (encLenTy l 0) with
  | err e => simp [emplaceU, hb0] at ho
  | fault f => simp [emplaceU, hb0] at ho
  | ok b0 =>
    simp only [emplaceU, hb0, Res.bind_ok, hnl, if_false] at ho
    split at ho
    · rename_i hover
      simp only [Res.ok.injEq] at ho; subst ho
      refine ⟨⟨fun h => by simp [EO.err] at h, fun h => ?_⟩, fun h => by simp [EO.err] at h⟩
      have := hfit.2 h; omega
    · rename_i hover
      cases hb1 : writeAt b0 l.size v with
      | err e => simp [hb1] at ho
      | fault f => simp [hb1] at ho
      | ok b1 =>
        simp only [hb1, Res.bind_ok] at ho
        cases hb2 : writeAt b1 0 (encLenTy l v.length) with
        | err e => simp [hb2] at ho
        | fault f => simp [hb2] at ho
        | ok b2 =>
          simp only [hb2, Res.bind_ok, Res.ok.injEq] at ho
          subst ho
          refine ⟨⟨fun _ => hfit.1 (by omega), fun _ => rfl⟩, fun _ => ?_⟩
          have hn : v.length < 256 ^ l.size := by have := lmax_lt l; omega
          show (strD l).size ⟨s.addr, b2⟩ = _
          simp only [strD, readU_written l v.length hn s.addr hal hb2, Res.bind_eq, Res.bind_ok, Res.pure_eq]

theorem acc_flexEmpty (it : Ty) (hL : Law it.dict) (l : LenTy) (hl : l.Law) : EmpAcc (.flex it l) .flexEmpty := by
  intro s hal hlen o ho
  obtain ⟨addr, bytes⟩ := s
  simp only [Ty.dict, flexD, Slice.len] at hal hlen
  have hls : l.size ≤ max l.size it.dict.align := Nat.le_max_left _ _
  have hla : addr % l.align = 0 := mod_trans hal (Pow2.max_mod_left hl.align_pow2 hL.align_pow2)
  have hapos := (Pow2.of_max hl.align_pow2 hL.align_pow2).pos
  cases hb0 : writeAt bytes 0 (encLenTy l 0) with
  | err e => simp [emplaceU, hb0] at ho
  | fault f => simp [emplaceU, hb0] at ho
  | ok b0 =>
    simp only [emplaceU, hb0, Res.bind_ok, Res.ok.injEq] at ho
    subst ho
    simp only [Rep, sizeSpec, Slice.len]
    refine ⟨⟨fun _ => ⟨trivial, hlen⟩, fun _ => rfl⟩, fun _ => ?_⟩
    have hb0l := writeAt_length hb0
    have hn := floorMul_greatest hapos (dataOffset_mod l hl it.dict.align hL.align_pow2) hlen
    have hread := writeAt_read hb0
    simp only [List.drop_zero, encLenTy_length] at hread
    have hr : l.readU ⟨addr, (EO.ok b0).bytes.take (floorMul bytes.length (max l.align it.dict.align))⟩ = .ok 0 := by
      apply readU_of_take l ⟨addr, _⟩ 0 (Nat.pow_pos (by decide)) hla
      show (b0.take _).take l.size = _
      rw [List.take_take, Nat.min_eq_left (by omega), hread]
    show (flexD it.dict l).size ⟨addr, (EO.ok b0).bytes⟩ = _
    have hl0 : (EO.ok b0).bytes.length = bytes.length := hb0l
    simp only [flexD, Slice.len, Slice.take, hl0, flexSize, hr, Res.bind_eq, Res.bind_ok, if_true, Res.pure_eq, Nat.zero_add]
end FV
