import FV.FrameFields
/-! Frame contract for every combinator. -/
namespace FV

theorem readU_congr (l : LenTy) (s s' : Slice) (ha : s'.addr = s.addr) (h1 : l.size ≤ s.len) (h2 : l.size ≤ s'.len)
    (hb : s'.bytes.take l.size = s.bytes.take l.size) : l.readU s' = l.readU s := by
  have n1 : ¬ s.len < l.size := by omega
  have n2 : ¬ s'.len < l.size := by omega
  simp [LenTy.readU, n1, n2, ha, hb]

/-- the extent of an all-sized list is its static end position -/
theorem extentAll_sized :
    ∀ (ds : List Dict) (pos : Nat) (data : Slice), (∀ d ∈ ds, Law d) → (∀ d ∈ ds, FrameLaw d) → AllSized ds →
      HeadAligned ds pos → minSizeL ds pos ≤ pos + data.len →
      extentAll ds pos data = .ok (foldSize ds pos) := by
  intro ds
  induction ds with
  | nil => intro pos data _ _ _ _ _; rfl
  | cons d ds ih =>
    intro pos data hl hf hs hh hmin
    have hL := hl d (by simp)
    obtain ⟨n, hn⟩ : ∃ n, d.sized = some n := by
      have := hs d (by simp); cases h : d.sized <;> simp_all
    have hss : d.ssize = n := by simp [Dict.ssize, hn]
    have hcm : ceilMul pos d.align = pos := ceilMul_of_mod hL.align_pow2.pos hh
    cases ds with
    | nil =>
      simp [extentAll, foldSize, (hf d (by simp)).sized_sizeV n hn data, hcm, hss]
    | cons d' ds' =>
      have hL' := hl d' (by simp)
      have hnext := next_le_minSizeL d d' ds' pos (fun x hx => (hl x (by simp [hx])).align_pow2.pos) hcm
      have hge : pos ≤ ceilMul (pos + d.ssize) d'.align := by
        have := le_ceilMul (x := pos + d.ssize) hL'.align_pow2.pos; omega
      have hsplit : ceilMul (pos + d.ssize) d'.align - pos ≤ data.len := by omega
      simp only [extentAll, Slice.splitAt, hsplit, if_true, foldSize, hcm]
      rw [ih _ _ (fun x hx => hl x (by simp [hx])) (fun x hx => hf x (by simp [hx])) (fun x hx => hs x (by simp [hx]))
        (by simp only [HeadAligned]; exact ceilMul_mod _ _)
        (by rw [minSizeL_next d d' ds' pos hL'.align_pow2.pos hcm]; simp only [Slice.len_drop]; omega)]
      simp only [foldSize]
      rw [ceilMul_of_mod hL'.align_pow2.pos (ceilMul_mod _ _)]

theorem placed0 (ds : List Dict) (data : Slice) (hal : ∀ d ∈ ds, data.addr % d.align = 0) : Placed ds 0 data :=
  ⟨by intro d hd; simpa using hal d hd, by omega, by cases ds <;> simp [HeadAligned]⟩

/-- locality of an all-sized field list over any window of at least its (padded) size -/
theorem sizedFields_loc (ds : List Dict) (hl : ∀ d ∈ ds, Law d) (hf : ∀ d ∈ ds, FrameLaw d) (hs : AllSized ds)
    (data data' : Slice) (hal : ∀ d ∈ ds, data.addr % d.align = 0) (N : Nat) (hN : foldSize ds 0 ≤ N)
    (ha : data'.addr = data.addr) (h1 : N ≤ data.len) (h2 : N ≤ data'.len)
    (hb : data'.bytes.take N = data.bytes.take N) (hv : validateAll ds 0 data = .ok ()) :
    validateAll ds 0 data' = .ok () := by
  have hok : FieldsOk ds := ⟨hl, hf, allSized_butLast hs⟩
  have hmin : minSizeL ds 0 ≤ 0 + data.len := by rw [minSizeL_eq_foldSize ds hl hs]; omega
  obtain ⟨e, he, _, _, hloc⟩ := fields_loc ds 0 data hok (placed0 ds data hal) hmin hv
  have : e = foldSize ds 0 := by
    have := extentAll_sized ds 0 data hl hf hs (by cases ds <;> simp [HeadAligned]) hmin
    rw [this] at he; cases he; rfl
  subst this
  exact (hloc data' ha (by omega) (take_take_eq hb (by omega))).1

theorem sstruct_frame (ds : List Dict) (hl : ∀ d ∈ ds, Law d) (hf : ∀ d ∈ ds, FrameLaw d) (hs : AllSized ds) :
    FrameLaw (sstructD ds) := by
  apply sized_frame _ (ceilMul (foldSize ds 0) (alignL ds)) rfl rfl (ceilMul_mod _ _) (fun _ => rfl) (fun _ => rfl)
  intro s s' hal ha h1 h2 hb hv
  simp only [sstructD] at hal hv ⊢
  exact sizedFields_loc ds hl hf hs s s' (fun d hd => mod_trans hal (alignL_mod ds hl d hd)) _
    (le_ceilMul (alignL_pos ds)) ha h1 h2 hb hv

theorem cenum_frame (tag : LenTy) (ht : tag.Law) (n : Nat) : FrameLaw (cenumD tag n) := by
  apply sized_frame _ tag.size rfl rfl ht.size_mod (fun _ => rfl) (fun _ => rfl)
  intro s s' _ ha h1 h2 hb hv
  simp only [cenumD] at hv ⊢
  rw [readU_congr tag s s' ha h1 h2 hb]; exact hv

theorem senum_frame (tag : LenTy) (ht : tag.Law) (vs : List (List Dict))
    (hl : ∀ v ∈ vs, ∀ d ∈ v, Law d) (hf : ∀ v ∈ vs, ∀ d ∈ v, FrameLaw d) (hs : ∀ v ∈ vs, AllSized v) :
    FrameLaw (senumD tag vs) := by
  have hpa : Pow2 (max tag.align (alignLL vs)) := Pow2.of_max ht.align_pow2 (alignLL_pow2 vs hl)
  have hapos := hpa.pos
  apply sized_frame _ (ceilMul (ceilMul tag.size (max tag.align (alignLL vs)) + maxVarSize vs) (max tag.align (alignLL vs)))
    rfl rfl (ceilMul_mod _ _) (fun _ => rfl) (fun _ => rfl)
  intro s s' hal ha h1 h2 hb hv
  simp only [senumD] at hal hv ⊢
  have hdo : tag.size ≤ ceilMul tag.size (max tag.align (alignLL vs)) := le_ceilMul hapos
  have hsz := le_ceilMul (x := ceilMul tag.size (max tag.align (alignLL vs)) + maxVarSize vs) hapos
  rw [readU_congr tag s s' ha (by omega) (by omega) (take_take_eq hb (by omega))]
  cases hr : tag.readU s with
  | fault f => simp [hr] at hv
  | err e => simp [hr] at hv
  | ok t =>
    simp only [hr, Res.bind_eq, Res.bind_ok] at hv ⊢
    split at hv
    · rename_i hlt
      simp only [hlt, if_true]
      have hd1 : ceilMul tag.size (max tag.align (alignLL vs)) ≤ s.len := by omega
      have hd2 : ceilMul tag.size (max tag.align (alignLL vs)) ≤ s'.len := by omega
      simp only [Slice.dropU, hd1, hd2, if_true, Res.bind_ok] at hv ⊢
      have hmem := getD_mem vs t [] hlt
      have hv' := Res.offset_eq_ok.1 hv
      have h3 := le_maxVarSize vs _ hmem
      have h4 := le_ceilMul (x := foldSize (vs.getD t []) 0) (alignL_pos (vs.getD t []))
      have := sizedFields_loc _ (hl _ hmem) (hf _ hmem) (hs _ hmem) (s.drop (ceilMul tag.size (max tag.align (alignLL vs)))) (s'.drop (ceilMul tag.size (max tag.align (alignLL vs))))
        (by
          intro d hd
          simp only [Slice.addr_drop]
          apply add_mod_zero
          · exact mod_trans hal (mod_trans (Pow2.max_mod_right ht.align_pow2 (alignLL_pow2 vs hl)) (alignLL_mod vs hl _ hmem d hd))
          · exact mod_trans (ceilMul_mod _ _) (mod_trans (Pow2.max_mod_right ht.align_pow2 (alignLL_pow2 vs hl)) (alignLL_mod vs hl _ hmem d hd)))
        (maxVarSize vs) (by omega) (by simp [ha]) (by simp only [Slice.len_drop]; omega)
        (by simp only [Slice.len_drop]; omega)
        (by
          simp only [Slice.drop]
          have := drop_take_eq (a := s'.bytes) (b := s.bytes) (off := ceilMul tag.size (max tag.align (alignLL vs)))
            (k := maxVarSize vs) hb (by omega)
          simpa using this)
        hv'
      simp only [this, Res.offset_ok]
    · simp at hv
end FV
