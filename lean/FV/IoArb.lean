import FV.IoRecv
/-! C10: a receiver fed arbitrary bytes in arbitrary chunks never faults; a message it hands out is valid and lies
inside the bytes received; dropping the guard consumes no more than was received and keeps the buffer invariant. -/
namespace FV

theorem compact_inv (d : Dict) (b : RBuf) (hinv : RInv d b) :
    RInv d (if b.start + b.occ.length = b.cap then { b with start := 0 } else b) := by
  have hw := hinv.within
  split
  · exact ⟨hinv.base_al, Nat.zero_mod _, by simp only; omega⟩
  · exact hinv

theorem readStep_err (d : Dict) (b b1 : RBuf) (ev : ReadEv) (rest : Bytes) (k : Nat) (hinv : RInv d b)
    (h : readStep b ev rest = .err b1 k) : RInv d b1 := by
  unfold readStep at h
  split at h
  · cases h
  · cases ev with
    | fail k' => simp only [ReadRes.err.injEq] at h; rw [← h.1]; exact compact_inv d b hinv
    | deliver c => simp at h

theorem readStep_got (d : Dict) (b b1 : RBuf) (ev : ReadEv) (rest rest1 : Bytes) (n : Nat) (hinv : RInv d b)
    (h : readStep b ev rest = .got b1 rest1 n) : RInv d b1 := by
  unfold readStep at h
  split at h
  · cases h
  · cases ev with
    | fail k' => simp at h
    | deliver c =>
      simp only [ReadRes.got.injEq] at h
      obtain ⟨h1, _, _⟩ := h
      have hi := compact_inv d b hinv
      rw [← h1]
      refine ⟨hi.base_al, hi.start_al, ?_⟩
      have := hi.within
      simp only [List.length_append, List.length_take]; omega

theorem recv_total (t : Ty) (h : t.WF) :
    ∀ (evs : List ReadEv) (b : RBuf) (rest : Bytes), RInv t.dict b →
      ∃ o b' rest' evs', recv t.dict evs b rest = (o, b', rest', evs') ∧ o ≠ .fault ∧ RInv t.dict b' ∧
        (∀ occ, o = .msg occ → occ = b'.occ ∧ t.dict.validate b'.slice = .ok ()) := by
  intro evs
  induction evs with
  | nil =>
    intro b rest hinv
    unfold recv
    have hnf := C01_validate_total t h b.slice
    cases hv : t.dict.validate b.slice with
    | fault f => rw [hv] at hnf; exact absurd hnf (by simp)
    | ok u =>
      refine ⟨_, _, _, _, rfl, by simp, hinv, ?_⟩
      intro occ ho; cases ho; exact ⟨rfl, hv⟩
    | err e =>
      simp only
      split
      · refine ⟨_, _, _, _, rfl, by simp, hinv, ?_⟩
        intro occ ho; cases ho
      · refine ⟨_, _, _, _, rfl, by simp, hinv, ?_⟩
        intro occ ho; cases ho
  | cons ev evs ih =>
    intro b rest hinv
    unfold recv
    have hnf := C01_validate_total t h b.slice
    cases hv : t.dict.validate b.slice with
    | fault f => rw [hv] at hnf; exact absurd hnf (by simp)
    | ok u =>
      refine ⟨_, _, _, _, rfl, by simp, hinv, ?_⟩
      intro occ ho; cases ho; exact ⟨rfl, hv⟩
    | err e =>
      simp only
      split
      · refine ⟨_, _, _, _, rfl, by simp, hinv, ?_⟩
        intro occ ho; cases ho
      · cases hrs : readStep b ev rest with
        | oom =>
          refine ⟨_, _, _, _, rfl, by simp, hinv, ?_⟩
          intro occ ho; cases ho
        | err b1 k =>
          have hri := readStep_err t.dict b b1 ev rest _ hinv hrs
          refine ⟨_, _, _, _, rfl, by simp, hri, ?_⟩
          intro occ ho; cases ho
        | got b1 rest1 n =>
          have hri := readStep_got t.dict b b1 ev rest rest1 n hinv hrs
          simp only
          split
          · refine ⟨_, _, _, _, rfl, by simp, hri, ?_⟩
            intro occ ho; cases ho
          · exact ih b1 rest1 hri

/-- **C10.** Whatever bytes arrive in whatever chunks, `recv` terminates (the model is total; it uses at most one
script entry per read) without fault; a guard it returns covers valid bytes, and dropping it cannot trip the
window assertion and re-establishes the buffer invariant (aligned start, window inside the buffer). -/
theorem C10_recv_never_faults (t : Ty) (h : t.WF) (evs : List ReadEv) (b : RBuf) (rest : Bytes) (hinv : RInv t.dict b) :
    ∃ o b' rest' evs', recv t.dict evs b rest = (o, b', rest', evs') ∧ o ≠ .fault ∧
      (∀ occ, o = .msg occ → ∃ b'', dropGuard t.dict b' = some b'' ∧ RInv t.dict b'') := by
  obtain ⟨o, b', rest', evs', hr, ho, hi, hm⟩ := recv_total t h evs b rest hinv
  refine ⟨o, b', rest', evs', hr, ho, ?_⟩
  intro occ hocc
  obtain ⟨_, hv⟩ := hm occ hocc
  obtain ⟨z, hz, hzle, hzm, _, _⟩ := C05_size_exact t h b'.slice hv
  have hzle' : z ≤ b'.occ.length := hzle
  simp only [dropGuard, hz, hzle', if_true]
  split
  · exact ⟨_, rfl, hi.base_al, Nat.zero_mod _, by simp⟩
  · refine ⟨_, rfl, hi.base_al, add_mod_zero hi.start_al hzm, ?_⟩
    have := hi.within
    simp only [List.length_drop]; omega
end FV
#print axioms FV.C10_recv_never_faults
