import FV.EmplaceFlexContent
import FV.Spec.Serialize
import FV.Props.C17
/-! Emplace = serialise, for alignment-1 (portable) types: the image an emplacer writes starts with the reference serialisation
of what the initialiser specifies, and `size()` of the result is the length of that serialisation. -/
namespace FV


theorem concatB_length : ∀ (xs : List Bytes) (S : Nat), (∀ x ∈ xs, x.length = S) → (concatB xs).length = xs.length * S := by
  intro xs S
  induction xs with
  | nil => intro _; simp [concatB]
  | cons x xs ih =>
    intro h
    simp only [concatB, List.length_append, List.length_cons, h x (by simp), ih (fun y hy => h y (by simp [hy]))]
    rw [Nat.succ_mul]; omega

/-- `writeAt`, exactly -/
theorem writeAt_eq {bs x r : Bytes} {off : Nat} (h : writeAt bs off x = .ok r) :
    r = bs.take off ++ x ++ bs.drop (off + x.length) ∧ off + x.length ≤ bs.length := by
  unfold writeAt at h
  split at h
  · rename_i hle; cases h; exact ⟨rfl, hle⟩
  · cases h

/-- sized fields of an alignment-1 field list are written back to back -/
theorem writeFields_concat : ∀ (ds : List Dict) (vals : List Bytes) (pos : Nat) (bs r : Bytes), (∀ d ∈ ds, d.align = 1) →
    vals.length = ds.length → writeFields ds vals pos bs = .ok r →
    r = bs.take pos ++ concatB vals ++ bs.drop (pos + (concatB vals).length) ∧
      (concatB vals).length = foldSize ds pos - pos ∧ pos ≤ foldSize ds pos := by
  intro ds
  induction ds with
  | nil =>
    intro vals pos bs r _ hl h
    cases vals with
    | nil => simp only [writeFields, Res.ok.injEq] at h; subst h; simp [concatB, foldSize]
    | cons v vs => simp at hl
  | cons d ds ih =>
    intro vals pos bs r hal hl h
    cases vals with
    | nil => simp at hl
    | cons v vs =>
      have hd1 := hal d (by simp)
      cases ds with
      | nil =>
        cases vs with
        | nil =>
          simp only [writeFields] at h
          split at h
          · rename_i hv
            obtain ⟨hr, hle⟩ := writeAt_eq h
            simp only [concatB, List.append_nil, foldSize, hd1, ceilMul_one]
            exact ⟨hr, by omega, by omega⟩
          · cases h
        | cons v' vs' => simp at hl
      | cons d' ds' =>
        have hd1' := hal d' (by simp)
        simp only [writeFields] at h
        split at h
        · rename_i hv
          cases hw : writeAt bs pos v with
          | ok b1 =>
            simp only [hw, hd1', ceilMul_one] at h
            obtain ⟨hb1, hle⟩ := writeAt_eq hw
            obtain ⟨hr, hlen, hge⟩ := ih vs (pos + d.ssize) b1 r (fun x hx => hal x (by simp [hx])) (by simpa using hl) h
            have hb1l : b1.length = bs.length := writeAt_length hw
            have hfs : foldSize (d :: d' :: ds') pos = foldSize (d' :: ds') (pos + d.ssize) := by
              simp only [foldSize, hd1, ceilMul_one]
            rw [hfs]
            refine ⟨?_, by simp only [concatB, List.length_append]; omega, by omega⟩
            rw [hr, hb1]
            simp only [concatB, List.length_append]
            have e1 : (bs.take pos ++ v ++ bs.drop (pos + v.length)).take (pos + d.ssize) = bs.take pos ++ v := by
              rw [List.take_left' (by simp only [List.length_append, List.length_take]; omega)]
            have e2 : (bs.take pos ++ v ++ bs.drop (pos + v.length)).drop (pos + d.ssize + (concatB vs).length) =
                bs.drop (pos + (v.length + (concatB vs).length)) := by
              rw [List.drop_append, List.drop_of_length_le (by simp only [List.length_append, List.length_take]; omega), List.nil_append,
                List.drop_drop]
              congr 1
              simp only [List.length_append, List.length_take]; omega
            rw [e1, e2]
            simp only [List.append_assoc]
          | err e => simp only [hw] at h; cases h
          | fault f => simp only [hw] at h; cases h
        · cases h

open FV.Props in
theorem align_of_align1 (t : Ty) (h : t.align1 = true) : t.dict.align = 1 := C17_align_one t h

/-- serialisation clause of the emplacer contract -/
def SerOk (t : Ty) (i : Init) (s : Slice) (o : EO) : Prop :=
  o.res = .ok () → ∀ b, serialize t i = some b →
    o.bytes.take b.length = b ∧ t.dict.sizeV ⟨s.addr, o.bytes⟩ = .ok b.length

theorem take_append_eq {α} (a b x : List α) (h : x.take a.length = a) (h2 : (x.drop a.length).take b.length = b) :
    x.take (a ++ b).length = a ++ b := by
  rw [List.length_append, ← List.take_append_drop a.length (x.take (a.length + b.length))]
  rw [List.take_take, Nat.min_eq_left (by omega), h, List.drop_take, Nat.add_sub_cancel_left, h2]

/-- chunks of equal size found one after the other are the concatenation -/
theorem chunks_concat (S : Nat) : ∀ (xs : List Bytes) (r : Bytes) (off : Nat), (∀ x ∈ xs, x.length = S) →
    (∀ i (hi : i < xs.length), (r.drop (off + i * S)).take S = xs[i]) → off + xs.length * S ≤ r.length →
    (r.drop off).take (xs.length * S) = concatB xs := by
  intro xs
  induction xs with
  | nil => intro r off _ _ _; simp [concatB]
  | cons x xs ih =>
    intro r off hx hel hfit
    have hxl := hx x (by simp)
    have h0 := hel 0 (by simp)
    simp only [Nat.zero_mul, Nat.add_zero, List.getElem_cons_zero] at h0
    simp only [List.length_cons] at hfit ⊢
    have e1 : (xs.length + 1) * S = S + xs.length * S := by rw [Nat.succ_mul]; omega
    rw [e1] at hfit ⊢
    have := ih r (off + S) (fun y hy => hx y (by simp [hy]))
      (by
        intro i hi
        have := hel (i + 1) (by simpa using hi)
        simp only [List.getElem_cons_succ] at this
        have e : off + (i + 1) * S = off + S + i * S := by rw [Nat.succ_mul]; omega
        rw [e] at this; exact this)
      (by omega)
    simp only [concatB]
    rw [← h0, ← this]
    rw [← List.take_append_drop S ((r.drop off).take (S + xs.length * S))]
    rw [List.take_take, Nat.min_eq_left (by omega), List.drop_take, Nat.add_sub_cancel_left, List.drop_drop]

theorem ser_raw (t : Ty) (h : t.WF) (v : Bytes) (hv : ValidImage t.dict v) (s : Slice)
    (o : EO) (ho : emplaceU t (.raw v) s = .ok o) : SerOk t (.raw v) s o := by
  intro _ b hb
  obtain ⟨sz, hsz, hvl, _⟩ := hv
  have hs : serialize t (.raw v) = some v := by cases t <;> rfl
  rw [hs] at hb; cases hb
  have hcomp : emplaceU t (.raw v) s = (writeAt s.bytes 0 v).bind fun b => .ok (EO.ok b) := by
    cases t <;> simp only [emplaceU, hsz, hvl, if_true]
  rw [hcomp] at ho
  cases hw : writeAt s.bytes 0 v with
  | ok w =>
    rw [hw, Res.bind_ok] at ho
    cases ho
    have := writeAt_read hw
    simp only [List.drop_zero] at this
    refine ⟨this, ?_⟩
    rw [hvl]; exact (Ty.frameLaw t h).sized_sizeV sz hsz _
  | err e => rw [hw] at ho; cases ho
  | fault f => rw [hw] at ho; cases ho

theorem max_one_right (x : Nat) (h : 0 < x) : max x 1 = x := by omega

theorem ser_vecIter (et : Ty) (h : et.WF) (ha1 : et.align1 = true) (sz : Nat) (hsz : et.dict.sized = some sz) (l : LenTy) (hl : l.Law)
    (hl1 : l.align = 1) (xs : List Bytes) (hxs : ∀ x ∈ xs, ValidImage et.dict x) (s : Slice)
    (hlen : max l.size et.dict.align ≤ s.len)
    (o : EO) (ho : emplaceU (.vec et l) (.vecIter xs) s = .ok o) : SerOk (.vec et l) (.vecIter xs) s o := by
  intro hres b hb
  have hea := align_of_align1 et ha1
  have hss : et.dict.ssize = sz := by simp [Dict.ssize, hsz]
  have hlpos := hl.size_pow2.pos
  have hdo : max l.size et.dict.align = l.size := by rw [hea]; exact max_one_right _ hlpos
  obtain ⟨cap, b1, b2, hcapmax, hb1l, hel, hfit, hw, hcomp⟩ := vecIter_compute et (Ty.law et h) sz hsz l hl xs hxs s hlen
  rw [hcomp] at ho
  simp only [Res.ok.injEq] at ho
  by_cases hover : cap < xs.length
  · simp only [hover, if_true] at ho; rw [← ho] at hres; simp [EO.err] at hres
  · simp only [hover, if_false] at ho
    rw [← ho]
    have htk : xs.take cap = xs := List.take_of_length_le (by omega)
    rw [htk, hdo] at hel hfit
    rw [htk] at hw
    have hxl : ∀ x ∈ xs, x.length = sz := by
      intro x hx; obtain ⟨sz', h1, h2, _⟩ := hxs x hx; rw [hsz] at h1; cases h1; exact h2
    have hser : serialize (.vec et l) (.vecIter xs) = some (encLenTy l xs.length ++ concatB xs) := rfl
    rw [hser] at hb; cases hb
    obtain ⟨hb2, _⟩ := writeAt_eq hw
    simp only [List.take_zero, List.nil_append, Nat.zero_add, encLenTy_length] at hb2
    have hcl := concatB_length xs sz hxl
    have hchunks := chunks_concat sz xs b1 l.size hxl hel hfit
    refine ⟨?_, ?_⟩
    · show b2.take _ = _
      apply take_append_eq
      · rw [hb2, encLenTy_length, List.take_left' (encLenTy_length l _)]
      · rw [hb2, encLenTy_length, List.drop_left' (encLenTy_length l _), hcl]; exact hchunks
    · show (vecD et.dict l).sizeV ⟨s.addr, b2⟩ = _
      have hn : xs.length < 256 ^ l.size := by have := lmax_lt l; omega
      have hread : b2.take l.size = encLenTy l xs.length := by rw [hb2, List.take_left' (encLenTy_length l _)]
      have hr : l.readU ⟨s.addr, b2⟩ = .ok xs.length := readU_of_take l ⟨s.addr, b2⟩ _ hn (by rw [hl1]; exact Nat.mod_one _) hread
      simp only [Dict.sizeV, vecD, hr, Res.bind_eq, Res.bind_ok, Res.pure_eq, hea, hl1, hss, Nat.max_self, ceilMul_one, List.length_append,
        encLenTy_length, hcl, max_one_right _ hlpos]
      rw [Nat.mul_comm]

theorem ser_vecArr (et : Ty) (h : et.WF) (ha1 : et.align1 = true) (sz : Nat) (hsz : et.dict.sized = some sz) (l : LenTy) (hl : l.Law)
    (hl1 : l.align = 1) (xs : List Bytes) (hxs : ∀ x ∈ xs, ValidImage et.dict x) (s : Slice)
    (hlen : max l.size et.dict.align ≤ s.len)
    (o : EO) (ho : emplaceU (.vec et l) (.vecArr xs) s = .ok o) : SerOk (.vec et l) (.vecArr xs) s o := by
  intro hres
  have hls : l.size ≤ max l.size et.dict.align := Nat.le_max_left _ _
  obtain ⟨b0, hb0, hb0l⟩ := writeAt_ok (bs := s.bytes) (x := encLenTy l 0) (off := 0)
    (by rw [encLenTy_length]; simp only [Slice.len] at hlen; omega)
  have hslots := vecSlots_ok et.dict l s.len hlen
  obtain ⟨c, hc⟩ : ∃ c, c = min (if et.dict.ssize = 0 then usizeMax else floorMul (s.len - max l.size et.dict.align) (max l.align et.dict.align) / et.dict.ssize) l.max := ⟨_, rfl⟩
  simp only [emplaceU, hb0, Res.bind_ok, hslots, ← hc] at ho
  by_cases hover : c < xs.length
  · simp only [hover, if_true, Res.ok.injEq] at ho; rw [← ho] at hres; simp [EO.err] at hres
  · simp only [hover, if_false] at ho
    have hsame : emplaceU (.vec et l) (.vecIter xs) s = .ok o := by
      simp only [emplaceU, hb0, Res.bind_ok, hslots, ← hc]
      rw [List.take_of_length_le (by omega)]
      simp only [hover, if_false]
      exact ho
    have := ser_vecIter et h ha1 sz hsz l hl hl1 xs hxs s hlen o hsame hres
    exact this

theorem ser_vecEmpty (et : Ty) (hL : Law et.dict) (ha1 : et.align1 = true) (l : LenTy) (hl : l.Law) (hl1 : l.align = 1) (s : Slice)
    (hlen : max l.size et.dict.align ≤ s.len)
    (o : EO) (ho : emplaceU (.vec et l) .vecEmpty s = .ok o) : SerOk (.vec et l) .vecEmpty s o := by
  intro _ b hb
  have hea := align_of_align1 et ha1
  have hlpos := hl.size_pow2.pos
  have hls : l.size ≤ max l.size et.dict.align := Nat.le_max_left _ _
  obtain ⟨b0, hb0, hb0l, hr, _⟩ := header_written l hl 0 (Nat.pow_pos (by decide)) s (by rw [hl1]; exact Nat.mod_one _) (by omega)
  simp only [emplaceU, hb0, Res.bind_ok, Res.ok.injEq] at ho
  rw [← ho]
  have hser : serialize (.vec et l) .vecEmpty = some (encLenTy l 0) := rfl
  rw [hser] at hb; cases hb
  have hread := writeAt_read hb0
  simp only [List.drop_zero] at hread
  refine ⟨hread, ?_⟩
  show (vecD et.dict l).sizeV ⟨s.addr, b0⟩ = _
  simp only [Dict.sizeV, vecD, hr, Res.bind_eq, Res.bind_ok, Res.pure_eq, hea, hl1, Nat.max_self, ceilMul_one, encLenTy_length,
    max_one_right _ hlpos, Nat.mul_zero, Nat.add_zero]

theorem ser_strEmpty (l : LenTy) (hl : l.Law) (hl1 : l.align = 1) (s : Slice) (hlen : l.size ≤ s.len)
    (o : EO) (ho : emplaceU (.str l) .strEmpty s = .ok o) : SerOk (.str l) .strEmpty s o := by
  intro _ b hb
  obtain ⟨b0, hb0, hb0l, hr, _⟩ := header_written l hl 0 (Nat.pow_pos (by decide)) s (by rw [hl1]; exact Nat.mod_one _) hlen
  simp only [emplaceU, hb0, Res.bind_ok, Res.ok.injEq] at ho
  rw [← ho]
  have hser : serialize (.str l) .strEmpty = some (encLenTy l 0) := rfl
  rw [hser] at hb; cases hb
  have hread := writeAt_read hb0
  simp only [List.drop_zero] at hread
  refine ⟨hread, ?_⟩
  show (strD l).sizeV ⟨s.addr, b0⟩ = _
  simp only [Dict.sizeV, strD, hr, Res.bind_eq, Res.bind_ok, Res.pure_eq, hl1, ceilMul_one, encLenTy_length, Nat.add_zero]

theorem ser_strFrom (l : LenTy) (hl : l.Law) (hl1 : l.align = 1) (v : Bytes) (s : Slice) (hlen : l.size ≤ s.len)
    (o : EO) (ho : emplaceU (.str l) (.strFrom v) s = .ok o) : SerOk (.str l) (.strFrom v) s o := by
  intro hres b hb
  have hal : s.addr % l.align = 0 := by rw [hl1]; exact Nat.mod_one _
  obtain ⟨b0, hb0, hb0l, _, _⟩ := header_written l hl 0 (Nat.pow_pos (by decide)) s hal hlen
  have hnl : ¬ s.len < l.size := by omega
  simp only [emplaceU, hb0, Res.bind_ok, hnl, if_false] at ho
  split at ho
  · simp only [Res.ok.injEq] at ho; rw [← ho] at hres; simp [EO.err] at hres
  · rename_i hfit
    have hfl := floorMul_le (s.len - l.size) l.align
    obtain ⟨b1, hb1, hb1l⟩ := writeAt_ok (bs := b0) (x := v) (off := l.size) (by rw [hb0l]; omega)
    have hlm := lmax_lt l
    obtain ⟨b2, hb2, hb2l, hr2, hrest⟩ := header_written l hl v.length (by omega) ⟨s.addr, b1⟩ hal
      (by simp only [Slice.len, hb1l, hb0l]; simp only [Slice.len] at hlen; omega)
    simp only [hb1, Res.bind_ok, hb2, Res.ok.injEq] at ho
    rw [← ho]
    have hser : serialize (.str l) (.strFrom v) = some (encLenTy l v.length ++ v) := rfl
    rw [hser] at hb; cases hb
    have hread := writeAt_read hb2
    simp only [List.drop_zero, encLenTy_length] at hread
    have hpay : (b2.drop l.size).take v.length = v := by rw [hrest]; exact writeAt_read hb1
    refine ⟨?_, ?_⟩
    · show b2.take _ = _
      apply take_append_eq
      · rw [encLenTy_length]; exact hread
      · rw [encLenTy_length]; exact hpay
    · show (strD l).sizeV ⟨s.addr, b2⟩ = _
      simp only [Dict.sizeV, strD, hr2, Res.bind_eq, Res.bind_ok, Res.pure_eq, hl1, ceilMul_one, List.length_append, encLenTy_length]

theorem ser_flexEmpty (it : Ty) (hL : Law it.dict) (ha1 : it.align1 = true) (l : LenTy) (hl : l.Law) (hl1 : l.align = 1) (s : Slice)
    (hlen : max l.size it.dict.align ≤ s.len)
    (o : EO) (ho : emplaceU (.flex it l) .flexEmpty s = .ok o) : SerOk (.flex it l) .flexEmpty s o := by
  intro _ b hb
  obtain ⟨addr, bytes⟩ := s
  simp only [Slice.len] at hlen
  have hia := align_of_align1 it ha1
  have hlpos := hl.size_pow2.pos
  have hls : l.size ≤ max l.size it.dict.align := Nat.le_max_left _ _
  obtain ⟨b0, hb0, hb0l, _, _⟩ := header_written l hl 0 (Nat.pow_pos (by decide)) ⟨addr, bytes⟩ (by rw [hl1]; exact Nat.mod_one _) (by simp only [Slice.len]; omega)
  simp only [Slice.len] at hb0l
  simp only [emplaceU, hb0, Res.bind_ok, Res.ok.injEq] at ho
  rw [← ho]
  have hser : serialize (.flex it l) .flexEmpty = some (encLenTy l 0) := rfl
  rw [hser] at hb; cases hb
  have hread := writeAt_read hb0
  simp only [List.drop_zero] at hread
  refine ⟨hread, ?_⟩
  show (flexD it.dict l).sizeV ⟨addr, b0⟩ = _
  rw [encLenTy_length] at hread ⊢
  have hr : l.readU ⟨addr, b0.take (floorMul b0.length (max l.align it.dict.align))⟩ = .ok 0 := by
    apply readU_of_take l ⟨addr, _⟩ 0 (Nat.pow_pos (by decide)) (by rw [hl1]; exact Nat.mod_one _)
    show (b0.take _).take l.size = _
    rw [hl1, hia, Nat.max_self, floorMul_one, List.take_take, Nat.min_eq_left (by omega), hread]
  simp only [Dict.sizeV, flexD, Slice.len, Slice.take]
  rw [flexSize_term it.dict l _ _ b0.length 0 _ hr]
  simp only [hia, max_one_right _ hlpos, Nat.zero_add]

/-- recursive hypothesis: whatever the emplacer returns meets the serialisation clause -/
def EmpSpecS (t : Ty) (i : Init) : Prop :=
  ∀ s : Slice, s.addr % t.dict.align = 0 → t.dict.minSize ≤ s.len → ∀ o, emplaceU t i s = .ok o → SerOk t i s o

open FV.Props in
theorem alignL_of_align1 (fs : List Ty) (h : align1L fs = true) : ∀ d ∈ dictL fs, d.align = 1 := align_oneL fs h

theorem concatB_length_fields : ∀ (ds : List Dict) (vals : List Bytes), vals.length = ds.length →
    (∀ (i : Nat) (d : Dict) (v : Bytes), ds[i]? = some d → vals[i]? = some v → v.length = d.ssize) →
    (concatB vals).length = (ds.map Dict.ssize).sum := by
  intro ds
  induction ds with
  | nil => intro vals hl _; cases vals with
    | nil => rfl
    | cons v vs => simp at hl
  | cons d ds ih =>
    intro vals hl hv
    cases vals with
    | nil => simp at hl
    | cons v vs =>
      simp only [concatB, List.length_append, List.map_cons, List.sum_cons]
      rw [hv 0 d v rfl rfl, ih vs (by simpa using hl) (fun i dd vv h1 h2 => hv (i + 1) dd vv (by simpa using h1) (by simpa using h2))]

/-- **generated `…Init` of an unsized portable struct: the image is the fields' images followed by the last field's** -/
theorem ser_ustruct (fs : List Ty) (last : Ty) (hwf : wfL fs) (hsz : sizedL fs) (hlwf : last.WF)
    (ha1 : align1L fs = true) (hla1 : last.align1 = true) (vals : List Bytes) (li : Init)
    (hv : ValsOk (dictL fs) vals) (htight : vals.length = fs.length) (hrecOk : EmpSpec last li) (hrec : EmpSpecS last li) :
    EmpSpecS (.ustruct fs last) (.ustruct vals li) := by
  have hl := lawL fs hwf
  have hs := sizedL_allSized fs hsz
  have hlast := Ty.law last hlwf
  have hd1 := alignL_of_align1 fs ha1
  have hlast1 := align_of_align1 last hla1
  intro s hal hlen o ho hres b hb
  obtain ⟨addr, bytes⟩ := s
  have hall1 : ∀ d ∈ dictL fs ++ [last.dict], d.align = 1 := by
    intro d hd; simp only [List.mem_append, List.mem_singleton] at hd
    rcases hd with h | rfl
    · exact hd1 d h
    · exact hlast1
  open FV.Props in
  have hal1 : alignL (dictL fs ++ [last.dict]) = 1 := alignL_one _ hall1
  simp only [Ty.dict, ustructD, Slice.len, hal1, ceilMul_one] at hlen
  have hms := minSizeL_append (dictL fs) last.dict hl hs 0
  rw [hlast1, ceilMul_one] at hms
  have hposd : ∀ d ∈ dictL fs, 0 < d.align := fun d hd => (hl d hd).align_pow2.pos
  have hdl := dictL_length fs
  simp only [emplaceU, Slice.len, Slice.take, hal1, floorMul_one, hlast1, ceilMul_one, List.take_length] at ho
  have hck : checkAlignMin 1 (minSizeL (dictL fs ++ [last.dict]) 0) ⟨addr, bytes⟩ = .ok () := by
    rw [checkAlignMin_ok]; exact ⟨Nat.mod_one _, by simp only [Slice.len]; omega⟩
  obtain ⟨b1, hb1, hb1l, _, _, _⟩ := writeFields_spec (dictL fs) vals 0 bytes hposd (headAligned_zero _) hv.1 hv.len (by omega)
  obtain ⟨hb1eq, hclen, _⟩ := writeFields_concat (dictL fs) vals 0 bytes b1 hd1 (by rw [htight, hdl]) hb1
  simp only [Nat.sub_zero, List.take_zero, List.nil_append, Nat.zero_add] at hb1eq hclen
  have hw : (if (dictL fs).isEmpty then Res.ok bytes else writeFields (dictL fs) vals 0 bytes) = .ok b1 := by
    cases hds : dictL fs with
    | nil => rw [hds] at hb1; simpa [writeFields] using hb1
    | cons d ds => rw [hds] at hb1; simpa using hb1
  simp only [hck, hw, Res.bind_ok] at ho
  have hsl : last.dict.minSize ≤ (⟨addr + foldSize (dictL fs) 0, b1.drop (foldSize (dictL fs) 0)⟩ : Slice).len := by
    simp only [Slice.len, List.length_drop]; omega
  obtain ⟨o', ho', hok'⟩ := hrecOk ⟨addr + foldSize (dictL fs) 0, b1.drop (foldSize (dictL fs) 0)⟩ (by rw [hlast1]; exact Nat.mod_one _) hsl
  simp only [ho', Res.bind_ok, Res.ok.injEq, List.drop_length, List.append_nil] at ho
  rw [← ho] at hres ⊢
  have hres' : o'.res = .ok () := hres
  have hser : serialize (.ustruct fs last) (.ustruct vals li) = (serialize last li).map fun x => concatB vals ++ x := rfl
  rw [hser] at hb
  cases hsl' : serialize last li with
  | none => rw [hsl'] at hb; cases hb
  | some bl =>
    rw [hsl'] at hb
    simp only [Option.map_some, Option.some.injEq] at hb
    subst hb
    obtain ⟨hbl, hzl⟩ := hrec _ (by rw [hlast1]; exact Nat.mod_one _) hsl o' ho' hres' bl hsl'
    have htk : b1.take (foldSize (dictL fs) 0) = concatB vals := by
      rw [hb1eq, ← hclen, List.take_left' rfl]
    have hol : o'.bytes.length = bytes.length - foldSize (dictL fs) 0 := by
      have := hok'.len; simpa [Slice.len, hb1l] using this
    refine ⟨?_, ?_⟩
    · show (b1.take _ ++ o'.bytes).take _ = _
      apply take_append_eq
      · rw [htk, List.take_left' rfl]
      · rw [htk, List.drop_left' rfl]; exact hbl
    · show (ustructD (dictL fs) last.dict).sizeV ⟨addr, b1.take (foldSize (dictL fs) 0) ++ o'.bytes⟩ = _
      have hlenR : (b1.take (foldSize (dictL fs) 0) ++ o'.bytes).length = bytes.length := by
        simp only [List.length_append, List.length_take, hol, hb1l]; omega
      have hdrop : foldSize (dictL fs) 0 ≤ (⟨addr, b1.take (foldSize (dictL fs) 0) ++ o'.bytes⟩ : Slice).len := by
        simp only [Slice.len, hlenR]; omega
      simp only [Dict.sizeV, ustructD, hal1, floorMul_one, hlast1, ceilMul_one, Slice.len, hlenR, Res.bind_eq, Res.pure_eq]
      have e1 : (⟨addr, b1.take (foldSize (dictL fs) 0) ++ o'.bytes⟩ : Slice).take bytes.length = ⟨addr, b1.take (foldSize (dictL fs) 0) ++ o'.bytes⟩ := by
        simp only [Slice.take, ← hlenR, List.take_length]
      rw [e1]
      simp only [Slice.dropU, hdrop, if_true, Res.bind_ok, Slice.drop]
      rw [List.drop_left' (by simp only [List.length_take]; omega)]
      have : last.dict.size ⟨addr + foldSize (dictL fs) 0, o'.bytes⟩ = .ok bl.length := hzl
      rw [this]
      simp only [Res.bind_ok, List.length_append, hclen]

open FV.Props in
theorem alignLL_of_align1 (vs : List (List Ty)) (h : align1LL vs = true) : ∀ v ∈ dictLL vs, ∀ d ∈ v, d.align = 1 := align_oneLL vs h

theorem ser_uenum_none (tag : LenTy) (ht : tag.Law) (ht1 : tag.align = 1) (vs : List (List Ty)) (hwf : wfLL vs) (ha1 : align1LL vs = true)
    (idx : Nat) (hidx : idx < vs.length) (hrep : idx < 256 ^ tag.size) (vals : List Bytes)
    (hsz : sizedL (vs.getD idx [])) (hv : ValsOk (dictL (vs.getD idx [])) vals) (htight : vals.length = (vs.getD idx []).length) :
    EmpSpecS (.uenum tag vs) (.uenum idx vals none) := by
  have hl := lawLL vs hwf
  have hf := frameLL vs hwf
  have hs := sizedL_allSized _ hsz
  have hall1 := alignLL_of_align1 vs ha1
  open FV.Props in
  have hLL1 : alignLL (dictLL vs) = 1 := alignLL_one _ hall1
  intro s hal hlen o ho hres b hb
  obtain ⟨addr, bytes⟩ := s
  simp only [Ty.dict, uenumD, Slice.len] at hal hlen
  obtain ⟨hapos, hge, htd, hta, hva⟩ := uenum_geometry tag ht (dictLL vs) hl addr bytes.length hal hlen
  simp only [ht1, hLL1, Nat.max_self, ceilMul_one] at hge hlen
  have hidx' : idx < (dictLL vs).length := by rw [dictLL_length]; exact hidx
  have hmem : (dictLL vs).getD idx [] ∈ dictLL vs := getD_mem _ _ _ hidx'
  obtain ⟨b0, hb0, hb0l⟩ := writeAt_ok (bs := bytes) (x := encLenTy tag idx) (off := 0) (by rw [encLenTy_length]; omega)
  have hnl : ¬ bytes.length < tag.size := by omega
  simp only [emplaceU, Slice.len, ht1, hLL1, Nat.max_self, ceilMul_one, floorMul_one, hnl, if_false, hb0, Res.bind_ok] at ho
  have hser : serialize (.uenum tag vs) (.uenum idx vals none) = some (encLenTy tag idx ++ concatB vals) := rfl
  rw [hser] at hb; cases hb
  rw [dictLL_getD] at hmem ho
  have hread := writeAt_read hb0
  simp only [List.drop_zero, encLenTy_length] at hread
  have hr0 : tag.readU ⟨addr, b0⟩ = .ok idx := readU_of_take tag _ idx hrep (by rw [ht1]; exact Nat.mod_one _) hread
  generalize hv_def : vs.getD idx [] = v at *
  cases v with
  | nil =>
    simp only [dictL, List.isEmpty_nil, if_true, Res.ok.injEq] at ho
    rw [← ho]
    have hvn : vals = [] := List.eq_nil_of_length_eq_zero (by simpa using htight)
    subst hvn
    simp only [concatB, List.append_nil, encLenTy_length]
    refine ⟨hread, ?_⟩
    show (uenumD tag (dictLL vs)).sizeV ⟨addr, b0⟩ = _
    have hdo : tag.size ≤ (⟨addr, b0⟩ : Slice).len := by simp only [Slice.len, hb0l]; exact hge
    simp only [Dict.sizeV, uenumD, ht1, hLL1, Nat.max_self, ceilMul_one, hr0, Res.bind_eq, Res.bind_ok, Slice.dropU, hdo, if_true,
      dictLL_getD, hv_def, dictL, List.isEmpty_nil, Res.pure_eq, Nat.add_zero]
  | cons t0 v0 =>
    simp only [dictL, List.isEmpty_cons, Bool.false_eq_true, if_false] at ho
    have hd1 : ∀ d ∈ dictL (t0 :: v0), d.align = 1 := hall1 _ hmem
    open FV.Props in
    have hal1 : alignL (dictL (t0 :: v0)) = 1 := alignL_one _ hd1
    have hlv := hl _ hmem
    have hfv := hf _ hmem
    have hfold := minSizeL_eq_foldSize (dictL (t0 :: v0)) hlv hs 0
    cases hck : checkAlignMin (alignL (dictL (t0 :: v0))) (minSizeL (dictL (t0 :: v0)) 0)
        (Slice.take (Slice.drop ⟨addr, bytes⟩ tag.size) (bytes.length - tag.size)) with
    | fault f => simp only [dictL] at hck; simp only [hck] at ho; cases ho
    | err e => simp only [dictL] at hck; simp only [hck, Res.ok.injEq] at ho; rw [← ho] at hres; cases hres
    | ok u =>
      obtain ⟨_, hmin⟩ := checkAlignMin_ok.1 hck
      simp only [dictL] at hck
      simp only [hck] at ho
      simp only [Slice.len, Slice.take, Slice.drop, List.length_take, List.length_drop] at hmin
      have hdl : ((b0.drop tag.size).take (bytes.length - tag.size)).length = bytes.length - tag.size := by
        simp only [List.length_take, List.length_drop, hb0l]; omega
      obtain ⟨b1, hb1, hb1l, _, _, _⟩ := writeFields_spec (dictL (t0 :: v0)) vals 0 ((b0.drop tag.size).take (bytes.length - tag.size))
        (fun d hd => (hlv d hd).align_pow2.pos) (headAligned_zero _) hv.1 hv.len (by rw [hdl, ← hfold]; omega)
      rw [hdl] at hb1l
      obtain ⟨hb1eq, hclen, _⟩ := writeFields_concat (dictL (t0 :: v0)) vals 0 _ b1 hd1 (by rw [htight, dictL_length]) hb1
      simp only [Nat.sub_zero, List.take_zero, List.nil_append, Nat.zero_add] at hb1eq hclen
      simp only [dictL] at hb1
      simp only [hb1, Res.bind_ok, Res.ok.injEq] at ho
      rw [← ho]
      have htk : b1.take (concatB vals).length = concatB vals := by rw [hb1eq, List.take_left' rfl]
      have hRl : (b0.take tag.size ++ b1 ++ b0.drop (tag.size + (bytes.length - tag.size))).length = bytes.length := by
        simp only [List.length_append, List.length_take, List.length_drop, hb1l, hb0l]; omega
      refine ⟨?_, ?_⟩
      · show (b0.take tag.size ++ b1 ++ b0.drop _).take _ = _
        rw [List.append_assoc]
        apply take_append_eq
        · rw [encLenTy_length, List.take_left' (by simp only [List.length_take]; omega), hread]
        · rw [encLenTy_length, List.drop_left' (by simp only [List.length_take]; omega),
            List.take_append_of_le_length (by rw [hb1l]; omega)]
          exact htk
      · show (uenumD tag (dictLL vs)).sizeV ⟨addr, _⟩ = _
        have hr : tag.readU ⟨addr, b0.take tag.size ++ b1 ++ b0.drop (tag.size + (bytes.length - tag.size))⟩ = .ok idx := by
          apply readU_of_take tag _ idx hrep (by rw [ht1]; exact Nat.mod_one _)
          show (b0.take tag.size ++ b1 ++ b0.drop _).take tag.size = _
          rw [List.append_assoc, List.take_left' (by simp only [List.length_take]; omega), hread]
        have hdo : tag.size ≤ (⟨addr, b0.take tag.size ++ b1 ++ b0.drop (tag.size + (bytes.length - tag.size))⟩ : Slice).len := by
          simp only [Slice.len, hRl]; exact hge
        simp only [EO.ok, Dict.sizeV, uenumD, ht1, hLL1, Nat.max_self, ceilMul_one, floorMul_one, hr, Res.bind_eq, Res.bind_ok, Slice.dropU, hdo,
          if_true, dictLL_getD, hv_def, dictL, List.isEmpty_cons, Bool.false_eq_true, if_false, Res.pure_eq]
        have hdata : (Slice.drop ⟨addr, b0.take tag.size ++ b1 ++ b0.drop (tag.size + (bytes.length - tag.size))⟩ tag.size).take
            ((Slice.drop ⟨addr, b0.take tag.size ++ b1 ++ b0.drop (tag.size + (bytes.length - tag.size))⟩ tag.size).len) = ⟨addr + tag.size, b1⟩ := by
          simp only [Slice.drop, Slice.take, Slice.len, List.length_drop, hRl]
          rw [List.append_assoc, List.drop_left' (by simp only [List.length_take]; omega), List.take_left' hb1l]
        rw [hdata]
        have hext := extentAll_sized (dictL (t0 :: v0)) 0 ⟨addr + tag.size, b1⟩ hlv hfv hs (headAligned_zero _)
          (by simp only [Slice.len, hb1l]; omega)
        have hfd := foldSizeDyn_eq_extent (dictL (t0 :: v0)) 0 0 ⟨addr + tag.size, b1⟩ (by simp [dictL])
          (by simp only [dictL]; rw [hd1 t0.dict (by simp [dictL]), ceilMul_one])
        simp only [dictL] at hfd hext hclen
        rw [hfd, hext]
        simp only [Res.bind_ok, List.length_append, encLenTy_length, hclen]

theorem ser_uenum_some (tag : LenTy) (ht : tag.Law) (ht1 : tag.align = 1) (vs : List (List Ty)) (hwf : wfLL vs) (hbl : butLastLL vs)
    (ha1 : align1LL vs = true) (idx : Nat) (hidx : idx < vs.length) (hrep : idx < 256 ^ tag.size) (vals : List Bytes)
    (pre : List Ty) (lt : Ty) (hvar : vs.getD idx [] = pre ++ [lt])
    (hv : ValsOk (dictL pre) vals) (htight : vals.length = pre.length) (lasti : Init)
    (hrecOk : EmpSpec lt lasti) (hrec : EmpSpecS lt lasti) :
    EmpSpecS (.uenum tag vs) (.uenum idx vals (some lasti)) := by
  have hl := lawLL vs hwf
  have hf := frameLL vs hwf
  have hvwf := wfLL_getD vs idx hwf
  have hvbl := butLastLL_getD vs idx hbl
  rw [hvar] at hvwf hvbl
  obtain ⟨hprewf, hltwf⟩ := wfL_concat pre lt hvwf
  have hs := sizedL_allSized _ (butLastL_concat pre lt hvbl)
  have hall1 := alignLL_of_align1 vs ha1
  open FV.Props in
  have hLL1 : alignLL (dictLL vs) = 1 := alignLL_one _ hall1
  intro s hal hlen o ho hres b hb
  obtain ⟨addr, bytes⟩ := s
  simp only [Ty.dict, uenumD, Slice.len] at hal hlen
  obtain ⟨hapos, hge, htd, hta, hva⟩ := uenum_geometry tag ht (dictLL vs) hl addr bytes.length hal hlen
  simp only [ht1, hLL1, Nat.max_self, ceilMul_one] at hge hlen
  have hidx' : idx < (dictLL vs).length := by rw [dictLL_length]; exact hidx
  have hmem : (dictLL vs).getD idx [] ∈ dictLL vs := getD_mem _ _ _ hidx'
  obtain ⟨b0, hb0, hb0l⟩ := writeAt_ok (bs := bytes) (x := encLenTy tag idx) (off := 0) (by rw [encLenTy_length]; omega)
  have hnl : ¬ bytes.length < tag.size := by omega
  simp only [emplaceU, Slice.len, ht1, hLL1, Nat.max_self, ceilMul_one, floorMul_one, hnl, if_false, hb0, Res.bind_ok] at ho
  rw [dictLL_getD, hvar, dictL_append] at hmem
  rw [dictLL_getD, hvar, dictL_append] at ho
  simp only [dictL] at hmem ho
  have hser : serialize (.uenum tag vs) (.uenum idx vals (some lasti)) =
      (serialize lt lasti).map fun x => encLenTy tag idx ++ concatB vals ++ x := by
    simp only [serialize, hvar, List.getLast?_concat]
  rw [hser] at hb
  have hlv := hl _ hmem
  have hfv := hf _ hmem
  have hd1 : ∀ d ∈ dictL pre ++ [lt.dict], d.align = 1 := hall1 _ hmem
  have hdpre1 : ∀ d ∈ dictL pre, d.align = 1 := fun d hd => hd1 d (by simp [hd])
  have hlt1 : lt.dict.align = 1 := hd1 _ (by simp)
  open FV.Props in
  have hal1 : alignL (dictL pre ++ [lt.dict]) = 1 := alignL_one _ hd1
  have hlpre : ∀ d ∈ dictL pre, Law d := fun d hd => hlv d (by simp [hd])
  have hfpre : ∀ d ∈ dictL pre, FrameLaw d := fun d hd => hfv d (by simp [hd])
  have hllt : Law lt.dict := hlv _ (by simp)
  have hposv : ∀ x ∈ dictL pre ++ [lt.dict], 0 < x.align := fun x hx => (hlv x hx).align_pow2.pos
  have hms := minSizeL_append (dictL pre) lt.dict hlpre hs 0
  have hlp := lastPos_append (dictL pre) lt.dict 0 hposv (headAligned_zero _)
  rw [hlt1, ceilMul_one] at hms hlp
  have hne : (dictL pre ++ [lt.dict]).isEmpty = false := by cases dictL pre <;> rfl
  simp only [hne, Bool.false_eq_true, if_false, List.dropLast_concat, List.getLast?_concat, hlp] at ho
  cases hck : checkAlignMin (alignL (dictL pre ++ [lt.dict])) (minSizeL (dictL pre ++ [lt.dict]) 0)
      (Slice.take (Slice.drop ⟨addr, bytes⟩ tag.size) (bytes.length - tag.size)) with
  | fault f => simp only [hck] at ho; cases ho
  | err e => simp only [hck, Res.ok.injEq] at ho; rw [← ho] at hres; cases hres
  | ok u =>
    obtain ⟨_, hmin⟩ := checkAlignMin_ok.1 hck
    simp only [hck] at ho
    simp only [Slice.len, Slice.take, Slice.drop, List.length_take, List.length_drop] at hmin
    have hdl : ((b0.drop tag.size).take (bytes.length - tag.size)).length = bytes.length - tag.size := by
      simp only [List.length_take, List.length_drop, hb0l]; omega
    obtain ⟨b1, hb1, hb1l, _, _, _⟩ := writeFields_spec (dictL pre) vals 0 ((b0.drop tag.size).take (bytes.length - tag.size))
      (fun d hd => (hlpre d hd).align_pow2.pos) (headAligned_zero _) hv.1 hv.len (by rw [hdl]; omega)
    rw [hdl] at hb1l
    obtain ⟨hb1eq, hclen, _⟩ := writeFields_concat (dictL pre) vals 0 _ b1 hdpre1 (by rw [htight, dictL_length]) hb1
    simp only [Nat.sub_zero, List.take_zero, List.nil_append, Nat.zero_add] at hb1eq hclen
    have hw : (if (dictL pre).isEmpty then Res.ok ((b0.drop tag.size).take (bytes.length - tag.size))
        else writeFields (dictL pre) vals 0 ((b0.drop tag.size).take (bytes.length - tag.size))) = .ok b1 := by
      cases hds : dictL pre with
      | nil => rw [hds] at hb1; simpa [writeFields] using hb1
      | cons d ds => rw [hds] at hb1; simpa using hb1
    have hsa : (addr + tag.size + foldSize (dictL pre) 0) % lt.dict.align = 0 := by rw [hlt1]; exact Nat.mod_one _
    have hsl : lt.dict.minSize ≤ (⟨addr + tag.size + foldSize (dictL pre) 0, b1.drop (foldSize (dictL pre) 0)⟩ : Slice).len := by
      simp only [Slice.len, List.length_drop]; omega
    obtain ⟨o', ho', hok'⟩ := hrecOk _ hsa hsl
    have hol : o'.bytes.length = bytes.length - tag.size - foldSize (dictL pre) 0 := by
      have := hok'.len; simpa [Slice.len, hb1l] using this
    simp only [hw, Res.bind_ok, ho', Res.ok.injEq] at ho
    rw [← ho] at hres ⊢
    have hres' : o'.res = .ok () := by
      cases hr : o'.res with
      | ok u => rfl
      | error e => simp only [hr, Except.mapError] at hres; cases hres
    cases hsl' : serialize lt lasti with
    | none => rw [hsl'] at hb; cases hb
    | some bl =>
      rw [hsl'] at hb
      simp only [Option.map_some, Option.some.injEq] at hb
      subst hb
      obtain ⟨hbl', hzl⟩ := hrec _ hsa hsl o' ho' hres' bl hsl'
      have hread := writeAt_read hb0
      simp only [List.drop_zero, encLenTy_length] at hread
      have htk : b1.take (foldSize (dictL pre) 0) = concatB vals := by rw [hb1eq, ← hclen, List.take_left' rfl]
      have hdata : (b1.take (foldSize (dictL pre) 0) ++ o'.bytes).length = bytes.length - tag.size := by
        simp only [List.length_append, List.length_take, hol, hb1l]; omega
      have hRl : (b0.take tag.size ++ (b1.take (foldSize (dictL pre) 0) ++ o'.bytes) ++ b0.drop (tag.size + (bytes.length - tag.size))).length = bytes.length := by
        simp only [List.length_append, List.length_take, List.length_drop, hol, hb1l, hb0l]; omega
      refine ⟨?_, ?_⟩
      · show (b0.take tag.size ++ (b1.take _ ++ o'.bytes) ++ b0.drop _).take _ = _
        rw [List.append_assoc (encLenTy tag idx), List.append_assoc (b0.take tag.size)]
        apply take_append_eq
        · rw [encLenTy_length, List.take_left' (by simp only [List.length_take]; omega), hread]
        · rw [encLenTy_length, List.drop_left' (by simp only [List.length_take]; omega),
            List.take_append_of_le_length (by
              have := congrArg List.length hbl'
              simp only [List.length_take] at this
              simp only [List.length_append, List.length_take, hb1l, hol, hclen]; omega)]
          apply take_append_eq
          · rw [htk, List.take_left' rfl]
          · rw [htk, List.drop_left' rfl]; exact hbl'
      · show (uenumD tag (dictLL vs)).sizeV ⟨addr, _⟩ = _
        have hr : tag.readU ⟨addr, b0.take tag.size ++ (b1.take (foldSize (dictL pre) 0) ++ o'.bytes) ++ b0.drop (tag.size + (bytes.length - tag.size))⟩ = .ok idx := by
          apply readU_of_take tag _ idx hrep (by rw [ht1]; exact Nat.mod_one _)
          show (b0.take tag.size ++ _ ++ b0.drop _).take tag.size = _
          rw [List.append_assoc, List.take_left' (by simp only [List.length_take]; omega), hread]
        have hdo : tag.size ≤ (⟨addr, b0.take tag.size ++ (b1.take (foldSize (dictL pre) 0) ++ o'.bytes) ++ b0.drop (tag.size + (bytes.length - tag.size))⟩ : Slice).len := by
          simp only [Slice.len, hRl]; exact hge
        have hgetD : (dictLL vs).getD idx [] = dictL pre ++ [lt.dict] := by rw [dictLL_getD, hvar, dictL_append]; rfl
        simp only [Dict.sizeV, uenumD, ht1, hLL1, Nat.max_self, ceilMul_one, floorMul_one, hr, Res.bind_eq, Res.bind_ok, Slice.dropU, hdo,
          if_true, hgetD, hne, Bool.false_eq_true, if_false, Res.pure_eq]
        have hd : (Slice.drop ⟨addr, b0.take tag.size ++ (b1.take (foldSize (dictL pre) 0) ++ o'.bytes) ++ b0.drop (tag.size + (bytes.length - tag.size))⟩ tag.size).take
            ((Slice.drop ⟨addr, b0.take tag.size ++ (b1.take (foldSize (dictL pre) 0) ++ o'.bytes) ++ b0.drop (tag.size + (bytes.length - tag.size))⟩ tag.size).len) =
            ⟨addr + tag.size, b1.take (foldSize (dictL pre) 0) ++ o'.bytes⟩ := by
          simp only [Slice.drop, Slice.take, Slice.len, List.length_drop, hRl]
          rw [List.append_assoc, List.drop_left' (by simp only [List.length_take]; omega), List.take_left' hdata]
        rw [hd]
        have hfd := foldSizeDyn_eq_extent (dictL pre ++ [lt.dict]) 0 0 ⟨addr + tag.size, b1.take (foldSize (dictL pre) 0) ++ o'.bytes⟩
          (by cases dictL pre <;> simp)
          (by
            cases hdp : dictL pre with
            | nil => simp only [List.nil_append]; rw [hlt1, ceilMul_one]
            | cons d ds => simp only [List.cons_append]; rw [hdpre1 d (by rw [hdp]; simp), ceilMul_one])
        have hext := extentAll_append (dictL pre) lt.dict 0 ⟨addr + tag.size, b1.take (foldSize (dictL pre) 0) ++ o'.bytes⟩ hlpre hllt hs
          (headAligned_zero _) (by simp only [Slice.len, hdata]; omega)
        rw [hlt1, ceilMul_one, Nat.sub_zero] at hext
        rw [hfd, hext]
        have hdd : (Slice.drop ⟨addr + tag.size, b1.take (foldSize (dictL pre) 0) ++ o'.bytes⟩ (foldSize (dictL pre) 0)) =
            ⟨addr + tag.size + foldSize (dictL pre) 0, o'.bytes⟩ := by
          simp only [Slice.drop]
          rw [List.drop_left' (by simp only [List.length_take]; omega)]
        rw [hdd]
        have : lt.dict.sizeV ⟨addr + tag.size + foldSize (dictL pre) 0, o'.bytes⟩ = .ok bl.length := hzl
        rw [this]
        simp only [Res.bind_ok, List.length_append, encLenTy_length, hclen]
        congr 1; omega

end FV
