import FV.EmplaceEnum
/-! Emplace theorems, part 5: the non-recursive emplacers as instances of the common contract `EmpSpec`. -/
namespace FV

theorem emplace_raw_spec (t : Ty) (hL : Law t.dict) (hF : FrameLaw t.dict) (v : Bytes) (hv : ValidImage t.dict v) :
    EmpSpec t (.raw v) := by
  intro s hal hlen
  obtain ⟨b, hb, hok⟩ := emplace_raw t.dict hF v hv s hal hlen hL
  obtain ⟨sz, hsz, hvl, _⟩ := hv
  refine ⟨EO.ok b, ?_, hok⟩
  cases t <;> simp only [emplaceU, hsz, hvl, if_true, hb, Res.bind_ok]

/-- writing a length header `n` that the validator will read back -/
theorem header_written (l : LenTy) (hl : l.Law) (n : Nat) (hn : n < 256 ^ l.size) (s : Slice) (hla : s.addr % l.align = 0)
    (hlen : l.size ≤ s.len) :
    ∃ b, writeAt s.bytes 0 (encLenTy l n) = .ok b ∧ b.length = s.len ∧ l.readU ⟨s.addr, b⟩ = .ok n ∧ b.drop l.size = s.bytes.drop l.size := by
  obtain ⟨b0, hb0, hb0l⟩ := writeAt_ok (bs := s.bytes) (x := encLenTy l n) (off := 0)
    (by rw [encLenTy_length]; simp only [Slice.len] at hlen; omega)
  have hread := writeAt_read hb0
  simp only [List.drop_zero, encLenTy_length] at hread
  refine ⟨b0, hb0, hb0l, readU_of_take l ⟨s.addr, b0⟩ n hn hla hread, ?_⟩
  unfold writeAt at hb0
  split at hb0
  · cases hb0; simp [encLenTy_length]
  · cases hb0

theorem emplace_vecEmpty_spec (et : Ty) (hL : Law et.dict) (sz : Nat) (hsz : et.dict.sized = some sz) (l : LenTy) (hl : l.Law) :
    EmpSpec (.vec et l) .vecEmpty := by
  intro s hal hlen
  simp only [Ty.dict, vecD] at hal hlen
  have hss : et.dict.ssize = sz := by simp [Dict.ssize, hsz]
  have hls : l.size ≤ max l.size et.dict.align := Nat.le_max_left _ _
  have hla : s.addr % l.align = 0 := mod_trans hal (Pow2.max_mod_left hl.align_pow2 hL.align_pow2)
  obtain ⟨b0, hb0, hb0l, hr, _⟩ := header_written l hl 0 (Nat.pow_pos (by decide)) s hla (by omega)
  have hlen' : max l.size et.dict.align ≤ (⟨s.addr, b0⟩ : Slice).len := by simp only [Slice.len]; rw [hb0l]; exact hlen
  refine ⟨EO.ok b0, by simp [emplaceU, hb0], hb0l, ?_, by intro e he; cases he⟩
  intro _
  exact vec_valid_intro et.dict sz hss l ⟨s.addr, b0⟩ 0 hlen' hr (Nat.zero_le _) (by simp [vecElems])

theorem emplace_vecIter_spec (et : Ty) (hL : Law et.dict) (sz : Nat) (hsz : et.dict.sized = some sz) (l : LenTy) (hl : l.Law)
    (xs : List Bytes) (hxs : ∀ x ∈ xs, ValidImage et.dict x) : EmpSpec (.vec et l) (.vecIter xs) := by
  intro s hal hlen
  obtain ⟨o, h1, h2, _⟩ := emplace_vecIter et hL sz hsz l hl xs hxs s hal hlen
  exact ⟨o, h1, h2⟩

/-- `vec::FromArray`: the contract, and acceptance exactly when the items fit the capacity -/
theorem emplace_vecArr_iff (et : Ty) (hL : Law et.dict) (sz : Nat) (hsz : et.dict.sized = some sz) (l : LenTy) (hl : l.Law)
    (xs : List Bytes) (hxs : ∀ x ∈ xs, ValidImage et.dict x) (s : Slice)
    (hal : s.addr % (Ty.vec et l).dict.align = 0) (hlen : (Ty.vec et l).dict.minSize ≤ s.len) :
    ∃ o, emplaceU (.vec et l) (.vecArr xs) s = .ok o ∧ EmpOk (Ty.vec et l).dict s o ∧
      (o.res = .ok () ↔ xs.length ≤ min (if sz = 0 then usizeMax else
        floorMul (s.len - max l.size et.dict.align) (max l.align et.dict.align) / sz) l.max) := by
  obtain ⟨o, h1, h2, _⟩ := emplace_vecIter et hL sz hsz l hl xs hxs s hal hlen
  simp only [Ty.dict, vecD] at hal hlen
  have hss : et.dict.ssize = sz := by simp [Dict.ssize, hsz]
  have hls : l.size ≤ max l.size et.dict.align := Nat.le_max_left _ _
  obtain ⟨b0, hb0, hb0l⟩ := writeAt_ok (bs := s.bytes) (x := encLenTy l 0) (off := 0)
    (by rw [encLenTy_length]; simp only [Slice.len] at hlen; omega)
  have hslots := vecSlots_ok et.dict l s.len hlen
  simp only [emplaceU, hb0, Res.bind_ok, hslots, hss] at h1 ⊢
  generalize min (if sz = 0 then usizeMax else floorMul (s.len - max l.size et.dict.align) (max l.align et.dict.align) / sz) l.max = cap at h1 ⊢
  by_cases hover : cap < xs.length
  · simp only [hover, if_true]
    refine ⟨_, rfl, ⟨hb0l, (by intro h; simp [EO.err] at h), ?_⟩, ?_⟩
    · intro e he; simp only [EO.err, Except.error.injEq] at he; rw [← he]; exact Or.inl rfl
    · simp only [EO.err]; constructor
      · intro h; cases h
      · intro h; omega
  · simp only [hover, if_false]
    rw [List.take_of_length_le (by omega)] at h1
    simp only [hover, if_false] at h1
    refine ⟨o, h1, h2, ?_⟩
    constructor
    · intro _; omega
    · intro _
      cases hw : vecWriteElems sz (max l.size et.dict.align) xs 0 b0 with
      | ok b1 =>
        simp only [hw, Res.bind_ok] at h1
        cases hw2 : writeAt b1 0 (encLenTy l xs.length) with
        | ok b2 => simp only [hw2, Res.bind_ok, Res.ok.injEq] at h1; rw [← h1]; rfl
        | err e => simp [hw2] at h1
        | fault f => simp [hw2] at h1
      | err e => simp [hw] at h1
      | fault f => simp [hw] at h1

theorem emplace_vecArr_spec (et : Ty) (hL : Law et.dict) (sz : Nat) (hsz : et.dict.sized = some sz) (l : LenTy) (hl : l.Law)
    (xs : List Bytes) (hxs : ∀ x ∈ xs, ValidImage et.dict x) : EmpSpec (.vec et l) (.vecArr xs) := by
  intro s hal hlen
  obtain ⟨o, h1, h2, _⟩ := emplace_vecArr_iff et hL sz hsz l hl xs hxs s hal hlen
  exact ⟨o, h1, h2⟩

theorem emplace_strEmpty_spec (l : LenTy) (hl : l.Law) : EmpSpec (.str l) .strEmpty := by
  intro s hal hlen
  simp only [Ty.dict, strD] at hal hlen
  obtain ⟨b0, hb0, hb0l, hr, _⟩ := header_written l hl 0 (Nat.pow_pos (by decide)) s hal hlen
  refine ⟨EO.ok b0, by simp [emplaceU, hb0], hb0l, ?_, by intro e he; cases he⟩
  intro _
  show (strD l).validateU ⟨s.addr, b0⟩ = .ok ()
  have hnl : ¬ (⟨s.addr, b0⟩ : Slice).len < l.size := by simp only [Slice.len, hb0l]; simp only [Slice.len] at hlen; omega
  simp only [strD, hr, Res.bind_eq, Res.bind_ok, hnl, if_false]
  simp [utf8ValidUpTo]

theorem emplace_strFrom_spec (l : LenTy) (hl : l.Law) (v : Bytes) (hutf : utf8ValidUpTo (v.length + 1) 0 v = none) :
    EmpSpec (.str l) (.strFrom v) := by
  intro s hal hlen
  simp only [Ty.dict, strD] at hal hlen
  obtain ⟨b0, hb0, hb0l, _, _⟩ := header_written l hl 0 (Nat.pow_pos (by decide)) s hal hlen
  have hnl : ¬ s.len < l.size := by omega
  simp only [emplaceU, hb0, Res.bind_ok, hnl, if_false]
  split
  · refine ⟨_, rfl, hb0l, (by intro h; simp [EO.err] at h), ?_⟩
    intro e he; simp only [EO.err, Except.error.injEq] at he; rw [← he]; exact Or.inl rfl
  · rename_i hfit
    have hfl := floorMul_le (s.len - l.size) l.align
    obtain ⟨b1, hb1, hb1l⟩ := writeAt_ok (bs := b0) (x := v) (off := l.size) (by rw [hb0l]; omega)
    have hmax : l.max = 256 ^ l.size - 1 := rfl
    have hp : 0 < 256 ^ l.size := Nat.pow_pos (by omega)
    obtain ⟨b2, hb2, hb2l, hr2, hrest⟩ := header_written l hl v.length (by omega) ⟨s.addr, b1⟩ hal (by simp only [Slice.len, hb1l, hb0l]; simp only [Slice.len] at hlen; omega)
    simp only [hb1, Res.bind_ok, hb2]
    simp only [Slice.len] at hb2l
    refine ⟨_, rfl, by show b2.length = s.len; rw [hb2l, hb1l, hb0l], ?_, by intro e he; cases he⟩
    intro _
    show (strD l).validateU ⟨s.addr, b2⟩ = .ok ()
    have hnl2 : ¬ (⟨s.addr, b2⟩ : Slice).len < l.size := by simp only [Slice.len, hb2l, hb1l, hb0l]; simp only [Slice.len] at hlen; omega
    have hcap : ¬ v.length > min (floorMul ((⟨s.addr, b2⟩ : Slice).len - l.size) l.align) l.max := by
      simp only [Slice.len, hb2l, hb1l, hb0l]; simp only [Slice.len] at hfit; omega
    simp only [strD, hr2, Res.bind_eq, Res.bind_ok, hnl2, if_false, hcap]
    have hpay : (b2.drop l.size).take v.length = v := by
      rw [hrest]; exact writeAt_read hb1
    rw [hpay, hutf]

end FV
