import FV.Arith
namespace FV
def Pow2 (n : Nat) : Prop := ∃ k, k < n ∧ n = 2 ^ k
instance (n : Nat) : Decidable (Pow2 n) := inferInstanceAs (Decidable (∃ k, k < n ∧ n = 2 ^ k))
theorem Pow2.mk (k : Nat) : Pow2 (2 ^ k) := ⟨k, Nat.lt_two_pow_self, rfl⟩

theorem Pow2.pos {n : Nat} (h : Pow2 n) : 0 < n := by
  obtain ⟨k, _, rfl⟩ := h; exact Nat.two_pow_pos k
theorem pow2_one : Pow2 1 := by decide

theorem Pow2.mod_of_le {a b : Nat} (ha : Pow2 a) (hb : Pow2 b) (h : a ≤ b) : b % a = 0 := by
  obtain ⟨i, _, rfl⟩ := ha; obtain ⟨j, _, rfl⟩ := hb
  have hij : i ≤ j := by
    by_cases hc : i ≤ j
    · exact hc
    · exfalso
      have : j < i := by omega
      have := Nat.pow_lt_pow_right (a := 2) (by omega) this
      omega
  exact Nat.mod_eq_zero_of_dvd (Nat.pow_dvd_pow 2 hij)

theorem Pow2.of_max {a b : Nat} (ha : Pow2 a) (hb : Pow2 b) : Pow2 (max a b) := by
  by_cases h : a ≤ b
  · rw [Nat.max_eq_right h]; exact hb
  · rw [Nat.max_eq_left (by omega)]; exact ha

theorem Pow2.max_mod_left {a b : Nat} (ha : Pow2 a) (hb : Pow2 b) : max a b % a = 0 := by
  by_cases h : a ≤ b
  · rw [Nat.max_eq_right h]; exact ha.mod_of_le hb h
  · rw [Nat.max_eq_left (by omega)]; exact Nat.mod_self a

theorem Pow2.max_mod_right {a b : Nat} (ha : Pow2 a) (hb : Pow2 b) : max a b % b = 0 := by
  rw [Nat.max_comm]; exact hb.max_mod_left ha

/-- divisibility chains: if `m % a = 0` and `x % m = 0` then `x % a = 0` -/
theorem mod_trans {x m a : Nat} (hx : x % m = 0) (hm : m % a = 0) : x % a = 0 := by
  have h1 := Nat.dvd_of_mod_eq_zero hx
  have h2 := Nat.dvd_of_mod_eq_zero hm
  exact Nat.mod_eq_zero_of_dvd (Nat.dvd_trans h2 h1)

theorem mul_mod_zero {k s a : Nat} (hs : s % a = 0) : (k * s) % a = 0 := by
  have h := Nat.dvd_of_mod_eq_zero hs
  exact Nat.mod_eq_zero_of_dvd (Nat.dvd_trans h (Nat.dvd_mul_left s k))
end FV
