import FV.IoRecv
/-! `RecvGuard::retain`: the guard is forgotten, the message stays in the window. -/
namespace FV

/-- a message handed out by `recv` is the occupied part of a window that validates -/
theorem recv_msg_valid (d : Dict) :
    ∀ (evs : List ReadEv) (b : RBuf) (rest : Bytes) (bytes : Bytes) (b' : RBuf) (rest' : Bytes) (evs' : List ReadEv),
      recv d evs b rest = (.msg bytes, b', rest', evs') → d.validate b'.slice = .ok () ∧ bytes = b'.occ := by
  intro evs
  induction evs with
  | nil =>
    intro b rest bytes b' rest' evs' h
    unfold recv at h
    cases hv : d.validate b.slice with
    | ok u => simp only [hv] at h; cases h; exact ⟨hv, rfl⟩
    | fault f => simp [hv] at h
    | err e =>
      simp only [hv] at h
      split at h <;> simp at h
  | cons ev evs ih =>
    intro b rest bytes b' rest' evs' h
    unfold recv at h
    cases hv : d.validate b.slice with
    | ok u => simp only [hv] at h; cases h; exact ⟨hv, rfl⟩
    | fault f => simp [hv] at h
    | err e =>
      simp only [hv] at h
      split at h
      · simp at h
      · cases hs : readStep b ev rest with
        | oom => simp [hs] at h
        | err b1 k => simp [hs] at h
        | got b1 rest1 n =>
          simp only [hs] at h
          split at h
          · simp at h
          · exact ih b1 rest1 bytes b' rest' evs' h

/-- **`retain()`**: calling `recv` again without having dropped the guard returns the same message from the same window, without
touching the pipe — for every message type, window and script. -/
theorem recv_after_retain (d : Dict) (evs : List ReadEv) (b : RBuf) (rest bytes : Bytes) (b' : RBuf) (rest' : Bytes)
    (evs' : List ReadEv) (h : recv d evs b rest = (.msg bytes, b', rest', evs')) :
    recv d evs' b' rest' = (.msg bytes, b', rest', evs') := by
  obtain ⟨hv, rfl⟩ := recv_msg_valid d evs b rest bytes b' rest' evs' h
  cases evs' <;> (unfold recv; simp [hv])
end FV
