import FV.FrameComb
/-! Frame contract for FlatVec and FlatString. -/
namespace FV

theorem mult_gap {p q m : Nat} (hp : p % m = 0) (hq : q % m = 0) (h : p < q) : p + m ≤ q := by
  obtain ⟨a, rfl⟩ := Nat.dvd_of_mod_eq_zero hp
  obtain ⟨b, rfl⟩ := Nat.dvd_of_mod_eq_zero hq
  have hm : 0 < m := by
    rcases Nat.eq_zero_or_pos m with h0 | h0
    · subst h0; simp at h
    · exact h0
  have hab : a < b := Nat.lt_of_mul_lt_mul_left h
  have : m * (a + 1) ≤ m * b := Nat.mul_le_mul_left m hab
  rw [Nat.mul_add, Nat.mul_one] at this; exact this

theorem ceilMul_add_of_mod {a x m : Nat} (hm : 0 < m) (ha : a % m = 0) : ceilMul (a + x) m = a + ceilMul x m := by
  apply Nat.le_antisymm
  · exact ceilMul_least hm (add_mod_zero ha (ceilMul_mod x m)) (by have := le_ceilMul (x := x) hm; omega)
  · have h1 := le_ceilMul (x := a + x) hm
    have hsub : (ceilMul (a + x) m - a) % m = 0 := by
      have d1 := Nat.dvd_of_mod_eq_zero (ceilMul_mod (a + x) m)
      have d2 := Nat.dvd_of_mod_eq_zero ha
      exact Nat.mod_eq_zero_of_dvd (Nat.dvd_sub d1 d2)
    have := ceilMul_least (x := x) hm hsub (by omega)
    omega

theorem vecElems_congr (d : Dict) (sz : Nat) (hss : d.ssize = sz) (dOff : Nat) (s s' : Slice) (ha : s'.addr = s.addr)
    (N : Nat) (hb : s'.bytes.take N = s.bytes.take N) (hl : N ≤ s.len) (hl' : N ≤ s'.len) :
    ∀ k i, dOff + (i + k) * sz ≤ N → vecElems d dOff s' k i = vecElems d dOff s k i := by
  intro k
  induction k with
  | zero => intro i _; simp [vecElems]
  | succ k ih =>
    intro i hN
    have e1 : (i + (k + 1)) * sz = i * sz + (k+1) * sz := Nat.add_mul _ _ _
    have e2 : (k+1) * sz = k * sz + sz := Nat.succ_mul _ _
    have h1 : dOff + i * sz ≤ s.len := by omega
    have h1' : dOff + i * sz ≤ s'.len := by omega
    have h2 : sz ≤ s.len - (dOff + i * sz) := by omega
    have h2' : sz ≤ s'.len - (dOff + i * sz) := by omega
    simp only [vecElems, hss, Res.bind_eq, Slice.dropU, h1, h1', if_true, Res.bind_ok, Slice.takeU, Slice.len_drop, h2, h2']
    rw [elem_slice_eq s s' ha N (dOff + i * sz) sz hb (by omega)]
    have := ih (i + 1) (by have : i + 1 + k = i + (k + 1) := by omega
                           rw [this]; exact hN)
    simp only [this]

/-- what `validate_unchecked` of a FlatVec establishes -/
theorem vec_valid_inv (d : Dict) (sz : Nat) (hss : d.ssize = sz) (l : LenTy) (s : Slice)
    (hlen : max l.size d.align ≤ s.len) (hv : (vecD d l).validateU s = .ok ()) :
    ∃ len slots, l.readU s = .ok len ∧ vecSlots d l s.len = .ok slots ∧ len ≤ min slots l.max ∧
      (d.ssize ≠ 0 → vecElems d (max l.size d.align) s len 0 = .ok ()) := by
  simp only [vecD] at hv
  cases hr : l.readU s with
  | fault f => simp [hr] at hv
  | err e => simp [hr] at hv
  | ok len =>
    cases hsl : vecSlots d l s.len with
    | fault f => simp [hr, hsl] at hv
    | err e => simp [hr, hsl] at hv
    | ok slots =>
      simp only [hr, hsl, Res.bind_eq, Res.bind_ok] at hv
      split at hv
      · simp at hv
      · refine ⟨len, slots, rfl, rfl, by omega, ?_⟩
        intro hnz
        simpa [hnz] using hv

section VecArith
variable (dOff al sz : Nat) (hapos : 0 < al) (hdo : dOff % al = 0)
include hapos hdo

/-- the extent of `len` elements fits whenever `len` does not exceed the slots of the slice -/
theorem vec_z_le {n len : Nat} (hn : dOff ≤ n) (hz : sz ≠ 0) (hlen : len ≤ floorMul (n - dOff) al / sz) :
    ceilMul (dOff + sz * len) al ≤ n := by
  have h2 : floorMul (n - dOff) al / sz * sz ≤ floorMul (n - dOff) al := Nat.div_mul_le_self _ _
  have h3 := floorMul_le (n - dOff) al
  have h4 : len * sz ≤ floorMul (n - dOff) al / sz * sz := Nat.mul_le_mul_right _ hlen
  have hm : (dOff + floorMul (n - dOff) al) % al = 0 := add_mod_zero hdo (floorMul_mod _ _)
  have := ceilMul_least (x := dOff + sz * len) hapos hm (by rw [Nat.mul_comm sz len]; omega)
  omega

/-- a slice covering the extent has enough slots -/
theorem vec_len_le_slots {n len : Nat} (hz : sz ≠ 0) (h : ceilMul (dOff + sz * len) al ≤ n) :
    len ≤ floorMul (n - dOff) al / sz := by
  have hge := le_ceilMul (x := dOff + sz * len) hapos
  have hx : ceilMul (dOff + sz * len) al - dOff ≤ floorMul (n - dOff) al := by
    apply floorMul_greatest hapos
    · have d1 := Nat.dvd_of_mod_eq_zero (ceilMul_mod (dOff + sz * len) al)
      have d2 := Nat.dvd_of_mod_eq_zero hdo
      exact Nat.mod_eq_zero_of_dvd (Nat.dvd_sub d1 d2)
    · omega
  have hy : len * sz ≤ floorMul (n - dOff) al := by rw [Nat.mul_comm]; omega
  exact (Nat.le_div_iff_mul_le (by omega)).2 hy

/-- a slice shorter than the extent has too few slots -/
theorem vec_slots_lt {k len : Nat} (hz : sz ≠ 0) (hk : dOff ≤ k) (h : k < ceilMul (dOff + sz * len) al) :
    floorMul (k - dOff) al / sz < len := by
  rw [ceilMul_add_of_mod hapos hdo] at h
  have h1 := floorMul_le (k - dOff) al
  have hlt : floorMul (k - dOff) al < ceilMul (sz * len) al := by omega
  have hgap := mult_gap (floorMul_mod (k - dOff) al) (ceilMul_mod (sz * len) al) hlt
  have h2 := ceilMul_lt_add (x := sz * len) hapos
  have h3 : floorMul (k - dOff) al < len * sz := by rw [Nat.mul_comm]; omega
  exact (Nat.div_lt_iff_lt_mul (by omega)).2 h3
end VecArith

theorem vecSlots_ok (d : Dict) (l : LenTy) (n : Nat) (hn : max l.size d.align ≤ n) :
    vecSlots d l n = .ok (if d.ssize = 0 then usizeMax else floorMul (n - max l.size d.align) (max l.align d.align) / d.ssize) := by
  have : ¬ n < max l.size d.align := by omega
  simp only [vecSlots, this, if_false]
  split <;> rfl

theorem vec_frame (d : Dict) (hd : Law d) (sz : Nat) (hsz : d.sized = some sz) (l : LenTy) (hl : l.Law) :
    FrameLaw (vecD d l) := by
  have hss : d.ssize = sz := by simp [Dict.ssize, hsz]
  have hpa := Pow2.of_max hl.align_pow2 hd.align_pow2
  have hapos := hpa.pos
  have hdo := dataOffset_mod l hl d.align hd.align_pow2
  have hls : l.size ≤ max l.size d.align := Nat.le_max_left _ _
  -- size of the view equals the formula on the length
  have hsizeV : ∀ (s : Slice) (len : Nat), max l.size d.align ≤ s.len → l.readU s = .ok len →
      (vecD d l).sizeV s = .ok (ceilMul (max l.size d.align + sz * len) (max l.align d.align)) := by
    intro s len _ hr
    simp [Dict.sizeV, vecD, hr, hss]
  -- the extent is within a valid slice
  have hzle : ∀ (s : Slice) (len slots : Nat), max l.size d.align ≤ s.len → vecSlots d l s.len = .ok slots → len ≤ min slots l.max →
      ceilMul (max l.size d.align + sz * len) (max l.align d.align) ≤ s.len := by
    intro s len slots hlen hsl hcap
    rw [vecSlots_ok d l s.len hlen, hss] at hsl
    by_cases hz : sz = 0
    · subst hz; simp only [Nat.zero_mul, Nat.add_zero]; rw [ceilMul_of_mod hapos hdo]; exact hlen
    · simp only [hz, if_false, Res.ok.injEq] at hsl
      exact vec_z_le _ _ sz hapos hdo hlen hz (by omega)
  exact
  { sized_sizeV := by intro n h; simp [vecD] at h
    size_ok := by
      intro s hal hlen hv
      simp only [vecD] at hal hlen
      obtain ⟨len, slots, hr, hsl, hcap, _⟩ := vec_valid_inv d sz hss l s hlen hv
      refine ⟨_, hsizeV s len hlen hr, hzle s len slots hlen hsl hcap, ceilMul_mod _ _, ?_⟩
      simp only [vecD]
      have := le_ceilMul (x := max l.size d.align + sz * len) hapos; omega
    loc := by
      intro s z hal hlen hv hz s' ha hl' hb
      simp only [vecD] at hal hlen
      obtain ⟨len, slots, hr, hsl, hcap, hel⟩ := vec_valid_inv d sz hss l s hlen hv
      rw [hsizeV s len hlen hr] at hz; cases hz
      have hzge := le_ceilMul (x := max l.size d.align + sz * len) hapos
      have hzs := hzle s len slots hlen hsl hcap
      have hr' : l.readU s' = .ok len := by
        rw [readU_congr l s s' ha (by omega) (by omega) (take_take_eq hb (by omega))]; exact hr
      refine ⟨?_, hsizeV s' len (by omega) hr'⟩
      have helems : d.ssize ≠ 0 → vecElems d (max l.size d.align) s' len 0 = .ok () := by
        intro hnz
        rw [vecElems_congr d sz hss _ s s' ha _ hb hzs hl' len 0 (by rw [Nat.zero_add, Nat.mul_comm]; omega)]
        exact hel hnz
      rw [vecSlots_ok d l s.len hlen, hss] at hsl
      simp only [vecD, hr', Res.bind_eq, Res.bind_ok, vecSlots_ok d l s'.len (by omega), hss]
      by_cases hz : sz = 0
      · simp only [hz, if_true] at hsl ⊢
        cases hsl
        have : ¬ len > min usizeMax l.max := by omega
        simp only [this, if_false]
      · simp only [hz, if_false]
        have := vec_len_le_slots _ _ sz hapos hdo hz hl'
        have hcap' : ¬ len > min (floorMul (s'.len - max l.size d.align) (max l.align d.align) / sz) l.max := by omega
        simp only [hcap', if_false]; exact helems (by rw [hss]; exact hz)
    pre := by
      intro s z hal hlen hv hz k hk
      simp only [vecD] at hal hlen
      obtain ⟨len, slots, hr, hsl, hcap, _⟩ := vec_valid_inv d sz hss l s hlen hv
      rw [hsizeV s len hlen hr] at hz; cases hz
      have hzs := hzle s len slots hlen hsl hcap
      by_cases hkd : k < max l.size d.align
      · apply validate_short (by simpa [vecD] using hal)
        simp only [vecD, Slice.len_take]; omega
      · have hkl : (s.take k).len = k := by simp only [Slice.len_take]; omega
        rw [validate_eq_validateU (by simpa [vecD] using hal) (by simp only [vecD, hkl]; omega)]
        have hr' : l.readU (s.take k) = .ok len := by
          rw [readU_congr l s (s.take k) rfl (by omega) (by omega)
            (by simp only [Slice.take, List.take_take]; congr 1; omega)]; exact hr
        simp only [vecD, hr', Res.bind_eq, Res.bind_ok, hkl, vecSlots_ok d l k (by omega), hss]
        by_cases hz : sz = 0
        · exfalso
          subst hz
          simp only [Nat.zero_mul, Nat.add_zero] at hk
          rw [ceilMul_of_mod hapos hdo] at hk; omega
        · simp only [hz, if_false]
          have := vec_slots_lt _ _ sz hapos hdo hz (Nat.le_of_not_lt hkd) hk
          have hgt : len > min (floorMul (k - max l.size d.align) (max l.align d.align) / sz) l.max := by omega
          simp only [hgt, if_true]
          exact ⟨_, rfl⟩ }

/-! ### FlatString -/
theorem str_valid_inv (l : LenTy) (s : Slice) (hlen : l.size ≤ s.len) (hv : (strD l).validateU s = .ok ()) :
    ∃ len, l.readU s = .ok len ∧ len ≤ min (floorMul (s.len - l.size) l.align) l.max ∧
      utf8ValidUpTo (len + 1) 0 ((s.bytes.drop l.size).take len) = none := by
  simp only [strD] at hv
  cases hr : l.readU s with
  | fault f => simp [hr] at hv
  | err e => simp [hr] at hv
  | ok len =>
    have hnl : ¬ s.len < l.size := by omega
    simp only [hr, Res.bind_eq, Res.bind_ok, hnl, if_false] at hv
    split at hv
    · simp at hv
    · rename_i hcap
      split at hv
      · rename_i hu; exact ⟨len, rfl, by omega, hu⟩
      · simp at hv

theorem str_frame (l : LenTy) (hl : l.Law) : FrameLaw (strD l) := by
  have hapos := hl.align_pow2.pos
  have hdo := hl.size_mod
  have hsizeV : ∀ (s : Slice) (len : Nat), l.size ≤ s.len → l.readU s = .ok len →
      (strD l).sizeV s = .ok (ceilMul (l.size + len) l.align) := by
    intro s len _ hr
    simp [Dict.sizeV, strD, hr]
  have hzle : ∀ (s : Slice) (len : Nat), l.size ≤ s.len → len ≤ floorMul (s.len - l.size) l.align →
      ceilMul (l.size + len) l.align ≤ s.len := by
    intro s len hlen hcap
    have := vec_z_le l.size l.align 1 hapos hdo (n := s.len) (len := len) hlen (by omega) (by simpa using hcap)
    simpa using this
  exact
  { sized_sizeV := by intro n h; simp [strD] at h
    size_ok := by
      intro s hal hlen hv
      simp only [strD] at hal hlen
      obtain ⟨len, hr, hcap, _⟩ := str_valid_inv l s hlen hv
      refine ⟨_, hsizeV s len hlen hr, hzle s len hlen (by omega), ceilMul_mod _ _, ?_⟩
      simp only [strD]
      have := le_ceilMul (x := l.size + len) hapos; omega
    loc := by
      intro s z hal hlen hv hz s' ha hl' hb
      simp only [strD] at hal hlen
      obtain ⟨len, hr, hcap, hu⟩ := str_valid_inv l s hlen hv
      rw [hsizeV s len hlen hr] at hz; cases hz
      have hzge := le_ceilMul (x := l.size + len) hapos
      have hr' : l.readU s' = .ok len := by
        rw [readU_congr l s s' ha (by omega) (by omega) (take_take_eq hb (by omega))]; exact hr
      refine ⟨?_, hsizeV s' len (by omega) hr'⟩
      have hnl : ¬ s'.len < l.size := by omega
      simp only [strD, hr', Res.bind_eq, Res.bind_ok, hnl, if_false]
      have h1 := vec_len_le_slots l.size l.align 1 hapos hdo (n := s'.len) (len := len) (by omega) (by simpa using hl')
      have hcap' : ¬ len > min (floorMul (s'.len - l.size) l.align) l.max := by
        simp at h1; omega
      simp only [hcap', if_false]
      have hbytes : (s'.bytes.drop l.size).take len = (s.bytes.drop l.size).take len :=
        drop_take_eq hb (by omega)
      rw [hbytes, hu]
    pre := by
      intro s z hal hlen hv hz k hk
      simp only [strD] at hal hlen
      obtain ⟨len, hr, hcap, _⟩ := str_valid_inv l s hlen hv
      rw [hsizeV s len hlen hr] at hz; cases hz
      have hzs := hzle s len hlen (by omega)
      by_cases hkd : k < l.size
      · apply validate_short (by simpa [strD] using hal)
        simp only [strD, Slice.len_take]; omega
      · have hkl : (s.take k).len = k := by simp only [Slice.len_take]; omega
        rw [validate_eq_validateU (by simpa [strD] using hal) (by simp only [strD, hkl]; omega)]
        have hr' : l.readU (s.take k) = .ok len := by
          rw [readU_congr l s (s.take k) rfl (by omega) (by omega)
            (by simp only [Slice.take, List.take_take]; congr 1; omega)]; exact hr
        have hnl : ¬ k < l.size := hkd
        simp only [strD, hr', Res.bind_eq, Res.bind_ok, hkl, hnl, if_false]
        have := vec_slots_lt l.size l.align 1 hapos hdo (k := k) (len := len) (by omega) (Nat.le_of_not_lt hkd) (by simpa using hk)
        have hgt : len > min (floorMul (k - l.size) l.align) l.max := by simp at this; omega
        simp only [hgt, if_true]
        exact ⟨_, rfl⟩ }
end FV
