import FV.Combinators
/-! C01: no combinator's validation ever faults. -/
namespace FV

structure Law (d : Dict) : Prop where
  align_pow2 : Pow2 d.align
  sized_min : ∀ n, d.sized = some n → d.minSize = n
  sized_mod : ∀ n, d.sized = some n → n % d.align = 0
  noFault : ∀ s, s.addr % d.align = 0 → d.minSize ≤ s.len → (d.validateU s).NoFault

theorem Law.toDNoFault {d : Dict} (h : Law d) : DNoFault d :=
  ⟨h.align_pow2.pos, h.sized_min, h.noFault⟩

theorem Law.validate_noFault {d : Dict} (h : Law d) (s : Slice) : (d.validate s).NoFault :=
  FV.validate_noFault h.toDNoFault s

structure LenTy.Law (l : LenTy) : Prop where
  size_pow2 : Pow2 l.size
  align_pow2 : Pow2 l.align
  align_le : l.align ≤ l.size

instance (l : LenTy) : Decidable l.Law :=
  decidable_of_iff (Pow2 l.size ∧ Pow2 l.align ∧ l.align ≤ l.size)
    ⟨fun ⟨a, b, c⟩ => ⟨a, b, c⟩, fun h => ⟨h.1, h.2, h.3⟩⟩

theorem LenTy.Law.size_mod {l : LenTy} (h : l.Law) : l.size % l.align = 0 :=
  h.align_pow2.mod_of_le h.size_pow2 h.align_le

theorem prim_law (s a : Nat) (ha : Pow2 a) (hs : s % a = 0) : Law (primD s a) :=
  { align_pow2 := ha
    sized_min := by intro n h; simp [primD] at h ⊢; omega
    sized_mod := by intro n h; simp only [primD, Option.some.injEq] at h ⊢; subst h; exact hs
    noFault := by intro s _ _; simp [primD] }

theorem bool_law : Law boolD :=
  { align_pow2 := pow2_one
    sized_min := by intro n h; simp [boolD] at h ⊢; omega
    sized_mod := by intro n _; exact Nat.mod_one n
    noFault := by
      intro s _ hl
      simp only [boolD] at hl ⊢
      cases hb : s.bytes with
      | nil => simp [Slice.len, hb] at hl
      | cons b bs => simp only; split <;> simp }

theorem arrLoop_noFault (d : Dict) (hd : Law d) (sz : Nat) (hsz : d.sized = some sz) (s : Slice)
    (hal : s.addr % d.align = 0) :
    ∀ k i, (i + k) * sz ≤ s.len → (arrLoop d s k i).NoFault := by
  intro k
  induction k with
  | zero => intro i _; simp [arrLoop]
  | succ k ih =>
    intro i hlen
    have hss : d.ssize = sz := by simp [Dict.ssize, hsz]
    have h1 : i * sz ≤ s.len := by
      have : i * sz ≤ (i + (k+1)) * sz := Nat.mul_le_mul_right _ (by omega)
      omega
    have h2 : sz ≤ s.len - i * sz := by
      have : (i + (k + 1)) * sz = i * sz + (k+1) * sz := Nat.add_mul _ _ _
      have : (k+1) * sz = k * sz + sz := Nat.succ_mul _ _
      omega
    simp only [arrLoop, hss, Res.bind_eq, Slice.dropU, h1, if_true, Res.bind_ok, Slice.takeU, Slice.len_drop, h2]
    apply Res.noFault_bind
    · rw [Res.offset_noFault]
      apply hd.noFault
      · simp only [Slice.addr_take, Slice.addr_drop]
        exact add_mod_zero hal (mul_mod_zero (hd.sized_mod sz hsz))
      · rw [hd.sized_min sz hsz]; simp only [Slice.len_take, Slice.len_drop]; omega
    · intro _ _
      apply ih
      have : i + 1 + k = i + (k + 1) := by omega
      rw [this]; exact hlen

theorem arr_law (d : Dict) (hd : Law d) (sz : Nat) (hsz : d.sized = some sz) (n : Nat) : Law (arrD d n) :=
  { align_pow2 := hd.align_pow2
    sized_min := by intro m h; simp [arrD] at h ⊢; omega
    sized_mod := by
      intro m h; simp only [arrD, Option.some.injEq] at h ⊢; subst h
      have : d.ssize = sz := by simp [Dict.ssize, hsz]
      rw [this]; exact mul_mod_zero (hd.sized_mod sz hsz)
    noFault := by
      intro s hal hl
      have hss : d.ssize = sz := by simp [Dict.ssize, hsz]
      simp only [arrD, hss] at hl hal ⊢
      apply arrLoop_noFault d hd sz hsz s hal
      simpa using hl }

/-! ### field lists -/
def AllSized (ds : List Dict) : Prop := ∀ d ∈ ds, d.sized.isSome

theorem alignL_pow2 (ds : List Dict) (h : ∀ d ∈ ds, Law d) : Pow2 (alignL ds) := by
  induction ds with
  | nil => exact pow2_one
  | cons d ds ih =>
    simp only [alignL]
    exact Pow2.of_max (h d (by simp)).align_pow2 (ih (fun x hx => h x (by simp [hx])))

theorem alignL_mod (ds : List Dict) (h : ∀ d ∈ ds, Law d) : ∀ d ∈ ds, alignL ds % d.align = 0 := by
  induction ds with
  | nil => intro d hd; simp at hd
  | cons d0 ds ih =>
    intro d hd
    have hp0 := (h d0 (by simp)).align_pow2
    have hpl := alignL_pow2 ds (fun x hx => h x (by simp [hx]))
    simp only [alignL]
    rcases List.mem_cons.1 hd with rfl | hmem
    · exact Pow2.max_mod_left hp0 hpl
    · exact mod_trans (Pow2.max_mod_right hp0 hpl) (ih (fun x hx => h x (by simp [hx])) d hmem)

theorem allSized_butLast {ds : List Dict} (h : AllSized ds) : AllSizedButLast ds := by
  induction ds with
  | nil => trivial
  | cons d ds ih =>
    cases ds with
    | nil => trivial
    | cons d' ds' =>
      exact ⟨h d (by simp), ih (fun x hx => h x (by simp [hx]))⟩

theorem minSizeL_eq_foldSize (ds : List Dict) (hl : ∀ d ∈ ds, Law d) (hs : AllSized ds) :
    ∀ pos, minSizeL ds pos = foldSize ds pos := by
  induction ds with
  | nil => intro pos; rfl
  | cons d ds ih =>
    intro pos
    have hd := hl d (by simp)
    obtain ⟨n, hn⟩ : ∃ n, d.sized = some n := by
      have := hs d (by simp); cases h : d.sized <;> simp_all
    have hmin := hd.sized_min n hn
    have hss : d.ssize = n := by simp [Dict.ssize, hn]
    cases ds with
    | nil => simp [minSizeL, foldSize, hmin, hss]
    | cons d' ds' =>
      simp only [minSizeL, foldSize]
      exact ih (fun x hx => hl x (by simp [hx])) (fun x hx => hs x (by simp [hx])) _

theorem sstruct_law (ds : List Dict) (hl : ∀ d ∈ ds, Law d) (hs : AllSized ds) : Law (sstructD ds) :=
  { align_pow2 := alignL_pow2 ds hl
    sized_min := by intro n h; simp [sstructD] at h ⊢; omega
    sized_mod := by
      intro n h; simp only [sstructD, Option.some.injEq] at h ⊢; subst h; exact ceilMul_mod _ _
    noFault := by
      intro s hal hlen
      simp only [sstructD] at hal hlen ⊢
      apply validateAll_noFault0 ds s (fun d hd => (hl d hd).toDNoFault) (allSized_butLast hs)
      · intro d hd; exact mod_trans hal (alignL_mod ds hl d hd)
      · rw [minSizeL_eq_foldSize ds hl hs]
        have := le_ceilMul (x := foldSize ds 0) (alignL_pos ds)
        omega }

theorem cenum_law (tag : LenTy) (ht : tag.Law) (n : Nat) : Law (cenumD tag n) :=
  { align_pow2 := ht.align_pow2
    sized_min := by intro m h; simp [cenumD] at h ⊢; omega
    sized_mod := by intro m h; simp only [cenumD, Option.some.injEq] at h ⊢; subst h; exact ht.size_mod
    noFault := by
      intro s hal hlen
      simp only [cenumD] at hal hlen ⊢
      obtain ⟨t, ht'⟩ := LenTy.readU_noFault tag s hlen hal
      simp only [ht', Res.bind_eq, Res.bind_ok]
      split <;> simp }

/-! ### variant lists -/
theorem getD_mem {α} (vs : List α) (t : Nat) (dflt : α) (h : t < vs.length) : vs.getD t dflt ∈ vs := by
  simp [List.getD, List.getElem?_eq_getElem h]

theorem alignLL_pow2 (vs : List (List Dict)) (h : ∀ v ∈ vs, ∀ d ∈ v, Law d) : Pow2 (alignLL vs) := by
  induction vs with
  | nil => exact pow2_one
  | cons v vs ih =>
    simp only [alignLL]
    exact Pow2.of_max (alignL_pow2 v (h v (by simp))) (ih (fun x hx => h x (by simp [hx])))

theorem alignLL_mod (vs : List (List Dict)) (h : ∀ v ∈ vs, ∀ d ∈ v, Law d) :
    ∀ v ∈ vs, ∀ d ∈ v, alignLL vs % d.align = 0 := by
  induction vs with
  | nil => intro v hv; simp at hv
  | cons v0 vs ih =>
    intro v hv d hd
    have hp0 := alignL_pow2 v0 (h v0 (by simp))
    have hpl := alignLL_pow2 vs (fun x hx => h x (by simp [hx]))
    simp only [alignLL]
    rcases List.mem_cons.1 hv with rfl | hmem
    · exact mod_trans (Pow2.max_mod_left hp0 hpl) (alignL_mod v (h v (by simp)) d hd)
    · exact mod_trans (Pow2.max_mod_right hp0 hpl) (ih (fun x hx => h x (by simp [hx])) v hmem d hd)

theorem le_maxVarSize (vs : List (List Dict)) : ∀ v ∈ vs, ceilMul (foldSize v 0) (alignL v) ≤ maxVarSize vs := by
  induction vs with
  | nil => intro v hv; simp at hv
  | cons v0 vs ih =>
    intro v hv
    simp only [maxVarSize]
    rcases List.mem_cons.1 hv with rfl | hmem
    · exact Nat.le_max_left _ _
    · exact Nat.le_trans (ih v hmem) (Nat.le_max_right _ _)

theorem senum_law (tag : LenTy) (ht : tag.Law) (vs : List (List Dict))
    (hl : ∀ v ∈ vs, ∀ d ∈ v, Law d) (hs : ∀ v ∈ vs, AllSized v) : Law (senumD tag vs) := by
  have hpa : Pow2 (max tag.align (alignLL vs)) := Pow2.of_max ht.align_pow2 (alignLL_pow2 vs hl)
  have hapos := hpa.pos
  exact
  { align_pow2 := hpa
    sized_min := by intro n h; simp [senumD] at h ⊢; omega
    sized_mod := by
      intro n h; simp only [senumD, Option.some.injEq] at h ⊢; subst h; exact ceilMul_mod _ _
    noFault := by
      intro s hal hlen
      simp only [senumD] at hal hlen ⊢
      have hdo : tag.size ≤ ceilMul tag.size (max tag.align (alignLL vs)) := le_ceilMul hapos
      have hsz := le_ceilMul (x := ceilMul tag.size (max tag.align (alignLL vs)) + maxVarSize vs) hapos
      have htal : s.addr % tag.align = 0 := mod_trans hal (Pow2.max_mod_left ht.align_pow2 (alignLL_pow2 vs hl))
      obtain ⟨t, ht'⟩ := LenTy.readU_noFault tag s (by omega) htal
      simp only [ht', Res.bind_eq, Res.bind_ok]
      split
      · rename_i hlt
        have hdrop : ceilMul tag.size (max tag.align (alignLL vs)) ≤ s.len := by omega
        simp only [Slice.dropU, hdrop, if_true, Res.bind_ok, Res.offset_noFault]
        have hmem := getD_mem vs t [] hlt
        apply validateAll_noFault0 _ _ (fun d hd => (hl _ hmem d hd).toDNoFault) (allSized_butLast (hs _ hmem))
        · intro d hd
          simp only [Slice.addr_drop]
          apply add_mod_zero
          · exact mod_trans hal (mod_trans (Pow2.max_mod_right ht.align_pow2 (alignLL_pow2 vs hl)) (alignLL_mod vs hl _ hmem d hd))
          · exact mod_trans (ceilMul_mod _ _) (mod_trans (Pow2.max_mod_right ht.align_pow2 (alignLL_pow2 vs hl)) (alignLL_mod vs hl _ hmem d hd))
        · rw [minSizeL_eq_foldSize _ (hl _ hmem) (hs _ hmem)]
          have h1 := le_maxVarSize vs _ hmem
          have h2 := le_ceilMul (x := foldSize (vs.getD t []) 0) (alignL_pos (vs.getD t []))
          simp only [Slice.len_drop]; omega
      · simp }

/-! ### FlatVec -/
theorem vecElems_noFault (d : Dict) (hd : Law d) (sz : Nat) (hsz : d.sized = some sz) (dOff : Nat) (s : Slice)
    (hal : s.addr % d.align = 0) (hoff : dOff % d.align = 0) :
    ∀ k i, dOff + (i + k) * sz ≤ s.len → (vecElems d dOff s k i).NoFault := by
  intro k
  induction k with
  | zero => intro i _; simp [vecElems]
  | succ k ih =>
    intro i hlen
    have hss : d.ssize = sz := by simp [Dict.ssize, hsz]
    have e1 : (i + (k + 1)) * sz = i * sz + (k+1) * sz := Nat.add_mul _ _ _
    have e2 : (k+1) * sz = k * sz + sz := Nat.succ_mul _ _
    have h1 : dOff + i * sz ≤ s.len := by omega
    have h2 : sz ≤ s.len - (dOff + i * sz) := by omega
    simp only [vecElems, hss, Res.bind_eq, Slice.dropU, h1, if_true, Res.bind_ok, Slice.takeU, Slice.len_drop, h2]
    apply Res.noFault_bind
    · rw [Res.offset_noFault]
      apply hd.noFault
      · simp only [Slice.addr_take, Slice.addr_drop]
        exact add_mod_zero hal (add_mod_zero hoff (mul_mod_zero (hd.sized_mod sz hsz)))
      · rw [hd.sized_min sz hsz]; simp only [Slice.len_take, Slice.len_drop]; omega
    · intro _ _
      apply ih
      have : i + 1 + k = i + (k + 1) := by omega
      rw [this]; exact hlen

theorem vec_law (d : Dict) (hd : Law d) (sz : Nat) (hsz : d.sized = some sz) (l : LenTy) (hl : l.Law) :
    Law (vecD d l) :=
  { align_pow2 := Pow2.of_max hl.align_pow2 hd.align_pow2
    sized_min := by intro n h; simp [vecD] at h
    sized_mod := by intro n h; simp [vecD] at h
    noFault := by
      intro s hal hlen
      have hss : d.ssize = sz := by simp [Dict.ssize, hsz]
      simp only [vecD] at hal hlen ⊢
      have hlal : s.addr % l.align = 0 := mod_trans hal (Pow2.max_mod_left hl.align_pow2 hd.align_pow2)
      have hdal : s.addr % d.align = 0 := mod_trans hal (Pow2.max_mod_right hl.align_pow2 hd.align_pow2)
      obtain ⟨len, hlen'⟩ := LenTy.readU_noFault l s (by omega) hlal
      have hnl : ¬ s.len < max l.size d.align := by omega
      simp only [hlen', Res.bind_eq, Res.bind_ok, vecSlots, hnl, if_false, hss]
      by_cases hz : sz = 0
      · simp only [hz, if_true, Res.bind_ok]
        split
        · simp
        · simp
      · simp only [hz, if_false, Res.bind_ok]
        split
        · simp
        · rename_i hcap
          apply vecElems_noFault d hd sz hsz _ s hdal (Pow2.max_mod_right hl.size_pow2 hd.align_pow2)
          have h1 : len ≤ floorMul (s.len - max l.size d.align) (max l.align d.align) / sz := by omega
          have h2 : floorMul (s.len - max l.size d.align) (max l.align d.align) / sz * sz ≤ floorMul (s.len - max l.size d.align) (max l.align d.align) := Nat.div_mul_le_self _ _
          have h3 := floorMul_le (s.len - max l.size d.align) (max l.align d.align)
          have h4 : len * sz ≤ floorMul (s.len - max l.size d.align) (max l.align d.align) / sz * sz := Nat.mul_le_mul_right _ h1
          simp only [Nat.zero_add]; omega }

/-! ### FlatString -/
theorem str_law (l : LenTy) (hl : l.Law) : Law (strD l) :=
  { align_pow2 := hl.align_pow2
    sized_min := by intro n h; simp [strD] at h
    sized_mod := by intro n h; simp [strD] at h
    noFault := by
      intro s hal hlen
      simp only [strD] at hal hlen ⊢
      obtain ⟨len, hlen'⟩ := LenTy.readU_noFault l s hlen hal
      have hnl : ¬ s.len < l.size := by omega
      simp only [hlen', Res.bind_eq, Res.bind_ok, hnl, if_false]
      split
      · simp
      · split <;> simp }

/-! ### FlexVec -/
theorem flexValidate_noFault (d : Dict) (hd : Law d) (l : LenTy) (hl : l.Law) (os : Nat) (hos : l.size ≤ os) :
    ∀ fuel pos data, data.len < fuel → (flexValidate d l os fuel pos data).NoFault := by
  intro fuel
  induction fuel with
  | zero => intro _ _ h; omega
  | succ n ih =>
    intro pos data hlen
    unfold flexValidate
    split
    · simp
    cases hc : checkAlignMin l.align l.size data with
    | err e => simp
    | fault w => have := checkAlignMin_noFault l.align l.size data; rw [hc] at this; exact absurd this (by simp)
    | ok u =>
      have hcm := checkAlignMin_ok.1 hc
      obtain ⟨next, hnext⟩ := LenTy.readU_noFault l data hcm.2 hcm.1
      simp only [hnext]
      split
      · simp
      · split
        · simp
        · split
          · simp
          · rename_i hnz hgt hcond
            simp only [Bool.or_eq_true, decide_eq_true_eq, Bool.and_eq_true, Bool.not_eq_true', decide_eq_false_iff_not, not_or, not_and, Nat.not_lt] at hcond
            split
            · -- last item
              have h1 : os ≤ data.len := by omega
              simp only [Slice.splitAt, h1, if_true, Res.offset_noFault]
              exact hd.validate_noFault _
            · rename_i hlast
              have hge : os ≤ next := by
                have hlast' : next ≠ l.max := by simpa using hlast
                have := fun h => hgt ⟨hlast', h⟩
                omega
              have hnd : next ≤ data.len := by
                have := hcond.2
                by_cases hq : next = l.max
                · exact absurd hq hlast
                · have := this (by simpa using hq); omega
              simp only [Slice.splitAt, hnd, if_true]
              have h2 : os ≤ (data.take next).len := by simp only [Slice.len_take]; omega
              simp only [h2, if_true]
              have hv := hd.validate_noFault ((data.take next).drop os)
              cases hvv : (d.validate ((data.take next).drop os)) with
              | fault w => rw [hvv] at hv; exact absurd hv (by simp)
              | err e => simp
              | ok u =>
                simp only [Res.offset_ok]
                apply ih
                have : 0 < l.size := hl.size_pow2.pos
                simp only [Slice.len_drop]; omega

theorem flex_law (d : Dict) (hd : Law d) (l : LenTy) (hl : l.Law) : Law (flexD d l) :=
  { align_pow2 := Pow2.of_max hl.align_pow2 hd.align_pow2
    sized_min := by intro n h; simp [flexD] at h
    sized_mod := by intro n h; simp [flexD] at h
    noFault := by
      intro s _ _
      simp only [flexD]
      apply flexValidate_noFault d hd l hl _ (Nat.le_max_left _ _)
      have := floorMul_le s.len (max l.align d.align)
      simp only [Slice.len_take]; omega }

/-! ### unsized struct -/
theorem allSizedButLast_append (ds : List Dict) (last : Dict) (h : AllSized ds) : AllSizedButLast (ds ++ [last]) := by
  induction ds with
  | nil => trivial
  | cons d ds ih =>
    have ih' := ih (fun x hx => h x (by simp [hx]))
    cases ds with
    | nil => exact ⟨h d (by simp), trivial⟩
    | cons d' ds' => exact ⟨h d (by simp), ih'⟩

theorem ustruct_law (ds : List Dict) (last : Dict) (hl : ∀ d ∈ ds, Law d) (hs : AllSized ds) (hlast : Law last)
    (hlu : last.sized = none) : Law (ustructD ds last) := by
  have hall : ∀ d ∈ ds ++ [last], Law d := by
    intro d hd
    rcases List.mem_append.1 hd with h | h
    · exact hl d h
    · simp at h; subst h; exact hlast
  exact
  { align_pow2 := alignL_pow2 _ hall
    sized_min := by intro n h; simp [ustructD] at h
    sized_mod := by intro n h; simp [ustructD] at h
    noFault := by
      intro s hal hlen
      simp only [ustructD] at hal hlen ⊢
      have hapos := alignL_pos (ds ++ [last])
      apply validateAll_noFault0 _ _ (fun d hd => (hall d hd).toDNoFault) (allSizedButLast_append ds last hs)
      · intro d hd; exact mod_trans hal (alignL_mod _ hall d hd)
      · have h1 := le_ceilMul (x := minSizeL (ds ++ [last]) 0) hapos
        have h2 := floorMul_greatest hapos (ceilMul_mod (minSizeL (ds ++ [last]) 0) (alignL (ds ++ [last]))) hlen
        have h3 := floorMul_le s.len (alignL (ds ++ [last]))
        simp only [Slice.len_take]; omega }

/-! ### unsized enum -/
theorem uenum_law (tag : LenTy) (ht : tag.Law) (vs : List (List Dict))
    (hl : ∀ v ∈ vs, ∀ d ∈ v, Law d) (hs : ∀ v ∈ vs, AllSizedButLast v) : Law (uenumD tag vs) := by
  have hpa : Pow2 (max tag.align (alignLL vs)) := Pow2.of_max ht.align_pow2 (alignLL_pow2 vs hl)
  have hapos := hpa.pos
  exact
  { align_pow2 := hpa
    sized_min := by intro n h; simp [uenumD] at h
    sized_mod := by intro n h; simp [uenumD] at h
    noFault := by
      intro s hal hlen
      simp only [uenumD] at hal hlen ⊢
      have hdo : tag.size ≤ ceilMul tag.size (max tag.align (alignLL vs)) := le_ceilMul hapos
      have hsz := le_ceilMul (x := ceilMul tag.size (max tag.align (alignLL vs)) + minList (vs.map varMinSize)) hapos
      have htal : s.addr % tag.align = 0 := mod_trans hal (Pow2.max_mod_left ht.align_pow2 (alignLL_pow2 vs hl))
      obtain ⟨t, ht'⟩ := LenTy.readU_noFault tag s (by omega) htal
      simp only [ht', Res.bind_eq, Res.bind_ok]
      split
      · rename_i hlt
        have hdrop : ceilMul tag.size (max tag.align (alignLL vs)) ≤ s.len := by omega
        simp only [Slice.dropU, hdrop, if_true, Res.bind_ok]
        split
        · simp
        · rename_i hmin
          rw [Res.offset_noFault]
          have hmem := getD_mem vs t [] hlt
          cases hv : vs.getD t [] with
          | nil => simp [validateAll]
          | cons d0 v0 =>
            rw [hv] at hmem hmin
            apply validateAll_noFault0 _ _ (fun d hd => (hl _ hmem d hd).toDNoFault) (hs _ hmem)
            · intro d hd
              simp only [Slice.addr_take, Slice.addr_drop]
              apply add_mod_zero
              · exact mod_trans hal (mod_trans (Pow2.max_mod_right ht.align_pow2 (alignLL_pow2 vs hl)) (alignLL_mod vs hl _ hmem d hd))
              · exact mod_trans (ceilMul_mod _ _) (mod_trans (Pow2.max_mod_right ht.align_pow2 (alignLL_pow2 vs hl)) (alignLL_mod vs hl _ hmem d hd))
            · simp only [varMinSize, List.isEmpty_cons, Bool.false_eq_true, if_false] at hmin
              omega
      · simp }
end FV
