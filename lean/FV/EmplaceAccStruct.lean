import FV.EmplaceAcc
/-! Acceptance pass: generated `Init` structs and enums (the last field's emplacer decides). -/
namespace FV

/-- something fits below the floor of `N` iff its ceiling fits below `N` -/
theorem le_floor_iff_ceil_le {x N m : Nat} (hm : 0 < m) : x ≤ floorMul N m ↔ ceilMul x m ≤ N := by
  constructor
  · intro h
    exact Nat.le_trans (ceilMul_least hm (floorMul_mod N m) h) (floorMul_le N m)
  · intro h
    exact Nat.le_trans (le_ceilMul hm) (floorMul_greatest hm (ceilMul_mod x m) h)

/-- what `emplace_unchecked` of a generated struct initialiser computes -/
theorem ustruct_shape (fs : List Ty) (last : Ty) (vals : List Bytes) (li : Init)
    (hl : ∀ d ∈ dictL fs, Law d) (hs : AllSized (dictL fs)) (hlast : Law last.dict)
    (hv : ValsOk (dictL fs) vals) (hrec : EmpSpec last li) (addr : Nat) (bytes : Bytes)
    (hal : addr % alignL (dictL fs ++ [last.dict]) = 0)
    (hlen : ceilMul (minSizeL (dictL fs ++ [last.dict]) 0) (alignL (dictL fs ++ [last.dict])) ≤ bytes.length) :
    ∃ (b1 : Bytes) (o : EO), b1.length = floorMul bytes.length (alignL (dictL fs ++ [last.dict])) ∧
      ceilMul (foldSize (dictL fs) 0) last.dict.align + last.dict.minSize ≤ floorMul bytes.length (alignL (dictL fs ++ [last.dict])) ∧
      (addr + ceilMul (foldSize (dictL fs) 0) last.dict.align) % last.dict.align = 0 ∧
      emplaceU last li ⟨addr + ceilMul (foldSize (dictL fs) 0) last.dict.align, b1.drop (ceilMul (foldSize (dictL fs) 0) last.dict.align)⟩ = .ok o ∧
      o.bytes.length = floorMul bytes.length (alignL (dictL fs ++ [last.dict])) - ceilMul (foldSize (dictL fs) 0) last.dict.align ∧
      (∀ (i : Nat) (d : Dict) (v : Bytes) (P : Nat), (dictL fs)[i]? = some d → vals[i]? = some v → (posList (dictL fs) 0)[i]? = some P →
        (b1.drop P).take d.ssize = v) ∧
      emplaceU (.ustruct fs last) (.ustruct vals li) ⟨addr, bytes⟩ =
        .ok ⟨b1.take (ceilMul (foldSize (dictL fs) 0) last.dict.align) ++ o.bytes ++
          bytes.drop (floorMul bytes.length (alignL (dictL fs ++ [last.dict]))), o.res⟩ := by
  have hlaw : ∀ d ∈ dictL fs ++ [last.dict], Law d := by
    intro d hd; simp only [List.mem_append, List.mem_singleton] at hd
    rcases hd with h | rfl
    · exact hl d h
    · exact hlast
  have hposd : ∀ d ∈ dictL fs, 0 < d.align := fun d hd => (hl d hd).align_pow2.pos
  have hapos := alignL_pos (dictL fs ++ [last.dict])
  have hms := minSizeL_append (dictL fs) last.dict hl hs 0
  have h1 := le_ceilMul (x := minSizeL (dictL fs ++ [last.dict]) 0) hapos
  have h2 := floorMul_greatest hapos (ceilMul_mod (minSizeL (dictL fs ++ [last.dict]) 0) (alignL (dictL fs ++ [last.dict]))) hlen
  have h3 := floorMul_le bytes.length (alignL (dictL fs ++ [last.dict]))
  have hlamod : alignL (dictL fs ++ [last.dict]) % last.dict.align = 0 := alignL_mod _ hlaw last.dict (by simp)
  have hlfomod := ceilMul_mod (foldSize (dictL fs) 0) last.dict.align
  have h4 := le_ceilMul (x := foldSize (dictL fs) 0) hlast.align_pow2.pos
  simp only [emplaceU, Slice.len, Slice.take]
  generalize hal_def : alignL (dictL fs ++ [last.dict]) = al at *
  generalize hn_def : floorMul bytes.length al = n at *
  generalize hlfo_def : ceilMul (foldSize (dictL fs) 0) last.dict.align = lfo at *
  have hn : (bytes.take n).length = n := by simp only [List.length_take]; omega
  obtain ⟨b1, hb1, hb1l, _, _, hel⟩ := writeFields_spec (dictL fs) vals 0 (bytes.take n)
    hposd (headAligned_zero _) hv.1 hv.len (by rw [hn]; omega)
  rw [hn] at hb1l
  have hw : (if (dictL fs).isEmpty then Res.ok (bytes.take n) else writeFields (dictL fs) vals 0 (bytes.take n)) = .ok b1 := by
    cases hds : dictL fs with
    | nil => rw [hds] at hb1; simpa [writeFields] using hb1
    | cons d ds => rw [hds] at hb1; simpa using hb1
  have hslot : (addr + lfo) % last.dict.align = 0 := add_mod_zero (mod_trans hal hlamod) hlfomod
  obtain ⟨o, ho, hok⟩ := hrec ⟨addr + lfo, b1.drop lfo⟩ hslot (by simp only [Slice.len, List.length_drop]; omega)
  have hol : o.bytes.length = n - lfo := by
    have := hok.len; simpa [Slice.len, hb1l] using this
  have hck : checkAlignMin al (minSizeL (dictL fs ++ [last.dict]) 0) ⟨addr, bytes.take n⟩ = .ok () := by
    rw [checkAlignMin_ok]; exact ⟨hal, by simp only [Slice.len]; rw [hn]; omega⟩
  exact ⟨b1, o, hb1l, by omega, hslot, ho, hol, hel, by simp only [hck, hw, Res.bind_ok, ho]⟩

theorem acc_ustruct (fs : List Ty) (last : Ty) (vals : List Bytes) (li : Init)
    (hl : ∀ d ∈ dictL fs, Law d) (hs : AllSized (dictL fs)) (hlast : Law last.dict)
    (hv : ValsOk (dictL fs) vals) (hrec : EmpSpec last li) (hacc : EmpAcc last li) :
    EmpAcc (.ustruct fs last) (.ustruct vals li) := by
  intro s hal hlen o ho
  obtain ⟨addr, bytes⟩ := s
  simp only [Ty.dict, ustructD, Slice.len] at hal hlen
  obtain ⟨b1, ol, hb1l, hroom, hslot, hol, holl, _, hcomp⟩ := ustruct_shape fs last vals li hl hs hlast hv hrec addr bytes hal hlen
  rw [hcomp] at ho
  simp only [Res.ok.injEq] at ho
  subst ho
  have hapos := alignL_pos (dictL fs ++ [last.dict])
  have h3 := floorMul_le bytes.length (alignL (dictL fs ++ [last.dict]))
  obtain ⟨hiff, hsize⟩ := hacc _ hslot (by simp only [Slice.len, List.length_drop, hb1l]; omega) ol hol
  simp only [Slice.len, List.length_drop, hb1l] at hiff
  simp only [Rep, sizeSpec, Slice.len]
  generalize hal_def : alignL (dictL fs ++ [last.dict]) = al at *
  generalize hn_def : floorMul bytes.length al = n at *
  generalize hlfo_def : ceilMul (foldSize (dictL fs) 0) last.dict.align = lfo at *
  have hkey : sizeSpec last li ≤ n - lfo ↔ ceilMul (lfo + sizeSpec last li) al ≤ bytes.length := by
    rw [← le_floor_iff_ceil_le hapos, hn_def]; omega
  refine ⟨by rw [hiff, hkey], fun hres => ?_⟩
  have hz := hsize hres
  have hRl : (b1.take lfo ++ ol.bytes ++ bytes.drop n).length = bytes.length := by
    simp only [List.length_append, List.length_take, List.length_drop, holl, hb1l]; omega
  show (ustructD (dictL fs) last.dict).size ⟨addr, b1.take lfo ++ ol.bytes ++ bytes.drop n⟩ = _
  have hlfo_le : lfo ≤ List.length (Slice.take ⟨addr, b1.take lfo ++ ol.bytes ++ bytes.drop n⟩ n).bytes := by
    simp only [Slice.take, List.length_take, hRl]; omega
  simp only at hz
  have hdrop : ((⟨addr, b1.take lfo ++ ol.bytes ++ bytes.drop n⟩ : Slice).take n).drop lfo = ⟨addr + lfo, ol.bytes⟩ := by
    simp only [Slice.take, Slice.drop, Slice.mk.injEq, true_and]
    rw [List.take_left' (by simp only [List.length_append, List.length_take, holl, hb1l]; omega),
      List.drop_left' (by simp only [List.length_take, hb1l]; omega)]
  simp only [ustructD, Slice.len, hRl, hal_def, hn_def, hlfo_def, Res.bind_eq, Slice.dropU, hlfo_le, if_true, Res.bind_ok, hdrop, hz,
    Res.pure_eq]
end FV
