import FV.IoSendSeq
import FV.IoRecv
import FV.IoAsync
import FV.IoAsyncRecv
/-! The kind of an `io::Error` (C09: "fail with any `io::ErrorKind`"). The scripts carry the kind of every failing pipe call;
the code never inspects it, so (1) the error a send / recv returns is the error of the first failing pipe call, with only
successful calls before it, and (2) *kind-blindness*: renaming the kinds in the script renames them in the results and changes
nothing else — position, poisoning, bytes in the sink, buffer window, number of calls. A special case for one kind
(`Interrupted` treated as "nothing happened", say) falsifies (2). -/
namespace FV

def WriteEv.mapKind (f : Nat → Nat) : WriteEv → WriteEv
  | .fail k => .fail (f k)
  | .accept n => .accept n
  | .zero => .zero
def SendOut.mapKind (f : Nat → Nat) : SendOut → SendOut
  | .err k => .err (f k)
  | .done => .done
  | .brokenPipe => .brokenPipe
  | .blocked => .blocked
def SendRes.mapKind (f : Nat → Nat) (r : SendRes) : SendRes :=
  ⟨r.out.mapKind f, r.poisoned, r.sink, r.evs.map (WriteEv.mapKind f), r.used⟩

/-- **Kind-blindness of the blocking sender.** -/
theorem writeAll_kind_blind (f : Nat → Nat) (msg : Bytes) : ∀ (evs : List WriteEv) (pos : Nat) (sink : Bytes) (used : Nat),
    writeAll msg (evs.map (WriteEv.mapKind f)) pos sink used = (writeAll msg evs pos sink used).mapKind f := by
  intro evs
  induction evs with
  | nil =>
    intro pos sink used
    unfold writeAll
    split <;> simp [SendRes.mapKind, SendOut.mapKind]
  | cons ev evs ih =>
    intro pos sink used
    rw [List.map_cons]
    unfold writeAll
    split
    · simp [SendRes.mapKind, SendOut.mapKind]
    · cases ev with
      | zero => simp [WriteEv.mapKind, SendRes.mapKind, SendOut.mapKind]
      | fail k => simp [WriteEv.mapKind, SendRes.mapKind, SendOut.mapKind]
      | accept n =>
        simp only [WriteEv.mapKind]
        split
        · simp [SendRes.mapKind, SendOut.mapKind]
        · exact ih _ _ _

/-- **The error a send returns is the error of the first failing write**: every earlier call of this send accepted at
least one byte, and the script continues right after the failing call. -/
theorem writeAll_err_is_first_failure (msg : Bytes) : ∀ (evs : List WriteEv) (pos : Nat) (sink : Bytes) (used k : Nat),
    (writeAll msg evs pos sink used).out = .err k →
      ∃ pre, evs = pre ++ .fail k :: (writeAll msg evs pos sink used).evs ∧ (∀ e ∈ pre, ∃ n, e = .accept n ∧ 0 < n) ∧
        (writeAll msg evs pos sink used).used = used + pre.length + 1 := by
  intro evs
  induction evs with
  | nil =>
    intro pos sink used k h
    unfold writeAll at h
    split at h <;> simp at h
  | cons ev evs ih =>
    intro pos sink used k h
    unfold writeAll at h ⊢
    split at h
    · simp at h
    · rename_i hlt
      simp only [hlt, if_false]
      cases ev with
      | zero => simp at h
      | fail k' =>
        simp only [SendOut.err.injEq] at h
        subst h
        exact ⟨[], by simp, by simp, by simp⟩
      | accept n =>
        simp only at h ⊢
        split at h
        · simp at h
        · rename_i hn
          simp only [hn, if_false]
          obtain ⟨pre, h1, h2, h3⟩ := ih _ _ _ k h
          refine ⟨.accept n :: pre, ?_, ?_, ?_⟩
          · simp only [List.cons_append, List.cons.injEq, true_and]; exact h1
          · intro e he
            rcases List.mem_cons.mp he with rfl | he
            · exact ⟨n, rfl, by omega⟩
            · exact h2 e he
          · rw [h3]; simp only [List.length_cons]; omega

def ReadEv.mapKind (f : Nat → Nat) : ReadEv → ReadEv
  | .fail k => .fail (f k)
  | .deliver n => .deliver n
def RecvOut.mapKind (f : Nat → Nat) : RecvOut → RecvOut
  | .readErr k => .readErr (f k)
  | .msg b => .msg b
  | .parse e => .parse e
  | .oom => .oom
  | .closed => .closed
  | .blocked => .blocked
  | .fault => .fault
def mapRecv (f : Nat → Nat) (r : RecvOut × RBuf × Bytes × List ReadEv) : RecvOut × RBuf × Bytes × List ReadEv :=
  (r.1.mapKind f, r.2.1, r.2.2.1, r.2.2.2.map (ReadEv.mapKind f))

def ReadRes.mapKind (f : Nat → Nat) : ReadRes → ReadRes
  | .err b k => .err b (f k)
  | .got b r n => .got b r n
  | .oom => .oom

theorem readStep_kind_blind (f : Nat → Nat) (b : RBuf) (ev : ReadEv) (rest : Bytes) :
    readStep b (ev.mapKind f) rest = (readStep b ev rest).mapKind f := by
  unfold readStep
  split
  · rfl
  · cases ev <;> rfl

/-- **Kind-blindness of the blocking receiver**: the window, the bytes still in the pipe, the number of reads and the outcome are
the same whatever kinds the failing reads carry; a returned read error carries the renamed kind. -/
theorem recv_kind_blind (f : Nat → Nat) (d : Dict) : ∀ (evs : List ReadEv) (b : RBuf) (rest : Bytes),
    recv d (evs.map (ReadEv.mapKind f)) b rest = mapRecv f (recv d evs b rest) := by
  intro evs
  induction evs with
  | nil =>
    intro b rest
    unfold recv
    cases hv : d.validate b.slice with
    | ok u => simp [mapRecv, RecvOut.mapKind]
    | fault x => simp [mapRecv, RecvOut.mapKind]
    | err e =>
      simp only [List.map_nil]
      split <;> simp [mapRecv, RecvOut.mapKind]
  | cons ev evs ih =>
    intro b rest
    rw [List.map_cons]
    unfold recv
    cases hv : d.validate b.slice with
    | ok u => simp [mapRecv, RecvOut.mapKind, ReadEv.mapKind]
    | fault x => simp [mapRecv, RecvOut.mapKind]
    | err e =>
      simp only
      split
      · simp [mapRecv, RecvOut.mapKind]
      · rw [readStep_kind_blind]
        cases hs : readStep b ev rest with
        | oom => simp [ReadRes.mapKind, mapRecv, RecvOut.mapKind]
        | err b1 k => simp [ReadRes.mapKind, mapRecv, RecvOut.mapKind]
        | got b1 rest1 n =>
          simp only [ReadRes.mapKind]
          split
          · simp [mapRecv, RecvOut.mapKind]
          · exact ih _ _

theorem readStep_err_inv {b b1 : RBuf} {ev : ReadEv} {rest : Bytes} {k : Nat} (h : readStep b ev rest = .err b1 k) :
    ev = .fail k := by
  unfold readStep at h
  split at h
  · cases h
  · cases ev with
    | fail k' => simp only [ReadRes.err.injEq] at h; rw [h.2]
    | deliver c => cases h

theorem readStep_got_inv {b b1 : RBuf} {ev : ReadEv} {rest rest1 : Bytes} {n : Nat} (h : readStep b ev rest = .got b1 rest1 n) :
    ∃ c, ev = .deliver c := by
  unfold readStep at h
  split at h
  · cases h
  · cases ev with
    | fail k' => cases h
    | deliver c => exact ⟨c, rfl⟩

/-- **A read error returned by `recv` is the error of the failing read**, every earlier read of this call delivered bytes, and the
script continues right after it. -/
theorem recv_err_is_pipes_error (d : Dict) : ∀ (evs : List ReadEv) (b : RBuf) (rest : Bytes) (k : Nat) (b' : RBuf) (rest' : Bytes)
    (evs' : List ReadEv), recv d evs b rest = (.readErr k, b', rest', evs') →
      ∃ pre, evs = pre ++ .fail k :: evs' ∧ ∀ e ∈ pre, ∃ c, e = .deliver c := by
  intro evs
  induction evs with
  | nil =>
    intro b rest k b' rest' evs' h
    unfold recv at h
    cases hv : d.validate b.slice with
    | ok u => simp [hv] at h
    | fault x => simp [hv] at h
    | err e =>
      simp only [hv] at h
      split at h <;> simp at h
  | cons ev evs ih =>
    intro b rest k b' rest' evs' h
    unfold recv at h
    cases hv : d.validate b.slice with
    | ok u => simp [hv] at h
    | fault x => simp [hv] at h
    | err e =>
      simp only [hv] at h
      split at h
      · simp at h
      · cases hs : readStep b ev rest with
        | oom => simp [hs] at h
        | err b1 k' =>
          simp only [hs, Prod.mk.injEq, RecvOut.readErr.injEq] at h
          obtain ⟨hk, _, _, he⟩ := h
          subst hk; subst he
          exact ⟨[], by simp [readStep_err_inv hs], by simp⟩
        | got b1 rest1 n =>
          simp only [hs] at h
          obtain ⟨c, hc⟩ := readStep_got_inv hs
          split at h
          · simp at h
          · obtain ⟨pre, h1, h2⟩ := ih _ _ k b' rest' evs' h
            refine ⟨ev :: pre, by simp [h1], ?_⟩
            intro e he
            rcases List.mem_cons.mp he with rfl | he
            · exact ⟨c, hc⟩
            · exact h2 e he

def AEv.mapKind (f : Nat → Nat) : AEv → AEv
  | .err k => .err (f k)
  | .ok n => .ok n
  | .pending => .pending
def APoll.mapKind (f : Nat → Nat) : APoll → APoll
  | .err k => .err (f k)
  | .flushErr k => .flushErr (f k)
  | .pending => .pending
  | .done => .done
  | .brokenPipe => .brokenPipe
  | .blocked => .blocked

/-- **Kind-blindness of `WriteAll::poll`** (one poll of the async sender, `poll_write` and `poll_flush` errors alike). -/
theorem apoll_kind_blind (f : Nat → Nat) (msg : Bytes) : ∀ (evs : List AEv) (st : AState),
    apoll msg (evs.map (AEv.mapKind f)) st =
      ((apoll msg evs st).1.mapKind f, (apoll msg evs st).2.1, (apoll msg evs st).2.2.map (AEv.mapKind f)) := by
  intro evs
  induction evs with
  | nil =>
    intro st
    unfold apoll
    split <;> simp [APoll.mapKind]
  | cons ev evs ih =>
    intro st
    rw [List.map_cons]
    unfold apoll
    split
    · cases ev <;> simp [AEv.mapKind, APoll.mapKind]
    · cases ev with
      | pending => simp [AEv.mapKind, APoll.mapKind]
      | err k => simp [AEv.mapKind, APoll.mapKind]
      | ok n =>
        simp only [AEv.mapKind]
        split
        · simp [APoll.mapKind]
        · exact ih _
end FV
#print axioms FV.writeAll_kind_blind
#print axioms FV.writeAll_err_is_first_failure
#print axioms FV.recv_kind_blind
#print axioms FV.recv_err_is_pipes_error
#print axioms FV.apoll_kind_blind
