import FV.IoSendSeq
import FV.IoRecv
import FV.IoAsync
import FV.IoAsyncRecv
/-! The kind of an `io::Error` (C09: "fail with any `io::ErrorKind`"). The scripts carry the kind of every failing pipe call;
the code never inspects it, so (1) the error a send / recv returns is the error of the first failing pipe call, with only
successful calls before it, and (2) *kind-blindness*: renaming the kinds in the script renames them in the results and changes
nothing else — position, poisoning, bytes in the sink, buffer window, number of calls. A special case for one kind
(`Interrupted` treated as "nothing happened", say) falsifies (2). -/
namespace FV

def WriteEv.mapKind (f : Nat → Nat) : WriteEv → WriteEv
  | .fail k => .fail (f k)
  | .accept n => .accept n
  | .zero => .zero
def SendOut.mapKind (f : Nat → Nat) : SendOut → SendOut
  | .err k => .err (f k)
  | .done => .done
  | .brokenPipe => .brokenPipe
  | .blocked => .blocked
def SendRes.mapKind (f : Nat → Nat) (r : SendRes) : SendRes :=
  ⟨r.out.mapKind f, r.poisoned, r.sink, r.evs.map (WriteEv.mapKind f), r.used⟩

/-- **Kind-blindness of the blocking sender.** -/
theorem writeAll_kind_blind (f : Nat → Nat) (msg : Bytes) : ∀ (evs : List WriteEv) (pos : Nat) (sink : Bytes) (used : Nat),
    writeAll msg (evs.map (WriteEv.mapKind f)) pos sink used = (writeAll msg evs pos sink used).mapKind f := by
  intro evs
  induction evs with
  | nil =>
    intro pos sink used
    unfold writeAll
    split <;> simp [SendRes.mapKind, SendOut.mapKind]
  | cons ev evs ih =>
    intro pos sink used
    rw [List.map_cons]
    unfold writeAll
    split
    · simp [SendRes.mapKind, SendOut.mapKind]
    · cases ev with
      | zero => simp [WriteEv.mapKind, SendRes.mapKind, SendOut.mapKind]
      | fail k => simp [WriteEv.mapKind, SendRes.mapKind, SendOut.mapKind]
      | accept n =>
        simp only [WriteEv.mapKind]
        split
        · simp [SendRes.mapKind, SendOut.mapKind]
        · exact ih _ _ _

/-- **The error a send returns is the error of the first failing write**: every earlier call of this send accepted at
least one byte, and the script continues right after the failing call. -/
theorem writeAll_err_is_first_failure (msg : Bytes) : ∀ (evs : List WriteEv) (pos : Nat) (sink : Bytes) (used k : Nat),
    (writeAll msg evs pos sink used).out = .err k →
      ∃ pre, evs = pre ++ .fail k :: (writeAll msg evs pos sink used).evs ∧ (∀ e ∈ pre, ∃ n, e = .accept n ∧ 0 < n) ∧
        (writeAll msg evs pos sink used).used = used + pre.length + 1 := by
  intro evs
  induction evs with
  | nil =>
    intro pos sink used k h
    unfold writeAll at h
    split at h <;> simp at h
  | cons ev evs ih =>
    intro pos sink used k h
    unfold writeAll at h ⊢
    split at h
    · simp at h
    · rename_i hlt
      simp only [hlt, if_false]
      cases ev with
      | zero => simp at h
      | fail k' =>
        simp only [SendOut.err.injEq] at h
        subst h
        exact ⟨[], by simp, by simp, by simp⟩
      | accept n =>
        simp only at h ⊢
        split at h
        · simp at h
        · rename_i hn
          simp only [hn, if_false]
          obtain ⟨pre, h1, h2, h3⟩ := ih _ _ _ k h
          refine ⟨.accept n :: pre, ?_, ?_, ?_⟩
          · simp only [List.cons_append, List.cons.injEq, true_and]; exact h1
          · intro e he
            rcases List.mem_cons.mp he with rfl | he
            · exact ⟨n, rfl, by omega⟩
            · exact h2 e he
          · rw [h3]; simp only [List.length_cons]; omega

/-! ### every failing outcome surfaces, once -/
def WriteEv.isFault : WriteEv → Bool
  | .accept 0 => true
  | .accept (_ + 1) => false
  | .zero => true
  | .fail _ => true

def faults (l : List WriteEv) : Nat := (l.filter WriteEv.isFault).length
def countFailed (rs : List SendR) : Nat := (rs.filter (· = SendR.failed)).length

theorem faults_append (a b : List WriteEv) : faults (a ++ b) = faults a + faults b := by simp [faults]
theorem faults_of_clean (l : List WriteEv) (h : ∀ e ∈ l, e.isFault = false) : faults l = 0 := by
  simp only [faults, List.length_eq_zero_iff, List.filter_eq_nil_iff]
  intro e he; rw [h e he]; simp

/-- **The script one send consumes**: successful writes, then — unless the send completed or the script ran out — exactly one
failing outcome (`Ok(0)` or an error), which ends the call. -/
theorem writeAll_consumed (msg : Bytes) : ∀ (evs : List WriteEv) (pos : Nat) (sink : Bytes) (used : Nat),
    ∃ pre, (∀ e ∈ pre, e.isFault = false) ∧
      (((writeAll msg evs pos sink used).out = .done ∨ (writeAll msg evs pos sink used).out = .blocked) ∧
          evs = pre ++ (writeAll msg evs pos sink used).evs ∨
       (∃ b, b.isFault = true ∧ evs = pre ++ b :: (writeAll msg evs pos sink used).evs ∧
          ((writeAll msg evs pos sink used).out = .brokenPipe ∨ ∃ k, (writeAll msg evs pos sink used).out = .err k))) := by
  intro evs
  induction evs with
  | nil =>
    intro pos sink used
    unfold writeAll
    split
    · exact ⟨[], by simp, Or.inl ⟨Or.inl rfl, rfl⟩⟩
    · exact ⟨[], by simp, Or.inl ⟨Or.inr rfl, rfl⟩⟩
  | cons ev evs ih =>
    intro pos sink used
    unfold writeAll
    split
    · exact ⟨[], by simp, Or.inl ⟨Or.inl rfl, rfl⟩⟩
    · cases ev with
      | zero => exact ⟨[], by simp, Or.inr ⟨.zero, rfl, rfl, Or.inl rfl⟩⟩
      | fail k => exact ⟨[], by simp, Or.inr ⟨.fail k, rfl, rfl, Or.inr ⟨k, rfl⟩⟩⟩
      | accept n =>
        simp only
        split
        · rename_i hn; subst hn
          exact ⟨[], by simp, Or.inr ⟨.accept 0, rfl, rfl, Or.inl rfl⟩⟩
        · rename_i hn
          obtain ⟨pre, hpre, hcase⟩ := ih (pos + min n (msg.length - pos)) (sink ++ (msg.drop pos).take (min n (msg.length - pos))) (used + 1)
          have hclean : (WriteEv.accept n).isFault = false := by
            cases n with
            | zero => exact absurd rfl hn
            | succ m => rfl
          refine ⟨.accept n :: pre, ?_, ?_⟩
          · intro e he
            rcases List.mem_cons.mp he with rfl | he
            · exact hclean
            · exact hpre e he
          · rcases hcase with ⟨ho, he⟩ | ⟨b, hb, he, ho⟩
            · exact Or.inl ⟨ho, by rw [List.cons_append, ← he]⟩
            · exact Or.inr ⟨b, hb, by rw [List.cons_append, ← he], ho⟩

theorem countFailed_cons (r : SendR) (rs : List SendR) :
    countFailed (r :: rs) = countFailed rs + (if r = .failed then 1 else 0) := by
  cases r <;> simp [countFailed]
theorem countFailed_refused (ms : List Bytes) : countFailed (ms.map fun _ => SendR.refused) = 0 := by
  induction ms with
  | nil => rfl
  | cons m ms ih => simp [countFailed_cons, ih]
theorem faults_cons (b : WriteEv) (l : List WriteEv) : faults (b :: l) = faults l + (if b.isFault then 1 else 0) := by
  cases hb : b.isFault <;> simp [faults, hb]

/-- one step of a session, in terms of the result record of the send -/
theorem sendSeq_cons (m : Bytes) (ms : List Bytes) (st : SeqSt) (hp : st.poisoned = false) (r : SendRes)
    (hr : writeAll m st.evs 0 st.sink 0 = r) :
    sendSeq (m :: ms) st =
      if r.out = .blocked then ([.failed], ⟨r.sink, r.poisoned, r.evs⟩)
      else ((if r.out = .done then SendR.ok else .failed) :: (sendSeq ms ⟨r.sink, r.poisoned, r.evs⟩).1,
            (sendSeq ms ⟨r.sink, r.poisoned, r.evs⟩).2) := by
  subst hr
  simp only [sendSeq, hp, Bool.false_eq_true, if_false]

/-- **C09: no failing outcome is swallowed, none is invented.** Over any sequence of sends from an unpoisoned sender and any
script: the part of the script the session consumed contains exactly as many failing outcomes (`Ok(0)`, errors of any kind) as sends
reported an error — plus at most one for a send that never returned because the script ran out. In particular a failing outcome is
never retried silently. -/
theorem sendSeq_faults_surface : ∀ (ms : List Bytes) (st : SeqSt), st.poisoned = false →
    ∃ consumed, st.evs = consumed ++ (sendSeq ms st).2.evs ∧
      faults consumed ≤ countFailed (sendSeq ms st).1 ∧ countFailed (sendSeq ms st).1 ≤ faults consumed + 1 := by
  intro ms
  induction ms with
  | nil => intro st _; exact ⟨[], by simp [sendSeq], by simp [faults, countFailed, sendSeq], by simp [faults, countFailed, sendSeq]⟩
  | cons m ms ih =>
    intro st hp
    obtain ⟨pre, hpre, hcase⟩ := writeAll_consumed m st.evs 0 st.sink 0
    have hspec := writeAll_spec m st.evs 0 st.sink 0 (by omega)
    simp only [List.take_zero, List.append_nil] at hspec
    obtain ⟨j, _, _, _, hdone, _, _, _⟩ := hspec
    generalize hr : writeAll m st.evs 0 st.sink 0 = r at hcase hdone
    rw [sendSeq_cons m ms st hp r hr]
    have hz := faults_of_clean pre hpre
    by_cases hb : r.out = .blocked
    · rw [if_pos hb]
      rcases hcase with ⟨_, he⟩ | ⟨b, _, _, ho⟩
      · exact ⟨pre, he, by rw [hz]; exact Nat.zero_le _, by simp [countFailed]⟩
      · rw [hb] at ho; rcases ho with ho | ⟨k, ho⟩ <;> cases ho
    · rw [if_neg hb]
      by_cases hq : r.poisoned = true
      · -- poisoned: every later send is refused and consumes nothing
        have hrest := sendSeq_poisoned ms ⟨r.sink, r.poisoned, r.evs⟩ hq
        have hnd : r.out ≠ .done := by
          intro hd; rw [(hdone hd).2] at hq; cases hq
        rcases hcase with ⟨ho, _⟩ | ⟨b, hbf, he, _⟩
        · rcases ho with ho | ho
          · exact absurd ho hnd
          · exact absurd ho hb
        · refine ⟨pre ++ [b], ?_, ?_, ?_⟩
          · rw [hrest.2]; simp [he]
          · rw [hrest.1, countFailed_cons, countFailed_refused, faults_append, hz, faults_cons, hbf]; simp [hnd, faults]
          · rw [hrest.1, countFailed_cons, countFailed_refused, faults_append, hz, faults_cons, hbf]; simp [hnd, faults]
      · have hq' : r.poisoned = false := by
          cases h : r.poisoned with
          | false => rfl
          | true => exact absurd h hq
        obtain ⟨c2, hc2, hlo, hhi⟩ := ih ⟨r.sink, r.poisoned, r.evs⟩ hq'
        simp only at hc2
        rcases hcase with ⟨ho, he⟩ | ⟨b, hbf, he, ho⟩
        · have hd : r.out = .done := by
            rcases ho with ho | ho
            · exact ho
            · exact absurd ho hb
          refine ⟨pre ++ c2, ?_, ?_, ?_⟩
          · show st.evs = (pre ++ c2) ++ (sendSeq ms ⟨r.sink, r.poisoned, r.evs⟩).2.evs
            rw [he, List.append_assoc]
            exact congrArg (fun x => pre ++ x) hc2
          · rw [countFailed_cons, faults_append, hz, if_pos hd]; simpa using hlo
          · rw [countFailed_cons, faults_append, hz, if_pos hd]; simpa using hhi
        · have hnd : r.out ≠ .done := by
            rcases ho with ho | ⟨k, ho⟩ <;> rw [ho] <;> simp
          refine ⟨pre ++ b :: c2, ?_, ?_, ?_⟩
          · show st.evs = (pre ++ b :: c2) ++ (sendSeq ms ⟨r.sink, r.poisoned, r.evs⟩).2.evs
            rw [he, List.append_assoc, List.cons_append]
            exact congrArg (fun x => pre ++ b :: x) hc2
          · rw [countFailed_cons, faults_append, hz, faults_cons, hbf, if_neg hnd]; simp; omega
          · rw [countFailed_cons, faults_append, hz, faults_cons, hbf, if_neg hnd]; simp; omega

def ReadEv.mapKind (f : Nat → Nat) : ReadEv → ReadEv
  | .fail k => .fail (f k)
  | .deliver n => .deliver n
def RecvOut.mapKind (f : Nat → Nat) : RecvOut → RecvOut
  | .readErr k => .readErr (f k)
  | .msg b => .msg b
  | .parse e => .parse e
  | .oom => .oom
  | .closed => .closed
  | .blocked => .blocked
  | .fault => .fault
def mapRecv (f : Nat → Nat) (r : RecvOut × RBuf × Bytes × List ReadEv) : RecvOut × RBuf × Bytes × List ReadEv :=
  (r.1.mapKind f, r.2.1, r.2.2.1, r.2.2.2.map (ReadEv.mapKind f))

def ReadRes.mapKind (f : Nat → Nat) : ReadRes → ReadRes
  | .err b k => .err b (f k)
  | .got b r n => .got b r n
  | .oom => .oom

theorem readStep_kind_blind (f : Nat → Nat) (b : RBuf) (ev : ReadEv) (rest : Bytes) :
    readStep b (ev.mapKind f) rest = (readStep b ev rest).mapKind f := by
  unfold readStep
  split
  · rfl
  · cases ev <;> rfl

/-- **Kind-blindness of the blocking receiver**: the window, the bytes still in the pipe, the number of reads and the outcome are
the same whatever kinds the failing reads carry; a returned read error carries the renamed kind. -/
theorem recv_kind_blind (f : Nat → Nat) (d : Dict) : ∀ (evs : List ReadEv) (b : RBuf) (rest : Bytes),
    recv d (evs.map (ReadEv.mapKind f)) b rest = mapRecv f (recv d evs b rest) := by
  intro evs
  induction evs with
  | nil =>
    intro b rest
    unfold recv
    cases hv : d.validate b.slice with
    | ok u => simp [mapRecv, RecvOut.mapKind]
    | fault x => simp [mapRecv, RecvOut.mapKind]
    | err e =>
      simp only [List.map_nil]
      split <;> simp [mapRecv, RecvOut.mapKind]
  | cons ev evs ih =>
    intro b rest
    rw [List.map_cons]
    unfold recv
    cases hv : d.validate b.slice with
    | ok u => simp [mapRecv, RecvOut.mapKind, ReadEv.mapKind]
    | fault x => simp [mapRecv, RecvOut.mapKind]
    | err e =>
      simp only
      split
      · simp [mapRecv, RecvOut.mapKind]
      · rw [readStep_kind_blind]
        cases hs : readStep b ev rest with
        | oom => simp [ReadRes.mapKind, mapRecv, RecvOut.mapKind]
        | err b1 k => simp [ReadRes.mapKind, mapRecv, RecvOut.mapKind]
        | got b1 rest1 n =>
          simp only [ReadRes.mapKind]
          split
          · simp [mapRecv, RecvOut.mapKind]
          · exact ih _ _

theorem readStep_err_inv {b b1 : RBuf} {ev : ReadEv} {rest : Bytes} {k : Nat} (h : readStep b ev rest = .err b1 k) :
    ev = .fail k := by
  unfold readStep at h
  split at h
  · cases h
  · cases ev with
    | fail k' => simp only [ReadRes.err.injEq] at h; rw [h.2]
    | deliver c => cases h

theorem readStep_got_inv {b b1 : RBuf} {ev : ReadEv} {rest rest1 : Bytes} {n : Nat} (h : readStep b ev rest = .got b1 rest1 n) :
    ∃ c, ev = .deliver c := by
  unfold readStep at h
  split at h
  · cases h
  · cases ev with
    | fail k' => cases h
    | deliver c => exact ⟨c, rfl⟩

/-- **A read error returned by `recv` is the error of the failing read**, every earlier read of this call delivered bytes, and the
script continues right after it. -/
theorem recv_err_is_pipes_error (d : Dict) : ∀ (evs : List ReadEv) (b : RBuf) (rest : Bytes) (k : Nat) (b' : RBuf) (rest' : Bytes)
    (evs' : List ReadEv), recv d evs b rest = (.readErr k, b', rest', evs') →
      ∃ pre, evs = pre ++ .fail k :: evs' ∧ ∀ e ∈ pre, ∃ c, e = .deliver c := by
  intro evs
  induction evs with
  | nil =>
    intro b rest k b' rest' evs' h
    unfold recv at h
    cases hv : d.validate b.slice with
    | ok u => simp [hv] at h
    | fault x => simp [hv] at h
    | err e =>
      simp only [hv] at h
      split at h <;> simp at h
  | cons ev evs ih =>
    intro b rest k b' rest' evs' h
    unfold recv at h
    cases hv : d.validate b.slice with
    | ok u => simp [hv] at h
    | fault x => simp [hv] at h
    | err e =>
      simp only [hv] at h
      split at h
      · simp at h
      · cases hs : readStep b ev rest with
        | oom => simp [hs] at h
        | err b1 k' =>
          simp only [hs, Prod.mk.injEq, RecvOut.readErr.injEq] at h
          obtain ⟨hk, _, _, he⟩ := h
          subst hk; subst he
          exact ⟨[], by simp [readStep_err_inv hs], by simp⟩
        | got b1 rest1 n =>
          simp only [hs] at h
          obtain ⟨c, hc⟩ := readStep_got_inv hs
          split at h
          · simp at h
          · obtain ⟨pre, h1, h2⟩ := ih _ _ k b' rest' evs' h
            refine ⟨ev :: pre, by simp [h1], ?_⟩
            intro e he
            rcases List.mem_cons.mp he with rfl | he
            · exact ⟨c, hc⟩
            · exact h2 e he

def AEv.mapKind (f : Nat → Nat) : AEv → AEv
  | .err k => .err (f k)
  | .ok n => .ok n
  | .pending => .pending
def APoll.mapKind (f : Nat → Nat) : APoll → APoll
  | .err k => .err (f k)
  | .flushErr k => .flushErr (f k)
  | .pending => .pending
  | .done => .done
  | .brokenPipe => .brokenPipe
  | .blocked => .blocked

/-- **Kind-blindness of `WriteAll::poll`** (one poll of the async sender, `poll_write` and `poll_flush` errors alike). -/
theorem apoll_kind_blind (f : Nat → Nat) (msg : Bytes) : ∀ (evs : List AEv) (st : AState),
    apoll msg (evs.map (AEv.mapKind f)) st =
      ((apoll msg evs st).1.mapKind f, (apoll msg evs st).2.1, (apoll msg evs st).2.2.map (AEv.mapKind f)) := by
  intro evs
  induction evs with
  | nil =>
    intro st
    unfold apoll
    split <;> simp [APoll.mapKind]
  | cons ev evs ih =>
    intro st
    rw [List.map_cons]
    unfold apoll
    split
    · cases ev <;> simp [AEv.mapKind, APoll.mapKind]
    · cases ev with
      | pending => simp [AEv.mapKind, APoll.mapKind]
      | err k => simp [AEv.mapKind, APoll.mapKind]
      | ok n =>
        simp only [AEv.mapKind]
        split
        · simp [APoll.mapKind]
        · exact ih _
end FV
#print axioms FV.writeAll_kind_blind
#print axioms FV.writeAll_err_is_first_failure
#print axioms FV.recv_kind_blind
#print axioms FV.recv_err_is_pipes_error
#print axioms FV.apoll_kind_blind
#print axioms FV.sendSeq_faults_surface
